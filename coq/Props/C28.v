(* C28 — grammar matching always terminates (tpl/matcher/match.go: gRepeat0/1.Match, Var.Match,
   Var.First; tpl/cl/compile.go).  Theorems only; proofs in Proofs/TplTerm.v.

   [productive rk nl env] is a decidable certificate check (Model/TplProd.v): ranks rule out left
   recursion, may-be-empty flags rule out repetition bodies that match the empty input. *)
From Coq Require Import List NArith ZArith Bool Arith.
Import ListNotations.
From V Require Import Base.Prelude Base.TplRes Gen.Tokens Model.C31 Model.Tpl Model.TplCl Model.TplProd
  Proofs.Tpl Proofs.TplTerm Proofs.TplSafe Gen.TplFirst Proofs.TplFirst Model.TplRp Proofs.TplRpTerm.
Local Open Scope nat_scope.

(* termination with an explicit fuel bound, for every productive grammar, every input, every
   start rule:  fuel_bound = 1 + (|toks|+1) * (R+1) * W   (R = 1 + max rank, W = 2 + max body size) *)
Theorem C28_match_terminates : forall rk nl env toks doc, productive rk nl env = true ->
  is_fuel (match_doc env toks (fuel_bound rk env toks) doc) = false.
Proof. exact match_terminates. Qed.

(* the result does not depend on the fuel beyond the bound *)
Theorem C28_result_stable : forall rk nl env toks doc f, productive rk nl env = true ->
  fuel_bound rk env toks <= f -> match_doc env toks f doc = match_doc env toks (fuel_bound rk env toks) doc.
Proof. exact match_result_stable. Qed.

(* WITH result rewriters (RetProcs).  Model/TplRp.v [runp] models Var.RetProc and what every combinator does
   with a runtime (Dyn) error: gSequence / gRepeat0 / gRepeat1 keep going, +R returns at once for an error of
   its first repetition, ?R swallows it, gAdjoin aborts on the left operand's and keeps the right operand's,
   Choices treats it as a failed option and reports the error with the largest n, Var passes it up.
   Termination holds for every productive grammar and every assignment of rewriters that raise an error only
   for a token result (identity, wrap, reject-literal with a Dyn or a plain error), same fuel bound *)
Theorem C28_match_terminates_with_retprocs : forall rk nl env rps toks doc, productive rk nl env = true ->
  envp_safe (attach env rps) = true ->
  is_fuel (match_doc_rp (attach env rps) toks (fuel_bound rk env toks) doc) = false.
Proof. exact match_terminates_rp. Qed.

(* the restriction on the rewriters is necessary — known finding: a rewriter that raises a Dyn error for a rule
   that matched NO token makes *R spin:  doc = *(a ++ INT)  a = ?IDENT  RetProc(a) = panic("boom"), input "1":
   productive, yet out of any fuel *)
Theorem C28_retproc_dyn_on_empty_match_refuted :
  productive [1; 0] [true; true] (bodies env_boom) = true /\
  forall f, match_doc_rp env_boom toks_one_int f 0 = OutOfFuel.
Proof. split; [vm_compute; reflexivity|exact boom_diverges]. Qed.

(* matching never panics either: every grammar cl.NewEx returns has one stop flag per choice option
   (CheckConflicts), and on scanner tokens no index leaves the input — for ANY compiled grammar *)
Theorem C28_compiled_match_no_panic : forall unq rs env doc toks f s,
  compile unq rs = Ok (Some (env, doc)) -> forallb tok_ok toks = true ->
  run env toks f (SM (MVar s) 0) <> Panic.
Proof. exact compiled_match_no_panic. Qed.

(* together: on a compiled productive grammar Doc.Match RETURNS (n, result, err) within the bound *)
Theorem C28_compiled_productive_match_returns : forall unq rs env doc rk nl toks,
  compile unq rs = Ok (Some (env, doc)) -> productive rk nl env = true -> forallb tok_ok toks = true ->
  exists r, match_doc env toks (fuel_bound rk env toks) doc = Ok r.
Proof. exact compiled_productive_match_returns. Qed.

(* K-gen: the first/mayEmpty combination rule of every Matcher.First method, regenerated from
   tpl/matcher/match.go on every run, is the one the model's [first] (hence its RecursiveError
   verdict = the compile-time rejection of left recursion) implements *)
Theorem C28_first_rules_match_source : tplfirst_rules = model_first_rules.
Proof. exact first_rules_match_source. Qed.
(* rule ANY of Choices.First: a nullable option at ANY index (first, middle, last) makes the choice
   nullable, so a rule reference after it is in a first position *)
Theorem C28_choice_nullable_at_any_index : forall env f vis pre o post acc a me' accp mep ao,
  first_opts env f vis pre acc false = FOk accp mep ->
  first env f vis o accp = FOk ao true ->
  first env (S f) vis (MChoice (pre ++ o :: post) []) acc = FOk a me' -> me' = true.
Proof. intros env f vis pre o post acc a me' accp mep ao H1 H2 H3. rewrite first_choice_unfold in H3.
  exact (rule_any_nullable_option env f vis pre o post acc a me' accp mep ao H1 H2 H3). Qed.
(* rule PREFIX of gSequence.First *)
Theorem C28_sequence_first_prefix : forall env f vis i j t acc a,
  (first env f vis i acc = FOk a false -> first env (S f) vis (MSeq (i :: j :: t)) acc = FOk a false) /\
  (first env f vis i acc = FOk a true -> first env (S f) vis (MSeq (i :: j :: t)) acc = first_items env f vis (j :: t) a).
Proof. intros. rewrite first_seq_unfold. split; intros H; [apply rule_prefix_stop|apply rule_prefix_continue]; auto. Qed.

(* The property as stated needs "compiles -> productive".  The faithful model refutes it, exactly
   as the implementation does (known findings): both grammars compile, have no certificate, and
   the match runs out of ANY fuel. *)
Definition unq_plus (k : bool) (l : str) : uq := UqStr [43%N].
Definition doc : str := [100; 111; 99]%N.
Definition g_nullable_rep : list rule := [(doc, EUn UMul (EUn UQuest (EIdent [73;68;69;78;84]%N)))].        (* doc = *(?IDENT) *)
Definition g_left_rec : list rule :=
  [(doc, ESeq [EIdent doc; ELit false [34;43;34]%N; EIdent [73;68;69;78;84]%N])].                          (* doc = doc "+" IDENT *)

Theorem C28_compile_accepts_nullable_rep_refuted :
  compile unq_plus g_nullable_rep = Ok (Some (env_nullable_rep, 0)) /\
  (forall f, match_doc env_nullable_rep [] f 0 = OutOfFuel) /\
  (forall rk nl, productive rk nl env_nullable_rep = false).
Proof. split; [vm_compute; reflexivity|]. split; [exact nullable_rep_diverges|exact nullable_rep_not_productive]. Qed.

Theorem C28_compile_accepts_left_rec_refuted :
  compile unq_plus g_left_rec = Ok (Some (env_left_rec, 0)) /\
  (forall f, match_doc env_left_rec [] f 0 = OutOfFuel) /\
  (forall rk nl, productive rk nl env_left_rec = false).
Proof. split; [vm_compute; reflexivity|]. split; [exact left_rec_diverges|exact left_rec_not_productive]. Qed.

(* left recursion hidden behind a choice whose NON-last alternative is nullable is rejected at compile time:
     item = INT | (?"-" | "+") item "!"        (RecursiveError -> Ok None) *)
Definition unq_op (k : bool) (l : str) : uq := match l with [_; c; _] => UqStr [c] | _ => UqErr end.
Definition item : str := [105;116;101;109]%N.
Example C28_example_hidden_left_rec_rejected :
  compile unq_op [(item, EChoice [EIdent [73;78;84]%N;
                                  ESeq [EChoice [EUn UQuest (ELit false [34;45;34]%N); ELit false [34;43;34]%N];
                                        EIdent item; ELit false [34;33;34]%N]])] = Ok None.
Proof. vm_compute. reflexivity. Qed.

(* doc = +num  num = INT  with a rewriter on num rejecting 0 by a Dyn error, input 1 2 0 3: the repetition keeps
   going after the Dyn error of its third element and returns all four with that error *)
Example C28_example_retproc_dyn :
  match_doc_rp [Some (MRep1 (MVar 1), None); Some (MTok 5, Some (RpRejDyn [48%N]))]
               [mkT 5 [49%N] 1; mkT 5 [50%N] 3; mkT 5 [48%N] 5; mkT 5 [51%N] 7]%Z 40 0
  = Ok (4, RList [RTok 0; RTok 1; RTok 2; RTok 3], EDyn).
Proof. vm_compute. reflexivity. Qed.

(* non-vacuity: the README calculator grammar with a recursive operand is productive
     expr = operand % ("*"|"/") % ("+"|"-")        operand = INT | "-" operand | "(" expr ")"
   certificate: rank expr = 1 > rank operand = 0, neither may be empty *)
Definition calc_env : list (option m) :=
  [Some (MList (MList (MVar 1) (MChoice [MTok 42; MTok 47] [true; true])) (MChoice [MTok 43; MTok 45] [true; true]));
   Some (MChoice [MTok 5; MSeq [MTok 45; MVar 1]; MSeq [MTok 40; MVar 0; MTok 41]] [true; true; true])]%Z.
Example C28_example_productive : productive [1; 0] [false; false] calc_env = true /\ is_productive calc_env = true.
Proof. split; vm_compute; reflexivity. Qed.
(* "( 1 + 2 ) * 3" : 7 tokens, all consumed *)
Example C28_example_run :
  let toks := [mkT 40 [] 1; mkT 5 [49%N] 2; mkT 43 [] 3; mkT 5 [50%N] 4; mkT 41 [] 5; mkT 42 [] 6; mkT 5 [51%N] 7]%Z in
  exists r, match_doc calc_env toks (fuel_bound [1; 0] calc_env toks) 0 = Ok (7, r, false).
Proof. eexists. vm_compute. reflexivity. Qed.

Print Assumptions C28_match_terminates.
Print Assumptions C28_result_stable.
Print Assumptions C28_match_terminates_with_retprocs.
Print Assumptions C28_retproc_dyn_on_empty_match_refuted.
Print Assumptions C28_first_rules_match_source.
Print Assumptions C28_choice_nullable_at_any_index.
Print Assumptions C28_sequence_first_prefix.
Print Assumptions C28_compiled_match_no_panic.
Print Assumptions C28_compiled_productive_match_returns.
Print Assumptions C28_compile_accepts_nullable_rep_refuted.
Print Assumptions C28_compile_accepts_left_rec_refuted.
