(* C11 — a normal .gox class file behaves like its explicit struct form.  Theorems only; proofs in Proofs/C11.v. *)
From Coq Require Import List NArith ZArith Bool.
Import ListNotations.
From V Require Import Base.Prelude Model.C11 Proofs.C11.
Open Scope Z_scope.

(* THE STRUCT: the fields of the class type are exactly what the var block declares, in order, each name once
   (a redeclared name keeps its first declaration: cl reports it and skips it); when no name is declared twice
   the struct is literally the concatenation of the declarations: embedded types keep their type expression
   and are named by their last identifier, named fields keep type and tag. *)
Theorem C11_class_fields_exact : forall specs,
  class_fields specs = dedup [] (all_declared (map parse_spec specs)).
Proof. exact class_fields_exact. Qed.

Theorem C11_class_fields_exact_nodup : forall specs,
  NoDup (map fname (all_declared (map parse_spec specs))) ->
  class_fields specs = all_declared (map parse_spec specs).
Proof. exact class_fields_exact_nodup. Qed.

Theorem C11_class_fields_nodup : forall specs, NoDup (map fname (class_fields specs)).
Proof. exact class_fields_nodup. Qed.

(* THE METHODS: every function of the class file yields exactly one Go function and nothing else is added;
   a plain `func name(..)` is the method `func (this *Class) name(..)` *)
Theorem C11_class_methods_exact : forall cls fs g,
  In g (class_funcs cls fs) <-> exists n k, In (n, k) fs /\ g = class_func cls n k.
Proof. exact class_methods_exact. Qed.

Theorem C11_class_plain_is_method : forall cls fs n,
  In (n, FPlain) fs -> In (mkgofunc n (Some (this_, cls, true))) (class_funcs cls fs).
Proof. exact class_plain_is_method. Qed.

Theorem C11_class_funcs_count : forall cls fs, length (class_funcs cls fs) = length fs.
Proof. exact class_funcs_length. Qed.

(* BEHAVIOUR: for every class of the small language (any fields, any methods, any bodies: assignments, := with
   shadowing, if/else with block scope, recursion, calls of other methods, prints), any fuel, any globals and any
   sequence of calls: running the class form (a bare name is the innermost local in scope, else a field or
   method of `this`, else a global) gives the same results, trace, final fields and globals as running the
   desugared explicit form (fields only through this.f, methods only through this.m) — including Undefined
   and out-of-fuel outcomes. *)
Theorem C11_class_equiv : forall fuel c globals calls,
  run_class fuel c globals calls = run_explicit fuel c globals calls.
Proof. exact class_equiv. Qed.

(* the class-form semantics used above is ordinary lexical scoping: deciding "local or member" by the static list
   of names in scope gives, for every program, the same result as deciding it by what the environment binds *)
Theorem C11_static_scope_is_lexical : forall fuel c globals calls,
  run_class fuel c globals calls = run_class_dyn fuel c globals calls.
Proof. exact class_static_is_lexical. Qed.

(* the explicit form needs no class machinery any more: desugaring it again changes nothing *)
Theorem C11_desugar_idempotent : forall c, desugar_class (desugar_class c) = desugar_class c.
Proof. exact desugar_class_idem. Qed.

(* the var block is found wherever it stands among the leading imports, consts and types (ClassFieldsDecl), so the
   struct is the same whatever precedes it *)
Theorem C11_class_struct_any_order : forall pre s rest,
  forallb skipped pre = true -> class_struct (pre ++ TVar s :: rest) = class_fields s.
Proof. exact class_struct_any_order. Qed.

(* BEHAVIOUR with two instances (own fields each, shared globals, interleaved calls): class form = explicit form *)
Theorem C11_class_equiv_two_instances : forall fuel c globals calls,
  run2_class fuel c globals calls = run2_explicit fuel c globals calls.
Proof. exact class_equiv_two. Qed.

Theorem C11_static_scope_is_lexical_two_instances : forall fuel c globals calls,
  run2_class fuel c globals calls = run2_dyn fuel c globals calls.
Proof. exact class_lexical_two. Qed.

Example C11_struct_order_example :
  class_struct [TImport; TConst; TType; TVar [SpIdents [[110]%N] (Some [105;110;116]%N) None]; TType; TFunc] <> [] /\
  class_struct [TImport; TFunc; TVar [SpIdents [[110]%N] (Some [105;110;116]%N) None]] = [].
Proof. split; [vm_compute; discriminate|reflexivity]. Qed.

(* ---- non-vacuity ---- *)
Definition w : str := [119]%N. Definition h : str := [104]%N. Definition n : str := [110]%N.
Definition a : str := [97]%N. Definition gv : str := [103;118]%N.
Definition m1 : str := [109;49]%N. Definition m2 : str := [109;50]%N.

(* var ( w, h int; n int )
   func m1(a int) int { w = w + a; h := w + 1; echo h; if h < 10 { n = m2(h); w := 7; echo w } else { gv = gv + 1 }; echo w; return n + h + gv }
   func m2(w int) int { echo w; this.w = this.w + 1; return w * 2 } *)
Definition sample : class :=
  mkclass [w; h; n]
    [ mkmethod m1 a
        (SCons (SAssign w (EAdd (EId w) (EId a)))
        (SCons (SDefine h (EAdd (EId w) (EInt 1)))
        (SCons (SPrint (EId h))
        (SCons (SIf (ELt (EId h) (EInt 10))
                  (SCons (SAssign n (ECall m2 (EId h))) (SCons (SDefine w (EInt 7)) (SCons (SPrint (EId w)) SNil)))
                  (SCons (SAssign gv (EAdd (EId gv) (EInt 1))) SNil))
        (SCons (SPrint (EId w))
        (SCons (SReturn (EAdd (EAdd (EId n) (EId h)) (EId gv))) SNil))))));
      mkmethod m2 w
        (SCons (SPrint (EId w))
        (SCons (SThisAssign w (EAdd (EThis w) (EInt 1)))
        (SCons (SReturn (EMul (EId w) (EInt 2))) SNil))) ].

(* the desugaring is not the identity: h is a field in `w + a`'s statement but a local after `h := ..`;
   m2's parameter w shadows the field *)
Example C11_sample_desugar :
  mbody (desugar_method sample (mkmethod m2 w (SCons (SReturn (EAdd (EId w) (EId h))) SNil)))
  = SCons (SReturn (EAdd (EId w) (EThis h))) SNil.
Proof. vm_compute. reflexivity. Qed.

Example C11_sample_runs :
  exists st, run_class 50 sample [gv] [(m1, 3); (m1, 5)] = Val ([12; 19]%Z, st) /\
             strace st = [4; 4; 7; 4; 10; 9]%Z /\ sfields st = [(w, 9); (h, 0); (n, 8)] /\ sglobals st = [(gv, 1)].
Proof. eexists. split; [vm_compute; reflexivity|]. vm_compute. auto. Qed.

Example C11_fields_example :
  map (fun f => (fname f, fembedded f))
      (class_fields [SpIdents [w; h] (Some [105;110;116]%N) None; SpIdents [n] None None; SpStar a None;
                     SpStarSel gv m1 (Some m2); SpIdents [w; m2] (Some [105;110;116]%N) None])
  = [(w, false); (h, false); (n, true); (a, true); (m1, true); (m2, false)].
Proof. vm_compute. reflexivity. Qed.

Print Assumptions C11_class_fields_exact.
Print Assumptions C11_class_fields_exact_nodup.
Print Assumptions C11_class_fields_nodup.
Print Assumptions C11_class_methods_exact.
Print Assumptions C11_class_plain_is_method.
Print Assumptions C11_class_equiv.
Print Assumptions C11_static_scope_is_lexical.
Print Assumptions C11_desugar_idempotent.
Print Assumptions C11_class_struct_any_order.
Print Assumptions C11_class_equiv_two_instances.
Print Assumptions C11_static_scope_is_lexical_two_instances.

(* member beats universe: a field named `min` and a method named `len`, used by their bare names inside the class,
   are desugared to this.min / this.len(..) like any other member (no universe scope exists below the members in
   the model: a bare name that is neither local nor member is a package-level name) *)
Example C11_universe_names_example :
  let min := [109;105;110]%N in let len := [108;101;110]%N in let v := [118]%N in
  mbody (desugar_method (mkclass [min] [mkmethod len v SNil])
           (mkmethod len v (SCons (SAssign min (ECall len (EId min))) SNil)))
  = SCons (SThisAssign min (EThisCall len (EThis min))) SNil.
Proof. vm_compute. reflexivity. Qed.
