(* C03 — the error-wrapping operators expr!, expr?, expr?:d behave as documented.
   Theorems only; proofs in Proofs/C03.v.

   lower_closure / quest_prelude : models of cl/expr.go compileErrWrapExpr (closure form for ! and ?:,
   hoisted inline block for ?) into MiniGo.  The wrapped expression x is ANY expression that is
   `stable`: it evaluates to the tuple (vs..., err) with events tx regardless of compiler-generated
   names in scope (opaque calls ECallP and pure user expressions are stable).  The number n of
   values is arbitrary (length zs = length vs).  errors.NewFrame(e, ...) = EFrame e, whose root
   (err_root) is e. *)
From Coq Require Import List ZArith NArith Bool.
Import ListNotations.
From V Require Import Base.Prelude Model.MiniGo Model.ErrWrap Proofs.MiniGo Proofs.C03.
Open Scope Z_scope.

(* expr! : the values when err == nil; panic(NewFrame(err)) otherwise; x evaluated once (tx once) *)
Theorem C03_errwrap_bang : forall err_text self en x zs vs eo tx tr,
  length vs = length zs -> stable err_text self en x (vs ++ [VErr eo]) tx ->
  ev err_text self (lower_closure KBang x zs) en tr =
  match eo with
  | None => (RVal vs, en, tr ++ tx)
  | Some e => (RPanic (VErr (Some (EFrame e))), en, tr ++ tx)
  end.
Proof. exact bang_eval. Qed.

(* expr?:d : the values when err == nil (d is NOT evaluated); d otherwise; x evaluated once *)
Theorem C03_errwrap_default : forall err_text self en x d zs vs eo tx dv td tr,
  length vs = length zs ->
  stable err_text self en x (vs ++ [VErr eo]) tx -> stable err_text self en d [dv] td ->
  ev err_text self (lower_closure (KDefault d) x zs) en tr =
  match eo with
  | None => (RVal vs, en, tr ++ tx)
  | Some _ => (RVal [dv], en, (tr ++ tx) ++ td)
  end.
Proof. exact default_eval. Qed.

(* expr? when err == nil: execution continues after the hoisted block with _autoGo_N bound to the
   values, which is what the use site reads; x evaluated once *)
Theorem C03_errwrap_q_ok : forall err_text self en x zs vs encl base tx tr rest,
  length vs = length zs -> stable err_text self en x (vs ++ [VErr None]) tx ->
  ex err_text self (SSeq (quest_prelude x zs encl base) rest) en tr
    = ex err_text self rest (rev (combine (autos base (length zs)) vs) ++ en) (tr ++ tx)
  /\ forall tr', ev_list err_text self (quest_value zs base) (rev (combine (autos base (length zs)) vs) ++ en) tr'
                 = (RVal vs, rev (combine (autos base (length zs)) vs) ++ en, tr').
Proof. exact quest_ok. Qed.

(* expr? when err != nil: the ENCLOSING function returns its zero values and NewFrame(err); nothing
   after the wrapped call is executed (the trace is tr ++ tx whatever `rest` is) *)
Theorem C03_errwrap_q_err : forall err_text self en x zs vs e encl base tx tr rest,
  length vs = length zs -> stable err_text self en x (vs ++ [VErr (Some e)]) tx ->
  exists en', ex err_text self (SSeq (quest_prelude x zs encl base) rest) en tr
              = (RRet (encl ++ [VErr (Some (EFrame e))]), en', tr ++ tx).
Proof. exact quest_err. Qed.

(* the same, seen from the caller of the enclosing function  func() (rs...) { <block>; rest }():
   the call yields the zero values + NewFrame(err), the caller's environment is unchanged, and only
   the wrapped expression has run *)
Theorem C03_errwrap_q_err_function : forall err_text self en rs x zs vs e encl base tx tr rest,
  length vs = length zs -> stable err_text self (rev rs ++ en) x (vs ++ [VErr (Some e)]) tx ->
  ev err_text self (EClosure rs (SSeq (quest_prelude x zs encl base) rest)) en tr
  = (RVal (encl ++ [VErr (Some (EFrame e))]), en, tr ++ tx).
Proof. exact quest_err_function. Qed.

(* the wrapped error keeps its root *)
Theorem C03_frame_root : forall e, err_root (EFrame e) = err_root e.
Proof. reflexivity. Qed.

(* evaluated exactly once, counted on the trace for an opaque callee f_id *)
Theorem C03_errwrap_eval_once : forall err_text self id rs k zs vs eo en tr dv td,
  rs = vs ++ [VErr eo] -> length vs = length zs ->
  match k with KDefault d => stable err_text self en d [dv] td /\ calls id td = 0%nat | _ => True end ->
  k <> KQuest ->
  calls id (snd (ev err_text self (lower_closure k (ECallP id rs) zs) en tr)) = S (calls id tr).
Proof. exact eval_once_closure. Qed.

(* the hypotheses are satisfiable: opaque calls and pure user expressions are stable *)
Theorem C03_stable_callp : forall err_text self en id rs, stable err_text self en (ECallP id rs) rs [Ev id []].
Proof. exact stable_callp. Qed.
(* a call WITH arguments (parenthesised or command style, after spreading `xs...`): the callee sees exactly
   the argument values, in order, evaluated once each; nested error-wrapped calls as arguments are covered by
   C03_errwrap_bang / _default, whose results are stable values again *)
Theorem C03_stable_call_with_args : forall err_text self en id args rs vs targs,
  stable_args err_text self en args vs targs ->
  stable err_text self en (ECallA id args rs) rs (targs ++ [Ev id vs]).
Proof. exact stable_calla. Qed.
Theorem C03_stable_pure : forall err_text self en e v t, pure_eval en e v t -> user_only e = true ->
  stable err_text self en e [v] t.
Proof. exact stable_pure. Qed.

(* REFUTED (known finding): expr? with two or more values is rejected by the toolchain
   ("assignment mismatch: 2 variables but 1 values") although the property gives it a meaning *)
Theorem C03_quest_multi_value_refuted : forall x z1 z2 pos, case_prog KQuest x [z1; z2] pos = None.
Proof. reflexivity. Qed.

(* non-vacuity: x, err-returning callee f1 = (5, E), `v := f1()?` inside func() (int, error) *)
Example C03_example_q_err :
  match case_prog KQuest (ECallP 1 [VInt 5; VErr (Some (EBase 1))]) [VInt 0] PDefine with
  | Some p => eval (fun _ => []) 3 p [] [] = (RVal [VInt 0; VErr (Some (EFrame (EBase 1)))], [], [Ev 1%N []])
  | None => False
  end.
Proof. vm_compute. reflexivity. Qed.
Example C03_example_q_ok :
  match case_prog KQuest (ECallP 1 [VInt 5; VErr None]) [VInt 0] PDefine with
  | Some p => eval (fun _ => []) 3 p [] [] = (RVal [VInt 7; VErr None], [], [Ev 1%N []; Ev 100%N [VInt 5]])
  | None => False
  end.
Proof. vm_compute. reflexivity. Qed.
Example C03_example_bang2 :
  ev (fun _ => []) (fun _ en tr => (RFuel, en, tr)) (lower_closure KBang (ECallP 1 [VInt 5; VStr [115]%N; VErr None]) [VInt 0; VStr []]) [] []
  = (RVal [VInt 5; VStr [115]%N], [], [Ev 1%N []]).
Proof. vm_compute. reflexivity. Qed.
Example C03_example_default :
  ev (fun _ => []) (fun _ en tr => (RFuel, en, tr)) (lower_closure (KDefault (EConst (VInt 42))) (ECallP 1 [VInt 5; VErr (Some (EBase 1))]) [VInt 0]) [] []
  = (RVal [VInt 42], [], [Ev 1%N []]).
Proof. vm_compute. reflexivity. Qed.

Example C03_example_variadic_spread :
  ev (fun _ => []) (fun _ en tr => (RFuel, en, tr))
     (lower_closure KBang (ECallA 200 [EConst (VInt 1); EConst (VInt 2); EConst (VInt 3)] [VErr None]) []) [] []
  = (RVal [], [], [Ev 200%N [VInt 1; VInt 2; VInt 3]]).
Proof. vm_compute. reflexivity. Qed.

Print Assumptions C03_errwrap_bang.
Print Assumptions C03_errwrap_default.
Print Assumptions C03_errwrap_q_ok.
Print Assumptions C03_errwrap_q_err.
Print Assumptions C03_errwrap_q_err_function.
Print Assumptions C03_errwrap_eval_once.
Print Assumptions C03_stable_callp.
Print Assumptions C03_stable_call_with_args.
Print Assumptions C03_stable_pure.
Print Assumptions C03_quest_multi_value_refuted.
