(* C26 — `xgo fmt` never loses a file at any crash point and keeps its mode
   (cmd/internal/gopfmt/fmt.go: writeFileWithBackup).  Theorems only; proofs in Proofs/C26.v.

   run_wfb e fl s interprets the statement list REGENERATED from the source (Gen/FmtOps.v) over the
   file-system model of Model/C26.v, starting in file system s; fl says which calls fail and how
   f.Write is split into write calls (any split, failing after any prefix).  crash_state e fl s k is the
   file system after a crash that let exactly the first k mutating system calls of that run through.
   wf0 e s old m: before the call, path leads (directly or through a symbolic link) to a file with
   content old and permission bits m, and the temporary name / inode are fresh (os.CreateTemp). *)
From Coq Require Import List NArith Bool Arith.
Import ListNotations.
From V Require Import Base.C26Ops Gen.FmtOps Model.C26 Proofs.C26.

(* K-gen obligation: the statement sequence read from the source is the modelled one *)
Theorem C26_tie_ops : gen_wfb = model_wfb.
Proof. exact gen_is_model. Qed.

(* crash_safe: at EVERY crash point of EVERY run (any faults, any write split) the path holds the
   complete old content with the old mode, or — only after the last call of a fully successful run —
   the complete new content *)
Theorem C26_crash_safe : forall e fl s old m k,
  wf0 e s old m -> (wr_ok fl = true -> concat (wr fl) = target e) ->
  read (crash_state e fl s k) (path e) = Some (old, m) \/
  (succeeds fl = true /\ length (trace (run_wfb e fl s)) <= k /\
   read (crash_state e fl s k) (path e) = Some (target e, new_mode fl m)).
Proof. exact g_crash_safe. Qed.

(* the complete run: it reports no error iff everything the rename needs succeeded; then the path holds
   the new content; otherwise the error is reported and the file is untouched *)
Theorem C26_run_result : forall e fl s old m,
  wf0 e s old m -> (wr_ok fl = true -> concat (wr fl) = target e) ->
  if succeeds fl
  then err (run_wfb e fl s) = false /\ read (cur (run_wfb e fl s)) (path e) = Some (target e, new_mode fl m)
  else err (run_wfb e fl s) = true /\ read (cur (run_wfb e fl s)) (path e) = Some (old, m).
Proof. exact g_run_result. Qed.

(* mode_kept: after a successful run the permission bits (as stat sees them through the path) are the
   original ones — provided os.Stat(path) itself did not fail *)
Theorem C26_mode_kept : forall e fl s old m,
  wf0 e s old m -> concat (wr fl) = target e -> succeeds fl = true -> fl_stat fl = false ->
  read (cur (run_wfb e fl s)) (path e) = Some (target e, m).
Proof. exact g_mode_kept. Qed.

(* remark (model only; needs a failing stat on a readable file): if os.Stat fails the code goes on
   silently and the file ends up 0600 *)
Theorem C26_mode_lost_if_stat_fails : forall e fl s old m,
  wf0 e s old m -> concat (wr fl) = target e -> succeeds fl = true -> fl_stat fl = true ->
  read (cur (run_wfb e fl s)) (path e) = Some (target e, 384%N).
Proof. exact g_mode_lost_if_stat_fails. Qed.

(* a run that reports an error leaves no temporary file behind (unless os.Remove itself fails) — in particular
   when only the final rename fails: error reported, temporary file removed, the file untouched *)
Theorem C26_no_temp_left_on_failure : forall e fl s old m,
  wf0 e s old m -> succeeds fl = false -> fl_remove fl = false -> ents (cur (run_wfb e fl s)) (tmp e) = None.
Proof. exact g_no_temp_left_on_failure. Qed.
Theorem C26_no_temp_left_on_rename_failure : forall e fl s old m,
  wf0 e s old m -> fl_rename fl = true -> fl_remove fl = false ->
  err (run_wfb e fl s) = true /\ ents (cur (run_wfb e fl s)) (tmp e) = None /\
  read (cur (run_wfb e fl s)) (path e) = Some (old, m).
Proof. exact g_no_temp_left_on_rename_failure. Qed.

(* the temporary file is created in the directory of the path (also for a bare file name), never in os.TempDir() *)
Theorem C26_temp_next_to_file : forall e fl s old m n i sd,
  wf0 e s old m -> In (SysCreate n i sd) (trace (run_wfb e fl s)) -> sd = true.
Proof. exact g_temp_next_to_file. Qed.

(* no other name of the directory changes, at any crash point *)
Theorem C26_others_untouched : forall e fl s old m k n,
  wf0 e s old m -> n <> tmp e -> n <> path e -> ents (crash_state e fl s k) n = ents s n.
Proof. exact g_others_untouched. Qed.

(* ---- non-vacuity ---- *)
Example C26_example_wf_regular : wf0 (env0 [7;8]%N false) (fs_regular [1]%N 420%N) [1]%N 420%N.
Proof. vm_compute. repeat split; congruence. Qed.
Example C26_example_wf_symlink : wf0 (env0 [7;8]%N false) (fs_symlink [1]%N 416%N) [1]%N 416%N.
Proof. vm_compute. repeat split; congruence. Qed.

Example C26_example_trace :
  trace (run_wfb (env0 [7;8]%N false) (no_faults [7;8]%N) (fs_regular [1]%N 420%N))
  = [SysCreate 3%N 11%N true; SysWrite 11%N [7;8]%N; SysStat true 1%N; SysFchmod 11%N 420%N; SysClose 11%N; SysRename 3%N 1%N].
Proof. vm_compute. reflexivity. Qed.

(* a path that is a symbolic link: the mode seen through the path is kept; the link target keeps the old content *)
Example C26_example_symlink :
  let r := run_wfb (env0 [7;8]%N false) (no_faults [7;8]%N) (fs_symlink [1]%N 416%N) in
  read (cur r) 1%N = Some ([7;8]%N, 416%N) /\ read (cur r) 2%N = Some ([1]%N, 416%N).
Proof. vm_compute. split; reflexivity. Qed.

(* a write that fails half way, split in two calls: every crash point keeps the old file, the run reports the error *)
Example C26_example_failing_write :
  let fl := mkFl false [[7]%N] false false false false false false in
  map (fun k => read (crash_state (env0 [7;8]%N false) fl (fs_regular [1]%N 420%N) k) 1%N) [0;1;2;3;4]
  = repeat (Some ([1]%N, 420%N)) 5 /\ err (run_wfb (env0 [7;8]%N false) fl (fs_regular [1]%N 420%N)) = true.
Proof. vm_compute. split; reflexivity. Qed.

(* a bare file name and a rename that fails: the temp file is created next to the file, the error is reported, the
   temporary name is gone and the file is untouched *)
Example C26_example_bare_rename_fails :
  let fl := mkFl false [[7;8]%N] true false false false false true in
  let r := run_wfb (env0 [7;8]%N true) fl (fs_regular [1]%N 420%N) in
  trace r = [SysCreate 3%N 11%N true; SysWrite 11%N [7;8]%N; SysStat true 1%N; SysFchmod 11%N 420%N; SysClose 11%N; SysUnlink 3%N]
  /\ err r = true /\ ents (cur r) 3%N = None /\ read (cur r) 1%N = Some ([1]%N, 420%N).
Proof. vm_compute. repeat split; reflexivity. Qed.

Print Assumptions C26_tie_ops.
Print Assumptions C26_crash_safe.
Print Assumptions C26_run_result.
Print Assumptions C26_mode_kept.
Print Assumptions C26_mode_lost_if_stat_fails.
Print Assumptions C26_others_untouched.
Print Assumptions C26_no_temp_left_on_failure.
Print Assumptions C26_no_temp_left_on_rename_failure.
Print Assumptions C26_temp_next_to_file.
