(* C14 — valid Go files parse to the same syntax tree as with go/parser.
   Theorems only; proofs in Proofs/C14*.v; model in Model/C14.v; token tables in Gen/Tokens.v.

   The theorems are about the expression / simple-statement core of the parser (Model/C14.v: one
   function P under a dialect record, differentially tested against BOTH real parsers).  Statements
   other than simple statements, declarations, types and composite literals are not modelled: for
   them the property is explored by the structural comparison of checks/c14.py.

   Full statement of C14 at statement level, for the real dialect (NOT a theorem: refuted below):
     forall ts s, parse_stmt go_dialect ts = Parsed s -> define_ok s -> parse_stmt xgo_dialect ts = Parsed s
   What is proved instead: the same for expressions without any side condition
   (C14_xgo_parse_conservative), for statements under the XGo dialect without the command-call rule
   (C14_stmt_conservative_nocmd_partial) and for statements not starting with an identifier
   (C14_stmt_conservative_nonident_partial).  A token-level guard characterising exactly the
   identifier-headed statements on which the command-call rule stays silent is not proved. *)
From Coq Require Import List NArith ZArith Bool.
Import ListNotations.
From V Require Import Base.Prelude Gen.Tokens Model.C14 Proofs.C14Tables Proofs.C14Unf Proofs.C14Aux Proofs.C14 Proofs.C14Fuel.
Local Open Scope Z_scope.

(* ---------------------------------------------------------------- token tables *)
(* every go/token constant has the same code under the same name in token/token.go *)
Theorem C14_go_codes_agree : go_codes_agree = true.
Proof. exact go_codes_agree_ok. Qed.

(* forall Go binary operator, prec_xgo op = prec_go op  (19 operators, by name) *)
Theorem C14_prec_agree_binary : prec_agree_binary = true /\ length go_binary_ops = 19%nat.
Proof. exact (conj prec_agree_binary_ok go_binary_ops_count). Qed.

(* for every token code whatsoever the two Precedence functions differ exactly on -> and <> *)
Theorem C14_prec_agree_all : forall c,
  xgo_Precedence c = if (c =? xgo_SRARROW) || (c =? xgo_BIDIARROW) then Ok 3 else go_Precedence c.
Proof. exact prec_agree. Qed.

(* ---------------------------------------------------------------- the simulation *)
(* from every parser state in which command calls are not allowed: if Go's parser succeeds and
   the next token is not one on which XGo goes on (! ? => -> <>), XGo's parser returns the same *)
Theorem C14_simulation : forall xd, d_xgo xd = true -> d_prec xd = xgo_Precedence ->
  forall f st ts r rest, st_ok xd st -> P go_dialect f st ts = POk r rest -> follow_ok rest -> P xd f st ts = POk r rest.
Proof. exact sim. Qed.

(* xgo_parse_conservative (expressions; no hypothesis on the tokens) *)
Theorem C14_xgo_parse_conservative : forall ts e,
  parse_expr go_dialect ts = Parsed e -> parse_expr xgo_dialect ts = Parsed e.
Proof. exact xgo_parse_conservative. Qed.

(* simple statements: every XGo extension except the command-call rule is conservative ... *)
Theorem C14_stmt_conservative_nocmd_partial : forall ts s,
  parse_stmt go_dialect ts = Parsed s -> define_ok s -> parse_stmt xgo_nocmd_dialect ts = Parsed s.
Proof. exact stmt_conservative_nocmd. Qed.

(* ... the real dialect is conservative on statements that do not start with an identifier ... *)
Theorem C14_stmt_conservative_nonident_partial : forall ts s,
  head_is_ident ts = false ->
  parse_stmt go_dialect ts = Parsed s -> define_ok s -> parse_stmt xgo_dialect ts = Parsed s.
Proof. exact stmt_conservative_nonident. Qed.

(* ... and the command-call rule is not conservative: `ch <-v` is a send statement for Go and the
   command call ch(<-v) for XGo; `f (x)` is f(x) for Go and the command call f((x)) for XGo *)
Theorem C14_stmt_conservative_refuted :
  exists ts s, parse_stmt go_dialect ts = Parsed s /\ define_ok s /\ parse_stmt xgo_dialect ts <> Parsed s.
Proof. exact stmt_cmd_refuted. Qed.

(* ---------------------------------------------------------------- totality of the model *)
(* every successful step only consumes tokens; the operand-parsing states consume at least one *)
Theorem C14_results_shrink : forall d f st ts r rest,
  P d f st ts = POk r rest -> (length rest <= length ts)%nat /\ (strict st = true -> (length rest < length ts)%nat).
Proof. exact P_len. Qed.

(* 6*|tokens| + rank + 1 units of fuel are enough from every state, in every dialect *)
Theorem C14_enough_fuel : forall d f st ts, (need st ts <= f)%nat -> P d f st ts <> PFuel.
Proof. exact enough_fuel. Qed.

(* hence the two entry points never run out of fuel: the core of the parser terminates *)
Theorem C14_parse_expr_total : forall d ts, parse_expr d ts <> NoFuel.
Proof. exact parse_expr_total. Qed.
Theorem C14_parse_stmt_total : forall d ts, parse_stmt d ts <> NoFuel.
Proof. exact parse_stmt_total. Qed.

(* ---------------------------------------------------------------- non-vacuity *)
Example C14_example_call_blank :
  let ts := [tk xgo_IDENT false; tk xgo_LPAREN true; tk xgo_IDENT false; tk xgo_RPAREN false] in
  parse_stmt go_dialect ts = Parsed (SExprStmt (ECall EIdent [EIdent] false)) /\
  parse_stmt xgo_dialect ts = Parsed (SExprStmt (ECmd EIdent [EParen EIdent] false)).
Proof. exact stmt_cmd_refuted_call. Qed.
Example C14_example_send_blank :
  let ts := [tk xgo_IDENT false; tk xgo_ARROW true; tk xgo_IDENT false] in
  parse_stmt go_dialect ts = Parsed (SSend EIdent EIdent) /\
  parse_stmt xgo_dialect ts = Parsed (SExprStmt (ECmd EIdent [EUnary xgo_ARROW EIdent] false)).
Proof. exact stmt_cmd_refuted_send. Qed.
Example C14_example_send_gofmt :
  let ts := [tk xgo_IDENT false; tk xgo_ARROW true; tk xgo_IDENT true] in
  parse_stmt go_dialect ts = Parsed (SSend EIdent EIdent) /\ parse_stmt xgo_dialect ts = Parsed (SSend EIdent EIdent).
Proof. exact stmt_send_gofmt. Qed.
(* x + f(y, 1)[x] * -y : accepted by Go, same tree under XGo *)
Example C14_example_expr :
  let ts := [tk xgo_IDENT false; tk xgo_ADD true; tk xgo_IDENT true; tk xgo_LPAREN false; tk xgo_IDENT false; tk xgo_COMMA false;
             tk xgo_INT true; tk xgo_RPAREN false; tk xgo_LBRACK false; tk xgo_IDENT false; tk xgo_RBRACK false; tk xgo_MUL true;
             tk xgo_SUB true; tk xgo_IDENT false] in
  parse_expr go_dialect ts =
    Parsed (EBinary xgo_ADD EIdent (EBinary xgo_MUL (EIndex (ECall EIdent [EIdent; ELit] false) EIdent) (EUnary xgo_SUB EIdent))) /\
  parse_expr xgo_dialect ts = parse_expr go_dialect ts.
Proof. split; vm_compute; reflexivity. Qed.
(* XGo accepts more: x! is an error-wrap expression, an error for Go *)
Example C14_example_errwrap :
  parse_expr go_dialect [tk xgo_IDENT false; tk xgo_NOT false] = Err /\
  parse_expr xgo_dialect [tk xgo_IDENT false; tk xgo_NOT false] = Parsed (EErrWrap EIdent xgo_NOT).
Proof. split; vm_compute; reflexivity. Qed.

Print Assumptions C14_go_codes_agree.
Print Assumptions C14_prec_agree_binary.
Print Assumptions C14_prec_agree_all.
Print Assumptions C14_simulation.
Print Assumptions C14_xgo_parse_conservative.
Print Assumptions C14_stmt_conservative_nocmd_partial.
Print Assumptions C14_stmt_conservative_nonident_partial.
Print Assumptions C14_stmt_conservative_refuted.
Print Assumptions C14_results_shrink.
Print Assumptions C14_enough_fuel.
Print Assumptions C14_parse_expr_total.
Print Assumptions C14_parse_stmt_total.
