(* C31 — TPL grammar text parses with the documented operator precedence
   (tpl/parser/parser.go).  Theorems only; proofs in Proofs/C31.v.

   Model/C31.v: [P] = parseExpr/parseTermList/parseTerm/parseTerm2/parseFactor with their loops,
   [parse_file] = parseFile/parseRule/lambdaExpr, over the scanner's token stream; [pr] prints a
   tree with the minimal parentheses implied by  unary > ++ > % > sequence > |. *)
From Coq Require Import List NArith Bool Arith.
Import ListNotations.
From V Require Import Base.Prelude Model.C31 Proofs.C31 Proofs.C31Sound Proofs.C31Stop.

(* precedence: every well-formed tree, printed with minimal parentheses and followed by any
   token that cannot continue an expression, is parsed back to exactly that tree, consuming
   exactly its tokens, with no error — for trees of any size and nesting *)
Theorem C31_parse_print_expr : forall e r, wf e -> stop0 r ->
  P (fuel_of (pr e ++ r)) SExpr (pr e ++ r) = Some (Some e, r, 0).
Proof. exact parse_print_expr. Qed.

(* parentheses override the precedence: "( e )" is a factor denoting e, whatever e's level *)
Theorem C31_parens_override : forall e r, wf e ->
  P (fuel_of (TLP :: pr e ++ TRP :: r)) SFactor (TLP :: pr e ++ TRP :: r) = Some (Some e, r, 0).
Proof. exact parse_parens_override. Qed.

(* the same for whole grammar files: name = expr ; ... *)
Theorem C31_parse_print_file : forall rs, rules_wf rs -> parse_file (print_file rs) = Ok (rs, 0).
Proof. exact parse_file_print. Qed.

(* the parser terminates (the fuel 8*|tokens|+8 always suffices) and never panics, on ANY token
   stream *)
Theorem C31_total : forall ts, exists rs n, parse_file ts = Ok (rs, n).
Proof. exact parse_file_total. Qed.

(* a missing factor is an error, not an empty rule: whenever a returned tree contains an empty
   Sequence or a nil operand, at least one error was reported *)
Theorem C31_missing_factor_is_error : forall ts rs n,
  parse_file ts = Ok (rs, n) -> existsb rule_has_hole rs = true -> 0 < n.
Proof. exact parse_file_hole_error. Qed.

(* stronger: with zero errors every tree is well formed (no hole, every Sequence/Choice has >= 2
   items), i.e. it is in the domain of the round-trip theorem *)
Theorem C31_no_error_wf : forall ts rs, parse_file ts = Ok (rs, 0) -> rules_wf rs.
Proof. exact parse_file_noerr_wf. Qed.

(* the converse direction, for ANY token stream (any amount of redundant parentheses): if an
   expression is parsed without error, the consumed tokens are, up to parentheses, exactly the
   minimal print of the returned tree — same leaves and operators in the same order.  With
   C31_no_error_wf and C31_parse_print_expr: parsing = dropping redundant parentheses. *)
Theorem C31_parse_sound : forall f ts e r, P f SExpr ts = Some (Some e, r, 0) ->
  exists c, ts = c ++ r /\ strip c = strip (pr e).
Proof. exact parse_expr_sound. Qed.

(* … precisely: an error-free parse of ANY input gives the same result as parsing the minimal
   print of the returned tree in the same right context (the parser is idempotent through [pr]) *)
Theorem C31_parse_normalises : forall f ts e r, P f SExpr ts = Some (Some e, r, 0) ->
  P (fuel_of (pr e ++ r)) SExpr (pr e ++ r) = Some (Some e, r, 0).
Proof. exact parse_normalises. Qed.

(* non-vacuity *)
Definition a := [97]%N. Definition b := [98]%N. Definition c := [99]%N. Definition d := [100]%N.
(* doc = a b % c ++ d | *(a | b) ?c ;   parses as  Choice[Seq[a, b % (c ++ d)], Seq[*(a|b), ?c]] *)
Example C31_example_precedence :
  parse_file [TIdent d; TAssign; TIdent a; TIdent b; TB BRem; TIdent c; TB BInc; TIdent d; TOr;
              TU UMul; TLP; TIdent a; TOr; TIdent b; TRP; TU UQuest; TIdent c; TSemi]
  = Ok ([(d, EChoice [ESeq [EIdent a; EBin BRem (EIdent b) (EBin BInc (EIdent c) (EIdent d))];
                      ESeq [EUn UMul (EChoice [EIdent a; EIdent b]); EUn UQuest (EIdent c)]])], 0).
Proof. vm_compute. reflexivity. Qed.
Example C31_example_wf :
  wf (EChoice [ESeq [EIdent a; EBin BRem (EIdent b) (EBin BInc (EIdent c) (EIdent d))];
               ESeq [EUn UMul (EChoice [EIdent a; EIdent b]); EUn UQuest (EIdent c)]]).
Proof. simpl. repeat split; auto. Qed.
(* left-associativity needs parentheses on the right only: a % (b % c) keeps them, (a % b) % c drops them *)
Example C31_example_assoc :
  pr (EBin BRem (EBin BRem (EIdent a) (EIdent b)) (EIdent c)) = [TIdent a; TB BRem; TIdent b; TB BRem; TIdent c] /\
  pr (EBin BRem (EIdent a) (EBin BRem (EIdent b) (EIdent c))) = [TIdent a; TB BRem; TLP; TIdent b; TB BRem; TIdent c; TRP].
Proof. split; reflexivity. Qed.
(* missing factors: "doc = a % ;", "doc = * ;", "doc = ( ) ;", "doc = ;" all report errors *)
Example C31_example_missing :
  parse_file [TIdent d; TAssign; TIdent a; TB BRem; TSemi] = Ok ([(d, ESeq [])], 2) /\
  parse_file [TIdent d; TAssign; TU UMul; TSemi] = Ok ([(d, EUn UMul ENil)], 1) /\
  parse_file [TIdent d; TAssign; TLP; TRP; TSemi] = Ok ([(d, ESeq [])], 1) /\
  parse_file [TIdent d; TAssign; TSemi] = Ok ([(d, ESeq [])], 1).
Proof. repeat split; vm_compute; reflexivity. Qed.

Print Assumptions C31_parse_print_expr.
Print Assumptions C31_parens_override.
Print Assumptions C31_parse_print_file.
Print Assumptions C31_total.
Print Assumptions C31_missing_factor_is_error.
Print Assumptions C31_no_error_wf.
Print Assumptions C31_parse_sound.
Print Assumptions C31_parse_normalises.
