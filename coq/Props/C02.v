(* C02 — XGo collection sugar evaluates like its documented Go expansion.
   Theorems only; proofs in Proofs/C02.v.

   lower_comprehension / wrap / lower_send : models of cl/expr.go compileComprehensionExpr,
   cl/stmt.go compileForPhraseStmt and compileSendStmt, into MiniGo.
   spec_comprehension : the documented meaning as a definitional interpreter of the sugar: nested
   loops with the LAST for-phrase outermost, the container of a phrase evaluated once per iteration
   of the enclosing loop, variables bound before the filter is evaluated, results accumulated in
   iteration order (list / map) or the first match returned (select / exists), with the effect trace
   of every operand evaluation.
   Operands (containers, filters, elements) are `operand`s: a MiniGo expression with its meaning on the
   user-visible environment, required to be sound (op_ok).  Sound operands are: pure expressions over
   user variables with opaque probe calls (pure_op, C02_pure_operand_ok) and -- to any depth -- other
   comprehensions (comp_op, C02_nested_comprehension_ok): a comprehension inside a container, a filter
   or an element expression is covered by the same theorem. *)
From Coq Require Import List ZArith NArith Bool.
Import ListNotations.
From V Require Import Base.Prelude Model.MiniGo Model.Compr Proofs.MiniGo Proofs.C02.
Open Scope Z_scope.

(* list, map, select (one- and two-value) and exists comprehensions, for EVERY list of for-phrases
   (induction on the phrase list), every container content, filter and element operand, blank loop
   variables included, in every environment: value(s), final environment and effect trace of the
   compiled closure = the documented meaning on the user-visible environment *)
Theorem C02_comprehension_correct : forall err_text self en k zero ps tr vs tr',
  Forall (wf_phrase err_text self) ps -> wf_kind err_text self k ->
  spec_comprehension k zero ps (strip en) tr = Some (vs, tr') ->
  ev err_text self (lower_comprehension k zero ps) en tr = (RVal vs, en, tr').
Proof. exact comprehension_correct. Qed.

(* operands: pure expressions ... *)
Theorem C02_pure_operand_ok : forall err_text self e, op_ok err_text self (pure_op e).
Proof. exact pure_op_ok. Qed.
(* ... and comprehensions themselves (nesting to any depth: ps and k may again contain comp_op operands) *)
Theorem C02_nested_comprehension_ok : forall err_text self k zero ps,
  Forall (wf_phrase err_text self) ps -> wf_kind err_text self k -> op_ok err_text self (comp_op k zero ps).
Proof. exact comp_op_ok. Qed.

(* the last for-phrase is the outermost loop, in the compiled code and in the documented meaning *)
Theorem C02_last_phrase_outermost : forall ps p s F,
  nest (ps ++ [p]) s = wrap p (nest ps s) /\ spec_nest (ps ++ [p]) F = spec_wrap p (spec_nest ps F).
Proof. exact last_phrase_outermost. Qed.

(* for k, v <- x if c { body }: the compiled for-range with the filter inside implements
   "for each item in order: bind, test the filter, run the body" for any body that implements F
   (compileForPhraseStmt emits exactly `wrap`) *)
Theorem C02_forphrase_correct : forall err_text self en k p s F,
  wf_phrase err_text self p -> body_ok err_text self en k s F -> body_ok err_text self en k (wrap p s) (spec_wrap p F).
Proof. exact wrap_ok. Qed.

(* the documented meaning is what one expects: [e for x <- l if c] = map e (filter c l) *)
Theorem C02_single_phrase_is_map_filter : forall en x c e l (cf : val -> bool) (ef : val -> val) zero tr,
  (forall v, pev ((x, v) :: en) c = Some (VBool (cf v), [])) ->
  (forall v, pev ((x, v) :: en) e = Some (ef v, [])) ->
  spec_comprehension (CList (pure_op e)) zero
    [{| ph_key := None; ph_val := Some x; ph_x := pure_op (EConst (VList l)); ph_cond := Some (pure_op c) |}] en tr
  = Some ([VList (map ef (filter cf l))], tr).
Proof. exact single_list_map_filter. Qed.

(* a <- v1, ..., vn on a slice variable: a = append(a, v1, ..., vn), operands evaluated left to right once *)
Theorem C02_send_append_correct : forall err_text self en a l (ews : list (expr * val * trace)) en' tr,
  lookup en a = Some (VList l) ->
  update en a (VList (l ++ map (fun x => snd (fst x)) ews)) = Some en' ->
  Forall (fun x => pev (strip en) (fst (fst x)) = Some (snd (fst x), snd x)) ews ->
  ex err_text self (lower_send a (map (fun x => fst (fst x)) ews)) en tr = (RVal tt, en', tr ++ concat (map snd ews)).
Proof. exact send_append_ok. Qed.

(* a blank loop variable (`for _ <- xs`, emitted as `for range xs`) is an ordinary instance: such a
   phrase is well-formed, and its documented meaning is one evaluation of the element per item *)
Theorem C02_blank_variable_wf : forall err_text self x c,
  op_ok err_text self x -> match c with Some o => op_ok err_text self o | None => True end ->
  wf_phrase err_text self {| ph_key := None; ph_val := None; ph_x := x; ph_cond := c |}.
Proof. exact blank_wf. Qed.
Theorem C02_blank_variable_meaning : forall en e v0 l zero tr, pev en e = Some (v0, []) ->
  spec_comprehension (CList (pure_op e)) zero
    [{| ph_key := None; ph_val := None; ph_x := pure_op (EConst (VList l)); ph_cond := None |}] en tr
  = Some ([VList (map (fun _ => v0) l)], tr).
Proof. exact blank_list. Qed.

(* non-vacuity: [x+y for x <- [1,3,5] if x > 1 for y <- p7([10,20])]  (y outermost; the probe on the outer
   container runs once, first) *)
Example C02_example_two_phrases :
  let px := {| ph_key := None; ph_val := Some (NUser 1); ph_x := pure_op (EConst (VList [VInt 1; VInt 3; VInt 5]));
               ph_cond := Some (pure_op (EBin BGt (EVar (NUser 1)) (EConst (VInt 1)))) |} in
  let py := {| ph_key := None; ph_val := Some (NUser 2); ph_x := pure_op (EProbe 7 (EConst (VList [VInt 10; VInt 20]))); ph_cond := None |} in
  let k := CList (pure_op (EBin BAdd (EVar (NUser 1)) (EVar (NUser 2)))) in
  spec_comprehension k (VInt 0) [px; py] [] [] = Some ([VList [VInt 13; VInt 15; VInt 23; VInt 25]], [Ev 7%N [VList [VInt 10; VInt 20]]])
  /\ eval (fun _ => []) 2 (lower_comprehension k (VInt 0) [px; py]) [] []
     = (RVal [VList [VInt 13; VInt 15; VInt 23; VInt 25]], [], [Ev 7%N [VList [VInt 10; VInt 20]]]).
Proof. vm_compute. auto. Qed.
(* nesting, with the SAME variable name inside and outside: [x for x <- [x*10 for x, _ <- [7,8,9]]] = [0,10,20] *)
Example C02_example_nested_same_name :
  let inner := comp_op (CList (pure_op (EBin BMul (EVar (NUser 1)) (EConst (VInt 10))))) (VInt 0)
                 [{| ph_key := Some (NUser 1); ph_val := None; ph_x := pure_op (EConst (VList [VInt 7; VInt 8; VInt 9])); ph_cond := None |}] in
  let outer := [{| ph_key := None; ph_val := Some (NUser 1); ph_x := inner; ph_cond := None |}] in
  let k := CList (pure_op (EVar (NUser 1))) in
  spec_comprehension k (VInt 0) outer [] [] = Some ([VList [VInt 0; VInt 10; VInt 20]], [])
  /\ eval (fun _ => []) 2 (lower_comprehension k (VInt 0) outer) [] [] = (RVal [VList [VInt 0; VInt 10; VInt 20]], [], []).
Proof. vm_compute. auto. Qed.
Example C02_example_blank :
  eval (fun _ => []) 2 (lower_comprehension CExists (VInt 0) [{| ph_key := None; ph_val := None; ph_x := pure_op (EConst (VList [VInt 4])); ph_cond := None |}]) [] []
  = (RVal [VBool true], [], []).
Proof. vm_compute. reflexivity. Qed.
Example C02_example_select :
  let px := {| ph_key := Some (NUser 3); ph_val := Some (NUser 1); ph_x := pure_op (EConst (VList [VInt 1; VInt 3; VInt 5]));
               ph_cond := Some (pure_op (EBin BGt (EProbe 4 (EVar (NUser 1))) (EConst (VInt 1)))) |} in
  spec_comprehension (CSelect (pure_op (EVar (NUser 3))) true) (VInt 0) [px] [] []
  = Some ([VInt 1; VBool true], [Ev 4%N [VInt 1]; Ev 4%N [VInt 3]]).
Proof. vm_compute. reflexivity. Qed.

Print Assumptions C02_comprehension_correct.
Print Assumptions C02_pure_operand_ok.
Print Assumptions C02_nested_comprehension_ok.
Print Assumptions C02_last_phrase_outermost.
Print Assumptions C02_forphrase_correct.
Print Assumptions C02_single_phrase_is_map_filter.
Print Assumptions C02_send_append_correct.
Print Assumptions C02_blank_variable_wf.
Print Assumptions C02_blank_variable_meaning.
