(* C02 — XGo collection sugar evaluates like its documented Go expansion.
   Theorems only; proofs in Proofs/C02.v.

   lower_comprehension / wrap / lower_send : models of cl/expr.go compileComprehensionExpr,
   cl/stmt.go compileForPhraseStmt and compileSendStmt, into MiniGo.
   spec_comprehension : the documented meaning as a definitional interpreter of the sugar: nested
   loops with the LAST for-phrase outermost, the container of a phrase evaluated once per iteration
   of the enclosing loop, variables bound before the filter is evaluated, results accumulated in
   iteration order (list / map) or the first match returned (select / exists), with the effect trace
   of every operand evaluation.  Operands (containers, filters, elements) are pure expressions over
   user variables with opaque probe calls (pev). *)
From Coq Require Import List ZArith NArith Bool.
Import ListNotations.
From V Require Import Base.Prelude Model.MiniGo Model.Compr Proofs.MiniGo Proofs.C02.
Open Scope Z_scope.

(* list, map, select (one- and two-value) and exists comprehensions, for EVERY list of for-phrases
   (induction on the phrase list), every container content, filter and element expression:
   value(s), final environment and effect trace of the compiled closure = the documented meaning *)
Theorem C02_comprehension_correct : forall err_text self en k zero ps tr vs tr',
  Forall wf_phrase ps ->
  spec_comprehension k zero ps en tr = Some (vs, tr') ->
  ev err_text self (lower_comprehension k zero ps) en tr = (RVal vs, en, tr').
Proof. exact comprehension_correct. Qed.

(* the four kinds, as named instances *)
Theorem C02_comprehension_list_correct : forall err_text self en elt zero ps tr vs tr',
  Forall wf_phrase ps ->
  spec_comprehension (CList elt) zero ps en tr = Some (vs, tr') -> ev err_text self (lower_comprehension (CList elt) zero ps) en tr = (RVal vs, en, tr').
Proof. exact comprehension_list_correct. Qed.
Theorem C02_comprehension_map_correct : forall err_text self en ke ve zero ps tr vs tr',
  Forall wf_phrase ps ->
  spec_comprehension (CMap ke ve) zero ps en tr = Some (vs, tr') -> ev err_text self (lower_comprehension (CMap ke ve) zero ps) en tr = (RVal vs, en, tr').
Proof. exact comprehension_map_correct. Qed.
Theorem C02_comprehension_select_correct : forall err_text self en elt two zero ps tr vs tr',
  Forall wf_phrase ps ->
  spec_comprehension (CSelect elt two) zero ps en tr = Some (vs, tr') -> ev err_text self (lower_comprehension (CSelect elt two) zero ps) en tr = (RVal vs, en, tr').
Proof. exact comprehension_select_correct. Qed.
Theorem C02_comprehension_exists_correct : forall err_text self en zero ps tr vs tr',
  Forall wf_phrase ps ->
  spec_comprehension CExists zero ps en tr = Some (vs, tr') -> ev err_text self (lower_comprehension CExists zero ps) en tr = (RVal vs, en, tr').
Proof. exact comprehension_exists_correct. Qed.

(* the last for-phrase is the outermost loop, in the compiled code and in the documented meaning *)
Theorem C02_last_phrase_outermost : forall ps p s F,
  nest (ps ++ [p]) s = wrap p (nest ps s) /\ spec_nest (ps ++ [p]) F = spec_wrap p (spec_nest ps F).
Proof. exact last_phrase_outermost. Qed.

(* for k, v <- x if c { body }: the compiled for-range with the filter inside implements
   "for each item in order: bind, test the filter, run the body" for any body that implements F
   (compileForPhraseStmt emits exactly `wrap`) *)
Theorem C02_forphrase_correct : forall err_text self en k p s F,
  wf_phrase p -> body_ok err_text self en k s F -> body_ok err_text self en k (wrap p s) (spec_wrap p F).
Proof. exact wrap_ok. Qed.

(* the documented meaning is what one expects: [e for x <- l if c] = map e (filter c l) *)
Theorem C02_single_phrase_is_map_filter : forall en x c e l (cf : val -> bool) (ef : val -> val) zero tr,
  (forall v, pev ((x, v) :: en) c = Some (VBool (cf v), [])) ->
  (forall v, pev ((x, v) :: en) e = Some (ef v, [])) ->
  spec_comprehension (CList e) zero [{| ph_key := None; ph_val := Some x; ph_x := EConst (VList l); ph_cond := Some c |}] en tr
  = Some ([VList (map ef (filter cf l))], tr).
Proof. exact single_list_map_filter. Qed.

(* a <- v1, ..., vn on a slice variable: a = append(a, v1, ..., vn), operands evaluated left to right once *)
Theorem C02_send_append_correct : forall err_text self en a l (ews : list (expr * val * trace)) en' tr,
  lookup en a = Some (VList l) ->
  update en a (VList (l ++ map (fun x => snd (fst x)) ews)) = Some en' ->
  Forall (fun x => pev en (fst (fst x)) = Some (snd (fst x), snd x)) ews ->
  ex err_text self (lower_send a (map (fun x => fst (fst x)) ews)) en tr = (RVal tt, en', tr ++ concat (map snd ews)).
Proof. exact send_append_ok. Qed.

(* a blank loop variable (`for _ <- xs`, emitted as `for range xs` since the repair of the
   `for _, _ := range` lowering) is an ordinary instance of the theorems above: such a phrase is
   well-formed, and its documented meaning is one evaluation of the element per item *)
Theorem C02_blank_variable_wf : forall x c, wf_phrase {| ph_key := None; ph_val := None; ph_x := x; ph_cond := c |}.
Proof. exact blank_wf. Qed.
Theorem C02_blank_variable_meaning : forall en e v0 l zero tr, pev en e = Some (v0, []) ->
  spec_comprehension (CList e) zero [{| ph_key := None; ph_val := None; ph_x := EConst (VList l); ph_cond := None |}] en tr
  = Some ([VList (map (fun _ => v0) l)], tr).
Proof. exact blank_list. Qed.

(* non-vacuity: [x+y for x <- [1,3,5] if x > 1 for y <- p7([10,20])]  (y outermost; the probe on the outer
   container runs once, first) *)
Example C02_example_two_phrases :
  let px := {| ph_key := None; ph_val := Some (NUser 1); ph_x := EConst (VList [VInt 1; VInt 3; VInt 5]);
               ph_cond := Some (EBin BGt (EVar (NUser 1)) (EConst (VInt 1))) |} in
  let py := {| ph_key := None; ph_val := Some (NUser 2); ph_x := EProbe 7 (EConst (VList [VInt 10; VInt 20])); ph_cond := None |} in
  let k := CList (EBin BAdd (EVar (NUser 1)) (EVar (NUser 2))) in
  spec_comprehension k (VInt 0) [px; py] [] [] = Some ([VList [VInt 13; VInt 15; VInt 23; VInt 25]], [Ev 7%N [VList [VInt 10; VInt 20]]])
  /\ eval (fun _ => []) 2 (lower_comprehension k (VInt 0) [px; py]) [] []
     = (RVal [VList [VInt 13; VInt 15; VInt 23; VInt 25]], [], [Ev 7%N [VList [VInt 10; VInt 20]]]).
Proof. vm_compute. auto. Qed.
Example C02_example_blank :
  eval (fun _ => []) 2 (lower_comprehension CExists (VInt 0) [{| ph_key := None; ph_val := None; ph_x := EConst (VList [VInt 4]); ph_cond := None |}]) [] []
  = (RVal [VBool true], [], []).
Proof. vm_compute. reflexivity. Qed.
Example C02_example_select :
  let px := {| ph_key := Some (NUser 3); ph_val := Some (NUser 1); ph_x := EConst (VList [VInt 1; VInt 3; VInt 5]);
               ph_cond := Some (EBin BGt (EProbe 4 (EVar (NUser 1))) (EConst (VInt 1))) |} in
  spec_comprehension (CSelect (EVar (NUser 3)) true) (VInt 0) [px] [] []
  = Some ([VInt 1; VBool true], [Ev 4%N [VInt 1]; Ev 4%N [VInt 3]]).
Proof. vm_compute. reflexivity. Qed.

Print Assumptions C02_comprehension_correct.
Print Assumptions C02_comprehension_list_correct.
Print Assumptions C02_comprehension_map_correct.
Print Assumptions C02_comprehension_select_correct.
Print Assumptions C02_comprehension_exists_correct.
Print Assumptions C02_last_phrase_outermost.
Print Assumptions C02_forphrase_correct.
Print Assumptions C02_single_phrase_is_map_filter.
Print Assumptions C02_send_append_correct.
Print Assumptions C02_blank_variable_wf.
Print Assumptions C02_blank_variable_meaning.
