#!/bin/sh
# regenerate _CoqProject (only if its content changes) from the .v files present
cd "$(dirname "$0")"
{ echo "-Q . V"; echo "-arg -w -arg -notation-overridden,-deprecated-hint-without-locality,-deprecated-instance-without-locality"; find Base Gen Model Proofs Props Extract -name '*.v' | LC_ALL=C sort; } > _CoqProject.new
if cmp -s _CoqProject.new _CoqProject; then rm _CoqProject.new; else mv _CoqProject.new _CoqProject; fi
