(* Vocabulary of the generated table Gen/RangeLoop.v: the shape of the Go `for` statement that
   cl/stmt.go:toForStmt emits for `for v <- start:end:step` / `for v := range start:end:step`,
   and the argument order of the runtime range object built by cl/expr.go:compileRangeExpr. *)
From Coq Require Import List ZArith Bool.
Import ListNotations.

Inductive cmpop := CLt | CLe | CGt | CGe | CNe | CEq.
Inductive postop := PAdd | PSub.

(* a place the emitted loop writes: the loop variable or one of the two temporaries *)
Inductive slot := SVar | STmpEnd | STmpStep.

(* an operand of the emitted loop: one of the three range operands as written by the user
   (re-read on every use when it is an identifier or literal), a temporary, the loop variable,
   or an integer literal the compiler put there (defaults) *)
Inductive opnd := OStart | OEnd | OStep | OSlot (s : slot) | OConst (z : Z).

Record loop_shape := {
  ls_init_var : opnd;               (* parallel init assignment  v[, _gop_end][, _gop_step] := ... *)
  ls_init_end : option opnd;        (*   right-hand side stored in _gop_end, if that temporary exists *)
  ls_init_step : option opnd;       (*   right-hand side stored in _gop_step, if it exists            *)
  ls_cond_lhs : opnd;               (* Cond.X                                                  *)
  ls_cond_op : cmpop;               (* Cond.Op                                                 *)
  ls_cond_rhs : opnd;               (* Cond.Y                                                  *)
  ls_post_lhs : slot;               (* Post.Lhs[0]                                             *)
  ls_post_op : postop;              (* Post.Tok                                                *)
  ls_post_rhs : opnd                (* Post.Rhs[0]                                             *)
}.

Definition cmp_eval (c : cmpop) (a b : Z) : bool :=
  match c with
  | CLt => Z.ltb a b | CLe => Z.leb a b | CGt => Z.ltb b a | CGe => Z.leb b a
  | CNe => negb (Z.eqb a b) | CEq => Z.eqb a b
  end.
Definition post_eval (p : postop) (a b : Z) : Z := match p with PAdd => a + b | PSub => a - b end.
