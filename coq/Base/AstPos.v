(* Data types of the Pos()/End() method bodies of /repo/ast (Gen/AstPos.v), shared by the C17 model. *)
From Coq Require Import List String ZArith Bool.
Import ListNotations.

Inductive pexpr :=
| PField (f : string) (k : Z)                  (* x.f + k *)
| PFieldStr (f : string) (gs : list string)    (* x.f + len(x.g1) + len(x.g2) ... *)
| PFieldTok (f g : string)                     (* x.f + len(x.g.String()) *)
| PChildPos (f : string)                       (* x.f.Pos() *)
| PChildEnd (f : string)                       (* x.f.End() *)
| PListFirstPos (f : string)                   (* x.f[0].Pos() *)
| PListLastEnd (f : string)                    (* x.f[len(x.f)-1].End() *)
| PListFirstEnd (f : string)                   (* x.f[0].End() *)
| PChildField (f g : string)                   (* x.f.g  (a position field of a child; also a field promoted from an embedded child) *)
| PNoPos.

Inductive pcond :=
| CNonNil (f : string)                         (* x.f != nil *)
| CLenPos (f : string)                         (* len(x.f) > 0 *)
| CValid (f : string)                          (* x.f.IsValid() / x.f != token.NoPos / x.f != 0 *)
| CFlag (f : string)                           (* x.f  (bool field) *)
| CImplicit                                    (* x.Implicit()  (Ident: Obj != nil && Obj.Kind >= implicitBase) *)
| CTrue
| CLenOne (f : string)                         (* len(x.f) == 1   (only in the layout templates) *)
| CNot (c : pcond)
| COr (a b : pcond)
| CAnd (a b : pcond).

Inductive pbody :=
| PRet (e : pexpr)
| PIf (c : pcond) (t e : pbody)                (* if c { t }; e *)
| POpaque.                                     (* a body outside the fragment (loops): not translated *)

Definition pos_table := list (string * (pbody * pbody)).   (* kind -> (Pos body, End body) *)
