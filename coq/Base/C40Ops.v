(* Instruction alphabet of the critical-section programs of x/watcher/changes.go
   (Changes.FileChanged / Changes.Fetch).  The translator (translator/gen_changesops.go) maps
   every statement of the two bodies that touches the shared state (p.changed, p.mutex, p.cond)
   to one of these constructors -> Gen/ChangesOps.v; the LTS of Model/C40.v executes the
   generated lists. *)
From Coq Require Import List.
Import ListNotations.

Inductive cop : Type :=
| OLock                   (* p.mutex.Lock() *)
| OUnlock                 (* p.mutex.Unlock() *)
| OReadLen                (* n := len(p.changed) *)
| OInsert                 (* p.changed[dir] = none{} *)
| OIfZero (o : cop)       (* if n == 0 { o } *)
| OBroadcast              (* p.cond.Broadcast() *)
| OSignal                 (* p.cond.Signal()   -- not executable in the model: a regression *)
| OWhileEmpty (o : cop)   (* for len(p.changed) == 0 { o } *)
| OIfEmpty (o : cop)      (* if  len(p.changed) == 0 { o }  -- not executable: a regression *)
| OWait                   (* p.cond.Wait() *)
| OTakeOne                (* for dir = range p.changed { delete(p.changed, dir); break } *)
| OOther.                 (* a statement on the shared state the translator has no constructor for *)

Fixpoint cop_eqb (a b : cop) : bool :=
  match a, b with
  | OLock, OLock | OUnlock, OUnlock | OReadLen, OReadLen | OInsert, OInsert
  | OBroadcast, OBroadcast | OSignal, OSignal | OWait, OWait | OTakeOne, OTakeOne
  | OOther, OOther => true
  | OIfZero x, OIfZero y | OWhileEmpty x, OWhileEmpty y | OIfEmpty x, OIfEmpty y => cop_eqb x y
  | _, _ => false
  end.
