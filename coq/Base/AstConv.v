(* Data types of the conversion tables of ast/fromgo and ast/togo (Gen/AstConv.v), shared by
   the C37 model: each Go conversion function is one of a few loop-free shapes. *)
From Coq Require Import List String ZArith Bool.
Import ListNotations.

(* how one field of the built struct is computed from the argument v *)
Inductive fconv :=
| CCopy (src : string)                       (* F: v.src *)
| CCast (src : string)                       (* F: T(v.src)          integer conversion between token types / ChanDir *)
| CCall (fn : string) (src : string)         (* F: fn(v.src)         (also fn(typeparams.ForX(v)) with src = TypeParams) *)
| CMap (fn : string) (src : string)          (* F: l   where  l := make([]T, len(v.src)); l[i] = fn(v.src[i]) *)
| CSpecs (src tokf : string) (cases : list (list Z * string * string))
                                             (* the Specs loop of GenDecl:  switch v.tokf { case toks: l[i] = fn(v.src[i].( *kind)) } *)
| CEmpty (kind : string)                     (* F: &K{} *)
| COpaque.                                   (* F: a value outside the tree model (&Object{Data: v}) *)

Record build := Build { b_kind : string; b_sets : list (string * fconv) }.

Inductive cbody :=
| BBuild (b : build)                         (* return &K{...} *)
| BCall (fn : string).                       (* return fn(v) *)

Inductive cfun :=
| FSwitch (nilcheck : bool) (cases : list (string * cbody))   (* type switch on the argument; no case: log.Panicln *)
| FBuild (argkind : string) (nilcheck : bool) (b : build)   (* parameter of static type *argkind *)
| FAlias (fn : string)
| FMapList (fn : string) (nil_if_empty : bool).

Definition ctable := list (string * cfun).
