(* Generic rose tree for the AST-shaped properties (C17, C18, C37): a node is a kind name, an
   identity and its struct fields in declaration order; field values keep the Go shape
   (position, token, string, bool, nil, node, record that is not itself a node, slice). *)
From Coq Require Import List String ZArith NArith Bool.
Import ListNotations.
Open Scope string_scope.
Open Scope list_scope.

(* class of a struct field as read from the Go struct declaration (Gen/AstStructs.v) *)
Inductive fclass :=
| FPos                 (* token.Pos *)
| FTok                 (* token.Token *)
| FInt                 (* other integer kinds, e.g. ChanDir *)
| FStr                 (* string *)
| FBool
| FNode (opt : bool)   (* pointer to a node struct, or a node interface; opt = documented "or nil" *)
| FList                (* []N *)
| FListList            (* [][]N *)
| FMap                 (* map[string]*N  (Package.Files) *)
| FRec (opt : bool) (kinds : list string)  (* pointer to a struct that is not a node (StringLitEx), or `any` that may hold one of the listed records *)
| FParts               (* []any whose elements are strings or Expr *)
| FOther.              (* anything else: *Object, []byte, foreign trees *)

(* one step of a Walk case, as read from the type switch of ast.Walk (Gen/AstWalk.v):
   which field is walked, in which shape, and under which guards *)
Inductive shape := SNode | SList | SListList | SParts | SMap.
Record wstep := WStep {
  w_unless : option string;                  (* the step sits under  if !n.<flag> { ... } *)
  w_via : option (string * string * bool);   (* the field belongs to the record held by n.<f>, of dynamic
                                                kind <k>;  bool = the access is guarded by  n.<f> != nil *)
  w_shape : shape;
  w_field : string;
  w_guard : bool                             (* SNode: the call is guarded by  != nil *)
}.

Inductive value :=
| VPos (p : Z)
| VTok (t : Z)
| VStr (s : string)
| VBool (b : bool)
| VOther
| VNil
| VNode (n : node)
| VRec (n : node)      (* a record reached through a field; never visited as a node itself *)
| VList (l : list value)
with node :=
| Node (nid : N) (kind : string) (fields : list (string * value)).

Definition nid (n : node) : N := match n with Node i _ _ => i end.
Definition kind (n : node) : string := match n with Node _ k _ => k end.
Definition fields (n : node) : list (string * value) := match n with Node _ _ fs => fs end.

Fixpoint assoc {A} (k : string) (l : list (string * A)) : option A :=
  match l with
  | [] => None
  | (k', v) :: t => if String.eqb k k' then Some v else assoc k t
  end.

Definition get (f : string) (n : node) : value :=
  match assoc f (fields n) with Some v => v | None => VOther end.

Definition get_bool (f : string) (n : node) : bool :=
  match get f n with VBool b => b | _ => false end.

(* all nodes directly below a value: through slices and records, not through nodes *)
Fixpoint value_nodes (v : value) : list node :=
  match v with
  | VNode n => [n]
  | VRec (Node _ _ fs) =>
      (fix go (l : list (string * value)) : list node :=
         match l with [] => [] | (_, x) :: t => value_nodes x ++ go t end) fs
  | VList l =>
      (fix go (l : list value) : list node :=
         match l with [] => [] | x :: t => value_nodes x ++ go t end) l
  | _ => []
  end.

Definition fields_nodes (fs : list (string * value)) : list node :=
  flat_map (fun fx => value_nodes (snd fx)) fs.

(* every node of the tree, parents first, fields in the order given (pre-order) *)
Fixpoint subnodes (n : node) : list node :=
  match n with
  | Node _ _ fs =>
      n :: (fix go (l : list (string * value)) : list node :=
              match l with [] => [] | (_, x) :: t => subnodes_v x ++ go t end) fs
  end
with subnodes_v (v : value) : list node :=
  match v with
  | VNode n => subnodes n
  | VRec (Node _ _ fs) =>
      (fix go (l : list (string * value)) : list node :=
         match l with [] => [] | (_, x) :: t => subnodes_v x ++ go t end) fs
  | VList l =>
      (fix go (l : list value) : list node :=
         match l with [] => [] | x :: t => subnodes_v x ++ go t end) l
  | _ => []
  end.

(* size, for strong induction when the nested principle is inconvenient *)
Fixpoint nsize (n : node) : nat :=
  match n with
  | Node _ _ fs =>
      S ((fix go (l : list (string * value)) : nat :=
            match l with [] => O | (_, x) :: t => vsize x + go t end) fs)
  end
with vsize (v : value) : nat :=
  match v with
  | VNode n => nsize n
  | VRec n => nsize n
  | VList l =>
      S ((fix go (l : list value) : nat :=
            match l with [] => O | x :: t => vsize x + go t end) l)
  | _ => 1
  end.

(* ---- the nested induction principle (Coq's generated one ignores the lists) ---- *)
Section Ind.
  Context (P : node -> Prop) (Q : value -> Prop).
  Context (HNode : forall i k fs, Forall (fun fx => Q (snd fx)) fs -> P (Node i k fs)).
  Context (HPos : forall p, Q (VPos p)) (HTok : forall t, Q (VTok t)) (HStr : forall s, Q (VStr s))
          (HBool : forall b, Q (VBool b)) (HOther : Q VOther) (HNil : Q VNil)
          (HVNode : forall n, P n -> Q (VNode n)) (HVRec : forall n, P n -> Q (VRec n))
          (HVList : forall l, Forall Q l -> Q (VList l)).

  Fixpoint node_ind' (n : node) : P n :=
    match n with
    | Node i k fs =>
        HNode i k fs
          ((fix go (l : list (string * value)) : Forall (fun fx => Q (snd fx)) l :=
              match l with
              | [] => Forall_nil _
              | fx :: t => Forall_cons fx (value_ind' (snd fx)) (go t)
              end) fs)
    end
  with value_ind' (v : value) : Q v :=
    match v with
    | VPos p => HPos p
    | VTok t => HTok t
    | VStr s => HStr s
    | VBool b => HBool b
    | VOther => HOther
    | VNil => HNil
    | VNode n => HVNode n (node_ind' n)
    | VRec n => HVRec n (node_ind' n)
    | VList l =>
        HVList l
          ((fix go (l : list value) : Forall Q l :=
              match l with
              | [] => Forall_nil _
              | x :: t => Forall_cons x (value_ind' x) (go t)
              end) l)
    end.

  Lemma node_value_ind : (forall n, P n) /\ (forall v, Q v).
  Proof. split; [exact node_ind' | exact value_ind']. Qed.
End Ind.

(* unfolding equations for the local fixes above, as ordinary list functions *)
Lemma value_nodes_rec i k fs : value_nodes (VRec (Node i k fs)) = fields_nodes fs.
Proof.
  unfold fields_nodes. cbn [value_nodes].
  induction fs as [|[f x] t IH]; [reflexivity|]. cbn [flat_map snd]. now rewrite <- IH.
Qed.

Lemma value_nodes_list l : value_nodes (VList l) = flat_map value_nodes l.
Proof.
  cbn [value_nodes]. induction l as [|x t IH]; [reflexivity|]. cbn [flat_map]. now rewrite <- IH.
Qed.

Lemma subnodes_node i k fs :
  subnodes (Node i k fs) = Node i k fs :: flat_map (fun fx => subnodes_v (snd fx)) fs.
Proof.
  cbn [subnodes]. f_equal.
  induction fs as [|[f x] t IH]; [reflexivity|]. cbn [flat_map snd]. now rewrite <- IH.
Qed.

Lemma subnodes_v_rec i k fs :
  subnodes_v (VRec (Node i k fs)) = flat_map (fun fx => subnodes_v (snd fx)) fs.
Proof.
  cbn [subnodes_v].
  induction fs as [|[f x] t IH]; [reflexivity|]. cbn [flat_map snd]. now rewrite <- IH.
Qed.

Lemma subnodes_v_list l : subnodes_v (VList l) = flat_map subnodes_v l.
Proof.
  cbn [subnodes_v]. induction l as [|x t IH]; [reflexivity|]. cbn [flat_map]. now rewrite <- IH.
Qed.

