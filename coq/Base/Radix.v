(* Positional number rendering and parsing in base 10 and 16 (Go's %v / %d of a non-negative
   integer, %x of an int64, the digit loop of strconv.ParseUint), with the round-trip and
   character-class lemmas.  Used by C38 (Content-Length) and C36 (size / mtime in the hash text). *)
From Coq Require Import List NArith ZArith Lia Bool ZifyN ZifyNat ZifyBool.
Import ListNotations.
Open Scope N_scope.
Ltac Zify.zify_post_hook ::= Z.div_mod_to_equations.

(* digits most significant first; fuel = number of bits, never the value *)
Fixpoint render_f (b : N) (dig : N -> N) (fuel : nat) (n : N) : list N :=
  match fuel with
  | O => [dig (n mod b)]
  | S f => if n <? b then [dig n] else render_f b dig f (n / b) ++ [dig (n mod b)]
  end.
Definition render (b : N) (dig : N -> N) (n : N) : list N := render_f b dig (N.to_nat (N.log2 n)) n.

Definition dec_digit (d : N) : N := 48 + d.
Definition hex_digit (d : N) : N := if d <? 10 then 48 + d else 87 + d.
Definition to_dec (n : N) : list N := render 10 dec_digit n.
Definition to_hex (n : N) : list N := render 16 hex_digit n.
(* fmt %x of a signed integer: '-' then the magnitude *)
Definition to_hex_z (z : Z) : list N :=
  match z with Zneg p => 45 :: to_hex (Npos p) | _ => to_hex (Z.to_N z) end.

Definition dec_val (c : N) : option N := if (48 <=? c) && (c <=? 57) then Some (c - 48) else None.
Definition hex_val (c : N) : option N :=
  if (48 <=? c) && (c <=? 57) then Some (c - 48)
  else if (97 <=? c) && (c <=? 102) then Some (c - 87) else None.

Definition pstep (b : N) (val : N -> option N) (acc : option N) (c : N) : option N :=
  match acc with
  | Some a => match val c with Some d => Some (a * b + d) | None => None end
  | None => None
  end.
(* the digit loop: None = a character that is not a digit of the base, or the empty string *)
Definition parse_digits (b : N) (val : N -> option N) (l : list N) : option N :=
  match l with [] => None | _ => fold_left (pstep b val) l (Some 0) end.
Definition parse_dec := parse_digits 10 dec_val.
Definition parse_hex := parse_digits 16 hex_val.

(* ---------------------------------------------------------------- lemmas *)
Section Generic.
  Variable b : N.
  Variable dig : N -> N.
  Variable val : N -> option N.
  Hypothesis b2 : 2 <= b.
  Hypothesis val_dig : forall d, d < b -> val (dig d) = Some d.

  Lemma pstep_digit a d : d < b -> pstep b val (Some a) (dig d) = Some (a * b + d).
  Proof. intros H. unfold pstep. rewrite val_dig by assumption. reflexivity. Qed.

  Lemma render_f_ok : forall fuel n a, n < 2 ^ N.of_nat (S fuel) ->
    fold_left (pstep b val) (render_f b dig fuel n) (Some a)
      = Some (a * b ^ N.of_nat (length (render_f b dig fuel n)) + n)
    /\ render_f b dig fuel n <> [].
  Proof.
    induction fuel as [|f IH]; intros n a Hn.
    - change (2 ^ N.of_nat 1) with 2 in Hn. cbn [render_f fold_left length]. split; [|discriminate].
      assert (E : n mod b = n) by (apply N.mod_small; lia). rewrite E, pstep_digit by lia.
      change (N.of_nat 1) with 1. rewrite N.pow_1_r. reflexivity.
    - cbn [render_f]. destruct (N.ltb_spec n b) as [Hlt|Hge].
      + split; [|discriminate]. cbn [fold_left length]. rewrite pstep_digit by lia.
        change (N.of_nat 1) with 1. rewrite N.pow_1_r. reflexivity.
      + assert (Hq : n / b < 2 ^ N.of_nat (S f)).
        { rewrite Nat2N.inj_succ, N.pow_succ_r' in Hn.
          apply N.div_lt_upper_bound; [lia|].
          assert (2 ^ N.of_nat (S f) <> 0) by (apply N.pow_nonzero; lia). nia. }
        destruct (IH (n / b) a Hq) as [H1 H2].
        split; [|intros E; apply app_eq_nil in E as [_ E]; discriminate].
        rewrite fold_left_app, H1. cbn [fold_left].
        rewrite pstep_digit by (apply N.mod_lt; lia).
        f_equal. rewrite app_length. cbn [length]. rewrite Nat.add_1_r, Nat2N.inj_succ, N.pow_succ_r'.
        set (p := b ^ N.of_nat (length (render_f b dig f (n / b)))).
        pose proof (N.div_mod n b). nia.
  Qed.

  Lemma log2_bound n : n < 2 ^ N.of_nat (S (N.to_nat (N.log2 n))).
  Proof. rewrite Nat2N.inj_succ, N2Nat.id. destruct n; [reflexivity|]. apply N.log2_spec. lia. Qed.

  Theorem parse_render n : parse_digits b val (render b dig n) = Some n.
  Proof.
    unfold parse_digits, render.
    destruct (render_f_ok _ n 0 (log2_bound n)) as [H1 H2].
    destruct (render_f b dig _ n); [congruence|]. rewrite H1. f_equal.
  Qed.

  Lemma render_nonempty n : render b dig n <> [].
  Proof. unfold render. apply (render_f_ok _ n 0 (log2_bound n)). Qed.

  Theorem render_inj n m : render b dig n = render b dig m -> n = m.
  Proof. intros E. pose proof (parse_render n) as A. rewrite E, parse_render in A. congruence. Qed.
End Generic.

Section Chars.
  Variable b : N.
  Variable dig : N -> N.
  Hypothesis b2 : 2 <= b.
  (* every rendered character is the image of a digit *)
  Lemma render_f_chars : forall fuel n, Forall (fun c => exists d, d < b /\ c = dig d) (render_f b dig fuel n).
  Proof.
    induction fuel as [|f IH]; intros n; cbn [render_f].
    - constructor; [|constructor]. exists (n mod b). split; [apply N.mod_lt; lia|reflexivity].
    - destruct (N.ltb_spec n b).
      + constructor; [|constructor]. exists n. split; [assumption|reflexivity].
      + apply Forall_app. split; [apply IH|]. constructor; [|constructor].
        exists (n mod b). split; [apply N.mod_lt; lia|reflexivity].
  Qed.
  Lemma render_chars n : Forall (fun c => exists d, d < b /\ c = dig d) (render b dig n).
  Proof. apply render_f_chars. Qed.

End Chars.

Lemma dec_val_digit d : d < 10 -> dec_val (dec_digit d) = Some d.
Proof. intros H. unfold dec_val, dec_digit. replace ((48 <=? 48 + d) && (48 + d <=? 57)) with true by lia. f_equal. lia. Qed.

Lemma hex_val_digit d : d < 16 -> hex_val (hex_digit d) = Some d.
Proof.
  intros H. unfold hex_val, hex_digit. destruct (N.ltb_spec d 10).
  - replace ((48 <=? 48 + d) && (48 + d <=? 57)) with true by lia. f_equal. lia.
  - replace ((48 <=? 87 + d) && (87 + d <=? 57)) with false by lia.
    replace ((97 <=? 87 + d) && (87 + d <=? 102)) with true by lia. f_equal. lia.
Qed.

Theorem parse_to_dec n : parse_dec (to_dec n) = Some n.
Proof. apply parse_render; [lia|exact dec_val_digit]. Qed.
Theorem parse_to_hex n : parse_hex (to_hex n) = Some n.
Proof. apply parse_render; [lia|exact hex_val_digit]. Qed.
Theorem to_dec_inj n m : to_dec n = to_dec m -> n = m.
Proof. apply render_inj with (val := dec_val); [lia|exact dec_val_digit]. Qed.
Theorem to_hex_inj n m : to_hex n = to_hex m -> n = m.
Proof. apply render_inj with (val := hex_val); [lia|exact hex_val_digit]. Qed.

Definition is_dec_char (c : N) : bool := (48 <=? c) && (c <=? 57).
Definition is_hex_char (c : N) : bool := (48 <=? c) && (c <=? 57) || (97 <=? c) && (c <=? 102).

Lemma to_dec_chars n : Forall (fun c => is_dec_char c = true) (to_dec n).
Proof.
  eapply Forall_impl; [|apply render_chars; lia]. cbv beta. intros c (d & Hd & ->).
  unfold is_dec_char, dec_digit. lia.
Qed.
Lemma to_hex_chars n : Forall (fun c => is_hex_char c = true) (to_hex n).
Proof.
  eapply Forall_impl; [|apply render_chars; lia]. cbv beta. intros c (d & Hd & ->).
  unfold is_hex_char, hex_digit. destruct (N.ltb_spec d 10); lia.
Qed.
Lemma to_dec_nonempty n : to_dec n <> [].
Proof. apply render_nonempty with (val := dec_val); [lia|exact dec_val_digit]. Qed.
Lemma to_hex_nonempty n : to_hex n <> [].
Proof. apply render_nonempty with (val := hex_val); [lia|exact hex_val_digit]. Qed.

(* signed hex: injective, and '-' (45) is not a hex character *)
Theorem to_hex_z_inj x y : to_hex_z x = to_hex_z y -> x = y.
Proof.
  assert (Hm : forall n l, to_hex n = 45 :: l -> False).
  { intros n l E. pose proof (to_hex_chars n) as F. rewrite E in F. inversion F as [|? ? H _]; subst.
    unfold is_hex_char in H. lia. }
  destruct x as [|p|p], y as [|q|q]; cbn [to_hex_z]; intros E;
    try reflexivity; try (symmetry in E; apply Hm in E; contradiction); try (apply Hm in E; contradiction).
  - apply to_hex_inj in E. lia.
  - apply to_hex_inj in E. lia.
  - apply to_hex_inj in E. lia.
  - injection E as E. apply to_hex_inj in E. congruence.
Qed.

Lemma to_hex_z_chars z : Forall (fun c => is_hex_char c = true \/ c = 45) (to_hex_z z).
Proof.
  destruct z; cbn [to_hex_z]; try (eapply Forall_impl; [|apply to_hex_chars]; cbv beta; auto).
  constructor; [auto|]. eapply Forall_impl; [|apply to_hex_chars]; cbv beta; auto.
Qed.
