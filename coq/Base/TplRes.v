(* Matching results of the TPL engine (tpl/matcher, tpl/tpl.go helpers): Go values of type `any`
   that are *types.Token, []any, nil, or values produced by user callbacks. *)
From Coq Require Import List ZArith.
Import ListNotations.

Inductive res :=
| RTok (i : nat)              (* *tpl.Token: the i-th token of the input (pointer identity = index) *)
| RList (l : list res)        (* []any *)
| RNil                        (* nil *)
| RVal (v : Z)                (* an opaque non-token, non-list value (e.g. a number, an ast.Expr leaf) *)
| RApp (op : nat) (x y : res) (* the value returned by the callback fn(op, x, y), kept symbolic *).

Fixpoint res_size (r : res) : nat :=
  match r with
  | RList l => S (fold_right (fun x a => res_size x + a) 0 l)
  | RApp _ x y => S (res_size x + res_size y)
  | _ => 1
  end.
