(* Lists of thread states: functional update and counting (shared by the LTS models C41, ...). *)
From Coq Require Import List Arith Lia.
Import ListNotations.

Definition upd {A} (i : nat) (x : A) (l : list A) : list A :=
  firstn i l ++ match skipn i l with [] => [] | _ :: t => x :: t end.

(* ------------------------------------------------------------------ lists *)
Lemma length_upd {A} i (x : A) l : length (upd i x l) = length l.
Proof. unfold upd. revert l; induction i; intros [|a l]; simpl; auto. Qed.

Lemma nth_upd_same {A} i (x a : A) l : nth_error l i = Some a -> nth_error (upd i x l) i = Some x.
Proof. unfold upd. revert l; induction i; intros [|b l] H; simpl in *; try discriminate; auto. Qed.

Lemma nth_upd_other {A} i j (x : A) l : i <> j -> nth_error (upd i x l) j = nth_error l j.
Proof. unfold upd. revert j l; induction i; intros j [|b l] H; simpl; auto.
  - destruct j; [congruence|reflexivity].
  - destruct j; simpl; auto. Qed.

Lemma In_nth {A} (y : A) l : In y l -> exists k, nth_error l k = Some y.
Proof. apply In_nth_error. Qed.

Lemma nth_In {A} (y : A) l k : nth_error l k = Some y -> In y l.
Proof. apply nth_error_In. Qed.

(* an element of the updated list is the new one or sits at another index of the old list *)
Lemma In_upd_nth {A} i (x y a : A) l : nth_error l i = Some a -> In y (upd i x l) ->
  y = x \/ exists k, k <> i /\ nth_error l k = Some y.
Proof.
  intros Hi Hy. apply In_nth in Hy as [k Hk]. destruct (Nat.eq_dec i k) as [->|Hne].
  - rewrite (nth_upd_same _ _ _ _ Hi) in Hk. left; congruence.
  - rewrite nth_upd_other in Hk by auto. right; exists k; split; auto.
Qed.

Lemma In_upd_self {A} i (x a : A) l : nth_error l i = Some a -> In x (upd i x l).
Proof. intros H. eapply nth_In, nth_upd_same; eauto. Qed.

Lemma In_upd_keep {A} i (x y a : A) l : nth_error l i = Some a -> y <> a -> In y l -> In y (upd i x l).
Proof.
  intros Hi Hne Hy. apply In_nth in Hy as [k Hk]. destruct (Nat.eq_dec i k) as [->|Hik]; [congruence|].
  apply nth_In with k. rewrite nth_upd_other; auto.
Qed.

Fixpoint count {A} (f : A -> bool) (l : list A) : nat :=
  match l with [] => 0 | x :: t => (if f x then 1 else 0) + count f t end.
Definition b2n (b : bool) : nat := if b then 1 else 0.

Lemma count_upd {A} (f : A -> bool) i x a l : nth_error l i = Some a ->
  count f (upd i x l) + b2n (f a) = count f l + b2n (f x).
Proof.
  unfold upd. revert l; induction i; intros [|b l] H; simpl in *; try discriminate.
  - injection H as ->. unfold b2n. destruct (f a), (f x); lia.
  - specialize (IHi l H). destruct (f b); lia.
Qed.

Lemma count_two {A} (f : A -> bool) l i j a b : i <> j -> nth_error l i = Some a -> nth_error l j = Some b ->
  f a = true -> f b = true -> 2 <= count f l.
Proof.
  revert i j; induction l as [|x l IH]; intros i j Hne Hi Hj Ha Hb; [destruct i; discriminate|].
  destruct i, j; simpl in *; try congruence.
  - injection Hi as ->. rewrite Ha. assert (1 <= count f l); [|lia].
    clear -Hj Hb. revert j Hj; induction l as [|y l IH]; intros [|j] Hj; simpl in *; try discriminate.
    + injection Hj as ->. rewrite Hb. lia.
    + specialize (IH _ Hj). destruct (f y); lia.
  - injection Hj as ->. rewrite Hb. assert (1 <= count f l); [|lia].
    clear -Hi Ha. revert i Hi; induction l as [|y l IH]; intros [|i] Hi; simpl in *; try discriminate.
    + injection Hi as ->. rewrite Ha. lia.
    + specialize (IH _ Hi). destruct (f y); lia.
  - assert (2 <= count f l) by (eapply IH with (i := i) (j := j); eauto). destruct (f x); lia.
Qed.

Lemma count_pos_ex {A} (f : A -> bool) l : 1 <= count f l -> exists k a, nth_error l k = Some a /\ f a = true.
Proof.
  induction l as [|x l IH]; simpl; [lia|]. destruct (f x) eqn:E.
  - intros _. exists 0, x. auto.
  - intros H. destruct IH as (k & a & Hk & Ha); [lia|]. exists (S k), a. auto.
Qed.

Lemma count_zero_all {A} (f : A -> bool) l a : count f l = 0 -> In a l -> f a = false.
Proof.
  induction l as [|x l IH]; simpl; [tauto|]. intros H [->|Hin].
  - destruct (f a); [lia|reflexivity].
  - apply IH; auto. destruct (f x); lia.
Qed.

Lemma count_map_ext {A} (f : A -> bool) (g : A -> A) l : (forall a, f (g a) = f a) -> count f (map g l) = count f l.
Proof. intros H. induction l as [|x l IH]; simpl; auto. now rewrite H, IH. Qed.

