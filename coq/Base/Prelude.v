(* Shared definitions: byte strings, the result monad of models of Go code, array indexing. *)
From Coq Require Import List NArith ZArith Bool.
Import ListNotations.

Definition str := list N.                (* a Go string / []byte: its bytes, each < 256 *)
Definition bytes_ok (s : str) : bool := forallb (fun b => N.ltb b 256) s.

(* result of a model of Go code that can panic (index out of range, nil, explicit panic)
   or loop: OutOfFuel is excluded by theorems through an explicit fuel bound *)
Inductive M (A : Type) : Type := Ok (a : A) | Panic | OutOfFuel.
Arguments Ok {A} a. Arguments Panic {A}. Arguments OutOfFuel {A}.

Definition ret {A} (a : A) : M A := Ok a.
Definition bind {A B} (m : M A) (f : A -> M B) : M B :=
  match m with Ok a => f a | Panic => Panic | OutOfFuel => OutOfFuel end.
Notation "x <- m ;; k" := (bind m (fun x => k)) (at level 61, m at next level, right associativity).

Definition is_ok {A} (m : M A) : bool := match m with Ok _ => true | _ => false end.
Definition is_panic {A} (m : M A) : bool := match m with Panic => true | _ => false end.

(* Go array/slice indexing a[i]: out of range panics *)
Definition idx {A} (l : list A) (i : Z) : M A :=
  if Z.ltb i 0 then Panic else
  match nth_error l (Z.to_nat i) with Some a => Ok a | None => Panic end.

Definition zlen {A} (l : list A) : Z := Z.of_nat (length l).

Fixpoint str_eqb (a b : str) : bool :=
  match a, b with
  | [], [] => true
  | x :: a', y :: b' => N.eqb x y && str_eqb a' b'
  | _, _ => false
  end.

Lemma str_eqb_eq a b : str_eqb a b = true <-> a = b.
Proof.
  revert b; induction a as [|x a IH]; destruct b as [|y b]; simpl; split; intros H; try congruence; auto.
  - apply andb_prop in H as [H1 H2]. apply N.eqb_eq in H1. apply IH in H2. congruence.
  - inversion H; subst. rewrite N.eqb_refl. simpl. apply IH. reflexivity.
Qed.

(* association-list lookup used by generated tables *)
Fixpoint zassoc {A} (k : Z) (l : list (Z * A)) : option A :=
  match l with [] => None | (k', v) :: t => if Z.eqb k k' then Some v else zassoc k t end.

Fixpoint zrange (lo : Z) (n : nat) : list Z :=
  match n with O => [] | S n' => lo :: zrange (lo + 1) n' end.
