(* Helpers the generated Gen/C10.v (translation of cl/compile.go overloadFuncName / overloadName) refers to. *)
From Coq Require Import List NArith ZArith Bool.
Import ListNotations.
From V Require Import Base.Prelude.
Open Scope Z_scope.

(* s[lo:hi] on a Go string: panics unless 0 <= lo <= hi <= len(s) *)
Definition slice_str (s : str) (lo hi : Z) : M str :=
  if (lo <? 0) || (hi <? lo) || (zlen s <? hi) then Panic
  else Ok (firstn (Z.to_nat (hi - lo)) (skipn (Z.to_nat lo) s)).

(* strings.ContainsRune(s, c) for an ASCII rune c *)
Definition contains_rune (s : str) (c : N) : bool := existsb (N.eqb c) s.

(* m[k] with the comma-ok form, for a map literal given as an association list (keys distinct) *)
Fixpoint map_lookup (m : list (str * str)) (k : str) : option str :=
  match m with [] => None | (k', v) :: t => if str_eqb k k' then Some v else map_lookup t k end.

(* *ast.Ident: None = nil; only its Name field is looked at *)
Definition identp := option str.
Definition not_nil (r : identp) : bool := match r with Some _ => true | None => false end.
Definition name_of (r : identp) : M str := match r with Some n => Ok n | None => Panic end.

(* a (string, error) result: RErr = non-nil error *)
Inductive res2 := RVal (s : str) | RErr.
