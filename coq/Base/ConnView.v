(* The view of jsonrpc2.inFlightState that the decision functions idle() and shuttingDown()
   read (x/jsonrpc2/conn.go).  Gen/ConnSites.v (regenerated from the source on every run)
   defines gen_idle / gen_shutting_down over this record; Model/C39.v uses them. *)
From Coq Require Import Bool Arith.

Record ifs_view := {
  v_connClosing : bool;
  v_reading : bool;
  v_readErr : bool;                 (* readErr != nil *)
  v_writeErr : bool;                (* writeErr != nil *)
  v_closer : bool;                  (* closer != nil *)
  v_closeErr : bool;                (* closeErr != nil *)
  v_outgoingCalls : nat;            (* len(outgoingCalls) *)
  v_outgoingNotifications : nat;
  v_incoming : nat;
  v_incomingByID : nat;             (* len(incomingByID) *)
  v_handlerQueue : nat;             (* len(handlerQueue) *)
  v_handlerRunning : bool }.
