(* A tiny interpreter of the fmt verbs used by the modelled code (%s of a string, %x of an int64,
   %v of a non-negative int): ties Gallina renderings to the literal Go format strings that the
   translator reads from the source (Gen/C36.v, Gen/C38.v). *)
From Coq Require Import List NArith ZArith Bool.
Import ListNotations.
From V Require Import Base.Prelude Base.Radix.
Open Scope N_scope.

Inductive farg := FStr (s : str) | FHex (z : Z) | FDec (n : N).

Definition fmt_verb (v : N) (a : farg) : option str :=
  match a with
  | FStr s => if v =? 115 then Some s else None                  (* %s *)
  | FHex z => if v =? 120 then Some (to_hex_z z) else None       (* %x *)
  | FDec n => if v =? 118 then Some (to_dec n) else None         (* %v *)
  end.

(* None: a verb without (or with a wrong kind of) argument, or arguments left over *)
Fixpoint fmt_apply (f : str) (args : list farg) : option str :=
  match f with
  | [] => match args with [] => Some [] | _ => None end
  | c :: t =>
    if c =? 37 then
      match t with
      | v :: t' =>
        match args with
        | a :: rest =>
          match fmt_verb v a, fmt_apply t' rest with
          | Some r, Some s => Some (r ++ s)
          | _, _ => None
          end
        | [] => None
        end
      | [] => None
      end
    else match fmt_apply t args with Some s => Some (c :: s) | None => None end
  end.
