(* Alphabet of what the translator (translator/gen_feederselects.go) reads from x/fakenet/conn.go:
   the statement list of fakeConn.Close, the body of connFeeder.close, the select statements of
   connFeeder.do / connFeeder.run with their case lists, the channel capacities of newFeeder and
   which feeder Read / Write use.  -> Gen/FeederSelects.v; Model/C41.v executes the two close
   lists and carries the obligation that the select tables are the modelled ones. *)
From Coq Require Import List.
Import ListNotations.

Inductive fid : Type := FR | FW.             (* the reader feeder (source in.Read) / the writer feeder (out.Write) *)

(* fakeConn.Close *)
Inductive kop : Type :=
| KCloseFeeder (f : fid)                     (* c.reader.close() / c.writer.close() *)
| KCloseStream (f : fid).                    (* c.in.Close() / c.out.Close() *)

(* connFeeder.close *)
Inductive fop : Type :=
| FLock                                      (* f.mu.Lock() *)
| FUnlock                                    (* f.mu.Unlock() *)
| FMarkCloseDone                             (* if !f.closed { f.closed = true; close(f.done) } *)
| FCloseDone                                 (* close(f.done) without the guard -- a regression *)
| FOther.

(* channels of a feeder *)
Inductive chn : Type := CInput | CResult | CDone.
(* what a select case does *)
Inductive cact : Type :=
| ASendArg                                   (* case f.input <- b *)
| ASendResult                                (* case f.result <- feedResult{n, err} *)
| ARecvBuf                                   (* case b = <-f.input *)
| ARecvRet                                   (* case r := <-f.result: return r.n, r.err *)
| ARetEOF                                    (* case <-f.done: return 0, io.EOF *)
| ARet.                                      (* case <-f.done: return *)
Definition scase : Type := (chn * cact)%type.
(* the straight-line skeleton of do / run *)
Inductive sstmt : Type :=
| SSelect (cs : list scase)
| SCallSource                                (* n, err := f.source(b) *)
| SLoop (body : list sstmt).                 (* for { body } *)

Definition fid_eqb (a b : fid) : bool := match a, b with FR, FR | FW, FW => true | _, _ => false end.
