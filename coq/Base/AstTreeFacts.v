(* Facts about sub-trees of the generic tree, shared by the AST proofs. *)
From Coq Require Import List String ZArith NArith Bool Lia.
Import ListNotations.
From V Require Import Base.AstTree.
Open Scope string_scope.
Open Scope list_scope.

Lemma value_nodes_sub : forall v c, In c (value_nodes v) -> incl (subnodes c) (subnodes_v v).
Proof.
  apply (value_ind' (fun n => forall c, In c (fields_nodes (fields n)) ->
                              incl (subnodes c) (flat_map (fun fx => subnodes_v (snd fx)) (fields n)))
                    (fun v => forall c, In c (value_nodes v) -> incl (subnodes c) (subnodes_v v))).
  - intros i k fs IH c Hin. cbn [fields] in *. unfold fields_nodes in Hin.
    induction fs as [|[f x] t IHt]; [contradiction|].
    cbn [flat_map snd] in *. apply in_app_or in Hin as [Hin|Hin]; inversion IH; subst.
    + apply incl_appl. auto.
    + apply incl_appr. auto.
  - intros p c [].
  - intros t c [].
  - intros s c [].
  - intros b c [].
  - intros c [].
  - intros c [].
  - intros n _ c [<-|[]]. cbn [subnodes_v]. apply incl_refl.
  - intros [i k fs] IH c Hin. rewrite value_nodes_rec in Hin. rewrite subnodes_v_rec. exact (IH c Hin).
  - intros l IH c Hin. rewrite value_nodes_list in Hin. rewrite subnodes_v_list.
    induction l as [|x t IHt]; [contradiction|].
    cbn [flat_map] in *. apply in_app_or in Hin as [Hin|Hin]; inversion IH; subst.
    + apply incl_appl. auto.
    + apply incl_appr. auto.
Qed.

Lemma assoc_sub i k fs f v : assoc f fs = Some v -> incl (subnodes_v v) (subnodes (Node i k fs)).
Proof.
  rewrite subnodes_node. intros A. apply incl_tl.
  induction fs as [|[g x] t IH]; cbn [assoc] in A; [discriminate|].
  cbn [flat_map snd]. destruct (String.eqb f g).
  - inversion A; subst. apply incl_appl, incl_refl.
  - apply incl_appr. auto.
Qed.

(* a node found in a field of n is a sub-tree of n *)
Lemma get_nodes_sub f n c : In c (value_nodes (get f n)) -> incl (subnodes c) (subnodes n).
Proof.
  unfold get. destruct n as [i k fs]. cbn [fields].
  destruct (assoc f fs) as [v|] eqn:A; [|intros []].
  intros Hin. eapply incl_tran; [apply value_nodes_sub; eauto | eapply assoc_sub; eauto].
Qed.

Lemma subnodes_self n : In n (subnodes n).
Proof. destruct n. rewrite subnodes_node. now left. Qed.
