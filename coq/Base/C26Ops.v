(* Statement alphabet of cmd/internal/gopfmt/fmt.go: writeFileWithBackup.  The translator
   (translator/gen_fmtops.go) maps every statement of the body to one constructor -> Gen/FmtOps.v;
   Model/C26.v interprets the generated list over a file-system model. *)
From Coq Require Import List.
Import ListNotations.

Inductive fstmt : Type :=
| SSplitPath                       (* dir, file := filepath.Split(path) *)
| SDirDot                          (* if dir == "" { dir = "." } *)
| SCreateTemp                      (* f, err := os.CreateTemp(dir, file) *)
| SRetIfErr                        (* if err != nil { return } *)
| STmpName                         (* tmpfile := f.Name() *)
| SWrite                           (* _, err = f.Write(target) *)
| SIfNoErr (b : list fstmt)        (* if err == nil { b } *)
| SIfStat (follow : bool) (b : list fstmt)
                                   (* if fi, e := os.Stat(path); e == nil { b }   (follow = false: os.Lstat) *)
| SChmodStat                       (* err = f.Chmod(fi.Mode().Perm()) *)
| SCloseKeepErr                    (* if e := f.Close(); err == nil { err = e } *)
| SIfErr (b : list fstmt)          (* if err != nil { b } *)
| SRemoveTmp                       (* os.Remove(tmpfile) *)
| SRemovePath                      (* os.Remove(path) *)
| SReturn                          (* return *)
| SReturnRename                    (* return os.Rename(tmpfile, path) *)
| SRenameElse (b : list fstmt).    (* if err = os.Rename(tmpfile, path); err != nil { b } *)
