(* GENERATED from /repo by /verif/translator — do not edit *)
From Coq Require Import List NArith ZArith Bool.
Import ListNotations.
From V Require Import Base.Prelude.
Open Scope Z_scope.

(* tpl/cl/compile.go: var idents *)
Definition tplcl_idents : list (str * Z) :=
  [([67;72;65;82]%N, 8%Z) (* CHAR *);
   ([67;79;77;77;69;78;84]%N, 2%Z) (* COMMENT *);
   ([69;79;70]%N, 1%Z) (* EOF *);
   ([70;76;79;65;84]%N, 6%Z) (* FLOAT *);
   ([73;68;69;78;84]%N, 4%Z) (* IDENT *);
   ([73;77;65;71]%N, 7%Z) (* IMAG *);
   ([73;78;84]%N, 5%Z) (* INT *);
   ([76;66;82;65;67;69]%N, 123%Z) (* LBRACE *);
   ([76;66;82;65;67;75]%N, 91%Z) (* LBRACK *);
   ([76;80;65;82;69;78]%N, 40%Z) (* LPAREN *);
   ([82;65;84]%N, 10%Z) (* RAT *);
   ([82;66;82;65;67;69]%N, 125%Z) (* RBRACE *);
   ([82;66;82;65;67;75]%N, 93%Z) (* RBRACK *);
   ([82;80;65;82;69;78]%N, 41%Z) (* RPAREN *);
   ([83;84;82;73;78;71]%N, 9%Z) (* STRING *);
   ([85;78;73;84]%N, 11%Z) (* UNIT *)].
(* compileExpr, switch name: case K: quoteCh = C *)
Definition tplcl_string_names : list (str * Z) :=
  [([81;83;84;82;73;78;71]%N, 34%Z) (* QSTRING *);
   ([82;65;87;83;84;82;73;78;71]%N, 96%Z) (* RAWSTRING *)].
(* compileExpr, switch name: case K: return matcher.WhiteSpace(), true *)
Definition tplcl_space_name : str := [83;80;65;67;69]%N. (* SPACE *)
