(* GENERATED from /repo by /verif/translator — do not edit *)
From Coq Require Import List NArith ZArith Bool.
Import ListNotations.
From V Require Import Base.Prelude.

(* headerReader.Read *)
Definition reader_header_names : list (list str) := [[[67;111;110;116;101;110;116;45;76;101;110;103;116;104]%N]].
Definition reader_line_delim : N := 10%N.
Definition reader_name_sep : N := 58%N.
Definition reader_parseint_base : Z := 10%Z.
Definition reader_parseint_bits : Z := 32%Z.
Definition reader_int_tests : list str := [[61;61;48]%N; [60;48]%N; [60;61;48]%N; [61;61;48]%N].
Definition reader_trimspace_calls : Z := 2%Z.

(* headerWriter.Write *)
Definition writer_format : str := [67;111;110;116;101;110;116;45;76;101;110;103;116;104;58;32;37;118;13;10;13;10]%N.
Definition writer_format_args : list str := [[108;101;110;40;95;41]%N].
