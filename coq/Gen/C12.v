(* GENERATED from /repo by /verif/translator — do not edit *)
From Coq Require Import List String.
Import ListNotations.
Open Scope string_scope.

(* which position a cl call site gives to the object of a declared name / how it records it *)
Inductive c12_rule := ROwn | RFirst | RStmt | RPath | RNone | RRecorded | RNotRecorded | RLookupByName | ROnlyNew | RGuarded | RUnguarded | RUnparsed.
Definition c12_sites : list (string * c12_rule) :=
  [("var", RFirst) (* v.Names[0].Pos() *);
   ("const", RFirst) (* v.Pos() *);
   ("define", RStmt) (* expr.Pos() *);
   ("range", RNone) (*  *);
   ("forphrase", RNone) (*  *);
   ("localtype", RNone) (*  *);
   ("param", ROwn) (* name.Pos() *);
   ("func", ROwn) (* d.Name.Pos() *);
   ("compileRangeStmt-form", RNone) (*  *);
   ("compileForPhraseStmt-form", RNone) (*  *);
   ("localtype-def", RNotRecorded) (*  *);
   ("import-named", ROwn) (* specName.Pos() *);
   ("import-unnamed", RPath) (* spec.Path.Pos() *);
   ("defnames", RLookupByName) (* scope.Lookup(name.Name) *);
   ("define-newnames", ROnlyNew) (* scope.Lookup(v.Name) == nil *);
   ("compositelit-type", RGuarded) (* guarded *)].
