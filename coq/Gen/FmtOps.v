(* GENERATED from /repo by /verif/translator — do not edit *)
From Coq Require Import List.
Import ListNotations.
From V Require Import Base.C26Ops.

(* cmd/internal/gopfmt/fmt.go: writeFileWithBackup *)
Definition gen_wfb : list fstmt := [SSplitPath; SDirDot; SCreateTemp; SRetIfErr; STmpName; SWrite; SIfNoErr [SIfStat true [SChmodStat]]; SCloseKeepErr; SIfErr [SRemoveTmp; SReturn]; SRenameElse [SRemoveTmp]; SReturn].
