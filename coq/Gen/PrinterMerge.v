(* GENERATED from /repo by /verif/translator — do not edit *)
From Coq Require Import List ZArith Bool.
Import ListNotations.
Open Scope Z_scope.

Definition pm_infinity : Z := 1073741824%Z.

(* return p.commentOffset < next.Offset && (!p.impliedSemi || !p.commentNewline) *)
Definition pm_commentBefore (commentOffset nextOffset : Z) (impliedSemi commentNewline : bool) : bool :=
  ((commentOffset <? nextOffset) && (((negb impliedSemi) || (negb commentNewline)))).

(* audited statements (normalised through go/printer), all found in order:
   printer.intersperseComments: for p.commentBefore(next) { / for _, c := range p.comment.List { / p.writeCommentPrefix(p.posFor(c.Pos()), next, last, tok) / p.writeComment(c) / last = c / } / p.nextComment() / }
   printer.nextComment: for p.cindex < len(p.comments) { / c := p.comments[p.cindex] / p.cindex++ / if list := c.List; len(list) > 0 { / p.comment = c / p.commentOffset = p.posFor(list[0].Pos()).Offset / p.commentNewline = p.commentsHaveNewline(list) / return / } / }
   printer.nextComment: p.commentOffset = infinity
   printer.flush: if p.commentBefore(next) { / wroteNewline, droppedFF = p.intersperseComments(next, tok) / } else { / p.writeWhitespace(len(p.wsbuf)) / }
   printer.print: if x == newline || x == formfeed { / p.impliedSemi = false / }
   printer.print: next := p.pos
   printer.print: wroteNewline, droppedFF := p.flush(next, p.lastTok)
   printer.print: p.writeString(next, data, isLit)
   printer.print: p.impliedSemi = impliedSemi
   Config.fprint: if err = p.printNode(node); err != nil { / return / }
   Config.fprint: p.impliedSemi = false
   Config.fprint: p.flush(token.Position{Offset: infinity, Line: infinity}, token.EOF)
   *)
Definition pm_audited_sites : Z := 12%Z.
Definition pm_unmatched_sites : Z := 0%Z.
