(* GENERATED from /repo by /verif/translator — do not edit *)
From Coq Require Import List NArith ZArith Bool.
Import ListNotations.
From V Require Import Base.Prelude.
Open Scope Z_scope.

(* parser.error:  if n > 10 { panic(bailout{}) } *)
Definition error_limit : Z := 10%Z.
Definition error_bails (n : Z) : bool := Z.gtb n error_limit.

(* parser.advance:  if p.pos == p.syncPos && p.syncCnt < 10 {cnt++; return}; if p.pos > p.syncPos {sync; return} *)
Definition advance_limit : Z := 10%Z.
Definition advance_cnt_ok (cnt : Z) : bool := Z.ltb cnt advance_limit.
Definition advance_pos_progress (pos syncpos : Z) : bool := Z.gtb pos syncpos.

(* stmtStart = BREAK CONST CONTINUE DEFER FALLTHROUGH FOR GO GOTO IF RETURN SELECT SWITCH TYPE VAR *)
Definition sync_stmtStart : list Z := [61%Z; 64%Z; 65%Z; 67%Z; 69%Z; 70%Z; 72%Z; 73%Z; 74%Z; 80%Z; 81%Z; 83%Z; 84%Z; 85%Z].
(* declStart = CONST TYPE VAR *)
Definition sync_declStart : list Z := [64%Z; 84%Z; 85%Z].
(* exprEnd = COLON COMMA RBRACE RBRACK RPAREN SEMICOLON *)
Definition sync_exprEnd : list Z := [52%Z; 54%Z; 55%Z; 56%Z; 57%Z; 58%Z].
Definition tk_EOF : Z := 1%Z.
Definition tk_SEMICOLON : Z := 57%Z.
Definition tk_RBRACE : Z := 56%Z.
Definition tk_RPAREN : Z := 54%Z.
Definition tk_VAR : Z := 85%Z.
Definition tk_IDENT : Z := 4%Z.
Definition tk_INT : Z := 5%Z.

(* functions of interface.go / parser_gop.go and every function instantiating a `parser`:
   (name, exported, instantiates parser, deferred recover+bailout test+re-raise, Sort directly before err is set, err = p.errors (ErrorList result), fills nil file, merges sub-parser errors, callees) *)
Definition entries : list (str * (bool * bool * bool * bool * bool * bool * bool) * list str) :=
  [([80;97;114;115;101]%N (* Parse *), (true, false, false, false, false, false, false), [[80;97;114;115;101;70;105;108;101]%N; [97;115;116;70;105;108;101;84;111;80;107;103]%N]);
   ([80;97;114;115;101;68;105;114]%N (* ParseDir *), (true, false, false, false, false, false, false), [[80;97;114;115;101;70;83;68;105;114]%N]);
   ([80;97;114;115;101;68;105;114;69;120]%N (* ParseDirEx *), (true, false, false, false, false, false, false), [[80;97;114;115;101;70;83;68;105;114]%N]);
   ([80;97;114;115;101;69;110;116;114;105;101;115]%N (* ParseEntries *), (true, false, false, false, false, false, false), [[80;97;114;115;101;70;83;69;110;116;114;105;101;115]%N]);
   ([80;97;114;115;101;69;110;116;114;121]%N (* ParseEntry *), (true, false, false, false, false, false, false), [[80;97;114;115;101;70;83;69;110;116;114;121]%N]);
   ([80;97;114;115;101;69;120;112;114]%N (* ParseExpr *), (true, false, false, false, false, false, false), [[80;97;114;115;101;69;120;112;114;70;114;111;109]%N]);
   ([80;97;114;115;101;69;120;112;114;69;120]%N (* ParseExprEx *), (true, true, true, true, true, false, false), []);
   ([80;97;114;115;101;69;120;112;114;70;114;111;109]%N (* ParseExprFrom *), (true, true, true, true, false, false, false), []);
   ([80;97;114;115;101;70;83;68;105;114]%N (* ParseFSDir *), (true, false, false, false, false, false, false), [[80;97;114;115;101;70;83;70;105;108;101]%N; [102;105;108;116;101;114]%N; [114;101;113;80;107;103]%N]);
   ([80;97;114;115;101;70;83;69;110;116;114;105;101;115]%N (* ParseFSEntries *), (true, false, false, false, false, false, false), [[80;97;114;115;101;70;83;69;110;116;114;121]%N]);
   ([80;97;114;115;101;70;83;69;110;116;114;121]%N (* ParseFSEntry *), (true, false, false, false, false, false, false), [[80;97;114;115;101;70;83;70;105;108;101]%N]);
   ([80;97;114;115;101;70;83;70;105;108;101]%N (* ParseFSFile *), (true, false, false, false, false, false, false), [[112;97;114;115;101;70;105;108;101]%N; [114;101;97;100;83;111;117;114;99;101;70;83]%N]);
   ([80;97;114;115;101;70;83;70;105;108;101;115]%N (* ParseFSFiles *), (true, false, false, false, false, false, false), [[80;97;114;115;101;70;83;70;105;108;101]%N]);
   ([80;97;114;115;101;70;105;108;101]%N (* ParseFile *), (true, false, false, false, false, false, false), [[80;97;114;115;101;70;83;70;105;108;101]%N]);
   ([80;97;114;115;101;70;105;108;101;115]%N (* ParseFiles *), (true, false, false, false, false, false, false), [[80;97;114;115;101;70;83;70;105;108;101;115]%N]);
   ([83;101;116;68;101;98;117;103]%N (* SetDebug *), (true, false, false, false, false, false, false), []);
   ([97;115;116;70;105;108;101;84;111;80;107;103]%N (* astFileToPkg *), (false, false, false, false, false, false, false), []);
   ([100;101;102;97;117;108;116;67;108;97;115;115;75;105;110;100]%N (* defaultClassKind *), (false, false, false, false, false, false, false), []);
   ([102;105;108;116;101;114]%N (* filter *), (false, false, false, false, false, false, false), []);
   ([112;97;114;115;101;70;105;108;101]%N (* parseFile *), (false, true, true, true, false, true, false), []);
   ([112;97;114;115;101;114;46;100;111;109;97;105;110;84;101;120;116;76;105;116;69;120]%N (* parser.domainTextLitEx *), (false, true, false, false, false, false, true), []);
   ([114;101;97;100;83;111;117;114;99;101;70;83]%N (* readSourceFS *), (false, false, false, false, false, false, false), []);
   ([114;101;113;80;107;103]%N (* reqPkg *), (false, false, false, false, false, false, false), [])].

(* construction sites of ast.Bad* nodes; class 0 = no error witness, 1 = dominated by p.error/p.errorExpected, 2 = nil-guard of an error-reporting helper, 3 = ok-flag with error after the loop, 4 = non-empty sub-parser error list appended, 5 = cond==nil in a reviewed header (pinned body), 6 = isTuple flag of parseRHSOrTypeEx(false) (parseLambdaExpr reports every tuple it returns when allowTuple is false): (function, kind, class) *)
Definition bad_sites : list (str * str * Z) :=
  [([112;97;114;115;101;114;46;99;104;101;99;107;69;120;112;114]%N (* parser.checkExpr *), [66;97;100;69;120;112;114]%N (* BadExpr: error call dominates *), 1%Z);
   ([112;97;114;115;101;114;46;99;104;101;99;107;69;120;112;114]%N (* parser.checkExpr *), [66;97;100;69;120;112;114]%N (* BadExpr: error call dominates *), 1%Z);
   ([112;97;114;115;101;114;46;99;104;101;99;107;69;120;112;114;79;114;84;121;112;101]%N (* parser.checkExprOrType *), [66;97;100;69;120;112;114]%N (* BadExpr: error call dominates *), 1%Z);
   ([112;97;114;115;101;114;46;109;97;107;101;69;120;112;114]%N (* parser.makeExpr *), [66;97;100;69;120;112;114]%N (* BadExpr: error call dominates *), 1%Z);
   ([112;97;114;115;101;114;46;112;97;114;115;101;65;114;114;97;121;84;121;112;101;79;114;83;108;105;99;101;76;105;116]%N (* parser.parseArrayTypeOrSliceLit *), [66;97;100;69;120;112;114]%N (* BadExpr: error call dominates *), 1%Z);
   ([112;97;114;115;101;114;46;112;97;114;115;101;68;101;102;101;114;83;116;109;116]%N (* parser.parseDeferStmt *), [66;97;100;83;116;109;116]%N (* BadStmt: guarded by call == nil of p.parseCallExpr *), 2%Z);
   ([112;97;114;115;101;114;46;112;97;114;115;101;70;105;101;108;100;68;101;99;108]%N (* parser.parseFieldDecl *), [66;97;100;69;120;112;114]%N (* BadExpr: error call dominates *), 1%Z);
   ([112;97;114;115;101;114;46;112;97;114;115;101;70;111;114;80;104;114;97;115;101;67;111;110;100]%N (* parser.parseForPhraseCond *), [66;97;100;69;120;112;114]%N (* BadExpr: error call dominates *), 1%Z);
   ([112;97;114;115;101;114;46;112;97;114;115;101;70;111;114;80;104;114;97;115;101;67;111;110;100]%N (* parser.parseForPhraseCond *), [66;97;100;69;120;112;114]%N (* BadExpr: cond == nil in reviewed header *), 5%Z);
   ([112;97;114;115;101;114;46;112;97;114;115;101;70;111;114;83;116;109;116]%N (* parser.parseForStmt *), [66;97;100;83;116;109;116]%N (* BadStmt: error call dominates *), 1%Z);
   ([112;97;114;115;101;114;46;112;97;114;115;101;70;117;110;99;68;101;99;108;79;114;67;97;108;108]%N (* parser.parseFuncDeclOrCall *), [66;97;100;69;120;112;114]%N (* BadExpr: error call dominates *), 1%Z);
   ([112;97;114;115;101;114;46;112;97;114;115;101;71;111;83;116;109;116]%N (* parser.parseGoStmt *), [66;97;100;83;116;109;116]%N (* BadStmt: guarded by call == nil of p.parseCallExpr *), 2%Z);
   ([112;97;114;115;101;114;46;112;97;114;115;101;73;102;72;101;97;100;101;114]%N (* parser.parseIfHeader *), [66;97;100;69;120;112;114]%N (* BadExpr: error call dominates *), 1%Z);
   ([112;97;114;115;101;114;46;112;97;114;115;101;73;102;72;101;97;100;101;114]%N (* parser.parseIfHeader *), [66;97;100;69;120;112;114]%N (* BadExpr: cond == nil in reviewed header *), 5%Z);
   ([112;97;114;115;101;114;46;112;97;114;115;101;73;102;83;116;109;116]%N (* parser.parseIfStmt *), [66;97;100;83;116;109;116]%N (* BadStmt: error call dominates *), 1%Z);
   ([112;97;114;115;101;114;46;112;97;114;115;101;73;110;100;101;120;79;114;83;108;105;99;101;67;111;110;116;105;110;117;101]%N (* parser.parseIndexOrSliceContinue *), [66;97;100;69;120;112;114]%N (* BadExpr: error call dominates *), 1%Z);
   ([112;97;114;115;101;114;46;112;97;114;115;101;73;110;100;101;120;79;114;83;108;105;99;101;67;111;110;116;105;110;117;101]%N (* parser.parseIndexOrSliceContinue *), [66;97;100;69;120;112;114]%N (* BadExpr: error call dominates *), 1%Z);
   ([112;97;114;115;101;114;46;112;97;114;115;101;76;97;109;98;100;97;69;120;112;114]%N (* parser.parseLambdaExpr *), [66;97;100;69;120;112;114]%N (* BadExpr: guarded by ident == nil of p.toIdent *), 2%Z);
   ([112;97;114;115;101;114;46;112;97;114;115;101;76;97;109;98;100;97;69;120;112;114]%N (* parser.parseLambdaExpr *), [66;97;100;69;120;112;114]%N (* BadExpr: guarded by ident == nil of p.toIdent *), 2%Z);
   ([112;97;114;115;101;114;46;112;97;114;115;101;79;112;101;114;97;110;100]%N (* parser.parseOperand *), [66;97;100;69;120;112;114]%N (* BadExpr: error call dominates *), 1%Z);
   ([112;97;114;115;101;114;46;112;97;114;115;101;80;97;114;97;109;101;116;101;114;76;105;115;116]%N (* parser.parseParameterList *), [66;97;100;69;120;112;114]%N (* BadExpr: ok = false; if !ok { p.error } after the loop *), 3%Z);
   ([112;97;114;115;101;114;46;112;97;114;115;101;82;72;83;79;114;84;121;112;101]%N (* parser.parseRHSOrType *), [66;97;100;69;120;112;114]%N (* BadExpr: guarded by isTuple of p.parseRHSOrTypeEx(false); parseLambdaExpr reports the tuple *), 6%Z);
   ([112;97;114;115;101;114;46;112;97;114;115;101;83;105;109;112;108;101;83;116;109;116;69;120]%N (* parser.parseSimpleStmtEx *), [66;97;100;83;116;109;116]%N (* BadStmt: error call dominates *), 1%Z);
   ([112;97;114;115;101;114;46;112;97;114;115;101;83;116;109;116]%N (* parser.parseStmt *), [66;97;100;83;116;109;116]%N (* BadStmt: error call dominates *), 1%Z);
   ([112;97;114;115;101;114;46;112;97;114;115;101;84;121;112;101]%N (* parser.parseType *), [66;97;100;69;120;112;114]%N (* BadExpr: error call dominates *), 1%Z);
   ([112;97;114;115;101;114;46;112;97;114;115;101;84;121;112;101;73;110;115;116;97;110;99;101]%N (* parser.parseTypeInstance *), [66;97;100;69;120;112;114]%N (* BadExpr: error call dominates *), 1%Z);
   ([112;97;114;115;101;114;46;115;116;114;105;110;103;76;105;116;69;120;112;114]%N (* parser.stringLitExpr *), [66;97;100;69;120;112;114]%N (* BadExpr: non-empty ParseExprEx error list appended *), 4%Z)].

(* panic / log.Panic* / log.Fatal* call sites; class 0 = unreviewed, 1 = bailout, 2 = re-raise of a non-bailout panic in a wrapper, 3 = assert, 4 = internal error / unexpected state, 5 = nil FileSet precondition: (function, kind, class) *)
Definition panic_sites : list (str * str * Z) :=
  [([80;97;114;115;101;69;120;112;114;69;120]%N (* ParseExprEx *), [112;97;110;105;99]%N (* panic: re-raise of non-bailout panic *), 2%Z);
   ([80;97;114;115;101;69;120;112;114;70;114;111;109]%N (* ParseExprFrom *), [112;97;110;105;99]%N (* panic: re-raise of non-bailout panic *), 2%Z);
   ([97;115;115;101;114;116]%N (* assert *), [112;97;110;105;99]%N (* panic: assert *), 3%Z);
   ([112;97;99;107;73;110;100;101;120;69;120;112;114]%N (* packIndexExpr *), [112;97;110;105;99]%N (* panic: "internal error: packIndexExpr with empty expr slice" *), 4%Z);
   ([112;97;114;115;101;70;105;108;101]%N (* parseFile *), [112;97;110;105;99]%N (* panic: re-raise of non-bailout panic *), 2%Z);
   ([112;97;114;115;101;70;105;108;101]%N (* parseFile *), [112;97;110;105;99]%N (* panic: fset == nil precondition *), 5%Z);
   ([112;97;114;115;101;114;46;101;114;114;111;114]%N (* parser.error *), [112;97;110;105;99]%N (* panic: bailout *), 1%Z);
   ([112;97;114;115;101;114;46;112;97;114;115;101;65;114;114;97;121;84;121;112;101;79;114;83;108;105;99;101;76;105;116]%N (* parser.parseArrayTypeOrSliceLit *), [112;97;110;105;99]%N (* panic: "parseArrayTypeOrSliceLit: unexpected state" *), 4%Z)].

(* accesses to an `errors` field other than reads; class 1 = Add, 2 = append of a sub-parser/tpl error list, 3 = Sort inside a wrapper closure, 0 = anything else: (function, kind, class) *)
Definition errors_writes : list (str * str * Z) :=
  [([80;97;114;115;101;69;120;112;114;69;120]%N (* ParseExprEx *), [112;46;101;114;114;111;114;115;46;83;111;114;116]%N (* p.errors.Sort: Sort *), 3%Z);
   ([80;97;114;115;101;69;120;112;114;70;114;111;109]%N (* ParseExprFrom *), [112;46;101;114;114;111;114;115;46;83;111;114;116]%N (* p.errors.Sort: Sort *), 3%Z);
   ([112;97;114;115;101;70;105;108;101]%N (* parseFile *), [112;46;101;114;114;111;114;115;46;83;111;114;116]%N (* p.errors.Sort: Sort *), 3%Z);
   ([112;97;114;115;101;114;46;100;111;109;97;105;110;84;101;120;116;76;105;116;69;120]%N (* parser.domainTextLitEx *), [112;46;101;114;114;111;114;115;32;61]%N (* p.errors =: append sp.errors... *), 2%Z);
   ([112;97;114;115;101;114;46;101;114;114;111;114]%N (* parser.error *), [112;46;101;114;114;111;114;115;46;65;100;100]%N (* p.errors.Add: Add *), 1%Z);
   ([112;97;114;115;101;114;46;105;110;105;116]%N (* parser.init *), [112;46;101;114;114;111;114;115;46;65;100;100]%N (* p.errors.Add: Add *), 1%Z);
   ([112;97;114;115;101;114;46;105;110;105;116;83;117;98]%N (* parser.initSub *), [112;46;101;114;114;111;114;115;46;65;100;100]%N (* p.errors.Add: Add *), 1%Z);
   ([112;97;114;115;101;114;46;115;116;114;105;110;103;76;105;116;69;120;112;114]%N (* parser.stringLitExpr *), [112;46;101;114;114;111;114;115;32;61]%N (* p.errors =: append err... *), 2%Z);
   ([112;97;114;115;101;114;46;116;112;108;76;105;116]%N (* parser.tplLit *), [112;46;101;114;114;111;114;115;32;61]%N (* p.errors =: append err... *), 2%Z)].

(* functions whose body is pinned: (name, FNV-1a-64 of the normalised go/printer text of the declaration) *)
Definition pinned_bodies : list (str * Z) :=
  [([112;97;114;115;101;114;46;101;114;114;111;114;69;120;112;101;99;116;101;100]%N (* parser.errorExpected *), 4409843593578162847%Z);
   ([112;97;114;115;101;114;46;112;97;114;115;101;67;97;108;108;69;120;112;114]%N (* parser.parseCallExpr *), 4786536729220994690%Z);
   ([112;97;114;115;101;114;46;112;97;114;115;101;70;111;114;80;104;114;97;115;101;67;111;110;100]%N (* parser.parseForPhraseCond *), 12198355796714123847%Z);
   ([112;97;114;115;101;114;46;112;97;114;115;101;73;102;72;101;97;100;101;114]%N (* parser.parseIfHeader *), 16070097371622937857%Z);
   ([112;97;114;115;101;114;46;116;111;73;100;101;110;116]%N (* parser.toIdent *), 4129803464152735299%Z)].

