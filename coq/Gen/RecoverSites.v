(* GENERATED from /repo by /verif/translator — do not edit *)
From Coq Require Import List String NArith.
Import ListNotations.
Open Scope string_scope.

Record recover_site := { rs_dir : string; rs_func : string; rs_has_defer : bool; rs_guarded : bool;
  rs_calls_before : list string; rs_defers_before : list string; rs_handler_calls : list string;
  rs_handler_sets : list string; rs_repanics : bool; rs_named_err : bool }.

Definition recover_sites : list recover_site :=
  [{| rs_dir := "cl"; rs_func := "NewPackage"; rs_has_defer := true; rs_guarded := true;
      rs_calls_before := ["make"; "newRecorder"];
      rs_defers_before := ["p.Types.Scope"; "rec.Complete"]; rs_handler_calls := ["ctx.errs.ToError"; "ctx.handleRecover"; "recover"];
      rs_handler_sets := ["err"]; rs_repanics := false; rs_named_err := true |};
   {| rs_dir := "cl"; rs_func := "pkgCtx.loadSymbol"; rs_has_defer := true; rs_guarded := true;
      rs_calls_before := [];
      rs_defers_before := []; rs_handler_calls := ["p.handleRecover"; "recover"];
      rs_handler_sets := []; rs_repanics := false; rs_named_err := false |};
   {| rs_dir := "cl"; rs_func := "loadImport"; rs_has_defer := true; rs_guarded := true;
      rs_calls_before := [];
      rs_defers_before := []; rs_handler_calls := ["ctx.handleRecover"; "recover"];
      rs_handler_sets := []; rs_repanics := false; rs_named_err := false |};
   {| rs_dir := "cl"; rs_func := "compileStmt"; rs_has_defer := true; rs_guarded := true;
      rs_calls_before := [];
      rs_defers_before := []; rs_handler_calls := ["ctx.cb.ResetStmt"; "ctx.handleRecover"; "recover"];
      rs_handler_sets := []; rs_repanics := false; rs_named_err := false |};
   {| rs_dir := "x/build"; rs_func := "Context.BuildFile"; rs_has_defer := true; rs_guarded := false;
      rs_calls_before := [];
      rs_defers_before := []; rs_handler_calls := ["fmt.Errorf"; "recover"];
      rs_handler_sets := ["err"]; rs_repanics := false; rs_named_err := true |};
   {| rs_dir := "x/build"; rs_func := "Context.BuildFSDir"; rs_has_defer := true; rs_guarded := false;
      rs_calls_before := [];
      rs_defers_before := []; rs_handler_calls := ["fmt.Errorf"; "recover"];
      rs_handler_sets := ["err"]; rs_repanics := false; rs_named_err := true |};
   {| rs_dir := "x/build"; rs_func := "Context.BuildDir"; rs_has_defer := true; rs_guarded := false;
      rs_calls_before := [];
      rs_defers_before := []; rs_handler_calls := ["fmt.Errorf"; "recover"];
      rs_handler_sets := ["err"]; rs_repanics := false; rs_named_err := true |}].

Definition enable_recover_default : bool := true.

(* const indexTable of cl/compile.go (overloadFuncName) *)
Definition index_table : list N := [48;49;50;51;52;53;54;55;56;57;97;98;99;100;101;102;103;104;105;106;107;108;109;110;111;112;113;114;115;116;117;118;119;120;121;122]%N.
