(* GENERATED from /repo by /verif/translator — do not edit *)
From Coq Require Import List NArith ZArith Bool.
Import ListNotations.
From V Require Import Base.Prelude.
Open Scope Z_scope.

(* ---- token ---- *)
Definition xgo_ILLEGAL : Z := 0%Z.
Definition xgo_EOF : Z := 1%Z.
Definition xgo_COMMENT : Z := 2%Z.
Definition xgo_CSTRING : Z := 3%Z.
Definition xgo_literal_beg : Z := 3%Z.
Definition xgo_IDENT : Z := 4%Z.
Definition xgo_INT : Z := 5%Z.
Definition xgo_FLOAT : Z := 6%Z.
Definition xgo_IMAG : Z := 7%Z.
Definition xgo_CHAR : Z := 8%Z.
Definition xgo_STRING : Z := 9%Z.
Definition xgo_RAT : Z := 10%Z.
Definition xgo_literal_end : Z := 10%Z.
Definition xgo_DRARROW : Z := 11%Z.
Definition xgo_RARROW : Z := 11%Z.
Definition xgo_operator_beg : Z := 11%Z.
Definition xgo_ADD : Z := 12%Z.
Definition xgo_SUB : Z := 13%Z.
Definition xgo_MUL : Z := 14%Z.
Definition xgo_QUO : Z := 15%Z.
Definition xgo_REM : Z := 16%Z.
Definition xgo_AND : Z := 17%Z.
Definition xgo_OR : Z := 18%Z.
Definition xgo_XOR : Z := 19%Z.
Definition xgo_SHL : Z := 20%Z.
Definition xgo_SHR : Z := 21%Z.
Definition xgo_AND_NOT : Z := 22%Z.
Definition xgo_ADD_ASSIGN : Z := 23%Z.
Definition xgo_SUB_ASSIGN : Z := 24%Z.
Definition xgo_MUL_ASSIGN : Z := 25%Z.
Definition xgo_QUO_ASSIGN : Z := 26%Z.
Definition xgo_REM_ASSIGN : Z := 27%Z.
Definition xgo_AND_ASSIGN : Z := 28%Z.
Definition xgo_OR_ASSIGN : Z := 29%Z.
Definition xgo_XOR_ASSIGN : Z := 30%Z.
Definition xgo_SHL_ASSIGN : Z := 31%Z.
Definition xgo_SHR_ASSIGN : Z := 32%Z.
Definition xgo_AND_NOT_ASSIGN : Z := 33%Z.
Definition xgo_LAND : Z := 34%Z.
Definition xgo_LOR : Z := 35%Z.
Definition xgo_ARROW : Z := 36%Z.
Definition xgo_INC : Z := 37%Z.
Definition xgo_DEC : Z := 38%Z.
Definition xgo_EQL : Z := 39%Z.
Definition xgo_LSS : Z := 40%Z.
Definition xgo_GTR : Z := 41%Z.
Definition xgo_ASSIGN : Z := 42%Z.
Definition xgo_NOT : Z := 43%Z.
Definition xgo_NEQ : Z := 44%Z.
Definition xgo_LEQ : Z := 45%Z.
Definition xgo_GEQ : Z := 46%Z.
Definition xgo_DEFINE : Z := 47%Z.
Definition xgo_ELLIPSIS : Z := 48%Z.
Definition xgo_LPAREN : Z := 49%Z.
Definition xgo_LBRACK : Z := 50%Z.
Definition xgo_LBRACE : Z := 51%Z.
Definition xgo_COMMA : Z := 52%Z.
Definition xgo_PERIOD : Z := 53%Z.
Definition xgo_RPAREN : Z := 54%Z.
Definition xgo_RBRACK : Z := 55%Z.
Definition xgo_RBRACE : Z := 56%Z.
Definition xgo_SEMICOLON : Z := 57%Z.
Definition xgo_COLON : Z := 58%Z.
Definition xgo_QUESTION : Z := 59%Z.
Definition xgo_operator_end : Z := 59%Z.
Definition xgo_keyword_beg : Z := 60%Z.
Definition xgo_BREAK : Z := 61%Z.
Definition xgo_CASE : Z := 62%Z.
Definition xgo_CHAN : Z := 63%Z.
Definition xgo_CONST : Z := 64%Z.
Definition xgo_CONTINUE : Z := 65%Z.
Definition xgo_DEFAULT : Z := 66%Z.
Definition xgo_DEFER : Z := 67%Z.
Definition xgo_ELSE : Z := 68%Z.
Definition xgo_FALLTHROUGH : Z := 69%Z.
Definition xgo_FOR : Z := 70%Z.
Definition xgo_FUNC : Z := 71%Z.
Definition xgo_GO : Z := 72%Z.
Definition xgo_GOTO : Z := 73%Z.
Definition xgo_IF : Z := 74%Z.
Definition xgo_IMPORT : Z := 75%Z.
Definition xgo_INTERFACE : Z := 76%Z.
Definition xgo_MAP : Z := 77%Z.
Definition xgo_PACKAGE : Z := 78%Z.
Definition xgo_RANGE : Z := 79%Z.
Definition xgo_RETURN : Z := 80%Z.
Definition xgo_SELECT : Z := 81%Z.
Definition xgo_STRUCT : Z := 82%Z.
Definition xgo_SWITCH : Z := 83%Z.
Definition xgo_TYPE : Z := 84%Z.
Definition xgo_VAR : Z := 85%Z.
Definition xgo_keyword_end : Z := 86%Z.
Definition xgo_SRARROW : Z := 87%Z.
Definition xgo_additional_beg : Z := 87%Z.
Definition xgo_TILDE : Z := 88%Z.
Definition xgo_BIDIARROW : Z := 89%Z.
Definition xgo_additional_end : Z := 89%Z.
Definition xgo_ENV : Z := 90%Z.
Definition xgo_additional_end2 : Z := 90%Z.
Definition xgo_UNIT : Z := 91%Z.
Definition xgo_additional_end3 : Z := 91%Z.
Definition xgo_consts : list (str * Z) :=
  [([73;76;76;69;71;65;76]%N, 0%Z); ([69;79;70]%N, 1%Z); ([67;79;77;77;69;78;84]%N, 2%Z); ([67;83;84;82;73;78;71]%N, 3%Z);
   ([108;105;116;101;114;97;108;95;98;101;103]%N, 3%Z); ([73;68;69;78;84]%N, 4%Z); ([73;78;84]%N, 5%Z); ([70;76;79;65;84]%N, 6%Z);
   ([73;77;65;71]%N, 7%Z); ([67;72;65;82]%N, 8%Z); ([83;84;82;73;78;71]%N, 9%Z); ([82;65;84]%N, 10%Z);
   ([108;105;116;101;114;97;108;95;101;110;100]%N, 10%Z); ([68;82;65;82;82;79;87]%N, 11%Z); ([82;65;82;82;79;87]%N, 11%Z); ([111;112;101;114;97;116;111;114;95;98;101;103]%N, 11%Z);
   ([65;68;68]%N, 12%Z); ([83;85;66]%N, 13%Z); ([77;85;76]%N, 14%Z); ([81;85;79]%N, 15%Z);
   ([82;69;77]%N, 16%Z); ([65;78;68]%N, 17%Z); ([79;82]%N, 18%Z); ([88;79;82]%N, 19%Z);
   ([83;72;76]%N, 20%Z); ([83;72;82]%N, 21%Z); ([65;78;68;95;78;79;84]%N, 22%Z); ([65;68;68;95;65;83;83;73;71;78]%N, 23%Z);
   ([83;85;66;95;65;83;83;73;71;78]%N, 24%Z); ([77;85;76;95;65;83;83;73;71;78]%N, 25%Z); ([81;85;79;95;65;83;83;73;71;78]%N, 26%Z); ([82;69;77;95;65;83;83;73;71;78]%N, 27%Z);
   ([65;78;68;95;65;83;83;73;71;78]%N, 28%Z); ([79;82;95;65;83;83;73;71;78]%N, 29%Z); ([88;79;82;95;65;83;83;73;71;78]%N, 30%Z); ([83;72;76;95;65;83;83;73;71;78]%N, 31%Z);
   ([83;72;82;95;65;83;83;73;71;78]%N, 32%Z); ([65;78;68;95;78;79;84;95;65;83;83;73;71;78]%N, 33%Z); ([76;65;78;68]%N, 34%Z); ([76;79;82]%N, 35%Z);
   ([65;82;82;79;87]%N, 36%Z); ([73;78;67]%N, 37%Z); ([68;69;67]%N, 38%Z); ([69;81;76]%N, 39%Z);
   ([76;83;83]%N, 40%Z); ([71;84;82]%N, 41%Z); ([65;83;83;73;71;78]%N, 42%Z); ([78;79;84]%N, 43%Z);
   ([78;69;81]%N, 44%Z); ([76;69;81]%N, 45%Z); ([71;69;81]%N, 46%Z); ([68;69;70;73;78;69]%N, 47%Z);
   ([69;76;76;73;80;83;73;83]%N, 48%Z); ([76;80;65;82;69;78]%N, 49%Z); ([76;66;82;65;67;75]%N, 50%Z); ([76;66;82;65;67;69]%N, 51%Z);
   ([67;79;77;77;65]%N, 52%Z); ([80;69;82;73;79;68]%N, 53%Z); ([82;80;65;82;69;78]%N, 54%Z); ([82;66;82;65;67;75]%N, 55%Z);
   ([82;66;82;65;67;69]%N, 56%Z); ([83;69;77;73;67;79;76;79;78]%N, 57%Z); ([67;79;76;79;78]%N, 58%Z); ([81;85;69;83;84;73;79;78]%N, 59%Z);
   ([111;112;101;114;97;116;111;114;95;101;110;100]%N, 59%Z); ([107;101;121;119;111;114;100;95;98;101;103]%N, 60%Z); ([66;82;69;65;75]%N, 61%Z); ([67;65;83;69]%N, 62%Z);
   ([67;72;65;78]%N, 63%Z); ([67;79;78;83;84]%N, 64%Z); ([67;79;78;84;73;78;85;69]%N, 65%Z); ([68;69;70;65;85;76;84]%N, 66%Z);
   ([68;69;70;69;82]%N, 67%Z); ([69;76;83;69]%N, 68%Z); ([70;65;76;76;84;72;82;79;85;71;72]%N, 69%Z); ([70;79;82]%N, 70%Z);
   ([70;85;78;67]%N, 71%Z); ([71;79]%N, 72%Z); ([71;79;84;79]%N, 73%Z); ([73;70]%N, 74%Z);
   ([73;77;80;79;82;84]%N, 75%Z); ([73;78;84;69;82;70;65;67;69]%N, 76%Z); ([77;65;80]%N, 77%Z); ([80;65;67;75;65;71;69]%N, 78%Z);
   ([82;65;78;71;69]%N, 79%Z); ([82;69;84;85;82;78]%N, 80%Z); ([83;69;76;69;67;84]%N, 81%Z); ([83;84;82;85;67;84]%N, 82%Z);
   ([83;87;73;84;67;72]%N, 83%Z); ([84;89;80;69]%N, 84%Z); ([86;65;82]%N, 85%Z); ([107;101;121;119;111;114;100;95;101;110;100]%N, 86%Z);
   ([83;82;65;82;82;79;87]%N, 87%Z); ([97;100;100;105;116;105;111;110;97;108;95;98;101;103]%N, 87%Z); ([84;73;76;68;69]%N, 88%Z); ([66;73;68;73;65;82;82;79;87]%N, 89%Z);
   ([97;100;100;105;116;105;111;110;97;108;95;101;110;100]%N, 89%Z); ([69;78;86]%N, 90%Z); ([97;100;100;105;116;105;111;110;97;108;95;101;110;100;50]%N, 90%Z); ([85;78;73;84]%N, 91%Z);
   ([97;100;100;105;116;105;111;110;97;108;95;101;110;100;51]%N, 91%Z)].
Definition xgo_tokens : list str :=
  [[73;76;76;69;71;65;76]%N; [69;79;70]%N; [67;79;77;77;69;78;84]%N; [67;83;84;82;73;78;71]%N; [73;68;69;78;84]%N; [73;78;84]%N;
   [70;76;79;65;84]%N; [73;77;65;71]%N; [67;72;65;82]%N; [83;84;82;73;78;71]%N; [82;65;84]%N; [61;62]%N;
   [43]%N; [45]%N; [42]%N; [47]%N; [37]%N; [38]%N;
   [124]%N; [94]%N; [60;60]%N; [62;62]%N; [38;94]%N; [43;61]%N;
   [45;61]%N; [42;61]%N; [47;61]%N; [37;61]%N; [38;61]%N; [124;61]%N;
   [94;61]%N; [60;60;61]%N; [62;62;61]%N; [38;94;61]%N; [38;38]%N; [124;124]%N;
   [60;45]%N; [43;43]%N; [45;45]%N; [61;61]%N; [60]%N; [62]%N;
   [61]%N; [33]%N; [33;61]%N; [60;61]%N; [62;61]%N; [58;61]%N;
   [46;46;46]%N; [40]%N; [91]%N; [123]%N; [44]%N; [46]%N;
   [41]%N; [93]%N; [125]%N; [59]%N; [58]%N; [63]%N;
   []%N; [98;114;101;97;107]%N; [99;97;115;101]%N; [99;104;97;110]%N; [99;111;110;115;116]%N; [99;111;110;116;105;110;117;101]%N;
   [100;101;102;97;117;108;116]%N; [100;101;102;101;114]%N; [101;108;115;101]%N; [102;97;108;108;116;104;114;111;117;103;104]%N; [102;111;114]%N; [102;117;110;99]%N;
   [103;111]%N; [103;111;116;111]%N; [105;102]%N; [105;109;112;111;114;116]%N; [105;110;116;101;114;102;97;99;101]%N; [109;97;112]%N;
   [112;97;99;107;97;103;101]%N; [114;97;110;103;101]%N; [114;101;116;117;114;110]%N; [115;101;108;101;99;116]%N; [115;116;114;117;99;116]%N; [115;119;105;116;99;104]%N;
   [116;121;112;101]%N; [118;97;114]%N; []%N; [45;62]%N; [126]%N; [60;62]%N;
   [36]%N; [85;78;73;84]%N; []%N; []%N; []%N; []%N;
   [80;89;83;84;82;73;78;71]%N].
Definition xgo_Precedence (p_op : Z) : M Z :=
(tag1 <- ret p_op ;;
 (m48 <- (o47 <- (k46 <- ret 35%Z ;; ret (Z.eqb tag1 k46)) ;; if o47 then ret true else ret false) ;;
 if m48 then ret 1%Z
 else (m45 <- (o44 <- (k43 <- ret 34%Z ;; ret (Z.eqb tag1 k43)) ;; if o44 then ret true else ret false) ;;
 if m45 then ret 2%Z
 else (m42 <- (o41 <- (k40 <- ret 39%Z ;; ret (Z.eqb tag1 k40)) ;; if o41 then ret true else (o39 <- (k38 <- ret 44%Z ;; ret (Z.eqb tag1 k38)) ;; if o39 then ret true else (o37 <- (k36 <- ret 40%Z ;; ret (Z.eqb tag1 k36)) ;; if o37 then ret true else (o35 <- (k34 <- ret 45%Z ;; ret (Z.eqb tag1 k34)) ;; if o35 then ret true else (o33 <- (k32 <- ret 41%Z ;; ret (Z.eqb tag1 k32)) ;; if o33 then ret true else (o31 <- (k30 <- ret 46%Z ;; ret (Z.eqb tag1 k30)) ;; if o31 then ret true else (o29 <- (k28 <- ret 87%Z ;; ret (Z.eqb tag1 k28)) ;; if o29 then ret true else (o27 <- (k26 <- ret 89%Z ;; ret (Z.eqb tag1 k26)) ;; if o27 then ret true else ret false)))))))) ;;
 if m42 then ret 3%Z
 else (m25 <- (o24 <- (k23 <- ret 12%Z ;; ret (Z.eqb tag1 k23)) ;; if o24 then ret true else (o22 <- (k21 <- ret 13%Z ;; ret (Z.eqb tag1 k21)) ;; if o22 then ret true else (o20 <- (k19 <- ret 18%Z ;; ret (Z.eqb tag1 k19)) ;; if o20 then ret true else (o18 <- (k17 <- ret 19%Z ;; ret (Z.eqb tag1 k17)) ;; if o18 then ret true else ret false)))) ;;
 if m25 then ret 4%Z
 else (m16 <- (o15 <- (k14 <- ret 14%Z ;; ret (Z.eqb tag1 k14)) ;; if o15 then ret true else (o13 <- (k12 <- ret 15%Z ;; ret (Z.eqb tag1 k12)) ;; if o13 then ret true else (o11 <- (k10 <- ret 16%Z ;; ret (Z.eqb tag1 k10)) ;; if o11 then ret true else (o9 <- (k8 <- ret 20%Z ;; ret (Z.eqb tag1 k8)) ;; if o9 then ret true else (o7 <- (k6 <- ret 21%Z ;; ret (Z.eqb tag1 k6)) ;; if o7 then ret true else (o5 <- (k4 <- ret 17%Z ;; ret (Z.eqb tag1 k4)) ;; if o5 then ret true else (o3 <- (k2 <- ret 22%Z ;; ret (Z.eqb tag1 k2)) ;; if o3 then ret true else ret false))))))) ;;
 if m16 then ret 5%Z
 else ret 0%Z)))))).
Definition xgo_IsLiteral (p_tok : Z) : M bool :=
(a9 <- (a5 <- (a1 <- ret 3%Z ;; b2 <- ret p_tok ;; ret (Z.leb a1 b2)) ;; if a5 then (a3 <- ret p_tok ;; b4 <- ret 10%Z ;; ret (Z.leb a3 b4)) else ret false) ;; if a9 then ret true else (a7 <- ret p_tok ;; b8 <- ret 96%Z ;; ret (Z.eqb a7 b8))).
Definition xgo_IsOperator (p_tok : Z) : M bool :=
(a13 <- (a5 <- (a1 <- ret 11%Z ;; b2 <- ret p_tok ;; ret (Z.leb a1 b2)) ;; if a5 then (a3 <- ret p_tok ;; b4 <- ret 59%Z ;; ret (Z.leb a3 b4)) else ret false) ;; if a13 then ret true else (a11 <- (a7 <- ret p_tok ;; b8 <- ret 87%Z ;; ret (Z.leb b8 a7)) ;; if a11 then (a9 <- ret p_tok ;; b10 <- ret 90%Z ;; ret (Z.leb a9 b10)) else ret false)).
Definition xgo_IsKeyword (p_tok : Z) : M bool :=
(a5 <- (a1 <- ret 60%Z ;; b2 <- ret p_tok ;; ret (Z.ltb a1 b2)) ;; if a5 then (a3 <- ret p_tok ;; b4 <- ret 86%Z ;; ret (Z.ltb a3 b4)) else ret false).

(* ---- tpl/token ---- *)
Definition tpl_ILLEGAL : Z := 0%Z.
Definition tpl_EOF : Z := 1%Z.
Definition tpl_COMMENT : Z := 2%Z.
Definition tpl_literal_beg : Z := 3%Z.
Definition tpl_IDENT : Z := 4%Z.
Definition tpl_INT : Z := 5%Z.
Definition tpl_FLOAT : Z := 6%Z.
Definition tpl_IMAG : Z := 7%Z.
Definition tpl_CHAR : Z := 8%Z.
Definition tpl_STRING : Z := 9%Z.
Definition tpl_RAT : Z := 10%Z.
Definition tpl_UNIT : Z := 11%Z.
Definition tpl_literal_end : Z := 12%Z.
Definition tpl_operator_beg : Z := 128%Z.
Definition tpl_SHL : Z := 129%Z.
Definition tpl_SHR : Z := 130%Z.
Definition tpl_AND_NOT : Z := 131%Z.
Definition tpl_ADD_ASSIGN : Z := 132%Z.
Definition tpl_SUB_ASSIGN : Z := 133%Z.
Definition tpl_MUL_ASSIGN : Z := 134%Z.
Definition tpl_QUO_ASSIGN : Z := 135%Z.
Definition tpl_REM_ASSIGN : Z := 136%Z.
Definition tpl_AND_ASSIGN : Z := 137%Z.
Definition tpl_OR_ASSIGN : Z := 138%Z.
Definition tpl_XOR_ASSIGN : Z := 139%Z.
Definition tpl_SHL_ASSIGN : Z := 140%Z.
Definition tpl_SHR_ASSIGN : Z := 141%Z.
Definition tpl_AND_NOT_ASSIGN : Z := 142%Z.
Definition tpl_LAND : Z := 143%Z.
Definition tpl_LOR : Z := 144%Z.
Definition tpl_ARROW : Z := 145%Z.
Definition tpl_INC : Z := 146%Z.
Definition tpl_DEC : Z := 147%Z.
Definition tpl_EQ : Z := 148%Z.
Definition tpl_NE : Z := 149%Z.
Definition tpl_LE : Z := 150%Z.
Definition tpl_GE : Z := 151%Z.
Definition tpl_DEFINE : Z := 152%Z.
Definition tpl_ELLIPSIS : Z := 153%Z.
Definition tpl_DRARROW : Z := 154%Z.
Definition tpl_SRARROW : Z := 155%Z.
Definition tpl_BIDIARROW : Z := 156%Z.
Definition tpl_POW : Z := 157%Z.
Definition tpl_operator_end : Z := 158%Z.
Definition tpl_consts : list (str * Z) :=
  [([73;76;76;69;71;65;76]%N, 0%Z); ([69;79;70]%N, 1%Z); ([67;79;77;77;69;78;84]%N, 2%Z); ([108;105;116;101;114;97;108;95;98;101;103]%N, 3%Z);
   ([73;68;69;78;84]%N, 4%Z); ([73;78;84]%N, 5%Z); ([70;76;79;65;84]%N, 6%Z); ([73;77;65;71]%N, 7%Z);
   ([67;72;65;82]%N, 8%Z); ([83;84;82;73;78;71]%N, 9%Z); ([82;65;84]%N, 10%Z); ([85;78;73;84]%N, 11%Z);
   ([108;105;116;101;114;97;108;95;101;110;100]%N, 12%Z); ([111;112;101;114;97;116;111;114;95;98;101;103]%N, 128%Z); ([83;72;76]%N, 129%Z); ([83;72;82]%N, 130%Z);
   ([65;78;68;95;78;79;84]%N, 131%Z); ([65;68;68;95;65;83;83;73;71;78]%N, 132%Z); ([83;85;66;95;65;83;83;73;71;78]%N, 133%Z); ([77;85;76;95;65;83;83;73;71;78]%N, 134%Z);
   ([81;85;79;95;65;83;83;73;71;78]%N, 135%Z); ([82;69;77;95;65;83;83;73;71;78]%N, 136%Z); ([65;78;68;95;65;83;83;73;71;78]%N, 137%Z); ([79;82;95;65;83;83;73;71;78]%N, 138%Z);
   ([88;79;82;95;65;83;83;73;71;78]%N, 139%Z); ([83;72;76;95;65;83;83;73;71;78]%N, 140%Z); ([83;72;82;95;65;83;83;73;71;78]%N, 141%Z); ([65;78;68;95;78;79;84;95;65;83;83;73;71;78]%N, 142%Z);
   ([76;65;78;68]%N, 143%Z); ([76;79;82]%N, 144%Z); ([65;82;82;79;87]%N, 145%Z); ([73;78;67]%N, 146%Z);
   ([68;69;67]%N, 147%Z); ([69;81]%N, 148%Z); ([78;69]%N, 149%Z); ([76;69]%N, 150%Z);
   ([71;69]%N, 151%Z); ([68;69;70;73;78;69]%N, 152%Z); ([69;76;76;73;80;83;73;83]%N, 153%Z); ([68;82;65;82;82;79;87]%N, 154%Z);
   ([83;82;65;82;82;79;87]%N, 155%Z); ([66;73;68;73;65;82;82;79;87]%N, 156%Z); ([80;79;87]%N, 157%Z); ([111;112;101;114;97;116;111;114;95;101;110;100]%N, 158%Z)].
Definition tpl_tokens : list str :=
  [[73;76;76;69;71;65;76]%N; [69;79;70]%N; [67;79;77;77;69;78;84]%N; []%N; [73;68;69;78;84]%N; [73;78;84]%N;
   [70;76;79;65;84]%N; [73;77;65;71]%N; [67;72;65;82]%N; [83;84;82;73;78;71]%N; [82;65;84]%N; [85;78;73;84]%N;
   []%N; []%N; []%N; []%N; []%N; []%N;
   []%N; []%N; []%N; []%N; []%N; []%N;
   []%N; []%N; []%N; []%N; []%N; []%N;
   []%N; []%N; []%N; [33]%N; []%N; []%N;
   [36]%N; [37]%N; [38]%N; []%N; [40]%N; [41]%N;
   [42]%N; [43]%N; [44]%N; [45]%N; [46]%N; [47]%N;
   []%N; []%N; []%N; []%N; []%N; []%N;
   []%N; []%N; []%N; []%N; [58]%N; [59]%N;
   [60]%N; [61]%N; [62]%N; [63]%N; [64]%N; []%N;
   []%N; []%N; []%N; []%N; []%N; []%N;
   []%N; []%N; []%N; []%N; []%N; []%N;
   []%N; []%N; []%N; []%N; []%N; []%N;
   []%N; []%N; []%N; []%N; []%N; []%N;
   []%N; [91]%N; []%N; [93]%N; [94]%N; []%N;
   []%N; []%N; []%N; []%N; []%N; []%N;
   []%N; []%N; []%N; []%N; []%N; []%N;
   []%N; []%N; []%N; []%N; []%N; []%N;
   []%N; []%N; []%N; []%N; []%N; []%N;
   []%N; []%N; []%N; [123]%N; [124]%N; [125]%N;
   [126]%N; []%N; []%N; [60;60]%N; [62;62]%N; [38;94]%N;
   [43;61]%N; [45;61]%N; [42;61]%N; [47;61]%N; [37;61]%N; [38;61]%N;
   [124;61]%N; [94;61]%N; [60;60;61]%N; [62;62;61]%N; [38;94;61]%N; [38;38]%N;
   [124;124]%N; [60;45]%N; [43;43]%N; [45;45]%N; [61;61]%N; [33;61]%N;
   [60;61]%N; [62;61]%N; [58;61]%N; [46;46;46]%N; [61;62]%N; [45;62]%N;
   [60;62]%N; [42;42]%N].
Definition tpl_Len (p_tok : Z) : M Z :=
(c9 <- (a5 <- (a1 <- ret p_tok ;; b2 <- ret 32%Z ;; ret (Z.ltb b2 a1)) ;; if a5 then (a3 <- ret p_tok ;; b4 <- ret 158%Z ;; ret (Z.ltb a3 b4)) else ret false) ;;
 if c9 then (l8 <- (i7 <- ret p_tok ;; idx tpl_tokens i7) ;; ret (zlen l8))
 else ret 0%Z).

(* ---- /usr/lib/go-1.23/src/go/token ---- *)
Definition go_ILLEGAL : Z := 0%Z.
Definition go_EOF : Z := 1%Z.
Definition go_COMMENT : Z := 2%Z.
Definition go_literal_beg : Z := 3%Z.
Definition go_IDENT : Z := 4%Z.
Definition go_INT : Z := 5%Z.
Definition go_FLOAT : Z := 6%Z.
Definition go_IMAG : Z := 7%Z.
Definition go_CHAR : Z := 8%Z.
Definition go_STRING : Z := 9%Z.
Definition go_literal_end : Z := 10%Z.
Definition go_operator_beg : Z := 11%Z.
Definition go_ADD : Z := 12%Z.
Definition go_SUB : Z := 13%Z.
Definition go_MUL : Z := 14%Z.
Definition go_QUO : Z := 15%Z.
Definition go_REM : Z := 16%Z.
Definition go_AND : Z := 17%Z.
Definition go_OR : Z := 18%Z.
Definition go_XOR : Z := 19%Z.
Definition go_SHL : Z := 20%Z.
Definition go_SHR : Z := 21%Z.
Definition go_AND_NOT : Z := 22%Z.
Definition go_ADD_ASSIGN : Z := 23%Z.
Definition go_SUB_ASSIGN : Z := 24%Z.
Definition go_MUL_ASSIGN : Z := 25%Z.
Definition go_QUO_ASSIGN : Z := 26%Z.
Definition go_REM_ASSIGN : Z := 27%Z.
Definition go_AND_ASSIGN : Z := 28%Z.
Definition go_OR_ASSIGN : Z := 29%Z.
Definition go_XOR_ASSIGN : Z := 30%Z.
Definition go_SHL_ASSIGN : Z := 31%Z.
Definition go_SHR_ASSIGN : Z := 32%Z.
Definition go_AND_NOT_ASSIGN : Z := 33%Z.
Definition go_LAND : Z := 34%Z.
Definition go_LOR : Z := 35%Z.
Definition go_ARROW : Z := 36%Z.
Definition go_INC : Z := 37%Z.
Definition go_DEC : Z := 38%Z.
Definition go_EQL : Z := 39%Z.
Definition go_LSS : Z := 40%Z.
Definition go_GTR : Z := 41%Z.
Definition go_ASSIGN : Z := 42%Z.
Definition go_NOT : Z := 43%Z.
Definition go_NEQ : Z := 44%Z.
Definition go_LEQ : Z := 45%Z.
Definition go_GEQ : Z := 46%Z.
Definition go_DEFINE : Z := 47%Z.
Definition go_ELLIPSIS : Z := 48%Z.
Definition go_LPAREN : Z := 49%Z.
Definition go_LBRACK : Z := 50%Z.
Definition go_LBRACE : Z := 51%Z.
Definition go_COMMA : Z := 52%Z.
Definition go_PERIOD : Z := 53%Z.
Definition go_RPAREN : Z := 54%Z.
Definition go_RBRACK : Z := 55%Z.
Definition go_RBRACE : Z := 56%Z.
Definition go_SEMICOLON : Z := 57%Z.
Definition go_COLON : Z := 58%Z.
Definition go_operator_end : Z := 59%Z.
Definition go_keyword_beg : Z := 60%Z.
Definition go_BREAK : Z := 61%Z.
Definition go_CASE : Z := 62%Z.
Definition go_CHAN : Z := 63%Z.
Definition go_CONST : Z := 64%Z.
Definition go_CONTINUE : Z := 65%Z.
Definition go_DEFAULT : Z := 66%Z.
Definition go_DEFER : Z := 67%Z.
Definition go_ELSE : Z := 68%Z.
Definition go_FALLTHROUGH : Z := 69%Z.
Definition go_FOR : Z := 70%Z.
Definition go_FUNC : Z := 71%Z.
Definition go_GO : Z := 72%Z.
Definition go_GOTO : Z := 73%Z.
Definition go_IF : Z := 74%Z.
Definition go_IMPORT : Z := 75%Z.
Definition go_INTERFACE : Z := 76%Z.
Definition go_MAP : Z := 77%Z.
Definition go_PACKAGE : Z := 78%Z.
Definition go_RANGE : Z := 79%Z.
Definition go_RETURN : Z := 80%Z.
Definition go_SELECT : Z := 81%Z.
Definition go_STRUCT : Z := 82%Z.
Definition go_SWITCH : Z := 83%Z.
Definition go_TYPE : Z := 84%Z.
Definition go_VAR : Z := 85%Z.
Definition go_keyword_end : Z := 86%Z.
Definition go_additional_beg : Z := 87%Z.
Definition go_TILDE : Z := 88%Z.
Definition go_additional_end : Z := 89%Z.
Definition go_consts : list (str * Z) :=
  [([73;76;76;69;71;65;76]%N, 0%Z); ([69;79;70]%N, 1%Z); ([67;79;77;77;69;78;84]%N, 2%Z); ([108;105;116;101;114;97;108;95;98;101;103]%N, 3%Z);
   ([73;68;69;78;84]%N, 4%Z); ([73;78;84]%N, 5%Z); ([70;76;79;65;84]%N, 6%Z); ([73;77;65;71]%N, 7%Z);
   ([67;72;65;82]%N, 8%Z); ([83;84;82;73;78;71]%N, 9%Z); ([108;105;116;101;114;97;108;95;101;110;100]%N, 10%Z); ([111;112;101;114;97;116;111;114;95;98;101;103]%N, 11%Z);
   ([65;68;68]%N, 12%Z); ([83;85;66]%N, 13%Z); ([77;85;76]%N, 14%Z); ([81;85;79]%N, 15%Z);
   ([82;69;77]%N, 16%Z); ([65;78;68]%N, 17%Z); ([79;82]%N, 18%Z); ([88;79;82]%N, 19%Z);
   ([83;72;76]%N, 20%Z); ([83;72;82]%N, 21%Z); ([65;78;68;95;78;79;84]%N, 22%Z); ([65;68;68;95;65;83;83;73;71;78]%N, 23%Z);
   ([83;85;66;95;65;83;83;73;71;78]%N, 24%Z); ([77;85;76;95;65;83;83;73;71;78]%N, 25%Z); ([81;85;79;95;65;83;83;73;71;78]%N, 26%Z); ([82;69;77;95;65;83;83;73;71;78]%N, 27%Z);
   ([65;78;68;95;65;83;83;73;71;78]%N, 28%Z); ([79;82;95;65;83;83;73;71;78]%N, 29%Z); ([88;79;82;95;65;83;83;73;71;78]%N, 30%Z); ([83;72;76;95;65;83;83;73;71;78]%N, 31%Z);
   ([83;72;82;95;65;83;83;73;71;78]%N, 32%Z); ([65;78;68;95;78;79;84;95;65;83;83;73;71;78]%N, 33%Z); ([76;65;78;68]%N, 34%Z); ([76;79;82]%N, 35%Z);
   ([65;82;82;79;87]%N, 36%Z); ([73;78;67]%N, 37%Z); ([68;69;67]%N, 38%Z); ([69;81;76]%N, 39%Z);
   ([76;83;83]%N, 40%Z); ([71;84;82]%N, 41%Z); ([65;83;83;73;71;78]%N, 42%Z); ([78;79;84]%N, 43%Z);
   ([78;69;81]%N, 44%Z); ([76;69;81]%N, 45%Z); ([71;69;81]%N, 46%Z); ([68;69;70;73;78;69]%N, 47%Z);
   ([69;76;76;73;80;83;73;83]%N, 48%Z); ([76;80;65;82;69;78]%N, 49%Z); ([76;66;82;65;67;75]%N, 50%Z); ([76;66;82;65;67;69]%N, 51%Z);
   ([67;79;77;77;65]%N, 52%Z); ([80;69;82;73;79;68]%N, 53%Z); ([82;80;65;82;69;78]%N, 54%Z); ([82;66;82;65;67;75]%N, 55%Z);
   ([82;66;82;65;67;69]%N, 56%Z); ([83;69;77;73;67;79;76;79;78]%N, 57%Z); ([67;79;76;79;78]%N, 58%Z); ([111;112;101;114;97;116;111;114;95;101;110;100]%N, 59%Z);
   ([107;101;121;119;111;114;100;95;98;101;103]%N, 60%Z); ([66;82;69;65;75]%N, 61%Z); ([67;65;83;69]%N, 62%Z); ([67;72;65;78]%N, 63%Z);
   ([67;79;78;83;84]%N, 64%Z); ([67;79;78;84;73;78;85;69]%N, 65%Z); ([68;69;70;65;85;76;84]%N, 66%Z); ([68;69;70;69;82]%N, 67%Z);
   ([69;76;83;69]%N, 68%Z); ([70;65;76;76;84;72;82;79;85;71;72]%N, 69%Z); ([70;79;82]%N, 70%Z); ([70;85;78;67]%N, 71%Z);
   ([71;79]%N, 72%Z); ([71;79;84;79]%N, 73%Z); ([73;70]%N, 74%Z); ([73;77;80;79;82;84]%N, 75%Z);
   ([73;78;84;69;82;70;65;67;69]%N, 76%Z); ([77;65;80]%N, 77%Z); ([80;65;67;75;65;71;69]%N, 78%Z); ([82;65;78;71;69]%N, 79%Z);
   ([82;69;84;85;82;78]%N, 80%Z); ([83;69;76;69;67;84]%N, 81%Z); ([83;84;82;85;67;84]%N, 82%Z); ([83;87;73;84;67;72]%N, 83%Z);
   ([84;89;80;69]%N, 84%Z); ([86;65;82]%N, 85%Z); ([107;101;121;119;111;114;100;95;101;110;100]%N, 86%Z); ([97;100;100;105;116;105;111;110;97;108;95;98;101;103]%N, 87%Z);
   ([84;73;76;68;69]%N, 88%Z); ([97;100;100;105;116;105;111;110;97;108;95;101;110;100]%N, 89%Z)].
Definition go_tokens : list str :=
  [[73;76;76;69;71;65;76]%N; [69;79;70]%N; [67;79;77;77;69;78;84]%N; []%N; [73;68;69;78;84]%N; [73;78;84]%N;
   [70;76;79;65;84]%N; [73;77;65;71]%N; [67;72;65;82]%N; [83;84;82;73;78;71]%N; []%N; []%N;
   [43]%N; [45]%N; [42]%N; [47]%N; [37]%N; [38]%N;
   [124]%N; [94]%N; [60;60]%N; [62;62]%N; [38;94]%N; [43;61]%N;
   [45;61]%N; [42;61]%N; [47;61]%N; [37;61]%N; [38;61]%N; [124;61]%N;
   [94;61]%N; [60;60;61]%N; [62;62;61]%N; [38;94;61]%N; [38;38]%N; [124;124]%N;
   [60;45]%N; [43;43]%N; [45;45]%N; [61;61]%N; [60]%N; [62]%N;
   [61]%N; [33]%N; [33;61]%N; [60;61]%N; [62;61]%N; [58;61]%N;
   [46;46;46]%N; [40]%N; [91]%N; [123]%N; [44]%N; [46]%N;
   [41]%N; [93]%N; [125]%N; [59]%N; [58]%N; []%N;
   []%N; [98;114;101;97;107]%N; [99;97;115;101]%N; [99;104;97;110]%N; [99;111;110;115;116]%N; [99;111;110;116;105;110;117;101]%N;
   [100;101;102;97;117;108;116]%N; [100;101;102;101;114]%N; [101;108;115;101]%N; [102;97;108;108;116;104;114;111;117;103;104]%N; [102;111;114]%N; [102;117;110;99]%N;
   [103;111]%N; [103;111;116;111]%N; [105;102]%N; [105;109;112;111;114;116]%N; [105;110;116;101;114;102;97;99;101]%N; [109;97;112]%N;
   [112;97;99;107;97;103;101]%N; [114;97;110;103;101]%N; [114;101;116;117;114;110]%N; [115;101;108;101;99;116]%N; [115;116;114;117;99;116]%N; [115;119;105;116;99;104]%N;
   [116;121;112;101]%N; [118;97;114]%N; []%N; []%N; [126]%N].
Definition go_Precedence (p_op : Z) : M Z :=
(tag1 <- ret p_op ;;
 (m44 <- (o43 <- (k42 <- ret 35%Z ;; ret (Z.eqb tag1 k42)) ;; if o43 then ret true else ret false) ;;
 if m44 then ret 1%Z
 else (m41 <- (o40 <- (k39 <- ret 34%Z ;; ret (Z.eqb tag1 k39)) ;; if o40 then ret true else ret false) ;;
 if m41 then ret 2%Z
 else (m38 <- (o37 <- (k36 <- ret 39%Z ;; ret (Z.eqb tag1 k36)) ;; if o37 then ret true else (o35 <- (k34 <- ret 44%Z ;; ret (Z.eqb tag1 k34)) ;; if o35 then ret true else (o33 <- (k32 <- ret 40%Z ;; ret (Z.eqb tag1 k32)) ;; if o33 then ret true else (o31 <- (k30 <- ret 45%Z ;; ret (Z.eqb tag1 k30)) ;; if o31 then ret true else (o29 <- (k28 <- ret 41%Z ;; ret (Z.eqb tag1 k28)) ;; if o29 then ret true else (o27 <- (k26 <- ret 46%Z ;; ret (Z.eqb tag1 k26)) ;; if o27 then ret true else ret false)))))) ;;
 if m38 then ret 3%Z
 else (m25 <- (o24 <- (k23 <- ret 12%Z ;; ret (Z.eqb tag1 k23)) ;; if o24 then ret true else (o22 <- (k21 <- ret 13%Z ;; ret (Z.eqb tag1 k21)) ;; if o22 then ret true else (o20 <- (k19 <- ret 18%Z ;; ret (Z.eqb tag1 k19)) ;; if o20 then ret true else (o18 <- (k17 <- ret 19%Z ;; ret (Z.eqb tag1 k17)) ;; if o18 then ret true else ret false)))) ;;
 if m25 then ret 4%Z
 else (m16 <- (o15 <- (k14 <- ret 14%Z ;; ret (Z.eqb tag1 k14)) ;; if o15 then ret true else (o13 <- (k12 <- ret 15%Z ;; ret (Z.eqb tag1 k12)) ;; if o13 then ret true else (o11 <- (k10 <- ret 16%Z ;; ret (Z.eqb tag1 k10)) ;; if o11 then ret true else (o9 <- (k8 <- ret 20%Z ;; ret (Z.eqb tag1 k8)) ;; if o9 then ret true else (o7 <- (k6 <- ret 21%Z ;; ret (Z.eqb tag1 k6)) ;; if o7 then ret true else (o5 <- (k4 <- ret 17%Z ;; ret (Z.eqb tag1 k4)) ;; if o5 then ret true else (o3 <- (k2 <- ret 22%Z ;; ret (Z.eqb tag1 k2)) ;; if o3 then ret true else ret false))))))) ;;
 if m16 then ret 5%Z
 else ret 0%Z)))))).
Definition go_IsLiteral (p_tok : Z) : M bool :=
(a5 <- (a1 <- ret 3%Z ;; b2 <- ret p_tok ;; ret (Z.ltb a1 b2)) ;; if a5 then (a3 <- ret p_tok ;; b4 <- ret 10%Z ;; ret (Z.ltb a3 b4)) else ret false).
Definition go_IsOperator (p_tok : Z) : M bool :=
(a9 <- (a5 <- (a1 <- ret 11%Z ;; b2 <- ret p_tok ;; ret (Z.ltb a1 b2)) ;; if a5 then (a3 <- ret p_tok ;; b4 <- ret 59%Z ;; ret (Z.ltb a3 b4)) else ret false) ;; if a9 then ret true else (a7 <- ret p_tok ;; b8 <- ret 88%Z ;; ret (Z.eqb a7 b8))).
Definition go_IsKeyword (p_tok : Z) : M bool :=
(a5 <- (a1 <- ret 60%Z ;; b2 <- ret p_tok ;; ret (Z.ltb a1 b2)) ;; if a5 then (a3 <- ret p_tok ;; b4 <- ret 86%Z ;; ret (Z.ltb a3 b4)) else ret false).

