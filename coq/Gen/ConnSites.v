(* GENERATED from /repo by /verif/translator — do not edit *)
From Coq Require Import List String Bool Arith.
Import ListNotations.
From V Require Import Base.ConnView.
Open Scope string_scope.

(* every c.updateInFlight(func…) call site: (function, ordinal in it, hash of the normalised body) *)
Definition conn_sites : list (string * nat * string) :=
  [("newConnection", 0, "e6230fa058de8a69");
   ("Connection.Notify", 0, "bc9ad890f266adcf");
   ("Connection.Notify", 1, "dbfdb45d6d36f069");
   ("Connection.Call", 0, "4dfb48228e2b7059");
   ("Connection.Call", 1, "1aa9a6bf9138eaa2");
   ("Connection.Respond", 0, "81fe3c1e495584f7");
   ("Connection.Cancel", 0, "81fe3c1e495584f7");
   ("Connection.Wait", 0, "a6a475d8e8b64a52");
   ("Connection.Close", 0, "55e434c342aa0cd8");
   ("Connection.readIncoming", 0, "9c1d900a63f77a40");
   ("Connection.readIncoming", 1, "32859f60c53d02f1");
   ("Connection.acceptRequest", 0, "7456c748fba7185e");
   ("Connection.acceptRequest", 1, "a73c3f9b4aaa9156");
   ("Connection.handleAsync", 0, "c479941680b88d06");
   ("Connection.handleAsync", 1, "89256a58658294dc");
   ("Connection.processResult", 0, "d2bfd28ad5245a69");
   ("Connection.processResult", 1, "cb07596c2652dc49");
   ("Connection.write", 0, "3ef5a583268e3409")].

(* hash of the normalised signature+body of every function of the modelled control flow *)
Definition conn_funcs : list (string * string) :=
  [("Connection.updateInFlight", "ff72ea31b32bfc3e");
   ("inFlightState.idle", "ea679ad2c4778e18");
   ("inFlightState.shuttingDown", "2d78a090b65e8346");
   ("newConnection", "373ed08dc6742b7b");
   ("Connection.Notify", "f4fcf374223a62f9");
   ("Connection.Call", "c16374ddf190e28c");
   ("AsyncCall.retire", "b667df507cc43469");
   ("AsyncCall.Await", "1cdc7b382e99667c");
   ("Connection.Respond", "4df8df73e7437643");
   ("Connection.Cancel", "8fb2a1281d5df299");
   ("Connection.Wait", "8a2d967b936f823b");
   ("Connection.Close", "3650263e64d3c320");
   ("Connection.readIncoming", "2cecc9a0843113e6");
   ("Connection.acceptRequest", "55480dd9c5ba0e51");
   ("Connection.handleAsync", "20768f11bfcca169");
   ("Connection.processResult", "ae4ebe2678746734");
   ("Connection.write", "0326d19d89bfd25d")].

Definition fields_inFlightState : list string :=
  ["connClosing bool";
   "reading bool";
   "readErr error";
   "writeErr error";
   "closer io.Closer";
   "closeErr error";
   "outgoingCalls map[ID]*AsyncCall";
   "outgoingNotifications int";
   "incoming int";
   "incomingByID map[ID]*incomingRequest";
   "handlerQueue []*incomingRequest";
   "handlerRunning bool"].
Definition fields_Connection : list string :=
  ["seq int64";
   "stateMu sync.Mutex";
   "state inFlightState";
   "done chan struct{}";
   "writer chan Writer";
   "handler Handler";
   "onInternalError func(error)";
   "onDone func()"].
Definition fields_AsyncCall : list string :=
  ["id ID";
   "ready chan struct{}";
   "response *Response"].
Definition fields_incomingRequest : list string :=
  ["_ *Request";
   "ctx context.Context";
   "cancel context.CancelFunc"].

(* functions that mention .state / .stateMu, call retire, close a channel (the latter: conn.go only) *)
Definition state_access_funcs : list string := ["Connection.updateInFlight"].
Definition retire_callers : list string := ["Connection.Call"; "Connection.readIncoming"].
Definition chan_closers : list string := ["AsyncCall.retire"; "Connection.updateInFlight"].

(* inFlightState.idle, translated *)
Definition gen_idle (v : ifs_view) : bool :=
  ((((Nat.eqb (v_outgoingCalls v) 0) && (Nat.eqb (v_outgoingNotifications v) 0)) && (Nat.eqb (v_incoming v) 0)) && (negb (v_handlerRunning v))).

(* inFlightState.shuttingDown(errClosing) != nil, translated (errClosing is non-nil at every call site) *)
Definition gen_shutting_down (v : ifs_view) : bool :=
  if (v_connClosing v) then true else (if (v_readErr v) then true else (if (v_writeErr v) then true else (false))).
