(* GENERATED from /repo by /verif/translator — do not edit *)
From Coq Require Import List NArith ZArith Bool.
Import ListNotations.
From V Require Import Base.Prelude.

(* ParseFSDir: switch ext *)
Definition dir_case_labels : list (list str) := [[[46;120;103;111]%N; [46;103;111;112]%N]; [[46;103;111]%N]; [[46;103;111;120]%N]].
Definition dir_case_fallthrough : list bool := [false; false; true].
Definition dir_default_can_skip : bool := true.
Definition dir_prefix_literals : list str := [[103;111;112;95;97;117;116;111;103;101;110]%N; [95]%N].

(* ParseFSEntry: switch ext *)
Definition entry_case_labels : list (list str) := [[[46;120;103;111]%N; [46;103;111;112]%N; [46;103;111]%N]; [[46;103;111;120]%N]].
Definition entry_case_fallthrough : list bool := [false; true].
Definition entry_default_can_skip : bool := true.
Definition entry_prefix_literals : list str := [].

(* defaultClassKind: switch ext *)
Definition dck_case_labels : list (list str) := [[[46;115;112;120]%N]; [[46;103;115;104]%N; [46;103;109;120]%N]].
Definition dck_has_default : bool := false.
Definition dck_eq_literals : list str := [[109;97;105;110;46;115;112;120]%N].
