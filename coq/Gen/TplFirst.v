(* GENERATED from /repo by /verif/translator — do not edit *)
From Coq Require Import List NArith ZArith Bool.
Import ListNotations.
From V Require Import Base.Prelude.
Open Scope Z_scope.

(* tpl/matcher/match.go: rule code of every Matcher.First method
   1 ANY  2 PREFIX  3 TRUE  4 SAME  5 AFALSE  6 EMPTY  7 TOKEN  8 VAR *)
Definition tplfirst_rules : list (str * Z) :=
  [([67;104;111;105;99;101;115]%N, 1%Z) (* Choices *);
   ([86;97;114]%N, 8%Z) (* Var *);
   ([103;65;100;106;111;105;110]%N, 5%Z) (* gAdjoin *);
   ([103;76;105;116;101;114;97;108]%N, 7%Z) (* gLiteral *);
   ([103;82;101;112;101;97;116;48]%N, 3%Z) (* gRepeat0 *);
   ([103;82;101;112;101;97;116;48;49]%N, 3%Z) (* gRepeat01 *);
   ([103;82;101;112;101;97;116;49]%N, 4%Z) (* gRepeat1 *);
   ([103;83;101;113;117;101;110;99;101]%N, 2%Z) (* gSequence *);
   ([103;83;116;114;105;110;103]%N, 7%Z) (* gString *);
   ([103;84;111;107;101;110]%N, 7%Z) (* gToken *);
   ([103;84;114;117;101]%N, 6%Z) (* gTrue *);
   ([103;87;83]%N, 6%Z) (* gWS *)].
