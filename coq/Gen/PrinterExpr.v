(* GENERATED from /repo by /verif/translator — do not edit *)
From Coq Require Import List ZArith String.
Import ListNotations.
Open Scope Z_scope.
Open Scope string_scope.

Definition px_LowestPrec : Z := 0%Z.
Definition px_UnaryPrec : Z := 6%Z.
Definition px_HighestPrec : Z := 7%Z.

(* (node kind of the expr1 type switch, operand, context it is printed in) *)
Definition px_operands : list (string * string * string) := [
  ("#possibleSelectorExpr", "x", "selectorExpr");
  ("#possibleSelectorExpr", "expr", "prec1");
  ("BinaryExpr", "x", "binaryExpr");
  ("BinaryExpr#binaryExpr", "x", "expr0");
  ("BinaryExpr#binaryExpr", "x.X", "prec");
  ("BinaryExpr#binaryExpr", "x.Y", "prec + 1");
  ("CallExpr", "x.Fun", "token.HighestPrec");
  ("CallExpr", "x.Fun", "token.HighestPrec");
  ("CallExpr", "x.Args", "exprList");
  ("CallExpr", "x.Args", "exprList");
  ("ErrWrapExpr", "x.X", "token.HighestPrec");
  ("ErrWrapExpr", "x.Default", "token.UnaryPrec");
  ("IndexExpr", "x.X", "token.HighestPrec");
  ("IndexExpr", "x.Index", "expr0");
  ("LambdaExpr", "x", "token.LowestPrec");
  ("LambdaExpr", "x.Lhs", "identList");
  ("LambdaExpr", "x.Lhs[0]", "expr");
  ("LambdaExpr", "x.Rhs", "exprList");
  ("LambdaExpr", "x.Rhs[0]", "expr");
  ("ParenExpr", "x.X", "expr0");
  ("ParenExpr", "x.X", "expr0");
  ("SelectorExpr", "x", "selectorExpr");
  ("SelectorExpr#selectorExpr", "x.X", "token.HighestPrec");
  ("StarExpr", "x.X", "prec");
  ("StarExpr", "x.X", "prec");
  ("UnaryExpr", "x", "expr");
  ("UnaryExpr", "x.X", "prec")
].

(* (node kind, condition mentioning prec1) *)
Definition px_paren_conds : list (string * string) := [
  ("BinaryExpr#binaryExpr", "prec < prec1");
  ("ErrWrapExpr", "x.Default != nil && token.UnaryPrec < prec1");
  ("LambdaExpr", "token.LowestPrec < prec1");
  ("LambdaExpr2", "token.LowestPrec < prec1");
  ("StarExpr", "prec < prec1");
  ("UnaryExpr", "prec < prec1")
].

(* mayCombine(prev, next): token code -> first bytes of the next token that need a separating blank *)
Definition px_mayCombine : list (Z * list Z) := [
  (5%Z, [46%Z]);
  (12%Z, [43%Z]);
  (13%Z, [45%Z]);
  (15%Z, [42%Z]);
  (40%Z, [45%Z; 60%Z]);
  (17%Z, [38%Z; 94%Z])
].
