(* GENERATED from /repo by /verif/translator — do not edit *)
From Coq Require Import List ZArith Bool.
Import ListNotations.
Open Scope Z_scope.

(* ---- scanner ---- *)
Definition xgo_sc_lower (c : Z) : Z :=
  (Z.lor 32%Z c).
Definition xgo_sc_isDecimal (c : Z) : bool :=
  (andb (Z.leb 48%Z c) (Z.leb c 57%Z)).
Definition xgo_sc_isHex (c : Z) : bool :=
  (orb (andb (Z.leb 48%Z c) (Z.leb c 57%Z)) (andb (Z.leb 97%Z (xgo_sc_lower c)) (Z.leb (xgo_sc_lower c) 102%Z))).
Definition xgo_sc_digitVal (c : Z) : Z :=
  (if (andb (Z.leb 48%Z c) (Z.leb c 57%Z)) then (Z.sub c 48%Z) else (if (andb (Z.leb 97%Z (xgo_sc_lower c)) (Z.leb (xgo_sc_lower c) 102%Z)) then (Z.add (Z.sub (xgo_sc_lower c) 97%Z) 10%Z) else 16%Z)).
Definition xgo_sc_isLetter (ul ud : Z -> bool) (c : Z) : bool :=
  (orb (orb (andb (Z.leb 97%Z (xgo_sc_lower c)) (Z.leb (xgo_sc_lower c) 122%Z)) (Z.eqb c 95%Z)) (andb (Z.leb 128%Z c) (ul c))).
Definition xgo_sc_isDigit (ul ud : Z -> bool) (c : Z) : bool :=
  (orb (xgo_sc_isDecimal c) (andb (Z.leb 128%Z c) (ud c))).
Definition xgo_sc_skipCond (semi : bool) (c : Z) : bool :=
  (orb (orb (orb (Z.eqb c 32%Z) (Z.eqb c 9%Z)) (andb (Z.eqb c 10%Z) (negb semi))) (Z.eqb c 13%Z)).
Definition xgo_sc_escInvalid (mx x : Z) : bool :=
  (orb (Z.ltb mx x) (andb (Z.leb 55296%Z x) (Z.ltb x 57344%Z))).
Definition xgo_sc_escSimple : list Z := [97%Z; 98%Z; 102%Z; 110%Z; 114%Z; 116%Z; 118%Z; 92%Z].
Definition xgo_sc_escNumeric : list (Z * (Z * Z * Z * bool)) :=
  [(48%Z, (3%Z, 8%Z, 255%Z, false)); (49%Z, (3%Z, 8%Z, 255%Z, false)); (50%Z, (3%Z, 8%Z, 255%Z, false)); (51%Z, (3%Z, 8%Z, 255%Z, false));
   (52%Z, (3%Z, 8%Z, 255%Z, false)); (53%Z, (3%Z, 8%Z, 255%Z, false)); (54%Z, (3%Z, 8%Z, 255%Z, false)); (55%Z, (3%Z, 8%Z, 255%Z, false));
   (120%Z, (2%Z, 16%Z, 255%Z, true)); (117%Z, (4%Z, 16%Z, 1114111%Z, true)); (85%Z, (8%Z, 16%Z, 1114111%Z, true))].
Definition xgo_sc_bom : Z := 65279%Z.

(* ---- tpl/scanner ---- *)
Definition tpl_sc_lower (c : Z) : Z :=
  (Z.lor 32%Z c).
Definition tpl_sc_isDecimal (c : Z) : bool :=
  (andb (Z.leb 48%Z c) (Z.leb c 57%Z)).
Definition tpl_sc_isHex (c : Z) : bool :=
  (orb (andb (Z.leb 48%Z c) (Z.leb c 57%Z)) (andb (Z.leb 97%Z (tpl_sc_lower c)) (Z.leb (tpl_sc_lower c) 102%Z))).
Definition tpl_sc_digitVal (c : Z) : Z :=
  (if (andb (Z.leb 48%Z c) (Z.leb c 57%Z)) then (Z.sub c 48%Z) else (if (andb (Z.leb 97%Z (tpl_sc_lower c)) (Z.leb (tpl_sc_lower c) 102%Z)) then (Z.add (Z.sub (tpl_sc_lower c) 97%Z) 10%Z) else 16%Z)).
Definition tpl_sc_isLetter (ul ud : Z -> bool) (c : Z) : bool :=
  (orb (orb (orb (andb (Z.leb 97%Z c) (Z.leb c 122%Z)) (andb (Z.leb 65%Z c) (Z.leb c 90%Z))) (Z.eqb c 95%Z)) (andb (Z.leb 128%Z c) (ul c))).
Definition tpl_sc_isDigit (ul ud : Z -> bool) (c : Z) : bool :=
  (orb (andb (Z.leb 48%Z c) (Z.leb c 57%Z)) (andb (Z.leb 128%Z c) (ud c))).
Definition tpl_sc_skipCond (semi : bool) (c : Z) : bool :=
  (orb (orb (orb (Z.eqb c 32%Z) (Z.eqb c 9%Z)) (andb (Z.eqb c 10%Z) (negb semi))) (Z.eqb c 13%Z)).
Definition tpl_sc_escInvalid (mx x : Z) : bool :=
  (orb (Z.ltb mx x) (andb (Z.leb 55296%Z x) (Z.ltb x 57344%Z))).
Definition tpl_sc_escSimple : list Z := [97%Z; 98%Z; 102%Z; 110%Z; 114%Z; 116%Z; 118%Z; 92%Z].
Definition tpl_sc_escNumeric : list (Z * (Z * Z * Z * bool)) :=
  [(48%Z, (3%Z, 8%Z, 255%Z, false)); (49%Z, (3%Z, 8%Z, 255%Z, false)); (50%Z, (3%Z, 8%Z, 255%Z, false)); (51%Z, (3%Z, 8%Z, 255%Z, false));
   (52%Z, (3%Z, 8%Z, 255%Z, false)); (53%Z, (3%Z, 8%Z, 255%Z, false)); (54%Z, (3%Z, 8%Z, 255%Z, false)); (55%Z, (3%Z, 8%Z, 255%Z, false));
   (120%Z, (2%Z, 16%Z, 255%Z, true)); (117%Z, (4%Z, 16%Z, 1114111%Z, true)); (85%Z, (8%Z, 16%Z, 1114111%Z, true))].
Definition tpl_sc_bom : Z := 65279%Z.

(* ---- /usr/lib/go-1.23/src/go/scanner ---- *)
Definition go_sc_lower (c : Z) : Z :=
  (Z.lor 32%Z c).
Definition go_sc_isDecimal (c : Z) : bool :=
  (andb (Z.leb 48%Z c) (Z.leb c 57%Z)).
Definition go_sc_isHex (c : Z) : bool :=
  (orb (andb (Z.leb 48%Z c) (Z.leb c 57%Z)) (andb (Z.leb 97%Z (go_sc_lower c)) (Z.leb (go_sc_lower c) 102%Z))).
Definition go_sc_digitVal (c : Z) : Z :=
  (if (andb (Z.leb 48%Z c) (Z.leb c 57%Z)) then (Z.sub c 48%Z) else (if (andb (Z.leb 97%Z (go_sc_lower c)) (Z.leb (go_sc_lower c) 102%Z)) then (Z.add (Z.sub (go_sc_lower c) 97%Z) 10%Z) else 16%Z)).
Definition go_sc_isLetter (ul ud : Z -> bool) (c : Z) : bool :=
  (orb (orb (andb (Z.leb 97%Z (go_sc_lower c)) (Z.leb (go_sc_lower c) 122%Z)) (Z.eqb c 95%Z)) (andb (Z.leb 128%Z c) (ul c))).
Definition go_sc_isDigit (ul ud : Z -> bool) (c : Z) : bool :=
  (orb (go_sc_isDecimal c) (andb (Z.leb 128%Z c) (ud c))).
Definition go_sc_skipCond (semi : bool) (c : Z) : bool :=
  (orb (orb (orb (Z.eqb c 32%Z) (Z.eqb c 9%Z)) (andb (Z.eqb c 10%Z) (negb semi))) (Z.eqb c 13%Z)).
Definition go_sc_escInvalid (mx x : Z) : bool :=
  (orb (Z.ltb mx x) (andb (Z.leb 55296%Z x) (Z.ltb x 57344%Z))).
Definition go_sc_escSimple : list Z := [97%Z; 98%Z; 102%Z; 110%Z; 114%Z; 116%Z; 118%Z; 92%Z].
Definition go_sc_escNumeric : list (Z * (Z * Z * Z * bool)) :=
  [(48%Z, (3%Z, 8%Z, 255%Z, false)); (49%Z, (3%Z, 8%Z, 255%Z, false)); (50%Z, (3%Z, 8%Z, 255%Z, false)); (51%Z, (3%Z, 8%Z, 255%Z, false));
   (52%Z, (3%Z, 8%Z, 255%Z, false)); (53%Z, (3%Z, 8%Z, 255%Z, false)); (54%Z, (3%Z, 8%Z, 255%Z, false)); (55%Z, (3%Z, 8%Z, 255%Z, false));
   (120%Z, (2%Z, 16%Z, 255%Z, true)); (117%Z, (4%Z, 16%Z, 1114111%Z, true)); (85%Z, (8%Z, 16%Z, 1114111%Z, true))].
Definition go_sc_bom : Z := 65279%Z.
Definition go_sc_maxLineCol : Z := 1073741824%Z.

