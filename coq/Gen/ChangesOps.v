(* GENERATED from /repo by /verif/translator — do not edit *)
From Coq Require Import List String.
Import ListNotations.
From V Require Import Base.C40Ops.

(* x/watcher/changes.go: statements of Changes.FileChanged / Changes.Fetch that touch p.changed, p.mutex, p.cond, in program order *)
Definition gen_filechanged : list cop := [OLock; OReadLen; OInsert; OUnlock; OIfZero OBroadcast].
Definition gen_fetch : list cop := [OLock; OWhileEmpty OWait; OTakeOne; OUnlock].
(* functions of package watcher that mention the field `changed` / `cond` *)
Definition gen_changed_users : list string := ["Fetch"%string; "FileChanged"%string; "NewChanges"%string].
Definition gen_cond_users : list string := ["Fetch"%string; "FileChanged"%string; "NewChanges"%string].
(* NewChanges sets c.cond.L = &c.mutex *)
Definition gen_cond_uses_mutex : bool := true.
