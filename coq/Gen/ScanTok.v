(* GENERATED from /repo by /verif/translator — do not edit *)
From Coq Require Import List NArith ZArith Bool.
Import ListNotations.
From V Require Import Base.Prelude.
Open Scope Z_scope.

(* ---- token ---- *)
Definition xgok_ILLEGAL : Z := 0%Z.
Definition xgok_EOF : Z := 1%Z.
Definition xgok_COMMENT : Z := 2%Z.
Definition xgok_CSTRING : Z := 3%Z.
Definition xgok_IDENT : Z := 4%Z.
Definition xgok_INT : Z := 5%Z.
Definition xgok_FLOAT : Z := 6%Z.
Definition xgok_IMAG : Z := 7%Z.
Definition xgok_CHAR : Z := 8%Z.
Definition xgok_STRING : Z := 9%Z.
Definition xgok_RAT : Z := 10%Z.
Definition xgok_DRARROW : Z := 11%Z.
Definition xgok_ADD : Z := 12%Z.
Definition xgok_SUB : Z := 13%Z.
Definition xgok_MUL : Z := 14%Z.
Definition xgok_QUO : Z := 15%Z.
Definition xgok_REM : Z := 16%Z.
Definition xgok_AND : Z := 17%Z.
Definition xgok_OR : Z := 18%Z.
Definition xgok_XOR : Z := 19%Z.
Definition xgok_SHL : Z := 20%Z.
Definition xgok_SHR : Z := 21%Z.
Definition xgok_AND_NOT : Z := 22%Z.
Definition xgok_ADD_ASSIGN : Z := 23%Z.
Definition xgok_SUB_ASSIGN : Z := 24%Z.
Definition xgok_MUL_ASSIGN : Z := 25%Z.
Definition xgok_QUO_ASSIGN : Z := 26%Z.
Definition xgok_REM_ASSIGN : Z := 27%Z.
Definition xgok_AND_ASSIGN : Z := 28%Z.
Definition xgok_OR_ASSIGN : Z := 29%Z.
Definition xgok_XOR_ASSIGN : Z := 30%Z.
Definition xgok_SHL_ASSIGN : Z := 31%Z.
Definition xgok_SHR_ASSIGN : Z := 32%Z.
Definition xgok_AND_NOT_ASSIGN : Z := 33%Z.
Definition xgok_LAND : Z := 34%Z.
Definition xgok_LOR : Z := 35%Z.
Definition xgok_ARROW : Z := 36%Z.
Definition xgok_INC : Z := 37%Z.
Definition xgok_DEC : Z := 38%Z.
Definition xgok_EQL : Z := 39%Z.
Definition xgok_LSS : Z := 40%Z.
Definition xgok_GTR : Z := 41%Z.
Definition xgok_ASSIGN : Z := 42%Z.
Definition xgok_NOT : Z := 43%Z.
Definition xgok_NEQ : Z := 44%Z.
Definition xgok_LEQ : Z := 45%Z.
Definition xgok_GEQ : Z := 46%Z.
Definition xgok_DEFINE : Z := 47%Z.
Definition xgok_ELLIPSIS : Z := 48%Z.
Definition xgok_LPAREN : Z := 49%Z.
Definition xgok_LBRACK : Z := 50%Z.
Definition xgok_LBRACE : Z := 51%Z.
Definition xgok_COMMA : Z := 52%Z.
Definition xgok_PERIOD : Z := 53%Z.
Definition xgok_RPAREN : Z := 54%Z.
Definition xgok_RBRACK : Z := 55%Z.
Definition xgok_RBRACE : Z := 56%Z.
Definition xgok_SEMICOLON : Z := 57%Z.
Definition xgok_COLON : Z := 58%Z.
Definition xgok_QUESTION : Z := 59%Z.
Definition xgok_BREAK : Z := 61%Z.
Definition xgok_CASE : Z := 62%Z.
Definition xgok_CHAN : Z := 63%Z.
Definition xgok_CONST : Z := 64%Z.
Definition xgok_CONTINUE : Z := 65%Z.
Definition xgok_DEFAULT : Z := 66%Z.
Definition xgok_DEFER : Z := 67%Z.
Definition xgok_ELSE : Z := 68%Z.
Definition xgok_FALLTHROUGH : Z := 69%Z.
Definition xgok_FOR : Z := 70%Z.
Definition xgok_FUNC : Z := 71%Z.
Definition xgok_GO : Z := 72%Z.
Definition xgok_GOTO : Z := 73%Z.
Definition xgok_IF : Z := 74%Z.
Definition xgok_IMPORT : Z := 75%Z.
Definition xgok_INTERFACE : Z := 76%Z.
Definition xgok_MAP : Z := 77%Z.
Definition xgok_PACKAGE : Z := 78%Z.
Definition xgok_RANGE : Z := 79%Z.
Definition xgok_RETURN : Z := 80%Z.
Definition xgok_SELECT : Z := 81%Z.
Definition xgok_STRUCT : Z := 82%Z.
Definition xgok_SWITCH : Z := 83%Z.
Definition xgok_TYPE : Z := 84%Z.
Definition xgok_VAR : Z := 85%Z.
Definition xgok_SRARROW : Z := 87%Z.
Definition xgok_TILDE : Z := 88%Z.
Definition xgok_BIDIARROW : Z := 89%Z.
Definition xgok_ENV : Z := 90%Z.
Definition xgok_UNIT : Z := 91%Z.
Definition xgok_PYSTRING : Z := 96%Z.
Definition xgo_spell : list (Z * str) :=
  [(0%Z, [73;76;76;69;71;65;76]%N); (1%Z, [69;79;70]%N); (2%Z, [67;79;77;77;69;78;84]%N); (3%Z, [67;83;84;82;73;78;71]%N); (4%Z, [73;68;69;78;84]%N); (5%Z, [73;78;84]%N);
   (6%Z, [70;76;79;65;84]%N); (7%Z, [73;77;65;71]%N); (8%Z, [67;72;65;82]%N); (9%Z, [83;84;82;73;78;71]%N); (10%Z, [82;65;84]%N); (11%Z, [61;62]%N);
   (12%Z, [43]%N); (13%Z, [45]%N); (14%Z, [42]%N); (15%Z, [47]%N); (16%Z, [37]%N); (17%Z, [38]%N);
   (18%Z, [124]%N); (19%Z, [94]%N); (20%Z, [60;60]%N); (21%Z, [62;62]%N); (22%Z, [38;94]%N); (23%Z, [43;61]%N);
   (24%Z, [45;61]%N); (25%Z, [42;61]%N); (26%Z, [47;61]%N); (27%Z, [37;61]%N); (28%Z, [38;61]%N); (29%Z, [124;61]%N);
   (30%Z, [94;61]%N); (31%Z, [60;60;61]%N); (32%Z, [62;62;61]%N); (33%Z, [38;94;61]%N); (34%Z, [38;38]%N); (35%Z, [124;124]%N);
   (36%Z, [60;45]%N); (37%Z, [43;43]%N); (38%Z, [45;45]%N); (39%Z, [61;61]%N); (40%Z, [60]%N); (41%Z, [62]%N);
   (42%Z, [61]%N); (43%Z, [33]%N); (44%Z, [33;61]%N); (45%Z, [60;61]%N); (46%Z, [62;61]%N); (47%Z, [58;61]%N);
   (48%Z, [46;46;46]%N); (49%Z, [40]%N); (50%Z, [91]%N); (51%Z, [123]%N); (52%Z, [44]%N); (53%Z, [46]%N);
   (54%Z, [41]%N); (55%Z, [93]%N); (56%Z, [125]%N); (57%Z, [59]%N); (58%Z, [58]%N); (59%Z, [63]%N);
   (61%Z, [98;114;101;97;107]%N); (62%Z, [99;97;115;101]%N); (63%Z, [99;104;97;110]%N); (64%Z, [99;111;110;115;116]%N); (65%Z, [99;111;110;116;105;110;117;101]%N); (66%Z, [100;101;102;97;117;108;116]%N);
   (67%Z, [100;101;102;101;114]%N); (68%Z, [101;108;115;101]%N); (69%Z, [102;97;108;108;116;104;114;111;117;103;104]%N); (70%Z, [102;111;114]%N); (71%Z, [102;117;110;99]%N); (72%Z, [103;111]%N);
   (73%Z, [103;111;116;111]%N); (74%Z, [105;102]%N); (75%Z, [105;109;112;111;114;116]%N); (76%Z, [105;110;116;101;114;102;97;99;101]%N); (77%Z, [109;97;112]%N); (78%Z, [112;97;99;107;97;103;101]%N);
   (79%Z, [114;97;110;103;101]%N); (80%Z, [114;101;116;117;114;110]%N); (81%Z, [115;101;108;101;99;116]%N); (82%Z, [115;116;114;117;99;116]%N); (83%Z, [115;119;105;116;99;104]%N); (84%Z, [116;121;112;101]%N);
   (85%Z, [118;97;114]%N); (87%Z, [45;62]%N); (88%Z, [126]%N); (89%Z, [60;62]%N); (90%Z, [36]%N); (91%Z, [85;78;73;84]%N);
   (96%Z, [80;89;83;84;82;73;78;71]%N)].
Definition xgo_tokens_len : Z := 97%Z.
Definition xgom_literal_beg : Z := 3%Z.
Definition xgom_literal_end : Z := 10%Z.
Definition xgom_operator_beg : Z := 11%Z.
Definition xgom_operator_end : Z := 59%Z.
Definition xgom_keyword_beg : Z := 60%Z.
Definition xgom_keyword_end : Z := 86%Z.
Definition xgo_keywords : list (str * Z) :=
  [([98;114;101;97;107]%N, 61%Z); ([99;97;115;101]%N, 62%Z); ([99;104;97;110]%N, 63%Z); ([99;111;110;115;116]%N, 64%Z);
   ([99;111;110;116;105;110;117;101]%N, 65%Z); ([100;101;102;97;117;108;116]%N, 66%Z); ([100;101;102;101;114]%N, 67%Z); ([101;108;115;101]%N, 68%Z);
   ([102;97;108;108;116;104;114;111;117;103;104]%N, 69%Z); ([102;111;114]%N, 70%Z); ([102;117;110;99]%N, 71%Z); ([103;111]%N, 72%Z);
   ([103;111;116;111]%N, 73%Z); ([105;102]%N, 74%Z); ([105;109;112;111;114;116]%N, 75%Z); ([105;110;116;101;114;102;97;99;101]%N, 76%Z);
   ([109;97;112]%N, 77%Z); ([112;97;99;107;97;103;101]%N, 78%Z); ([114;97;110;103;101]%N, 79%Z); ([114;101;116;117;114;110]%N, 80%Z);
   ([115;101;108;101;99;116]%N, 81%Z); ([115;116;114;117;99;116]%N, 82%Z); ([115;119;105;116;99;104]%N, 83%Z); ([116;121;112;101]%N, 84%Z);
   ([118;97;114]%N, 85%Z)].

(* ---- tpl/token ---- *)
Definition tplk_ILLEGAL : Z := 0%Z.
Definition tplk_EOF : Z := 1%Z.
Definition tplk_COMMENT : Z := 2%Z.
Definition tplk_IDENT : Z := 4%Z.
Definition tplk_INT : Z := 5%Z.
Definition tplk_FLOAT : Z := 6%Z.
Definition tplk_IMAG : Z := 7%Z.
Definition tplk_CHAR : Z := 8%Z.
Definition tplk_STRING : Z := 9%Z.
Definition tplk_RAT : Z := 10%Z.
Definition tplk_UNIT : Z := 11%Z.
Definition tplk_NOT : Z := 33%Z.
Definition tplk_ENV : Z := 36%Z.
Definition tplk_REM : Z := 37%Z.
Definition tplk_AND : Z := 38%Z.
Definition tplk_LPAREN : Z := 40%Z.
Definition tplk_RPAREN : Z := 41%Z.
Definition tplk_MUL : Z := 42%Z.
Definition tplk_ADD : Z := 43%Z.
Definition tplk_COMMA : Z := 44%Z.
Definition tplk_SUB : Z := 45%Z.
Definition tplk_PERIOD : Z := 46%Z.
Definition tplk_QUO : Z := 47%Z.
Definition tplk_COLON : Z := 58%Z.
Definition tplk_SEMICOLON : Z := 59%Z.
Definition tplk_LT : Z := 60%Z.
Definition tplk_ASSIGN : Z := 61%Z.
Definition tplk_GT : Z := 62%Z.
Definition tplk_QUESTION : Z := 63%Z.
Definition tplk_AT : Z := 64%Z.
Definition tplk_LBRACK : Z := 91%Z.
Definition tplk_RBRACK : Z := 93%Z.
Definition tplk_XOR : Z := 94%Z.
Definition tplk_LBRACE : Z := 123%Z.
Definition tplk_OR : Z := 124%Z.
Definition tplk_RBRACE : Z := 125%Z.
Definition tplk_TILDE : Z := 126%Z.
Definition tplk_SHL : Z := 129%Z.
Definition tplk_SHR : Z := 130%Z.
Definition tplk_AND_NOT : Z := 131%Z.
Definition tplk_ADD_ASSIGN : Z := 132%Z.
Definition tplk_SUB_ASSIGN : Z := 133%Z.
Definition tplk_MUL_ASSIGN : Z := 134%Z.
Definition tplk_QUO_ASSIGN : Z := 135%Z.
Definition tplk_REM_ASSIGN : Z := 136%Z.
Definition tplk_AND_ASSIGN : Z := 137%Z.
Definition tplk_OR_ASSIGN : Z := 138%Z.
Definition tplk_XOR_ASSIGN : Z := 139%Z.
Definition tplk_SHL_ASSIGN : Z := 140%Z.
Definition tplk_SHR_ASSIGN : Z := 141%Z.
Definition tplk_AND_NOT_ASSIGN : Z := 142%Z.
Definition tplk_LAND : Z := 143%Z.
Definition tplk_LOR : Z := 144%Z.
Definition tplk_ARROW : Z := 145%Z.
Definition tplk_INC : Z := 146%Z.
Definition tplk_DEC : Z := 147%Z.
Definition tplk_EQ : Z := 148%Z.
Definition tplk_NE : Z := 149%Z.
Definition tplk_LE : Z := 150%Z.
Definition tplk_GE : Z := 151%Z.
Definition tplk_DEFINE : Z := 152%Z.
Definition tplk_ELLIPSIS : Z := 153%Z.
Definition tplk_DRARROW : Z := 154%Z.
Definition tplk_SRARROW : Z := 155%Z.
Definition tplk_BIDIARROW : Z := 156%Z.
Definition tplk_POW : Z := 157%Z.
Definition tpl_spell : list (Z * str) :=
  [(0%Z, [73;76;76;69;71;65;76]%N); (1%Z, [69;79;70]%N); (2%Z, [67;79;77;77;69;78;84]%N); (4%Z, [73;68;69;78;84]%N); (5%Z, [73;78;84]%N); (6%Z, [70;76;79;65;84]%N);
   (7%Z, [73;77;65;71]%N); (8%Z, [67;72;65;82]%N); (9%Z, [83;84;82;73;78;71]%N); (10%Z, [82;65;84]%N); (11%Z, [85;78;73;84]%N); (33%Z, [33]%N);
   (36%Z, [36]%N); (37%Z, [37]%N); (38%Z, [38]%N); (40%Z, [40]%N); (41%Z, [41]%N); (42%Z, [42]%N);
   (43%Z, [43]%N); (44%Z, [44]%N); (45%Z, [45]%N); (46%Z, [46]%N); (47%Z, [47]%N); (58%Z, [58]%N);
   (59%Z, [59]%N); (60%Z, [60]%N); (61%Z, [61]%N); (62%Z, [62]%N); (63%Z, [63]%N); (64%Z, [64]%N);
   (91%Z, [91]%N); (93%Z, [93]%N); (94%Z, [94]%N); (123%Z, [123]%N); (124%Z, [124]%N); (125%Z, [125]%N);
   (126%Z, [126]%N); (129%Z, [60;60]%N); (130%Z, [62;62]%N); (131%Z, [38;94]%N); (132%Z, [43;61]%N); (133%Z, [45;61]%N);
   (134%Z, [42;61]%N); (135%Z, [47;61]%N); (136%Z, [37;61]%N); (137%Z, [38;61]%N); (138%Z, [124;61]%N); (139%Z, [94;61]%N);
   (140%Z, [60;60;61]%N); (141%Z, [62;62;61]%N); (142%Z, [38;94;61]%N); (143%Z, [38;38]%N); (144%Z, [124;124]%N); (145%Z, [60;45]%N);
   (146%Z, [43;43]%N); (147%Z, [45;45]%N); (148%Z, [61;61]%N); (149%Z, [33;61]%N); (150%Z, [60;61]%N); (151%Z, [62;61]%N);
   (152%Z, [58;61]%N); (153%Z, [46;46;46]%N); (154%Z, [61;62]%N); (155%Z, [45;62]%N); (156%Z, [60;62]%N); (157%Z, [42;42]%N)].
Definition tpl_tokens_len : Z := 158%Z.
Definition tplm_literal_beg : Z := 3%Z.
Definition tplm_literal_end : Z := 12%Z.
Definition tplm_operator_beg : Z := 128%Z.
Definition tplm_operator_end : Z := 158%Z.

(* ---- /usr/lib/go-1.23/src/go/token ---- *)
Definition gok_ILLEGAL : Z := 0%Z.
Definition gok_EOF : Z := 1%Z.
Definition gok_COMMENT : Z := 2%Z.
Definition gok_IDENT : Z := 4%Z.
Definition gok_INT : Z := 5%Z.
Definition gok_FLOAT : Z := 6%Z.
Definition gok_IMAG : Z := 7%Z.
Definition gok_CHAR : Z := 8%Z.
Definition gok_STRING : Z := 9%Z.
Definition gok_ADD : Z := 12%Z.
Definition gok_SUB : Z := 13%Z.
Definition gok_MUL : Z := 14%Z.
Definition gok_QUO : Z := 15%Z.
Definition gok_REM : Z := 16%Z.
Definition gok_AND : Z := 17%Z.
Definition gok_OR : Z := 18%Z.
Definition gok_XOR : Z := 19%Z.
Definition gok_SHL : Z := 20%Z.
Definition gok_SHR : Z := 21%Z.
Definition gok_AND_NOT : Z := 22%Z.
Definition gok_ADD_ASSIGN : Z := 23%Z.
Definition gok_SUB_ASSIGN : Z := 24%Z.
Definition gok_MUL_ASSIGN : Z := 25%Z.
Definition gok_QUO_ASSIGN : Z := 26%Z.
Definition gok_REM_ASSIGN : Z := 27%Z.
Definition gok_AND_ASSIGN : Z := 28%Z.
Definition gok_OR_ASSIGN : Z := 29%Z.
Definition gok_XOR_ASSIGN : Z := 30%Z.
Definition gok_SHL_ASSIGN : Z := 31%Z.
Definition gok_SHR_ASSIGN : Z := 32%Z.
Definition gok_AND_NOT_ASSIGN : Z := 33%Z.
Definition gok_LAND : Z := 34%Z.
Definition gok_LOR : Z := 35%Z.
Definition gok_ARROW : Z := 36%Z.
Definition gok_INC : Z := 37%Z.
Definition gok_DEC : Z := 38%Z.
Definition gok_EQL : Z := 39%Z.
Definition gok_LSS : Z := 40%Z.
Definition gok_GTR : Z := 41%Z.
Definition gok_ASSIGN : Z := 42%Z.
Definition gok_NOT : Z := 43%Z.
Definition gok_NEQ : Z := 44%Z.
Definition gok_LEQ : Z := 45%Z.
Definition gok_GEQ : Z := 46%Z.
Definition gok_DEFINE : Z := 47%Z.
Definition gok_ELLIPSIS : Z := 48%Z.
Definition gok_LPAREN : Z := 49%Z.
Definition gok_LBRACK : Z := 50%Z.
Definition gok_LBRACE : Z := 51%Z.
Definition gok_COMMA : Z := 52%Z.
Definition gok_PERIOD : Z := 53%Z.
Definition gok_RPAREN : Z := 54%Z.
Definition gok_RBRACK : Z := 55%Z.
Definition gok_RBRACE : Z := 56%Z.
Definition gok_SEMICOLON : Z := 57%Z.
Definition gok_COLON : Z := 58%Z.
Definition gok_BREAK : Z := 61%Z.
Definition gok_CASE : Z := 62%Z.
Definition gok_CHAN : Z := 63%Z.
Definition gok_CONST : Z := 64%Z.
Definition gok_CONTINUE : Z := 65%Z.
Definition gok_DEFAULT : Z := 66%Z.
Definition gok_DEFER : Z := 67%Z.
Definition gok_ELSE : Z := 68%Z.
Definition gok_FALLTHROUGH : Z := 69%Z.
Definition gok_FOR : Z := 70%Z.
Definition gok_FUNC : Z := 71%Z.
Definition gok_GO : Z := 72%Z.
Definition gok_GOTO : Z := 73%Z.
Definition gok_IF : Z := 74%Z.
Definition gok_IMPORT : Z := 75%Z.
Definition gok_INTERFACE : Z := 76%Z.
Definition gok_MAP : Z := 77%Z.
Definition gok_PACKAGE : Z := 78%Z.
Definition gok_RANGE : Z := 79%Z.
Definition gok_RETURN : Z := 80%Z.
Definition gok_SELECT : Z := 81%Z.
Definition gok_STRUCT : Z := 82%Z.
Definition gok_SWITCH : Z := 83%Z.
Definition gok_TYPE : Z := 84%Z.
Definition gok_VAR : Z := 85%Z.
Definition gok_TILDE : Z := 88%Z.
Definition go_spell : list (Z * str) :=
  [(0%Z, [73;76;76;69;71;65;76]%N); (1%Z, [69;79;70]%N); (2%Z, [67;79;77;77;69;78;84]%N); (4%Z, [73;68;69;78;84]%N); (5%Z, [73;78;84]%N); (6%Z, [70;76;79;65;84]%N);
   (7%Z, [73;77;65;71]%N); (8%Z, [67;72;65;82]%N); (9%Z, [83;84;82;73;78;71]%N); (12%Z, [43]%N); (13%Z, [45]%N); (14%Z, [42]%N);
   (15%Z, [47]%N); (16%Z, [37]%N); (17%Z, [38]%N); (18%Z, [124]%N); (19%Z, [94]%N); (20%Z, [60;60]%N);
   (21%Z, [62;62]%N); (22%Z, [38;94]%N); (23%Z, [43;61]%N); (24%Z, [45;61]%N); (25%Z, [42;61]%N); (26%Z, [47;61]%N);
   (27%Z, [37;61]%N); (28%Z, [38;61]%N); (29%Z, [124;61]%N); (30%Z, [94;61]%N); (31%Z, [60;60;61]%N); (32%Z, [62;62;61]%N);
   (33%Z, [38;94;61]%N); (34%Z, [38;38]%N); (35%Z, [124;124]%N); (36%Z, [60;45]%N); (37%Z, [43;43]%N); (38%Z, [45;45]%N);
   (39%Z, [61;61]%N); (40%Z, [60]%N); (41%Z, [62]%N); (42%Z, [61]%N); (43%Z, [33]%N); (44%Z, [33;61]%N);
   (45%Z, [60;61]%N); (46%Z, [62;61]%N); (47%Z, [58;61]%N); (48%Z, [46;46;46]%N); (49%Z, [40]%N); (50%Z, [91]%N);
   (51%Z, [123]%N); (52%Z, [44]%N); (53%Z, [46]%N); (54%Z, [41]%N); (55%Z, [93]%N); (56%Z, [125]%N);
   (57%Z, [59]%N); (58%Z, [58]%N); (61%Z, [98;114;101;97;107]%N); (62%Z, [99;97;115;101]%N); (63%Z, [99;104;97;110]%N); (64%Z, [99;111;110;115;116]%N);
   (65%Z, [99;111;110;116;105;110;117;101]%N); (66%Z, [100;101;102;97;117;108;116]%N); (67%Z, [100;101;102;101;114]%N); (68%Z, [101;108;115;101]%N); (69%Z, [102;97;108;108;116;104;114;111;117;103;104]%N); (70%Z, [102;111;114]%N);
   (71%Z, [102;117;110;99]%N); (72%Z, [103;111]%N); (73%Z, [103;111;116;111]%N); (74%Z, [105;102]%N); (75%Z, [105;109;112;111;114;116]%N); (76%Z, [105;110;116;101;114;102;97;99;101]%N);
   (77%Z, [109;97;112]%N); (78%Z, [112;97;99;107;97;103;101]%N); (79%Z, [114;97;110;103;101]%N); (80%Z, [114;101;116;117;114;110]%N); (81%Z, [115;101;108;101;99;116]%N); (82%Z, [115;116;114;117;99;116]%N);
   (83%Z, [115;119;105;116;99;104]%N); (84%Z, [116;121;112;101]%N); (85%Z, [118;97;114]%N); (88%Z, [126]%N)].
Definition go_tokens_len : Z := 89%Z.
Definition gom_literal_beg : Z := 3%Z.
Definition gom_literal_end : Z := 10%Z.
Definition gom_operator_beg : Z := 11%Z.
Definition gom_operator_end : Z := 59%Z.
Definition gom_keyword_beg : Z := 60%Z.
Definition gom_keyword_end : Z := 86%Z.
Definition go_keywords : list (str * Z) :=
  [([98;114;101;97;107]%N, 61%Z); ([99;97;115;101]%N, 62%Z); ([99;104;97;110]%N, 63%Z); ([99;111;110;115;116]%N, 64%Z);
   ([99;111;110;116;105;110;117;101]%N, 65%Z); ([100;101;102;97;117;108;116]%N, 66%Z); ([100;101;102;101;114]%N, 67%Z); ([101;108;115;101]%N, 68%Z);
   ([102;97;108;108;116;104;114;111;117;103;104]%N, 69%Z); ([102;111;114]%N, 70%Z); ([102;117;110;99]%N, 71%Z); ([103;111]%N, 72%Z);
   ([103;111;116;111]%N, 73%Z); ([105;102]%N, 74%Z); ([105;109;112;111;114;116]%N, 75%Z); ([105;110;116;101;114;102;97;99;101]%N, 76%Z);
   ([109;97;112]%N, 77%Z); ([112;97;99;107;97;103;101]%N, 78%Z); ([114;97;110;103;101]%N, 79%Z); ([114;101;116;117;114;110]%N, 80%Z);
   ([115;101;108;101;99;116]%N, 81%Z); ([115;116;114;117;99;116]%N, 82%Z); ([115;119;105;116;99;104]%N, 83%Z); ([116;121;112;101]%N, 84%Z);
   ([118;97;114]%N, 85%Z)].

