(* GENERATED from /repo by /verif/translator — do not edit *)
From Coq Require Import List String ZArith Bool.
Import ListNotations.
From V Require Import Base.AstTree.
Open Scope string_scope.

(* per case of the type switch of ast.Walk: the walked fields in order, with guards *)
Definition walk_table : list (string * list wstep) :=
  [("Comment", []);
   ("CommentGroup", [WStep None None SList "List" false]);
   ("Field", [WStep None None SNode "Doc" true; WStep None None SList "Names" false; WStep None None SNode "Type" true; WStep None None SNode "Tag" true; WStep None None SNode "Comment" true]);
   ("FieldList", [WStep None None SList "List" false]);
   ("BadExpr", []);
   ("Ident", []);
   ("NumberUnitLit", []);
   ("BasicLit", [WStep None (Some ("Extra", "StringLitEx", true)) SParts "Parts" false]);
   ("DomainTextLit", [WStep None None SNode "Domain" false; WStep None (Some ("Extra", "StringLitEx", true)) SParts "Parts" false; WStep None (Some ("Extra", "DomainTextLitEx", true)) SList "Args" false]);
   ("Ellipsis", [WStep None None SNode "Elt" true]);
   ("FuncLit", [WStep None None SNode "Type" false; WStep None None SNode "Body" false]);
   ("CompositeLit", [WStep None None SNode "Type" true; WStep None None SList "Elts" false]);
   ("ParenExpr", [WStep None None SNode "X" false]);
   ("SelectorExpr", [WStep None None SNode "X" false; WStep None None SNode "Sel" false]);
   ("IndexExpr", [WStep None None SNode "X" false; WStep None None SNode "Index" false]);
   ("IndexListExpr", [WStep None None SNode "X" false; WStep None None SList "Indices" false]);
   ("SliceExpr", [WStep None None SNode "X" false; WStep None None SNode "Low" true; WStep None None SNode "High" true; WStep None None SNode "Max" true]);
   ("TypeAssertExpr", [WStep None None SNode "X" false; WStep None None SNode "Type" true]);
   ("CallExpr", [WStep None None SNode "Fun" false; WStep None None SList "Args" false]);
   ("StarExpr", [WStep None None SNode "X" false]);
   ("UnaryExpr", [WStep None None SNode "X" false]);
   ("BinaryExpr", [WStep None None SNode "X" false; WStep None None SNode "Y" false]);
   ("KeyValueExpr", [WStep None None SNode "Key" false; WStep None None SNode "Value" false]);
   ("ArrayType", [WStep None None SNode "Len" true; WStep None None SNode "Elt" false]);
   ("StructType", [WStep None None SNode "Fields" false]);
   ("FuncType", [WStep None None SNode "TypeParams" true; WStep None None SNode "Params" true; WStep None None SNode "Results" true]);
   ("InterfaceType", [WStep None None SNode "Methods" false]);
   ("MapType", [WStep None None SNode "Key" false; WStep None None SNode "Value" false]);
   ("ChanType", [WStep None None SNode "Value" false]);
   ("BadStmt", []);
   ("DeclStmt", [WStep None None SNode "Decl" false]);
   ("EmptyStmt", []);
   ("LabeledStmt", [WStep None None SNode "Label" false; WStep None None SNode "Stmt" false]);
   ("ExprStmt", [WStep None None SNode "X" false]);
   ("SendStmt", [WStep None None SNode "Chan" false; WStep None None SList "Values" false]);
   ("IncDecStmt", [WStep None None SNode "X" false]);
   ("AssignStmt", [WStep None None SList "Lhs" false; WStep None None SList "Rhs" false]);
   ("GoStmt", [WStep None None SNode "Call" false]);
   ("DeferStmt", [WStep None None SNode "Call" false]);
   ("ReturnStmt", [WStep None None SList "Results" false]);
   ("BranchStmt", [WStep None None SNode "Label" true]);
   ("BlockStmt", [WStep None None SList "List" false]);
   ("IfStmt", [WStep None None SNode "Init" true; WStep None None SNode "Cond" false; WStep None None SNode "Body" false; WStep None None SNode "Else" true]);
   ("CaseClause", [WStep None None SList "List" false; WStep None None SList "Body" false]);
   ("SwitchStmt", [WStep None None SNode "Init" true; WStep None None SNode "Tag" true; WStep None None SNode "Body" false]);
   ("TypeSwitchStmt", [WStep None None SNode "Init" true; WStep None None SNode "Assign" false; WStep None None SNode "Body" false]);
   ("CommClause", [WStep None None SNode "Comm" true; WStep None None SList "Body" false]);
   ("SelectStmt", [WStep None None SNode "Body" false]);
   ("ForStmt", [WStep None None SNode "Init" true; WStep None None SNode "Cond" true; WStep None None SNode "Post" true; WStep None None SNode "Body" false]);
   ("RangeStmt", [WStep None None SNode "Key" true; WStep None None SNode "Value" true; WStep None None SNode "X" false; WStep None None SNode "Body" false]);
   ("ImportSpec", [WStep None None SNode "Doc" true; WStep None None SNode "Name" true; WStep None None SNode "Path" false; WStep None None SNode "Comment" true]);
   ("ValueSpec", [WStep None None SNode "Doc" true; WStep None None SList "Names" false; WStep None None SNode "Type" true; WStep None None SNode "Tag" true; WStep None None SList "Values" false; WStep None None SNode "Comment" true]);
   ("TypeSpec", [WStep None None SNode "Doc" true; WStep None None SNode "Name" false; WStep None None SNode "TypeParams" true; WStep None None SNode "Type" false; WStep None None SNode "Comment" true]);
   ("BadDecl", []);
   ("GenDecl", [WStep None None SNode "Doc" true; WStep None None SList "Specs" false]);
   ("FuncDecl", [WStep (Some "Shadow") None SNode "Doc" true; WStep (Some "Shadow") None SNode "Recv" true; WStep (Some "Shadow") None SNode "Name" false; WStep (Some "Shadow") None SNode "Type" false; WStep None None SNode "Body" true]);
   ("File", [WStep None None SNode "Doc" true; WStep (Some "NoPkgDecl") None SNode "Name" false; WStep None None SList "Decls" false]);
   ("Package", [WStep None None SMap "Files" false]);
   ("SliceLit", [WStep None None SList "Elts" false]);
   ("MatrixLit", [WStep None None SListList "Elts" false]);
   ("ElemEllipsis", [WStep None None SNode "Elt" false]);
   ("LambdaExpr", [WStep None None SList "Lhs" false; WStep None None SList "Rhs" false]);
   ("LambdaExpr2", [WStep None None SList "Lhs" false; WStep None None SNode "Body" false]);
   ("ForPhrase", [WStep None None SNode "Key" true; WStep None None SNode "Value" true; WStep None None SNode "X" false; WStep None None SNode "Init" true; WStep None None SNode "Cond" true]);
   ("ComprehensionExpr", [WStep None None SNode "Elt" true; WStep None None SList "Fors" false]);
   ("ForPhraseStmt", [WStep None None SNode "ForPhrase" false; WStep None None SNode "Body" false]);
   ("RangeExpr", [WStep None None SNode "First" true; WStep None None SNode "Last" true; WStep None None SNode "Expr3" true]);
   ("ErrWrapExpr", [WStep None None SNode "X" false; WStep None None SNode "Default" true]);
   ("OverloadFuncDecl", [WStep None None SNode "Doc" true; WStep None None SNode "Recv" true; WStep None None SNode "Name" false; WStep None None SList "Funcs" false]);
   ("EnvExpr", [WStep None None SNode "Name" false])].
