(* GENERATED from /repo by /verif/translator — do not edit *)
From Coq Require Import List String ZArith Bool.
Import ListNotations.
From V Require Import Base.AstPos.
Open Scope string_scope.

(* Obj.Kind >= implicit_base  <=>  Ident.Implicit() *)
Definition implicit_base : Z := 7%Z.

(* per node kind: the bodies of Pos() and End() *)
Definition pos_bodies : pos_table :=
  [("ArrayType", (PRet (PField "Lbrack" 0%Z),
      PRet (PChildEnd "Elt")));
   ("AssignStmt", (PRet (PListFirstPos "Lhs"),
      PRet (PListLastEnd "Rhs")));
   ("BadDecl", (PRet (PField "From" 0%Z),
      PRet (PField "To" 0%Z)));
   ("BadExpr", (PRet (PField "From" 0%Z),
      PRet (PField "To" 0%Z)));
   ("BadStmt", (PRet (PField "From" 0%Z),
      PRet (PField "To" 0%Z)));
   ("BasicLit", (PRet (PField "ValuePos" 0%Z),
      PRet (PFieldStr "ValuePos" ["Value"])));
   ("BinaryExpr", (PRet (PChildPos "X"),
      PRet (PChildEnd "Y")));
   ("BlockStmt", (PRet (PField "Lbrace" 0%Z),
      PIf (CValid "Rbrace") (PRet (PField "Rbrace" 1%Z)) (PIf (CLenPos "List") (PRet (PListLastEnd "List")) (PRet (PField "Lbrace" 1%Z)))));
   ("BranchStmt", (PRet (PField "TokPos" 0%Z),
      PIf (CNonNil "Label") (PRet (PChildEnd "Label")) (PRet (PFieldTok "TokPos" "Tok"))));
   ("CallExpr", (PRet (PChildPos "Fun"),
      PIf (CValid "NoParenEnd") (PRet (PField "NoParenEnd" 0%Z)) (PRet (PField "Rparen" 1%Z))));
   ("CaseClause", (PRet (PField "Case" 0%Z),
      PIf (CLenPos "Body") (PRet (PListLastEnd "Body")) (PRet (PField "Colon" 1%Z))));
   ("ChanType", (PRet (PField "Begin" 0%Z),
      PRet (PChildEnd "Value")));
   ("CommClause", (PRet (PField "Case" 0%Z),
      PIf (CLenPos "Body") (PRet (PListLastEnd "Body")) (PRet (PField "Colon" 1%Z))));
   ("Comment", (PRet (PField "Slash" 0%Z),
      PRet (PFieldStr "Slash" ["Text"])));
   ("CommentGroup", (PRet (PListFirstPos "List"),
      PRet (PListLastEnd "List")));
   ("CompositeLit", (PIf (CNonNil "Type") (PRet (PChildPos "Type")) (PRet (PField "Lbrace" 0%Z)),
      PRet (PField "Rbrace" 1%Z)));
   ("ComprehensionExpr", (PRet (PField "Lpos" 0%Z),
      PRet (PField "Rpos" 1%Z)));
   ("DeclStmt", (PRet (PChildPos "Decl"),
      PRet (PChildEnd "Decl")));
   ("DeferStmt", (PRet (PField "Defer" 0%Z),
      PRet (PChildEnd "Call")));
   ("DomainTextLit", (PRet (PChildField "Domain" "NamePos"),
      PRet (PFieldStr "ValuePos" ["Value"])));
   ("ElemEllipsis", (PRet (PChildPos "Elt"),
      PRet (PField "Ellipsis" 3%Z)));
   ("Ellipsis", (PRet (PField "Ellipsis" 0%Z),
      PIf (CNonNil "Elt") (PRet (PChildEnd "Elt")) (PRet (PField "Ellipsis" 3%Z))));
   ("EmptyStmt", (PRet (PField "Semicolon" 0%Z),
      PIf (CFlag "Implicit") (PRet (PField "Semicolon" 0%Z)) (PRet (PField "Semicolon" 1%Z))));
   ("EnvExpr", (PRet (PField "TokPos" 0%Z),
      PIf (CValid "Rbrace") (PRet (PField "Rbrace" 1%Z)) (PRet (PChildEnd "Name"))));
   ("ErrWrapExpr", (PRet (PChildPos "X"),
      PIf (CNonNil "Default") (PRet (PChildEnd "Default")) (PRet (PField "TokPos" 1%Z))));
   ("ExprStmt", (PRet (PChildPos "X"),
      PRet (PChildEnd "X")));
   ("Field", (PIf (CLenPos "Names") (PRet (PListFirstPos "Names")) (PRet (PChildPos "Type")),
      PIf (CNonNil "Tag") (PRet (PChildEnd "Tag")) (PRet (PChildEnd "Type"))));
   ("FieldList", (PIf (CValid "Opening") (PRet (PField "Opening" 0%Z)) (PIf (CLenPos "List") (PRet (PListFirstPos "List")) (PRet (PNoPos))),
      PIf (CValid "Closing") (PRet (PField "Closing" 1%Z)) (PIf (CLenPos "List") (PRet (PListLastEnd "List")) (PRet (PNoPos)))));
   ("File", (PIf (CValid "Package") (PRet (PField "Package" 0%Z)) (PRet (PChildField "Name" "NamePos")),
      POpaque));
   ("ForPhrase", (PRet (PField "For" 0%Z),
      PIf (CNonNil "Cond") (PRet (PChildEnd "Cond")) (PRet (PChildEnd "X"))));
   ("ForPhraseStmt", (PRet (PChildField "ForPhrase" "For"),
      PRet (PChildEnd "Body")));
   ("ForStmt", (PRet (PField "For" 0%Z),
      PRet (PChildEnd "Body")));
   ("FuncDecl", (PRet (PChildPos "Type"),
      PIf (CNonNil "Body") (PRet (PChildEnd "Body")) (PRet (PChildEnd "Type"))));
   ("FuncLit", (PRet (PChildPos "Type"),
      PRet (PChildEnd "Body")));
   ("FuncType", (PIf (COr (CValid "Func") (CNot (CNonNil "Params"))) (PRet (PField "Func" 0%Z)) (PRet (PChildPos "Params")),
      PIf (CNonNil "Results") (PRet (PChildEnd "Results")) (PRet (PChildEnd "Params"))));
   ("GenDecl", (PRet (PField "TokPos" 0%Z),
      PIf (CValid "Rparen") (PRet (PField "Rparen" 1%Z)) (PRet (PListFirstEnd "Specs"))));
   ("GoStmt", (PRet (PField "Go" 0%Z),
      PRet (PChildEnd "Call")));
   ("Ident", (PRet (PField "NamePos" 0%Z),
      PIf (CImplicit) (PRet (PField "NamePos" 0%Z)) (PRet (PFieldStr "NamePos" ["Name"]))));
   ("IfStmt", (PRet (PField "If" 0%Z),
      PIf (CNonNil "Else") (PRet (PChildEnd "Else")) (PRet (PChildEnd "Body"))));
   ("ImportSpec", (PIf (CNonNil "Name") (PRet (PChildPos "Name")) (PRet (PChildPos "Path")),
      PIf (CValid "EndPos") (PRet (PField "EndPos" 0%Z)) (PRet (PChildEnd "Path"))));
   ("IncDecStmt", (PRet (PChildPos "X"),
      PRet (PField "TokPos" 2%Z)));
   ("IndexExpr", (PRet (PChildPos "X"),
      PRet (PField "Rbrack" 1%Z)));
   ("IndexListExpr", (PRet (PChildPos "X"),
      PRet (PField "Rbrack" 1%Z)));
   ("InterfaceType", (PRet (PField "Interface" 0%Z),
      PRet (PChildEnd "Methods")));
   ("KeyValueExpr", (PRet (PChildPos "Key"),
      PRet (PChildEnd "Value")));
   ("LabeledStmt", (PRet (PChildPos "Label"),
      PRet (PChildEnd "Stmt")));
   ("LambdaExpr", (PRet (PField "First" 0%Z),
      PRet (PField "Last" 0%Z)));
   ("LambdaExpr2", (PRet (PField "First" 0%Z),
      PRet (PChildEnd "Body")));
   ("MapType", (PRet (PField "Map" 0%Z),
      PRet (PChildEnd "Value")));
   ("MatrixLit", (PRet (PField "Lbrack" 0%Z),
      PRet (PField "Rbrack" 1%Z)));
   ("NumberUnitLit", (PRet (PField "ValuePos" 0%Z),
      PRet (PFieldStr "ValuePos" ["Value"; "Unit"])));
   ("OverloadFuncDecl", (PRet (PField "Func" 0%Z),
      PRet (PField "Rparen" 1%Z)));
   ("Package", (PRet (PNoPos),
      PRet (PNoPos)));
   ("ParenExpr", (PRet (PField "Lparen" 0%Z),
      PRet (PField "Rparen" 1%Z)));
   ("RangeExpr", (PIf (CNonNil "First") (PRet (PChildPos "First")) (PRet (PField "To" 0%Z)),
      PIf (CNonNil "Expr3") (PRet (PChildEnd "Expr3")) (PIf (CValid "Colon2") (PRet (PField "Colon2" 1%Z)) (PIf (CNonNil "Last") (PRet (PChildEnd "Last")) (PRet (PField "To" 1%Z))))));
   ("RangeStmt", (PRet (PField "For" 0%Z),
      PRet (PChildEnd "Body")));
   ("ReturnStmt", (PRet (PField "Return" 0%Z),
      PIf (CLenPos "Results") (PRet (PListLastEnd "Results")) (PRet (PField "Return" 6%Z))));
   ("SelectStmt", (PRet (PField "Select" 0%Z),
      PRet (PChildEnd "Body")));
   ("SelectorExpr", (PRet (PChildPos "X"),
      PRet (PChildEnd "Sel")));
   ("SendStmt", (PRet (PChildPos "Chan"),
      PIf (CValid "Ellipsis") (PRet (PField "Ellipsis" 3%Z)) (PRet (PListLastEnd "Values"))));
   ("SliceExpr", (PRet (PChildPos "X"),
      PRet (PField "Rbrack" 1%Z)));
   ("SliceLit", (PRet (PField "Lbrack" 0%Z),
      PRet (PField "Rbrack" 1%Z)));
   ("StarExpr", (PRet (PField "Star" 0%Z),
      PRet (PChildEnd "X")));
   ("StructType", (PRet (PField "Struct" 0%Z),
      PRet (PChildEnd "Fields")));
   ("SwitchStmt", (PRet (PField "Switch" 0%Z),
      PRet (PChildEnd "Body")));
   ("TypeAssertExpr", (PRet (PChildPos "X"),
      PRet (PField "Rparen" 1%Z)));
   ("TypeSpec", (PRet (PChildPos "Name"),
      PRet (PChildEnd "Type")));
   ("TypeSwitchStmt", (PRet (PField "Switch" 0%Z),
      PRet (PChildEnd "Body")));
   ("UnaryExpr", (PRet (PField "OpPos" 0%Z),
      PRet (PChildEnd "X")));
   ("ValueSpec", (PIf (CNot (CLenPos "Names")) (PRet (PChildPos "Type")) (PRet (PListFirstPos "Names")),
      PIf (CLenPos "Values") (PRet (PListLastEnd "Values")) (PIf (CNonNil "Tag") (PRet (PChildEnd "Tag")) (PIf (CNonNil "Type") (PRet (PChildEnd "Type")) (PRet (PListLastEnd "Names"))))))].

(* bodies outside the translated fragment: 1 *)
Definition pos_unparsed : list string := ["File.End"].
