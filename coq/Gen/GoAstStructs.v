(* GENERATED from /repo by /verif/translator — do not edit *)
From Coq Require Import List String ZArith Bool.
Import ListNotations.
From V Require Import Base.AstTree.
Open Scope string_scope.

(* node structs of the toolchain's go/ast (fields in declaration order) *)
Definition go_node_structs : list (string * list (string * fclass)) :=
  [("ArrayType", [("Lbrack", FPos); ("Len", FNode true); ("Elt", FNode false)]);
   ("AssignStmt", [("Lhs", FList); ("TokPos", FPos); ("Tok", FTok); ("Rhs", FList)]);
   ("BadDecl", [("From", FPos); ("To", FPos)]);
   ("BadExpr", [("From", FPos); ("To", FPos)]);
   ("BadStmt", [("From", FPos); ("To", FPos)]);
   ("BasicLit", [("ValuePos", FPos); ("Kind", FTok); ("Value", FStr)]);
   ("BinaryExpr", [("X", FNode false); ("OpPos", FPos); ("Op", FTok); ("Y", FNode false)]);
   ("BlockStmt", [("Lbrace", FPos); ("List", FList); ("Rbrace", FPos)]);
   ("BranchStmt", [("TokPos", FPos); ("Tok", FTok); ("Label", FNode true)]);
   ("CallExpr", [("Fun", FNode false); ("Lparen", FPos); ("Args", FList); ("Ellipsis", FPos); ("Rparen", FPos)]);
   ("CaseClause", [("Case", FPos); ("List", FList); ("Colon", FPos); ("Body", FList)]);
   ("ChanType", [("Begin", FPos); ("Arrow", FPos); ("Dir", FInt); ("Value", FNode false)]);
   ("CommClause", [("Case", FPos); ("Comm", FNode true); ("Colon", FPos); ("Body", FList)]);
   ("Comment", [("Slash", FPos); ("Text", FStr)]);
   ("CommentGroup", [("List", FList)]);
   ("CompositeLit", [("Type", FNode true); ("Lbrace", FPos); ("Elts", FList); ("Rbrace", FPos); ("Incomplete", FBool)]);
   ("DeclStmt", [("Decl", FNode false)]);
   ("DeferStmt", [("Defer", FPos); ("Call", FNode false)]);
   ("Ellipsis", [("Ellipsis", FPos); ("Elt", FNode true)]);
   ("EmptyStmt", [("Semicolon", FPos); ("Implicit", FBool)]);
   ("ExprStmt", [("X", FNode false)]);
   ("Field", [("Doc", FNode true); ("Names", FList); ("Type", FNode true); ("Tag", FNode true); ("Comment", FNode true)]);
   ("FieldList", [("Opening", FPos); ("List", FList); ("Closing", FPos)]);
   ("File", [("Doc", FNode true); ("Package", FPos); ("Name", FNode false); ("Decls", FList); ("FileStart", FPos); ("FileEnd", FPos); ("Scope", FOther); ("Imports", FList); ("Unresolved", FList); ("Comments", FList); ("GoVersion", FStr)]);
   ("ForStmt", [("For", FPos); ("Init", FNode true); ("Cond", FNode true); ("Post", FNode true); ("Body", FNode false)]);
   ("FuncDecl", [("Doc", FNode true); ("Recv", FNode true); ("Name", FNode false); ("Type", FNode false); ("Body", FNode true)]);
   ("FuncLit", [("Type", FNode false); ("Body", FNode false)]);
   ("FuncType", [("Func", FPos); ("TypeParams", FNode true); ("Params", FNode false); ("Results", FNode true)]);
   ("GenDecl", [("Doc", FNode true); ("TokPos", FPos); ("Tok", FTok); ("Lparen", FPos); ("Specs", FList); ("Rparen", FPos)]);
   ("GoStmt", [("Go", FPos); ("Call", FNode false)]);
   ("Ident", [("NamePos", FPos); ("Name", FStr); ("Obj", FOther)]);
   ("IfStmt", [("If", FPos); ("Init", FNode true); ("Cond", FNode false); ("Body", FNode false); ("Else", FNode true)]);
   ("ImportSpec", [("Doc", FNode true); ("Name", FNode true); ("Path", FNode false); ("Comment", FNode true); ("EndPos", FPos)]);
   ("IncDecStmt", [("X", FNode false); ("TokPos", FPos); ("Tok", FTok)]);
   ("IndexExpr", [("X", FNode false); ("Lbrack", FPos); ("Index", FNode false); ("Rbrack", FPos)]);
   ("IndexListExpr", [("X", FNode false); ("Lbrack", FPos); ("Indices", FList); ("Rbrack", FPos)]);
   ("InterfaceType", [("Interface", FPos); ("Methods", FNode false); ("Incomplete", FBool)]);
   ("KeyValueExpr", [("Key", FNode false); ("Colon", FPos); ("Value", FNode false)]);
   ("LabeledStmt", [("Label", FNode false); ("Colon", FPos); ("Stmt", FNode false)]);
   ("MapType", [("Map", FPos); ("Key", FNode false); ("Value", FNode false)]);
   ("Package", [("Name", FStr); ("Scope", FOther); ("Imports", FOther); ("Files", FMap)]);
   ("ParenExpr", [("Lparen", FPos); ("X", FNode false); ("Rparen", FPos)]);
   ("RangeStmt", [("For", FPos); ("Key", FNode true); ("Value", FNode true); ("TokPos", FPos); ("Tok", FTok); ("Range", FPos); ("X", FNode false); ("Body", FNode false)]);
   ("ReturnStmt", [("Return", FPos); ("Results", FList)]);
   ("SelectStmt", [("Select", FPos); ("Body", FNode false)]);
   ("SelectorExpr", [("X", FNode false); ("Sel", FNode false)]);
   ("SendStmt", [("Chan", FNode false); ("Arrow", FPos); ("Value", FNode false)]);
   ("SliceExpr", [("X", FNode false); ("Lbrack", FPos); ("Low", FNode true); ("High", FNode true); ("Max", FNode true); ("Slice3", FBool); ("Rbrack", FPos)]);
   ("StarExpr", [("Star", FPos); ("X", FNode false)]);
   ("StructType", [("Struct", FPos); ("Fields", FNode false); ("Incomplete", FBool)]);
   ("SwitchStmt", [("Switch", FPos); ("Init", FNode true); ("Tag", FNode true); ("Body", FNode false)]);
   ("TypeAssertExpr", [("X", FNode false); ("Lparen", FPos); ("Type", FNode true); ("Rparen", FPos)]);
   ("TypeSpec", [("Doc", FNode true); ("Name", FNode false); ("TypeParams", FNode true); ("Assign", FPos); ("Type", FNode false); ("Comment", FNode true)]);
   ("TypeSwitchStmt", [("Switch", FPos); ("Init", FNode true); ("Assign", FNode false); ("Body", FNode false)]);
   ("UnaryExpr", [("OpPos", FPos); ("Op", FTok); ("X", FNode false)]);
   ("ValueSpec", [("Doc", FNode true); ("Names", FList); ("Type", FNode true); ("Values", FList); ("Comment", FNode true)])].
