(* GENERATED from /repo by /verif/translator — do not edit *)
From Coq Require Import List NArith ZArith Bool.
Import ListNotations.
From V Require Import Base.Prelude.

(* canCl: switch path.Ext(fname) *)
Definition cancl_case_labels : list (list str) := [[[46;103;111]%N; [46;120;103;111]%N; [46;103;111;112]%N; [46;103;111;120]%N]].

(* dirHash *)
Definition dirhash_formats : list str := [[103;111;9;37;115;10]%N; [120;103;111;9;37;115;10]%N; [102;105;108;101;9;37;115;9;37;120;9;37;120;10]%N].
Definition dirhash_format_args : list (list str) := [[[95;46;86;101;114;115;105;111;110;40;41]%N]; [[95;46;86;101;114;115;105;111;110]%N]; [[95]%N; [95;46;83;105;122;101;40;41]%N; [95;46;77;111;100;84;105;109;101;40;41;46;85;110;105;120;78;97;110;111;40;41]%N]].
Definition dirhash_prefix_literals : list str := [[95]%N].
Definition dirhash_skips_dirs : bool := true.
