(* GENERATED from /repo by /verif/translator — do not edit *)
From Coq Require Import List NArith ZArith Bool.
Import ListNotations.
From V Require Import Base.Prelude Base.C10Prelude.
Open Scope Z_scope.

(* cl/compile.go *)
Definition gen_indexTable : str := [48;49;50;51;52;53;54;55;56;57;97;98;99;100;101;102;103;104;105;106;107;108;109;110;111;112;113;114;115;116;117;118;119;120;121;122]%N.
Definition gen_binaryGopNames : list (str * str) :=
  [([43]%N, [71;111;112;95;65;100;100]%N); ([45]%N, [71;111;112;95;83;117;98]%N); ([42]%N, [71;111;112;95;77;117;108]%N);
   ([47]%N, [71;111;112;95;81;117;111]%N); ([37]%N, [71;111;112;95;82;101;109]%N); ([38]%N, [71;111;112;95;65;110;100]%N);
   ([124]%N, [71;111;112;95;79;114]%N); ([94]%N, [71;111;112;95;88;111;114]%N); ([60;60]%N, [71;111;112;95;76;115;104]%N);
   ([62;62]%N, [71;111;112;95;82;115;104]%N); ([38;94]%N, [71;111;112;95;65;110;100;78;111;116]%N); ([43;61]%N, [71;111;112;95;65;100;100;65;115;115;105;103;110]%N);
   ([45;61]%N, [71;111;112;95;83;117;98;65;115;115;105;103;110]%N); ([42;61]%N, [71;111;112;95;77;117;108;65;115;115;105;103;110]%N); ([47;61]%N, [71;111;112;95;81;117;111;65;115;115;105;103;110]%N);
   ([37;61]%N, [71;111;112;95;82;101;109;65;115;115;105;103;110]%N); ([38;61]%N, [71;111;112;95;65;110;100;65;115;115;105;103;110]%N); ([124;61]%N, [71;111;112;95;79;114;65;115;115;105;103;110]%N);
   ([94;61]%N, [71;111;112;95;88;111;114;65;115;115;105;103;110]%N); ([60;60;61]%N, [71;111;112;95;76;115;104;65;115;115;105;103;110]%N); ([62;62;61]%N, [71;111;112;95;82;115;104;65;115;115;105;103;110]%N);
   ([38;94;61]%N, [71;111;112;95;65;110;100;78;111;116;65;115;115;105;103;110]%N); ([61;61]%N, [71;111;112;95;69;81]%N); ([33;61]%N, [71;111;112;95;78;69]%N);
   ([60;61]%N, [71;111;112;95;76;69]%N); ([60]%N, [71;111;112;95;76;84]%N); ([62;61]%N, [71;111;112;95;71;69]%N);
   ([62]%N, [71;111;112;95;71;84]%N); ([45;62]%N, [71;111;112;95;80;111;105;110;116;84;111]%N); ([60;62]%N, [71;111;112;95;80;111;105;110;116;66;105]%N);
   ([38;38]%N, [71;111;112;95;76;65;110;100]%N); ([124;124]%N, [71;111;112;95;76;79;114]%N); ([60;45]%N, [71;111;112;95;83;101;110;100]%N)].
Definition gen_unaryGopNames : list (str * str) :=
  [([43;43]%N, [71;111;112;95;73;110;99]%N); ([45;45]%N, [71;111;112;95;68;101;99]%N); ([45]%N, [71;111;112;95;78;101;103]%N);
   ([43]%N, [71;111;112;95;68;117;112]%N); ([94]%N, [71;111;112;95;78;111;116]%N); ([33]%N, [71;111;112;95;76;78;111;116]%N);
   ([60;45]%N, [71;111;112;95;82;101;99;118]%N)].

(* func(name string, idx int) string *)
Definition gen_overloadFuncName (v_name : str) (v_idx : Z) : M str :=
(a7 <- (a1 <- ret v_name ;; b2 <- ret ([95;95]%N : str) ;; ret (a1 ++ b2)) ;; b8 <- (lo5 <- ret v_idx ;; hi6 <- (a3 <- ret v_idx ;; b4 <- ret 1%Z ;; ret (Z.add a3 b4)) ;; slice_str gen_indexTable lo5 hi6) ;; ret (a7 ++ b8)).

(* func(recv *ast.Ident, name string, isOp bool) (string, error) *)
Definition gen_overloadName (v_recv : identp) (v_name : str) (v_isOp : bool) : M res2 :=
(c84 <- ret v_isOp ;;
 if c84 then (k42 <- ret v_name ;;
 match map_lookup gen_binaryGopNames k42 with
 | Some v_oname => (v_name <- ret v_oname ;;
 (v_sep <- ret ([95]%N : str) ;;
 (c41 <- (a5 <- (s1 <- ret v_name ;; ret (contains_rune s1 95%N)) ;; if a5 then ret true else (a3 <- ret (not_nil v_recv) ;; if a3 then (s2 <- name_of v_recv ;; ret (contains_rune s2 95%N)) else ret false)) ;;
 if c41 then (v_sep <- ret ([95;95]%N : str) ;;
 (v_typ <- ret ([]%N : str) ;;
 (c23 <- ret (not_nil v_recv) ;;
 if c23 then (v_typ <- (a7 <- name_of v_recv ;; b8 <- ret v_sep ;; ret (a7 ++ b8)) ;;
 (r15 <- (a13 <- (a11 <- (a9 <- ret ([71;111;112;111]%N : str) ;; b10 <- ret v_sep ;; ret (a9 ++ b10)) ;; b12 <- ret v_typ ;; ret (a11 ++ b12)) ;; b14 <- ret v_name ;; ret (a13 ++ b14)) ;; ret (RVal r15)))
 else (r22 <- (a20 <- (a18 <- (a16 <- ret ([71;111;112;111]%N : str) ;; b17 <- ret v_sep ;; ret (a16 ++ b17)) ;; b19 <- ret v_typ ;; ret (a18 ++ b19)) ;; b21 <- ret v_name ;; ret (a20 ++ b21)) ;; ret (RVal r22)))))
 else (v_typ <- ret ([]%N : str) ;;
 (c40 <- ret (not_nil v_recv) ;;
 if c40 then (v_typ <- (a24 <- name_of v_recv ;; b25 <- ret v_sep ;; ret (a24 ++ b25)) ;;
 (r32 <- (a30 <- (a28 <- (a26 <- ret ([71;111;112;111]%N : str) ;; b27 <- ret v_sep ;; ret (a26 ++ b27)) ;; b29 <- ret v_typ ;; ret (a28 ++ b29)) ;; b31 <- ret v_name ;; ret (a30 ++ b31)) ;; ret (RVal r32)))
 else (r39 <- (a37 <- (a35 <- (a33 <- ret ([71;111;112;111]%N : str) ;; b34 <- ret v_sep ;; ret (a33 ++ b34)) ;; b36 <- ret v_typ ;; ret (a35 ++ b36)) ;; b38 <- ret v_name ;; ret (a37 ++ b38)) ;; ret (RVal r39)))))))
 | None => ret RErr
 end)
 else (v_sep <- ret ([95]%N : str) ;;
 (c83 <- (a47 <- (s43 <- ret v_name ;; ret (contains_rune s43 95%N)) ;; if a47 then ret true else (a45 <- ret (not_nil v_recv) ;; if a45 then (s44 <- name_of v_recv ;; ret (contains_rune s44 95%N)) else ret false)) ;;
 if c83 then (v_sep <- ret ([95;95]%N : str) ;;
 (v_typ <- ret ([]%N : str) ;;
 (c65 <- ret (not_nil v_recv) ;;
 if c65 then (v_typ <- (a49 <- name_of v_recv ;; b50 <- ret v_sep ;; ret (a49 ++ b50)) ;;
 (r57 <- (a55 <- (a53 <- (a51 <- ret ([71;111;112;111]%N : str) ;; b52 <- ret v_sep ;; ret (a51 ++ b52)) ;; b54 <- ret v_typ ;; ret (a53 ++ b54)) ;; b56 <- ret v_name ;; ret (a55 ++ b56)) ;; ret (RVal r57)))
 else (r64 <- (a62 <- (a60 <- (a58 <- ret ([71;111;112;111]%N : str) ;; b59 <- ret v_sep ;; ret (a58 ++ b59)) ;; b61 <- ret v_typ ;; ret (a60 ++ b61)) ;; b63 <- ret v_name ;; ret (a62 ++ b63)) ;; ret (RVal r64)))))
 else (v_typ <- ret ([]%N : str) ;;
 (c82 <- ret (not_nil v_recv) ;;
 if c82 then (v_typ <- (a66 <- name_of v_recv ;; b67 <- ret v_sep ;; ret (a66 ++ b67)) ;;
 (r74 <- (a72 <- (a70 <- (a68 <- ret ([71;111;112;111]%N : str) ;; b69 <- ret v_sep ;; ret (a68 ++ b69)) ;; b71 <- ret v_typ ;; ret (a70 ++ b71)) ;; b73 <- ret v_name ;; ret (a72 ++ b73)) ;; ret (RVal r74)))
 else (r81 <- (a79 <- (a77 <- (a75 <- ret ([71;111;112;111]%N : str) ;; b76 <- ret v_sep ;; ret (a75 ++ b76)) ;; b78 <- ret v_typ ;; ret (a77 ++ b78)) ;; b80 <- ret v_name ;; ret (a79 ++ b80)) ;; ret (RVal r81))))))).

(* gogen@v1.18.1 import.go *)
Definition gogen_indexTable : str := [48;49;50;51;52;53;54;55;56;57;97;98;99;100;101;102;103;104;105;106;107;108;109;110;111;112;113;114;115;116;117;118;119;120;121;122]%N.

(* gogen@v1.18.1 import.go *)
Definition gogen_gopoPrefix : str := [71;111;112;111;95]%N.
