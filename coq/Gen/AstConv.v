(* GENERATED from /repo by /verif/translator — do not edit *)
From Coq Require Import List String ZArith Bool.
Import ListNotations.
From V Require Import Base.AstConv.
Open Scope string_scope.

(* ast/fromgo/gopast.go: Go tree -> XGo tree *)
Definition from_table : ctable :=
  [("gopExpr", FSwitch true
      [("Ident", BCall "gopIdent");
   ("SelectorExpr", BBuild (Build "SelectorExpr" [("X", CCall "gopExpr" "X"); ("Sel", CCall "gopIdent" "Sel")]));
   ("SliceExpr", BBuild (Build "SliceExpr" [("X", CCall "gopExpr" "X"); ("Lbrack", CCopy "Lbrack"); ("Low", CCall "gopExpr" "Low"); ("High", CCall "gopExpr" "High"); ("Max", CCall "gopExpr" "Max"); ("Slice3", CCopy "Slice3"); ("Rbrack", CCopy "Rbrack")]));
   ("StarExpr", BBuild (Build "StarExpr" [("Star", CCopy "Star"); ("X", CCall "gopExpr" "X")]));
   ("MapType", BBuild (Build "MapType" [("Map", CCopy "Map"); ("Key", CCall "gopType" "Key"); ("Value", CCall "gopType" "Value")]));
   ("StructType", BBuild (Build "StructType" [("Struct", CCopy "Struct"); ("Fields", CCall "gopFieldList" "Fields")]));
   ("FuncType", BCall "gopFuncType");
   ("InterfaceType", BBuild (Build "InterfaceType" [("Interface", CCopy "Interface"); ("Methods", CCall "gopFieldList" "Methods")]));
   ("ArrayType", BBuild (Build "ArrayType" [("Lbrack", CCopy "Lbrack"); ("Len", CCall "gopExpr" "Len"); ("Elt", CCall "gopType" "Elt")]));
   ("ChanType", BBuild (Build "ChanType" [("Begin", CCopy "Begin"); ("Arrow", CCopy "Arrow"); ("Dir", CCast "Dir"); ("Value", CCall "gopType" "Value")]));
   ("BasicLit", BCall "gopBasicLit");
   ("BinaryExpr", BBuild (Build "BinaryExpr" [("X", CCall "gopExpr" "X"); ("OpPos", CCopy "OpPos"); ("Op", CCast "Op"); ("Y", CCall "gopExpr" "Y")]));
   ("UnaryExpr", BBuild (Build "UnaryExpr" [("OpPos", CCopy "OpPos"); ("Op", CCast "Op"); ("X", CCall "gopExpr" "X")]));
   ("CallExpr", BBuild (Build "CallExpr" [("Fun", CCall "gopExpr" "Fun"); ("Lparen", CCopy "Lparen"); ("Args", CCall "gopExprs" "Args"); ("Ellipsis", CCopy "Ellipsis"); ("Rparen", CCopy "Rparen")]));
   ("IndexExpr", BBuild (Build "IndexExpr" [("X", CCall "gopExpr" "X"); ("Lbrack", CCopy "Lbrack"); ("Index", CCall "gopExpr" "Index"); ("Rbrack", CCopy "Rbrack")]));
   ("IndexListExpr", BBuild (Build "IndexListExpr" [("X", CCall "gopExpr" "X"); ("Lbrack", CCopy "Lbrack"); ("Indices", CCall "gopExprs" "Indices"); ("Rbrack", CCopy "Rbrack")]));
   ("ParenExpr", BBuild (Build "ParenExpr" [("Lparen", CCopy "Lparen"); ("X", CCall "gopExpr" "X"); ("Rparen", CCopy "Rparen")]));
   ("CompositeLit", BBuild (Build "CompositeLit" [("Type", CCall "gopType" "Type"); ("Lbrace", CCopy "Lbrace"); ("Elts", CCall "gopExprs" "Elts"); ("Rbrace", CCopy "Rbrace")]));
   ("FuncLit", BBuild (Build "FuncLit" [("Type", CCall "gopFuncType" "Type"); ("Body", CEmpty "BlockStmt")]));
   ("TypeAssertExpr", BBuild (Build "TypeAssertExpr" [("X", CCall "gopExpr" "X"); ("Lparen", CCopy "Lparen"); ("Type", CCall "gopType" "Type"); ("Rparen", CCopy "Rparen")]));
   ("KeyValueExpr", BBuild (Build "KeyValueExpr" [("Key", CCall "gopExpr" "Key"); ("Colon", CCopy "Colon"); ("Value", CCall "gopExpr" "Value")]));
   ("Ellipsis", BBuild (Build "Ellipsis" [("Ellipsis", CCopy "Ellipsis"); ("Elt", CCall "gopExpr" "Elt")]))]);
   ("gopExprs", FMapList "gopExpr" true);
   ("gopFuncType", FBuild "FuncType" false (Build "FuncType" [("Func", CCopy "Func"); ("TypeParams", CCall "gopFieldList" "TypeParams"); ("Params", CCall "gopFieldList" "Params"); ("Results", CCall "gopFieldList" "Results")]));
   ("gopType", FAlias "gopExpr");
   ("gopBasicLit", FBuild "BasicLit" true (Build "BasicLit" [("ValuePos", CCopy "ValuePos"); ("Kind", CCast "Kind"); ("Value", CCopy "Value")]));
   ("gopIdent", FBuild "Ident" true (Build "Ident" [("NamePos", CCopy "NamePos"); ("Name", CCopy "Name"); ("Obj", COpaque)]));
   ("gopIdents", FMapList "gopIdent" false);
   ("gopField", FBuild "Field" false (Build "Field" [("Names", CCall "gopIdents" "Names"); ("Type", CCall "gopType" "Type"); ("Tag", CCall "gopBasicLit" "Tag")]));
   ("gopFieldList", FBuild "FieldList" true (Build "FieldList" [("Opening", CCopy "Opening"); ("List", CMap "gopField" "List"); ("Closing", CCopy "Closing")]));
   ("gopFuncDecl", FBuild "FuncDecl" false (Build "FuncDecl" [("Doc", CCopy "Doc"); ("Recv", CCall "gopFieldList" "Recv"); ("Name", CCall "gopIdent" "Name"); ("Type", CCall "gopFuncType" "Type"); ("Body", CEmpty "BlockStmt")]));
   ("gopImportSpec", FBuild "ImportSpec" false (Build "ImportSpec" [("Name", CCall "gopIdent" "Name"); ("Path", CCall "gopBasicLit" "Path"); ("EndPos", CCopy "EndPos")]));
   ("gopTypeSpec", FBuild "TypeSpec" false (Build "TypeSpec" [("Name", CCall "gopIdent" "Name"); ("TypeParams", CCall "gopFieldList" "TypeParams"); ("Assign", CCopy "Assign"); ("Type", CCall "gopType" "Type")]));
   ("gopValueSpec", FBuild "ValueSpec" false (Build "ValueSpec" [("Names", CCall "gopIdents" "Names"); ("Type", CCall "gopType" "Type"); ("Values", CCall "gopExprs" "Values")]));
   ("gopGenDecl", FBuild "GenDecl" false (Build "GenDecl" [("Doc", CCopy "Doc"); ("TokPos", CCopy "TokPos"); ("Tok", CCast "Tok"); ("Lparen", CCopy "Lparen"); ("Specs", CSpecs "Specs" "Tok" [([75%Z], "gopImportSpec", "ImportSpec"); ([84%Z], "gopTypeSpec", "TypeSpec"); ([85%Z; 64%Z], "gopValueSpec", "ValueSpec")]); ("Rparen", CCopy "Rparen")]));
   ("gopDecl", FSwitch false
      [("GenDecl", BCall "gopGenDecl");
   ("FuncDecl", BCall "gopFuncDecl")]);
   ("gopDecls", FMapList "gopDecl" false);
   ("ASTFile", FBuild "File" false (Build "File" [("Doc", CCopy "Doc"); ("Package", CCopy "Package"); ("Name", CCall "gopIdent" "Name"); ("Decls", CCall "gopDecls" "Decls")]))].

(* ast/togo/goast.go: XGo tree -> Go tree *)
Definition to_table : ctable :=
  [("goExpr", FSwitch true
      [("Ident", BCall "goIdent");
   ("SelectorExpr", BBuild (Build "SelectorExpr" [("X", CCall "goExpr" "X"); ("Sel", CCall "goIdent" "Sel")]));
   ("SliceExpr", BBuild (Build "SliceExpr" [("X", CCall "goExpr" "X"); ("Lbrack", CCopy "Lbrack"); ("Low", CCall "goExpr" "Low"); ("High", CCall "goExpr" "High"); ("Max", CCall "goExpr" "Max"); ("Slice3", CCopy "Slice3"); ("Rbrack", CCopy "Rbrack")]));
   ("StarExpr", BBuild (Build "StarExpr" [("Star", CCopy "Star"); ("X", CCall "goExpr" "X")]));
   ("MapType", BBuild (Build "MapType" [("Map", CCopy "Map"); ("Key", CCall "goType" "Key"); ("Value", CCall "goType" "Value")]));
   ("StructType", BBuild (Build "StructType" [("Struct", CCopy "Struct"); ("Fields", CCall "goFieldList" "Fields")]));
   ("FuncType", BCall "goFuncType");
   ("InterfaceType", BBuild (Build "InterfaceType" [("Interface", CCopy "Interface"); ("Methods", CCall "goFieldList" "Methods")]));
   ("ArrayType", BBuild (Build "ArrayType" [("Lbrack", CCopy "Lbrack"); ("Len", CCall "goExpr" "Len"); ("Elt", CCall "goType" "Elt")]));
   ("ChanType", BBuild (Build "ChanType" [("Begin", CCopy "Begin"); ("Arrow", CCopy "Arrow"); ("Dir", CCast "Dir"); ("Value", CCall "goType" "Value")]));
   ("BasicLit", BCall "goBasicLit");
   ("BinaryExpr", BBuild (Build "BinaryExpr" [("X", CCall "goExpr" "X"); ("OpPos", CCopy "OpPos"); ("Op", CCast "Op"); ("Y", CCall "goExpr" "Y")]));
   ("UnaryExpr", BBuild (Build "UnaryExpr" [("OpPos", CCopy "OpPos"); ("Op", CCast "Op"); ("X", CCall "goExpr" "X")]));
   ("CallExpr", BBuild (Build "CallExpr" [("Fun", CCall "goExpr" "Fun"); ("Lparen", CCopy "Lparen"); ("Args", CCall "goExprs" "Args"); ("Ellipsis", CCopy "Ellipsis"); ("Rparen", CCopy "Rparen")]));
   ("IndexExpr", BBuild (Build "IndexExpr" [("X", CCall "goExpr" "X"); ("Lbrack", CCopy "Lbrack"); ("Index", CCall "goExpr" "Index"); ("Rbrack", CCopy "Rbrack")]));
   ("IndexListExpr", BBuild (Build "IndexListExpr" [("X", CCall "goExpr" "X"); ("Lbrack", CCopy "Lbrack"); ("Indices", CCall "goExprs" "Indices"); ("Rbrack", CCopy "Rbrack")]));
   ("ParenExpr", BBuild (Build "ParenExpr" [("Lparen", CCopy "Lparen"); ("X", CCall "goExpr" "X"); ("Rparen", CCopy "Rparen")]));
   ("CompositeLit", BBuild (Build "CompositeLit" [("Type", CCall "goType" "Type"); ("Lbrace", CCopy "Lbrace"); ("Elts", CCall "goExprs" "Elts"); ("Rbrace", CCopy "Rbrace")]));
   ("FuncLit", BBuild (Build "FuncLit" [("Type", CCall "goFuncType" "Type"); ("Body", CEmpty "BlockStmt")]));
   ("TypeAssertExpr", BBuild (Build "TypeAssertExpr" [("X", CCall "goExpr" "X"); ("Lparen", CCopy "Lparen"); ("Type", CCall "goType" "Type"); ("Rparen", CCopy "Rparen")]));
   ("KeyValueExpr", BBuild (Build "KeyValueExpr" [("Key", CCall "goExpr" "Key"); ("Colon", CCopy "Colon"); ("Value", CCall "goExpr" "Value")]));
   ("Ellipsis", BBuild (Build "Ellipsis" [("Ellipsis", CCopy "Ellipsis"); ("Elt", CCall "goExpr" "Elt")]))]);
   ("goExprs", FMapList "goExpr" true);
   ("goFuncType", FBuild "FuncType" false (Build "FuncType" [("Func", CCopy "Func"); ("TypeParams", CCall "goFieldList" "TypeParams"); ("Params", CCall "goFieldList" "Params"); ("Results", CCall "goFieldList" "Results")]));
   ("goType", FAlias "goExpr");
   ("goBasicLit", FBuild "BasicLit" true (Build "BasicLit" [("ValuePos", CCopy "ValuePos"); ("Kind", CCast "Kind"); ("Value", CCopy "Value")]));
   ("goIdent", FBuild "Ident" true (Build "Ident" [("NamePos", CCopy "NamePos"); ("Name", CCopy "Name")]));
   ("goIdents", FMapList "goIdent" false);
   ("goField", FBuild "Field" false (Build "Field" [("Names", CCall "goIdents" "Names"); ("Type", CCall "goType" "Type"); ("Tag", CCall "goBasicLit" "Tag")]));
   ("goFieldList", FBuild "FieldList" true (Build "FieldList" [("Opening", CCopy "Opening"); ("List", CMap "goField" "List"); ("Closing", CCopy "Closing")]));
   ("goFuncDecl", FBuild "FuncDecl" false (Build "FuncDecl" [("Recv", CCall "goFieldList" "Recv"); ("Name", CCall "goIdent" "Name"); ("Type", CCall "goFuncType" "Type"); ("Body", CEmpty "BlockStmt")]));
   ("goImportSpec", FBuild "ImportSpec" false (Build "ImportSpec" [("Name", CCall "goIdent" "Name"); ("Path", CCall "goBasicLit" "Path"); ("EndPos", CCopy "EndPos")]));
   ("goTypeSpec", FBuild "TypeSpec" false (Build "TypeSpec" [("Name", CCall "goIdent" "Name"); ("TypeParams", CCall "goFieldList" "TypeParams"); ("Assign", CCopy "Assign"); ("Type", CCall "goType" "Type")]));
   ("goValueSpec", FBuild "ValueSpec" false (Build "ValueSpec" [("Names", CCall "goIdents" "Names"); ("Type", CCall "goType" "Type"); ("Values", CCall "goExprs" "Values")]));
   ("goGenDecl", FBuild "GenDecl" false (Build "GenDecl" [("TokPos", CCopy "TokPos"); ("Tok", CCast "Tok"); ("Lparen", CCopy "Lparen"); ("Specs", CSpecs "Specs" "Tok" [([75%Z], "goImportSpec", "ImportSpec"); ([84%Z], "goTypeSpec", "TypeSpec"); ([85%Z; 64%Z], "goValueSpec", "ValueSpec")]); ("Rparen", CCopy "Rparen")]));
   ("goDecl", FSwitch false
      [("GenDecl", BCall "goGenDecl");
   ("FuncDecl", BCall "goFuncDecl")]);
   ("goDecls", FMapList "goDecl" false);
   ("ASTFile", FBuild "File" false (Build "File" [("Package", CCopy "Package"); ("Name", CCall "goIdent" "Name"); ("Decls", CCall "goDecls" "Decls")]))].
