(* GENERATED from /repo by /verif/translator — do not edit *)
(* dynamic: emitted Go of the template programs of harness/cmd/c04 (h_c04 gen -shape);
   static cross-check: cl/stmt.go:toForStmt, cl/expr.go:compileRangeExpr *)
From Coq Require Import List ZArith.
Import ListNotations.
From V Require Import Base.RangeOps.
Open Scope Z_scope.

Definition shape_forin_ident : loop_shape :=
  {| ls_init_var := OStart; ls_init_end := None; ls_init_step := None;
     ls_cond_lhs := (OSlot SVar); ls_cond_op := CLt; ls_cond_rhs := OEnd;
     ls_post_lhs := SVar; ls_post_op := PAdd; ls_post_rhs := OStep |}.
Definition shape_forrange_ident : loop_shape :=
  {| ls_init_var := OStart; ls_init_end := None; ls_init_step := None;
     ls_cond_lhs := (OSlot SVar); ls_cond_op := CLt; ls_cond_rhs := OEnd;
     ls_post_lhs := SVar; ls_post_op := PAdd; ls_post_rhs := OStep |}.
Definition shape_forrange_assign_ident : loop_shape :=
  {| ls_init_var := OStart; ls_init_end := None; ls_init_step := None;
     ls_cond_lhs := (OSlot SVar); ls_cond_op := CLt; ls_cond_rhs := OEnd;
     ls_post_lhs := SVar; ls_post_op := PAdd; ls_post_rhs := OStep |}.
Definition shape_forin_computed : loop_shape :=
  {| ls_init_var := OStart; ls_init_end := (Some OEnd); ls_init_step := (Some OStep);
     ls_cond_lhs := (OSlot SVar); ls_cond_op := CLt; ls_cond_rhs := (OSlot STmpEnd);
     ls_post_lhs := SVar; ls_post_op := PAdd; ls_post_rhs := (OSlot STmpStep) |}.
Definition shape_forrange_computed : loop_shape :=
  {| ls_init_var := OStart; ls_init_end := (Some OEnd); ls_init_step := (Some OStep);
     ls_cond_lhs := (OSlot SVar); ls_cond_op := CLt; ls_cond_rhs := (OSlot STmpEnd);
     ls_post_lhs := SVar; ls_post_op := PAdd; ls_post_rhs := (OSlot STmpStep) |}.
Definition shape_forrange_assign_computed : loop_shape :=
  {| ls_init_var := OStart; ls_init_end := (Some OEnd); ls_init_step := (Some OStep);
     ls_cond_lhs := (OSlot SVar); ls_cond_op := CLt; ls_cond_rhs := (OSlot STmpEnd);
     ls_post_lhs := SVar; ls_post_op := PAdd; ls_post_rhs := (OSlot STmpStep) |}.
Definition shape_forin_cond : loop_shape :=
  {| ls_init_var := OStart; ls_init_end := None; ls_init_step := None;
     ls_cond_lhs := (OSlot SVar); ls_cond_op := CLt; ls_cond_rhs := OEnd;
     ls_post_lhs := SVar; ls_post_op := PAdd; ls_post_rhs := OStep |}.
Definition shapes_full : list loop_shape := [shape_forin_ident; shape_forrange_ident; shape_forrange_assign_ident; shape_forin_computed;
   shape_forrange_computed; shape_forrange_assign_computed; shape_forin_cond].

Definition shape_forin_defaults : loop_shape :=
  {| ls_init_var := (OConst 0); ls_init_end := None; ls_init_step := None;
     ls_cond_lhs := (OSlot SVar); ls_cond_op := CLt; ls_cond_rhs := OEnd;
     ls_post_lhs := SVar; ls_post_op := PAdd; ls_post_rhs := (OConst 1) |}.
Definition shape_forrange_defaults : loop_shape :=
  {| ls_init_var := (OConst 0); ls_init_end := None; ls_init_step := None;
     ls_cond_lhs := (OSlot SVar); ls_cond_op := CLt; ls_cond_rhs := OEnd;
     ls_post_lhs := SVar; ls_post_op := PAdd; ls_post_rhs := (OConst 1) |}.
Definition shapes_defaults : list loop_shape := [shape_forin_defaults; shape_forrange_defaults].

Definition shape_forin_nostep : loop_shape :=
  {| ls_init_var := OStart; ls_init_end := None; ls_init_step := None;
     ls_cond_lhs := (OSlot SVar); ls_cond_op := CLt; ls_cond_rhs := OEnd;
     ls_post_lhs := SVar; ls_post_op := PAdd; ls_post_rhs := (OConst 1) |}.
Definition shapes_nostep : list loop_shape := [shape_forin_nostep].

Definition range_compr_ident : list opnd := [OStart; OEnd; OStep].
Definition range_compr_computed : list opnd := [OStart; OEnd; OStep].
Definition ranges_full : list (list opnd) := [range_compr_ident; range_compr_computed].

Definition range_compr_defaults : list opnd := [(OConst 0); OEnd; (OConst 1)].
Definition ranges_defaults : list (list opnd) := [range_compr_defaults].

Definition range_compr_nostep : list opnd := [OStart; OEnd; (OConst 1)].
Definition ranges_nostep : list (list opnd) := [range_compr_nostep].

