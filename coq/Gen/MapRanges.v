(* GENERATED from /repo by /verif/translator — do not edit *)
From Coq Require Import List String.
Import ListNotations.
Open Scope string_scope.

(* every `for ... range` over a map-typed operand in cl/*.go and x/build/*.go (non-test files):
   (package dir, enclosing top-level function, ranged expression, hash of the normalised statement) *)
Definition range_stmts_seen : nat := 108.
Definition map_ranges : list (string * string * string * string) :=
  [("cl", "NewPackage", "ctx.syms", "c31203be9df4c093");
   ("cl", "NewPackage", "files", "0e5ed42ab49ed545");
   ("cl", "NewPackage", "pkg.GoFiles", "516b8b20e3208238");
   ("cl", "compileTypeSwitchStmt", "seen", "e69fdafca2fc9082");
   ("cl", "gmxCheckProjs", "ctx.projs", "73d872360358c80a");
   ("cl", "goxRecorder.Complete", "p.referDefs", "c174eb508b2b9a9c");
   ("cl", "goxRecorder.Complete", "p.referUses", "622b81c1770e20dd");
   ("cl", "initGopPkg", "ctx.syms", "1ce40c634cba7601");
   ("cl", "pkgCtx.lookupClassNode", "p.classes", "311cdd4adef26611");
   ("x/build", "Context.loadPackage", "pkgs", "52fc1ce5add0db05")].
