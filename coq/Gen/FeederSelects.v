(* GENERATED from /repo by /verif/translator — do not edit *)
From Coq Require Import List NArith.
Import ListNotations.
From V Require Import Base.C41Ops.

(* x/fakenet/conn.go *)
Definition gen_conn_close : list kop := [KCloseFeeder FR; KCloseFeeder FW; KCloseStream FR; KCloseStream FW].
Definition gen_feeder_close : list fop := [FLock; FMarkCloseDone; FUnlock].
Definition gen_do : list sstmt := [SSelect [(CInput, ASendArg); (CDone, ARetEOF)]; SSelect [(CResult, ARecvRet); (CDone, ARetEOF)]].
Definition gen_run : list sstmt := [SLoop [SSelect [(CInput, ARecvBuf); (CDone, ARet)]; SCallSource; SSelect [(CResult, ASendResult); (CDone, ARet)]]].
(* make(chan ...) capacities in newFeeder: input, result, done *)
Definition gen_chan_caps : list (chn * N) := [(CInput, 0%N); (CResult, 0%N); (CDone, 0%N)].
(* Read -> c.reader.do, Write -> c.writer.do; reader: newFeeder(in.Read), writer: newFeeder(out.Write); both run() started by NewConn *)
Definition gen_read_feeder : fid := FR.
Definition gen_write_feeder : fid := FW.
Definition gen_sources_ok : bool := true.
Definition gen_workers_started : bool := true.
