(* Matching never panics: on a compiled grammar (every Choices has its stops set by
   CheckConflicts) and a token stream as the scanner delivers it, no index is out of range. *)
From Coq Require Import List NArith ZArith Bool Arith Lia.
Import ListNotations.
From V Require Import Base.Prelude Base.TplRes Gen.Tokens Model.C31 Model.Tpl Model.TplCl Proofs.Tpl Proofs.TplCl.
Local Open Scope nat_scope.

(* every Choices of g has one stop flag per option *)
Fixpoint stops_ok (g : m) : bool :=
  match g with
  | MChoice opts st => Nat.eqb (length st) (length opts) && forallb stops_ok opts
  | MSeq items => forallb stops_ok items
  | MRep0 r | MRep1 r | MRep01 r => stops_ok r
  | MAdj a b => stops_ok a && stops_ok b
  | _ => true
  end.
Definition env_stops_ok (env : list (option m)) : bool :=
  forallb (fun o => match o with Some g => stops_ok g | None => true end) env.

(* what the scanner guarantees about a token: End() is computable (an empty literal belongs to an
   operator token of the table range) and a STRING token carries its quotes *)
Definition tok_ok (t : tokn) : bool :=
  (negb (str_eqb (tlit t) []) || (Z.leb 0 (ttok t) && Z.ltb (ttok t) 256)) &&
  (negb (Z.eqb (ttok t) STRING) || negb (str_eqb (tlit t) [])).

Lemma tok_ok_end t : tok_ok t = true -> exists e, tok_end t = Ok e.
Proof.
  unfold tok_ok, tok_end. intros H. apply andb_prop in H as [H _]. destruct (tlit t) as [|c l]; [|eauto].
  cbn [str_eqb negb orb] in H. apply andb_prop in H as [H1 H2]. apply Z.leb_le in H1. apply Z.ltb_lt in H2.
  destruct (token_len_total (ttok t) (conj H1 H2)) as [n ->]. eauto.
Qed.

Section Safe.
Variable env : list (option m).
Variable toks : list tokn.
Hypothesis Henv : env_stops_ok env = true.
Hypothesis Htoks : forallb tok_ok toks = true.
Notation run := (run env toks).
Notation T := (length toks).

Lemma toks_nth i t : nth_error toks i = Some t -> tok_ok t = true.
Proof. intros H. rewrite forallb_forall in Htoks. apply Htoks. eapply nth_error_In; eauto. Qed.

(* positions: a successful match that consumed tokens stayed inside the input (no hypothesis needed) *)
Definition inb (s : rs) (n : nat) : Prop :=
  match s with
  | SM _ i | SCh _ _ i _ => 1 <= n -> i + n <= T
  | SSq _ i n0 _ | SRp _ i n0 _ => n0 <= n /\ (n0 < n -> i + n <= T)
  end.

Lemma in_bounds : forall f s n r, run f s = Ok (n, r, false) -> inb s n.
Proof.
  induction f as [|f IH]; intros s n r H; [discriminate|]. cbn [Tpl.run] in H.
  destruct s as [g i|opts stops i nmax|items i n0 acc|g i n0 acc]; cbn [inb].
  - destruct g.
    + injection H as <- _. lia.
    + destruct (nth_error toks i) as [t|]; [|discriminate]. destruct i as [|j]; [discriminate|].
      destruct (nth_error toks j) as [p|]; [|discriminate]. destruct (tok_end p) as [e| |]; cbn [bind] in H; try discriminate.
      destruct (negb (Z.eqb e (tpos t))); [|discriminate]. injection H as <- _. lia.
    + destruct (nth_error toks i) as [t|] eqn:E; [|discriminate].
      destruct (negb (Z.eqb (ttok t) STRING)); [discriminate|]. destruct (tlit t) as [|c l]; [discriminate|].
      destruct (N.eqb c q); [|discriminate]. injection H as <- _.
      assert (i < T) by (apply nth_error_Some; congruence). lia.
    + destruct (nth_error toks i) as [t0|] eqn:E; [|discriminate]. destruct (Z.eqb (ttok t0) t); [|discriminate].
      injection H as <- _. assert (i < T) by (apply nth_error_Some; congruence). lia.
    + destruct (nth_error toks i) as [t0|] eqn:E; [|discriminate]. destruct (Z.eqb (ttok t0) t && str_eqb (tlit t0) lit); [|discriminate].
      injection H as <- _. assert (i < T) by (apply nth_error_Some; congruence). lia.
    + apply IH in H. exact H.
    + apply IH in H. cbn [inb] in H. destruct H as [H0 H2]. intros; apply H2; lia.
    + apply IH in H. cbn [inb] in H. destruct H as [H0 H2]. intros; apply H2; lia.
    + destruct (run f (SM g i)) as [[[n1 x1] [|]]| |] eqn:E; try discriminate.
      apply IH in E. apply IH in H. cbn [inb] in E, H. destruct H as [H0 H2]. intros Hn.
      destruct (Nat.eq_dec n n1) as [->|]; [apply E; lia|apply H2; lia].
    + destruct (run f (SM g i)) as [[[n1 x1] [|]]| |] eqn:E; try discriminate.
      * injection H as <- _. lia.
      * injection H as <- _. apply IH in E. exact E.
    + destruct (run f (SM g1 i)) as [[[n1 x1] [|]]| |] eqn:E; try discriminate.
      destruct (Nat.eqb n1 0) eqn:E0; [discriminate|]. apply Nat.eqb_neq in E0.
      destruct (run f (SM g2 (i + n1))) as [[[n2 x2] [|]]| |] eqn:E2; try discriminate.
      destruct (Nat.eqb n2 0) eqn:E3; [discriminate|]. apply Nat.eqb_neq in E3.
      destruct (nth_error toks (i + n1 - 1)) as [p|]; [|discriminate]. destruct (nth_error toks (i + n1)) as [q|]; [|discriminate].
      destruct (tok_end p) as [e| |]; cbn [bind] in H; try discriminate.
      destruct (Z.eqb e (tpos q)); [|discriminate]. injection H as <- _.
      apply IH in E2. cbn [inb] in E2. specialize (E2 ltac:(lia)). lia.
    + destruct (nth_error env v) as [[e|]|] eqn:E; try discriminate. apply IH in H. exact H.
  - destruct opts as [|o t]; [discriminate|].
    destruct (run f (SM o i)) as [[[n1 x1] [|]]| |] eqn:E; try discriminate.
    + destruct stops as [|s st]; [discriminate|]. destruct (Nat.ltb 0 n1 && s); [discriminate|]. apply IH in H. exact H.
    + injection H as <- _. apply IH in E. exact E.
  - destruct items as [|it t].
    + injection H as <- _. lia.
    + destruct (run f (SM it (i + n0))) as [[[n1 x1] [|]]| |] eqn:E; try discriminate.
      apply IH in E. apply IH in H. cbn [inb] in E, H. destruct H as (H0 & H2). split; [lia|].
      intros Hn. destruct (Nat.eq_dec n (n0 + n1)) as [->|]; [|apply H2; lia]. specialize (E ltac:(lia)). lia.
  - destruct (run f (SM g (i + n0))) as [[[n1 x1] [|]]| |] eqn:E; try discriminate.
    + injection H as <- _. lia.
    + apply IH in E. apply IH in H. cbn [inb] in E, H. destruct H as (H0 & H2). split; [lia|].
      intros Hn. destruct (Nat.eq_dec n (n0 + n1)) as [->|]; [|apply H2; lia]. specialize (E ltac:(lia)). lia.
Qed.

Definition wfs (s : rs) : Prop :=
  match s with
  | SM g _ => stops_ok g = true
  | SCh opts st _ _ => length st = length opts /\ forallb stops_ok opts = true
  | SSq items _ _ _ => forallb stops_ok items = true
  | SRp r _ _ _ => stops_ok r = true
  end.

Lemma env_nth v e : nth_error env v = Some (Some e) -> stops_ok e = true.
Proof.
  intros H. unfold env_stops_ok in Henv. rewrite forallb_forall in Henv.
  apply (Henv (Some e)). eapply nth_error_In; eauto.
Qed.

Theorem no_panic : forall f s, wfs s -> run f s <> Panic.
Proof.
  induction f as [|f IH]; intros s Hw; [discriminate|]. cbn [Tpl.run].
  destruct s as [g i|opts stops i nmax|items i n0 acc|g i n0 acc]; cbn [wfs] in Hw.
  - destruct g; cbn [stops_ok] in Hw.
    + discriminate.
    + destruct (nth_error toks i) as [t|] eqn:Ei; [|discriminate]. destruct i as [|j]; [discriminate|].
      destruct (nth_error toks j) as [p|] eqn:Ej.
      * destruct (tok_ok_end p (toks_nth _ _ Ej)) as [e ->]. cbn [bind]. destruct (negb _); discriminate.
      * exfalso. apply nth_error_None in Ej. assert (S j < T) by (apply nth_error_Some; congruence). lia.
    + destruct (nth_error toks i) as [t|] eqn:Ei; [|discriminate].
      destruct (negb (Z.eqb (ttok t) STRING)) eqn:Es; [discriminate|].
      pose proof (toks_nth _ _ Ei) as Ht. unfold tok_ok in Ht. apply andb_prop in Ht as [_ Ht]. rewrite Es in Ht. cbn [orb] in Ht.
      destruct (tlit t) as [|c l]; [discriminate Ht|]. destruct (N.eqb c q); discriminate.
    + destruct (nth_error toks i); [|discriminate]. destruct (Z.eqb _ _); discriminate.
    + destruct (nth_error toks i); [|discriminate]. destruct (_ && _); discriminate.
    + apply andb_prop in Hw as [H1 H2]. apply Nat.eqb_eq in H1. apply IH. cbn [wfs]. auto.
    + apply IH. exact Hw.
    + apply IH. exact Hw.
    + pose proof (IH (SM g i) Hw) as H1. destruct (run f (SM g i)) as [[[n1 x1] [|]]| |]; try discriminate; try congruence.
      apply IH. exact Hw.
    + pose proof (IH (SM g i) Hw) as H1. destruct (run f (SM g i)) as [[[n1 x1] [|]]| |]; try discriminate; congruence.
    + apply andb_prop in Hw as [Ha Hb].
      pose proof (IH (SM g1 i) Ha) as H1. destruct (run f (SM g1 i)) as [[[n1 x1] [|]]| |] eqn:E1; try discriminate; try congruence.
      destruct (Nat.eqb n1 0) eqn:E0; [discriminate|]. apply Nat.eqb_neq in E0.
      pose proof (IH (SM g2 (i + n1)) Hb) as H2.
      destruct (run f (SM g2 (i + n1))) as [[[n2 x2] [|]]| |] eqn:E2; try discriminate; try congruence.
      destruct (Nat.eqb n2 0) eqn:E3; [discriminate|]. apply Nat.eqb_neq in E3.
      pose proof (in_bounds _ _ _ _ E1) as B1. pose proof (in_bounds _ _ _ _ E2) as B2. cbn [inb] in B1, B2.
      specialize (B1 ltac:(lia)). specialize (B2 ltac:(lia)).
      destruct (nth_error toks (i + n1 - 1)) as [p|] eqn:Ep; [|exfalso; apply nth_error_None in Ep; lia].
      destruct (nth_error toks (i + n1)) as [q|] eqn:Eq; [|exfalso; apply nth_error_None in Eq; lia].
      destruct (tok_ok_end p (toks_nth _ _ Ep)) as [e ->]. cbn [bind]. destruct (Z.eqb _ _); discriminate.
    + destruct (nth_error env v) as [[e|]|] eqn:E; try discriminate. apply IH. cbn [wfs]. eapply env_nth; eauto.
  - destruct Hw as [Hl Ho]. destruct opts as [|o t]; [discriminate|]. cbn [forallb] in Ho. apply andb_prop in Ho as [Ho Ht].
    pose proof (IH (SM o i) Ho) as H1. destruct (run f (SM o i)) as [[[n1 x1] [|]]| |]; try discriminate; try congruence.
    destruct stops as [|s st]; [cbn [length] in Hl; lia|]. destruct (Nat.ltb 0 n1 && s); [discriminate|].
    apply IH. cbn [wfs length] in *. split; [lia|auto].
  - destruct items as [|it t]; [discriminate|]. cbn [forallb] in Hw. apply andb_prop in Hw as [Ho Ht].
    pose proof (IH (SM it (i + n0)) Ho) as H1. destruct (run f (SM it (i + n0))) as [[[n1 x1] [|]]| |]; try discriminate; try congruence.
    apply IH. exact Ht.
  - pose proof (IH (SM g (i + n0)) Hw) as H1. destruct (run f (SM g (i + n0))) as [[[n1 x1] [|]]| |]; try discriminate; try congruence.
    apply IH. exact Hw.
Qed.

End Safe.

(* ---- CheckConflicts (fill) sets one stop flag per option ---- *)
Lemma stops_of_length l : length (stops_of l) = length l.
Proof. induction l; simpl; auto. Qed.

Lemma choice_stops_length env fuel opts st : choice_stops env fuel opts = Some st -> length st = length opts.
Proof.
  unfold choice_stops. destruct (forallb _ _); [|discriminate]. intros H. injection H as <-.
  rewrite stops_of_length, !map_length. reflexivity.
Qed.

Fixpoint gsize (g : m) : nat :=
  match g with
  | MChoice l _ | MSeq l => S (fold_right (fun x a => gsize x + a) 0 l)
  | MRep0 r | MRep1 r | MRep01 r => S (gsize r)
  | MAdj a b => S (gsize a + gsize b)
  | _ => 1
  end.

Lemma fill_stops_ok env fuel : forall n g g', gsize g <= n -> fill env fuel g = Some g' -> stops_ok g' = true.
Proof.
  induction n as [|n IH]; intros g g' Hs H. { destruct g; simpl in Hs; lia. }
  assert (L : forall l, fold_right (fun x a => gsize x + a) 0 l <= n ->
              forall acc res, forallb stops_ok acc = true ->
              (fix go (os : list m) (acc : list m) : option (list m) :=
                 match os with
                 | [] => Some (rev acc)
                 | o :: t => match fill env fuel o with Some o' => go t (o' :: acc) | None => None end
                 end) l acc = Some res -> forallb stops_ok res = true /\ length res = length acc + length l).
  { induction l as [|o t IHl]; intros Hz acc res Hacc Hgo.
    - injection Hgo as <-. rewrite rev_length. split; [|cbn [length]; lia].
      apply forallb_forall. intros x Hx. apply in_rev in Hx. rewrite forallb_forall in Hacc. auto.
    - cbn [fold_right] in Hz. destruct (fill env fuel o) as [o'|] eqn:Eo; [|discriminate].
      apply IH in Eo; [|lia]. apply IHl in Hgo; [|lia|cbn [forallb]; rewrite Eo, Hacc; reflexivity].
      destruct Hgo as [H1 H2]. split; auto. cbn [length] in *. lia. }
  destruct g; cbn [fill] in H; try (injection H as <-; reflexivity).
  - (* MChoice *)
    destruct (choice_stops env fuel opts) as [st|] eqn:Es; [|discriminate]. apply choice_stops_length in Es.
    cbn [gsize] in Hs.
    destruct ((fix go (os : list m) (acc : list m) : option (list m) :=
                 match os with
                 | [] => Some (rev acc)
                 | o :: t => match fill env fuel o with Some o' => go t (o' :: acc) | None => None end
                 end) opts []) as [res|] eqn:Ego.
    + destruct (L opts ltac:(lia) [] res eq_refl Ego) as [H1 H2]. cbn [length] in H2.
      assert (E : (fix go (os acc : list m) {struct os} : option m :=
                 match os with
                 | [] => Some (MChoice (rev acc) st)
                 | o :: t => match fill env fuel o with Some o' => go t (o' :: acc) | None => None end
                 end) opts [] = Some (MChoice res st)).
      { clear -Ego. revert Ego. generalize (@nil m). induction opts as [|o t IHt]; intros acc Ego.
        - injection Ego as <-. reflexivity.
        - destruct (fill env fuel o); [|discriminate]. apply IHt. exact Ego. }
      rewrite E in H. injection H as <-. cbn [stops_ok]. rewrite H1, Es, H2, Nat.eqb_refl. reflexivity.
    + exfalso. clear -Ego H. revert Ego H. generalize (@nil m). induction opts as [|o t IHt]; intros acc Ego H.
      * discriminate.
      * destruct (fill env fuel o); [|discriminate]. eapply IHt; eauto.
  - (* MSeq *)
    cbn [gsize] in Hs.
    destruct ((fix go (os : list m) (acc : list m) : option (list m) :=
                 match os with
                 | [] => Some (rev acc)
                 | o :: t => match fill env fuel o with Some o' => go t (o' :: acc) | None => None end
                 end) items []) as [res|] eqn:Ego.
    + destruct (L items ltac:(lia) [] res eq_refl Ego) as [H1 H2].
      assert (E : (fix go (is acc : list m) {struct is} : option m :=
                 match is with
                 | [] => Some (MSeq (rev acc))
                 | o :: t => match fill env fuel o with Some o' => go t (o' :: acc) | None => None end
                 end) items [] = Some (MSeq res)).
      { clear -Ego. revert Ego. generalize (@nil m). induction items as [|o t IHt]; intros acc Ego.
        - injection Ego as <-. reflexivity.
        - destruct (fill env fuel o); [|discriminate]. apply IHt. exact Ego. }
      rewrite E in H. injection H as <-. cbn [stops_ok]. exact H1.
    + exfalso. clear -Ego H. revert Ego H. generalize (@nil m). induction items as [|o t IHt]; intros acc Ego H.
      * discriminate.
      * destruct (fill env fuel o); [|discriminate]. eapply IHt; eauto.
  - destruct (fill env fuel g) as [r|] eqn:E; [|discriminate]. injection H as <-. cbn [stops_ok gsize] in *. eapply IH; eauto; lia.
  - destruct (fill env fuel g) as [r|] eqn:E; [|discriminate]. injection H as <-. cbn [stops_ok gsize] in *. eapply IH; eauto; lia.
  - destruct (fill env fuel g) as [r|] eqn:E; [|discriminate]. injection H as <-. cbn [stops_ok gsize] in *. eapply IH; eauto; lia.
  - destruct (fill env fuel g1) as [a|] eqn:E1; [|discriminate]. destruct (fill env fuel g2) as [b|] eqn:E2; [|discriminate].
    injection H as <-. cbn [stops_ok gsize] in *. rewrite (IH g1 a), (IH g2 b); auto; lia.
Qed.

Lemma fill_env_stops_ok env0 fuel : forall l env, fill_env env0 fuel l = Some env -> env_stops_ok env = true.
Proof.
  induction l as [|o t IH]; intros env H.
  - injection H as <-. reflexivity.
  - cbn [fill_env] in H. destruct o as [g|].
    + destruct (fill env0 fuel g) as [g'|] eqn:Eg; [|discriminate]. destruct (fill_env env0 fuel t) as [t'|] eqn:Et; [|discriminate].
      injection H as <-. unfold env_stops_ok. cbn [forallb]. rewrite (fill_stops_ok env0 fuel (gsize g) g g' (le_n _) Eg).
      apply (IH t' eq_refl).
    + destruct (fill_env env0 fuel t) as [t'|] eqn:Et; [|discriminate]. injection H as <-.
      unfold env_stops_ok. cbn [forallb]. apply (IH t' eq_refl).
Qed.

(* a compiled grammar never panics while matching scanner tokens *)
Theorem compiled_match_no_panic unq rs env doc toks f s :
  compile unq rs = Ok (Some (env, doc)) -> forallb tok_ok toks = true ->
  run env toks f (SM (MVar s) 0) <> Panic.
Proof.
  intros Hc Ht. apply no_panic; auto; [|reflexivity].
  unfold compile in Hc. destruct (compile_rules unq (map fst rs) rs) as [[bodies nerr]| |]; cbn [bind] in Hc; try discriminate.
  destruct (negb (Nat.eqb (nerr + dup_count (map fst rs) []) 0)); [discriminate|].
  destruct bodies as [|b bs]; [discriminate|].
  destruct (fill_env (b :: bs) (fill_fuel (b :: bs)) (b :: bs)) as [env'|] eqn:E; [|discriminate].
  injection Hc as <- _. eapply fill_env_stops_ok; eauto.
Qed.

(* termination + safety: on a compiled productive grammar Doc.Match returns (n, result, err) *)
From V Require Import Model.TplProd Proofs.TplTerm.
Theorem compiled_productive_match_returns unq rs env doc rk nl toks :
  compile unq rs = Ok (Some (env, doc)) -> productive rk nl env = true -> forallb tok_ok toks = true ->
  exists r, match_doc env toks (fuel_bound rk env toks) doc = Ok r.
Proof.
  intros Hc Hp Ht. pose proof (match_terminates rk nl env toks doc Hp) as H1.
  pose proof (compiled_match_no_panic unq rs env doc toks (fuel_bound rk env toks) doc Hc Ht) as H2.
  unfold match_doc in *. destruct (run env toks (fuel_bound rk env toks) (SM (MVar doc) 0)); [eauto|congruence|discriminate].
Qed.
