(* C33: the finite-domain facts about the generated token tables (Gen/Tokens.v, Gen/ScanTok.v)
   and the scanner model, all by computation over the tables as regenerated from /repo. *)
From Coq Require Import List NArith ZArith Bool Lia ZifyN ZifyNat ZifyBool.
Import ListNotations.
From V Require Import Base.Prelude Gen.Tokens Gen.ScanTok Model.Scan Model.ScanTokens.
Open Scope Z_scope.

Section WithUni.
Variable ul ud : Z -> bool.

Lemma xgo_spelling_scans :
  forallb (fun p => (fst p =? xgok_TILDE) || scans_to ul ud XGo (fst p) (snd p)) xgo_ops = true.
Proof. vm_compute. reflexivity. Qed.
Lemma tpl_spelling_scans : forallb (fun p => scans_to ul ud Tpl (fst p) (snd p)) tpl_ops = true.
Proof. vm_compute. reflexivity. Qed.
Lemma go_spelling_scans : forallb (fun p => scans_to ul ud Go (fst p) (snd p)) go_ops = true.
Proof. vm_compute. reflexivity. Qed.

Lemma xgo_spelling_scans_all c sp : In (c, sp) xgo_ops -> c <> xgok_TILDE -> scans_to ul ud XGo c sp = true.
Proof.
  intros H N. pose proof (proj1 (forallb_forall _ _) xgo_spelling_scans _ H) as P. cbn [fst snd] in P.
  apply orb_true_iff in P as [P|P]; [apply Z.eqb_eq in P; contradiction|exact P].
Qed.
Lemma tpl_spelling_scans_all c sp : In (c, sp) tpl_ops -> scans_to ul ud Tpl c sp = true.
Proof. intros H. exact (proj1 (forallb_forall _ _) tpl_spelling_scans _ H). Qed.
Lemma go_spelling_scans_all c sp : In (c, sp) go_ops -> scans_to ul ud Go c sp = true.
Proof. intros H. exact (proj1 (forallb_forall _ _) go_spelling_scans _ H). Qed.

(* the XGo scanner has no case for '~': TILDE does not round-trip *)
Lemma xgo_tilde_refuted :
  In (xgok_TILDE, [126%N]) xgo_ops /\ scans_to ul ud XGo xgok_TILDE [126%N] = false
  /\ exists t more errs, run ul ud XGo true [126%N] = Ok (t :: more, errs) /\ ttok t = T_ILLEGAL /\ errs <> [].
Proof.
  split; [vm_compute; tauto|]. split; [vm_compute; reflexivity|].
  eexists _, _, _. split; [vm_compute; reflexivity|]. split; [reflexivity|discriminate].
Qed.
End WithUni.

(* String() of an operator/keyword token is its spelling (the dense `tokens` array of
   Gen/Tokens.v against the keyed entries of Gen/ScanTok.v) *)
Lemma xgo_string_spelling : forallb (fun p => match tok_string xgo_tokens (fst p) with Some s => str_eqb s (snd p) | None => false end) xgo_ops = true.
Proof. vm_compute. reflexivity. Qed.
Lemma tpl_string_spelling : forallb (fun p => match tok_string tpl_tokens (fst p) with Some s => str_eqb s (snd p) | None => false end) tpl_ops = true.
Proof. vm_compute. reflexivity. Qed.
Lemma string_spelling_all tokens ops :
  forallb (fun p => match tok_string tokens (fst p) with Some s => str_eqb s (snd p) | None => false end) ops = true ->
  forall c sp, In (c, sp) ops -> tok_string tokens c = Some sp.
Proof.
  intros F c sp H. pose proof (proj1 (forallb_forall _ _) F _ H) as P. cbn [fst snd] in P.
  destruct (tok_string tokens c); [|discriminate]. apply str_eqb_eq in P. congruence.
Qed.

(* tpl Token.Len (generated body) = length of the spelling, for every operator token *)
Lemma tpl_len_spelling : forallb (fun p => match tpl_Len (fst p) with Ok n => n =? zlen (snd p) | _ => false end) tpl_ops = true.
Proof. vm_compute. reflexivity. Qed.
Lemma tpl_len_spelling_all c sp : In (c, sp) tpl_ops -> tpl_Len c = Ok (zlen sp).
Proof.
  intros H. pose proof (proj1 (forallb_forall _ _) tpl_len_spelling _ H) as P. cbn [fst snd] in P.
  destruct (tpl_Len c); try discriminate. apply Z.eqb_eq in P. congruence.
Qed.
(* Len never panics on the whole index range of the array and beyond *)
Lemma tpl_len_total : forallb (fun c => is_ok (tpl_Len c)) (zrange (-3) 400) = true.
Proof. vm_compute. reflexivity. Qed.

Lemma xgo_prec_operator : forallb (prec_ok xgo_Precedence xgo_IsOperator) (zrange (-3) 400) = true.
Proof. vm_compute. reflexivity. Qed.
Lemma go_prec_operator : forallb (prec_ok go_Precedence go_IsOperator) (zrange (-3) 400) = true.
Proof. vm_compute. reflexivity. Qed.
Lemma In_zrange lo n c : lo <= c < lo + Z.of_nat n -> In c (zrange lo n).
Proof.
  revert lo; induction n as [|n IH]; intros lo H; [lia|]. cbn [zrange].
  destruct (Z.eq_dec c lo); [left; congruence|right]. apply IH. lia.
Qed.
Lemma xgo_prec_operator_all c p : -3 <= c < 397 -> xgo_Precedence c = Ok p -> p <> 0 -> xgo_IsOperator c = Ok true.
Proof.
  intros R P N. pose proof (proj1 (forallb_forall _ _) xgo_prec_operator c (In_zrange (-3) 400 c ltac:(lia))) as Q.
  unfold prec_ok in Q. rewrite P in Q. destruct p; [congruence| |]; unfold ok_true in Q;
  destruct (xgo_IsOperator c) as [[|]| |]; congruence.
Qed.
(* and the precedence switch only has cases inside the table: outside it Precedence is 0 *)
Lemma xgo_prec_outside c p : (c < -3 \/ 397 <= c) -> xgo_Precedence c = Ok p -> p = 0.
Proof.
  intros R. unfold xgo_Precedence. cbn [bind ret].
  repeat match goal with |- context[Z.eqb c ?k] => destruct (Z.eqb_spec c k); [exfalso; subst c; vm_compute in R; intuition discriminate|] end.
  cbn [bind ret]. unfold ret. congruence.
Qed.

(* the tables are big enough for the ranges used above *)
Lemma tables_in_range : xgo_tokens_len <= 397 /\ tpl_tokens_len <= 397 /\ go_tokens_len <= 397
  /\ zlen xgo_tokens = xgo_tokens_len /\ zlen tpl_tokens = tpl_tokens_len /\ zlen go_tokens = go_tokens_len.
Proof. vm_compute. intuition discriminate. Qed.
