(* C15: every token of the XGo dialect is the source text at its offset; tokens tile the source. *)
From Coq Require Import List NArith ZArith Bool Lia.
From Coq Require Import ZifyN ZifyNat ZifyBool.
Import ListNotations.
From V Require Import Base.Prelude Gen.ScanTok Model.Scan Model.ScanRel Proofs.ScanBase Proofs.ScanSub.
Open Scope Z_scope.

(* [eat bs s s']: from s the scanner consumed exactly the bytes bs and is at s' *)
Definition eat (bs : str) (s s' : Sc) : Prop := rest s = bs ++ rest s' /\ off s' = off s + zlen bs.

Lemma eat_nil s : eat [] s s.
Proof. split; [reflexivity|rewrite zlen_nil; lia]. Qed.
Lemma eat_trans x y a b c : eat x a b -> eat y b c -> eat (x ++ y) a c.
Proof. intros [R1 O1] [R2 O2]. split; [rewrite R1, R2, app_assoc; reflexivity|rewrite zlen_app; lia]. Qed.
Lemma eat_adv x a b : eat x a b -> adv a b.
Proof. intros [R O]. exists x. auto. Qed.
Lemma eat_sadv x a b : eat x a b -> x <> [] -> sadv a b.
Proof. intros [R O] N. exists x. auto. Qed.
Lemma eat_slice x a b : eat x a b -> slice a b = x.
Proof. intros [R O]. apply adv_span_unique; assumption. Qed.
Lemma adv_eat a b : adv a b -> eat (slice a b) a b.
Proof. intros A. destruct (adv_slice _ _ A) as [R L]. split; [exact R|lia]. Qed.
Lemma eat_err x a s o c : eat x a s -> eat x a (err s o c).
Proof. intros [R O]. split; assumption. Qed.
Lemma eat_same x a s s' : rest s' = rest s -> off s' = off s -> eat x a s -> eat x a s'.
Proof. intros R O [R1 O1]. split; [rewrite R; exact R1|rewrite O; exact O1]. Qed.
Lemma eat_from_same x a a' s : rest a' = rest a -> off a' = off a -> eat x a s -> eat x a' s.
Proof. intros R O [R1 O1]. split; [rewrite R; exact R1|rewrite O; exact O1]. Qed.
Lemma eat_ascii s c : cur s = c -> 0 <= c < 128 -> eat [Z.to_N c] s (nxt s).
Proof.
  intros E H. destruct (nxt_ascii s c E H) as (t & R & R' & O). split; [rewrite R, R'; reflexivity|].
  rewrite zlen_cons, zlen_nil. lia.
Qed.
Lemma eat_nonempty_len x a b : eat x a b -> zlen x = off b - off a.
Proof. intros [_ O]. lia. Qed.

(* switch2/3/4 *)
Lemma sw2_eat s t0 t1 t s' : sw2 s t0 t1 = (t, s') -> (t = t0 /\ s' = s) \/ (t = t1 /\ eat [61%N] s s').
Proof.
  unfold sw2. destruct (cur s =? 61) eqn:E; intros H; inversion H; subst; [right|left; auto].
  split; [reflexivity|]. apply (eat_ascii s 61); lia.
Qed.
Lemma sw3_eat s t0 t1 c2 t2 t s' : 0 <= c2 < 128 -> sw3 s t0 t1 c2 t2 = (t, s') ->
  (t = t0 /\ s' = s) \/ (t = t1 /\ eat [61%N] s s') \/ (t = t2 /\ eat [Z.to_N c2] s s').
Proof.
  intros C. unfold sw3. destruct (cur s =? 61) eqn:E; [|destruct (cur s =? c2) eqn:E2]; intros H; inversion H; subst.
  - right; left. split; [reflexivity|]. apply (eat_ascii s 61); lia.
  - right; right. split; [reflexivity|]. apply eat_ascii; lia.
  - left; auto.
Qed.
Lemma sw4_eat s t0 t1 c2 t2 t3 t s' : 0 <= c2 < 128 -> sw4 s t0 t1 c2 t2 t3 = (t, s') ->
  (t = t0 /\ s' = s) \/ (t = t1 /\ eat [61%N] s s') \/ (t = t2 /\ eat [Z.to_N c2] s s')
  \/ (t = t3 /\ eat [Z.to_N c2; 61%N] s s').
Proof.
  intros C. unfold sw4. destruct (cur s =? 61) eqn:E; [|destruct (cur s =? c2) eqn:E2; [destruct (cur (nxt s) =? 61) eqn:E3|]];
    intros H; inversion H; subst.
  - right; left. split; [reflexivity|]. apply (eat_ascii s 61); lia.
  - right; right; right. split; [reflexivity|].
    change [Z.to_N c2; 61%N] with ([Z.to_N c2] ++ [61%N]). eapply eat_trans; [apply eat_ascii; lia|apply (eat_ascii (nxt s) 61); lia].
  - right; right; left. split; [reflexivity|]. apply eat_ascii; lia.
  - left; auto.
Qed.

(* skipWhitespace consumes only blanks *)
Lemma skip_ws_blank fuel b s : exists g, eat g s (skip_ws fuel b s) /\ blank_run g.
Proof.
  revert s; induction fuel as [|f IH]; intros s; cbn [skip_ws].
  - exists []. split; [apply eat_nil|constructor].
  - destruct ((cur s =? 32) || (cur s =? 9) || ((cur s =? 10) && negb b) || (cur s =? 13)) eqn:C.
    + destruct (IH (nxt s)) as (g & E & B).
      assert (A : 0 <= cur s < 128) by lia.
      exists ([Z.to_N (cur s)] ++ g). split; [eapply eat_trans; [apply eat_ascii; [reflexivity|exact A]|exact E]|].
      constructor; [|exact B]. unfold is_blank. lia.
    + exists []. split; [apply eat_nil|constructor].
Qed.

(* ---- carriage-return deletion ---- *)
Lemma cr_del_refl l : cr_del l l.
Proof. induction l; constructor; assumption. Qed.
Lemma cr_del_trans a b c : cr_del a b -> cr_del b c -> cr_del a c.
Proof.
  intros H1 H2. revert a H1. induction H2; intros a H1.
  - exact H1.
  - inversion H1; subst; [constructor; apply IHcr_del; assumption|].
    (* b = 13 dropped from x :: b ... *) constructor. apply IHcr_del. assumption.
  - constructor. apply IHcr_del. assumption.
Qed.
Lemma cr_del_strip_all b : cr_del (strip_cr_all b) b.
Proof.
  induction b as [|c t IH]; cbn [strip_cr_all]; [constructor|].
  destruct (c =? 13)%N eqn:E; [|constructor; exact IH].
  assert (c = 13%N) by lia. subst. constructor. exact IH.
Qed.
Lemma cr_del_strip_cr b comment i prev : cr_del (strip_cr b comment i prev) b.
Proof.
  revert i prev; induction b as [|c t IH]; intros i prev; cbn [strip_cr]; [constructor|].
  match goal with |- context[if ?x then _ else _] => destruct x eqn:E end; [constructor; apply IH|].
  assert (c = 13%N) by lia. subst. constructor. apply IH.
Qed.
Lemma cr_del_removelast (l : str) : l <> [] -> last l 0%N = 13%N -> cr_del (removelast l) l.
Proof.
  induction l as [|a l IH]; [congruence|]. intros _ L. destruct l as [|b l].
  - cbn in L. subst a. cbn. constructor. constructor.
  - change (removelast (a :: b :: l)) with (a :: removelast (b :: l)). constructor. apply IH; [discriminate|exact L].
Qed.
Lemma strip_cr_all_noop l : has_cr l = false -> strip_cr_all l = l.
Proof.
  induction l as [|c t IH]; [reflexivity|]. cbn [has_cr strip_cr_all]. intros H.
  destruct (c =? 13)%N; [discriminate|]. cbn [orb] in H. rewrite IH by exact H. reflexivity.
Qed.

(* scanComment: the literal is the scanned text with carriage returns deleted *)
Lemma scan_comment_x_lit d s0 s2 lit nl :
  0 <= cur s0 -> scan_comment_x d s0 = Ok (s2, lit, nl) -> sadv s0 s2 /\ cr_del lit (slice s0 s2).
Proof.
  intros C. unfold scan_comment_x.
  destruct (comment_scan d s0) as [[[s1 ncr] valid] nl0] eqn:E.
  destruct (comment_scan_spec _ _ _ _ _ _ C E) as (S & N0 & N1).
  pose proof (adv_slice _ _ (sadv_adv _ _ S)) as [_ LEN].
  set (lit0 := slice s0 s1) in *.
  assert (NE : lit0 <> []) by (intros Z0; rewrite Z0, zlen_nil in LEN; lia).
  assert (T : cr_del (fst (comment_trim lit0 ncr)) lit0).
  { unfold comment_trim. destruct (_ && _) eqn:B; cbn [fst]; [|apply cr_del_refl].
    apply cr_del_removelast; [exact NE|]. lia. }
  destruct (comment_trim lit0 ncr) as [lit1 ncr1]. cbn [fst] in T.
  match goal with |- context[if ?c then mkS (off s1) (rest s1) ?e (lineoff s1) else s1] =>
    set (s2' := if c then mkS (off s1) (rest s1) e (lineoff s1) else s1) end.
  assert (O2 : off s2' = off s1 /\ rest s2' = rest s1) by (subst s2'; destruct (_ && _); split; reflexivity).
  destruct O2 as [O2 R2].
  assert (S2 : sadv s0 s2') by (destruct S as (x & Nx & Rx & Ox); exists x; rewrite O2, R2; auto).
  assert (SL : slice s0 s2' = lit0) by (unfold slice; rewrite O2; reflexivity).
  destruct (0 <? ncr1).
  - destruct (zlen lit1 <? 2); [discriminate|]. intros H; inversion H; subst.
    split; [exact S2|]. rewrite SL. eapply cr_del_trans; [apply cr_del_strip_cr|exact T].
  - intros H; inversion H; subst. split; [exact S2|]. rewrite SL. exact T.
Qed.

Section Spec.
Variable ul ud : Z -> bool.

(* what one pass of Scan (XGo dialect) does, seen from the state s after skipWhitespace *)
Definition post (cm : bool) (s : Sc) (o : outcome) : Prop :=
  match o with
  | Emit t st' =>
    exists body, eat (body ++ unit st') s (sc st') /\ tpos t = off s /\ tend t = off s + zlen body
                 /\ lit_ok XGo t body /\ nlpos st' = 0 /\ (ttok t = T_EOF -> rest s = [])
  | Again st' => adv s (sc st') /\ unit st' = [] /\ cm = false /\ nlpos st' = 0
  end.
Definition postM (cm : bool) (s : Sc) (m : M outcome) : Prop :=
  match m with Ok o => post cm s o | _ => True end.

Lemma post_emit cm s body t lit s' isemi np :
  eat body s s' -> lit_ok XGo (mkTok (off s) t lit (off s' - zlen (@nil N))) body -> t <> T_EOF ->
  postM cm s (emit (off s) t lit s' isemi np []).
Proof.
  intros E L N. unfold postM, emit, post. exists body. cbn [unit sc tpos tend ttok nlpos].
  rewrite app_nil_r. split; [exact E|]. split; [reflexivity|]. split; [rewrite zlen_nil; destruct E; lia|].
  split; [exact L|]. split; [reflexivity|congruence].
Qed.

Lemma eat_slice_ne s s' : sadv s s' -> eat (slice s s') s s' /\ slice s s' <> [].
Proof.
  intros S. pose proof (adv_eat _ _ (sadv_adv _ _ S)) as E. split; [exact E|].
  intros Z0. pose proof (sadv_off _ _ S). destruct E as [_ O]. rewrite Z0, zlen_nil in O. lia.
Qed.

Lemma lex_word_post cm st s : is_letter ul (cur s) = true -> postM cm s (lex_word ul ud XGo st s).
Proof.
  intros L. unfold lex_word. cbn [is_tpl is_xgo andb].
  assert (S1 : sadv s (scan_ident ul ud (S (length (rest s))) s)) by (apply scan_ident_sadv; [exact L|lia]).
  set (s1 := scan_ident ul ud (S (length (rest s))) s) in *.
  destruct (eat_slice_ne _ _ S1) as [E1 NE1]. set (lit := slice s s1) in *.
  assert (IDENT : postM cm s (emit (off s) T_IDENT lit s1 true (nparen st) [])).
  { apply (post_emit cm s lit); [exact E1| |discriminate]. unfold lit_ok. cbn [ttok tlit]. auto. }
  destruct (Nat.ltb 1 (length lit)) eqn:LEN.
  - assert (LKC : lookup XGo lit = T_IDENT \/ exists k, lookup XGo lit = T_KW k /\ kw_find xgo_keywords lit = Some k).
    { unfold lookup. destruct (kw_find xgo_keywords lit); [right; eexists; split; reflexivity|left; reflexivity]. }
    destruct LKC as [LK|(k & LK & KF)]; rewrite LK.
    + (* identifier: maybe py"..." *)
      destruct (str_eqb lit [112%N; 121%N] && (cur s1 =? 34)) eqn:PY; [|exact IDENT].
      apply andb_prop in PY as [P1 P2]. apply str_eqb_eq in P1.
      set (s3 := scan_string _ _ _).
      assert (A3 : adv s1 s3) by (eapply adv_trans; [apply adv_nxt|apply scan_string_adv]).
      pose proof (adv_eat _ _ A3) as E3.
      apply (post_emit cm s (lit ++ slice s1 s3)); [eapply eat_trans; eassumption| |discriminate].
      unfold lit_ok. cbn [ttok tlit]. rewrite P1. reflexivity.
    + (* keyword *)
      apply (post_emit cm s lit); [exact E1| |discriminate]. unfold lit_ok. cbn [ttok tlit keywords_of].
      split; [reflexivity|exact KF].
  - destruct (((cur s =? 99) || (cur s =? 67)) && (cur s1 =? 34)) eqn:CS; [|exact IDENT].
    apply andb_prop in CS as [P1 P2].
    set (s3 := scan_string _ _ _).
    assert (A3 : adv s1 s3) by (eapply adv_trans; [apply adv_nxt|apply scan_string_adv]).
    pose proof (adv_eat _ _ A3) as E3.
    apply (post_emit cm s (lit ++ slice s1 s3)); [eapply eat_trans; eassumption| |discriminate].
    unfold lit_ok. cbn [ttok tlit].
    (* lit is the single byte c or C *)
    assert (A : 0 <= cur s < 128) by lia.
    destruct (nxt_ascii s (cur s) eq_refl A) as (t & R & _ & _).
    destruct E1 as [R1 _]. rewrite R in R1.
    destruct lit as [|b [|b2 l]]; [congruence| |cbn [length] in LEN; apply Nat.ltb_ge in LEN; lia].
    cbn [app] in R1. injection R1 as Hb _. exists b. split; [lia|reflexivity].
Qed.

(* numbers *)
Definition numk (t : tk) : Prop := t = T_INT \/ t = T_FLOAT \/ t = T_IMAG \/ t = T_RAT.

Lemma num_int_kind fuel s0 tok base prefix digsep inv sa :
  num_int fuel s0 = (tok, base, prefix, digsep, inv, sa) ->
  (cur s0 <> 46 /\ tok = T_INT) \/ (cur s0 = 46 /\ sa = s0).
Proof.
  unfold num_int. destruct (cur s0 =? 46) eqn:C; cbn [negb].
  - intros H; inversion H; subst. right. split; [lia|reflexivity].
  - intros H. left. split; [lia|].
    destruct (cur s0 =? 48).
    + repeat (match type of H with context[if ?c then _ else _] => destruct c end); cbv beta iota in H;
      match type of H with context[digits ?f ?b ?s ?i ?x] => destruct (digits f b s i x) as [[? ?] ?] end; inversion H; reflexivity.
    + match type of H with context[digits ?f ?b ?s ?i ?x] => destruct (digits f b s i x) as [[? ?] ?] end; inversion H; reflexivity.
Qed.
Lemma num_frac_kind fuel tok base prefix digsep inv s tok2 digsep2 inv2 sb :
  num_frac fuel tok base prefix digsep inv s = (tok2, digsep2, inv2, sb) ->
  (cur s = 46 /\ tok2 = T_FLOAT) \/ (cur s <> 46 /\ tok2 = tok).
Proof.
  unfold num_frac. destruct (cur s =? 46) eqn:C.
  - match goal with |- context[digits ?f ?b ?s ?i ?x] => destruct (digits f b s i x) as [[? ?] ?] end.
    intros H; inversion H. left. split; [lia|reflexivity].
  - intros H; inversion H. right. split; [lia|reflexivity].
Qed.
Lemma num_exp_kind fuel tok prefix digsep s tok3 digsep3 sc0 :
  num_exp fuel tok prefix digsep s = (tok3, digsep3, sc0) -> tok3 = T_FLOAT \/ tok3 = tok.
Proof.
  unfold num_exp. destruct (_ || _).
  - match goal with |- context[digits ?f ?b ?s ?i ?x] => destruct (digits f b s i x) as [[? ?] ?] end.
    intros H; inversion H. left; reflexivity.
  - destruct (_ && _); intros H; inversion H; right; reflexivity.
Qed.
Lemma num_suffix_kind fuel tok s t s' u :
  num_suffix ul ud XGo fuel tok s = (t, s', u) -> t = T_IMAG \/ t = T_RAT \/ t = tok.
Proof.
  unfold num_suffix. cbn [is_go]. destruct (is_letter ul (cur s)).
  - cbv zeta. destruct (str_eqb _ [105%N]); [|destruct (str_eqb _ [114%N])]; intros H; inversion H; auto.
  - intros H; inversion H; auto.
Qed.

Lemma scan_number_kind s0 t s1 u : scan_number ul ud XGo s0 = (t, s1, u) -> numk t.
Proof.
  unfold scan_number. set (fuel := S (length (rest s0))).
  destruct (num_int fuel s0) as [[[[[tok base] prefix] digsep] inv] sa] eqn:E1.
  destruct (num_frac fuel tok base prefix digsep inv sa) as [[[tok2 digsep2] inv2] sb] eqn:E2.
  destruct (num_exp fuel tok2 prefix digsep2 sb) as [[tok3 digsep3] sc0] eqn:E3.
  destruct (num_suffix ul ud XGo fuel tok3 sc0) as [[tok4 sd] un] eqn:E4.
  intros H. injection H as <- _ _.
  assert (K2 : tok2 = T_INT \/ tok2 = T_FLOAT).
  { destruct (num_int_kind _ _ _ _ _ _ _ _ E1) as [[N ->]|[C ->]];
      destruct (num_frac_kind _ _ _ _ _ _ _ _ _ _ _ E2) as [[_ ->]|[N2 ->]]; auto. congruence. }
  assert (K3 : tok3 = T_INT \/ tok3 = T_FLOAT).
  { destruct (num_exp_kind _ _ _ _ _ _ _ _ E3) as [->| ->]; auto. }
  unfold numk. destruct (num_suffix_kind _ _ _ _ _ _ E4) as [->|[->| ->]]; tauto.
Qed.

Lemma lex_number_post cm st s :
  (is_decimal (cur s) = true \/ cur s = 46) -> postM cm s (lex_number ul ud XGo st s).
Proof.
  intros H. unfold lex_number. destruct (scan_number ul ud XGo s) as [[t s1] u] eqn:E.
  destruct (scan_number_spec ul ud XGo _ _ _ _ E H) as (sm & S & A & U).
  pose proof (scan_number_kind _ _ _ _ E) as K.
  assert (A1 : adv s s1) by (eapply adv_trans; [apply sadv_adv, S|exact A]).
  destruct (adv_slice _ _ A1) as [R1 L1]. set (x := slice s s1) in *.
  pose proof (sadv_off _ _ S) as O1. pose proof (adv_off _ _ A) as O2.
  set (n := Z.to_nat (off s1 - u - off s)).
  assert (NB : (1 <= n <= length x)%nat /\ Z.of_nat (length x - n) = u).
  { unfold zlen in L1. subst n. destruct U as [->|[U1 U2]]; lia. }
  destruct NB as [NB NU].
  unfold postM, emit, post. cbn [unit sc tpos tend ttok nlpos].
  exists (firstn n x).
  assert (FB : firstn n (rest s) = firstn n x).
  { rewrite R1, firstn_app. replace (n - length x)%nat with 0%nat by lia. cbn [firstn]. apply app_nil_r. }
  assert (FU : firstn (Z.to_nat u) (skipn n (rest s)) = skipn n x).
  { rewrite R1, skipn_app. replace (n - length x)%nat with 0%nat by lia. cbn [skipn].
    rewrite firstn_app, skipn_length. replace (Z.to_nat u - (length x - n))%nat with 0%nat by lia.
    cbn [firstn]. rewrite app_nil_r. apply firstn_all2. rewrite skipn_length. lia. }
  rewrite FB, FU.
  split; [|split; [reflexivity|split; [|split; [|split; [reflexivity|]]]]].
  - split; [rewrite firstn_skipn; exact R1|]. rewrite firstn_skipn. lia.
  - assert (zlen (firstn n x) + zlen (skipn n x) = zlen x) by apply zlen_firstn_skipn.
    assert (zlen (skipn n x) = u) by (unfold zlen; rewrite skipn_length; exact NU). lia.
  - assert (NE : firstn n x <> []).
    { intros Z0. apply (f_equal (@length N)) in Z0. rewrite firstn_length in Z0. cbn in Z0. lia. }
    unfold lit_ok. cbn [ttok tlit]. destruct K as [->|[->|[->| ->]]]; auto.
  - intros T. destruct K as [K|[K|[K|K]]]; rewrite K in T; discriminate.
Qed.

(* comments and the default branch *)
Definition opk (t : tk) : bool :=
  match t with
  | T_ILLEGAL | T_EOF | T_COMMENT | T_IDENT | T_INT | T_FLOAT | T_IMAG | T_CHAR | T_STRING
  | T_RAT | T_UNIT | T_CSTRING | T_PYSTRING | T_KW _ | T_SEMICOLON => false
  | _ => true
  end.
Lemma post_op cm s body t s' isemi np :
  eat body s s' -> opk t = true -> spell_of XGo t = Some body ->
  postM cm s (emit (off s) t [] s' isemi np []).
Proof.
  intros E K SP. apply (post_emit cm s body); [exact E| |destruct t; discriminate].
  unfold lit_ok. cbn [ttok tlit]. destruct t; try discriminate K; auto.
Qed.

Lemma post_comment_out cm s s2 lit np :
  sadv s s2 -> cr_del lit (slice s s2) -> postM cm s (comment_out cm (off s) np s2 lit).
Proof.
  intros S CR. unfold comment_out. destruct cm.
  - destruct (eat_slice_ne _ _ S) as [E NE].
    apply (post_emit true s (slice s s2)); [exact E| |discriminate]. unfold lit_ok. cbn [ttok tlit]. auto.
  - unfold postM, post. cbn [sc unit nlpos]. split; [apply sadv_adv, S|auto].
Qed.

Lemma post_emit_nl_empty cm s s' np : rest s' = rest s -> off s' = off s -> postM cm s (emit_nl (off s) s' np).
Proof.
  intros R O. unfold postM, emit_nl, post. cbn [sc unit tpos tend ttok nlpos]. exists [].
  split; [cbn [app]; apply (eat_same [] s s); auto; apply eat_nil|].
  split; [reflexivity|]. split; [rewrite zlen_nil; lia|]. split; [|split; [reflexivity|discriminate]].
  unfold lit_ok. cbn [ttok tlit]. right. auto.
Qed.

Lemma lex_sharp_post cm st s : 0 <= cur s -> postM cm s (lex_sharp XGo cm st s (nxt s)).
Proof.
  intros C. unfold lex_sharp. cbn [is_tpl]. destruct (semi st).
  - apply post_emit_nl_empty; reflexivity.
  - destruct (scan_comment_x XGo s) as [[[s2 lit] nl]| |] eqn:E; cbn [bind]; try exact I.
    destruct (scan_comment_x_lit _ _ _ _ _ C E) as [S CR]. apply post_comment_out; assumption.
Qed.

Lemma lex_slash_comment_post cm st s : 0 <= cur s -> postM cm s (lex_slash_comment XGo cm st s (nxt s)).
Proof.
  intros C. unfold lex_slash_comment. cbn [is_go is_tpl].
  destruct (if semi st then find_line_end (S (length (rest (nxt s)))) (nxt s) else (nxt s, false)) as [look le].
  set (s' := with_look s look).
  assert (R : rest s' = rest s) by reflexivity. assert (O : off s' = off s) by reflexivity.
  destruct (semi st && le).
  - apply post_emit_nl_empty; assumption.
  - assert (C' : 0 <= cur s') by (unfold cur in *; rewrite R; exact C).
    destruct (scan_comment_x XGo s') as [[[s2 lit] nl]| |] eqn:E; cbn [bind]; try exact I.
    destruct (scan_comment_x_lit _ _ _ _ _ C' E) as [S CR].
    assert (S0 : sadv s s2) by (destruct S as (x & Nx & Rx & Ox); exists x; rewrite <- R, <- O; auto).
    assert (SL : slice s s2 = slice s' s2) by (unfold slice; rewrite R, O; reflexivity).
    apply post_comment_out; [exact S0|rewrite SL; exact CR].
Qed.

Lemma peek_ascii s : cur s = 46 -> peek s = 46%N -> cur (nxt s) = 46.
Proof.
  intros C P. destruct (nxt_ascii s 46 C ltac:(lia)) as (t & R & R' & _).
  unfold peek in P. destruct (decode_ascii (rest s) 46 C ltac:(lia)) as (t' & R2 & W). rewrite W, R in P. cbn [nth] in P.
  unfold cur. rewrite R'. destruct t as [|b t]; cbn [nth] in P; [discriminate|]. subst b. reflexivity.
Qed.

Hint Resolve eat_trans eat_nil : eatdb.
Ltac eat_solve := first [eassumption | eapply eat_trans; [eassumption | eat_solve]].
(* turn (cur X =? k) = true into eat [k] X (nxt X) *)
Ltac cur_eat H := let E := fresh "E" in
  match type of H with (cur ?x =? ?k) = true =>
    assert (E : eat [Z.to_N k] x (nxt x)) by (apply eat_ascii; lia) end.
Ltac op_leaf := eapply post_op; [eat_solve|reflexivity|vm_compute; reflexivity].
Ltac sw_leaf :=
  match goal with
  | |- context[sw2 ?s ?a ?b] =>
    let W := fresh "W" in destruct (sw2 s a b) as [?t ?s2] eqn:W; apply sw2_eat in W;
    destruct W as [[-> ->]|[-> W]]; op_leaf
  | |- context[sw3 ?s ?a ?b ?c ?e] =>
    let W := fresh "W" in destruct (sw3 s a b c e) as [?t ?s2] eqn:W; apply sw3_eat in W; [|lia];
    destruct W as [[-> ->]|[[-> W]|[-> W]]]; op_leaf
  | |- context[sw4 ?s ?a ?b ?c ?e ?g] =>
    let W := fresh "W" in destruct (sw4 s a b c e g) as [?t ?s2] eqn:W; apply sw4_eat in W; [|lia];
    destruct W as [[-> ->]|[[-> W]|[[-> W]|[-> W]]]]; op_leaf
  end.

Lemma lex_punct_post cm st s : postM cm s (lex_punct XGo cm st s).
Proof.
  unfold lex_punct. cbv zeta. cbn [is_go is_xgo is_tpl negb andb np_reset].
  destruct (cur s =? -1) eqn:EOF.
  - assert (R : rest s = []) by (apply cur_neg_nil; lia).
    assert (E : eat [] s (nxt s)).
    { split; [rewrite nxt_rest, R; destruct (snd _); reflexivity|]. rewrite nxt_off, R. unfold zlen. cbn. lia. }
    destruct (semi st).
    + destruct E as [ER EO]. cbn [app] in ER. rewrite zlen_nil in EO. apply post_emit_nl_empty; [symmetry; exact ER|lia].
    + unfold postM, emit, post. cbn [sc unit tpos tend ttok nlpos]. exists []. cbn [app].
      split; [exact E|]. split; [reflexivity|]. split; [destruct E; rewrite zlen_nil in *; lia|].
      split; [unfold lit_ok; cbn [ttok tlit]; auto|]. split; [reflexivity|intros _; exact R].
  - assert (C : 0 <= cur s) by (destruct (rest s) eqn:RR; [rewrite (cur_nil s RR) in EOF; lia|apply cur_nonneg; congruence]).
    assert (S1 : sadv s (nxt s)) by (apply sadv_nxt_cur, C).
    destruct (cur s =? 10) eqn:C10.
    { cur_eat C10. unfold postM, emit_nl, post. cbn [sc unit tpos tend ttok nlpos]. exists [10%N]. cbn [app].
      split; [exact E|]. split; [reflexivity|]. split; [destruct E; rewrite zlen_cons, zlen_nil in *; lia|].
      split; [unfold lit_ok; cbn [ttok tlit]; auto|]. split; [reflexivity|discriminate]. }
    destruct (cur s =? 34) eqn:C34.
    { set (s2 := scan_string _ _ _). assert (S2 : sadv s s2) by (eapply sadv_adv_trans; [exact S1|apply scan_string_adv]).
      destruct (eat_slice_ne _ _ S2) as [E NE]. apply (post_emit cm s (slice s s2)); [exact E| |discriminate].
      unfold lit_ok; cbn [ttok tlit]; auto. }
    destruct (cur s =? 39) eqn:C39.
    { set (s2 := scan_rune _ _ _ _ _). assert (S2 : sadv s s2) by (eapply sadv_adv_trans; [exact S1|apply scan_rune_adv]).
      destruct (eat_slice_ne _ _ S2) as [E NE]. apply (post_emit cm s (slice s s2)); [exact E| |discriminate].
      unfold lit_ok; cbn [ttok tlit]; auto. }
    destruct (cur s =? 96) eqn:C96.
    { set (s2 := scan_raw _ _ _). assert (S2 : sadv s s2) by (eapply sadv_adv_trans; [exact S1|apply scan_raw_adv]).
      destruct (eat_slice_ne _ _ S2) as [E NE]. apply (post_emit cm s (slice s s2)); [exact E| |discriminate].
      unfold lit_ok; cbn [ttok tlit]. split; [exact NE|]. destruct (has_cr _); auto. }
    destruct (cur s =? 58) eqn:C58. { cur_eat C58. sw_leaf. }
    destruct (cur s =? 46) eqn:C46.
    { cur_eat C46. destruct ((cur (nxt s) =? 46) && (peek (nxt s) =? 46)%N) eqn:EL; [|op_leaf].
      apply andb_prop in EL as [EL1 EL2]. cur_eat EL1.
      assert (EL3 : (cur (nxt (nxt s)) =? 46) = true) by (apply Z.eqb_eq, peek_ascii; lia). cur_eat EL3. op_leaf. }
    destruct (cur s =? 44) eqn:C44. { cur_eat C44. op_leaf. }
    destruct (cur s =? 59) eqn:C59.
    { cur_eat C59. apply (post_emit cm s [59%N]); [exact E| |discriminate]. unfold lit_ok; cbn [ttok tlit]; auto. }
    destruct (cur s =? 40) eqn:C40. { cur_eat C40. op_leaf. }
    destruct (cur s =? 41) eqn:C41. { cur_eat C41. op_leaf. }
    destruct (cur s =? 91) eqn:C91. { cur_eat C91. op_leaf. }
    destruct (cur s =? 93) eqn:C93. { cur_eat C93. op_leaf. }
    destruct (cur s =? 123) eqn:C123. { cur_eat C123. op_leaf. }
    destruct (cur s =? 125) eqn:C125. { cur_eat C125. op_leaf. }
    destruct (cur s =? 43) eqn:C43. { cur_eat C43. sw_leaf. }
    destruct (cur s =? 45) eqn:C45.
    { cur_eat C45. destruct (cur (nxt s) =? 62) eqn:C62; [cur_eat C62; op_leaf|sw_leaf]. }
    destruct (cur s =? 42) eqn:C42. { cur_eat C42. sw_leaf. }
    destruct (cur s =? 35) eqn:C35. { apply lex_sharp_post, C. }
    destruct (cur s =? 47) eqn:C47.
    { destruct ((cur (nxt s) =? 47) || (cur (nxt s) =? 42)); [apply lex_slash_comment_post, C|]. cur_eat C47. sw_leaf. }
    destruct (cur s =? 37) eqn:C37. { cur_eat C37. sw_leaf. }
    destruct (cur s =? 94) eqn:C94. { cur_eat C94. sw_leaf. }
    destruct (cur s =? 60) eqn:C60.
    { cur_eat C60. destruct (cur (nxt s) =? 45) eqn:D45; [cur_eat D45; op_leaf|].
      destruct (cur (nxt s) =? 62) eqn:D62; [cur_eat D62; op_leaf|sw_leaf]. }
    destruct (cur s =? 62) eqn:C62. { cur_eat C62. sw_leaf. }
    destruct (cur s =? 61) eqn:C61. { cur_eat C61. sw_leaf. }
    destruct (cur s =? 33) eqn:C33. { cur_eat C33. sw_leaf. }
    destruct (cur s =? 38) eqn:C38.
    { cur_eat C38. destruct (cur (nxt s) =? 94) eqn:D94; [cur_eat D94; sw_leaf|sw_leaf]. }
    destruct (cur s =? 124) eqn:C124. { cur_eat C124. sw_leaf. }
    destruct (cur s =? 63) eqn:C63. { cur_eat C63. op_leaf. }
    destruct (cur s =? 36) eqn:C36. { cur_eat C36. op_leaf. }
    (* ILLEGAL: one character *)
    cbn [andb].
    set (s2 := if cur s =? bom then nxt s else err (nxt s) (off s) E_ILLEGAL).
    assert (R2 : rest s2 = rest (nxt s) /\ off s2 = off (nxt s)) by (subst s2; destruct (cur s =? bom); split; reflexivity).
    destruct R2 as [R2 O2].
    destruct (eat_slice_ne _ _ S1) as [E NE].
    apply (post_emit cm s (slice s (nxt s))); [apply (eat_same _ s (nxt s)); assumption| |discriminate].
    unfold lit_ok; cbn [ttok tlit]. split; [exact NE|].
    destruct E as [_ OE]. rewrite nxt_off in OE. pose proof (decode_w_le4 (rest s)) as W4. clear - OE W4. lia.
Qed.

Lemma lex_post cm st s : postM cm s (lex ul ud XGo cm st s).
Proof.
  unfold lex. destruct (is_letter ul (cur s)) eqn:L; [apply lex_word_post, L|].
  destruct (is_decimal (cur s) || ((cur s =? 46) && is_decimal_b (peek s))) eqn:N; [|apply lex_punct_post].
  apply lex_number_post. destruct (is_decimal (cur s)); [left; reflexivity|right; lia].
Qed.

(* ---- from one step to the whole stream ---- *)
Lemma sub_app3 (a b c : str) : sub (a ++ b ++ c) (zlen a) (zlen a + zlen b) = b.
Proof.
  unfold sub, zlen. rewrite Nat2Z.id. replace (Z.to_nat (Z.of_nat (length a) + Z.of_nat (length b) - Z.of_nat (length a))) with (length b) by lia.
  rewrite skipn_app, skipn_all, Nat.sub_diag. cbn [skipn app]. rewrite firstn_app, Nat.sub_diag, firstn_all. cbn [firstn]. apply app_nil_r.
Qed.
Lemma sub_empty src a : sub src a a = [].
Proof. unfold sub. rewrite Z.sub_diag. reflexivity. Qed.

(* the whole source is: consumed text, then the pending unit, then what is left *)
Definition inv (src : str) (st : St) : Prop :=
  exists pre, src = pre ++ unit st ++ rest (sc st) /\ off (sc st) = zlen pre + zlen (unit st).
(* the end of the text already turned into tokens *)
Definition front (st : St) : Z := off (sc st) - zlen (unit st).

Lemma step_spec src cm st o : inv src st -> step ul ud XGo cm st = Ok o ->
  match o with
  | Emit t st' =>
      inv src st' /\ front st <= tpos t /\ tpos t <= tend t /\ tend t = front st' /\ tend t <= zlen src
      /\ blank_run (sub src (front st) (tpos t)) /\ lit_ok XGo t (sub src (tpos t) (tend t))
      /\ (ttok t = T_EOF -> tpos t = zlen src)
  | Again st' => inv src st' /\ front st <= front st' /\ cm = false
  end.
Proof.
  intros (pre & SRC & OFF). unfold step. cbn [is_go is_xgo andb]. unfold front.
  destruct (unit st) as [|b u] eqn:U.
  - (* no unit pending: skip blanks, then lex *)
    destruct (skip_ws_blank (S (length (rest (sc st)))) (semi st) (sc st)) as (g & [RG OG] & BG).
    set (s := skip_ws _ _ _) in *.
    pose proof (lex_post cm st s) as P. intros E. rewrite E in P. unfold postM, post in P.
    cbn [app] in SRC. rewrite zlen_nil in *.
    destruct o as [t st'|st'].
    + destruct P as (body & [RB OB] & TP & TE & LK & NL & EOFC).
      assert (SRC' : src = (pre ++ g ++ body) ++ unit st' ++ rest (sc st')).
      { rewrite SRC, RG, RB. rewrite <- !app_assoc. reflexivity. }
      assert (SRC2 : src = pre ++ g ++ (body ++ unit st' ++ rest (sc st'))).
      { rewrite SRC'. rewrite <- !app_assoc. reflexivity. }
      rewrite zlen_app in OB.
      split; [exists (pre ++ g ++ body); split; [exact SRC'|rewrite !zlen_app; lia]|].
      pose proof (zlen_nonneg g). pose proof (zlen_nonneg body). pose proof (zlen_nonneg (unit st')). pose proof (zlen_nonneg (rest (sc st'))).
      split; [lia|]. split; [lia|]. split; [lia|].
      split; [rewrite SRC'; rewrite !zlen_app; lia|].
      split; [|split].
      * replace (off (sc st) - 0) with (zlen pre) by lia. replace (tpos t) with (zlen pre + zlen g) by lia.
        rewrite SRC2. rewrite sub_app3. exact BG.
      * replace (tpos t) with (zlen (pre ++ g)) by (rewrite zlen_app; lia).
        replace (tend t) with (zlen (pre ++ g) + zlen body) by (rewrite zlen_app; lia).
        replace src with ((pre ++ g) ++ body ++ (unit st' ++ rest (sc st'))) by (rewrite SRC2, <- !app_assoc; reflexivity).
        rewrite sub_app3. exact LK.
      * intros T. specialize (EOFC T). rewrite SRC, RG, EOFC, ?zlen_app, ?(@zlen_nil N). lia.
    + destruct P as (A & UN & CM & NL). destruct (adv_slice _ _ A) as [RA LA].
      split; [|split; [|exact CM]].
      * exists (pre ++ g ++ slice s (sc st')). rewrite UN. cbn [app]. split.
        -- rewrite SRC, RG, RA, <- !app_assoc. reflexivity.
        -- rewrite ?zlen_app, ?(@zlen_nil N). lia.
      * rewrite UN, ?(@zlen_nil N). pose proof (zlen_nonneg g). pose proof (adv_off _ _ A). lia.
  - (* a unit is pending: it is the text right before the current offset *)
    intros E. inversion E; subst o. clear E. cbn [tpos tend ttok tlit sc unit].
    assert (SRC' : src = (pre ++ b :: u) ++ [] ++ rest (sc st)) by (rewrite SRC, <- app_assoc; reflexivity).
    pose proof (@zlen_nil N) as ZN.
    split; [exists (pre ++ b :: u); cbn [sc unit]; split; [exact SRC'|rewrite zlen_app; lia]|].
    pose proof (zlen_nonneg (b :: u)). pose proof (zlen_nonneg (rest (sc st))).
    split; [lia|]. split; [lia|]. split; [lia|].
    split; [rewrite SRC, !zlen_app; lia|]. split; [|split].
    + rewrite sub_empty. constructor.
    + replace (off (sc st) - zlen (b :: u)) with (zlen pre) by lia.
      replace (off (sc st)) with (zlen pre + zlen (b :: u)) by lia. rewrite SRC, sub_app3.
      unfold lit_ok. cbn [ttok tlit]. split; [reflexivity|discriminate].
    + discriminate.
Qed.

Lemma chain_weaken src f f' l : f <= f' -> chain XGo src false f' l -> chain XGo src false f l.
Proof.
  intros L C. inversion C; subst; [constructor|]. constructor; try assumption; [lia|discriminate].
Qed.

(* the stream ends with the EOF token, placed at the end of the source, and has no other EOF *)
Definition ends_eof (src : str) (toks : list Tok) : Prop :=
  exists ts e, toks = ts ++ [e] /\ ttok e = T_EOF /\ tpos e = zlen src /\ Forall (fun t => ttok t <> T_EOF) ts.

Lemma scan_all_chain src cm fuel st acc toks errs :
  inv src st -> scan_all ul ud XGo fuel cm st acc = Ok (toks, errs) ->
  exists new, toks = rev acc ++ new /\ chain XGo src cm (front st) new /\ ends_eof src new.
Proof.
  revert st acc toks errs. induction fuel as [|f IH]; intros st acc toks errs I; cbn [scan_all]; [discriminate|].
  destruct (step ul ud XGo cm st) as [[t st'|st']| |] eqn:E; try discriminate.
  - pose proof (step_spec src cm st _ I E) as (I' & F1 & F2 & F3 & F4 & BL & LK & EO).
    destruct (ttok t) eqn:T;
      try (intros H; destruct (IH _ _ _ _ I' H) as (new & -> & C & (ts & e & -> & TE & PE & FA));
           exists (t :: ts ++ [e]); split; [cbn [rev]; rewrite <- app_assoc; reflexivity|];
           split; [constructor; try assumption; [intros _; exact BL|rewrite F3; exact C]|];
           exists (t :: ts), e; split; [reflexivity|]; split; [exact TE|]; split; [exact PE|]; constructor; [congruence|exact FA]).
    (* EOF *)
    intros H; inversion H; subst. exists [t]. split; [reflexivity|]. split.
    + constructor; try assumption; [intros _; exact BL|constructor].
    + exists [], t. split; [reflexivity|]. split; [exact T|]. split; [apply EO; reflexivity|constructor].
  - pose proof (step_spec src cm st _ I E) as (I' & F1 & CM). subst cm.
    intros H. destruct (IH _ _ _ _ I' H) as (new & -> & C & EE). exists new. split; [reflexivity|].
    split; [eapply chain_weaken; eassumption|exact EE].
Qed.

(* Init: a leading byte order mark is skipped *)
Lemma decode_bom r : fst (decode r) = bom -> exists t, r = 239%N :: 187%N :: 191%N :: t /\ snd (decode r) = 3%nat.
Proof.
  destruct r as [|b0 t]; cbn [decode]; [cbn; unfold bom; lia|]. unfold contb, RuneError, bom.
  repeat match goal with
  | |- context[if ?c then _ else _] => destruct c eqn:?
  | |- context[match ?l with [] => _ | _ :: _ => _ end] => destruct l
  end; cbn [fst snd]; intros E; try lia.
  eexists. split; [|reflexivity]. f_equal; [lia|]. f_equal; [lia|]. f_equal. lia.
Qed.
Lemma decode_not_bom r : fst (decode r) <> bom -> bom_len r = 0.
Proof.
  intros H. unfold bom_len. destruct r as [|b0 [|b1 [|b2 t]]]; try reflexivity.
  destruct ((b0 =? 239) && (b1 =? 187) && (b2 =? 191))%N eqn:B; [|reflexivity].
  exfalso. apply H. assert (b0 = 239%N /\ b1 = 187%N /\ b2 = 191%N) as (-> & -> & ->) by lia. reflexivity.
Qed.

Lemma init_inv src : inv src (init src) /\ front (init src) = bom_len src.
Proof.
  unfold init, inv, front. cbn [sc unit]. rewrite ?(@zlen_nil N).
  set (s0 := mkS 0 src (arrive 0 src) 0).
  destruct (cur s0 =? bom) eqn:B.
  - assert (fst (decode src) = bom) by (unfold cur in B; cbn [rest s0] in B; lia).
    destruct (decode_bom _ H) as (t & -> & W). split.
    + exists [239; 187; 191]%N. cbn [app]. rewrite nxt_rest, nxt_off. cbn [rest off s0]. rewrite W. cbn. split; reflexivity.
    + rewrite nxt_off. cbn [rest off s0]. rewrite W. reflexivity.
  - assert (fst (decode src) <> bom) by (unfold cur in B; cbn [rest s0] in B; lia).
    split; [exists []; cbn [app rest off s0]; rewrite ?(@zlen_nil N); split; reflexivity|].
    cbn [off s0]. rewrite (decode_not_bom _ H). reflexivity.
Qed.

Theorem run_chain cm src toks errs :
  run ul ud XGo cm src = Ok (toks, errs) -> chain XGo src cm (bom_len src) toks /\ ends_eof src toks.
Proof.
  unfold run. intros H. destruct (init_inv src) as [I F].
  destruct (scan_all_chain src cm _ _ _ _ _ I H) as (new & -> & C & E). cbn [rev app]. rewrite <- F. auto.
Qed.
End Spec.
