From Coq Require Import List NArith ZArith Bool Lia.
Import ListNotations.
From V Require Import Base.Prelude Gen.Tokens Model.C14 Proofs.C14Tables Proofs.C14Unf Proofs.C14Aux.
Local Open Scope Z_scope.

Notation G := go_dialect.

Section Sim.
Variable xd : dialect.
Hypothesis Hx : d_xgo xd = true.
Hypothesis Hp : d_prec xd = xgo_Precedence.

Definition SimAt (f : nat) : Prop := forall st ts r rest,
  st_ok xd st -> P G f st ts = POk r rest -> follow_ok rest -> P xd f st ts = POk r rest.

Ltac gsimp H := cbn [d_xgo d_cmd go_dialect andb] in H.

Lemma sim_SExpr f i c : SimAt f -> forall ts r rest,
  st_ok xd (SExpr i c) -> P G (S f) (SExpr i c) ts = POk r rest -> follow_ok rest -> P xd (S f) (SExpr i c) ts = POk r rest.
Proof.
  intros IH ts r rest Hok H Hf. rewrite unf_SExpr in H |- *. rewrite Hx. cbn [andb].
  assert (Hok' : st_ok xd (SBinary 1 i true c)).
  { destruct Hok as (_ & Hc & _). repeat split; auto. simpl. lia. }
  destruct ts as [|t ts'].
  - apply IH; auto.
  - gsimp H.
    assert (HB : P G f (SBinary 1 i true c) (t :: ts') = POk r rest).
    { destruct (P G f (SBinary 1 i true c) (t :: ts')) as [r1 rr| | |] eqn:E; try discriminate.
      destruct r1; try exact H. destruct rr; exact H. }
    pose proof (binary_head _ _ _ _ _ _ _ _ _ _ HB) as Hs. apply operand_start_basic in Hs as [_ Hd].
    rewrite Hd. rewrite (IH _ _ _ _ Hok' HB Hf).
    destruct r as [x| |]; try reflexivity. destruct rest as [|t2 r2]; try reflexivity.
    simpl in Hf. apply cont_tok_false in Hf as (_ & _ & Hd2 & _). now rewrite Hd2.
Qed.

Lemma sim_SBinary f p i tu c : SimAt f -> forall ts r rest,
  st_ok xd (SBinary p i tu c) -> P G (S f) (SBinary p i tu c) ts = POk r rest -> follow_ok rest ->
  P xd (S f) (SBinary p i tu c) ts = POk r rest.
Proof.
  intros IH ts r rest Hok H Hf. rewrite unf_SBinary in H |- *.
  destruct Hok as (Hp1 & Hc & _). simpl in Hp1.
  assert (HokU : st_ok xd (SUnary i tu c)) by (repeat split; auto).
  assert (HokL : forall x, st_ok xd (SBinLoop x p i)) by (intros; repeat split; auto).
  destruct (P G f (SUnary i tu c) ts) as [r1 rr| | |] eqn:E; try discriminate.
  destruct r1 as [x|l e|l].
  - assert (Hfr : follow_ok rr) by (eapply binloop_follow; eauto).
    rewrite (IH _ _ _ _ HokU E Hfr). apply IH; auto.
  - injection H as <- <-. now rewrite (IH _ _ _ _ HokU E Hf).
  - injection H as <- <-. now rewrite (IH _ _ _ _ HokU E Hf).
Qed.

Lemma not_arrow_ops op gp : go_Precedence op = Ok gp -> 1 <= gp -> (op =? xgo_SRARROW) || (op =? xgo_BIDIARROW) = false.
Proof.
  intros Eg Hge.
  destruct (Z.eqb_spec op xgo_SRARROW) as [E|_]; [rewrite E in Eg; vm_compute in Eg; injection Eg as <-; lia|].
  destruct (Z.eqb_spec op xgo_BIDIARROW) as [E|_]; [rewrite E in Eg; vm_compute in Eg; injection Eg as <-; lia|].
  reflexivity.
Qed.

Lemma op_of_not_arrow i t : cont_tok t = false -> (op_of i t =? xgo_SRARROW) || (op_of i t =? xgo_BIDIARROW) = false.
Proof.
  intros Hc. apply cont_tok_false in Hc as (_ & _ & _ & H1 & H2). unfold op_of, is in *.
  destruct (i && (tcode t =? xgo_ASSIGN)); [reflexivity|]. now rewrite H1, H2.
Qed.

Lemma sim_SBinLoop f x p i : SimAt f -> forall ts r rest,
  st_ok xd (SBinLoop x p i) -> P G (S f) (SBinLoop x p i) ts = POk r rest -> follow_ok rest ->
  P xd (S f) (SBinLoop x p i) ts = POk r rest.
Proof.
  intros IH ts r rest Hok H Hf. rewrite unf_SBinLoop' in H |- *.
  destruct Hok as (Hp1 & _ & _). simpl in Hp1.
  destruct ts as [|t ts']; [exact H|].
  rewrite Hp. change (d_prec G) with go_Precedence in H.
  destruct (go_prec_total (op_of i t)) as [gp [Eg Hr]]. rewrite Eg in H. rewrite prec_agree.
  destruct (Z.ltb gp p) eqn:El.
  - injection H as <- <-. simpl in Hf. rewrite (op_of_not_arrow i t Hf). cbv beta iota. rewrite Eg. cbv beta iota. rewrite El. reflexivity.
  - destruct (negb (tcode t =? op_of i t)) eqn:En; [discriminate|].
    rewrite (not_arrow_ops _ _ Eg) by lia. cbv beta iota. rewrite Eg. cbv beta iota. rewrite El.
    assert (HokB : st_ok xd (SBinary (gp + 1) i false false)) by (repeat split; simpl; auto; lia).
    assert (HokL : forall y, st_ok xd (SBinLoop y p i)) by (intros; repeat split; auto).
    destruct (P G f (SBinary (gp + 1) i false false) ts') as [r1 rr| | |] eqn:E; try discriminate.
    destruct r1 as [y|l e|l].
    + assert (Hfr : follow_ok rr) by (eapply binloop_follow; eauto).
      rewrite (IH _ _ _ _ HokB E Hfr). apply IH; auto.
    + injection H as <- <-. now rewrite (IH _ _ _ _ HokB E Hf).
    + injection H as <- <-. now rewrite (IH _ _ _ _ HokB E Hf).
Qed.

Lemma rparen_not_cont t : is xgo_RPAREN t = true -> cont_tok t = false /\ is xgo_COMMA t = false /\ is xgo_ELLIPSIS t = false.
Proof. unfold cont_tok, is. intros H. apply Z.eqb_eq in H. rewrite H. vm_compute. repeat split; reflexivity. Qed.
Lemma rbrack_not_cont t : is xgo_RBRACK t = true -> cont_tok t = false.
Proof. unfold cont_tok, is. intros H. apply Z.eqb_eq in H. rewrite H. vm_compute. repeat split; reflexivity. Qed.
Lemma comma_not_cont t : is xgo_COMMA t = true -> cont_tok t = false.
Proof. unfold cont_tok, is. intros H. apply Z.eqb_eq in H. rewrite H. vm_compute. repeat split; reflexivity. Qed.
Lemma ellipsis_not_cont t : is xgo_ELLIPSIS t = true -> cont_tok t = false.
Proof. unfold cont_tok, is. intros H. apply Z.eqb_eq in H. rewrite H. vm_compute. repeat split; reflexivity. Qed.

Lemma sim_SUnary f i tu c : SimAt f -> forall ts r rest,
  st_ok xd (SUnary i tu c) -> P G (S f) (SUnary i tu c) ts = POk r rest -> follow_ok rest ->
  P xd (S f) (SUnary i tu c) ts = POk r rest.
Proof.
  intros IH ts r rest Hok H Hf. rewrite unf_SUnary in H |- *.
  destruct Hok as (_ & Hc & _).
  assert (HokP : forall x, st_ok xd (SPrimLoop x i c)) by (intros; repeat split; auto).
  destruct ts as [|t ts']; [discriminate|].
  destruct (code_in unary_ops t || is xgo_MUL t).
  { assert (HokU : st_ok xd (SUnary i false false)) by (repeat split; auto).
    destruct (P G f (SUnary i false false) ts') as [r1 rr| | |] eqn:E; try discriminate.
    destruct r1; injection H as <- <-; now rewrite (IH _ _ _ _ HokU E Hf). }
  destruct (is xgo_IDENT t); [apply IH; auto|].
  destruct (is xgo_INT t); [apply IH; auto|].
  destruct (is xgo_LPAREN t).
  2:{ destruct (code_in unsup_operand t); discriminate. }
  destruct ts' as [|t1 ts'']; [discriminate|].
  rewrite Hx. gsimp H.
  assert (HokE : st_ok xd (SExpr true false)) by (repeat split; auto).
  destruct (P G f (SExpr true false) (t1 :: ts'')) as [r1 rr| | |] eqn:E; try discriminate.
  pose proof (expr_head _ _ _ _ _ _ _ _ E) as Hs. apply operand_start_basic in Hs as [Hrp _].
  rewrite Hrp, andb_false_r.
  destruct r1 as [x|l e|l]; [|destruct rr; discriminate|destruct rr; discriminate].
  destruct rr as [|t2 r2]; [discriminate|].
  destruct (is xgo_RPAREN t2) eqn:E2; [|discriminate].
  destruct (rparen_not_cont _ E2) as (Hnc & Hcm & Hel).
  rewrite (IH _ _ _ _ HokE E Hnc). rewrite Hcm, Hel, E2. cbn [orb]. rewrite andb_false_r.
  apply IH; auto.
Qed.

Lemma sim_SPrimLoop f x i c : SimAt f -> forall ts r rest,
  st_ok xd (SPrimLoop x i c) -> P G (S f) (SPrimLoop x i c) ts = POk r rest -> follow_ok rest ->
  P xd (S f) (SPrimLoop x i c) ts = POk r rest.
Proof.
  intros IH ts r rest Hok H Hf. rewrite unf_SPrimLoop in H |- *.
  destruct Hok as (_ & Hc & _).
  assert (HokP : forall y, st_ok xd (SPrimLoop y i c)) by (intros; repeat split; auto).
  assert (HokE : st_ok xd (SExpr true false)) by (repeat split; auto).
  assert (HokA : st_ok xd (SArgs false [])) by (repeat split; auto).
  destruct ts as [|t ts']; [exact H|].
  cbv zeta in *. gsimp H.
  assert (Hisc : d_cmd xd && c && is_cmd_head x && tblank t = false).
  { destruct Hc as [Hc|Hc]; simpl in Hc; rewrite Hc; [reflexivity|now rewrite andb_false_r]. }
  rewrite Hisc. rewrite Hx. cbn [andb].
  destruct (is xgo_PERIOD t).
  { destruct ts' as [|t2 r2]; [discriminate|]. destruct (is xgo_IDENT t2); [apply IH; auto|]. destruct (is xgo_LPAREN t2); discriminate. }
  destruct (is xgo_LBRACK t).
  { destruct ts' as [|t1 r1]; [discriminate|]. destruct (is xgo_COLON t1); [discriminate|].
    destruct (P G f (SExpr true false) (t1 :: r1)) as [q rr| | |] eqn:E; try discriminate.
    destruct q as [i0|l e|l]; [|destruct rr; discriminate|destruct rr; discriminate].
    destruct rr as [|t2 r2]; [discriminate|].
    destruct (is xgo_RBRACK t2) eqn:E2.
    - rewrite (IH _ _ _ _ HokE E (rbrack_not_cont _ E2)). rewrite E2. apply IH; auto.
    - destruct (is xgo_COMMA t2 || is xgo_COLON t2); discriminate. }
  destruct (is xgo_LPAREN t).
  { destruct (P G f (SArgs false []) ts') as [q rr| | |] eqn:E; try discriminate.
    destruct q as [e0|l e|l].
    - injection H as <- <-. now rewrite (IH _ _ _ _ HokA E Hf).
    - assert (Hfr : follow_ok rr) by (eapply primloop_follow; eauto).
      rewrite (IH _ _ _ _ HokA E Hfr). apply IH; auto.
    - injection H as <- <-. now rewrite (IH _ _ _ _ HokA E Hf). }
  destruct (is xgo_LBRACE t); [discriminate|].
  injection H as <- <-. simpl in Hf. apply cont_tok_false in Hf as (Hn & Hq & _). rewrite Hn, Hq. reflexivity.
Qed.

Lemma sim_SArgs f acc : SimAt f -> forall ts r rest,
  P G (S f) (SArgs false acc) ts = POk r rest -> follow_ok rest ->
  P xd (S f) (SArgs false acc) ts = POk r rest.
Proof.
  intros IH ts r rest H Hf. rewrite unf_SArgs in H |- *.
  assert (HokE : st_ok xd (SExpr true false)) by (repeat split; auto).
  assert (HokA : forall a, st_ok xd (SArgs false a)) by (intros; repeat split; auto).
  destruct ts as [|t ts']; [discriminate|]. cbn [negb andb] in *.
  destruct (is xgo_RPAREN t); [exact H|].
  destruct (P G f (SExpr true false) (t :: ts')) as [q r1| | |] eqn:E; try discriminate.
  destruct q as [e|l e|l]; try discriminate.
  assert (Hf1 : follow_ok r1).
  { destruct r1 as [|t1 r1']; [simpl; auto|]. simpl. destruct (cont_tok t1) eqn:Ec; auto. exfalso.
    destruct (cont_codes t1 Ec false) as (_ & _ & _ & _ & _ & _ & Hcm & Hrp & Hel & _).
    rewrite Hel, Hcm, Hrp in H. discriminate. }
  rewrite (IH _ _ _ _ HokE E Hf1).
  destruct (match r1 with
            | [] => (false, r1)
            | t1 :: r1' => if is xgo_ELLIPSIS t1 then (true, r1') else (false, r1)
            end) as [ell r2].
  destruct r2 as [|t2 r3]; [discriminate|].
  destruct (is xgo_COMMA t2).
  - destruct ell; [exact H|]. apply IH; auto.
  - exact H.
Qed.

Lemma sim_SExprList f i acc : SimAt f -> forall ts r rest,
  P G (S f) (SExprList i acc) ts = POk r rest -> follow_ok rest ->
  P xd (S f) (SExprList i acc) ts = POk r rest.
Proof.
  intros IH ts r rest H Hf. rewrite unf_SExprList in H |- *.
  assert (HokE : st_ok xd (SExpr i false)) by (repeat split; auto).
  assert (HokL : forall a, st_ok xd (SExprList i a)) by (intros; repeat split; auto).
  destruct (P G f (SExpr i false) ts) as [q r1| | |] eqn:E; try discriminate.
  destruct q as [e|l e|l]; try discriminate.
  destruct r1 as [|t r1'].
  - simpl in E. rewrite (IH _ _ _ _ HokE E I). exact H.
  - destruct (is xgo_COMMA t) eqn:Ec.
    + rewrite (IH _ _ _ _ HokE E (comma_not_cont _ Ec)). rewrite Ec. apply IH; auto.
    + injection H as <- <-. rewrite (IH _ _ _ _ HokE E Hf). now rewrite Ec.
Qed.

Lemma lhsmore_follow f acc r1 r0 rest : P G f (SLhsMore acc) r1 = POk r0 rest -> follow_ok rest -> follow_ok r1.
Proof.
  destruct f; [discriminate|]. rewrite unf_SLhsMore. destruct r1 as [|t r]; [simpl; auto|].
  intros H Hf. simpl. destruct (cont_tok t) eqn:Ec; auto. exfalso.
  destruct (cont_codes t Ec false) as (_ & _ & _ & _ & _ & _ & Hcm & _). rewrite Hcm in H.
  injection H as _ <-. simpl in Hf. congruence.
Qed.

Lemma sim_SLhsMore f acc : SimAt f -> forall ts r rest,
  P G (S f) (SLhsMore acc) ts = POk r rest -> follow_ok rest ->
  P xd (S f) (SLhsMore acc) ts = POk r rest.
Proof.
  intros IH ts r rest H Hf. rewrite unf_SLhsMore in H |- *.
  assert (HokB : st_ok xd (SBinary 1 false false false)) by (repeat split; simpl; auto; lia).
  assert (HokL : forall a, st_ok xd (SLhsMore a)) by (intros; repeat split; auto).
  destruct ts as [|t ts']; [exact H|].
  destruct (is xgo_COMMA t); [|exact H].
  destruct (P G f (SBinary 1 false false false) ts') as [q r1| | |] eqn:E; try discriminate.
  destruct q as [e|l e|l]; try discriminate.
  assert (Hf1 : follow_ok r1) by (eapply lhsmore_follow; eauto).
  rewrite (IH _ _ _ _ HokB E Hf1). apply IH; auto.
Qed.

(* the simulation: whenever Go's parser succeeds from a state and what follows is not a token on
   which XGo would go on, the XGo parser (with or without command calls, as long as the state does
   not allow them) makes the same steps and returns the same tree and the same rest *)
Theorem sim : forall f, SimAt f.
Proof.
  induction f as [|f IH]; intros st ts r rest Hok H Hf; [discriminate|].
  destruct st.
  - eapply sim_SExpr; eauto.
  - eapply sim_SBinary; eauto.
  - eapply sim_SBinLoop; eauto.
  - eapply sim_SUnary; eauto.
  - eapply sim_SPrimLoop; eauto.
  - destruct Hok as (_ & _ & ->). eapply sim_SArgs; eauto.
  - eapply sim_SExprList; eauto.
  - eapply sim_SLhsMore; eauto.
Qed.
End Sim.

(* ================================================================== the theorems *)
Lemma st_ok_expr xd i : st_ok xd (SExpr i false).
Proof. repeat split; auto. Qed.

(* xgo_parse_conservative: an expression that Go's parser accepts completely is parsed by the XGo
   parser to the same tree.  No hypothesis on the tokens is needed. *)
Theorem xgo_parse_conservative ts e :
  parse_expr go_dialect ts = Parsed e -> parse_expr xgo_dialect ts = Parsed e.
Proof.
  unfold parse_expr. intros H.
  destruct (P G (fuel_for ts) (SExpr true false) ts) as [r rest| | |] eqn:E; try discriminate.
  destruct r; try discriminate. destruct rest; try discriminate. injection H as <-.
  rewrite (sim xgo_dialect eq_refl eq_refl _ _ _ _ _ (st_ok_expr _ _) E I). reflexivity.
Qed.

(* := with a non-identifier on the left is left to go/parser's resolver; XGo's parser reports it *)
Definition define_ok (s : stmt) : Prop :=
  match s with SAssign tok lhs _ => tok = xgo_DEFINE -> forallb is_ident lhs = true | _ => True end.

Definition head_is_ident (ts : list token) : bool := match ts with t :: _ => is xgo_IDENT t | [] => false end.

Lemma stmt_conservative_gen xd ts s :
  d_xgo xd = true -> d_prec xd = xgo_Precedence -> (d_cmd xd = false \/ head_is_ident ts = false) ->
  parse_stmt go_dialect ts = Parsed s -> define_ok s -> parse_stmt xd ts = Parsed s.
Proof.
  intros Hx Hp Hcmd H Hdef. unfold parse_stmt in *. fold (head_is_ident ts) in *.
  set (fuel := fuel_for ts) in *. set (cmd := head_is_ident ts) in *.
  assert (Hok1 : st_ok xd (SBinary 1 false false cmd)).
  { split; [simpl; lia|split; [exact Hcmd|exact I]]. }
  destruct (P G fuel (SBinary 1 false false cmd) ts) as [q r1| | |] eqn:E1; try discriminate.
  destruct q as [x1|l e|l]; try discriminate.
  destruct (P G fuel (SLhsMore [x1]) r1) as [q r2| | |] eqn:E2; try discriminate.
  destruct q as [e0|l e|lhs]; try discriminate.
  assert (Hf2 : follow_ok r2).
  { destruct r2 as [|t r3]; [simpl; auto|]. simpl. destruct (cont_tok t) eqn:Ec; auto. exfalso.
    destruct (cont_codes t Ec false) as (_ & _ & _ & _ & _ & _ & _ & _ & _ & _ & Ha & Har & Hi & Hd).
    rewrite Ha, Har, Hi, Hd in H. destruct lhs as [|a [|b l]]; discriminate. }
  assert (Hf1 : follow_ok r1) by (eapply lhsmore_follow; eauto).
  rewrite (sim xd Hx Hp _ _ _ _ _ Hok1 E1 Hf1).
  assert (HokL : st_ok xd (SLhsMore [x1])) by (repeat split; auto).
  rewrite (sim xd Hx Hp _ _ _ _ _ HokL E2 Hf2).
  destruct r2 as [|t r3]; [exact H|].
  destruct (code_in assign_ops t).
  - assert (HokR : st_ok xd (SExprList true [])) by (repeat split; auto).
    destruct (P G fuel (SExprList true []) r3) as [q r4| | |] eqn:E3; try discriminate.
    destruct q as [e0|l e|rhs]; try discriminate. destruct r4; try discriminate.
    rewrite (sim xd Hx Hp _ _ _ _ _ HokR E3 I). cbn [d_xgo d_cmd go_dialect andb] in H. injection H as <-. rewrite Hx. cbn [andb].
    simpl in Hdef. destruct (is xgo_DEFINE t) eqn:Ed; [|reflexivity].
    unfold is in Ed. apply Z.eqb_eq in Ed. rewrite (Hdef Ed). reflexivity.
  - destruct lhs as [|x [|y l]]; try discriminate.
    destruct (is xgo_ARROW t).
    + destruct (P G fuel (SExpr true false) r3) as [q r4| | |] eqn:E3; try discriminate.
      destruct q as [v|l e|l]; try (destruct r4; discriminate).
      destruct r4 as [|t4 r5]; [|cbn [d_xgo d_cmd go_dialect andb] in H; discriminate].
      rewrite (sim xd Hx Hp _ _ _ _ _ (st_ok_expr _ _) E3 I). exact H.
    + exact H.
Qed.

(* every XGo extension except the command-call rule is conservative over Go's simple statements *)
Theorem stmt_conservative_nocmd ts s :
  parse_stmt go_dialect ts = Parsed s -> define_ok s -> parse_stmt xgo_nocmd_dialect ts = Parsed s.
Proof. intros. eapply stmt_conservative_gen; eauto. Qed.

(* the real XGo dialect is conservative on statements that do not start with an identifier
   (parseStmt switches allowCmd off for them) *)
Theorem stmt_conservative_nonident ts s :
  head_is_ident ts = false ->
  parse_stmt go_dialect ts = Parsed s -> define_ok s -> parse_stmt xgo_dialect ts = Parsed s.
Proof. intros. eapply stmt_conservative_gen; eauto. Qed.

(* ... and the command-call rule is NOT conservative:  f (x)   and   ch <-v *)
Definition tk (c : Z) (b : bool) := mkT c b.
Lemma stmt_cmd_refuted_call :
  let ts := [tk xgo_IDENT false; tk xgo_LPAREN true; tk xgo_IDENT false; tk xgo_RPAREN false] in
  parse_stmt go_dialect ts = Parsed (SExprStmt (ECall EIdent [EIdent] false)) /\
  parse_stmt xgo_dialect ts = Parsed (SExprStmt (ECmd EIdent [EParen EIdent] false)).
Proof. split; vm_compute; reflexivity. Qed.
Lemma stmt_cmd_refuted_send :
  let ts := [tk xgo_IDENT false; tk xgo_ARROW true; tk xgo_IDENT false] in
  parse_stmt go_dialect ts = Parsed (SSend EIdent EIdent) /\
  parse_stmt xgo_dialect ts = Parsed (SExprStmt (ECmd EIdent [EUnary xgo_ARROW EIdent] false)).
Proof. split; vm_compute; reflexivity. Qed.
Lemma stmt_cmd_refuted : exists ts s, parse_stmt go_dialect ts = Parsed s /\ define_ok s /\ parse_stmt xgo_dialect ts <> Parsed s.
Proof.
  exists [tk xgo_IDENT false; tk xgo_ARROW true; tk xgo_IDENT false], (SSend EIdent EIdent).
  split; [vm_compute; reflexivity|]. split; [exact I|]. vm_compute. discriminate.
Qed.
(* with the blank after the arrow as well (gofmt style) both agree *)
Lemma stmt_send_gofmt :
  let ts := [tk xgo_IDENT false; tk xgo_ARROW true; tk xgo_IDENT true] in
  parse_stmt go_dialect ts = Parsed (SSend EIdent EIdent) /\ parse_stmt xgo_dialect ts = Parsed (SSend EIdent EIdent).
Proof. split; vm_compute; reflexivity. Qed.
