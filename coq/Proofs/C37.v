(* C37 — proofs about the table interpreters of fromgo / togo (Model/C37.v). *)
From Coq Require Import List String ZArith NArith Bool Lia.
Import ListNotations.
From V Require Import Base.Prelude Base.AstTree Base.AstConv Model.C37.
Open Scope string_scope.
Open Scope list_scope.

(* ------------------------------------------------------------------ generic facts *)

Lemma assoc_In {A} k (l : list (string * A)) v : assoc k l = Some v -> In (k, v) l.
Proof.
  induction l as [|[k' v'] t IH]; cbn [assoc]; [discriminate|].
  destruct (String.eqb k k') eqn:E.
  - apply String.eqb_eq in E. subst. intros H; inversion H; subst. now left.
  - intros H. right. auto.
Qed.

Lemma mem_In x l : mem x l = true <-> In x l.
Proof.
  unfold mem. rewrite existsb_exists. split.
  - intros (y & Hy & E). apply String.eqb_eq in E. now subst.
  - intros H. exists x. split; auto. apply String.eqb_refl.
Qed.

Lemma nodupb_NoDup l : nodupb l = true -> NoDup l.
Proof.
  induction l as [|x t IH]; cbn [nodupb]; intros H; constructor.
  - apply andb_prop in H as [H _]. intros Hin. apply mem_In in Hin. rewrite Hin in H. discriminate.
  - apply andb_prop in H as [_ H]. auto.
Qed.

Lemma NoDup_assoc {A} (fs : list (string * A)) f v :
  NoDup (map fst fs) -> In (f, v) fs -> assoc f fs = Some v.
Proof.
  induction fs as [|[g x] t IH]; [intros _ []|].
  cbn [map fst assoc]. intros ND [E|Hin].
  - inversion E; subst. now rewrite String.eqb_refl.
  - inversion ND; subst. destruct (String.eqb f g) eqn:E.
    + apply String.eqb_eq in E. subst. exfalso. apply H1. apply in_map_iff. exists (g, v). auto.
    + auto.
Qed.

Lemma assoc_map_fields {A B} (h : string -> A -> B) F (sf : list (string * A)) :
  assoc F (map (fun fc => (fst fc, h (fst fc) (snd fc))) sf) =
  match assoc F sf with Some c => Some (h F c) | None => None end.
Proof.
  induction sf as [|[g c] t IH]; [reflexivity|]. cbn [map assoc fst snd].
  destruct (String.eqb F g) eqn:E; [|exact IH]. apply String.eqb_eq in E. now subst.
Qed.

Lemma assoc_mem {A} F (sf : list (string * A)) : mem F (map fst sf) = true -> exists c, assoc F sf = Some c.
Proof.
  intros H. apply mem_In in H. induction sf as [|[g c] t IH]; [destruct H|].
  cbn [assoc]. destruct (String.eqb F g) eqn:E; [eauto|].
  destruct H as [H|H]; [cbn in H; subst; rewrite String.eqb_refl in E; discriminate|auto].
Qed.

Lemma paired_In P a b : paired P a b = true -> In (a, b) P.
Proof.
  unfold paired. rewrite existsb_exists. intros ([x y] & Hin & E). cbn [fst snd] in E.
  apply andb_prop in E as [E1 E2]. apply String.eqb_eq in E1, E2. now subst.
Qed.

(* ------------------------------------------------------------------ mapM *)

Lemma mapM_length {A B} (f : A -> M B) l r : mapM f l = Ok r -> List.length r = List.length l.
Proof.
  revert r. induction l as [|x t IH]; cbn [mapM]; intros r H; [inversion H; reflexivity|].
  destruct (f x) as [y| |]; try discriminate. cbn [bind] in H.
  destruct (mapM f t) as [r'| |]; try discriminate. cbn [bind] in H. inversion H; subst.
  cbn [List.length]. f_equal. auto.
Qed.

Lemma mapM_mono {A B} (f g : A -> M B) l r :
  (forall x y, In x l -> f x = Ok y -> g x = Ok y) -> mapM f l = Ok r -> mapM g l = Ok r.
Proof.
  revert r. induction l as [|x t IH]; cbn [mapM]; intros r Hfg H; [exact H|].
  destruct (f x) as [y| |] eqn:E; try discriminate. cbn [bind] in H.
  destruct (mapM f t) as [r'| |] eqn:E2; try discriminate. cbn [bind] in H. inversion H; subst.
  rewrite (Hfg x y (or_introl eq_refl) E). cbn [bind].
  rewrite (IH r'); auto. intros z w Hz. apply Hfg. now right.
Qed.

(* ------------------------------------------------------------------ fuel monotonicity *)

Lemma field_val_mono DS (rec rec' : string -> value -> M value) n c v :
  (forall g x y, rec g x = Ok y -> rec' g x = Ok y) ->
  field_val DS rec n c = Ok v -> field_val DS rec' n c = Ok v.
Proof.
  intros Hr. destruct c; cbn [field_val]; auto.
  - destruct (get src n); auto.
    destruct (mapM (rec fn) l) as [xs| |] eqn:E; try discriminate.
    rewrite (mapM_mono (rec fn) (rec' fn) l xs); auto.
  - destruct (get src n); auto. destruct (get tokf n); auto.
    destruct (mapM (spec_elem rec cases t) l) as [xs| |] eqn:E; try discriminate.
    rewrite (mapM_mono (spec_elem rec cases t) (spec_elem rec' cases t) l xs); auto.
    intros x y _. unfold spec_elem. destruct (find_case t cases) as [[[tk g] k]|]; auto.
    destruct x; auto. destruct (String.eqb (kind n0) k); auto.
Qed.

Lemma run_sets_mono DS (rec rec' : string -> value -> M value) n sets vs :
  (forall g x y, rec g x = Ok y -> rec' g x = Ok y) ->
  run_sets DS rec n sets = Ok vs -> run_sets DS rec' n sets = Ok vs.
Proof.
  intros Hr. revert vs. induction sets as [|[f c] t IH]; cbn [run_sets]; intros vs H; [exact H|].
  destruct (field_val DS rec n c) as [v| |] eqn:E; try discriminate. cbn [bind] in H.
  rewrite (field_val_mono _ _ _ _ _ _ Hr E). cbn [bind].
  destruct (run_sets DS rec n t) as [r| |] eqn:E2; try discriminate. cbn [bind] in H.
  rewrite (IH r eq_refl). exact H.
Qed.

Lemma run_build_mono DS (rec rec' : string -> value -> M value) b n x :
  (forall g x y, rec g x = Ok y -> rec' g x = Ok y) ->
  run_build DS rec b n = Ok x -> run_build DS rec' b n = Ok x.
Proof.
  intros Hr. unfold run_build.
  destruct (run_sets DS rec n (b_sets b)) as [vs| |] eqn:E; try discriminate.
  now rewrite (run_sets_mono _ _ _ _ _ _ Hr E).
Qed.

Lemma conv_mono T DS : forall f f' fn v x, f <= f' -> conv T DS f fn v = Ok x -> conv T DS f' fn v = Ok x.
Proof.
  induction f as [|f IH]; intros f' fn v x Hle H; [discriminate|].
  destruct f' as [|f']; [lia|]. cbn [conv] in *.
  assert (Hr : forall g x y, conv T DS f g x = Ok y -> conv T DS f' g x = Ok y)
    by (intros; eapply IH; eauto; lia).
  destruct (assoc fn T) as [cf|]; [|discriminate].
  destruct cf.
  - destruct v; auto. destruct (resolve T chain fn (kind n)); auto. eapply run_build_mono; eauto.
  - destruct v; auto. destruct (resolve T chain fn (kind n)); auto. eapply run_build_mono; eauto.
  - destruct v; auto. destruct (resolve T chain fn (kind n)); auto. eapply run_build_mono; eauto.
  - destruct v; auto. destruct l; auto.
    destruct (mapM (conv T DS f fn0) (v :: l)) as [xs| |] eqn:E; try discriminate.
    rewrite (mapM_mono (conv T DS f fn0) (conv T DS f' fn0) (v :: l) xs); auto.
Qed.

(* ------------------------------------------------------------------ unfolding equations *)

Definition strip_field (GS : structs) (k f : string) (x : value) : value :=
  match field_mode k f with
  | Keep => if atomic (class_of GS k f) then x else strip_v GS x
  | Drop => zero (class_of GS k f)
  | EmptyBlock => empty_node GS "BlockStmt"
  end.

Lemma strip_node GS i k fs :
  strip GS (Node i k fs) = Node 0 k (map (fun fx => (fst fx, strip_field GS k (fst fx) (snd fx))) fs).
Proof.
  cbn [strip]. f_equal. induction fs as [|[f x] t IH]; [reflexivity|].
  cbn [map fst snd]. rewrite <- IH. reflexivity.
Qed.

Lemma strip_node' GS n :
  strip GS n = Node 0 (kind n) (map (fun fx => (fst fx, strip_field GS (kind n) (fst fx) (snd fx))) (fields n)).
Proof. destruct n. apply strip_node. Qed.

Lemma strip_v_list GS l : strip_v GS (VList l) = VList (map (strip_v GS) l).
Proof. reflexivity. Qed.

Lemma canon_node i k fs : canon (Node i k fs) = Node i k (map (fun fx => (fst fx, canon_v (snd fx))) fs).
Proof.
  cbn [canon]. f_equal. induction fs as [|[f x] t IH]; [reflexivity|]. cbn [map fst snd]. now rewrite <- IH.
Qed.

Lemma canon_v_cons x l : canon_v (VList (x :: l)) = VList (map canon_v (x :: l)).
Proof. reflexivity. Qed.

Lemma go_ok_node GS i k fs :
  go_ok GS (Node i k fs) = names_ok GS (Node i k fs) && forallb (fun fx => go_ok_v GS (snd fx)) fs.
Proof.
  cbn [go_ok]. f_equal. induction fs as [|[f x] t IH]; [reflexivity|]. cbn [forallb snd]. now rewrite <- IH.
Qed.

Lemma go_ok_v_list GS l : go_ok_v GS (VList l) = forallb (go_ok_v GS) l.
Proof. cbn [go_ok_v]. induction l as [|x t IH]; [reflexivity|]. cbn [forallb]. now rewrite <- IH. Qed.

Lemma get_go_ok GS n f : go_ok GS n = true -> go_ok_v GS (get f n) = true.
Proof.
  destruct n as [i k fs]. rewrite go_ok_node. intros H. apply andb_prop in H as [_ H].
  unfold get. cbn [fields]. induction fs as [|[g x] t IH]; [reflexivity|].
  cbn [forallb snd] in H. apply andb_prop in H as [H1 H2]. cbn [assoc].
  destruct (String.eqb f g); auto.
Qed.

Lemma get_at n f x : NoDup (map fst (fields n)) -> In (f, x) (fields n) -> get f n = x.
Proof. intros ND Hin. unfold get. now rewrite (NoDup_assoc _ _ _ ND Hin). Qed.

Lemma names_eqb_eq a b : names_eqb a b = true -> a = b.
Proof.
  revert b. induction a as [|x a IH]; destruct b as [|y b]; cbn [names_eqb]; try discriminate; auto.
  intros H. apply andb_prop in H as [H1 H2]. apply String.eqb_eq in H1. subst. f_equal. auto.
Qed.

Lemma map_ext_names {A B C} (h1 : string -> A -> C) (h2 : string -> B -> C) :
  forall (l1 : list (string * A)) (l2 : list (string * B)),
    map fst l1 = map fst l2 ->
    (forall f c x, In (f, c) l1 -> In (f, x) l2 -> h1 f c = h2 f x) ->
    map (fun p => (fst p, h1 (fst p) (snd p))) l1 = map (fun p => (fst p, h2 (fst p) (snd p))) l2.
Proof.
  induction l1 as [|[f c] t IH]; intros [|[g x] t2] Hnm H; try discriminate; [reflexivity|].
  cbn [map fst snd] in *. inversion Hnm; subst g. f_equal.
  - f_equal. apply H; now left.
  - apply IH; auto. intros f' c' x' Ha Hb. apply H; now right.
Qed.


(* ------------------------------------------------------------------ shape of a conversion result *)

Lemma mk_node_eq DS k vs r :
  mk_node DS k vs = Ok r ->
  exists sf, assoc k DS = Some sf /\
             r = Node 0 k (map (fun fc => (fst fc, field_of vs (fst fc) (snd fc))) sf).
Proof.
  unfold mk_node. destruct (assoc k DS) as [sf|]; [|discriminate]. intros H; inversion H; subst. eauto.
Qed.

Lemma conv_node_shape T DS f fn m x :
  conv T DS f fn (VNode m) = Ok x ->
  exists f0 b, f = S f0 /\ resolve T chain fn (kind m) = Some b /\ run_build DS (conv T DS f0) b m = Ok x.
Proof.
  destruct f as [|f0]; [discriminate|]. cbn [conv].
  destruct (assoc fn T) as [cf|]; [|discriminate].
  destruct cf as [nc cs|ak nc bb|g|g e]; try discriminate;
    (destruct (resolve T chain fn (kind m)) as [b0|]; [|discriminate]; intros H; exists f0, b0; auto).
Qed.

Lemma run_build_kind DS rec b m x :
  run_build DS rec b m = Ok x -> exists r, x = VNode r /\ kind r = b_kind b.
Proof.
  unfold run_build. destruct (run_sets DS rec m (b_sets b)) as [vs| |]; try discriminate. cbn [bind].
  destruct (mk_node DS (b_kind b) vs) as [r| |] eqn:E; try discriminate. cbn [bind].
  intros H; inversion H; subst. exists r. split; auto.
  apply mk_node_eq in E as (sf & _ & ->). reflexivity.
Qed.

(* what run_sets computed for a named field *)
Lemma run_sets_assoc DS rec n sets vs :
  run_sets DS rec n sets = Ok vs ->
  forall F, match assoc F sets with
            | Some c => exists v, field_val DS rec n c = Ok v /\ assoc F vs = Some v
            | None => assoc F vs = None
            end.
Proof.
  revert vs. induction sets as [|[g c] t IH]; cbn [run_sets]; intros vs H F.
  - inversion H; subst. reflexivity.
  - destruct (field_val DS rec n c) as [v| |] eqn:E; try discriminate. cbn [bind] in H.
    destruct (run_sets DS rec n t) as [r| |] eqn:E2; try discriminate. cbn [bind] in H.
    inversion H; subst. cbn [assoc]. destruct (String.eqb F g); [eauto|]. exact (IH r eq_refl F).
Qed.

(* ------------------------------------------------------------------ the simulation *)

Section Sim.
  Context (P : pairs_t) (Tf Tt : ctable) (XS GS : structs).
  Context (HP : forallb (fun_ok P Tf Tt XS GS) P = true).

  Definition SimAt (f : nat) : Prop :=
    forall a b v x, paired P a b = true -> go_ok_v GS v = true -> conv Tf XS f a v = Ok x ->
      exists f' y, conv Tt GS f' b x = Ok y /\ canon_v y = canon_v (strip_v GS v).

  Lemma fun_ok_of a b : paired P a b = true -> fun_ok P Tf Tt XS GS (a, b) = true.
  Proof. intros H. apply paired_In in H. rewrite forallb_forall in HP. exact (HP _ H). Qed.

  (* element-wise simulation of a list, with one common fuel on the to-side *)
  Lemma sim_list f g g' : SimAt f -> paired P g g' = true -> forall l xs,
    forallb (go_ok_v GS) l = true -> mapM (conv Tf XS f g) l = Ok xs ->
    exists f' ys, mapM (conv Tt GS f' g') xs = Ok ys /\ map canon_v ys = map canon_v (map (strip_v GS) l).
  Proof.
    intros HS Hp. induction l as [|v t IH]; intros xs Hok H.
    - cbn [mapM] in H. inversion H; subst. exists 0, []. split; reflexivity.
    - cbn [mapM] in H. cbn [forallb] in Hok. apply andb_prop in Hok as [Hv Ht].
      destruct (conv Tf XS f g v) as [x| |] eqn:E; try discriminate. cbn [bind] in H.
      destruct (mapM (conv Tf XS f g) t) as [r| |] eqn:E2; try discriminate. cbn [bind] in H.
      inversion H; subst.
      destruct (HS _ _ _ _ Hp Hv E) as (f1 & y & C1 & Q1).
      destruct (IH r Ht eq_refl) as (f2 & ys & C2 & Q2).
      exists (Nat.max f1 f2), (y :: ys). split.
      + cbn [mapM]. rewrite (conv_mono _ _ f1 (Nat.max f1 f2) _ _ _ (Nat.le_max_l _ _) C1). cbn [bind].
        rewrite (mapM_mono (conv Tt GS f2 g') (conv Tt GS (Nat.max f1 f2) g') r ys); [reflexivity| |exact C2].
        intros z w _ Hz. eapply conv_mono; [apply Nat.le_max_r|exact Hz].
      + cbn [map]. now rewrite Q1, Q2.
  Qed.

  (* the same for the Specs loop *)
  Lemma sim_specs f t g g' K K' cs cs' : SimAt f -> paired P g g' = true ->
    (exists tk, find_case t cs = Some (tk, g, K)) -> (exists tk', find_case t cs' = Some (tk', g', K')) ->
    (forall bb, resolve Tf chain g K = Some bb -> b_kind bb = K') ->
    forall l xs, forallb (go_ok_v GS) l = true -> mapM (spec_elem (conv Tf XS f) cs t) l = Ok xs ->
    exists f' ys, mapM (spec_elem (conv Tt GS f') cs' t) xs = Ok ys /\
                  map canon_v ys = map canon_v (map (strip_v GS) l).
  Proof.
    intros HS Hp (tk & Fc) (tk' & Fc') HK. induction l as [|v r IH]; intros xs Hok H.
    - cbn [mapM] in H. inversion H; subst. exists 0, []. split; reflexivity.
    - cbn [mapM] in H. cbn [forallb] in Hok. apply andb_prop in Hok as [Hv Ht].
      destruct (spec_elem (conv Tf XS f) cs t v) as [x| |] eqn:E; try discriminate. cbn [bind] in H.
      destruct (mapM (spec_elem (conv Tf XS f) cs t) r) as [r'| |] eqn:E2; try discriminate. cbn [bind] in H.
      inversion H; subst.
      unfold spec_elem in E. rewrite Fc in E. destruct v as [| | | | | |m| |]; try discriminate.
      destruct (String.eqb (kind m) K) eqn:EK; [|discriminate]. apply String.eqb_eq in EK.
      destruct (conv_node_shape _ _ _ _ _ _ E) as (f0 & bb & -> & Rb & Rn).
      destruct (run_build_kind _ _ _ _ _ Rn) as (m' & -> & Km').
      rewrite EK in Rb. specialize (HK _ Rb).
      destruct (HS _ _ _ _ Hp Hv E) as (f1 & y & C1 & Q1).
      destruct (IH r' Ht eq_refl) as (f2 & ys & C2 & Q2).
      exists (Nat.max f1 f2), (y :: ys). split.
      + cbn [mapM]. unfold spec_elem at 1. rewrite Fc', Km', HK, String.eqb_refl.
        rewrite (conv_mono _ _ f1 (Nat.max f1 f2) _ _ _ (Nat.le_max_l _ _) C1). cbn [bind].
        rewrite (mapM_mono (spec_elem (conv Tt GS f2) cs' t) (spec_elem (conv Tt GS (Nat.max f1 f2)) cs' t) r' ys);
          [reflexivity| |exact C2].
        intros z w _. unfold spec_elem. destruct (find_case t cs') as [[[a b] c]|]; auto.
        destruct z; auto. destruct (String.eqb (kind n) c); auto.
        intros Hz. eapply conv_mono; [apply Nat.le_max_r|exact Hz].
      + cbn [map]. now rewrite Q1, Q2.
  Qed.

  (* ---- one node ---- *)
  Section Node.
    Context (f0 : nat) (HS : SimAt f0).
    Context (n : node) (Hn : go_ok GS n = true).
    Context (b1 : build) (vs : list (string * value)).
    Context (Hvs : run_sets XS (conv Tf XS f0) n (b_sets b1) = Ok vs).
    Context (xsf : list (string * fclass)) (Hxsf : assoc (b_kind b1) XS = Some xsf).

    Definition xnode : node :=
      Node 0 (b_kind b1)
           (map (fun fc => (fst fc, field_of vs (fst fc) (snd fc))) xsf).

    (* reading field F of the intermediate XGo node gives what the from-side computed for it *)
    Lemma get_xnode F c1 : mem F (map fst xsf) = true -> assoc F (b_sets b1) = Some c1 ->
      exists v1, field_val XS (conv Tf XS f0) n c1 = Ok v1 /\ get F xnode = v1.
    Proof.
      intros Hm Ha. pose proof (run_sets_assoc _ _ _ _ _ Hvs F) as R. rewrite Ha in R.
      destruct R as (v1 & Fv & Av). exists v1. split; auto.
      unfold get, xnode. cbn [fields]. rewrite assoc_map_fields.
      destruct (assoc_mem _ _ Hm) as (c & ->). unfold field_of. now rewrite Av.
    Qed.

    Lemma sim_field f cls c1 c2 F :
      src_field c2 = Some F -> mem F (map fst xsf) = true -> assoc F (b_sets b1) = Some c1 ->
      conv_pair_ok P Tf b1 xsf f cls c1 c2 = true ->
      exists f' y, field_val GS (conv Tt GS f') xnode c2 = Ok y /\
                   canon_v y = canon_v (if atomic cls then get f n else strip_v GS (get f n)).
    Proof.
      intros Hsrc Hm Ha Hok.
      destruct (get_xnode F c1 Hm Ha) as (v1 & Fv & Gx).
      pose proof (get_go_ok GS n f Hn) as Hgf.
      destruct c1 as [s|s|g s|g s|s tk cs|kk|], c2 as [s2|s2|g' s2|g' s2|s2 tk' cs'|kk2|]; try discriminate;
        cbn [src_field] in Hsrc; inversion Hsrc; subst s2; cbn [conv_pair_ok] in Hok.
      - (* copy *)
        apply andb_prop in Hok as [E Ha']. apply String.eqb_eq in E. subst s.
        cbn [field_val] in *. inversion Fv as [Ev]. exists 0, (get F xnode). rewrite Ha'.
        split; [reflexivity|]. now rewrite Gx, <- Ev.
      - (* cast *)
        apply andb_prop in Hok as [E Ha']. apply String.eqb_eq in E. subst s.
        cbn [field_val] in *. inversion Fv as [Ev]. exists 0, (get F xnode). rewrite Ha'.
        split; [reflexivity|]. now rewrite Gx, <- Ev.
      - (* call *)
        apply andb_prop in Hok as [Hok Hna]. apply andb_prop in Hok as [E Hp]. apply String.eqb_eq in E. subst s.
        apply negb_true_iff in Hna. rewrite Hna. cbn [field_val] in *.
        destruct (HS _ _ _ _ Hp Hgf Fv) as (f' & y & C & Q). exists f', y. rewrite Gx. auto.
      - (* inline map *)
        apply andb_prop in Hok as [Hok Hna]. apply andb_prop in Hok as [E Hp]. apply String.eqb_eq in E. subst s.
        apply negb_true_iff in Hna. rewrite Hna. cbn [field_val] in *. rewrite Gx.
        destruct (get f n) as [| | | | |  | | |l] eqn:Gf; try discriminate.
        + (* nil slice *) inversion Fv; subst v1. exists 0, (VList []). split; reflexivity.
        + destruct (mapM (conv Tf XS f0 g) l) as [xs| |] eqn:E; try discriminate. cbn [bind] in Fv.
          inversion Fv; subst v1. rewrite go_ok_v_list in Hgf.
          destruct (sim_list f0 g g' HS Hp l xs Hgf E) as (f' & ys & C & Q).
          exists f', (VList ys). rewrite C. cbn [bind]. split; auto.
          rewrite strip_v_list. pose proof (mapM_length _ _ _ E) as L1. pose proof (mapM_length _ _ _ C) as L2.
          destruct l as [|a l]; destruct xs as [|b xs]; try discriminate; destruct ys as [|c ys]; try discriminate.
          * reflexivity.
          * cbn [map] in *. rewrite !canon_v_cons. f_equal. exact Q.
      - (* specs *)
        apply andb_prop in Hok as [Hok Hsp]. apply andb_prop in Hok as [E Hna]. apply String.eqb_eq in E. subst s.
        apply negb_true_iff in Hna. rewrite Hna. cbn [field_val] in *. rewrite Gx.
        unfold specs_ok in Hsp. apply andb_prop in Hsp as [Hsp Hcs]. apply andb_prop in Hsp as [Htm Htk].
        (* the to-side reads the same token *)
        assert (Gt : get tk' xnode = get tk n).
        { destruct (assoc tk' (b_sets b1)) as [ct|] eqn:At; [|discriminate].
          destruct (get_xnode tk' ct Htm At) as (vt & Ft & Gt). rewrite Gt.
          destruct ct; try discriminate; apply String.eqb_eq in Htk; subst; cbn [field_val] in Ft; now inversion Ft. }
        rewrite Gt.
        destruct (get f n) as [| | | | |  | | |l] eqn:Gf; try discriminate.
        + destruct (get tk n); try discriminate. inversion Fv; subst v1. exists 0, (VList []). split; reflexivity.
        + destruct (get tk n) as [|t| | | | | | |]; try discriminate.
          destruct (mapM (spec_elem (conv Tf XS f0) cs t) l) as [xs| |] eqn:E; try discriminate. cbn [bind] in Fv.
          inversion Fv; subst v1. rewrite go_ok_v_list in Hgf.
          destruct l as [|a l].
          * cbn [mapM] in E. inversion E; subst xs. exists 0, (VList []). split; reflexivity.
          * (* some element succeeded: t has a case on the from-side *)
            assert (Hc : exists tks g K, find_case t cs = Some (tks, g, K)).
            { cbn [mapM] in E. unfold spec_elem at 1 in E.
              destruct (find_case t cs) as [[[tks g] K]|]; [eauto|discriminate]. }
            destruct Hc as (tks & g & K & Fc).
            pose proof Fc as Fc0. unfold find_case in Fc0. apply find_some in Fc0 as [Hin Hit]. cbn [fst] in Hit.
            rewrite forallb_forall in Hcs. specialize (Hcs _ Hin). cbn beta iota in Hcs.
            rewrite forallb_forall in Hcs.
            unfold in_toks in Hit. apply existsb_exists in Hit as (t0 & Ht0 & Et). apply Z.eqb_eq in Et. subst t0.
            specialize (Hcs t Ht0). rewrite Fc in Hcs.
            destruct (find_case t cs') as [[[tks' g'] K']|] eqn:Fc'; [|discriminate].
            apply andb_prop in Hcs as [Hcs HK]. apply andb_prop in Hcs as [_ Hp].
            assert (HK' : forall bb, resolve Tf chain g K = Some bb -> b_kind bb = K').
            { intros bb Rb. rewrite Rb in HK. now apply String.eqb_eq in HK. }
            destruct (sim_specs f0 t g g' K K' cs cs' HS Hp (ex_intro _ _ Fc) (ex_intro _ _ Fc') HK' _ _ Hgf E)
              as (f' & ys & C & Q).
            exists f', (VList ys). rewrite C. cbn [bind]. split; auto.
            rewrite strip_v_list. pose proof (mapM_length _ _ _ E) as L1. pose proof (mapM_length _ _ _ C) as L2.
            destruct xs as [|b xs]; try discriminate; destruct ys as [|c ys]; try discriminate.
            cbn [map] in *. rewrite !canon_v_cons. f_equal. exact Q.
    Qed.

    (* ---- the whole composite literal of the to-side ---- *)
    Context (gsf : list (string * fclass)) (Hgsf : assoc (kind n) GS = Some gsf).
    Context (b2 : build) (Hb : build_pair_ok P Tf XS GS (kind n) gsf b1 b2 = true).

    Lemma run_sets_exists : forall sets,
      (forall f2 c2, In (f2, c2) sets -> exists f' y, field_val GS (conv Tt GS f') xnode c2 = Ok y) ->
      exists f' ys, run_sets GS (conv Tt GS f') xnode sets = Ok ys.
    Proof.
      induction sets as [|[f2 c2] t IH]; intros H.
      - exists 0, []. reflexivity.
      - destruct (H f2 c2 (or_introl eq_refl)) as (fa & y & Ea).
        destruct IH as (fb & ys & Eb); [intros g c Hin; apply (H g c); now right|].
        exists (Nat.max fa fb), ((f2, y) :: ys). cbn [run_sets].
        rewrite (field_val_mono GS (conv Tt GS fa) (conv Tt GS (Nat.max fa fb)) _ _ _
                   (fun g x z Hz => conv_mono _ _ _ _ _ _ _ (Nat.le_max_l fa fb) Hz) Ea). cbn [bind].
        rewrite (run_sets_mono GS (conv Tt GS fb) (conv Tt GS (Nat.max fa fb)) _ _ _
                   (fun g x z Hz => conv_mono _ _ _ _ _ _ _ (Nat.le_max_r fa fb) Hz) Eb). reflexivity.
    Qed.

    Lemma build_facts :
      b_kind b2 = kind n /\ NoDup (map fst gsf) /\ NoDup (map fst (b_sets b2)) /\
      (forall f2 c2, In (f2, c2) (b_sets b2) -> mem f2 (map fst gsf) = true) /\
      (exists bs, assoc "BlockStmt" GS = Some bs) /\
      (forall f cls, In (f, cls) gsf ->
         match field_mode (kind n) f with
         | Keep => exists c2 F c1, assoc f (b_sets b2) = Some c2 /\ src_field c2 = Some F /\
                                   mem F (map fst xsf) = true /\ assoc F (b_sets b1) = Some c1 /\
                                   conv_pair_ok P Tf b1 xsf f cls c1 c2 = true
         | Drop => assoc f (b_sets b2) = None
         | EmptyBlock => assoc f (b_sets b2) = Some (CEmpty "BlockStmt")
         end).
    Proof.
      unfold build_pair_ok in Hb. rewrite Hxsf in Hb.
      apply andb_prop in Hb as [H Hf]. apply andb_prop in H as [H H4]. apply andb_prop in H as [H H3].
      apply andb_prop in H as [H1 H2]. apply String.eqb_eq in H1.
      destruct (assoc "BlockStmt" GS) as [bs|] eqn:Ebs; [|discriminate].
      repeat split; auto using nodupb_NoDup; eauto.
      - intros f2 c2 Hin. rewrite forallb_forall in H4. exact (H4 _ Hin).
      - intros f cls Hin. rewrite forallb_forall in Hf. specialize (Hf _ Hin). cbn [fst snd] in Hf.
        destruct (field_mode (kind n) f).
        + destruct (assoc f (b_sets b2)) as [c2|]; [|discriminate].
          destruct (src_field c2) as [F|] eqn:Es; [|discriminate]. apply andb_prop in Hf as [Hm Hf].
          destruct (assoc F (b_sets b1)) as [c1|] eqn:E1; [|discriminate].
          exists c2, F, c1. repeat split; auto.
        + destruct (assoc f (b_sets b2)); [discriminate|reflexivity].
        + destruct (assoc f (b_sets b2)) as [c2|]; [|discriminate]. destruct c2; try discriminate.
          apply String.eqb_eq in Hf. now subst.
    Qed.

    Lemma class_of_gsf f cls : NoDup (map fst gsf) -> In (f, cls) gsf -> class_of GS (kind n) f = cls.
    Proof. intros ND Hin. unfold class_of. rewrite Hgsf. now rewrite (NoDup_assoc _ _ _ ND Hin). Qed.

    (* every field the to-side sets evaluates, to the stripped value of the Go field *)
    Lemma sim_set f2 c2 : In (f2, c2) (b_sets b2) ->
      exists f' y, field_val GS (conv Tt GS f') xnode c2 = Ok y /\
                   canon_v y = canon_v (strip_field GS (kind n) f2 (get f2 n)).
    Proof.
      intros Hin. destruct build_facts as (Hk & ND1 & ND2 & Hsub & (bs & Hbs) & Hfields).
      destruct (assoc_mem _ _ (Hsub _ _ Hin)) as (cls & Acls).
      pose proof (Hfields _ _ (assoc_In _ _ _ Acls)) as Hf.
      pose proof (NoDup_assoc _ _ _ ND2 Hin) as A2.
      unfold strip_field. rewrite (class_of_gsf _ _ ND1 (assoc_In _ _ _ Acls)).
      destruct (field_mode (kind n) f2).
      - destruct Hf as (c2' & F & c1 & A2' & Hs & Hm & A1 & Hok). rewrite A2 in A2'. inversion A2'; subst c2'.
        eapply sim_field; eauto.
      - rewrite A2 in Hf. discriminate.
      - rewrite A2 in Hf. inversion Hf; subst c2. cbn [field_val]. unfold empty_node, mk_node. rewrite Hbs.
        cbn [bind]. exists 0. eexists. split; reflexivity.
    Qed.

    Lemma sim_build : names_ok GS n = true ->
      exists f' y, run_build GS (conv Tt GS f') b2 xnode = Ok y /\ canon_v y = canon_v (VNode (strip GS n)).
    Proof.
      intros Hnames. destruct build_facts as (Hk & ND1 & ND2 & Hsub & (bs & Hbs) & Hfields).
      unfold names_ok in Hnames. rewrite Hgsf in Hnames. apply names_eqb_eq in Hnames.
      destruct (run_sets_exists (b_sets b2)) as (f' & ys & Ers).
      { intros f2 c2 Hin. destruct (sim_set _ _ Hin) as (fa & y & E & _). eauto. }
      exists f'. unfold run_build. rewrite Ers. cbn [bind]. unfold mk_node. rewrite Hk, Hgsf. cbn [bind].
      eexists. split; [reflexivity|].
      rewrite strip_node'. cbn [canon_v]. f_equal.
      rewrite !canon_node. f_equal. rewrite !map_map. cbn [fst snd].
      apply (map_ext_names (fun f c => canon_v (field_of ys f c)) (fun f x => canon_v (strip_field GS (kind n) f x))); auto.
      intros f c x Hc Hx.
      assert (Gx : get f n = x) by (apply get_at; [now rewrite <- Hnames|exact Hx]).
      pose proof (Hfields _ _ Hc) as Hf. pose proof (run_sets_assoc _ _ _ _ _ Ers f) as R.
      unfold field_of.
      assert (Hset : forall c2, assoc f (b_sets b2) = Some c2 ->
                exists v, assoc f ys = Some v /\ canon_v v = canon_v (strip_field GS (kind n) f x)).
      { intros c2 A2. rewrite A2 in R. destruct R as (v & Fv & Av). exists v. split; auto.
        destruct (sim_set f c2 (assoc_In _ _ _ A2)) as (fa & y & Ea & Qa). rewrite Gx in Qa.
        (* both runs agree at the larger fuel *)
        pose proof (field_val_mono GS (conv Tt GS f') (conv Tt GS (Nat.max f' fa)) _ _ _
                      (fun g z w Hz => conv_mono _ _ _ _ _ _ _ (Nat.le_max_l f' fa) Hz) Fv) as M1.
        pose proof (field_val_mono GS (conv Tt GS fa) (conv Tt GS (Nat.max f' fa)) _ _ _
                      (fun g z w Hz => conv_mono _ _ _ _ _ _ _ (Nat.le_max_r f' fa) Hz) Ea) as M2.
        rewrite M1 in M2. inversion M2; subst. exact Qa. }
      destruct (field_mode (kind n) f) eqn:Efm.
      - destruct Hf as (c2 & F & c1 & A2 & _). destruct (Hset _ A2) as (v & -> & Q). exact Q.
      - rewrite Hf in R. rewrite R. unfold strip_field. rewrite Efm.
        now rewrite (class_of_gsf f c ND1 Hc).
      - destruct (Hset _ Hf) as (v & -> & Q). exact Q.
    Qed.
  End Node.

  Definition is_ml (c : cfun) : bool := match c with FMapList _ _ => true | _ => false end.

  Lemma conv_nonml T DS f fn c v : assoc fn T = Some c -> is_ml c = false ->
    conv T DS (S f) fn v =
    match v with
    | VNil => if nil_passes T chain fn then Ok VNil else Panic
    | VNode m => match resolve T chain fn (kind m) with
                 | Some b => run_build DS (conv T DS f) b m
                 | None => Panic
                 end
    | _ => Panic
    end.
  Proof. intros A Hm. cbn [conv]. rewrite A. destruct c; try discriminate; reflexivity. Qed.

  Lemma conv_ml T DS f fn g e v : assoc fn T = Some (FMapList g e) ->
    conv T DS (S f) fn v =
    match v with
    | VNil | VList [] => Ok (if e then VNil else VList [])
    | VList l => xs <- mapM (conv T DS f g) l ;; Ok (VList xs)
    | _ => Panic
    end.
  Proof. intros A. cbn [conv]. rewrite A. reflexivity. Qed.

  Theorem sim_all : forall f, SimAt f.
  Proof.
    induction f as [|f0 IH]; intros a b v x Hp Hok Hc; [discriminate|].
    pose proof (fun_ok_of a b Hp) as Hfo. unfold fun_ok in Hfo.
    destruct (assoc a Tf) as [ca|] eqn:Aa; [|cbn [conv] in Hc; rewrite Aa in Hc; discriminate].
    destruct (assoc b Tt) as [cb|] eqn:Ab; [|destruct ca; discriminate].
    destruct (is_ml ca) eqn:Ma.
    - (* a list function *)
      destruct ca as [| | |g e]; try discriminate. destruct cb as [| | |g' e']; try discriminate.
      rewrite (conv_ml _ _ _ _ _ _ _ Aa) in Hc.
      destruct v as [| | | | | | | |l]; try discriminate.
      + inversion Hc; subst x. exists 1. rewrite (conv_ml _ _ _ _ _ _ _ Ab).
        destruct e, e'; eexists; split; reflexivity.
      + destruct l as [|v0 l].
        * inversion Hc; subst x. exists 1. rewrite (conv_ml _ _ _ _ _ _ _ Ab).
          destruct e, e'; eexists; split; reflexivity.
        * destruct (mapM (conv Tf XS f0 g) (v0 :: l)) as [xs| |] eqn:E; try discriminate. cbn [bind] in Hc.
          inversion Hc; subst x. rewrite go_ok_v_list in Hok.
          destruct (sim_list f0 g g' IH Hfo _ _ Hok E) as (f' & ys & C & Q).
          exists (S f'). rewrite (conv_ml _ _ _ _ _ _ _ Ab).
          pose proof (mapM_length _ _ _ E) as L1. pose proof (mapM_length _ _ _ C) as L2.
          destruct xs as [|x0 xs]; try discriminate. destruct ys as [|y0 ys]; try discriminate.
          rewrite C. cbn [bind]. eexists. split; [reflexivity|].
          rewrite strip_v_list. cbn [map] in *. rewrite !canon_v_cons. f_equal. exact Q.
    - (* a node function *)
      assert (Mb : is_ml cb = false) by (destruct ca, cb; try discriminate; reflexivity).
      assert (Hfo' : implb (nil_passes Tf chain a) (nil_passes Tt chain b) &&
                     forallb (fun ksf =>
                                match resolve Tf chain a (fst ksf) with
                                | None => true
                                | Some b1 => match resolve Tt chain b (b_kind b1) with
                                             | None => false
                                             | Some b2 => build_pair_ok P Tf XS GS (fst ksf) (snd ksf) b1 b2
                                             end
                                end) GS = true)
        by (destruct ca, cb; try discriminate; exact Hfo).
      clear Hfo. apply andb_prop in Hfo' as [Hnil Hall].
      rewrite (conv_nonml _ _ _ _ _ _ Aa Ma) in Hc.
      destruct v as [| | | | | |m| |]; try discriminate.
      + (* nil *)
        destruct (nil_passes Tf chain a); [|discriminate]. inversion Hc; subst x.
        cbn [implb] in Hnil. exists 1. rewrite (conv_nonml _ _ _ _ _ _ Ab Mb), Hnil. eexists; split; reflexivity.
      + (* a node *)
        destruct (resolve Tf chain a (kind m)) as [b1|] eqn:R1; [|discriminate].
        change (go_ok GS m = true) in Hok.
        assert (Hnm : names_ok GS m = true).
        { destruct m as [i k fs]. rewrite go_ok_node in Hok. now apply andb_prop in Hok as [H _]. }
        pose proof Hnm as Hnm'. unfold names_ok in Hnm'.
        destruct (assoc (kind m) GS) as [gsf|] eqn:Ag; [|discriminate].
        rewrite forallb_forall in Hall. specialize (Hall _ (assoc_In _ _ _ Ag)). cbn [fst snd] in Hall.
        rewrite R1 in Hall.
        destruct (resolve Tt chain b (b_kind b1)) as [b2|] eqn:R2; [|discriminate].
        unfold run_build in Hc.
        destruct (run_sets XS (conv Tf XS f0) m (b_sets b1)) as [vs| |] eqn:Evs; try discriminate. cbn [bind] in Hc.
        destruct (mk_node XS (b_kind b1) vs) as [r| |] eqn:Emk; try discriminate. cbn [bind] in Hc.
        inversion Hc; subst x.
        destruct (mk_node_eq _ _ _ _ Emk) as (xsf & Axs & Er).
        destruct (sim_build f0 IH m Hok b1 vs Evs xsf Axs gsf Ag b2 Hall Hnm) as (f' & y & C & Q).
        exists (S f'), y. split; [|exact Q].
        rewrite (conv_nonml _ _ _ _ _ _ Ab Mb). subst r. cbn [kind]. rewrite R2. exact C.
  Qed.
End Sim.

(* ------------------------------------------------------------------ the round trip of a file *)

Theorem roundtrip_canon P Tf Tt XS GS :
  tables_preserve P Tf Tt XS GS = true ->
  forall fuel t x, go_ok GS t = true ->
    conv Tf XS fuel "ASTFile" (VNode t) = Ok x ->
    exists fuel' y, conv Tt GS fuel' "ASTFile" x = Ok y /\ canon_v y = VNode (canon (strip GS t)).
Proof.
  unfold tables_preserve. intros H fuel t x Hok Hc. apply andb_prop in H as [Hp HP].
  destruct (sim_all P Tf Tt XS GS HP fuel _ _ (VNode t) _ Hp Hok Hc) as (f' & y & C & Q). eauto.
Qed.
