(* C18 — proofs about the table interpreter of ast.Walk (Model/C18.v). *)
From Coq Require Import List String ZArith NArith Bool Lia Permutation.
Import ListNotations.
From V Require Import Base.Prelude Base.AstTree Model.C18.
Open Scope string_scope.
Open Scope list_scope.

(* ------------------------------------------------------------------ association lists *)

Lemma assoc_In {A} k (l : list (string * A)) v : assoc k l = Some v -> In (k, v) l.
Proof.
  induction l as [|[k' v'] t IH]; cbn [assoc]; [discriminate|].
  destruct (String.eqb k k') eqn:E.
  - apply String.eqb_eq in E. subst. intros H; inversion H; subst. now left.
  - intros H. right. auto.
Qed.

Lemma conforms_fields_assoc cv sf : forall fs f c,
  conforms_fields cv sf fs = true -> assoc f sf = Some c ->
  exists v, assoc f fs = Some v /\ cv c v = true.
Proof.
  induction sf as [|[g c'] sf IH]; intros fs f c H A; [discriminate|].
  destruct fs as [|[g' v'] fs]; [discriminate|].
  cbn [conforms_fields] in H. apply andb_prop in H as [H H3]. apply andb_prop in H as [H1 H2].
  apply String.eqb_eq in H1. subst g'. cbn [assoc] in *.
  destruct (String.eqb f g).
  - inversion A; subst. eauto.
  - eauto.
Qed.

Lemma conforms_fields_names cv sf : forall fs,
  conforms_fields cv sf fs = true -> map fst fs = map fst sf.
Proof.
  induction sf as [|[g c'] sf IH]; intros [|[g' v'] fs] H; try discriminate; [reflexivity|].
  cbn [conforms_fields] in H. apply andb_prop in H as [H H3]. apply andb_prop in H as [H1 H2].
  apply String.eqb_eq in H1. subst. cbn [map fst]. f_equal. auto.
Qed.

(* ------------------------------------------------------------------ shapes *)

Lemma nodes_of_ok l : forallb is_vnode l = true -> nodes_of l = Ok (flat_map value_nodes l).
Proof.
  induction l as [|x t IH]; cbn [forallb nodes_of flat_map]; [reflexivity|].
  intros H. apply andb_prop in H as [H1 H2]. destruct x; try discriminate.
  cbn [node_of bind]. rewrite (IH H2). reflexivity.
Qed.

Lemma rows_of_ok l :
  forallb (fun r => match r with VList row => forallb is_vnode row | _ => false end) l = true ->
  rows_of l = Ok (flat_map value_nodes l).
Proof.
  induction l as [|x t IH]; cbn [forallb rows_of flat_map]; [reflexivity|].
  intros H. apply andb_prop in H as [H1 H2]. destruct x; try discriminate.
  rewrite (nodes_of_ok _ H1). cbn [bind]. rewrite (IH H2). cbn [bind].
  now rewrite value_nodes_list.
Qed.

Lemma parts_of_ok l :
  forallb (fun x => match x with VNode _ | VStr _ => true | _ => false end) l = true ->
  parts_of l = flat_map value_nodes l.
Proof.
  induction l as [|x t IH]; cbn [forallb parts_of flat_map]; [reflexivity|].
  intros H. apply andb_prop in H as [H1 H2]. destruct x; try discriminate; cbn [value_nodes app]; now rewrite (IH H2).
Qed.

Lemma shape_children_ok h sh f g c v :
  shape_class_ok sh g c = true -> get f h = v -> conforms0 c v = true ->
  shape_children h sh f g = Ok (value_nodes v).
Proof.
  intros Hs Hg Hc. unfold shape_children. rewrite Hg.
  destruct sh, c; try discriminate; cbn [shape_class_ok conforms0] in *.
  - destruct v; try discriminate; [|reflexivity]. subst opt. cbn in Hs. now rewrite Hs.
  - destruct v; try discriminate. rewrite (nodes_of_ok _ Hc). now rewrite value_nodes_list.
  - destruct v; try discriminate. rewrite (rows_of_ok _ Hc). now rewrite value_nodes_list.
  - destruct v; try discriminate. rewrite (parts_of_ok _ Hc). now rewrite value_nodes_list.
  - destruct v; try discriminate. rewrite (nodes_of_ok _ Hc). now rewrite value_nodes_list.
Qed.

Lemma get_assoc f n v : assoc f (fields n) = Some v -> get f n = v.
Proof. unfold get. now intros ->. Qed.

Lemma conforms_not_rec Rs c v :
  match c with FRec _ _ => False | _ => True end -> conforms Rs c v = conforms0 c v.
Proof. destruct c; tauto. Qed.

Lemma shape_class_not_rec sh g c : shape_class_ok sh g c = true -> match c with FRec _ _ => False | _ => True end.
Proof. destruct sh, c; try discriminate; exact (fun _ => I). Qed.

Lemma opt_str_eqb_eq a b : opt_str_eqb a b = true -> a = b.
Proof. destruct a, b; try discriminate; auto. cbn. intros H. apply String.eqb_eq in H. now subst. Qed.

(* one step of the code yields exactly the nodes of the matching template item *)
Lemma step_children_ok Rs sf n s it :
  step_ok Rs sf s = true -> step_matches s it = true ->
  conforms_fields (conforms Rs) sf (fields n) = true ->
  step_children n s = Ok (item_nodes n it).
Proof.
  intros Hok Hm Hc. unfold step_matches in Hm.
  apply andb_prop in Hm as [Hm Hf]. apply andb_prop in Hm as [Hu Hv].
  apply opt_str_eqb_eq in Hu. apply String.eqb_eq in Hf.
  unfold step_children, item_nodes. rewrite <- Hu, <- Hf.
  destruct (flag_set (w_unless s) n); [reflexivity|].
  unfold step_ok in Hok.
  destruct (w_via s) as [[[rf rk] g]|], (t_via it) as [[rf' rk']|]; try discriminate.
  - apply andb_prop in Hv as [E1 E2]. apply String.eqb_eq in E1, E2. subst rf' rk'.
    destruct (assoc rf sf) as [c|] eqn:A; [|discriminate]. destruct c; try discriminate.
    apply andb_prop in Hok as [Hok H3]. apply andb_prop in Hok as [H1 H2].
    destruct (conforms_fields_assoc _ _ _ _ _ Hc A) as (v & Av & Cv).
    rewrite (get_assoc _ _ _ Av). cbn [conforms] in Cv.
    destruct v; try discriminate.
    + (* VOther *) reflexivity.
    + (* VNil *) rewrite Cv in H1. cbn in H1. now rewrite H1.
    + (* VRec *) apply andb_prop in Cv as [_ Cr].
      destruct (String.eqb (kind n0) rk) eqn:E; [|reflexivity].
      apply String.eqb_eq in E. rewrite E in Cr.
      destruct (assoc rk Rs) as [rsf|]; [|discriminate].
      destruct (assoc (w_field s) rsf) as [c|] eqn:A2; [|discriminate].
      destruct (conforms_fields_assoc _ _ _ _ _ Cr A2) as (v2 & Av2 & Cv2).
      rewrite (shape_children_ok _ _ _ _ _ _ H3 (get_assoc _ _ _ Av2) Cv2).
      now rewrite (get_assoc _ _ _ Av2).
  - destruct (assoc (w_field s) sf) as [c|] eqn:A; [|discriminate].
    destruct (conforms_fields_assoc _ _ _ _ _ Hc A) as (v & Av & Cv).
    rewrite conforms_not_rec in Cv by (eapply shape_class_not_rec; eauto).
    rewrite (shape_children_ok _ _ _ _ _ _ Hok (get_assoc _ _ _ Av) Cv).
    now rewrite (get_assoc _ _ _ Av).
Qed.

Lemma mapcat_steps_ok Rs sf n : forall steps its,
  forall2b step_matches steps its = true -> forallb (step_ok Rs sf) steps = true ->
  conforms_fields (conforms Rs) sf (fields n) = true ->
  mapcat (step_children n) steps = Ok (flat_map (item_nodes n) its).
Proof.
  induction steps as [|s steps IH]; intros [|it its] Hm Hok Hc; try discriminate; [reflexivity|].
  cbn [forall2b forallb] in *. apply andb_prop in Hm as [Hm1 Hm2]. apply andb_prop in Hok as [Ho1 Ho2].
  cbn [mapcat flat_map]. rewrite (step_children_ok _ _ _ _ _ Ho1 Hm1 Hc). cbn [bind].
  rewrite (IH _ Hm2 Ho2 Hc). reflexivity.
Qed.

Section Tables.
  Context (T : walk_table_t) (S Rs : struct_table).
  Context (HT : table_ok T S Rs = true).

  Lemma kind_ok_of n sf : assoc (kind n) S = Some sf -> kind_ok T Rs (kind n, sf) = true.
  Proof.
    intros A. apply assoc_In in A. unfold table_ok in HT.
    rewrite forallb_forall in HT. exact (HT _ A).
  Qed.

  (* the children the code walks are the children in source order *)
  Lemma table_children_ok n : wf_node S Rs n = true -> table_children T n = Ok (src_children n).
  Proof.
    unfold wf_node. destruct (assoc (kind n) S) as [sf|] eqn:A; [|discriminate]. intros Hc.
    pose proof (kind_ok_of _ _ A) as K. unfold kind_ok in K.
    set (sf' := eff_struct (kind n) sf) in *.
    unfold table_children, src_children.
    destruct (assoc (kind n) T) as [steps|]; [|discriminate].
    destruct (assoc (kind n) src_template) as [its|]; [|discriminate].
    apply andb_prop in K as [K K3]. apply andb_prop in K as [K1 K2].
    eapply mapcat_steps_ok; eauto.
  Qed.
End Tables.

(* ------------------------------------------------------------------ sizes and sub-trees *)

Lemma value_nodes_size : forall v c, In c (value_nodes v) -> nsize c <= vsize v.
Proof.
  apply (value_ind' (fun n => forall c, In c (fields_nodes (fields n)) -> nsize c < nsize n)
                    (fun v => forall c, In c (value_nodes v) -> nsize c <= vsize v)).
  - intros i k fs IH c Hin. cbn [fields] in Hin. unfold fields_nodes in Hin.
    cbn [nsize]. induction fs as [|[f x] t IHt]; [contradiction|].
    cbn [flat_map snd] in Hin. apply in_app_or in Hin as [Hin|Hin].
    + inversion IH; subst. specialize (H1 c Hin). cbn [snd] in H1. lia.
    + inversion IH; subst. specialize (IHt H2 Hin). lia.
  - intros p c [].
  - intros t c [].
  - intros s c [].
  - intros b c [].
  - intros c [].
  - intros c [].
  - intros n _ c [<-|[]]. cbn [vsize]. lia.
  - intros [i k fs] IH c Hin. rewrite value_nodes_rec in Hin. cbn [vsize].
    specialize (IH c Hin). lia.
  - intros l IH c Hin. rewrite value_nodes_list in Hin. cbn [vsize].
    induction l as [|x t IHt]; [contradiction|].
    cbn [flat_map] in Hin. apply in_app_or in Hin as [Hin|Hin].
    + inversion IH; subst. specialize (H1 c Hin). lia.
    + inversion IH; subst. specialize (IHt H2 Hin). lia.
Qed.

Lemma assoc_vsize i k fs f v : assoc f fs = Some v -> vsize v < nsize (Node i k fs).
Proof.
  cbn [nsize]. induction fs as [|[g x] t IH]; cbn [assoc]; [discriminate|].
  destruct (String.eqb f g).
  - intros H; inversion H; subst. lia.
  - intros H. specialize (IH H). lia.
Qed.

Lemma get_nodes_size f n c : In c (value_nodes (get f n)) -> nsize c < nsize n.
Proof.
  unfold get. destruct n as [i k fs]. cbn [fields].
  destruct (assoc f fs) as [v|] eqn:A; [|intros []].
  intros Hin. apply value_nodes_size in Hin. pose proof (assoc_vsize i k _ _ _ A). lia.
Qed.

Lemma item_nodes_size n it c : In c (item_nodes n it) -> nsize c < nsize n.
Proof.
  unfold item_nodes. destruct (flag_set _ _); [intros []|].
  destruct (t_via it) as [[rf rk]|].
  - destruct (get rf n) as [| | | | | | |r|] eqn:G; try (intros []).
    destruct (String.eqb (kind r) rk); [|intros []].
    intros Hin. apply get_nodes_size in Hin.
    assert (nsize r < nsize n).
    { unfold get in G. destruct n as [i k fs]. cbn [fields] in G.
      destruct (assoc rf fs) as [v|] eqn:A; [|discriminate]. subst v.
      pose proof (assoc_vsize i k _ _ _ A) as L. cbn [vsize] in L. exact L. }
    lia.
  - apply get_nodes_size.
Qed.

Lemma src_children_size n c : In c (src_children n) -> nsize c < nsize n.
Proof.
  unfold src_children. destruct (assoc (kind n) src_template) as [its|]; [|intros []].
  intros Hin. apply in_flat_map in Hin as (it & _ & Hin). eapply item_nodes_size; eauto.
Qed.

(* sub-trees *)
Lemma value_nodes_sub : forall v c, In c (value_nodes v) -> incl (subnodes c) (subnodes_v v).
Proof.
  apply (value_ind' (fun n => forall c, In c (fields_nodes (fields n)) ->
                              incl (subnodes c) (flat_map (fun fx => subnodes_v (snd fx)) (fields n)))
                    (fun v => forall c, In c (value_nodes v) -> incl (subnodes c) (subnodes_v v))).
  - intros i k fs IH c Hin. cbn [fields] in *. unfold fields_nodes in Hin.
    induction fs as [|[f x] t IHt]; [contradiction|].
    cbn [flat_map snd] in *. apply in_app_or in Hin as [Hin|Hin]; inversion IH; subst.
    + apply incl_appl. auto.
    + apply incl_appr. auto.
  - intros p c [].
  - intros t c [].
  - intros s c [].
  - intros b c [].
  - intros c [].
  - intros c [].
  - intros n _ c [<-|[]]. cbn [subnodes_v]. apply incl_refl.
  - intros [i k fs] IH c Hin. rewrite value_nodes_rec in Hin. rewrite subnodes_v_rec. exact (IH c Hin).
  - intros l IH c Hin. rewrite value_nodes_list in Hin. rewrite subnodes_v_list.
    induction l as [|x t IHt]; [contradiction|].
    cbn [flat_map] in *. apply in_app_or in Hin as [Hin|Hin]; inversion IH; subst.
    + apply incl_appl. auto.
    + apply incl_appr. auto.
Qed.

Lemma assoc_sub i k fs f v : assoc f fs = Some v -> incl (subnodes_v v) (subnodes (Node i k fs)).
Proof.
  rewrite subnodes_node. intros A. apply incl_tl.
  induction fs as [|[g x] t IH]; cbn [assoc] in A; [discriminate|].
  cbn [flat_map snd]. destruct (String.eqb f g).
  - inversion A; subst. apply incl_appl, incl_refl.
  - apply incl_appr. auto.
Qed.

Lemma get_nodes_sub f n c : In c (value_nodes (get f n)) -> incl (subnodes c) (subnodes n).
Proof.
  unfold get. destruct n as [i k fs]. cbn [fields].
  destruct (assoc f fs) as [v|] eqn:A; [|intros []].
  intros Hin. eapply incl_tran; [apply value_nodes_sub; eauto | eapply assoc_sub; eauto].
Qed.

Lemma item_nodes_sub n it c : In c (item_nodes n it) -> incl (subnodes c) (subnodes n).
Proof.
  unfold item_nodes. destruct (flag_set _ _); [intros []|].
  destruct (t_via it) as [[rf rk]|]; [|apply get_nodes_sub].
  destruct (get rf n) as [| | | | | | |r|] eqn:G; try (intros []).
  destruct (String.eqb (kind r) rk); [|intros []].
  intros Hin.
  (* c lies below the record r, which lies below n *)
  unfold get in G, Hin. destruct n as [i k fs], r as [ri rk' rfs]. cbn [fields] in *.
  destruct (assoc rf fs) as [v|] eqn:A; [|discriminate]. subst v.
  destruct (assoc (t_field it) rfs) as [v2|] eqn:A2; [|destruct Hin].
  eapply incl_tran; [apply value_nodes_sub; eauto|].
  eapply incl_tran; [|eapply assoc_sub; eauto].
  rewrite subnodes_v_rec.
  clear -A2. induction rfs as [|[g x] t IH]; cbn [assoc] in A2; [discriminate|].
  cbn [flat_map snd]. destruct (String.eqb (t_field it) g).
  - inversion A2; subst. apply incl_appl, incl_refl.
  - apply incl_appr. auto.
Qed.

Lemma src_children_sub n c : In c (src_children n) -> incl (subnodes c) (subnodes n).
Proof.
  unfold src_children. destruct (assoc (kind n) src_template) as [its|]; [|intros []].
  intros Hin. apply in_flat_map in Hin as (it & _ & Hin). eapply item_nodes_sub; eauto.
Qed.

Lemma subnodes_self n : In n (subnodes n).
Proof. destruct n. rewrite subnodes_node. now left. Qed.

Lemma wf_tree_node S Rs t : wf_tree S Rs t = true -> wf_node S Rs t = true.
Proof. unfold wf_tree. rewrite forallb_forall. intros H. apply H, subnodes_self. Qed.

Lemma wf_tree_child S Rs t c : wf_tree S Rs t = true -> In c (src_children t) -> wf_tree S Rs c = true.
Proof.
  unfold wf_tree. rewrite !forallb_forall. intros H Hin x Hx.
  apply H. eapply src_children_sub; eauto.
Qed.

(* ------------------------------------------------------------------ the main theorem *)

Lemma mapcat_Forall2 {A B} (f : A -> M (list B)) (P : A -> list B -> Prop) : forall l,
  (forall x, In x l -> exists r, f x = Ok r /\ P x r) ->
  exists rs, mapcat f l = Ok (List.concat rs) /\ Forall2 P l rs.
Proof.
  induction l as [|x t IH]; intros H.
  - exists []. split; [reflexivity|constructor].
  - destruct (H x (or_introl eq_refl)) as (r & E & Pr).
    destruct IH as (rs & E2 & F2); [intros y Hy; apply H; now right|].
    exists (r :: rs). split; [|now constructor].
    cbn [mapcat List.concat]. rewrite E. cbn [bind]. rewrite E2. reflexivity.
Qed.

Section Main.
  Context (T : walk_table_t) (S Rs : struct_table).
  Context (HT : table_ok T S Rs = true).
  Context {V : Type} (visit : V -> node -> option V).

  Lemma walk_correct : forall fuel t v,
    nsize t <= fuel -> wf_tree S Rs t = true ->
    exists es, walk visit fuel T v t = Ok es /\ walks visit v t es.
  Proof.
    induction fuel as [|f IH]; intros t v Hsz Hwf.
    - destruct t; cbn [nsize] in Hsz; lia.
    - cbn [walk]. destruct (visit v t) as [w|] eqn:Ev.
      + rewrite (table_children_ok T S Rs HT t (wf_tree_node _ _ _ Hwf)). cbn [bind].
        destruct (mapcat_Forall2 (walk visit f T w) (walks visit w) (src_children t)) as (ess & E & F2).
        { intros c Hc. apply IH.
          - pose proof (src_children_size _ _ Hc). lia.
          - eapply wf_tree_child; eauto. }
        rewrite E. cbn [bind]. eexists. split; [reflexivity|]. now apply walks_desc.
      + eexists. split; [reflexivity|]. now apply walks_prune.
  Qed.

  Lemma walk_tree_correct t v :
    wf_tree S Rs t = true -> exists es, walk_tree visit T v t = Ok es /\ walks visit v t es.
  Proof. intros H. unfold walk_tree. apply walk_correct; auto. Qed.

  Lemma walk_tree_total t v :
    wf_tree S Rs t = true -> walk_tree visit T v t <> Panic /\ walk_tree visit T v t <> OutOfFuel.
  Proof. intros H. destruct (walk_tree_correct t v H) as (es & E & _). rewrite E. split; discriminate. Qed.
End Main.

(* the specified call sequence is unique *)
Lemma walks_functional {V} (visit : V -> node -> option V) : forall n t v es es',
  nsize t <= n -> walks visit v t es -> walks visit v t es' -> es = es'.
Proof.
  induction n as [|n IH]; intros t v es es' Hsz H1 H2.
  - destruct t; cbn [nsize] in Hsz; lia.
  - inversion H1 as [v1 n1 E1|v1 w1 n1 ess1 E1 F1]; subst;
      inversion H2 as [v2 n2 E2|v2 w2 n2 ess2 E2 F2]; subst; try congruence.
    rewrite E1 in E2. inversion E2; subst w2. f_equal. f_equal.
    assert (ess1 = ess2); [|now subst].
    clear H1 H2 E1 E2.
    assert (Hs : forall c, In c (src_children t) -> nsize c <= n)
      by (intros c Hc; pose proof (src_children_size _ _ Hc); lia).
    revert ess2 F2 Hs. induction F1 as [|c e cs ess Hce Hrest IHF]; intros ess2 F2 Hs.
    + inversion F2. reflexivity.
    + inversion F2; subst. f_equal.
      * eapply IH; eauto. apply Hs. now left.
      * apply IHF; auto. intros d Hd. apply Hs. now right.
Qed.

(* ------------------------------------------------------------------ list facts *)

Lemma flat_map_flat_map {A B C} (f : A -> list B) (g : B -> list C) l :
  flat_map g (flat_map f l) = flat_map (fun x => flat_map g (f x)) l.
Proof. induction l as [|x t IH]; cbn [flat_map]; [reflexivity|]. now rewrite flat_map_app, IH. Qed.

Lemma flat_map_filter {A B} (f : A -> list B) p l :
  flat_map f (filter p l) = flat_map (fun x => if p x then f x else []) l.
Proof.
  induction l as [|x t IH]; cbn [filter flat_map]; [reflexivity|].
  destruct (p x); cbn [flat_map app]; now rewrite IH.
Qed.

Lemma flat_map_ext_in {A B} (f g : A -> list B) l :
  (forall x, In x l -> f x = g x) -> flat_map f l = flat_map g l.
Proof.
  induction l as [|x t IH]; intros H; cbn [flat_map]; [reflexivity|].
  rewrite (H x (or_introl eq_refl)), IH; auto. intros y Hy. apply H. now right.
Qed.

Lemma flat_map_nil_filter {A B} (f : A -> list B) p l :
  (forall x, In x l -> p x = false -> f x = []) -> flat_map f l = flat_map f (filter p l).
Proof.
  intros H. rewrite flat_map_filter. apply flat_map_ext_in. intros x Hx.
  destruct (p x) eqn:E; auto.
Qed.

Lemma flat_map_const_nil {A B} (l : list A) : flat_map (fun _ => @nil B) l = [].
Proof. induction l; auto. Qed.

Lemma flat_map_map' {A B C} (f : A -> B) (g : B -> list C) l :
  flat_map g (map f l) = flat_map (fun x => g (f x)) l.
Proof. induction l as [|x t IH]; cbn [map flat_map]; [reflexivity|]. now rewrite IH. Qed.

Lemma Permutation_partition {A} (p : A -> bool) l :
  Permutation l (filter p l ++ filter (fun x => negb (p x)) l).
Proof.
  induction l as [|x t IH]; cbn [filter]; [constructor|].
  destruct (p x); cbn [negb app].
  - now constructor.
  - apply Permutation_cons_app. exact IH.
Qed.

Lemma mem_In x l : mem x l = true <-> In x l.
Proof.
  unfold mem. rewrite existsb_exists. split.
  - intros (y & Hy & E). apply String.eqb_eq in E. now subst.
  - intros H. exists x. split; auto. apply String.eqb_refl.
Qed.

Lemma nodupb_NoDup l : nodupb l = true -> NoDup l.
Proof.
  induction l as [|x t IH]; cbn [nodupb]; intros H; constructor.
  - apply andb_prop in H as [H _]. intros Hin. apply mem_In in Hin. rewrite Hin in H. discriminate.
  - apply andb_prop in H as [_ H]. auto.
Qed.

Lemma same_set_Permutation a b : same_set a b = true -> Permutation a b.
Proof.
  unfold same_set. intros H. apply andb_prop in H as [H H4]. apply andb_prop in H as [H H3].
  apply andb_prop in H as [H1 H2].
  apply NoDup_Permutation; try now apply nodupb_NoDup.
  rewrite forallb_forall in H3, H4. intros x. split; intros Hx.
  - apply mem_In. auto.
  - apply mem_In. auto.
Qed.

Lemma same_set_incl a b x : same_set a b = true -> In x a -> In x b.
Proof. intros H Hx. eapply Permutation_in; [apply same_set_Permutation; eauto|auto]. Qed.

Lemma dedup_In x l : In x l -> In x (dedup l).
Proof.
  induction l as [|y t IH]; [auto|]. cbn [dedup]. intros [->|H].
  - destruct (mem x t) eqn:E; [apply IH; now apply mem_In|now left].
  - destruct (mem y t); [auto|right; auto].
Qed.

Lemma NoDup_assoc {A} (fs : list (string * A)) f v :
  NoDup (map fst fs) -> In (f, v) fs -> assoc f fs = Some v.
Proof.
  induction fs as [|[g x] t IH]; [intros _ []|].
  cbn [map fst assoc]. intros ND [E|Hin].
  - inversion E; subst. now rewrite String.eqb_refl.
  - inversion ND; subst. destruct (String.eqb f g) eqn:E.
    + apply String.eqb_eq in E. subst. exfalso. apply H1. apply in_map_iff. exists (g, v). auto.
    + auto.
Qed.

(* a function of (name, value) summed over the fields = the function of (name, get name) over the names *)
Lemma by_name {B} (F : string -> value -> list B) n :
  NoDup (map fst (fields n)) ->
  flat_map (fun fx => F (fst fx) (snd fx)) (fields n) = flat_map (fun f => F f (get f n)) (map fst (fields n)).
Proof.
  intros ND. rewrite flat_map_map'. apply flat_map_ext_in. intros [f v] Hin. cbn [fst snd].
  unfold get. now rewrite (NoDup_assoc _ _ _ ND Hin).
Qed.

(* the core of completeness: a list of names that is, as a set, the kept names of the struct *)
Lemma perm_core {B} (g : string -> list B) (sf : list (string * fclass)) keepb fl :
  (forall fc, In fc sf -> keepb fc = false -> g (fst fc) = []) ->
  same_set fl (map fst (filter keepb sf)) = true ->
  Permutation (flat_map g fl) (flat_map g (map fst sf)).
Proof.
  intros Hnil Hs. apply same_set_Permutation in Hs.
  eapply Permutation_trans; [apply Permutation_flat_map; exact Hs|].
  rewrite !flat_map_map'. rewrite <- (flat_map_nil_filter (fun x => g (fst x)) keepb sf); [reflexivity|].
  intros fc Hin Hk. auto.
Qed.

(* ------------------------------------------------------------------ reach *)

Lemma reach_node i k fs :
  reach (Node i k fs) =
  Node i k fs :: flat_map (fun fx => if excluded (Node i k fs) (fst fx) then [] else reach_v (snd fx)) fs.
Proof.
  cbn [reach]. f_equal. generalize (Node i k fs) as n. intros n.
  induction fs as [|[f x] t IH]; [reflexivity|]. cbn [flat_map fst snd]. now rewrite <- IH.
Qed.

Lemma reach_v_rec i k fs : reach_v (VRec (Node i k fs)) = flat_map (fun fx => reach_v (snd fx)) fs.
Proof.
  cbn [reach_v]. induction fs as [|[f x] t IH]; [reflexivity|]. cbn [flat_map snd]. now rewrite <- IH.
Qed.

Lemma reach_v_list l : reach_v (VList l) = flat_map reach_v l.
Proof. cbn [reach_v]. induction l as [|x t IH]; [reflexivity|]. cbn [flat_map]. now rewrite <- IH. Qed.

Lemma reach_v_direct : forall v, reach_v v = flat_map reach (value_nodes v).
Proof.
  apply (value_ind' (fun n => flat_map (fun fx => reach_v (snd fx)) (fields n) =
                              flat_map reach (fields_nodes (fields n)))
                    (fun v => reach_v v = flat_map reach (value_nodes v))); try reflexivity.
  - intros i k fs IH. cbn [fields]. unfold fields_nodes. rewrite flat_map_flat_map.
    apply flat_map_ext_in. intros fx Hin. rewrite Forall_forall in IH. exact (IH fx Hin).
  - intros n _. cbn [reach_v value_nodes flat_map]. now rewrite app_nil_r.
  - intros [i k fs] IH. rewrite reach_v_rec, value_nodes_rec. exact IH.
  - intros l IH. rewrite reach_v_list, value_nodes_list, flat_map_flat_map.
    apply flat_map_ext_in. intros x Hin. rewrite Forall_forall in IH. exact (IH x Hin).
Qed.

Lemma reach_eq n : reach n = n :: flat_map reach (all_children n).
Proof.
  destruct n as [i k fs]. rewrite reach_node. f_equal.
  unfold all_children, fields_nodes. cbn [fields]. rewrite flat_map_filter, flat_map_flat_map.
  apply flat_map_ext_in. intros [f x] _. cbn [fst snd].
  destruct (excluded (Node i k fs) f); cbn [negb flat_map]; [reflexivity|]. apply reach_v_direct.
Qed.

(* ------------------------------------------------------------------ completeness of the children *)

Lemma conforms0_atom c v :
  bearing c = false -> conforms0 c v = true -> value_nodes v = [].
Proof. destruct c; try discriminate; cbn [conforms0]; destruct v; try discriminate; reflexivity. Qed.

Lemma conforms_fields_In cv sf : forall fs f c,
  conforms_fields cv sf fs = true -> NoDup (map fst sf) -> In (f, c) sf ->
  exists v, assoc f fs = Some v /\ cv c v = true.
Proof.
  intros fs f c H ND Hin. eapply conforms_fields_assoc; eauto. now apply NoDup_assoc.
Qed.

(* a record: the listed fields are, as a set, its node-bearing fields *)
Lemma rec_perm r rsf fl :
  conforms_fields conforms0 rsf (fields r) = true -> nodupb (map fst rsf) = true ->
  same_set fl (map fst (filter (fun fc => bearing (snd fc)) rsf)) = true ->
  Permutation (flat_map (fun f => value_nodes (get f r)) fl) (fields_nodes (fields r)).
Proof.
  intros Hc ND Hs. apply nodupb_NoDup in ND.
  pose proof (conforms_fields_names _ _ _ Hc) as Hn.
  unfold fields_nodes.
  rewrite (by_name (fun _ v => value_nodes v) r) by (now rewrite Hn).
  rewrite Hn. eapply perm_core; eauto.
  intros [f c] Hin Hb. cbn [fst snd] in *.
  destruct (conforms_fields_In _ _ _ _ _ Hc ND Hin) as (v & Av & Cv).
  rewrite (get_assoc _ _ _ Av). eapply conforms0_atom; eauto.
Qed.

Lemma value_nodes_rec' r : value_nodes (VRec r) = fields_nodes (fields r).
Proof. destruct r. apply value_nodes_rec. Qed.

Lemma dedup_nil l : dedup l = [] -> l = [].
Proof.
  destruct l as [|x t]; [reflexivity|]. intros H. exfalso.
  assert (Hin : In x (dedup (x :: t))) by (apply dedup_In; now left). rewrite H in Hin. destruct Hin.
Qed.

Ltac perm_eq := match goal with |- Permutation ?a ?b => let E := fresh in assert (E : a = b); [|rewrite E; apply Permutation_refl] end.

Section Complete.
  Context (T : walk_table_t) (St Rs : struct_table).
  Context (HT : table_ok T St Rs = true).

  Lemma children_perm n : wf_node St Rs n = true -> Permutation (src_children n) (all_children n).
  Proof.
    unfold wf_node. destruct (assoc (kind n) St) as [sf|] eqn:A; [|discriminate]. intros Hc.
    pose proof (kind_ok_of T St Rs HT _ _ A) as K. unfold kind_ok in K.
    remember (eff_struct (kind n) sf) as sf' eqn:Esf. clear A Esf sf. rename sf' into sf.
    destruct (assoc (kind n) T) as [steps|]; [|discriminate].
    unfold src_children.
    destruct (assoc (kind n) src_template) as [its|]; [|discriminate].
    apply andb_prop in K as [_ K]. unfold template_complete in K.
    set (k := kind n) in *.
    set (directs := map t_field (filter is_direct its)) in *.
    set (vias := dedup (flat_map (fun it => match t_via it with Some (rf, _) => [rf] | None => [] end) its)) in *.
    apply andb_prop in K as [K Kv]. apply andb_prop in K as [K Ku]. apply andb_prop in K as [Knd Kss].
    apply nodupb_NoDup in Knd.
    pose proof (conforms_fields_names _ _ _ Hc) as Hn.
    set (g := fun f => if excluded n f then [] else value_nodes (get f n)).
    (* right-hand side, by names *)
    assert (Hall : all_children n = flat_map g (map fst sf)).
    { unfold all_children, fields_nodes. rewrite flat_map_filter.
      transitivity (flat_map (fun fx => (fun f v => if excluded n f then [] else value_nodes v) (fst fx) (snd fx)) (fields n)).
      { apply flat_map_ext_in. intros [f v] _. cbn [fst snd]. now destruct (excluded n f). }
      rewrite (by_name (fun f v => if excluded n f then [] else value_nodes v) n) by (now rewrite Hn).
      rewrite Hn. reflexivity. }
    rewrite Hall.
    (* names outside the kept set contribute nothing *)
    assert (Hnil : forall fc, In fc sf -> keep k fc = false -> g (fst fc) = []).
    { intros [f c] Hin Hk. cbn [fst]. unfold g, keep in *. cbn [fst snd] in Hk.
      apply andb_false_iff in Hk as [Hb|Ha].
      - destruct (conforms_fields_In _ _ _ _ _ Hc Knd Hin) as (v & Av & Cv).
        rewrite (get_assoc _ _ _ Av).
        assert (conforms0 c v = true) by (destruct c; try discriminate; exact Cv).
        rewrite (conforms0_atom _ _ Hb H). now destruct (excluded n f).
      - unfold excluded. fold k. apply negb_false_iff in Ha. now rewrite Ha. }
    eapply Permutation_trans; [|eapply perm_core; [exact Hnil|exact Kss]].
    rewrite flat_map_app.
    eapply Permutation_trans; [apply Permutation_flat_map, (Permutation_partition is_direct)|].
    rewrite flat_map_app. apply Permutation_app.
    - (* direct items *)
      unfold directs. rewrite flat_map_map'. perm_eq.
      apply flat_map_ext_in. intros it Hit. apply filter_In in Hit as [Hit Hd].
      rewrite forallb_forall in Ku. specialize (Ku it Hit). rewrite Hd in Ku. apply opt_str_eqb_eq in Ku.
      assert (Hkeep : In (t_field it) (map fst (filter (keep k) sf))).
      { eapply same_set_incl; [exact Kss|]. apply in_or_app. left. unfold directs.
        apply in_map. apply filter_In. split; auto. }
      unfold item_nodes, g. unfold is_direct in Hd. destruct (t_via it); [discriminate|].
      apply in_map_iff in Hkeep as ([f c] & Ef & Hf). cbn [fst] in Ef. subst f.
      apply filter_In in Hf as [_ Hf]. unfold keep in Hf. cbn [fst snd] in Hf.
      apply andb_prop in Hf as [_ Hf]. apply negb_true_iff in Hf.
      unfold excluded. fold k. rewrite Hf, Ku. reflexivity.
    - (* items below a record *)
      assert (Hvia_in : forall it, In it its -> is_direct it = false -> exists rf rk, t_via it = Some (rf, rk) /\ In rf vias).
      { intros it Hit Hd. unfold is_direct in Hd. destruct (t_via it) as [[rf rk]|] eqn:E; [|discriminate].
        exists rf, rk. split; auto. unfold vias. apply dedup_In. apply in_flat_map. exists it. split; auto.
        rewrite E. now left. }
      destruct vias as [|rf [|rf2 vs]] eqn:Ev; [| |discriminate].
      + (* no record field *)
        change (flat_map g []) with (@nil node). perm_eq.
        assert (E : filter (fun x => negb (is_direct x)) its = []).
        { destruct (filter (fun x => negb (is_direct x)) its) as [|it t] eqn:F; [reflexivity|].
          assert (Hit : In it (filter (fun x => negb (is_direct x)) its)) by (rewrite F; now left).
          apply filter_In in Hit as [Hit Hd]. apply negb_true_iff in Hd.
          destruct (Hvia_in it Hit Hd) as (? & ? & _ & []). }
        now rewrite E.
      + change (flat_map g [rf]) with (g rf ++ []). rewrite app_nil_r.
        apply andb_prop in Kv as [Kc Kv]. apply opt_str_eqb_eq in Kc.
        destruct (assoc rf sf) as [c|] eqn:Arf; [|discriminate]. destruct c; try discriminate.
        apply andb_prop in Kv as [Krec Kcov].
        (* rf is kept, hence not excluded *)
        assert (Hkeep : In rf (map fst (filter (keep k) sf))).
        { eapply same_set_incl; [exact Kss|]. apply in_or_app. right. now left. }
        apply in_map_iff in Hkeep as ([f c] & Ef & Hf). cbn [fst] in Ef. subst f.
        apply filter_In in Hf as [_ Hf]. unfold keep in Hf. cbn [fst snd] in Hf.
        apply andb_prop in Hf as [_ Hf]. apply negb_true_iff in Hf.
        unfold g, excluded. fold k. rewrite Hf, Kc. cbn [flag_set orb].
        destruct (conforms_fields_assoc _ _ _ _ _ Hc Arf) as (v & Av & Cv).
        rewrite (get_assoc _ _ _ Av). cbn [conforms] in Cv.
        (* every item below a record reads rf *)
        assert (Hrf : forall it, In it its -> is_direct it = false -> exists rk, t_via it = Some (rf, rk)).
        { intros it Hit Hd. destruct (Hvia_in it Hit Hd) as (rf' & rk & E & [->|[]]). eauto. }
        destruct v; try discriminate.
        * (* VOther *) perm_eq. cbn [value_nodes].
          rewrite (flat_map_ext_in (item_nodes n) (fun _ => [])).
          { apply flat_map_const_nil. }
          intros it Hit. apply filter_In in Hit as [Hit Hd]. apply negb_true_iff in Hd.
          destruct (Hrf it Hit Hd) as (rk & E). unfold item_nodes. rewrite E, (get_assoc _ _ _ Av).
          now destruct (flag_set _ _).
        * (* VNil *) perm_eq. cbn [value_nodes].
          rewrite (flat_map_ext_in (item_nodes n) (fun _ => [])).
          { apply flat_map_const_nil. }
          intros it Hit. apply filter_In in Hit as [Hit Hd]. apply negb_true_iff in Hd.
          destruct (Hrf it Hit Hd) as (rk & E). unfold item_nodes. rewrite E, (get_assoc _ _ _ Av).
          now destruct (flag_set _ _).
        * (* VRec r *)
          rename n0 into r. apply andb_prop in Cv as [Hk Cr].
          destruct (assoc (kind r) Rs) as [rsf|] eqn:Ars; [|discriminate].
          apply existsb_exists in Hk as (rk0 & Hk0 & Ek). apply String.eqb_eq in Ek. subst rk0.
          rewrite forallb_forall in Krec. specialize (Krec _ Hk0). unfold rec_complete in Krec.
          rewrite Ars in Krec. apply andb_prop in Krec as [Rnd Rss].
          rewrite value_nodes_rec'.
          eapply Permutation_trans;
            [|eapply (rec_perm r rsf (map t_field (filter (via_is rf (kind r)) its))); eauto].
          perm_eq. rewrite flat_map_map'.
          rewrite !flat_map_filter. apply flat_map_ext_in. intros it Hit.
          rewrite forallb_forall in Ku. specialize (Ku it Hit).
          destruct (is_direct it) eqn:Hd; unfold negb.
          -- unfold via_is. unfold is_direct in Hd. now destruct (t_via it).
          -- destruct (Hrf it Hit Hd) as (rk' & E). apply opt_str_eqb_eq in Ku.
             unfold via_is, item_nodes. rewrite E, Ku, (get_assoc _ _ _ Av). unfold flag_set.
             rewrite String.eqb_refl. unfold andb.
             rewrite (String.eqb_sym rk' (kind r)). now destruct (String.eqb (kind r) rk').
  Qed.
End Complete.

(* ------------------------------------------------------------------ each node exactly once *)

Lemma enters_app {V} (a b : list (@event V)) : enters (a ++ b) = enters a ++ enters b.
Proof. unfold enters. apply flat_map_app. Qed.

Lemma enters_concat {V} (ess : list (list (@event V))) : enters (List.concat ess) = flat_map enters ess.
Proof. induction ess as [|e t IH]; [reflexivity|]. cbn [List.concat flat_map]. now rewrite enters_app, IH. Qed.

Section Once.
  Context (T : walk_table_t) (St Rs : struct_table).
  Context (HT : table_ok T St Rs = true).
  Context {V : Type} (visit : V -> node -> option V).
  Context (Hnp : forall v n, visit v n <> None).   (* the visitor never prunes *)

  Lemma walks_once : forall m t v es,
    nsize t <= m -> wf_tree St Rs t = true -> walks visit v t es -> Permutation (enters es) (reach t).
  Proof.
    induction m as [|m IH]; intros t v es Hsz Hwf Hw.
    - destruct t; cbn [nsize] in Hsz; lia.
    - inversion Hw as [v1 n1 E1|v1 w1 n1 ess E1 F1]; subst; [now apply Hnp in E1|].
      rewrite reach_eq. cbn [enters flat_map app]. fold (enters (List.concat ess ++ [ENil w1])).
      constructor. rewrite enters_app. cbn [enters flat_map]. rewrite app_nil_r, enters_concat.
      eapply Permutation_trans;
        [|apply Permutation_flat_map, (children_perm T St Rs HT t (wf_tree_node _ _ _ Hwf))].
      assert (Hc : forall c, In c (src_children t) -> nsize c <= m /\ wf_tree St Rs c = true).
      { intros c Hin. split; [pose proof (src_children_size _ _ Hin); lia|eapply wf_tree_child; eauto]. }
      clear Hw E1. induction F1 as [|c e cs ess Hce Hrest IHF]; [constructor|].
      cbn [flat_map]. apply Permutation_app.
      + destruct (Hc c (or_introl eq_refl)). eapply IH; eauto.
      + apply IHF. intros d Hd. apply Hc. now right.
  Qed.
End Once.
