From Coq Require Import List ZArith NArith Bool Lia.
Import ListNotations.
From V Require Import Base.Prelude Model.MiniGo Model.Interp Proofs.MiniGo.

Inductive Forall3 {A B C} (R : A -> B -> C -> Prop) : list A -> list B -> list C -> Prop :=
  | F3_nil : Forall3 R [] [] []
  | F3_cons a b c la lb lc : R a b c -> Forall3 R la lb lc -> Forall3 R (a :: la) (b :: lb) (c :: lc).
Open Scope Z_scope.

(* ------------------------------------------------------------------ bytes and slices *)
Definition no_byte (c : N) (s : str) : Prop := Forall (fun b => b <> c) s.

Lemma zlen_app {A} (a b : list A) : zlen (a ++ b) = zlen a + zlen b.
Proof. unfold zlen. rewrite app_length. lia. Qed.
Lemma zlen_cons {A} (x : A) l : zlen (x :: l) = 1 + zlen l.
Proof. unfold zlen. cbn [length]. lia. Qed.
Lemma zlen_nonneg {A} (l : list A) : 0 <= zlen l.
Proof. unfold zlen. lia. Qed.
Lemma zlen_nil {A} : zlen (@nil A) = 0.
Proof. reflexivity. Qed.

Lemma index_byte_range s c : index_byte s c = -1 \/ 0 <= index_byte s c < zlen s.
Proof. induction s as [|b t IH]; cbn [index_byte]; [left; reflexivity|].
  rewrite zlen_cons. destruct (N.eqb b c); [right; pose proof (zlen_nonneg t); lia|].
  destruct IH as [->|IH]; [left; reflexivity|].
  destruct (index_byte t c <? 0) eqn:E; [apply Z.ltb_lt in E; lia|]. right. lia. Qed.

Lemma index_byte_none s c : no_byte c s -> index_byte s c = -1.
Proof. induction 1 as [|b t Hb _ IH]; [reflexivity|]. cbn [index_byte].
  apply N.eqb_neq in Hb. rewrite Hb, IH. reflexivity. Qed.

Lemma index_byte_app s c r : no_byte c s -> index_byte (s ++ c :: r) c = zlen s.
Proof. induction 1 as [|b t Hb _ IH]; cbn [index_byte app].
  - rewrite N.eqb_refl. reflexivity.
  - apply N.eqb_neq in Hb. rewrite Hb, IH. rewrite zlen_cons.
    destruct (zlen t <? 0) eqn:E; [apply Z.ltb_lt in E; pose proof (zlen_nonneg t); lia|lia]. Qed.

Lemma sl_from_app (a b : str) : sl_from (a ++ b) (zlen a) = Ok b.
Proof. unfold sl_from. rewrite zlen_app.
  replace ((zlen a <? 0) || (zlen a + zlen b <? zlen a)) with false.
  - unfold zlen. rewrite Nat2Z.id. rewrite skipn_app, skipn_all, Nat.sub_diag. reflexivity.
  - symmetry. apply orb_false_iff. pose proof (zlen_nonneg a). pose proof (zlen_nonneg b). split; apply Z.ltb_ge; lia. Qed.

Lemma sl_to_app (a b : str) : sl_to (a ++ b) (zlen a) = Ok a.
Proof. unfold sl_to. rewrite zlen_app.
  replace ((zlen a <? 0) || (zlen a + zlen b <? zlen a)) with false.
  - unfold zlen. rewrite Nat2Z.id. rewrite firstn_app, firstn_all, Nat.sub_diag. cbn [firstn]. now rewrite app_nil_r.
  - symmetry. apply orb_false_iff. pose proof (zlen_nonneg a). pose proof (zlen_nonneg b). split; apply Z.ltb_ge; lia. Qed.

Lemma idx_app {A} (a : list A) x b : idx (a ++ x :: b) (zlen a) = Ok x.
Proof. unfold idx. pose proof (zlen_nonneg a). destruct (zlen a <? 0) eqn:E; [apply Z.ltb_lt in E; lia|].
  unfold zlen. rewrite Nat2Z.id. rewrite nth_error_app2 by lia. rewrite Nat.sub_diag. reflexivity. Qed.

Lemma idx_app_1 {A} (s : list A) a c r : idx (s ++ a :: c :: r) (zlen s + 1) = Ok c.
Proof. replace (s ++ a :: c :: r) with ((s ++ [a]) ++ c :: r) by (rewrite <- app_assoc; reflexivity).
  replace (zlen s + 1) with (zlen (s ++ [a])) by (rewrite zlen_app; reflexivity). apply idx_app. Qed.

Lemma sl_from_ok (s : str) i : 0 <= i <= zlen s -> exists r, sl_from s i = Ok r /\ zlen r = zlen s - i.
Proof. intros H. unfold sl_from. replace ((i <? 0) || (zlen s <? i)) with false.
  - eexists; split; [reflexivity|]. unfold zlen in *. rewrite skipn_length. lia.
  - symmetry. apply orb_false_iff. split; apply Z.ltb_ge; lia. Qed.
Lemma sl_to_ok (s : str) i : 0 <= i <= zlen s -> exists r, sl_to s i = Ok r.
Proof. intros H. unfold sl_to. replace ((i <? 0) || (zlen s <? i)) with false; [eauto|].
  symmetry. apply orb_false_iff. split; apply Z.ltb_ge; lia. Qed.
Lemma idx_ok {A} (l : list A) i : 0 <= i < zlen l -> exists x, idx l i = Ok x.
Proof. intros H. unfold idx. destruct (i <? 0) eqn:E; [apply Z.ltb_lt in E; lia|].
  destruct (nth_error l (Z.to_nat i)) eqn:N; [eauto|]. apply nth_error_None in N. unfold zlen in H. lia. Qed.

Lemma is_empty_spec (s : str) : is_empty s = true <-> s = [].
Proof. destruct s; simpl; split; congruence. Qed.
Lemma is_empty_zlen (s : str) : is_empty s = (zlen s =? 0).
Proof. destruct s; [reflexivity|]. rewrite zlen_cons. pose proof (zlen_nonneg s). cbn [is_empty]. symmetry. apply Z.eqb_neq. lia. Qed.

(* ------------------------------------------------------------------ totality *)
Lemma has_extra_total : forall fuel text, (length text < fuel)%nat -> exists b, has_extra fuel text = Ok b.
Proof.
  induction fuel as [|f IH]; intros text Hf; [lia|]. cbn [has_extra].
  pose proof (index_byte_range text dollar) as R.
  destruct ((index_byte text dollar <? 0) || (index_byte text dollar + 1 =? zlen text)) eqn:E; [eauto|].
  apply orb_false_iff in E as [E1 E2]. apply Z.ltb_ge in E1. apply Z.eqb_neq in E2.
  destruct R as [R|R]; [lia|].
  destruct (idx_ok text (index_byte text dollar + 1)) as [ch ->]; [lia|]. cbn [bind].
  destruct (N.eqb ch lbrace || N.eqb ch dollar); [eauto|].
  destruct (sl_from_ok text (index_byte text dollar + 2)) as (t' & -> & Hl); [lia|]. cbn [bind].
  apply IH. unfold zlen in *. lia. Qed.

(* every position the splitter produces lies inside the text *)
Definition part_in (lo hi : Z) (p : part) : Prop :=
  match p with PStr _ => True | PExpr a b => lo <= a /\ a <= b /\ b <= hi end.
Definition err_in (lo hi : Z) (e : option serr) : Prop :=
  match e with None => True | Some (ErrNoClose o) | Some (ErrBadDollar o) => lo <= o < hi end.
Definition res_in (lo hi : Z) (r : split_res) : Prop :=
  match fst r with Some ps => Forall (part_in lo hi) ps | None => True end /\ err_in lo hi (snd r).

Lemma Forall_part_widen lo lo' hi ps : lo' <= lo -> Forall (part_in lo hi) ps -> Forall (part_in lo' hi) ps.
Proof. intros H. apply Forall_impl. intros [s|a b]; simpl; auto. lia. Qed.

Lemma split_loop_total : forall fuel parts pos text extra lo,
  (length text < fuel)%nat -> lo <= pos -> Forall (part_in lo (pos + zlen text)) parts ->
  exists r, split_loop fuel parts pos text extra = Ok r /\ res_in lo (pos + zlen text) r.
Proof.
  induction fuel as [|f IH]; intros parts pos text extra lo Hf Hlo Hparts; [lia|]. cbn [split_loop].
  set (at_ := index_byte text dollar).
  pose proof (index_byte_range text dollar) as R. fold at_ in R.
  assert (Hn : forall ps, Forall (part_in lo (pos + zlen text)) ps -> Forall (part_in lo (pos + zlen text)) (ps ++ [PStr text])).
  { intros ps H. apply Forall_app. split; auto. constructor; simpl; auto. }
  destruct ((at_ <? 0) || (at_ + 1 =? zlen text)) eqn:E.
  { destruct extra; eexists; (split; [reflexivity|]); split; simpl; auto. }
  apply orb_false_iff in E as [E1 E2]. apply Z.ltb_ge in E1. apply Z.eqb_neq in E2.
  destruct R as [R|R]; [lia|].
  destruct (idx_ok text (at_ + 1)) as [ch ->]; [lia|]. cbn [bind].
  destruct (N.eqb ch lbrace).
  - destruct (sl_from_ok text (at_ + 2)) as (left & -> & Hl); [lia|]. cbn [bind].
    destruct (is_empty left). { eexists; split; [reflexivity|]. split; simpl; auto. }
    pose proof (index_byte_range left rbrace) as R2. set (en := index_byte left rbrace) in *.
    destruct (en <? 0) eqn:E3.
    { eexists; split; [reflexivity|]. split; simpl; auto. lia. }
    apply Z.ltb_ge in E3. destruct R2 as [R2|R2]; [lia|].
    destruct (sl_to_ok text at_) as [pre ->]; [lia|]. cbn [bind].
    destruct (sl_from_ok left (en + 1)) as (text' & -> & Hl'); [lia|]. cbn [bind].
    set (parts2 := (if at_ =? 0 then parts else parts ++ [PStr pre]) ++ [PExpr (pos + (at_ + 2)) (pos + (at_ + 2 + en))]).
    assert (Hp2 : Forall (part_in lo (pos + zlen text)) parts2).
    { unfold parts2. apply Forall_app. split.
      - destruct (at_ =? 0); auto. apply Forall_app. split; auto. constructor; simpl; auto.
      - constructor; [|constructor]. simpl. lia. }
    destruct (is_empty text') eqn:Em.
    { eexists; split; [reflexivity|]. split; simpl; auto. }
    assert (Heq : pos + zlen text = (pos + (at_ + 2 + en) + 1) + zlen text') by lia.
    destruct (IH parts2 (pos + (at_ + 2 + en) + 1) text' true lo) as (r & Hr & Hin).
    + unfold zlen in *. lia.
    + lia.
    + rewrite <- Heq. exact Hp2.
    + exists r. split; [exact Hr|]. rewrite Heq. exact Hin.
  - destruct (N.eqb ch dollar).
    + destruct (sl_to_ok text (at_ + 2)) as [pre ->]; [lia|]. cbn [bind].
      destruct (sl_from_ok text (at_ + 2)) as (text' & -> & Hl'); [lia|]. cbn [bind].
      assert (Hp2 : Forall (part_in lo (pos + zlen text)) (parts ++ [PStr pre])).
      { apply Forall_app. split; auto. constructor; simpl; auto. }
      destruct (is_empty text') eqn:Em.
      { eexists; split; [reflexivity|]. split; simpl; auto. }
      assert (Heq : pos + zlen text = (pos + (at_ + 2)) + zlen text') by lia.
      destruct (IH (parts ++ [PStr pre]) (pos + (at_ + 2)) text' true lo) as (r & Hr & Hin).
      * unfold zlen in *. lia.
      * lia.
      * rewrite <- Heq. exact Hp2.
      * exists r. split; [exact Hr|]. rewrite Heq. exact Hin.
    + destruct extra.
      * cbn [bind]. eexists; split; [reflexivity|]. split; simpl; auto. lia.
      * destruct (sl_from_ok text (at_ + 1)) as (t1 & -> & Hl1); [lia|]. cbn [bind].
        destruct (has_extra_total (S (length text)) t1) as [b ->]; [unfold zlen in *; lia|]. cbn [bind].
        eexists; split; [reflexivity|]. split; simpl; auto. destruct b; simpl; auto. lia.
Qed.

(* stringLitEx never panics and never runs out of its fuel |text|+1, on any byte string; every
   expression span and every error offset lies inside the literal's text *)
Lemma split_total text : exists r, split_lit text = Ok r /\ res_in 0 (zlen text) r.
Proof. unfold split_lit. destruct (split_loop_total (S (length text)) [] 0 text false 0) as (r & H1 & H2); auto; try lia.
  exists r. split; auto. Qed.

(* ------------------------------------------------------------------ well-formed literals *)
Inductive form := FDD | FEmb (e : str).
Definition render_form (f : form) : str :=
  match f with FDD => [dollar; dollar] | FEmb e => dollar :: lbrace :: e ++ [rbrace] end.
Fixpoint render_items (l : list (str * form)) : str :=
  match l with [] => [] | (s, f) :: t => s ++ render_form f ++ render_items t end.
Definition tail_text (tl : str) (td : bool) : str := tl ++ (if td then [dollar] else []).
Definition render (l : list (str * form)) (tl : str) (td : bool) : str := render_items l ++ tail_text tl td.

Definition wf_item (x : str * form) : Prop :=
  no_byte dollar (fst x) /\ match snd x with FDD => True | FEmb e => no_byte rbrace e end.
Definition wf (l : list (str * form)) (tl : str) : Prop := Forall wf_item l /\ no_byte dollar tl.

Fixpoint parts_items (pos : Z) (l : list (str * form)) : list part :=
  match l with
  | [] => []
  | (s, FDD) :: t => PStr (s ++ [dollar; dollar]) :: parts_items (pos + zlen s + 2) t
  | (s, FEmb e) :: t =>
      (if is_empty s then [] else [PStr s]) ++
      PExpr (pos + zlen s + 2) (pos + zlen s + 2 + zlen e) :: parts_items (pos + zlen s + 2 + zlen e + 1) t
  end.
Definition tail_part (tl : str) (td : bool) : list part :=
  if is_empty (tail_text tl td) then [] else [PStr (tail_text tl td)].

Lemma render_items_empty l : render_items l = [] -> l = [].
Proof. destruct l as [|[s f] t]; auto. cbn [render_items]. destruct f; destruct s; discriminate. Qed.

Lemma tail_step tl td fuel parts pos : (length (tail_text tl td) < fuel)%nat -> no_byte dollar tl ->
  tail_text tl td <> [] ->
  split_loop fuel parts pos (tail_text tl td) true = Ok (Some (parts ++ [PStr (tail_text tl td)]), None).
Proof. intros Hf Hn Hne. destruct fuel as [|f]; [lia|]. cbn [split_loop]. unfold tail_text in *. destruct td.
  - rewrite index_byte_app by auto. rewrite zlen_app. change (zlen [dollar]) with 1. rewrite Z.eqb_refl, orb_true_r. reflexivity.
  - rewrite app_nil_r in *. rewrite index_byte_none by auto. reflexivity. Qed.

Lemma split_items : forall l fuel parts pos tl td,
  wf l tl -> (length (render l tl td) < fuel)%nat -> render l tl td <> [] ->
  split_loop fuel parts pos (render l tl td) true = Ok (Some (parts ++ parts_items pos l ++ tail_part tl td), None).
Proof.
  induction l as [|[s f] t IH]; intros fuel parts pos tl td [Hwf Htl] Hf Hne.
  - unfold render in *. cbn [render_items app parts_items] in *. unfold tail_part.
    destruct (is_empty (tail_text tl td)) eqn:E; [apply is_empty_spec in E; congruence|].
    now apply tail_step.
  - inversion Hwf as [|x y [Hs Hform] Hwf' Ex]; subst. cbn [fst snd] in *.
    destruct fuel as [|fu]; [lia|].
    assert (Hrest : forall parts' pos', (length (render t tl td) < fu)%nat ->
              (if is_empty (render t tl td) then Ok (Some parts', None) else split_loop fu parts' pos' (render t tl td) true)
              = Ok (Some (parts' ++ parts_items pos' t ++ tail_part tl td), None)).
    { intros parts' pos' Hlen. destruct (is_empty (render t tl td)) eqn:E.
      - apply is_empty_spec in E. unfold render in E. apply app_eq_nil in E as [E1 E2].
        apply render_items_empty in E1. subst t. unfold tail_part. rewrite E2. cbn. now rewrite app_nil_r.
      - apply IH; auto. split; auto. intros C. rewrite C in E. discriminate. }
    destruct f as [|e].
    + (* s $$ rest *)
      unfold render in *. cbn [render_items render_form] in *.
      set (rest := render_items t ++ tail_text tl td) in *.
      replace ((s ++ [dollar; dollar] ++ render_items t) ++ tail_text tl td) with (s ++ dollar :: dollar :: rest) in *
        by (unfold rest; rewrite <- !app_assoc; reflexivity).
      cbn [split_loop]. rewrite index_byte_app by auto.
      assert (L : zlen (s ++ dollar :: dollar :: rest) = zlen s + 2 + zlen rest) by (rewrite zlen_app, !zlen_cons; lia).
      replace ((zlen s <? 0) || (zlen s + 1 =? zlen (s ++ dollar :: dollar :: rest))) with false
        by (symmetry; apply orb_false_iff; pose proof (zlen_nonneg s); pose proof (zlen_nonneg rest); split; [apply Z.ltb_ge|apply Z.eqb_neq]; lia).
      replace (s ++ dollar :: dollar :: rest) with ((s ++ [dollar]) ++ dollar :: rest) at 1 by (rewrite <- app_assoc; reflexivity).
      replace (zlen s + 1) with (zlen (s ++ [dollar])) by (rewrite zlen_app; reflexivity).
      rewrite idx_app. cbn [bind]. change (N.eqb dollar lbrace) with false. change (N.eqb dollar dollar) with true. cbv iota.
      replace (s ++ dollar :: dollar :: rest) with ((s ++ [dollar; dollar]) ++ rest) by (rewrite <- app_assoc; reflexivity).
      replace (zlen s + 2) with (zlen (s ++ [dollar; dollar])) by (rewrite zlen_app; reflexivity).
      rewrite sl_to_app, sl_from_app. cbn [bind].
      rewrite Hrest.
      * rewrite zlen_app. change (zlen [dollar; dollar]) with 2. cbn [parts_items]. rewrite <- app_assoc.
        replace (pos + (zlen s + 2)) with (pos + zlen s + 2) by lia. reflexivity.
      * assert (length (s ++ dollar :: dollar :: rest) = (length s + 2 + length rest)%nat) by (rewrite app_length; cbn [length]; lia). lia.
    + (* s ${ e } rest *)
      rename Hform into He.
      unfold render in *. cbn [render_items render_form] in *.
      set (rest := render_items t ++ tail_text tl td) in *.
      replace ((s ++ (dollar :: lbrace :: e ++ [rbrace]) ++ render_items t) ++ tail_text tl td)
        with (s ++ dollar :: lbrace :: e ++ rbrace :: rest) in *
        by (unfold rest; cbn [app]; rewrite <- !app_assoc; cbn [app]; rewrite <- !app_assoc; reflexivity).
      cbn [split_loop]. rewrite index_byte_app by auto.
      assert (L : zlen (s ++ dollar :: lbrace :: e ++ rbrace :: rest) = zlen s + 2 + zlen e + 1 + zlen rest)
        by (rewrite zlen_app, !zlen_cons, zlen_app, zlen_cons; lia).
      replace ((zlen s <? 0) || (zlen s + 1 =? zlen (s ++ dollar :: lbrace :: e ++ rbrace :: rest))) with false
        by (symmetry; apply orb_false_iff; pose proof (zlen_nonneg s); pose proof (zlen_nonneg rest); pose proof (zlen_nonneg e);
            split; [apply Z.ltb_ge|apply Z.eqb_neq]; lia).
      replace (s ++ dollar :: lbrace :: e ++ rbrace :: rest) with ((s ++ [dollar]) ++ lbrace :: e ++ rbrace :: rest) at 1
        by (rewrite <- app_assoc; reflexivity).
      replace (zlen s + 1) with (zlen (s ++ [dollar])) by (rewrite zlen_app; reflexivity).
      rewrite idx_app. cbn [bind]. change (N.eqb lbrace lbrace) with true. cbv iota.
      replace (s ++ dollar :: lbrace :: e ++ rbrace :: rest) with ((s ++ [dollar; lbrace]) ++ e ++ rbrace :: rest) at 1
        by (rewrite <- app_assoc; reflexivity).
      replace (zlen s + 2) with (zlen (s ++ [dollar; lbrace])) at 1 by (rewrite zlen_app; reflexivity).
      rewrite sl_from_app. cbn [bind].
      assert (Ene : is_empty (e ++ rbrace :: rest) = false) by (destruct e; reflexivity). rewrite Ene.
      rewrite index_byte_app by auto.
      pose proof (zlen_nonneg e). replace (zlen e <? 0) with false by (symmetry; apply Z.ltb_ge; lia).
      rewrite sl_to_app. cbn [bind].
      replace (e ++ rbrace :: rest) with ((e ++ [rbrace]) ++ rest) by (rewrite <- app_assoc; reflexivity).
      replace (zlen e + 1) with (zlen (e ++ [rbrace])) by (rewrite zlen_app; reflexivity).
      rewrite sl_from_app. cbn [bind].
      rewrite Hrest.
      * cbn [parts_items]. rewrite is_empty_zlen.
        destruct (zlen s =? 0) eqn:Z0.
        -- cbn [app]. rewrite <- !app_assoc. cbn [app].
           replace (pos + (zlen s + 2 + zlen e) + 1) with (pos + zlen s + 2 + zlen e + 1) by lia.
           replace (pos + (zlen s + 2 + zlen e)) with (pos + zlen s + 2 + zlen e) by lia.
           replace (pos + (zlen s + 2)) with (pos + zlen s + 2) by lia. reflexivity.
        -- rewrite <- !app_assoc. cbn [app].
           replace (pos + (zlen s + 2 + zlen e) + 1) with (pos + zlen s + 2 + zlen e + 1) by lia.
           replace (pos + (zlen s + 2 + zlen e)) with (pos + zlen s + 2 + zlen e) by lia.
           replace (pos + (zlen s + 2)) with (pos + zlen s + 2) by lia. reflexivity.
      * assert (length (s ++ dollar :: lbrace :: e ++ rbrace :: rest) = (length s + 2 + length e + 1 + length rest)%nat)
          by (rewrite app_length; cbn [length]; rewrite app_length; cbn [length]; lia). lia.
Qed.

(* a literal without any $$ / ${} form is not an interpolated literal: Extra = nil *)
Lemma split_plain tl td : no_byte dollar tl -> split_lit (tail_text tl td) = Ok (None, None).
Proof. intros H. unfold split_lit. cbn [split_loop]. unfold tail_text. destruct td.
  - rewrite index_byte_app by auto. rewrite zlen_app. change (zlen [dollar]) with 1. rewrite Z.eqb_refl, orb_true_r. reflexivity.
  - rewrite app_nil_r. rewrite index_byte_none by auto. reflexivity. Qed.

Lemma first_step_extra f parts pos s c r : no_byte dollar s -> (c = dollar \/ c = lbrace) ->
  split_loop (S f) parts pos (s ++ dollar :: c :: r) false = split_loop (S f) parts pos (s ++ dollar :: c :: r) true.
Proof. intros Hs Hc. cbn [split_loop]. rewrite index_byte_app by auto.
  assert (L : zlen (s ++ dollar :: c :: r) = zlen s + 2 + zlen r) by (rewrite zlen_app, !zlen_cons; lia).
  replace ((zlen s <? 0) || (zlen s + 1 =? zlen (s ++ dollar :: c :: r))) with false
    by (symmetry; apply orb_false_iff; pose proof (zlen_nonneg s); pose proof (zlen_nonneg r); split; [apply Z.ltb_ge|apply Z.eqb_neq]; lia).
  rewrite idx_app_1. cbn [bind]. destruct Hc as [-> | ->]; reflexivity. Qed.

Lemma split_render l tl td : wf l tl -> l <> [] ->
  split_lit (render l tl td) = Ok (Some (parts_items 0 l ++ tail_part tl td), None).
Proof.
  intros W Hne. unfold split_lit.
  destruct l as [|[s f] t]; [congruence|].
  assert (T : exists c r, (c = dollar \/ c = lbrace) /\ render ((s, f) :: t) tl td = s ++ dollar :: c :: r).
  { unfold render. cbn [render_items]. destruct f; cbn [render_form].
    - exists dollar, (render_items t ++ tail_text tl td). split; auto. rewrite <- !app_assoc. reflexivity.
    - exists lbrace, ((e ++ [rbrace]) ++ render_items t ++ tail_text tl td). split; auto. rewrite <- !app_assoc. cbn [app]. rewrite <- !app_assoc. reflexivity. }
  destruct T as (c & r & Hc & E).
  destruct W as [Hwf Htl]. pose proof Hwf as Hwf0. inversion Hwf as [|x y [Hs _] _ Ex]; subst. cbn [fst] in Hs.
  rewrite E at 2. rewrite first_step_extra by auto. rewrite <- E.
  rewrite (split_items ((s, f) :: t) _ [] 0 tl td); [reflexivity| split; auto | lia |].
  rewrite E. destruct s; discriminate.
Qed.

(* ------------------------------------------------------------------ the spans are the embedded sources *)
Definition slice (text : str) (a b : Z) : str := firstn (Z.to_nat (b - a)) (skipn (Z.to_nat a) text).

Lemma slice_app pre mid post : slice (pre ++ mid ++ post) (zlen pre) (zlen pre + zlen mid) = mid.
Proof. unfold slice. replace (zlen pre + zlen mid - zlen pre) with (zlen mid) by lia. unfold zlen. rewrite !Nat2Z.id.
  rewrite skipn_app, skipn_all, Nat.sub_diag. cbn [skipn app]. rewrite firstn_app, firstn_all, Nat.sub_diag. cbn [firstn]. apply app_nil_r. Qed.

Section Sem.
  Variable err_text : err -> str.
  Variable self : stmt -> env -> trace -> sres.
  Variable lit_val : str -> str.          (* value of the Go literal body between the quotes *)
  (* a '$' is never part of an escape sequence: it stands for itself and separates the text around it *)
  Hypothesis lit_val_dollar : forall a b, lit_val (a ++ dollar :: b) = lit_val a ++ dollar :: lit_val b.
  Hypothesis lit_val_nil : lit_val [] = [].
  Variable parse : str -> ty * expr.      (* ParseExprEx + static type of an embedded expression *)
  Notation ev := (ev err_text self).

  Definition cpart_of (text : str) (p : part) : cpart :=
    match p with PStr s => CStr s | PExpr a b => let '(t, e) := parse (slice text a b) in CExpr t e end.

  Fixpoint citems (l : list (str * form)) : list cpart :=
    match l with
    | [] => []
    | (s, FDD) :: t => CStr (s ++ [dollar; dollar]) :: citems t
    | (s, FEmb e) :: t => (if is_empty s then [] else [CStr s]) ++ (let '(ty, x) := parse e in CExpr ty x) :: citems t
    end.
  Definition ctail (tl : str) (td : bool) : list cpart :=
    if is_empty (tail_text tl td) then [] else [CStr (tail_text tl td)].

  Lemma cparts_items : forall l pre post,
    map (cpart_of (pre ++ render_items l ++ post)) (parts_items (zlen pre) l) = citems l.
  Proof.
    induction l as [|[s f] t IH]; intros pre post; [reflexivity|]. destruct f as [|e]; cbn [render_items render_form parts_items citems map].
    - f_equal. replace (pre ++ (s ++ [dollar; dollar] ++ render_items t) ++ post) with ((pre ++ s ++ [dollar; dollar]) ++ render_items t ++ post)
        by (rewrite <- !app_assoc; reflexivity).
      replace (zlen pre + zlen s + 2) with (zlen (pre ++ s ++ [dollar; dollar])) by (rewrite !zlen_app; change (zlen [dollar; dollar]) with 2; lia).
      apply IH.
    - rewrite map_app. cbn [map]. f_equal; [destruct (is_empty s); reflexivity|]. f_equal.
      + cbn [cpart_of].
        replace (pre ++ (s ++ (dollar :: lbrace :: e ++ [rbrace]) ++ render_items t) ++ post)
          with ((pre ++ s ++ [dollar; lbrace]) ++ e ++ ([rbrace] ++ render_items t ++ post))
          by (rewrite <- !app_assoc; cbn [app]; rewrite <- !app_assoc; reflexivity).
        replace (zlen pre + zlen s + 2) with (zlen (pre ++ s ++ [dollar; lbrace])) by (rewrite !zlen_app; change (zlen [dollar; lbrace]) with 2; lia).
        rewrite slice_app. reflexivity.
      + replace (pre ++ (s ++ (dollar :: lbrace :: e ++ [rbrace]) ++ render_items t) ++ post)
          with ((pre ++ s ++ dollar :: lbrace :: e ++ [rbrace]) ++ render_items t ++ post)
          by (rewrite <- !app_assoc; cbn [app]; rewrite <- !app_assoc; reflexivity).
        replace (zlen pre + zlen s + 2 + zlen e + 1) with (zlen (pre ++ s ++ dollar :: lbrace :: e ++ [rbrace]))
          by (rewrite !zlen_app, !zlen_cons, zlen_app; change (zlen [rbrace]) with 1; lia).
        apply IH.
  Qed.

  Lemma cparts_render l tl td :
    map (cpart_of (render l tl td)) (parts_items 0 l ++ tail_part tl td) = citems l ++ ctail tl td.
  Proof. rewrite map_app. f_equal.
    - apply (cparts_items l [] (tail_text tl td)).
    - unfold tail_part, ctail. destruct (is_empty (tail_text tl td)); reflexivity. Qed.

  (* ---------------------------------------------------------------- strip of the `$$` suffix *)
  Lemma hsd_cons a b c t : has_suffix_dd (a :: b :: c :: t) = has_suffix_dd (b :: c :: t).
  Proof. reflexivity. Qed.
  (* has_suffix_dd only looks at the last two bytes *)
  Lemma hsd_app : forall s a b, has_suffix_dd (s ++ [a; b]) = N.eqb a dollar && N.eqb b dollar.
  Proof. induction s as [|x s IH]; intros a b; [reflexivity|].
    destruct s as [|y s]; [reflexivity|]. cbn [app] in *. destruct (s ++ [a; b]) as [|z u] eqn:E; [destruct s; discriminate|].
    rewrite hsd_cons. rewrite <- E. apply (IH a b). Qed.

  Lemma has_suffix_dd_app s : has_suffix_dd (s ++ [dollar; dollar]) = true.
  Proof. apply hsd_app. Qed.

  Lemma removelast_app2 (s : str) a b : removelast (s ++ [a; b]) = s ++ [a].
  Proof. replace (s ++ [a; b]) with ((s ++ [a]) ++ [b]) by (rewrite <- app_assoc; reflexivity). apply removelast_last. Qed.

  Lemma strip_dd_app s : strip_dd (s ++ [dollar; dollar]) = s ++ [dollar].
  Proof. unfold strip_dd. rewrite has_suffix_dd_app. apply removelast_app2. Qed.

  (* a piece whose last byte is not '$', or whose last-but-one byte is not '$', is left alone *)
  Lemma strip_dd_nodollar s : no_byte dollar s -> strip_dd s = s.
  Proof. intros H. unfold strip_dd. destruct s as [|x t] using rev_ind; [reflexivity|]. clear IHt.
    apply Forall_app in H as [Ht Hx]. inversion Hx as [|? ? Hx' _]; subst. apply N.eqb_neq in Hx'.
    destruct t as [|y u] using rev_ind.
    - cbn. reflexivity.
    - rewrite <- app_assoc. cbn [app]. rewrite hsd_app. rewrite Hx'. now rewrite andb_false_r. Qed.

  Lemma strip_dd_tail s : no_byte dollar s -> strip_dd (s ++ [dollar]) = s ++ [dollar].
  Proof. intros H. unfold strip_dd. destruct s as [|x t] using rev_ind; [reflexivity|]. clear IHt.
    apply Forall_app in H as [_ Hx]. inversion Hx as [|? ? Hx' _]; subst. apply N.eqb_neq in Hx'.
    rewrite <- app_assoc. cbn [app]. rewrite hsd_app. now rewrite Hx'. Qed.

  (* ---------------------------------------------------------------- semantics *)
  Definition to_str (t : ty) (v : val) : option str :=
    match t, v with
    | TStr, VStr s => Some s
    | TInt, VInt z => Some (itoa z)
    | TFloat, VFloat r => Some r
    | TErr, VErr (Some x) => Some (err_text x)
    | _, _ => None
    end.
  (* an operand: evaluates (from any trace) to one value of its static type, appends its own events,
     leaves the environment alone; sv is the string form the property speaks of *)
  Definition operand_ok (en : env) (t : ty) (x : expr) (sv : str) (te : trace) : Prop :=
    exists v, (forall tr, ev x en tr = (RVal [v], en, tr ++ te)) /\ to_str t v = Some sv.

  (* the documented meaning: literal pieces with `$$` read as `$`, string forms of the operands, in
     order; the effects are the operands' effects, each once, left to right *)
  Inductive items_sem (en : env) : list (str * form) -> str -> trace -> Prop :=
    | IS_nil : items_sem en [] [] []
    | IS_dd s t v te : items_sem en t v te -> items_sem en ((s, FDD) :: t) (lit_val s ++ dollar :: v) te
    | IS_emb s e t ty x sv te1 v te :
        parse e = (ty, x) -> operand_ok en ty x sv te1 -> items_sem en t v te ->
        items_sem en ((s, FEmb e) :: t) (lit_val s ++ sv ++ v) (te1 ++ te).
  Definition tail_val (tl : str) (td : bool) : str := lit_val tl ++ (if td then [dollar] else []).

  Lemma lower_operand en t x sv te : operand_ok en t x sv te ->
    exists E, lower_part lit_val (CExpr t x) = Some E /\ forall tr, ev E en tr = (RVal [VStr sv], en, tr ++ te).
  Proof. intros (v & Hev & Hs). unfold lower_part.
    destruct t, v as [z|b|s|r|[x0|]|l|l|a b c]; try discriminate; cbn [string_conv to_str] in *; injection Hs as <-.
    - eexists; split; [reflexivity|]. intros tr. rewrite ev_EToStr. unfold ev1. rewrite Hev. reflexivity.
    - eexists; split; [reflexivity|]. exact Hev.
    - eexists; split; [reflexivity|]. intros tr. rewrite ev_EToStr. unfold ev1. rewrite Hev. reflexivity.
    - eexists; split; [reflexivity|]. intros tr. rewrite ev_EToStr. unfold ev1. rewrite Hev. reflexivity.
  Qed.

  (* an expression that yields the string sv, with events te, and leaves the environment alone *)
  Definition pev (en : env) (E : expr) (sv : str) (te : trace) : Prop :=
    forall tr, ev E en tr = (RVal [VStr sv], en, tr ++ te).

  Lemma ev_list_pev en : forall es svs tes, Forall3 (pev en) es svs tes ->
    forall tr, ev_list err_text self es en tr = (RVal (map VStr svs), en, tr ++ concat tes).
  Proof. induction 1 as [|E sv te es svs tes H _ IH]; intros tr.
    - cbn. now rewrite app_nil_r.
    - cbn [ev_list map concat]. rewrite H. cbn [one]. rewrite IH. now rewrite app_assoc. Qed.

  Lemma strs_map svs : strs (map VStr svs) = Some (concat svs).
  Proof. induction svs as [|s t IH]; [reflexivity|]. cbn [map strs concat]. now rewrite IH. Qed.

  (* lowering of a list of parts, each of which is a pev *)
  Lemma lower_interp_pev en ps es svs tes :
    lower_parts lit_val ps = Some es -> Forall3 (pev en) es svs tes -> ps <> [] ->
    exists E, lower_interp lit_val ps = Some E /\ pev en E (concat svs) (concat tes).
  Proof. intros HL HF Hne. unfold lower_interp. rewrite HL.
    assert (C : pev en (EConcat es) (concat svs) (concat tes)).
    { intros tr. rewrite ev_EConcat. rewrite (ev_list_pev en es svs tes HF). now rewrite strs_map. }
    destruct es as [|E [|E2 t]]; eauto.
    inversion HF as [|? sv te ? svs' tes' H1 H2]; subst. inversion H2; subst.
    exists E. split; [reflexivity|]. cbn [concat]. rewrite !app_nil_r. exact H1. Qed.

  Lemma lower_parts_app a b : lower_parts lit_val (a ++ b) =
    match lower_parts lit_val a, lower_parts lit_val b with Some x, Some y => Some (x ++ y) | _, _ => None end.
  Proof. induction a as [|p t IH]; cbn [app lower_parts].
    - destruct (lower_parts lit_val b); reflexivity.
    - rewrite IH. destruct (lower_part lit_val p); [|reflexivity].
      destruct (lower_parts lit_val t); [|reflexivity]. destruct (lower_parts lit_val b); reflexivity. Qed.

  Lemma Forall3_app {A B C} (R : A -> B -> C -> Prop) a1 b1 c1 a2 b2 c2 :
    Forall3 R a1 b1 c1 -> Forall3 R a2 b2 c2 -> Forall3 R (a1 ++ a2) (b1 ++ b2) (c1 ++ c2).
  Proof. induction 1; intros; cbn [app]; auto. constructor; auto. Qed.

  Lemma pev_const en x : pev en (EConst (VStr x)) x [].
  Proof. intros tr. rewrite ev_EConst. now rewrite app_nil_r. Qed.

  Lemma lit_val_snoc_dollar a : lit_val (a ++ [dollar]) = lit_val a ++ [dollar].
  Proof. rewrite lit_val_dollar. now rewrite lit_val_nil. Qed.

  Lemma citems_sem en l v te : Forall wf_item l -> items_sem en l v te ->
    exists es svs tes, lower_parts lit_val (citems l) = Some es /\ Forall3 (pev en) es svs tes /\
                       concat svs = v /\ concat tes = te.
  Proof.
    intros W H. induction H as [|s t v te H IH|s e t ty x sv te1 v te Hp Hop H IH].
    - exists [], [], []. repeat split; constructor.
    - inversion W as [|? ? [Hs _] W']; subst. destruct (IH W') as (es & svs & tes & HL & HF & Hv & Ht).
      exists (EConst (VStr (lit_val s ++ [dollar])) :: es), ((lit_val s ++ [dollar]) :: svs), ([] :: tes).
      cbn [citems lower_parts lower_part]. rewrite HL, strip_dd_app, lit_val_snoc_dollar. repeat split.
      + constructor; auto. apply pev_const.
      + cbn [concat]. rewrite Hv, <- app_assoc. reflexivity.
      + cbn [concat]. exact Ht.
    - inversion W as [|? ? [Hs _] W']; subst. cbn [fst] in Hs. destruct (IH W') as (es & svs & tes & HL & HF & Hv & Ht).
      destruct (lower_operand en ty x sv te1 Hop) as (E & HE & HEv).
      cbn [citems]. rewrite Hp. destruct (is_empty s) eqn:Es.
      + apply is_empty_spec in Es. subst s. rewrite lit_val_nil.
        exists (E :: es), (sv :: svs), (te1 :: tes). cbn [app lower_parts]. rewrite HE, HL. repeat split.
        * constructor; auto.
        * cbn [concat app]. now rewrite Hv.
        * cbn [concat]. now rewrite Ht.
      + exists (EConst (VStr (lit_val s)) :: E :: es), (lit_val s :: sv :: svs), ([] :: te1 :: tes).
        cbn [app lower_parts]. rewrite HE, HL. cbn [lower_part]. rewrite strip_dd_nodollar by auto. repeat split.
        * constructor; [apply pev_const|]. constructor; auto.
        * cbn [concat]. now rewrite Hv.
        * cbn [concat app]. now rewrite Ht.
  Qed.

  Lemma ctail_sem en tl td : no_byte dollar tl ->
    exists es svs tes, lower_parts lit_val (ctail tl td) = Some es /\ Forall3 (pev en) es svs tes /\
                       concat svs = tail_val tl td /\ concat tes = [].
  Proof. intros H. unfold ctail, tail_val. destruct (is_empty (tail_text tl td)) eqn:E.
    - apply is_empty_spec in E. unfold tail_text in E. apply app_eq_nil in E as [-> E2]. destruct td; [discriminate|].
      exists [], [], []. rewrite lit_val_nil. repeat split; constructor.
    - unfold tail_text in *. destruct td.
      + exists [EConst (VStr (lit_val tl ++ [dollar]))], [lit_val tl ++ [dollar]], [[]].
        cbn [lower_parts lower_part]. rewrite strip_dd_tail by auto. rewrite lit_val_snoc_dollar.
        split; [reflexivity|]. split; [constructor; [apply pev_const|constructor]|]. cbn [concat]. rewrite !app_nil_r. auto.
      + rewrite app_nil_r in *. exists [EConst (VStr (lit_val tl))], [lit_val tl], [[]].
        cbn [lower_parts lower_part]. rewrite strip_dd_nodollar by auto.
        split; [reflexivity|]. split; [constructor; [apply pev_const|constructor]|]. cbn [concat]. rewrite !app_nil_r. auto. Qed.

  (* end to end: split by the parser model, lower by the compiler model, evaluate *)
  Lemma interp_correct en l tl td v te : wf l tl -> l <> [] -> items_sem en l v te ->
    exists ps E, split_lit (render l tl td) = Ok (Some ps, None) /\
                 lower_interp lit_val (map (cpart_of (render l tl td)) ps) = Some E /\
                 forall tr, ev E en tr = (RVal [VStr (v ++ tail_val tl td)], en, tr ++ te).
  Proof.
    intros W Hne HS. exists (parts_items 0 l ++ tail_part tl td). rewrite (split_render l tl td W Hne).
    rewrite cparts_render. destruct W as [Wl Wt].
    destruct (citems_sem en l v te Wl HS) as (es1 & sv1 & te1 & L1 & F1 & V1 & T1).
    destruct (ctail_sem en tl td Wt) as (es2 & sv2 & te2 & L2 & F2 & V2 & T2).
    assert (HL : lower_parts lit_val (citems l ++ ctail tl td) = Some (es1 ++ es2)) by (rewrite lower_parts_app, L1, L2; reflexivity).
    assert (Hne' : citems l ++ ctail tl td <> []).
    { destruct l as [|[s f] t]; [congruence|]. destruct f; cbn [citems]; [discriminate|].
      destruct (is_empty s); destruct (parse e); discriminate. }
    destruct (lower_interp_pev en _ _ _ _ HL (Forall3_app _ _ _ _ _ _ _ F1 F2) Hne') as (E & HE & HP).
    exists E. split; [reflexivity|]. split; [exact HE|]. intros tr. rewrite (HP tr).
    rewrite !concat_app, V1, V2, T1, T2, app_nil_r. reflexivity.
  Qed.

  (* ---------------------------------------------------------------- explicit concatenation *)
  (* the operands of the explicit form  "" + s0 + "$" + s1 + conv(e1) + ... *)
  Definition conv_expr (t : ty) (x : expr) : expr :=
    match string_conv t with SCid => x | SCconv c => EToStr c x | SCnone => EToStr CBool x end.
  Fixpoint explicit_items (l : list (str * form)) : list expr :=
    match l with
    | [] => []
    | (s, FDD) :: t => EConst (VStr (lit_val s)) :: EConst (VStr [dollar]) :: explicit_items t
    | (s, FEmb e) :: t => EConst (VStr (lit_val s)) :: (let '(ty, x) := parse e in conv_expr ty x) :: explicit_items t
    end.
  Definition explicit_tail (tl : str) (td : bool) : list expr :=
    EConst (VStr (lit_val tl)) :: if td then [EConst (VStr [dollar])] else [].
  Definition plus_chain (es : list expr) : expr := fold_left (EBin BAdd) es (EConst (VStr [])).
  Definition explicit_concat (l : list (str * form)) (tl : str) (td : bool) : expr :=
    plus_chain (explicit_items l ++ explicit_tail tl td).

  Lemma plus_fold en : forall es svs tes, Forall3 (pev en) es svs tes ->
    forall acc sacc tacc, pev en acc sacc tacc ->
    pev en (fold_left (EBin BAdd) es acc) (sacc ++ concat svs) (tacc ++ concat tes).
  Proof. induction 1 as [|E sv te es svs tes H _ IH]; intros acc sacc tacc Ha.
    - cbn [fold_left concat]. now rewrite !app_nil_r.
    - cbn [fold_left concat]. rewrite !app_assoc. apply IH.
      intros tr. rewrite ev_EBin. unfold ev1. rewrite Ha. cbn [one]. rewrite H. cbn [one bin_eval].
      now rewrite <- app_assoc. Qed.

  Lemma explicit_items_sem en l v te : items_sem en l v te ->
    exists svs tes, Forall3 (pev en) (explicit_items l) svs tes /\ concat svs = v /\ concat tes = te.
  Proof. induction 1 as [|s t v te H IH|s e t ty x sv te1 v te Hp Hop H IH].
    - exists [], []. repeat split; constructor.
    - destruct IH as (svs & tes & HF & Hv & Ht).
      exists (lit_val s :: [dollar] :: svs), ([] :: [] :: tes). cbn [explicit_items]. repeat split.
      + constructor; [apply pev_const|]. constructor; [apply pev_const|exact HF].
      + cbn [concat]. rewrite Hv. reflexivity.
      + cbn [concat]. exact Ht.
    - destruct IH as (svs & tes & HF & Hv & Ht).
      destruct (lower_operand en ty x sv te1 Hop) as (E & HE & HEv).
      assert (E = conv_expr ty x) as ->.
      { unfold lower_part in HE. unfold conv_expr. destruct (string_conv ty); congruence. }
      exists (lit_val s :: sv :: svs), ([] :: te1 :: tes). cbn [explicit_items]. rewrite Hp. repeat split.
      + constructor; [apply pev_const|]. constructor; [exact HEv|exact HF].
      + cbn [concat]. now rewrite Hv.
      + cbn [concat app]. now rewrite Ht.
  Qed.

  Lemma explicit_correct en l tl td v te : items_sem en l v te ->
    forall tr, ev (explicit_concat l tl td) en tr = (RVal [VStr (v ++ tail_val tl td)], en, tr ++ te).
  Proof.
    intros HS. destruct (explicit_items_sem en l v te HS) as (svs & tes & HF & Hv & Ht).
    assert (HT : Forall3 (pev en) (explicit_tail tl td) (lit_val tl :: if td then [[dollar]] else []) ([] :: if td then [[]] else [])).
    { unfold explicit_tail. constructor; [apply pev_const|]. destruct td; [constructor; [apply pev_const|constructor]|constructor]. }
    pose proof (plus_fold en _ _ _ (Forall3_app _ _ _ _ _ _ _ HF HT) (EConst (VStr [])) [] [] (pev_const en [])) as P.
    intros tr. unfold explicit_concat, plus_chain. rewrite (P tr). cbn [app]. rewrite !concat_app, Hv, Ht.
    unfold tail_val. destruct td; cbn [concat]; rewrite ?app_nil_r; reflexivity.
  Qed.

  (* string interpolation equals explicit concatenation: same value, same environment, same effects *)
  Lemma interp_eq_explicit en l tl td v te : wf l tl -> l <> [] -> items_sem en l v te ->
    exists ps E, split_lit (render l tl td) = Ok (Some ps, None) /\
                 lower_interp lit_val (map (cpart_of (render l tl td)) ps) = Some E /\
                 forall tr, ev E en tr = ev (explicit_concat l tl td) en tr.
  Proof. intros W Hne HS. destruct (interp_correct en l tl td v te W Hne HS) as (ps & E & A & B & C).
    exists ps, E. repeat split; auto. intros tr. rewrite C. symmetry. now apply explicit_correct. Qed.

  (* the compiler has no `.string` for bool: the documented meaning exists, the lowering does not *)
  Lemma interp_bool_rejected x : lower_interp lit_val [CExpr TBool x] = None.
  Proof. reflexivity. Qed.
End Sem.

Lemma interp_value :
  forall (err_text : err -> str) (self : stmt -> env -> trace -> sres) (lit_val : str -> str),
  (forall a b, lit_val (a ++ dollar :: b) = lit_val a ++ dollar :: lit_val b) -> lit_val [] = [] ->
  forall (parse : str -> ty * expr) en l tl td v te,
  wf l tl -> l <> [] -> items_sem err_text self lit_val parse en l v te ->
  exists ps E, split_lit (render l tl td) = Ok (Some ps, None) /\
               lower_interp lit_val (map (cpart_of parse (render l tl td)) ps) = Some E /\
               forall tr, fst (fst (ev err_text self E en tr)) = RVal [VStr (v ++ tail_val lit_val tl td)].
Proof. intros et self lv H1 H2 parse en l tl td v te W Hne HS.
  destruct (interp_correct et self lv H1 H2 parse en l tl td v te W Hne HS) as (ps & E & A & B & C).
  exists ps, E. repeat split; auto. intros tr. now rewrite C. Qed.
