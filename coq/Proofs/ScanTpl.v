(* C32: TPL scanner vs XGo scanner - divergence witnesses on shared lexemes. *)
From Coq Require Import List NArith ZArith Bool Lia.
Import ListNotations.
From V Require Import Base.Prelude Gen.ScanTok Model.Scan Model.ScanRel.
Open Scope Z_scope.

Section WithUni.
Variable ul ud : Z -> bool.

Definition w_unit_space : str := [49; 109; 32; 120]%N.                 (* 1m x *)
Definition w_sharp_cr : str := [35; 97; 13; 10]%N.                     (* #a\r\n *)
Definition w_sharp_star : str := [35; 42; 10; 42; 47]%N.               (* #*\n*/ *)
Definition w_block_cr : str := [47; 42; 120; 42; 13; 47; 42; 47]%N.    (* /*x*\r/*/ *)

(* repaired (tpl/scanner no longer skips blanks while a unit is pending): the UNIT token is at
   offset 1 in both dialects *)
Lemma unit_space_streams :
  astream ul ud Tpl true w_unit_space
    = Some [(T_INT, 0, [49%N]); (T_UNIT, 1, [109%N]); (T_IDENT, 3, [120%N]); (T_SEMICOLON, 4, [10%N]); (T_EOF, 4, [])]
  /\ astream ul ud Tpl true w_unit_space = astream ul ud XGo true w_unit_space
  /\ astream ul ud Tpl false w_unit_space = astream ul ud XGo false w_unit_space.
Proof. repeat split; vm_compute; reflexivity. Qed.
(* a '#' comment keeps its carriage return in TPL, loses it in XGo *)
Lemma sharp_cr_streams :
  astream ul ud XGo true w_sharp_cr = Some [(T_COMMENT, 0, [35; 97]%N); (T_EOF, 4, [])]
  /\ astream ul ud Tpl true w_sharp_cr = Some [(T_COMMENT, 0, [35; 97; 13]%N); (T_EOF, 4, [])].
Proof. split; vm_compute; reflexivity. Qed.
(* "#*" opens a block comment in XGo (scanComment looks at the character after the '#') *)
Lemma sharp_star_streams :
  astream ul ud XGo true w_sharp_star = Some [(T_COMMENT, 0, [35; 42; 10; 42; 47]%N); (T_EOF, 5, [])]
  /\ astream ul ud Tpl true w_sharp_star
     = Some [(T_COMMENT, 0, [35; 42]%N); (T_MUL, 3, []); (T_QUO, 4, []); (T_EOF, 5, [])].
Proof. split; vm_compute; reflexivity. Qed.
(* stripCR: XGo keeps the \r of "*\r/" inside a block comment, TPL deletes every \r *)
Lemma block_cr_streams :
  astream ul ud XGo true w_block_cr = Some [(T_COMMENT, 0, [47; 42; 120; 42; 13; 47; 42; 47]%N); (T_EOF, 8, [])]
  /\ astream ul ud Tpl true w_block_cr = Some [(T_COMMENT, 0, [47; 42; 120; 42; 47; 42; 47]%N); (T_EOF, 8, [])].
Proof. split; vm_compute; reflexivity. Qed.
End WithUni.
