(* Lemmas for C25: the Go->XGo style conversion preserves the trace of MiniGo programs. *)
From Coq Require Import List NArith ZArith Bool Lia ZifyN ZifyBool.
Import ListNotations.
From V Require Import Base.Prelude Gen.C25 Model.C25.

Scheme expr_mut := Induction for expr Sort Prop
with exprs_mut := Induction for exprs Sort Prop
with stmt_mut := Induction for stmt Sort Prop
with stmts_mut := Induction for stmts Sort Prop.
Combined Scheme syntax_mutind from expr_mut, exprs_mut, stmt_mut, stmts_mut.

(* ================================================================ obligations on the generated tables *)

(* every fmt function of printFuncs is exported, its builtin spelling is not, and the XGo builtin the
   formatter substitutes (after the println -> echo renaming) denotes exactly that fmt function *)
Definition tables_ok : bool :=
  forallb (fun ul => exported (fst ul) && negb (exported (snd ul)) &&
                     match sassoc (rename_builtin (snd ul)) c25_xgo_builtins with
                     | Some (p, f) => str_eqb p c25_fmt_path && str_eqb f (fst ul)
                     | None => false
                     end) c25_print_funcs.

Lemma tables_ok_true : tables_ok = true.
Proof. vm_compute. reflexivity. Qed.

Lemma lower_range : c25_lower_lo = 65%N /\ c25_lower_hi = 90%N.
Proof. vm_compute. auto. Qed.

Lemma find_print_in sel tbl l : find_print sel tbl = Some l ->
  exists u, In (u, l) tbl /\ (str_eqb u sel = true \/ str_eqb l sel = true).
Proof.
  induction tbl as [|[u l'] t IH]; cbn [find_print]; intros H; [discriminate|].
  destruct (str_eqb u sel || c25_match_both && str_eqb l' sel)%bool eqn:E.
  - inversion H; subst. exists u. split; [simpl; auto|].
    apply orb_prop in E. destruct E as [E | E]; [auto|]. apply andb_prop in E. tauto.
  - apply IH in H. destruct H as [u0 [H1 H2]]. exists u0. simpl. auto.
Qed.

(* the builtin substituted for fmt.<sel>, sel exported, is bound to (fmt, sel) in the XGo builtin table *)
Lemma fmt_to_builtin_sound path sel b : fmt_to_builtin path sel = Some b -> exported sel = true ->
  path = c25_fmt_path /\ sassoc b c25_xgo_builtins = Some (c25_fmt_path, sel) /\ is_subst b = true.
Proof.
  unfold fmt_to_builtin. destruct (str_eqb path c25_fmt_path) eqn:Ep; [|discriminate].
  apply str_eqb_eq in Ep. destruct (find_print sel c25_print_funcs) as [l|] eqn:Ef; [|simpl; discriminate].
  cbn [option_map]. intros H Hex. inversion H; subst b. apply find_print_in in Ef. destruct Ef as [u [Hin Hm]].
  pose proof tables_ok_true as Ht. unfold tables_ok in Ht. rewrite forallb_forall in Ht.
  specialize (Ht _ Hin). cbn [fst snd] in Ht.
  apply andb_prop in Ht. destruct Ht as [Ht Ht3]. apply andb_prop in Ht. destruct Ht as [Ht1 Ht2].
  assert (Hu : u = sel).
  { destruct Hm as [Hm | Hm]; apply str_eqb_eq in Hm; [exact Hm|].
    subst l. rewrite Hex in Ht2. discriminate. }
  subst u. split; [exact Ep|]. split.
  - destruct (sassoc (rename_builtin l) c25_xgo_builtins) as [[p f]|]; [|discriminate].
    apply andb_prop in Ht3. destruct Ht3 as [Hp Hf]. apply str_eqb_eq in Hp, Hf. subst. reflexivity.
  - unfold is_subst. apply existsb_exists. exists (sel, l). split; [exact Hin|]. simpl. apply str_eqb_eq. reflexivity.
Qed.

Lemma str_eqb_refl s : str_eqb s s = true.
Proof. apply str_eqb_eq. reflexivity. Qed.

(* capitalisation facts *)
Lemma upper_lower s : exported s = true -> upper_first (lower_first s) = s.
Proof.
  destruct s as [|c t]; simpl; [discriminate|]. intros H. rewrite H. simpl.
  unfold is_upper in H. destruct lower_range as [Hlo Hhi]. rewrite Hlo, Hhi in H.
  unfold is_lower. assert ((97 <=? c + 32) && (c + 32 <=? 122) = true)%N as -> by lia.
  f_equal. lia.
Qed.

Lemma lower_not_exported s : exported s = true -> exported (lower_first s) = false.
Proof.
  destruct s as [|c t]; simpl; [discriminate|]. intros H. rewrite H. simpl.
  unfold is_upper in *. destruct lower_range as [Hlo Hhi]. rewrite Hlo, Hhi in *. lia.
Qed.

Lemma lower_id s : exported s = false -> lower_first s = s.
Proof. destruct s as [|c t]; simpl; [reflexivity|]. intros H. rewrite H. reflexivity. Qed.

(* ================================================================ the conversion without scope tracking *)

Definition act0 (im : list (name * str)) (x sel : name) : option str :=
  match sassoc x im with Some path => fmt_to_builtin path sel | None => None end.

Section T.
Variable im : list (name * str).

Fixpoint t_e (e : expr) : expr :=
  match e with
  | EInt _ | EStr _ | EVar _ => e
  | EAdd a b => EAdd (t_e a) (t_e b)
  | ECall f args => ECall f (t_args args)
  | ESel x sel args =>
      match act0 im x sel with
      | Some b => ECall b (t_args args)
      | None => ESel x (lower_first sel) (t_args args)
      end
  | EField x f => match act0 im x f with Some b => EVar b | None => EField x f end
  | EFuncLit ps res body => EFuncLit ps res (t_ss body)
  | ELambda ps rhs => ELambda ps (t_es rhs)
  | ELambda2 ps body => ELambda2 ps (t_ss body)
  | ENew t e1 => ENew t (t_e e1)
  end
with t_es (es : exprs) : exprs :=
  match es with ENil => ENil | ECons e t => ECons (t_e e) (t_es t) end
with t_args (es : exprs) : exprs :=
  match es with
  | ENil => ENil
  | ECons e t =>
      ECons (match e with
             | EFuncLit ps res body =>
                 match body with
                 | SCons (SReturn rs) SNil =>
                     if lam_ok res rs then ELambda ps (t_es rs) else ELambda2 ps (t_ss body)
                 | _ => ELambda2 ps (t_ss body)
                 end
             | _ => t_e e
             end) (t_args t)
  end
with t_s (s : stmt) : stmt :=
  match s with
  | SExpr cmd e => SExpr (match e with ECall _ _ | ESel _ _ _ => true | _ => cmd end) (t_e e)
  | SDefine x e => SDefine x (t_e e)
  | SVar x e => SVar x (t_e e)
  | SIf c thn els => SIf (t_e c) (t_ss thn) (t_ss els)
  | SReturn r => SReturn (t_es r)
  | SBlock b => SBlock (t_ss b)
  end
with t_ss (ss : stmts) : stmts :=
  match ss with SNil => SNil | SCons s t => SCons (t_s s) (t_ss t) end.

Definition t_decl (d : decl) : decl :=
  match d with
  | DVar x e => DVar x (t_e e)
  | DFunc f ps res b => DFunc f ps res (t_ss b)
  | DMethod ty r m ps res b => DMethod ty r m ps res (t_ss b)
  | _ => d
  end.
End T.

(* one-step unfolding equations *)
Lemma t_e_eq im e : t_e im e =
  match e with
  | EInt _ | EStr _ | EVar _ => e
  | EAdd a b => EAdd (t_e im a) (t_e im b)
  | ECall f args => ECall f (t_args im args)
  | ESel x sel args =>
      match act0 im x sel with
      | Some b => ECall b (t_args im args)
      | None => ESel x (lower_first sel) (t_args im args)
      end
  | EField x f => match act0 im x f with Some b => EVar b | None => EField x f end
  | EFuncLit ps res body => EFuncLit ps res (t_ss im body)
  | ELambda ps rhs => ELambda ps (t_es im rhs)
  | ELambda2 ps body => ELambda2 ps (t_ss im body)
  | ENew t e1 => ENew t (t_e im e1)
  end.
Proof. destruct e; reflexivity. Qed.

Lemma t_es_eq im es : t_es im es = match es with ENil => ENil | ECons e t => ECons (t_e im e) (t_es im t) end.
Proof. destruct es; reflexivity. Qed.

Definition t_arg (im : list (name * str)) (e : expr) : expr :=
  match e with
  | EFuncLit ps res body =>
      match body with
      | SCons (SReturn rs) SNil =>
          if lam_ok res rs then ELambda ps (t_es im rs) else ELambda2 ps (t_ss im body)
      | _ => ELambda2 ps (t_ss im body)
      end
  | _ => t_e im e
  end.

Lemma t_args_eq im es : t_args im es = match es with ENil => ENil | ECons e t => ECons (t_arg im e) (t_args im t) end.
Proof. destruct es; reflexivity. Qed.

Lemma t_s_eq im s : t_s im s =
  match s with
  | SExpr cmd e => SExpr (match e with ECall _ _ | ESel _ _ _ => true | _ => cmd end) (t_e im e)
  | SDefine x e => SDefine x (t_e im e)
  | SVar x e => SVar x (t_e im e)
  | SIf c thn els => SIf (t_e im c) (t_ss im thn) (t_ss im els)
  | SReturn r => SReturn (t_es im r)
  | SBlock b => SBlock (t_ss im b)
  end.
Proof. destruct s; reflexivity. Qed.

Lemma t_ss_eq im ss : t_ss im ss = match ss with SNil => SNil | SCons s t => SCons (t_s im s) (t_ss im t) end.
Proof. destruct ss; reflexivity. Qed.

(* ================================================================ scope tracking is invisible when no var is named like an import *)

Definition ni (im : list (name * str)) (x : name) : bool :=
  match sassoc x im with Some _ => false | None => true end.

Definition scope_inv (c : fctx) : Prop := forall x, in_scope x c = true -> sassoc x (imps c) = None.

Lemma in_scope_push x c : in_scope x (push c) = in_scope x c.
Proof. reflexivity. Qed.

Lemma scope_inv_push c : scope_inv c -> scope_inv (push c).
Proof. intros H x Hx. apply H. exact Hx. Qed.

Lemma in_scope_insert x y c : in_scope x (insert y c) = (str_eqb x y || in_scope x c)%bool.
Proof.
  unfold in_scope, insert. destruct (scopes c) as [|s t]; simpl.
  - rewrite orb_false_r. reflexivity.
  - rewrite orb_assoc. reflexivity.
Qed.

Lemma imps_insert y c : imps (insert y c) = imps c.
Proof. unfold insert. destruct (scopes c); reflexivity. Qed.

Lemma scope_inv_insert y c : scope_inv c -> ni (imps c) y = true -> scope_inv (insert y c).
Proof.
  intros H Hy x Hx. rewrite imps_insert. rewrite in_scope_insert in Hx.
  apply orb_prop in Hx. destruct Hx as [Hx | Hx]; [|auto].
  apply str_eqb_eq in Hx. subst. unfold ni in Hy. destruct (sassoc y (imps c)); [discriminate | reflexivity].
Qed.

Lemma sel_action_act0 c x sel : scope_inv c -> fst (sel_action c x sel) = act0 (imps c) x sel.
Proof.
  intros H. unfold sel_action, act0. destruct (in_scope x c) eqn:E.
  - rewrite (H x E). reflexivity.
  - destruct (sassoc x (imps c)); [|reflexivity]. destruct (fmt_to_builtin s sel); reflexivity.
Qed.

Definition aux_e (e : expr) : Prop :=
  match e with
  | EFuncLit _ _ body => forall c, scope_inv c -> good_ss (ni (imps c)) body = true ->
      fst (tr_stmts c body) = t_ss (imps c) body /\ fst (tr_block c body) = t_ss (imps c) body
  | _ => True
  end.

Ltac bsplit H := repeat (let H' := fresh H in apply andb_prop in H; destruct H as [H H']).

Lemma tr_is_t :
  (forall e, (forall c, scope_inv c -> good_e (ni (imps c)) e = true -> fst (tr_expr c e) = t_e (imps c) e) /\ aux_e e) /\
  (forall es c, scope_inv c -> good_es (ni (imps c)) es = true ->
     fst (tr_exprs c es) = t_es (imps c) es /\ fst (tr_args c es) = t_args (imps c) es) /\
  (forall s c, scope_inv c -> good_s (ni (imps c)) s = true ->
     fst (fst (tr_stmt c s)) = t_s (imps c) s /\ scope_inv (snd (fst (tr_stmt c s))) /\
     imps (snd (fst (tr_stmt c s))) = imps c) /\
  (forall ss c, scope_inv c -> good_ss (ni (imps c)) ss = true ->
     fst (tr_stmts c ss) = t_ss (imps c) ss /\ fst (tr_block c ss) = t_ss (imps c) ss).
Proof.
  apply syntax_mutind.
  - (* EInt *) intros z. split; [reflexivity | exact I].
  - intros s. split; [reflexivity | exact I].
  - intros x. split; [reflexivity | exact I].
  - (* EAdd *) intros a [IHa _] b [IHb _]. split; [|exact I]. intros c Hc Hg. cbn [good_e] in Hg. bsplit Hg.
    simpl; rewrite (t_e_eq _ (EAdd a b)). specialize (IHa c Hc Hg). specialize (IHb c Hc Hg0).
    destruct (tr_expr c a) as [a' u1]. destruct (tr_expr c b) as [b' u2]. simpl in *. congruence.
  - (* ECall *) intros f args IHa. split; [|exact I]. intros c Hc Hg. cbn [good_e] in Hg.
    simpl; rewrite (t_e_eq _ (ECall f args)). destruct (IHa c Hc Hg) as [_ IH2].
    destruct (tr_args c args) as [a' u]. simpl in *. congruence.
  - (* ESel *) intros x sel args IHa. split; [|exact I]. intros c Hc Hg. cbn [good_e] in Hg.
    simpl; rewrite (t_e_eq _ (ESel x sel args)). destruct (IHa c Hc Hg) as [_ IH2].
    pose proof (sel_action_act0 c x sel Hc) as Hs.
    destruct (sel_action c x sel) as [act u1]. destruct (tr_args c args) as [a' u2]. simpl in *. subst act.
    destruct (act0 (imps c) x sel); simpl; congruence.
  - (* EField *) intros x f. split; [|exact I]. intros c Hc _. simpl; rewrite (t_e_eq _ (EField x f)).
    pose proof (sel_action_act0 c x f Hc) as Hs.
    destruct (sel_action c x f) as [act u1]. simpl in *. subst act.
    destruct (act0 (imps c) x f); reflexivity.
  - (* EFuncLit *) intros ps res body IHb. split.
    + intros c Hc Hg. cbn [good_e] in Hg. bsplit Hg. simpl; rewrite (t_e_eq _ (EFuncLit ps res body)).
      destruct (IHb c Hc Hg0) as [_ IH2]. destruct (tr_block c body) as [b' u]. simpl in *. congruence.
    + intros c Hc Hg. apply IHb; assumption.
  - (* ELambda *) intros ps rhs IHr. split; [|exact I]. intros c Hc Hg. cbn [good_e] in Hg. bsplit Hg.
    simpl; rewrite (t_e_eq _ (ELambda ps rhs)). destruct (IHr c Hc Hg0) as [IH1 _]. destruct (tr_exprs c rhs) as [r' u]. simpl in *. congruence.
  - (* ELambda2 *) intros ps body IHb. split; [|exact I]. intros c Hc Hg. cbn [good_e] in Hg. bsplit Hg.
    simpl; rewrite (t_e_eq _ (ELambda2 ps body)). destruct (IHb c Hc Hg0) as [_ IH2]. destruct (tr_block c body) as [b' u]. simpl in *. congruence.
  - (* ENew *) intros t e [IHe _]. split; [|exact I]. intros c Hc Hg. cbn [good_e] in Hg.
    simpl; rewrite (t_e_eq _ (ENew t e)). specialize (IHe c Hc Hg). destruct (tr_expr c e) as [e' u]. simpl in *. congruence.
  - (* ENil *) intros c _ _. split; reflexivity.
  - (* ECons *) intros e [IHe Haux] t IHt c Hc Hg. cbn [good_es] in Hg. bsplit Hg.
    destruct (IHt c Hc Hg0) as [IHt1 IHt2]. specialize (IHe c Hc Hg).
    split.
    + simpl; rewrite (t_es_eq _ (ECons e t)). destruct (tr_expr c e) as [e' u1]. destruct (tr_exprs c t) as [t' u2]. simpl in *. congruence.
    + simpl tr_args; rewrite (t_args_eq (imps c) (ECons e t)); unfold t_arg.
      assert (Harg : fst (match e with
                          | EFuncLit ps res body =>
                              match body with
                              | SCons (SReturn rs) SNil =>
                                  if lam_ok res rs
                                  then let '(r', u) := tr_exprs c rs in (ELambda ps r', u)
                                  else let '(b', u) := tr_block c body in (ELambda2 ps b', u)
                              | _ => let '(b', u) := tr_block c body in (ELambda2 ps b', u)
                              end
                          | _ => tr_expr c e
                          end) =
                     match e with
                     | EFuncLit ps res body =>
                         match body with
                         | SCons (SReturn rs) SNil =>
                             if lam_ok res rs then ELambda ps (t_es (imps c) rs)
                             else ELambda2 ps (t_ss (imps c) body)
                         | _ => ELambda2 ps (t_ss (imps c) body)
                         end
                     | _ => t_e (imps c) e
                     end).
      { destruct e; try exact IHe.
        cbn [good_e] in Hg. bsplit Hg. simpl in Haux. destruct (Haux c Hc Hg1) as [Hs Hb].
        assert (Hblock : fst (let '(b', u) := tr_block c body in (ELambda2 ps b', u)) = ELambda2 ps (t_ss (imps c) body)).
        { destruct (tr_block c body) as [b' u]. simpl in *. congruence. }
        destruct body as [|s0 rest]; [exact Hblock|].
        destruct s0; try exact Hblock. destruct rest; [|exact Hblock].
        destruct (lam_ok res r); [|exact Hblock].
        simpl in Hs; change (t_ss (imps c) (SCons (SReturn r) SNil)) with (SCons (SReturn (t_es (imps c) r)) SNil) in Hs.
        destruct (tr_exprs c r) as [r' u]. simpl in Hs |- *. inversion Hs. reflexivity. }
      destruct (match e with EFuncLit _ _ _ => _ | _ => _ end) as [e' u1].
      destruct (tr_args c t) as [t' u2]. simpl in *. congruence.
  - (* SExpr *) intros cmd e [IHe _] c Hc Hg. cbn [good_s] in Hg. simpl; rewrite (t_s_eq _ (SExpr cmd e)).
    specialize (IHe c Hc Hg). destruct (tr_expr c e) as [e' u]. simpl in *. subst. auto.
  - (* SDefine *) intros x e [IHe _] c Hc Hg. cbn [good_s] in Hg. bsplit Hg. simpl; rewrite (t_s_eq _ (SDefine x e)).
    specialize (IHe c Hc Hg0). destruct (tr_expr c e) as [e' u]. simpl in *. subst. auto.
  - (* SVar *) intros x e [IHe _] c Hc Hg. cbn [good_s] in Hg. bsplit Hg. simpl; rewrite (t_s_eq _ (SVar x e)).
    specialize (IHe c Hc Hg0). destruct (tr_expr c e) as [e' u]. simpl in *. subst.
    split; [reflexivity|]. split; [apply scope_inv_insert; assumption | apply imps_insert].
  - (* SIf *) intros cnd [IHc _] thn IHt els IHe c Hc Hg. cbn [good_s] in Hg. bsplit Hg. simpl; rewrite (t_s_eq _ (SIf cnd thn els)).
    pose proof (scope_inv_push c Hc) as Hp.
    specialize (IHc (push c) Hp Hg). destruct (IHt (push c) Hp Hg1) as [_ IHt2]. destruct (IHe (push c) Hp Hg0) as [_ IHe2].
    destruct (tr_expr (push c) cnd) as [c' u1]. destruct (tr_block (push c) thn) as [t' u2].
    destruct (tr_block (push c) els) as [e' u3]. simpl in *. subst. auto.
  - (* SReturn *) intros r IHr c Hc Hg. cbn [good_s] in Hg. simpl; rewrite (t_s_eq _ (SReturn r)).
    destruct (IHr c Hc Hg) as [IH1 _]. destruct (tr_exprs c r) as [r' u]. simpl in *. subst. auto.
  - (* SBlock *) intros b IHb c Hc Hg. cbn [good_s] in Hg. simpl; rewrite (t_s_eq _ (SBlock b)).
    destruct (IHb c Hc Hg) as [_ IH2]. destruct (tr_block c b) as [b' u]. simpl in *. subst. auto.
  - (* SNil *) intros c _ _. split; reflexivity.
  - (* SCons *) intros s IHs t IHt c Hc Hg. cbn [good_ss] in Hg. bsplit Hg. split.
    + simpl; rewrite (t_ss_eq _ (SCons s t)). destruct (IHs c Hc Hg) as [H1 [H2 H3]].
      destruct (tr_stmt c s) as [[s' c1] u1]. simpl in *.
      rewrite <- H3 in Hg0. destruct (IHt c1 H2 Hg0) as [H4 _].
      destruct (tr_stmts c1 t) as [t' u2]. simpl in *. rewrite H3 in H4. congruence.
    + simpl; rewrite (t_ss_eq _ (SCons s t)). pose proof (scope_inv_push c Hc) as Hp.
      destruct (IHs (push c) Hp Hg) as [H1 [H2 H3]].
      destruct (tr_stmt (push c) s) as [[s' c1] u1]. simpl in *.
      rewrite <- H3 in Hg0. destruct (IHt c1 H2 Hg0) as [H4 _].
      destruct (tr_stmts c1 t) as [t' u2]. simpl in *. rewrite H3 in H4. congruence.
Qed.

(* ================================================================ the simulation *)

Section Sim.
Variable im : list (name * str).

Definition okn (x : name) : bool := (ni im x && negb (is_subst x))%bool.

Inductive R : value -> value -> Prop :=
| R_int z : R (VInt z) (VInt z)
| R_str s : R (VStr s) (VStr s)
| R_unit : R VUnit VUnit
| R_obj t v v' : R v v' -> R (VObj t v) (VObj t v')
| R_clos ps b e e' : forallb okn ps = true -> good_ss okn b = true -> Renv e e' ->
    R (VClos ps b e) (VClos ps (t_ss im b) e')
with Renv : env -> env -> Prop :=
| Renv_nil : Renv [] []
| Renv_cons x v v' e e' : okn x = true -> R v v' -> Renv e e' -> Renv ((x, v) :: e) ((x, v') :: e').

Inductive Ropt : option value -> option value -> Prop :=
| Ropt_none : Ropt None None
| Ropt_some v v' : R v v' -> Ropt (Some v) (Some v').

Lemma Renv_lookup e e' x : Renv e e' ->
  match sassoc x e with
  | Some v => okn x = true /\ exists v', sassoc x e' = Some v' /\ R v v'
  | None => sassoc x e' = None
  end.
Proof.
  induction 1 as [|y v v' e e' Hy Hv He IH]; simpl; [reflexivity|].
  destruct (str_eqb x y) eqn:E.
  - apply str_eqb_eq in E. subst. split; [exact Hy|]. exists v'. auto.
  - exact IH.
Qed.

Lemma render_R v v' : R v v' -> render v = render v'.
Proof.
  revert v'. induction v; intros v' H; inversion H; subst; simpl; try reflexivity.
  f_equal. f_equal. f_equal. apply IHv. assumption.
Qed.

Lemma renders_R vs vs' : Forall2 R vs vs' -> renders vs = renders vs'.
Proof. induction 1; simpl; [reflexivity|]. rewrite (render_R _ _ H), IHForall2. reflexivity. Qed.

Lemma ext_call_R p f vs vs' : Forall2 R vs vs' -> ext_call p f vs = ext_call p f vs'.
Proof. intros H. unfold ext_call, ext_event. rewrite (renders_R _ _ H). reflexivity. Qed.

Lemma bind_R ps : forall vs vs' ce ce' e1, Forall2 R vs vs' -> Renv ce ce' -> forallb okn ps = true ->
  bind ps vs ce = Some e1 -> exists e1', bind ps vs' ce' = Some e1' /\ Renv e1 e1'.
Proof.
  induction ps as [|p ps IH]; intros vs vs' ce ce' e1 Hv Hc Hok Hb.
  - destruct vs; [|discriminate]. inversion Hv; subst. simpl in *. inversion Hb; subst. eauto.
  - destruct vs as [|v vs]; [discriminate|]. inversion Hv as [|? v' ? vs'' Hvv Hvs]; subst.
    simpl in Hok. apply andb_prop in Hok. destruct Hok as [Hp Hps].
    simpl in Hb. destruct (bind ps vs ce) as [e0|] eqn:E; [|discriminate]. inversion Hb; subst.
    destruct (IH _ _ _ _ _ Hvs Hc Hps E) as [e0' [H1 H2]].
    exists ((p, v') :: e0'). simpl. rewrite H1. split; [reflexivity | constructor; assumption].
Qed.

Definition tfun (fb : name * (list name * stmts)) := (fst fb, (fst (snd fb), t_ss im (snd (snd fb)))).
Definition tmeth (mb : name * (name * (name * (list name * stmts)))) :=
  (fst mb, (fst (snd mb), (fst (snd (snd mb)), (fst (snd (snd (snd mb))), t_ss im (snd (snd (snd (snd mb)))))))).

Lemma sassoc_tfun f l : sassoc f (map tfun l) =
  match sassoc f l with Some (ps, b) => Some (ps, t_ss im b) | None => None end.
Proof.
  induction l as [|[g [ps b]] l IH]; simpl; [reflexivity|].
  destruct (str_eqb f g); [reflexivity | exact IH].
Qed.

Lemma find_method_tmeth t m l : find_method t m (map tmeth l) =
  match find_method t m l with Some (r, (ps, b)) => Some (r, (ps, t_ss im b)) | None => None end.
Proof.
  induction l as [|[t' [m' [r [ps b]]]] l IH]; simpl; [reflexivity|].
  destruct (str_eqb t t' && str_eqb m m')%bool; [reflexivity | exact IH].
Qed.

Record wrel (W W' : world) : Prop := {
  wr_imps : w_imps W = im;
  wr_imps' : w_imps W' = im;
  wr_funcs : w_funcs W' = map tfun (w_funcs W);
  wr_methods : w_methods W' = map tmeth (w_methods W);
  wr_genv : Renv (w_genv W) (w_genv W');
  wr_fgood : forall f ps b, sassoc f (w_funcs W) = Some (ps, b) -> forallb okn ps = true /\ good_ss okn b = true;
  wr_fnames : forall f, is_subst f = true -> sassoc f (w_funcs W) = None;
  wr_mgood : forall t m r ps b, find_method t m (w_methods W) = Some (r, (ps, b)) ->
             okn r = true /\ forallb okn ps = true /\ good_ss okn b = true;
  wr_twin : forall t m rb, find_method t m (w_methods W) = Some rb -> exported m = true ->
            find_method t (lower_first m) (w_methods W) = None }.

Definition sim_e (n : nat) (W W' : world) : Prop :=
  forall e en en' v tr, Renv en en' -> good_e okn e = true -> eval_e n Go W en e = Ok (v, tr) ->
  exists v', eval_e n XGo W' en' (t_e im e) = Ok (v', tr) /\ R v v'.
Definition sim_arg (n : nat) (W W' : world) : Prop :=
  forall e en en' v tr, Renv en en' -> good_e okn e = true -> eval_e n Go W en e = Ok (v, tr) ->
  exists v', eval_e n XGo W' en' (t_arg im e) = Ok (v', tr) /\ R v v'.
Definition sim_es (n : nat) (W W' : world) : Prop :=
  forall es en en' vs tr, Renv en en' -> good_es okn es = true -> eval_es n Go W en es = Ok (vs, tr) ->
  (exists vs', eval_es n XGo W' en' (t_es im es) = Ok (vs', tr) /\ Forall2 R vs vs') /\
  (exists vs', eval_es n XGo W' en' (t_args im es) = Ok (vs', tr) /\ Forall2 R vs vs').
Definition sim_s (n : nat) (W W' : world) : Prop :=
  forall s en en' r en1 tr, Renv en en' -> good_s okn s = true -> eval_s n Go W en s = Ok (r, en1, tr) ->
  exists r' en1', eval_s n XGo W' en' (t_s im s) = Ok (r', en1', tr) /\ Ropt r r' /\ Renv en1 en1'.
Definition sim_ss (n : nat) (W W' : world) : Prop :=
  forall ss en en' r en1 tr, Renv en en' -> good_ss okn ss = true -> eval_ss n Go W en ss = Ok (r, en1, tr) ->
  exists r' en1', eval_ss n XGo W' en' (t_ss im ss) = Ok (r', en1', tr) /\ Ropt r r' /\ Renv en1 en1'.

Lemma ret1_R r r' : Ropt r r' -> R (ret1 r) (ret1 r').
Proof. destruct 1; simpl; [constructor | assumption]. Qed.

(* a function literal argument and its lambda form evaluate to related closures *)
Lemma sim_arg_of_e n W W' : sim_e n W W' -> sim_arg n W W'.
Proof.
  intros He e en en' v tr Hen Hg Hev. unfold sim_e in He.
  destruct e; try (unfold t_arg; eapply He; eassumption).
  (* EFuncLit *)
  destruct n as [|n']; [discriminate|]. simpl in Hev. inversion Hev; subst. clear Hev.
  simpl in Hg. apply andb_prop in Hg. destruct Hg as [Hps Hb].
  assert (Hclos : R (VClos ps body en) (VClos ps (t_ss im body) en')) by (constructor; assumption).
  unfold t_arg.
  destruct body as [|s0 rest]; [eexists; split; [reflexivity | exact Hclos]|].
  destruct s0; try (eexists; split; [reflexivity | exact Hclos]).
  destruct rest; [|eexists; split; [reflexivity | exact Hclos]].
  destruct (lam_ok res r); [|eexists; split; [reflexivity | exact Hclos]].
  eexists. split; [reflexivity|].
  exact Hclos.
Qed.

Lemma okn_ni x : okn x = true -> sassoc x im = None.
Proof.
  unfold okn, ni. intros H. apply andb_prop in H. destruct H as [H _].
  destruct (sassoc x im); [discriminate | reflexivity].
Qed.

Lemma okn_not_subst x : okn x = true -> is_subst x = false.
Proof.
  unfold okn. intros H. apply andb_prop in H. destruct H as [_ H]. apply negb_true_iff in H. exact H.
Qed.

Lemma subst_not_in_env b en en' : Renv en en' -> is_subst b = true -> sassoc b en = None /\ sassoc b en' = None.
Proof.
  intros Hen Hb. pose proof (Renv_lookup en en' b Hen) as H.
  destruct (sassoc b en); [|auto]. destruct H as [Hok _]. apply okn_not_subst in Hok. congruence.
Qed.

Lemma lookup_method_lower W W' t sel r ps b : wrel W W' ->
  find_method t sel (w_methods W) = Some (r, (ps, b)) ->
  lookup_method XGo W' t (lower_first sel) = Some (r, (ps, t_ss im b)).
Proof.
  intros HW Hf. unfold lookup_method. rewrite (wr_methods _ _ HW), !find_method_tmeth.
  destruct (exported sel) eqn:Ex.
  - rewrite (wr_twin _ _ HW _ _ _ Hf Ex). rewrite (upper_lower _ Ex), Hf. reflexivity.
  - rewrite (lower_id _ Ex), Hf. reflexivity.
Qed.

Lemma pkg_member_go sel g : pkg_member Go sel = Some g -> exported sel = true /\ g = sel.
Proof. unfold pkg_member. destruct (exported sel); [|discriminate]. intros H. inversion H. auto. Qed.

Lemma pkg_member_xgo_lower sel : exported sel = true -> pkg_member XGo (lower_first sel) = Some sel.
Proof.
  intros H. unfold pkg_member. rewrite (lower_not_exported _ H), (upper_lower _ H), H. reflexivity.
Qed.

Lemma pkg_member_xgo_same sel : exported sel = true -> pkg_member XGo sel = Some sel.
Proof. intros H. unfold pkg_member. rewrite H. reflexivity. Qed.

Ltac inv H := inversion H; subst; clear H.

Lemma R_clos_inv ps b ce v' : R (VClos ps b ce) v' ->
  exists ce', v' = VClos ps (t_ss im b) ce' /\ forallb okn ps = true /\ good_ss okn b = true /\ Renv ce ce'.
Proof. intros H. inversion H; subst. eauto. Qed.

Lemma R_obj_inv t v v' : R (VObj t v) v' -> exists w, v' = VObj t w /\ R v w.
Proof. intros H. inversion H; subst. eauto. Qed.

Lemma R_int_inv z v' : R (VInt z) v' -> v' = VInt z.
Proof. intros H. inversion H; subst. reflexivity. Qed.

Opaque c25_xgo_builtins c25_print_funcs c25_fmt_path.

Lemma sim_e_step n W W' : wrel W W' -> sim_e n W W' -> sim_es n W W' -> sim_ss n W W' -> sim_e (S n) W W'.
Proof.
  intros HW IHe IHes IHss e en en' v tr Hen Hg Hev.
  destruct e; rewrite t_e_eq.
  - (* EInt *) simpl in *. inv Hev. eexists. split; [reflexivity | constructor].
  - simpl in *. inv Hev. eexists. split; [reflexivity | constructor].
  - (* EVar *) simpl in Hev |- *. pose proof (Renv_lookup _ _ x Hen) as Hl.
    destruct (sassoc x en) as [v0|].
    + inv Hev. destruct Hl as [_ [v' [H1 H2]]]. rewrite H1. eauto.
    + rewrite Hl. destruct (sassoc x (w_funcs W)) as [[ps b]|] eqn:Ef; [|discriminate]. inv Hev.
      rewrite (wr_funcs _ _ HW), sassoc_tfun, Ef.
      destruct (wr_fgood _ _ HW _ _ _ Ef) as [Hp Hb].
      eexists. split; [reflexivity|]. constructor; [assumption | assumption | exact (wr_genv _ _ HW)].
  - (* EAdd *) simpl in Hg. apply andb_prop in Hg. destruct Hg as [Hg1 Hg2]. simpl in Hev |- *.
    destruct (eval_e n Go W en e1) as [[va ta]| |] eqn:Ea; try discriminate.
    destruct va; try discriminate.
    destruct (eval_e n Go W en e2) as [[vb tb]| |] eqn:Eb; try discriminate.
    destruct vb; try discriminate. inv Hev.
    destruct (IHe _ _ _ _ _ Hen Hg1 Ea) as [va' [Ha Ra]]. apply R_int_inv in Ra. subst va'.
    destruct (IHe _ _ _ _ _ Hen Hg2 Eb) as [vb' [Hb Rb]]. apply R_int_inv in Rb. subst vb'.
    rewrite Ha, Hb. eexists. split; [reflexivity | constructor].
  - (* ECall *) simpl in Hg. simpl in Hev |- *.
    destruct (eval_es n Go W en args) as [[vs t1]| |] eqn:Ea; try discriminate.
    destruct (IHes _ _ _ _ _ Hen Hg Ea) as [_ [vs' [Ha Rvs]]]. rewrite Ha.
    pose proof (Renv_lookup _ _ f Hen) as Hl.
    destruct (sassoc f en) as [v0|].
    + destruct Hl as [_ [v0' [H1 H2]]]. rewrite H1.
      destruct v0 as [ | | | |ps b ce]; try discriminate.
      apply R_clos_inv in H2. destruct H2 as [ce' [-> [Hps [Hgb Hce]]]].
      destruct (bind ps vs ce) as [e1|] eqn:Eb; [|discriminate].
      destruct (bind_R _ _ _ _ _ _ Rvs Hce Hps Eb) as [e1' [Hb' Re1]]. rewrite Hb'.
      destruct (eval_ss n Go W e1 b) as [[[r e2] t2]| |] eqn:Es; try discriminate. inv Hev.
      destruct (IHss _ _ _ _ _ _ Re1 Hgb Es) as [r' [e2' [Hs [Rr _]]]]. rewrite Hs.
      eexists. split; [reflexivity | apply ret1_R; exact Rr].
    + rewrite Hl. destruct (sassoc f (w_funcs W)) as [[ps b]|] eqn:Ef; [|discriminate].
      rewrite (wr_funcs _ _ HW), sassoc_tfun, Ef.
      destruct (wr_fgood _ _ HW _ _ _ Ef) as [Hp Hb].
      destruct (bind ps vs (w_genv W)) as [e1|] eqn:Eb; [|discriminate].
      destruct (bind_R _ _ _ _ _ _ Rvs (wr_genv _ _ HW) Hp Eb) as [e1' [Hb' Re1]]. rewrite Hb'.
      destruct (eval_ss n Go W e1 b) as [[[r e2] t2]| |] eqn:Es; try discriminate. inv Hev.
      destruct (IHss _ _ _ _ _ _ Re1 Hb Es) as [r' [e2' [Hs [Rr _]]]]. rewrite Hs.
      eexists. split; [reflexivity | apply ret1_R; exact Rr].
  - (* ESel *) simpl in Hg. simpl in Hev.
    destruct (eval_es n Go W en args) as [[vs t1]| |] eqn:Ea; try discriminate.
    destruct (IHes _ _ _ _ _ Hen Hg Ea) as [_ [vs' [Ha Rvs]]].
    pose proof (Renv_lookup _ _ x Hen) as Hl.
    destruct (sassoc x en) as [v0|].
    + destruct Hl as [Hok [v0' [H1 H2]]].
      unfold act0. rewrite (okn_ni _ Hok).
      destruct v0 as [ | | |t pv| ]; try discriminate.
      apply R_obj_inv in H2. destruct H2 as [pv' [-> Rpv]].
      unfold lookup_method in Hev.
      destruct (find_method t sel (w_methods W)) as [[r [ps b]]|] eqn:Ef; [|discriminate].
      destruct (wr_mgood _ _ HW _ _ _ _ _ Ef) as [Hr [Hp Hb]].
      destruct (bind ps vs (w_genv W)) as [e1|] eqn:Eb; [|discriminate].
      destruct (bind_R _ _ _ _ _ _ Rvs (wr_genv _ _ HW) Hp Eb) as [e1' [Hb' Re1]].
      destruct (eval_ss n Go W ((r, VObj t pv) :: e1) b) as [[[rv e2] t2]| |] eqn:Es; try discriminate. inv Hev.
      assert (Re : Renv ((r, VObj t pv) :: e1) ((r, VObj t pv') :: e1')) by (constructor; [assumption | constructor; assumption | assumption]).
      destruct (IHss _ _ _ _ _ _ Re Hb Es) as [r' [e2' [Hs [Rr _]]]].
      simpl. rewrite Ha, H1, (lookup_method_lower _ _ _ _ _ _ _ HW Ef), Hb', Hs.
      eexists. split; [reflexivity | apply ret1_R; exact Rr].
    + rewrite (wr_imps _ _ HW) in Hev.
      destruct (sassoc x im) as [path|] eqn:Ei; [|discriminate].
      destruct (pkg_member Go sel) as [g|] eqn:Eg; [|discriminate].
      apply pkg_member_go in Eg. destruct Eg as [Hex ->].
      unfold ext_call, ext_event in Hev. rewrite (renders_R _ _ Rvs) in Hev. cbv zeta beta iota in Hev. inv Hev.
      unfold act0. rewrite Ei.
      destruct (fmt_to_builtin path sel) as [b|] eqn:Efb.
      * destruct (fmt_to_builtin_sound _ _ _ Efb Hex) as [Hpath [Hbt Hsub]]. subst path.
        destruct (subst_not_in_env _ _ _ Hen Hsub) as [_ Hb'].
        simpl. rewrite Ha, Hb', (wr_funcs _ _ HW), sassoc_tfun, (wr_fnames _ _ HW _ Hsub), Hbt.
        unfold ext_call, ext_event. eexists. split; [reflexivity | constructor].
      * simpl. rewrite Ha, Hl, (wr_imps' _ _ HW), Ei, (pkg_member_xgo_lower _ Hex).
        unfold ext_call, ext_event. eexists. split; [reflexivity | constructor].
  - (* EField *) simpl in Hev.
    pose proof (Renv_lookup _ _ x Hen) as Hl.
    destruct (sassoc x en) as [v0|].
    + destruct Hl as [Hok [v0' [H1 H2]]].
      unfold act0. rewrite (okn_ni _ Hok).
      destruct v0 as [ | | |t pv| ]; try discriminate. inv Hev.
      apply R_obj_inv in H2. destruct H2 as [pv' [-> Rpv]].
      simpl. rewrite H1. eauto.
    + rewrite (wr_imps _ _ HW) in Hev.
      destruct (sassoc x im) as [path|] eqn:Ei; [|discriminate].
      destruct (pkg_member Go f) as [g|] eqn:Eg; [|discriminate].
      apply pkg_member_go in Eg. destruct Eg as [Hex ->]. inv Hev.
      unfold act0. rewrite Ei.
      destruct (fmt_to_builtin path f) as [b|] eqn:Efb.
      * destruct (fmt_to_builtin_sound _ _ _ Efb Hex) as [Hpath [Hbt Hsub]]. subst path.
        destruct (subst_not_in_env _ _ _ Hen Hsub) as [_ Hb'].
        simpl. rewrite Hb', (wr_funcs _ _ HW), sassoc_tfun, (wr_fnames _ _ HW _ Hsub), Hbt.
        eexists. split; [reflexivity | constructor].
      * simpl. rewrite Hl, (wr_imps' _ _ HW), Ei, (pkg_member_xgo_same _ Hex).
        eexists. split; [reflexivity | constructor].
  - (* EFuncLit *) simpl in Hg. apply andb_prop in Hg. destruct Hg as [Hp Hb]. simpl in Hev |- *. inv Hev.
    eexists. split; [reflexivity | constructor; assumption].
  - (* ELambda *) simpl in Hg. apply andb_prop in Hg. destruct Hg as [Hp Hb]. simpl in Hev |- *. inv Hev.
    eexists. split; [reflexivity|].
    change (SCons (SReturn (t_es im rhs)) SNil) with (t_ss im (SCons (SReturn rhs) SNil)).
    constructor; [assumption | simpl; rewrite Hb; reflexivity | assumption].
  - (* ELambda2 *) simpl in Hg. apply andb_prop in Hg. destruct Hg as [Hp Hb]. simpl in Hev |- *. inv Hev.
    eexists. split; [reflexivity | constructor; assumption].
  - (* ENew *) simpl in Hg. simpl in Hev |- *.
    destruct (eval_e n Go W en e) as [[v1 t1]| |] eqn:Ea; try discriminate. inv Hev.
    destruct (IHe _ _ _ _ _ Hen Hg Ea) as [v1' [Ha Ra]]. rewrite Ha.
    eexists. split; [reflexivity | constructor; assumption].
Qed.

Lemma sim_es_step n W W' : sim_e n W W' -> sim_es n W W' -> sim_es (S n) W W'.
Proof.
  intros IHe IHes es en en' vs tr Hen Hg Hev.
  pose proof (sim_arg_of_e _ _ _ IHe) as IHa.
  destruct es as [|e t].
  - simpl in Hev. inv Hev. split; eexists; (split; [reflexivity | constructor]).
  - simpl in Hg. apply andb_prop in Hg. destruct Hg as [Hg1 Hg2]. simpl in Hev.
    destruct (eval_e n Go W en e) as [[v1 t1]| |] eqn:Ea; try discriminate.
    destruct (eval_es n Go W en t) as [[vs1 t2]| |] eqn:Eb; try discriminate. inv Hev.
    destruct (IHes _ _ _ _ _ Hen Hg2 Eb) as [[vs1' [Hb1 Rb1]] [vs2' [Hb2 Rb2]]].
    split.
    + destruct (IHe _ _ _ _ _ Hen Hg1 Ea) as [v1' [Ha Ra]].
      rewrite t_es_eq. simpl. rewrite Ha, Hb1. eexists. split; [reflexivity | constructor; assumption].
    + destruct (IHa _ _ _ _ _ Hen Hg1 Ea) as [v1' [Ha Ra]].
      rewrite t_args_eq. simpl. rewrite Ha, Hb2. eexists. split; [reflexivity | constructor; assumption].
Qed.

Lemma sim_s_step n W W' : sim_e n W W' -> sim_ss n W W' -> sim_s (S n) W W'.
Proof.
  intros IHe IHss s en en' r en1 tr Hen Hg Hev.
  destruct s; rewrite t_s_eq.
  - (* SExpr *) simpl in Hg. simpl in Hev |- *.
    destruct (eval_e n Go W en e) as [[v1 t1]| |] eqn:Ea; try discriminate. inv Hev.
    destruct (IHe _ _ _ _ _ Hen Hg Ea) as [v1' [Ha Ra]]. rewrite Ha.
    do 2 eexists. split; [reflexivity|]. split; [constructor | assumption].
  - (* SDefine *) simpl in Hg. apply andb_prop in Hg. destruct Hg as [Hx Hg]. simpl in Hev |- *.
    destruct (eval_e n Go W en e) as [[v1 t1]| |] eqn:Ea; try discriminate. inv Hev.
    destruct (IHe _ _ _ _ _ Hen Hg Ea) as [v1' [Ha Ra]]. rewrite Ha.
    do 2 eexists. split; [reflexivity|]. split; [constructor | constructor; assumption].
  - (* SVar *) simpl in Hg. apply andb_prop in Hg. destruct Hg as [Hx Hg]. simpl in Hev |- *.
    destruct (eval_e n Go W en e) as [[v1 t1]| |] eqn:Ea; try discriminate. inv Hev.
    destruct (IHe _ _ _ _ _ Hen Hg Ea) as [v1' [Ha Ra]]. rewrite Ha.
    do 2 eexists. split; [reflexivity|]. split; [constructor | constructor; assumption].
  - (* SIf *) simpl in Hg. apply andb_prop in Hg. destruct Hg as [Hg Hg3]. apply andb_prop in Hg. destruct Hg as [Hg1 Hg2].
    simpl in Hev |- *.
    destruct (eval_e n Go W en c) as [[v1 t1]| |] eqn:Ea; try discriminate.
    destruct v1 as [z| | | | ]; try discriminate.
    destruct (IHe _ _ _ _ _ Hen Hg1 Ea) as [v1' [Ha Ra]]. apply R_int_inv in Ra. subst v1'. rewrite Ha.
    destruct (eval_ss n Go W en (if Z.eqb z 0 then els else thn)) as [[[r1 e2] t2]| |] eqn:Es; try discriminate. inv Hev.
    assert (Hgb : good_ss okn (if Z.eqb z 0 then els else thn) = true) by (destruct (Z.eqb z 0); assumption).
    destruct (IHss _ _ _ _ _ _ Hen Hgb Es) as [r' [e2' [Hs [Rr _]]]].
    replace (if Z.eqb z 0 then t_ss im els else t_ss im thn) with (t_ss im (if Z.eqb z 0 then els else thn)) by (destruct (Z.eqb z 0); reflexivity).
    rewrite Hs. do 2 eexists. split; [reflexivity|]. split; assumption.
  - (* SReturn *) simpl in Hg. simpl in Hev.
    destruct r0 as [|e0 rest].
    + inv Hev. rewrite t_es_eq. simpl. do 2 eexists. split; [reflexivity|]. split; [constructor; constructor | assumption].
    + destruct rest; [|discriminate]. simpl in Hg. rewrite andb_true_r in Hg.
      destruct (eval_e n Go W en e0) as [[v1 t1]| |] eqn:Ea; try discriminate. inv Hev.
      destruct (IHe _ _ _ _ _ Hen Hg Ea) as [v1' [Ha Ra]].
      rewrite t_es_eq, (t_es_eq _ ENil). simpl. rewrite Ha.
      do 2 eexists. split; [reflexivity|]. split; [constructor; assumption | assumption].
  - (* SBlock *) simpl in Hg. simpl in Hev |- *.
    destruct (eval_ss n Go W en b) as [[[r1 e2] t2]| |] eqn:Es; try discriminate. inv Hev.
    destruct (IHss _ _ _ _ _ _ Hen Hg Es) as [r' [e2' [Hs [Rr _]]]]. rewrite Hs.
    do 2 eexists. split; [reflexivity|]. split; assumption.
Qed.

Lemma sim_ss_step n W W' : sim_s n W W' -> sim_ss n W W' -> sim_ss (S n) W W'.
Proof.
  intros IHs IHss ss en en' r en1 tr Hen Hg Hev.
  destruct ss as [|s t]; rewrite t_ss_eq.
  - simpl in Hev |- *. inv Hev. do 2 eexists. split; [reflexivity|]. split; [constructor | assumption].
  - simpl in Hg. apply andb_prop in Hg. destruct Hg as [Hg1 Hg2]. simpl in Hev |- *.
    destruct (eval_s n Go W en s) as [[[r1 e1] t1]| |] eqn:Ea; try discriminate.
    destruct (IHs _ _ _ _ _ _ Hen Hg1 Ea) as [r1' [e1' [Ha [Rr Re]]]]. rewrite Ha.
    destruct r1 as [v1|].
    + inv Hev. inversion Rr; subst. do 2 eexists. split; [reflexivity|]. split; [constructor; assumption | assumption].
    + inversion Rr; subst.
      destruct (eval_ss n Go W e1 t) as [[[r2 e2] t2]| |] eqn:Eb; try discriminate. inv Hev.
      destruct (IHss _ _ _ _ _ _ Re Hg2 Eb) as [r2' [e2' [Hb [Rr2 Re2]]]]. rewrite Hb.
      do 2 eexists. split; [reflexivity|]. split; assumption.
Qed.

Lemma sim_all n : forall W W', wrel W W' ->
  sim_e n W W' /\ sim_es n W W' /\ sim_s n W W' /\ sim_ss n W W'.
Proof.
  induction n as [|n IH]; intros W W' HW.
  - unfold sim_e, sim_es, sim_s, sim_ss. repeat split; intros; simpl in *; congruence.
  - destruct (IH W W' HW) as [He [Hes [Hs Hss]]].
    split; [apply sim_e_step; assumption|].
    split; [apply sim_es_step; assumption|].
    split; [apply sim_s_step; assumption | apply sim_ss_step; assumption].
Qed.

End Sim.
Transparent c25_xgo_builtins c25_print_funcs c25_fmt_path.

(* ================================================================ goodness for the conjunction of two name conditions *)

Lemma forallb_and {A} (f g : A -> bool) l :
  forallb f l = true -> forallb g l = true -> forallb (fun x => f x && g x)%bool l = true.
Proof.
  induction l as [|a l IH]; simpl; [reflexivity|]. intros H1 H2.
  apply andb_prop in H1. apply andb_prop in H2. destruct H1 as [-> H1], H2 as [-> H2]. simpl. auto.
Qed.

Lemma good_and ok1 ok2 :
  (forall e, good_e ok1 e = true -> good_e ok2 e = true -> good_e (fun x => ok1 x && ok2 x)%bool e = true) /\
  (forall es, good_es ok1 es = true -> good_es ok2 es = true -> good_es (fun x => ok1 x && ok2 x)%bool es = true) /\
  (forall s, good_s ok1 s = true -> good_s ok2 s = true -> good_s (fun x => ok1 x && ok2 x)%bool s = true) /\
  (forall ss, good_ss ok1 ss = true -> good_ss ok2 ss = true -> good_ss (fun x => ok1 x && ok2 x)%bool ss = true).
Proof.
  apply syntax_mutind; simpl; intros; auto;
    repeat match goal with
    | H : (_ && _)%bool = true |- _ => apply andb_prop in H; destruct H
    end;
    repeat (apply andb_true_intro; split); auto using forallb_and.
Qed.

(* ================================================================ the two passes of formatFile are the ctx-free translation *)

Definition t1 (im : list (name * str)) (d : decl) : decl :=
  match d with DVar x e => DVar x (t_e im e) | _ => d end.
Definition t2 (im : list (name * str)) (d : decl) : decl :=
  match d with
  | DFunc f ps res b => DFunc f ps res (t_ss im b)
  | DMethod ty r m ps res b => DMethod ty r m ps res (t_ss im b)
  | _ => d
  end.

Definition is_import (d : decl) : bool := match d with DImport _ _ => true | _ => false end.

Lemma imports_of_none ds : forallb (fun d => negb (is_import d)) ds = true -> imports_of ds = [].
Proof.
  induction ds as [|d t IH]; simpl; [reflexivity|]. intros H. apply andb_prop in H. destruct H as [H1 H2].
  destruct d; simpl in *; try discriminate; auto.
Qed.

Lemma pass1_noimp okf : forall ds c, forallb (fun d => negb (is_import d)) ds = true -> scope_inv c ->
  forallb (good_decl (ni (imps c)) okf) ds = true ->
  fst (fst (pass1 c ds)) = map (t1 (imps c)) ds /\ scope_inv (snd (fst (pass1 c ds))) /\ imps (snd (fst (pass1 c ds))) = imps c.
Proof.
  destruct tr_is_t as [He _].
  induction ds as [|d t IH]; intros c Hn Hc Hg; [simpl; auto|].
  simpl in Hn. apply andb_prop in Hn. destruct Hn as [Hd Hn].
  simpl in Hg. apply andb_prop in Hg. destruct Hg as [Hgd Hg].
  destruct d; try discriminate; simpl.
  - (* DVar *) simpl in Hgd. apply andb_prop in Hgd. destruct Hgd as [Hx Hge].
    destruct (He e) as [Hte _]. specialize (Hte c Hc Hge).
    destruct (tr_expr c e) as [e' u1]. simpl in Hte. subst e'.
    assert (Hc' : scope_inv (insert x c)) by (apply scope_inv_insert; assumption).
    assert (Hg' : forallb (good_decl (ni (imps (insert x c))) okf) t = true) by (rewrite imps_insert; exact Hg).
    destruct (IH (insert x c) Hn Hc' Hg') as [H1 [H2 H3]].
    destruct (pass1 (insert x c) t) as [[t' c2] u2]. simpl in *. rewrite imps_insert in *.
    subst t'. auto.
  - destruct (IH c Hn Hc Hg) as [H1 [H2 H3]]. destruct (pass1 c t) as [[t' c2] u2]. simpl in *. subst. auto.
  - destruct (IH c Hn Hc Hg) as [H1 [H2 H3]]. destruct (pass1 c t) as [[t' c2] u2]. simpl in *. subst. auto.
  - destruct (IH c Hn Hc Hg) as [H1 [H2 H3]]. destruct (pass1 c t) as [[t' c2] u2]. simpl in *. subst. auto.
Qed.

Lemma forallb_eq {A} (f g : A -> bool) l : (forall x, f x = g x) -> forallb f l = forallb g l.
Proof. intros H. induction l as [|a l IH]; simpl; [reflexivity|]. rewrite H, IH. reflexivity. Qed.

Lemma imports_first_tail d t : imports_first (d :: t) = true -> is_import d = false ->
  forallb (fun d => negb (is_import d)) (d :: t) = true.
Proof.
  intros H Hd.
  rewrite (forallb_eq _ (fun d => match d with DImport _ _ => false | _ => true end)); [|intros z; destruct z; reflexivity].
  destruct d; try discriminate; exact H.
Qed.

Lemma pass1_ok okf : forall ds c, imports_first ds = true -> (forall x, in_scope x c = false) ->
  forallb (good_decl (ni (imps c ++ imports_of ds)) okf) ds = true ->
  fst (fst (pass1 c ds)) = map (t1 (imps c ++ imports_of ds)) ds /\
  scope_inv (snd (fst (pass1 c ds))) /\ imps (snd (fst (pass1 c ds))) = imps c ++ imports_of ds.
Proof.
  induction ds as [|d t IH]; intros c Hi Hs Hg.
  - simpl. rewrite app_nil_r. split; [reflexivity|]. split; [|reflexivity]. intros x Hx. rewrite Hs in Hx. discriminate.
  - destruct (is_import d) eqn:Ed.
    + destruct d; try discriminate. simpl in Hi, Hg |- *.
      set (c1 := Fctx (imps c ++ [(nm, path)]) (scopes c)).
      assert (Hs1 : forall x, in_scope x c1 = false) by (intros x; apply Hs).
      assert (Himp : imps c1 ++ imports_of t = imps c ++ (nm, path) :: imports_of t).
      { unfold c1. simpl. rewrite <- app_assoc. reflexivity. }
      rewrite <- Himp in Hg |- *.
      destruct (IH c1 Hi Hs1 Hg) as [H1 [H2 H3]].
      destruct (pass1 c1 t) as [[t' c2] u]. simpl in *. subst t'. auto.
    + pose proof (imports_first_tail d t Hi Ed) as Hn.
      rewrite (imports_of_none _ Hn), app_nil_r in *.
      apply (pass1_noimp okf); [exact Hn | | exact Hg].
      intros x Hx. rewrite Hs in Hx. discriminate.
Qed.

Definition good_fn (ok : name -> bool) (d : decl) : bool :=
  match d with
  | DFunc _ _ _ b => good_ss ok b
  | DMethod _ _ _ _ _ b => good_ss ok b
  | _ => true
  end.

Lemma pass2_ok c : scope_inv c -> forall ds, forallb (good_fn (ni (imps c))) ds = true ->
  fst (pass2 c ds) = map (t2 (imps c)) ds.
Proof.
  destruct tr_is_t as [_ [_ [_ Hss]]].
  intros Hc. induction ds as [|d t IH]; intros Hg; [reflexivity|].
  simpl in Hg. apply andb_prop in Hg. destruct Hg as [Hgd Hg]. specialize (IH Hg).
  simpl. destruct (pass2 c t) as [t' u2]. simpl in IH. subst t'.
  destruct d; simpl; try reflexivity.
  - simpl in Hgd. destruct (Hss body c Hc Hgd) as [_ H2]. destruct (tr_block c body) as [b' u]. simpl in *. subst. reflexivity.
  - simpl in Hgd. destruct (Hss body c Hc Hgd) as [_ H2]. destruct (tr_block c body) as [b' u]. simpl in *. subst. reflexivity.
Qed.

Lemma good_fn_t1 im ok okf ds : forallb (good_decl ok okf) ds = true -> forallb (good_fn ok) (map (t1 im) ds) = true.
Proof.
  induction ds as [|d t IH]; simpl; [reflexivity|]. intros H. apply andb_prop in H. destruct H as [H1 H2].
  rewrite (IH H2), andb_true_r. destruct d; simpl in *; auto.
  - apply andb_prop in H1. tauto.
  - apply andb_prop in H1. tauto.
Qed.

Lemma t2_t1 im ds : map (t2 im) (map (t1 im) ds) = map (t_decl im) ds.
Proof. rewrite map_map. apply map_ext. intros d. destruct d; reflexivity. Qed.

Lemma gopstyle_decls_ok ds : imports_first ds = true ->
  forallb (good_decl (ni (imports_of ds)) (fun _ => true)) ds = true ->
  fst (gopstyle_decls ds) = map (t_decl (imports_of ds)) ds.
Proof.
  intros Hi Hg. unfold gopstyle_decls.
  destruct (pass1_ok (fun _ => true) ds (Fctx [] [[]]) Hi (fun x => eq_refl) Hg) as [H1 [H2 H3]].
  destruct (pass1 (Fctx [] [[]]) ds) as [[ds1 c] u1]. simpl in *. subst ds1.
  pose proof (pass2_ok c H2 (map (t1 (imports_of ds)) ds)) as Hp2.
  rewrite H3 in Hp2. specialize (Hp2 (good_fn_t1 _ _ _ _ Hg)).
  destruct (pass2 c (map (t1 (imports_of ds)) ds)) as [ds2 u2]. simpl in *. subst ds2. apply t2_t1.
Qed.

(* ================================================================ the program level *)

Lemma imports_of_t im ds : imports_of (map (t_decl im) ds) = imports_of ds.
Proof. induction ds as [|d t IH]; simpl; [reflexivity|]. destruct d; simpl; rewrite ?IH; reflexivity. Qed.

Lemma funcs_of_t im ds : funcs_of (map (t_decl im) ds) = map (tfun im) (funcs_of ds).
Proof. induction ds as [|d t IH]; simpl; [reflexivity|]. destruct d; simpl; rewrite ?IH; reflexivity. Qed.

Lemma methods_of_t im ds : methods_of (map (t_decl im) ds) = map (tmeth im) (methods_of ds).
Proof. induction ds as [|d t IH]; simpl; [reflexivity|]. destruct d; simpl; rewrite ?IH; reflexivity. Qed.

Lemma sassoc_in {A} k (l : list (str * A)) v : sassoc k l = Some v -> In (k, v) l.
Proof.
  induction l as [|[k' v'] l IH]; simpl; [discriminate|].
  destruct (str_eqb k k') eqn:E; intros H.
  - apply str_eqb_eq in E. inversion H; subst. auto.
  - auto.
Qed.

Lemma funcs_of_in ds f ps b : In (f, (ps, b)) (funcs_of ds) -> exists res, In (DFunc f ps res b) ds.
Proof.
  induction ds as [|d t IH]; simpl; [tauto|]. destruct d; simpl; intros H.
  1-3, 5: destruct (IH H) as [r0 Hr]; eauto.
  destruct H as [H | H]; [inversion H; subst; eauto | destruct (IH H) as [r0 Hr]; eauto].
Qed.

Lemma find_method_in t m ms r ps b : find_method t m ms = Some (r, (ps, b)) -> In (t, (m, (r, (ps, b)))) ms.
Proof.
  induction ms as [|[t' [m' rb]] ms IH]; simpl; [discriminate|].
  destruct (str_eqb t t' && str_eqb m m')%bool eqn:E; intros H.
  - apply andb_prop in E. destruct E as [E1 E2]. apply str_eqb_eq in E1, E2. inversion H; subst. auto.
  - auto.
Qed.

Lemma methods_of_in ds t m r ps b : In (t, (m, (r, (ps, b)))) (methods_of ds) -> exists res, In (DMethod t r m ps res b) ds.
Proof.
  induction ds as [|d l IH]; simpl; [tauto|]. destruct d; simpl; intros H.
  1-4: destruct (IH H) as [r0 Hr]; eauto.
  destruct H as [H | H]; [inversion H; subst; eauto | destruct (IH H) as [r1 Hr]; eauto].
Qed.

Definition with_genv (W : world) (g : env) : world := World (w_imps W) (w_funcs W) (w_methods W) g.

(* all the side conditions, for the combined name condition okn *)
Definition clean (p : prog) : Prop :=
  let ds := pdecls p in
  forallb (good_decl (okn (imports_of ds)) (fun f => negb (is_subst f))) ds = true.

Lemma clean_of p : no_shadow p = true -> no_builtin_clash p = true -> clean p.
Proof.
  unfold no_shadow, no_builtin_clash, clean. intros H1 H2.
  apply forallb_forall. intros d Hd. rewrite forallb_forall in H1, H2. specialize (H1 d Hd). specialize (H2 d Hd).
  destruct (good_and (not_import (pdecls p)) (fun x => negb (is_subst x))) as [Ge [_ [_ Gss]]].
  assert (Hok : forall x, okn (imports_of (pdecls p)) x = (not_import (pdecls p) x && negb (is_subst x))%bool) by reflexivity.
  destruct d; simpl in *; auto.
  - apply andb_prop in H1. apply andb_prop in H2. destruct H1 as [A1 B1], H2 as [A2 B2].
    unfold okn, ni. unfold not_import in A1. rewrite A1, A2. simpl. apply Ge; assumption.
  - apply andb_prop in H1. apply andb_prop in H2. destruct H1 as [A1 B1], H2 as [A2 B2].
    apply andb_prop in A2. destruct A2 as [A2 C2].
    rewrite A2. simpl. apply andb_true_intro. split; [apply forallb_and; assumption | apply Gss; assumption].
  - apply andb_prop in H1. apply andb_prop in H2. destruct H1 as [A1 B1], H2 as [A2 B2].
    apply andb_prop in A1. apply andb_prop in A2. destruct A1 as [A1 C1], A2 as [A2 C2].
    unfold okn at 1, ni. unfold not_import in A1. rewrite A1, A2. simpl.
    apply andb_true_intro. split; [apply forallb_and; assumption | apply Gss; assumption].
Qed.

Lemma wrel_of p g g' : clean p -> no_case_twin p = true ->
  Renv (imports_of (pdecls p)) g g' ->
  wrel (imports_of (pdecls p))
       (World (imports_of (pdecls p)) (funcs_of (pdecls p)) (methods_of (pdecls p)) g)
       (World (imports_of (pdecls p)) (map (tfun (imports_of (pdecls p))) (funcs_of (pdecls p)))
              (map (tmeth (imports_of (pdecls p))) (methods_of (pdecls p))) g').
Proof.
  intros Hc Ht Hg. unfold clean in Hc. rewrite forallb_forall in Hc.
  constructor; simpl; try reflexivity; try assumption.
  - intros f ps b Hf. apply sassoc_in in Hf. apply funcs_of_in in Hf. destruct Hf as [res Hin].
    specialize (Hc _ Hin). simpl in Hc. apply andb_prop in Hc. destruct Hc as [Hc Hb].
    apply andb_prop in Hc. destruct Hc as [_ Hp]. auto.
  - intros f Hs. destruct (sassoc f (funcs_of (pdecls p))) as [[ps b]|] eqn:Ef; [|reflexivity].
    apply sassoc_in in Ef. apply funcs_of_in in Ef. destruct Ef as [res Hin].
    specialize (Hc _ Hin). simpl in Hc. apply andb_prop in Hc. destruct Hc as [Hc _].
    apply andb_prop in Hc. destruct Hc as [Hf _]. rewrite Hs in Hf. discriminate.
  - intros t m r ps b Hf. apply find_method_in in Hf. apply methods_of_in in Hf. destruct Hf as [res Hin].
    specialize (Hc _ Hin). simpl in Hc. apply andb_prop in Hc. destruct Hc as [Hc Hb].
    apply andb_prop in Hc. destruct Hc as [Hr Hp]. auto.
  - intros t m [r [ps b]] Hf Hex. unfold no_case_twin in Ht. rewrite forallb_forall in Ht.
    apply find_method_in in Hf. specialize (Ht _ Hf). simpl in Ht. rewrite Hex in Ht. simpl in Ht.
    destruct (find_method t (lower_first m) (methods_of (pdecls p))); [discriminate | reflexivity].
Qed.

Lemma init_sim n p : clean p -> no_case_twin p = true ->
  forall l, (forall d, In d l -> In d (pdecls p)) ->
  forall g g' tr0 g1 t1, Renv (imports_of (pdecls p)) g g' ->
  init_vars n Go (World (imports_of (pdecls p)) (funcs_of (pdecls p)) (methods_of (pdecls p)) []) l g tr0 = Ok (g1, t1) ->
  exists g1', init_vars n XGo
      (World (imports_of (pdecls p)) (map (tfun (imports_of (pdecls p))) (funcs_of (pdecls p)))
             (map (tmeth (imports_of (pdecls p))) (methods_of (pdecls p))) [])
      (map (t_decl (imports_of (pdecls p))) l) g' tr0 = Ok (g1', t1) /\ Renv (imports_of (pdecls p)) g1 g1'.
Proof.
  intros Hc Ht. induction l as [|d l IH]; intros Hl g g' tr0 g1 t1 Hg Hev.
  - simpl in *. inversion Hev; subst. eauto.
  - assert (Hl' : forall d0, In d0 l -> In d0 (pdecls p)) by (intros; apply Hl; simpl; auto).
    destruct d as [nm path | x e | ty | f ps res body | ty r m ps res body]; simpl in Hev |- *; try (eapply (IH Hl'); eassumption).
    destruct (eval_e n Go _ g e) as [[v ta]| |] eqn:Ea; try discriminate.
    pose proof (wrel_of p g g' Hc Ht Hg) as HW.
    destruct (sim_all _ n _ _ HW) as [He _].
    assert (Hgd : In (DVar x e) (pdecls p)) by (apply Hl; simpl; auto).
    pose proof Hc as Hc'. unfold clean in Hc'. rewrite forallb_forall in Hc'. specialize (Hc' _ Hgd).
    simpl in Hc'. apply andb_prop in Hc'. destruct Hc' as [Hx Hge].
    destruct (He _ _ _ _ _ Hg Hge Ea) as [v' [Ha Rv]]. rewrite Ha.
    apply (IH Hl' ((x, v) :: g) ((x, v') :: g')); [constructor; assumption | exact Hev].
Qed.

(* C25 (semantic kernel): the converted tree, before the deletion of an unused fmt import, has the trace
   of the original program *)
Theorem gopstyle_keep_preserves p n tr :
  imports_first (pdecls p) = true -> no_shadow p = true -> no_builtin_clash p = true -> no_case_twin p = true ->
  run n Go p = Ok tr -> run n XGo (gopstyle_keep p) = Ok tr.
Proof.
  intros Hi Hs Hb Ht Hrun.
  pose proof (clean_of p Hs Hb) as Hc.
  unfold run in *. unfold gopstyle_keep. cbn [pdecls].
  rewrite (gopstyle_decls_ok (pdecls p) Hi Hs).
  set (ds := pdecls p) in *. set (im := imports_of ds) in *.
  rewrite imports_of_t, funcs_of_t, methods_of_t. fold im.
  destruct (init_vars n Go (World im (funcs_of ds) (methods_of ds) []) ds [] []) as [[g t0]| |] eqn:Ei; try discriminate.
  destruct (init_sim n p Hc Ht ds (fun d H => H) [] [] [] g t0 (Renv_nil im) Ei) as [g' [Hi' Rg]].
  fold ds im in Hi'. rewrite Hi'.
  rewrite sassoc_tfun.
  destruct (sassoc main_name (funcs_of ds)) as [[ps b]|] eqn:Em; [|discriminate].
  destruct (eval_ss n Go (World im (funcs_of ds) (methods_of ds) g) g b) as [[[r e2] t1]| |] eqn:Es; try discriminate.
  inversion Hrun; subst tr.
  pose proof (wrel_of p g g' Hc Ht Rg) as HW. fold ds im in HW.
  destruct (sim_all _ n _ _ HW) as [_ [_ [_ Hss]]].
  destruct (wr_fgood _ _ _ HW _ _ _ Em) as [_ Hgb].
  destruct (Hss _ _ _ _ _ _ Rg Hgb Es) as [r' [e2' [Hs' _]]]. rewrite Hs'. reflexivity.
Qed.
