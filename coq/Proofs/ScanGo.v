(* C16: XGo scanner vs go/scanner - table agreement, divergence witnesses. *)
From Coq Require Import List NArith ZArith Bool Lia.
Import ListNotations.
From V Require Import Base.Prelude Gen.ScanTok Model.Scan Model.ScanRel.
Open Scope Z_scope.

(* every token of go/token has the same number in token/token.go *)
Lemma codes_agree t : code Go t <> -1 -> code XGo t = code Go t.
Proof. destruct t; try reflexivity; intros H; exfalso; apply H; reflexivity. Qed.

(* token.Lookup agrees: the two keyword tables (regenerated from both packages) are equal *)
Lemma keywords_agree : xgo_keywords = go_keywords.
Proof. reflexivity. Qed.
Lemma lookup_agree lit : lookup XGo lit = lookup Go lit.
Proof. unfold lookup. rewrite keywords_agree. reflexivity. Qed.
Lemma kw_semi_agree k : kw_semi XGo k = kw_semi Go k.
Proof. reflexivity. Qed.

Section WithUni.
Variable ul ud : Z -> bool.

(* the Go lexemes on which the two scanners differ (DESIGN section 7): each is a witness that the
   stream of the XGo dialect differs from the stream of the Go dialect *)
Definition w_tilde : str := [126]%N.                           (* ~ *)
Definition w_not_nl : str := [120; 33; 10]%N.                  (* x!\n *)
Definition w_ellipsis_nl : str := [120; 46; 46; 46; 10]%N.     (* x...\n *)
Definition w_trailing_comment : str := [97; 47; 47]%N.         (* a// *)
Definition w_trailing_block : str := [97; 47; 42; 10; 42; 47; 98]%N.   (* a/*\n*/b *)
Definition w_line_big : str :=                                 (* //line f:2000000000 *)
  [47;47;108;105;110;101;32;102;58;50;48;48;48;48;48;48;48;48;48]%N.

Lemma diverge_tilde : stream_eqb (stream ul ud XGo true w_tilde) (stream ul ud Go true w_tilde) = false.
Proof. vm_compute. reflexivity. Qed.
Lemma diverge_not_nl : stream_eqb (stream ul ud XGo true w_not_nl) (stream ul ud Go true w_not_nl) = false.
Proof. vm_compute. reflexivity. Qed.
Lemma diverge_ellipsis_nl : stream_eqb (stream ul ud XGo true w_ellipsis_nl) (stream ul ud Go true w_ellipsis_nl) = false.
Proof. vm_compute. reflexivity. Qed.
Lemma diverge_trailing_comment cm :
  stream_eqb (stream ul ud XGo cm w_trailing_comment) (stream ul ud Go cm w_trailing_comment) = false.
Proof. destruct cm; vm_compute; reflexivity. Qed.
Lemma diverge_trailing_block cm :
  stream_eqb (stream ul ud XGo cm w_trailing_block) (stream ul ud Go cm w_trailing_block) = false.
Proof. destruct cm; vm_compute; reflexivity. Qed.
Lemma diverge_line_big : stream_eqb (stream ul ud XGo true w_line_big) (stream ul ud Go true w_line_big) = false.
Proof. vm_compute. reflexivity. Qed.

(* the exact streams of the trailing-comment witness, as in DESIGN: XGo IDENT@0 ;@1 COMMENT@1,
   Go IDENT@0 COMMENT@1 ;@3 *)
Lemma trailing_comment_streams :
  stream ul ud XGo true w_trailing_comment
    = Some ([(4, 0, [97%N]); (57, 1, [10%N]); (2, 1, [47; 47]%N); (1, 3, [])], [])
  /\ stream ul ud Go true w_trailing_comment
    = Some ([(4, 0, [97%N]); (2, 1, [47; 47]%N); (57, 3, [10%N]); (1, 3, [])], []).
Proof. split; vm_compute; reflexivity. Qed.
End WithUni.

Lemma stream_eqb_sound x y : stream_eqb x y = true -> stream_eq x y.
Proof.
  destruct x as [[tx ex]|], y as [[ty ey]|]; cbn [stream_eqb stream_eq]; try discriminate.
  intros H. apply andb_prop in H as [H H3]. apply andb_prop in H as [H1 H2]. split.
  - clear -H1. revert ty H1. induction tx as [|[[c1 p1] l1] tx IH]; destruct ty as [|[[c2 p2] l2] ty]; cbn [obs_list_eqb]; try discriminate; auto.
    intros H. apply andb_prop in H as [H H4]. apply andb_prop in H as [H H3]. apply andb_prop in H as [H1 H2].
    apply Z.eqb_eq in H1, H2. apply str_eqb_eq in H3. subst. f_equal. apply IH, H4.
  - assert (M : forall o l, zmem o l = true <-> In o l).
    { intros o l. induction l as [|x l IH]; cbn [zmem In]; [split; [discriminate|tauto]|].
      rewrite orb_true_iff, Z.eqb_eq, IH. tauto. }
    unfold incl_b in *. rewrite forallb_forall in H2, H3. intros o. split; intros I.
    + apply M, H2, I.
    + apply M, H3, I.
Qed.
Lemma stream_eq_eqb x y : stream_eq x y -> stream_eqb x y = true.
Proof.
  destruct x as [[tx ex]|], y as [[ty ey]|]; cbn [stream_eqb stream_eq]; try tauto.
  intros [-> S].
  assert (M : forall o l, zmem o l = true <-> In o l).
  { intros o l. induction l as [|x l IH]; cbn [zmem In]; [split; [discriminate|tauto]|].
    rewrite orb_true_iff, Z.eqb_eq, IH. tauto. }
  assert (R : obs_list_eqb ty ty = true).
  { induction ty as [|[[c p] l] ty IH]; cbn [obs_list_eqb]; [reflexivity|].
    rewrite !Z.eqb_refl, IH. replace (str_eqb l l) with true; [reflexivity|]. symmetry. apply str_eqb_eq. reflexivity. }
  rewrite R. cbn [andb]. apply andb_true_intro. split; unfold incl_b; apply forallb_forall; intros o I; apply M, S, I.
Qed.
Lemma stream_neq x y : stream_eqb x y = false -> ~ stream_eq x y.
Proof. intros H E. apply stream_eq_eqb in E. congruence. Qed.
