(* Lemmas for C07: no panic escapes the recover skeleton, whatever the bodies do. *)
From Coq Require Import List NArith ZArith Bool Lia.
Import ListNotations.
From V Require Import Base.Prelude Model.C07.

Section Skeleton.
  Context {X E W : Type}.
  Variable recover_err : X -> E.
  Notation st := (@st E W).
  Notation comp := (@comp X E W).
  Notation guarded := (@guarded X E W recover_err).

  Definition no_raise (c : comp) : Prop := forall s, fst (c s) = Done.

  Lemma guarded_no_raise (after : st -> st) (body : comp) : no_raise (guarded true after body).
  Proof. intros s. unfold C07.guarded. destruct (body s) as [[|x] s']; reflexivity. Qed.

  Lemma guarded_done (after : st -> st) (body : comp) s s' : body s = (Done, s') -> guarded true after body s = (Done, s').
  Proof. intros H. unfold C07.guarded. rewrite H. reflexivity. Qed.

  (* a recovered panic becomes exactly one error, appended after what the body had reported *)
  Lemma guarded_raised (after : st -> st) (body : comp) s s' x :
    (forall t, errs (after t) = errs t) ->
    body s = (Raised x, s') ->
    fst (guarded true after body s) = Done /\
    errs (snd (guarded true after body s)) = errs s' ++ [recover_err x].
  Proof. intros Ha H. unfold C07.guarded. rewrite H. cbn. rewrite Ha. auto. Qed.

  Lemma guarded_disabled (after : st -> st) (body : comp) : forall s, guarded false after body s = body s.
  Proof. intros s. unfold C07.guarded. destruct (body s) as [[|x] s']; reflexivity. Qed.

  Lemma seq_no_raise (c1 c2 : comp) : no_raise c1 -> no_raise c2 -> no_raise (seq c1 c2).
  Proof.
    intros H1 H2 s. unfold seq. specialize (H1 s). destruct (c1 s) as [[|x] s']; cbn in *; [apply H2|discriminate].
  Qed.

  Lemma seq_all_no_raise (cs : list comp) : Forall no_raise cs -> no_raise (seq_all cs).
  Proof.
    induction 1 as [|c t Hc Ht IH]; cbn [seq_all]; [intros s; reflexivity|]. apply seq_no_raise; auto.
  Qed.

  Lemma compile_stmts_no_raise (reset : st -> st) (bodies : list comp) : no_raise (compile_stmts recover_err reset true bodies).
  Proof.
    unfold compile_stmts. apply seq_all_no_raise. rewrite Forall_forall. intros c Hc.
    apply in_map_iff in Hc as (b & <- & _). apply guarded_no_raise.
  Qed.

  Lemma load_symbol_no_raise (reset : st -> st) (decl : comp) (stmts : list comp) : no_raise (load_symbol recover_err reset true decl stmts).
  Proof. apply guarded_no_raise. Qed.

  Lemma load_import_no_raise (body : comp) : no_raise (load_import recover_err true body).
  Proof. apply guarded_no_raise. Qed.

  (* with recovery on, only the unprotected class-loading part of the body can raise *)
  Lemma package_body_raises_only_in_classes (reset : st -> st) (classes : comp) (imports : list comp)
        (symbols : list (comp * list comp)) (s : st) x s' :
    package_body recover_err reset true classes imports symbols s = (Raised x, s') ->
    classes s = (Raised x, s').
  Proof.
    unfold package_body, seq at 1. destruct (classes s) as [[|y] s1] eqn:Ec; [|auto].
    intros H. exfalso.
    assert (Hn : no_raise (seq (seq_all (map (load_import recover_err true) imports))
                               (seq_all (map (fun sy => load_symbol recover_err reset true (fst sy) (snd sy)) symbols)))).
    { apply seq_no_raise; apply seq_all_no_raise; rewrite Forall_forall; intros c Hc;
      apply in_map_iff in Hc as (b & <- & _); apply guarded_no_raise. }
    specialize (Hn s1). rewrite H in Hn. discriminate.
  Qed.

  (* ---------- NewPackage ---------- *)
  Notation new_package := (@new_package X E W recover_err).

  Lemma new_package_no_escape (gogen_new body tail rec_complete : comp) (s0 : st) :
    exists p err s, new_package true false true gogen_new body tail rec_complete s0 = Returned p err s.
  Proof.
    unfold C07.new_package, after_panic, finish. cbn [negb].
    destruct (gogen_new s0) as [[|x] s1]; [|eauto].
    destruct (body s1) as [[|x] s2]; [|eauto].
    destruct (tail s2) as [[|x] s3]; eauto.
  Qed.

  (* what is returned: without panic the error list of ctx.complete(); after a panic the errors
     reported so far plus exactly one error for the panic — never an empty list *)
  Lemma new_package_returns (gogen_new body tail rec_complete : comp) (s0 : st) :
    match new_package true false true gogen_new body tail rec_complete s0 with
    | Escaped _ => False
    | Returned p err s =>
      match gogen_new s0 with
      | (Raised x, s1) => p = false /\ err = errs s1 ++ [recover_err x]
      | (Done, s1) =>
        match body s1 with
        | (Raised x, s2) => p = true /\ err = errs s2 ++ [recover_err x]
        | (Done, s2) =>
          match tail s2 with
          | (Raised x, s3) => p = true /\ err = errs s3 ++ [recover_err x]
          | (Done, s3) => p = true /\ err = errs s2 /\ s = s3
          end
        end
      end
    end.
  Proof.
    unfold C07.new_package, after_panic, finish. cbn [negb].
    destruct (gogen_new s0) as [[|x] s1]; [|cbn; auto].
    destruct (body s1) as [[|x] s2]; [|cbn; auto].
    destruct (tail s2) as [[|x] s3]; cbn; auto.
  Qed.

  Lemma app_single_nonnil {A} (l : list A) a : l ++ [a] <> [].
  Proof. destruct l; discriminate. Qed.

  (* with a Recorder: a panic escapes iff p was set (gogen.NewPackage returned) and rec.Complete itself
     raises on the final state; what escapes is rec.Complete's own panic *)
  Lemma new_package_recorder_escape_iff (gogen_new body tail rec_complete : comp) (s0 : st) x :
    new_package true true true gogen_new body tail rec_complete s0 = Escaped x <->
    (exists err s y s', new_package true false true gogen_new body tail (fun s => (Done, s)) s0 = Returned true err s /\
                        rec_complete s = (Raised y, s') /\ x = Some y).
  Proof.
    unfold C07.new_package, after_panic, finish. cbn [negb].
    destruct (gogen_new s0) as [[|z] s1].
    2:{ split; [discriminate|]. intros (err & s & y & s' & H & _). discriminate. }
    destruct (body s1) as [[|z] s2].
    2:{ cbn. split.
        - destruct (rec_complete (handle_recover recover_err z s2)) as [[|w] s'] eqn:Er; [discriminate|].
          intros H. injection H as <-. do 4 eexists. split; [reflexivity|]. split; [exact Er|reflexivity].
        - intros (err & s & y & s' & H & Hr & ->). injection H as <- <-. rewrite Hr. reflexivity. }
    destruct (tail s2) as [[|z] s3]; cbn.
    - split.
      + destruct (rec_complete s3) as [[|w] s'] eqn:Er; [discriminate|].
        intros H. injection H as <-. do 4 eexists. split; [reflexivity|]. split; [exact Er|reflexivity].
      + intros (err & s & y & s' & H & Hr & ->). injection H as <- <-. rewrite Hr. reflexivity.
    - split.
      + destruct (rec_complete (handle_recover recover_err z s3)) as [[|w] s'] eqn:Er; [discriminate|].
        intros H. injection H as <-. do 4 eexists. split; [reflexivity|]. split; [exact Er|reflexivity].
      + intros (err & s & y & s' & H & Hr & ->). injection H as <- <-. rewrite Hr. reflexivity.
  Qed.

  (* a panic of gogen.NewPackage does not escape any more, Recorder or not: p stays nil, err is set *)
  Lemma new_package_gogen_panic_returns has_rec (gogen_new body tail rec_complete : comp) (s0 : st) x s1 :
    gogen_new s0 = (Raised x, s1) ->
    new_package true has_rec true gogen_new body tail rec_complete s0 =
      Returned false (errs s1 ++ [recover_err x]) (handle_recover recover_err x s1).
  Proof.
    intros H. unfold C07.new_package, after_panic, finish. cbn [negb]. rewrite H. destruct has_rec; reflexivity.
  Qed.

  (* a Recorder whose Complete does not raise changes nothing about escaping *)
  Lemma new_package_recorder_no_escape (gogen_new body tail rec_complete : comp) (s0 : st) :
    (forall s, fst (rec_complete s) = Done) ->
    exists p err s, new_package true true true gogen_new body tail rec_complete s0 = Returned p err s.
  Proof.
    intros Hrc. unfold C07.new_package, after_panic, finish. cbn [negb].
    assert (Hfin : forall err (s : st), exists p' err' s',
               match rec_complete s with
               | (Raised x, _) => @Escaped X E W (Some x)
               | (Done, s') => Returned true err s'
               end = Returned p' err' s').
    { intros err s. specialize (Hrc s). destruct (rec_complete s) as [[|x] s']; [eauto|discriminate]. }
    destruct (gogen_new s0) as [[|x] s1]; [|cbn; eauto].
    destruct (body s1) as [[|x] s2]; [|cbn; apply Hfin].
    destruct (tail s2) as [[|x] s3]; cbn; apply Hfin.
  Qed.

  (* SetDisableRecover(true): the panic of the body escapes *)
  Lemma new_package_disabled_escapes has_rec (gogen_new body tail rec_complete : comp) (s0 : st) s1 s2 x :
    gogen_new s0 = (Done, s1) -> body s1 = (Raised x, s2) ->
    new_package false has_rec true gogen_new body tail rec_complete s0 = Escaped (Some x).
  Proof. intros H1 H2. unfold C07.new_package, after_panic. cbn [negb]. rewrite H1, H2. reflexivity. Qed.

  Lemma new_package_nil_args enable has_rec (gogen_new body tail rec_complete : comp) (s0 : st) :
    new_package enable has_rec false gogen_new body tail rec_complete s0 = Escaped None.
  Proof. reflexivity. Qed.

  (* ---------- x/build ---------- *)
  Lemma build_file_no_escape (build_err : X -> E) (pc : st -> outcome * option E * st) (ts : st -> outcome * option E) (s : st) :
    forall x, build_file build_err pc ts s <> BEscaped x.
  Proof.
    intros x. unfold build_file. destruct (pc s) as [[[|y] [e|]] s'];
      try discriminate; destruct (ts s') as [[|z] [e'|]]; discriminate.
  Qed.

  Lemma build_file_panic_is_error (build_err : X -> E) (pc : st -> outcome * option E * st) (ts : st -> outcome * option E) (s : st) :
    (exists x oe s', pc s = (Raised x, oe, s')) \/
    (exists s', (exists oe, pc s = (Done, None, s') /\ exists x, ts s' = (Raised x, oe))) ->
    exists e, build_file build_err pc ts s = BErr e.
  Proof.
    unfold build_file. intros [(x & oe & s' & H)|(s' & oe & H & x & Ht)].
    - rewrite H. eauto.
    - rewrite H, Ht. eauto.
  Qed.
End Skeleton.

(* ---------- overloadFuncName ---------- *)
Lemma overload_func_name_panic_iff table name i :
  overload_func_name table name i = Panic <-> (i < 0 \/ zlen table <= i)%Z.
Proof.
  unfold overload_func_name, zlen.
  destruct (i <? 0)%Z eqn:E1; cbn [orb].
  - apply Z.ltb_lt in E1. split; auto.
  - apply Z.ltb_ge in E1.
    destruct (Z.of_nat (length table) <? i + 1)%Z eqn:E2.
    + apply Z.ltb_lt in E2. split; [intros _; right; lia|auto].
    + apply Z.ltb_ge in E2. unfold idx. destruct (i <? 0)%Z eqn:E3; [apply Z.ltb_lt in E3; lia|].
      destruct (nth_error table (Z.to_nat i)) eqn:En.
      * cbn. split; [discriminate|lia].
      * apply nth_error_None in En. lia.
Qed.
