(* Lemmas for C01: the normalisations cl performs on plain Go preserve the behaviour of MiniGo
   programs; emission in load order is the identity when no function refers to a variable declared
   later, and changes the initialisation order otherwise. *)
From Coq Require Import List NArith ZArith Bool Lia.
Import ListNotations.
From V Require Import Base.Prelude Model.C01.

Lemma strip_eval r e : eval_expr r (strip e) = eval_expr r e.
Proof.
  induction e; cbn [strip eval_expr]; auto.
  rewrite IHe1, IHe2. reflexivity.
Qed.

Lemma fields_of_split groups : fields_of (split_fields groups) = fields_of groups.
Proof.
  unfold fields_of, split_fields. induction groups as [|[fs v] t IH]; cbn [flat_map]; auto.
  rewrite flat_map_app, IH. f_equal. cbn [fst snd]. clear IH.
  induction fs as [|f fs IHf]; cbn [map flat_map]; auto. cbn [fst snd map app]. rewrite IHf. reflexivity.
Qed.

Lemma struct_zero_map p t : struct_zero (map lower_decl p) t = struct_zero p t.
Proof.
  induction p as [|d p IH]; cbn [map struct_zero]; auto.
  destruct d; cbn [lower_decl struct_zero]; auto.
  destruct (N.eqb t t0); auto. rewrite fields_of_split. reflexivity.
Qed.
Lemma struct_zero_lower p t : struct_zero (lower_go p) t = struct_zero p t.
Proof. unfold lower_go. cbn [struct_zero]. apply struct_zero_map. Qed.

Lemma func_body_map p f : func_body (map lower_decl p) f = option_map strip_stmt (func_body p f).
Proof.
  induction p as [|d p IH]; cbn [map func_body]; auto.
  destruct d; cbn [lower_decl func_body]; auto.
  destruct (N.eqb f f0); auto.
Qed.
Lemma func_body_lower p f : func_body (lower_go p) f = option_map strip_stmt (func_body p f).
Proof. unfold lower_go. cbn [func_body]. apply func_body_map. Qed.

Lemma exec_lower p : forall fuel s st, exec (lower_go p) fuel (strip_stmt s) st = exec p fuel s st.
Proof.
  induction fuel as [|f IH]; intros s st; [reflexivity|].
  destruct s; cbn [strip_stmt exec]; rewrite ?strip_eval; auto.
  - (* SSeq *) rewrite IH. destruct (exec p f s1 st) as [[] st']; auto.
  - (* SNew *) rewrite struct_zero_lower. reflexivity.
  - (* SIf *) destruct (eval_expr (st_env st) c) as [[| [] | | |]|]; auto.
  - (* SFor *)
    destruct (eval_expr (st_env st) c) as [[| [] | | |]|]; auto.
    rewrite IH. destruct (exec p f s2 st) as [[] st']; auto.
    + rewrite IH. destruct (exec p f s1 st') as [[] st'']; auto.
      change (SFor l (strip c) (strip_stmt s1) (strip_stmt s2)) with (strip_stmt (SFor l c s1 s2)). apply IH.
    + destruct (label_matches l0 l); auto.
      rewrite IH. destruct (exec p f s1 st') as [[] st'']; auto.
      change (SFor l (strip c) (strip_stmt s1) (strip_stmt s2)) with (strip_stmt (SFor l c s1 s2)). apply IH.
  - (* SCall *)
    rewrite func_body_lower. destruct (func_body p f0) as [body|]; cbn [option_map]; auto.
    rewrite IH. reflexivity.
  - (* SDeferRecover *)
    rewrite IH. destruct (exec p f s1 st) as [[] st']; auto.
Qed.

Lemma init_vars_lower p fuel : forall ds st,
  init_vars (lower_go p) fuel (map lower_decl ds) st = init_vars p fuel ds st.
Proof.
  induction ds as [|d ds IH]; intros st; cbn [map init_vars]; auto.
  destruct d; cbn [lower_decl init_vars]; auto.
  change (SSeq (strip_stmt pre) (SAssign x (strip e))) with (strip_stmt (SSeq pre (SAssign x e))).
  rewrite exec_lower. destruct (exec p fuel (SSeq pre (SAssign x e)) st) as [[] st']; auto.
Qed.

Lemma lower_go_preserves p fuel : run fuel (lower_go p) = run fuel p.
Proof.
  unfold run. unfold lower_go at 2. cbn [init_vars]. rewrite init_vars_lower.
  destruct (init_vars p fuel p {| st_env := []; st_out := [] |}) as [[] st]; auto.
  change (SCall main_name) with (strip_stmt (SCall main_name)). rewrite exec_lower. reflexivity.
Qed.

(* ---------- load order ---------- *)
(* no function refers to a package-level variable declared after it; variable names distinct *)
Fixpoint no_forward_refs (p : prog) (seen : list var) (ds : list decl) : bool :=
  match ds with
  | [] => true
  | DVar x _ _ :: rest => negb (mem_var x seen) && no_forward_refs p (x :: seen) rest
  | DFunc _ body :: rest =>
    forallb (fun y => mem_var y seen || match find_var p y with None => true | Some _ => false end) (stmt_vars body)
    && no_forward_refs p seen rest
  | _ :: rest => no_forward_refs p seen rest
  end.

Lemma find_var_app_notin pre x d rest :
  mem_var x (var_names pre) = false ->
  find_var (pre ++ d :: rest) x = find_var (d :: rest) x.
Proof.
  induction pre as [|a pre IH]; cbn [app]; auto.
  intros H. destruct a; cbn [var_names flat_map app] in H; cbn [find_var]; auto.
  cbn [mem_var existsb] in H. apply orb_false_elim in H as [H1 H2].
  rewrite H1. apply IH. exact H2.
Qed.

Lemma load_vars_noop p seen decls ys :
  forallb (fun y => mem_var y seen || match find_var p y with None => true | Some _ => false end) ys = true ->
  fold_left (load_var p) ys (decls, seen) = (decls, seen).
Proof.
  induction ys as [|y ys IH]; cbn [forallb fold_left]; auto.
  intros H. apply andb_prop in H as [Hy Hys]. unfold load_var at 2. cbn [snd fst].
  destruct (mem_var y seen) eqn:E; [apply IH; exact Hys|].
  cbn [orb] in Hy. destruct (find_var p y); [discriminate|]. apply IH; exact Hys.
Qed.

Lemma mem_var_rev x l : mem_var x (rev l) = mem_var x l.
Proof.
  unfold mem_var. induction l as [|a l IH]; [reflexivity|].
  change (rev (a :: l)) with (rev l ++ [a]). rewrite existsb_app.
  cbn [existsb].
  assert (H : forall b1 b2 c : bool, b1 = b2 -> b1 || (c || false) = c || b2)
    by (intros [] [] []; cbn; congruence).
  apply H. exact IH.
Qed.

Lemma var_names_snoc pre d : var_names (pre ++ [d]) = var_names pre ++ var_names [d].
Proof. unfold var_names. apply flat_map_app. Qed.

Lemma emit_fold p : forall ds pre,
  p = pre ++ ds ->
  no_forward_refs p (rev (var_names pre)) ds = true ->
  fold_left (load_decl p) ds (rev pre, rev (var_names pre)) = (rev (pre ++ ds), rev (var_names (pre ++ ds))).
Proof.
  induction ds as [|d ds IH]; intros pre Hp Hn.
  - rewrite app_nil_r. reflexivity.
  - cbn [fold_left]. assert (Hp' : p = (pre ++ [d]) ++ ds) by (rewrite <- app_assoc; exact Hp).
    replace (pre ++ d :: ds) with ((pre ++ [d]) ++ ds) by (rewrite <- app_assoc; reflexivity).
    specialize (IH (pre ++ [d]) Hp'). rewrite rev_unit, var_names_snoc in IH.
    destruct d; cbn [no_forward_refs] in Hn.
    + (* DMarker *) cbn [load_decl fst snd].
      change (var_names [DMarker]) with (@nil var) in IH. rewrite app_nil_r in IH. apply IH. exact Hn.
    + cbn [load_decl fst snd].
      change (var_names [DStruct t groups]) with (@nil var) in IH. rewrite app_nil_r in IH. apply IH. exact Hn.
    + (* DVar *)
      apply andb_prop in Hn as [Hx Hn]. apply negb_true_iff in Hx.
      cbn [load_decl]. unfold load_var. cbn [snd fst]. rewrite Hx.
      rewrite mem_var_rev in Hx.
      rewrite Hp, (find_var_app_notin pre x (DVar x e pre0) ds Hx). cbn [find_var]. rewrite N.eqb_refl.
      rewrite <- Hp.
      change (var_names [DVar x e pre0]) with [x] in IH. rewrite rev_unit in IH. apply IH. exact Hn.
    + (* DFunc *)
      apply andb_prop in Hn as [Hb Hn].
      cbn [load_decl]. rewrite (load_vars_noop p _ _ _ Hb). cbn [fst snd].
      change (var_names [DFunc f body]) with (@nil var) in IH. rewrite app_nil_r in IH. apply IH. exact Hn.
Qed.

Lemma emit_order_id p : no_forward_refs p [] p = true -> emit_order p = p.
Proof.
  intros H. unfold emit_order.
  pose proof (emit_fold p p [] eq_refl H) as E. cbn [rev var_names flat_map app] in E.
  rewrite E. cbn [fst]. apply rev_involutive.
Qed.

Lemma emit_order_preserves p fuel : no_forward_refs p [] p = true -> run fuel (emit_order p) = run fuel p.
Proof. intros H. rewrite emit_order_id; auto. Qed.

(* the witness: func f refers to b before `var a`, `var b` are declared; both initialisers print *)
Definition tr (n : Z) : stmt := SPrint (EInt n).
Definition init_order_witness : prog :=
  [ DFunc 1 (SPrint (EVar 11));                 (* func f() { fmt.Println(b) } *)
    DVar 10 (EInt 1) (tr 100);                  (* var a = tr("a") *)
    DVar 11 (EInt 2) (tr 200);                  (* var b = tr("b") *)
    DFunc 0 (SCall 1) ]%N.                      (* func main() { f() } *)

Lemma init_order_refuted :
  var_names (emit_order init_order_witness) = [11; 10]%N /\
  run 10 init_order_witness = (Normal, [VInt 100; VInt 200; VInt 2]) /\
  run 10 (emit_order init_order_witness) = (Normal, [VInt 200; VInt 100; VInt 2]).
Proof. repeat split; vm_compute; reflexivity. Qed.
