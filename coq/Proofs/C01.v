(* Lemmas for C01: the normalisations cl performs on plain Go preserve the behaviour of MiniGo
   programs; emission in load order is the identity when no function refers to a variable declared
   later, and changes the initialisation order otherwise. *)
From Coq Require Import List NArith ZArith Bool Lia Permutation.
Import ListNotations.
From V Require Import Base.Prelude Model.C01.

Lemma strip_eval r e : eval_expr r (strip e) = eval_expr r e.
Proof.
  induction e; cbn [strip eval_expr]; auto.
  rewrite IHe1, IHe2. reflexivity.
Qed.

Lemma fields_of_split groups : fields_of (split_fields groups) = fields_of groups.
Proof.
  unfold fields_of, split_fields. induction groups as [|[fs v] t IH]; cbn [flat_map]; auto.
  rewrite flat_map_app, IH. f_equal. cbn [fst snd]. clear IH.
  induction fs as [|f fs IHf]; cbn [map flat_map]; auto. cbn [fst snd map app]. rewrite IHf. reflexivity.
Qed.

Lemma struct_zero_map p t : struct_zero (map lower_decl p) t = struct_zero p t.
Proof.
  induction p as [|d p IH]; cbn [map struct_zero]; auto.
  destruct d; cbn [lower_decl struct_zero]; auto.
  destruct (N.eqb t t0); auto. rewrite fields_of_split. reflexivity.
Qed.
Lemma struct_zero_lower p t : struct_zero (lower_go p) t = struct_zero p t.
Proof. unfold lower_go. cbn [struct_zero]. apply struct_zero_map. Qed.

Lemma func_body_map p f : func_body (map lower_decl p) f = option_map strip_stmt (func_body p f).
Proof.
  induction p as [|d p IH]; cbn [map func_body]; auto.
  destruct d; cbn [lower_decl func_body]; auto.
  destruct (N.eqb f f0); auto.
Qed.
Lemma func_body_lower p f : func_body (lower_go p) f = option_map strip_stmt (func_body p f).
Proof. unfold lower_go. cbn [func_body]. apply func_body_map. Qed.

Lemma exec_lower p : forall fuel s st, exec (lower_go p) fuel (strip_stmt s) st = exec p fuel s st.
Proof.
  induction fuel as [|f IH]; intros s st; [reflexivity|].
  destruct s; cbn [strip_stmt exec]; rewrite ?strip_eval; auto.
  - (* SSeq *) rewrite IH. destruct (exec p f s1 st) as [[] st']; auto.
  - (* SNew *) rewrite struct_zero_lower. reflexivity.
  - (* SIf *) destruct (eval_expr (st_env st) c) as [[| [] | | |]|]; auto.
  - (* SFor *)
    destruct (eval_expr (st_env st) c) as [[| [] | | |]|]; auto.
    rewrite IH. destruct (exec p f s2 st) as [[] st']; auto.
    + rewrite IH. destruct (exec p f s1 st') as [[] st'']; auto.
      change (SFor l (strip c) (strip_stmt s1) (strip_stmt s2)) with (strip_stmt (SFor l c s1 s2)). apply IH.
    + destruct (label_matches l0 l); auto.
      rewrite IH. destruct (exec p f s1 st') as [[] st'']; auto.
      change (SFor l (strip c) (strip_stmt s1) (strip_stmt s2)) with (strip_stmt (SFor l c s1 s2)). apply IH.
  - (* SCall *)
    rewrite func_body_lower. destruct (func_body p f0) as [body|]; cbn [option_map]; auto.
    rewrite IH. reflexivity.
  - (* SDeferRecover *)
    rewrite IH. destruct (exec p f s1 st) as [[] st']; auto.
Qed.

Lemma init_vars_lower p fuel : forall ds st,
  init_vars (lower_go p) fuel (map lower_decl ds) st = init_vars p fuel ds st.
Proof.
  induction ds as [|d ds IH]; intros st; cbn [map init_vars]; auto.
  destruct d; cbn [lower_decl init_vars]; auto.
  change (SSeq (strip_stmt pre) (SAssign x (strip e))) with (strip_stmt (SSeq pre (SAssign x e))).
  rewrite exec_lower. destruct (exec p fuel (SSeq pre (SAssign x e)) st) as [[] st']; auto.
Qed.

Lemma lower_go_preserves p fuel : run fuel (lower_go p) = run fuel p.
Proof.
  unfold run. unfold lower_go at 2. cbn [init_vars]. rewrite init_vars_lower.
  destruct (init_vars p fuel p {| st_env := []; st_out := [] |}) as [[] st]; auto.
  change (SCall main_name) with (strip_stmt (SCall main_name)). rewrite exec_lower. reflexivity.
Qed.

(* ---------- load order ---------- *)
(* no function refers to a package-level variable declared after it; variable names distinct *)
Fixpoint no_forward_refs (p : prog) (seen : list var) (ds : list decl) : bool :=
  match ds with
  | [] => true
  | DVar x _ _ :: rest => negb (mem_var x seen) && no_forward_refs p (x :: seen) rest
  | DFunc _ body :: rest =>
    forallb (fun y => mem_var y seen || match find_var p y with None => true | Some _ => false end) (stmt_vars body)
    && no_forward_refs p seen rest
  | _ :: rest => no_forward_refs p seen rest
  end.

Lemma find_var_app_notin pre x d rest :
  mem_var x (var_names pre) = false ->
  find_var (pre ++ d :: rest) x = find_var (d :: rest) x.
Proof.
  induction pre as [|a pre IH]; cbn [app]; auto.
  intros H. destruct a; cbn [var_names flat_map app] in H; cbn [find_var]; auto.
  cbn [mem_var existsb] in H. apply orb_false_elim in H as [H1 H2].
  rewrite H1. apply IH. exact H2.
Qed.

Lemma load_vars_noop p seen decls ys :
  forallb (fun y => mem_var y seen || match find_var p y with None => true | Some _ => false end) ys = true ->
  fold_left (load_var p) ys (decls, seen) = (decls, seen).
Proof.
  induction ys as [|y ys IH]; cbn [forallb fold_left]; auto.
  intros H. apply andb_prop in H as [Hy Hys]. unfold load_var at 2. cbn [snd fst].
  destruct (mem_var y seen) eqn:E; [apply IH; exact Hys|].
  cbn [orb] in Hy. destruct (find_var p y); [discriminate|]. apply IH; exact Hys.
Qed.

Lemma mem_var_rev x l : mem_var x (rev l) = mem_var x l.
Proof.
  unfold mem_var. induction l as [|a l IH]; [reflexivity|].
  change (rev (a :: l)) with (rev l ++ [a]). rewrite existsb_app.
  cbn [existsb].
  assert (H : forall b1 b2 c : bool, b1 = b2 -> b1 || (c || false) = c || b2)
    by (intros [] [] []; cbn; congruence).
  apply H. exact IH.
Qed.

Lemma var_names_snoc pre d : var_names (pre ++ [d]) = var_names pre ++ var_names [d].
Proof. unfold var_names. apply flat_map_app. Qed.

Lemma emit_fold p : forall ds pre,
  p = pre ++ ds ->
  no_forward_refs p (rev (var_names pre)) ds = true ->
  fold_left (load_decl p) ds (rev pre, rev (var_names pre)) = (rev (pre ++ ds), rev (var_names (pre ++ ds))).
Proof.
  induction ds as [|d ds IH]; intros pre Hp Hn.
  - rewrite app_nil_r. reflexivity.
  - cbn [fold_left]. assert (Hp' : p = (pre ++ [d]) ++ ds) by (rewrite <- app_assoc; exact Hp).
    replace (pre ++ d :: ds) with ((pre ++ [d]) ++ ds) by (rewrite <- app_assoc; reflexivity).
    specialize (IH (pre ++ [d]) Hp'). rewrite rev_unit, var_names_snoc in IH.
    destruct d; cbn [no_forward_refs] in Hn.
    + (* DMarker *) cbn [load_decl fst snd].
      change (var_names [DMarker]) with (@nil var) in IH. rewrite app_nil_r in IH. apply IH. exact Hn.
    + cbn [load_decl fst snd].
      change (var_names [DStruct t groups]) with (@nil var) in IH. rewrite app_nil_r in IH. apply IH. exact Hn.
    + (* DVar *)
      apply andb_prop in Hn as [Hx Hn]. apply negb_true_iff in Hx.
      cbn [load_decl]. unfold load_var. cbn [snd fst]. rewrite Hx.
      rewrite mem_var_rev in Hx.
      rewrite Hp, (find_var_app_notin pre x (DVar x e pre0) ds Hx). cbn [find_var]. rewrite N.eqb_refl.
      rewrite <- Hp.
      change (var_names [DVar x e pre0]) with [x] in IH. rewrite rev_unit in IH. apply IH. exact Hn.
    + (* DFunc *)
      apply andb_prop in Hn as [Hb Hn].
      cbn [load_decl]. rewrite (load_vars_noop p _ _ _ Hb). cbn [fst snd].
      change (var_names [DFunc f body]) with (@nil var) in IH. rewrite app_nil_r in IH. apply IH. exact Hn.
Qed.

Lemma emit_order_id p : no_forward_refs p [] p = true -> emit_order p = p.
Proof.
  intros H. unfold emit_order.
  pose proof (emit_fold p p [] eq_refl H) as E. cbn [rev var_names flat_map app] in E.
  rewrite E. cbn [fst]. apply rev_involutive.
Qed.

Lemma emit_order_preserves p fuel : no_forward_refs p [] p = true -> run fuel (emit_order p) = run fuel p.
Proof. intros H. rewrite emit_order_id; auto. Qed.

(* the witness: func f refers to b before `var a`, `var b` are declared; both initialisers print *)
Definition tr (n : Z) : stmt := SPrint (EInt n).
Definition init_order_witness : prog :=
  [ DFunc 1 (SPrint (EVar 11));                 (* func f() { fmt.Println(b) } *)
    DVar 10 (EInt 1) (tr 100);                  (* var a = tr("a") *)
    DVar 11 (EInt 2) (tr 200);                  (* var b = tr("b") *)
    DFunc 0 (SCall 1) ]%N.                      (* func main() { f() } *)

Lemma init_order_refuted :
  var_names (emit_order init_order_witness) = [11; 10]%N /\
  run 10 init_order_witness = (Normal, [VInt 100; VInt 200; VInt 2]) /\
  run 10 (emit_order init_order_witness) = (Normal, [VInt 200; VInt 100; VInt 2]).
Proof. repeat split; vm_compute; reflexivity. Qed.

(* ---------- emission in load order never loses or duplicates a declaration ---------- *)

Lemma mem_var_true_iff x l : mem_var x l = true <-> In x l.
Proof.
  unfold mem_var. rewrite existsb_exists. split.
  - intros (y & Hy & E). apply N.eqb_eq in E. subst. exact Hy.
  - intros H. exists x. split; auto. apply N.eqb_refl.
Qed.
Lemma mem_var_false_iff x l : mem_var x l = false <-> ~ In x l.
Proof. rewrite <- mem_var_true_iff. destruct (mem_var x l); split; intros; congruence. Qed.

Lemma in_var_names x e pre p : In (DVar x e pre) p -> In x (var_names p).
Proof.
  unfold var_names. intros H. apply in_flat_map. exists (DVar x e pre). split; auto. left. reflexivity.
Qed.

Lemma find_var_in p x d : find_var p x = Some d -> In d p /\ exists e pre, d = DVar x e pre.
Proof.
  induction p as [|a p IH]; cbn [find_var]; [discriminate|].
  destruct a; try (intros H; destruct (IH H) as [Hin Hex]; split; [right; exact Hin|exact Hex]).
  destruct (N.eqb x x0) eqn:E.
  - intros H. injection H as <-. apply N.eqb_eq in E. subst. split; [left; reflexivity|eauto].
  - intros H. destruct (IH H) as [Hin Hex]. split; [right; exact Hin|exact Hex].
Qed.

Lemma find_var_unique p x e pre :
  NoDup (var_names p) -> In (DVar x e pre) p -> find_var p x = Some (DVar x e pre).
Proof.
  induction p as [|a p IH]; intros Hnd Hin; [destruct Hin|].
  destruct Hin as [->|Hin].
  - cbn [find_var]. rewrite N.eqb_refl. reflexivity.
  - destruct a; cbn [find_var]; cbn [var_names flat_map app] in Hnd; try (apply IH; assumption).
    inversion Hnd as [|? ? Hni Hnd']; subst.
    destruct (N.eqb x x0) eqn:E.
    + apply N.eqb_eq in E. subst. exfalso. apply Hni. eapply in_var_names; eauto.
    + apply IH; assumption.
Qed.

Definition is_pending (loaded : list var) (d : decl) : bool :=
  match d with DVar x _ _ => negb (mem_var x loaded) | _ => true end.
Definition pending (ds : list decl) (loaded : list var) : list decl := filter (is_pending loaded) ds.

Lemma mem_var_cons x y l : mem_var x (y :: l) = N.eqb x y || mem_var x l.
Proof. reflexivity. Qed.

Lemma pending_notin ds y loaded : ~ In y (var_names ds) -> pending ds (y :: loaded) = pending ds loaded.
Proof.
  induction ds as [|a ds IH]; intros Hn; [reflexivity|].
  unfold pending in *. cbn [filter].
  assert (Hn' : ~ In y (var_names ds)).
  { intros H. apply Hn. unfold var_names in *. cbn [flat_map]. apply in_or_app. right. exact H. }
  rewrite (IH Hn').
  destruct a; cbn [is_pending]; auto.
  rewrite mem_var_cons. destruct (N.eqb x y) eqn:E; auto.
  apply N.eqb_eq in E. subst. exfalso. apply Hn. unfold var_names. cbn [flat_map]. left. reflexivity.
Qed.

Lemma pending_remove ds y e pre loaded :
  NoDup (var_names ds) -> In (DVar y e pre) ds -> mem_var y loaded = false ->
  Permutation (pending ds loaded) (DVar y e pre :: pending ds (y :: loaded)).
Proof.
  induction ds as [|a ds IH]; intros Hnd Hin Hl; [destruct Hin|].
  destruct Hin as [->|Hin].
  - cbn [var_names flat_map app] in Hnd. inversion Hnd as [|? ? Hni Hnd']; subst.
    unfold pending. cbn [filter is_pending]. rewrite Hl, mem_var_cons, N.eqb_refl. cbn [negb orb].
    fold (pending ds loaded). fold (pending ds (y :: loaded)). rewrite (pending_notin ds y loaded Hni). reflexivity.
  - destruct a.
    + unfold pending. cbn [filter is_pending]. fold (pending ds loaded). fold (pending ds (y :: loaded)).
      eapply perm_trans; [apply perm_skip; apply IH; auto|apply perm_swap].
    + unfold pending. cbn [filter is_pending]. fold (pending ds loaded). fold (pending ds (y :: loaded)).
      eapply perm_trans; [apply perm_skip; apply IH; auto|apply perm_swap].
    + cbn [var_names flat_map app] in Hnd. inversion Hnd as [|? ? Hni Hnd']; subst.
      assert (Hxy : N.eqb x y = false).
      { apply N.eqb_neq. intros ->. apply Hni. eapply in_var_names; eauto. }
      unfold pending. cbn [filter is_pending]. rewrite mem_var_cons, Hxy. cbn [orb].
      fold (pending ds loaded). fold (pending ds (y :: loaded)).
      destruct (negb (mem_var x loaded)).
      * eapply perm_trans; [apply perm_skip; apply IH; auto|apply perm_swap].
      * apply IH; auto.
    + unfold pending. cbn [filter is_pending]. fold (pending ds loaded). fold (pending ds (y :: loaded)).
      eapply perm_trans; [apply perm_skip; apply IH; auto|apply perm_swap].
Qed.

Lemma load_var_step p em loaded y :
  load_var p (em, loaded) y =
  if mem_var y loaded then (em, loaded)
  else match find_var p y with Some d => (d :: em, y :: loaded) | None => (em, loaded) end.
Proof. reflexivity. Qed.

Section EmitPerm.
  Variable p : prog.
  Hypothesis p_nodup : NoDup (var_names p).

  (* every not yet loaded package-level variable of p is still ahead in ds *)
  Definition ahead (loaded : list var) (ds : list decl) : Prop :=
    forall x e pre, In (DVar x e pre) p -> mem_var x loaded = false -> In (DVar x e pre) ds.

  Lemma load_vars_perm ds : NoDup (var_names ds) -> forall ys em loaded,
    ahead loaded ds ->
    Permutation (fst (fold_left (load_var p) ys (em, loaded)) ++ pending ds (snd (fold_left (load_var p) ys (em, loaded))))
                (em ++ pending ds loaded)
    /\ ahead (snd (fold_left (load_var p) ys (em, loaded))) ds.
  Proof.
    intros Hnd. induction ys as [|y ys IH]; intros em loaded Ha; cbn [fold_left]; [split; auto|].
    rewrite load_var_step.
    destruct (mem_var y loaded) eqn:El; [apply IH; exact Ha|].
    destruct (find_var p y) as [d|] eqn:Ef; [|apply IH; exact Ha].
    destruct (find_var_in _ _ _ Ef) as [Hin (e & pre & ->)].
    assert (Hds : In (DVar y e pre) ds) by (apply Ha; auto).
    assert (Ha' : ahead (y :: loaded) ds).
    { intros x e' pre' Hx Hm. rewrite mem_var_cons in Hm. apply orb_false_elim in Hm as [_ Hm]. apply Ha; auto. }
    destruct (IH (DVar y e pre :: em) (y :: loaded) Ha') as [Hp Hah]. split; [|exact Hah].
    eapply perm_trans; [exact Hp|].
    cbn [app]. eapply perm_trans; [apply Permutation_middle|].
    apply Permutation_app_head. apply Permutation_sym. apply pending_remove; auto.
  Qed.

  Lemma emit_fold_perm : forall ds em loaded,
    NoDup (var_names ds) -> (forall d, In d ds -> In d p) -> ahead loaded ds ->
    Permutation (fst (fold_left (load_decl p) ds (em, loaded))) (em ++ pending ds loaded).
  Proof.
    induction ds as [|a ds IH]; intros em loaded Hnd Hsub Ha; cbn [fold_left].
    - unfold pending. cbn [filter]. rewrite app_nil_r. reflexivity.
    - assert (Hsub' : forall d, In d ds -> In d p) by (intros d Hd; apply Hsub; right; exact Hd).
      destruct a.
      + (* DMarker *)
        cbn [load_decl fst snd]. unfold pending. cbn [filter is_pending]. fold (pending ds loaded).
        eapply perm_trans; [apply IH; auto|].
        * intros x e pre Hx Hm. destruct (Ha x e pre Hx Hm) as [H|H]; [discriminate|exact H].
        * cbn [app]. apply Permutation_middle.
      + cbn [load_decl fst snd]. unfold pending. cbn [filter is_pending]. fold (pending ds loaded).
        eapply perm_trans; [apply IH; auto|].
        * intros x e pre Hx Hm. destruct (Ha x e pre Hx Hm) as [H|H]; [discriminate|exact H].
        * cbn [app]. apply Permutation_middle.
      + (* DVar *)
        cbn [var_names flat_map app] in Hnd. inversion Hnd as [|? ? Hni Hnd']; subst.
        cbn [load_decl]. rewrite load_var_step. unfold pending. cbn [filter is_pending]. fold (pending ds loaded).
        destruct (mem_var x loaded) eqn:El; cbn [negb].
        * apply IH; auto.
          intros x' e' pre' Hx Hm. destruct (Ha x' e' pre' Hx Hm) as [H|H]; [|exact H].
          injection H as -> _ _. congruence.
        * rewrite (find_var_unique p x e pre p_nodup (Hsub _ (or_introl eq_refl))).
          eapply perm_trans; [apply IH; auto|].
          -- intros x' e' pre' Hx Hm. rewrite mem_var_cons in Hm. apply orb_false_elim in Hm as [Hne Hm].
             destruct (Ha x' e' pre' Hx Hm) as [H|H]; [|exact H].
             injection H as -> _ _. rewrite N.eqb_refl in Hne. discriminate.
          -- rewrite (pending_notin ds x loaded Hni). cbn [app]. apply Permutation_middle.
      + (* DFunc *)
        cbn [load_decl]. unfold pending. cbn [filter is_pending]. fold (pending ds loaded).
        assert (Ha0 : ahead loaded ds).
        { intros x e pre Hx Hm. destruct (Ha x e pre Hx Hm) as [H|H]; [discriminate|exact H]. }
        assert (Hnd0 : NoDup (var_names ds)) by exact Hnd.
        destruct (load_vars_perm ds Hnd0 (stmt_vars body) em loaded Ha0) as [Hp Hah].
        destruct (fold_left (load_var p) (stmt_vars body) (em, loaded)) as [em1 loaded1] eqn:Ef. cbn [fst snd] in *.
        eapply perm_trans; [apply IH; auto|].
        cbn [app]. eapply perm_trans; [apply perm_skip; exact Hp|]. apply Permutation_middle.
  Qed.

  Lemma emit_order_perm : Permutation (emit_order p) p.
  Proof.
    unfold emit_order. eapply perm_trans; [apply Permutation_sym, Permutation_rev|].
    eapply perm_trans; [apply emit_fold_perm; auto|].
    - intros x e pre Hx _. exact Hx.
    - cbn [app]. unfold pending. clear p_nodup.
      induction p as [|a q IH]; cbn [filter]; auto.
      destruct a; cbn [is_pending mem_var existsb negb]; apply perm_skip; exact IH.
  Qed.
End EmitPerm.

(* ---------- expression switch ---------- *)
Lemma run_from_drop_no_default_fall cs :
  forallb (fun c => match c with (None, _, true) => false | _ => true end) cs = true ->
  drop_default_fallthrough cs = cs.
Proof.
  induction cs as [|[[o m] f] t IH]; cbn [forallb drop_default_fallthrough map]; auto.
  intros H. apply andb_prop in H as [H1 H2]. fold (drop_default_fallthrough t). rewrite (IH H2).
  destruct o; auto. destruct f; [discriminate|reflexivity].
Qed.

(* a default clause that is the LAST clause has nothing to fall into: there the dropped fallthrough is harmless *)
Lemma run_from_last_fall_irrelevant pre o m f : run_from (pre ++ [(o, m, f)]) = run_from (pre ++ [(o, m, false)]).
Proof.
  induction pre as [|[[o' m'] f'] t IH]; cbn [app run_from].
  - destruct f; reflexivity.
  - rewrite IH. reflexivity.
Qed.

Lemma drop_default_fallthrough_refuted :
  exists cs v, switch_exec (drop_default_fallthrough cs) v <> switch_exec cs v.
Proof.
  exists [(Some 0%Z, 1%N, false); (None, 2%N, true); (Some 1%Z, 3%N, false)], 5%Z. vm_compute. discriminate.
Qed.

(* without any fallthrough exactly one clause runs: the first matching case, else the default *)
Lemma run_from_no_fall c t : snd c = false -> run_from (c :: t) = [snd (fst c)].
Proof. destruct c as [[o m] f]. cbn. intros ->. reflexivity. Qed.

(* ---------- keyed struct literals ---------- *)
Lemma lookup_field_exact fs : forall name i, lookup_field fs name = Some i -> nth_error fs i = Some name.
Proof.
  induction fs as [|f t IH]; intros name i; cbn [lookup_field]; [discriminate|].
  destruct (str_eqb f name) eqn:E.
  - intros H. injection H as <-. apply str_eqb_eq in E. subst. reflexivity.
  - destruct (lookup_field t name) as [j|] eqn:Ej; cbn [option_map]; [|discriminate].
    intros H. injection H as <-. cbn [nth_error]. apply IH. exact Ej.
Qed.

(* accepting the capitalised spelling in the same pass is harmless when no field spelt that way precedes the
   exact one, and picks the WRONG field otherwise (struct { Value int; value int } with key value) *)
Lemma lookup_field_alias_same fs name :
  forallb (fun f => negb (str_eqb f (capitalise name)) || str_eqb f name) fs = true ->
  lookup_field_alias fs name = lookup_field fs name.
Proof.
  induction fs as [|f t IH]; cbn [forallb lookup_field lookup_field_alias]; auto.
  intros H. apply andb_prop in H as [H1 H2]. rewrite (IH H2).
  destruct (str_eqb f name); cbn [orb]; auto.
  destruct (str_eqb f (capitalise name)); [discriminate|reflexivity].
Qed.

Lemma lookup_field_alias_refuted :
  exists fs name i j, lookup_field fs name = Some i /\ lookup_field_alias fs name = Some j /\ i <> j.
Proof.
  exists [[86; 97; 108]; [118; 97; 108]]%N, [118; 97; 108]%N, 1%nat, 0%nat. repeat split; try (vm_compute; reflexivity). discriminate.
Qed.
