(* C29: the documented result shapes and choice/repetition disciplines, proved of the matcher model. *)
From Coq Require Import List NArith ZArith Bool Arith Lia.
Import ListNotations.
From V Require Import Base.Prelude Base.TplRes Gen.Tokens Model.Tpl Model.C30 Proofs.Tpl Proofs.C30.
Local Open Scope nat_scope.

Section Sem.
Variable env : list (option m).
Variable toks : list tokn.
Notation run := (run env toks).

(* a result of the sub-matcher g somewhere in the input *)
Definition result_of (g : m) (x : res) : Prop := exists f j n, run f (SM g j) = Ok (n, x, false).

(* ---- sequence: R1 R2 ... Rn -> a list with exactly n elements, the i-th being a result of Ri ---- *)
Lemma seq_loop_shape : forall f items i n0 acc n x,
  run f (SSq items i n0 acc) = Ok (n, x, false) ->
  exists l, x = RList (rev acc ++ l) /\ Forall2 result_of items l.
Proof.
  induction f as [|f IH]; intros items i n0 acc n x H; [discriminate|]. cbn [Tpl.run] in H.
  destruct items as [|it t].
  - injection H as <- <-. exists []. rewrite app_nil_r. split; auto.
  - destruct (run f (SM it (i + n0))) as [[[n1 x1] [|]]| |] eqn:E; try discriminate.
    apply IH in H as (l & -> & Hl). exists (x1 :: l). split.
    + cbn [rev]. rewrite <- app_assoc. reflexivity.
    + constructor; auto. exists f, (i + n0), n1. exact E.
Qed.

Lemma seq_shape f items i n x : run f (SM (MSeq items) i) = Ok (n, x, false) ->
  exists l, x = RList l /\ Forall2 result_of items l.
Proof.
  destruct f; [discriminate|]. cbn [Tpl.run]. intros H. apply seq_loop_shape in H as (l & -> & Hl). exists l. auto.
Qed.

Lemma seq_length f items i n x : run f (SM (MSeq items) i) = Ok (n, x, false) ->
  exists l, x = RList l /\ length l = length items.
Proof. intros H. apply seq_shape in H as (l & -> & Hl). exists l. split; auto. induction Hl; simpl; auto. Qed.

(* a sequence fails as soon as one item fails, reporting the tokens consumed so far (no backtracking) *)
Lemma seq_fail_step f it t i n0 acc n1 x1 : run f (SM it (i + n0)) = Ok (n1, x1, true) ->
  run (S f) (SSq (it :: t) i n0 acc) = failr (n0 + n1).
Proof. intros E. cbn [Tpl.run]. rewrite E. reflexivity. Qed.

(* ---- repetition: greedy, never fails once started, results in order ---- *)
Lemma rep_loop_shape : forall f r i n0 acc n x e,
  run f (SRp r i n0 acc) = Ok (n, x, e) ->
  e = false /\ n0 <= n /\ exists l, x = RList (rev acc ++ l) /\ Forall (result_of r) l /\
  (* greedy: the loop stopped because the body FAILED at the final position *)
  exists f' n' x', run f' (SM r (i + n)) = Ok (n', x', true).
Proof.
  induction f as [|f IH]; intros r i n0 acc n x e H; [discriminate|]. cbn [Tpl.run] in H.
  destruct (run f (SM r (i + n0))) as [[[n1 x1] [|]]| |] eqn:E; try discriminate.
  - injection H as <- <- <-. split; auto. split; auto. exists []. rewrite app_nil_r. repeat split; auto.
    exists f, n1, x1. exact E.
  - apply IH in H as (-> & Hn & l & -> & Hl & Hstop). split; auto. split; [lia|].
    exists (x1 :: l). split; [cbn [rev]; rewrite <- app_assoc; reflexivity|]. split; auto.
    constructor; auto. exists f, (i + n0), n1. exact E.
Qed.

Lemma rep0_shape f r i n x e : run f (SM (MRep0 r) i) = Ok (n, x, e) ->
  e = false /\ exists l, x = RList l /\ Forall (result_of r) l /\
  exists f' n' x', run f' (SM r (i + n)) = Ok (n', x', true).
Proof.
  destruct f; [discriminate|]. cbn [Tpl.run]. intros H. apply rep_loop_shape in H as (-> & _ & l & -> & Hl & Hs).
  split; auto. exists l. auto.
Qed.

Lemma rep1_shape f r i n x : run f (SM (MRep1 r) i) = Ok (n, x, false) ->
  exists l, x = RList l /\ l <> [] /\ Forall (result_of r) l /\
  exists f' n' x', run f' (SM r (i + n)) = Ok (n', x', true).
Proof.
  destruct f; [discriminate|]. cbn [Tpl.run]. intros H.
  destruct (run f (SM r i)) as [[[n0 x0] [|]]| |] eqn:E; try discriminate.
  apply rep_loop_shape in H as (_ & _ & l & -> & Hl & Hs). exists (x0 :: l). cbn [rev app]. repeat split; auto; [discriminate|].
  constructor; auto. exists f, i, n0. exact E.
Qed.

(* +R fails exactly when the first R fails *)
Lemma rep1_fail f r i n x : run f (SM (MRep1 r) i) = Ok (n, x, true) -> exists x', run (pred f) (SM r i) = Ok (n, x', true).
Proof.
  destruct f; [discriminate|]. cbn [Tpl.run pred]. intros H.
  destruct (run f (SM r i)) as [[[n0 x0] [|]]| |] eqn:E; try discriminate.
  - injection H as <- <-. eauto.
  - apply rep_loop_shape in H as (H & _). discriminate.
Qed.

(* ---- option: the result of R, or nil ---- *)
Lemma opt_shape f r i n x e : run f (SM (MRep01 r) i) = Ok (n, x, e) ->
  e = false /\ ((exists f', run f' (SM r i) = Ok (n, x, false)) \/
                (n = 0 /\ x = RNil /\ exists f' n' x', run f' (SM r i) = Ok (n', x', true))).
Proof.
  destruct f; [discriminate|]. cbn [Tpl.run]. intros H.
  destruct (run f (SM r i)) as [[[n0 x0] [|]]| |] eqn:E; try discriminate.
  - injection H as <- <- <-. split; auto. right. repeat split; auto. eauto.
  - injection H as <- <- <-. split; auto. left. eauto.
Qed.

(* ---- R1 % R2 : [r1, [[sep, r], ...]] — the shape the helpers of C30 expect ---- *)
Lemma list_shape f a b i n x : run f (SM (MList a b) i) = Ok (n, x, false) ->
  exists r0 pairs, x = RList (mk_list r0 pairs) /\ result_of a r0 /\
                   Forall (fun p => result_of b (fst p) /\ result_of a (snd p)) pairs.
Proof.
  unfold MList. intros H. apply seq_shape in H as (l & -> & Hl).
  inversion Hl as [|? r0 ? l1 Ha Hl1]; subst. inversion Hl1 as [|? y ? l2 Hy Hl2]; subst. inversion Hl2; subst.
  destruct Hy as (f' & j & n' & Hy). apply rep0_shape in Hy as (_ & l & -> & Hall & _).
  assert (G : exists pairs, l = map (fun p => RList [fst p; snd p]) pairs /\
                            Forall (fun p => result_of b (fst p) /\ result_of a (snd p)) pairs).
  { clear -Hall. induction Hall as [|z l Hz _ IH]; [exists []; split; constructor|].
    destruct IH as (pairs & -> & Hp). destruct Hz as (f & j & n & Hz). apply seq_shape in Hz as (l2 & -> & H2).
    inversion H2 as [|? s ? l3 Hs H3]; subst. inversion H3 as [|? r ? l4 Hr H4]; subst. inversion H4; subst.
    exists ((s, r) :: pairs). split; [reflexivity|]. constructor; auto. }
  destruct G as (pairs & -> & Hp). exists r0, pairs. repeat split; auto.
Qed.

(* the helpers of tpl.go do not panic on any result of R1 % R2 *)
Lemma helpers_no_panic_on_list_results f a b i n x : run f (SM (MList a b) i) = Ok (n, x, false) ->
  exists inp flat, x = RList inp /\ list_ inp = Ok flat /\ range_op inp = (flat, true).
Proof.
  intros H. apply list_shape in H as (r0 & pairs & -> & _ & _).
  exists (mk_list r0 pairs), (r0 :: map snd pairs). repeat split.
  - apply list_flatten.
  - apply range_op_order.
Qed.

(* ---- R1 ++ R2 : a pair; both parts consume tokens and the boundary tokens touch ---- *)
Lemma adjoin_shape f a b i n x : run f (SM (MAdj a b) i) = Ok (n, x, false) ->
  exists na nb r0 r1 p q,
    x = RList [r0; r1] /\ n = na + nb /\ 1 <= na /\ 1 <= nb /\
    (exists f', run f' (SM a i) = Ok (na, r0, false)) /\ (exists f', run f' (SM b (i + na)) = Ok (nb, r1, false)) /\
    nth_error toks (i + na - 1) = Some p /\ nth_error toks (i + na) = Some q /\ tok_end p = Ok (tpos q).
Proof.
  destruct f; [discriminate|]. cbn [Tpl.run]. intros H.
  destruct (run f (SM a i)) as [[[na r0] [|]]| |] eqn:Ea; try discriminate.
  destruct (Nat.eqb na 0) eqn:E0; [discriminate|]. apply Nat.eqb_neq in E0.
  destruct (run f (SM b (i + na))) as [[[nb r1] [|]]| |] eqn:Eb; try discriminate.
  destruct (Nat.eqb nb 0) eqn:E1; [discriminate|]. apply Nat.eqb_neq in E1.
  destruct (nth_error toks (i + na - 1)) as [p|] eqn:Ep; [|discriminate].
  destruct (nth_error toks (i + na)) as [q|] eqn:Eq; [|discriminate].
  destruct (tok_end p) as [e| |] eqn:Ee; cbn [bind] in H; try discriminate.
  destruct (Z.eqb e (tpos q)) eqn:Ez; [|discriminate]. apply Z.eqb_eq in Ez. subst e.
  injection H as <- <-. exists na, nb, r0, r1, p, q. repeat split; eauto; lia.
Qed.

(* ---- ordered choice with first-set commitment (Choices.Match) ---- *)
(* the first option that succeeds wins *)
Lemma choice_first_success f o t st i nm n x : run f (SM o i) = Ok (n, x, false) ->
  run (S f) (SCh (o :: t) st i nm) = Ok (n, x, false).
Proof. intros E. cbn [Tpl.run]. rewrite E. reflexivity. Qed.
(* an option that consumed input and failed ends the choice iff it conflicts with no later option *)
Lemma choice_commit f o t s st i nm n x : run f (SM o i) = Ok (n, x, true) -> 0 < n -> s = true ->
  run (S f) (SCh (o :: t) (s :: st) i nm) = Ok (n, x, true).
Proof. intros E Hn ->. cbn [Tpl.run]. rewrite E. apply Nat.ltb_lt in Hn. rewrite Hn. reflexivity. Qed.
(* otherwise the later options are tried, and the failure count is the maximum *)
Lemma choice_next f o t s st i nm n x : run f (SM o i) = Ok (n, x, true) -> n = 0 \/ s = false ->
  run (S f) (SCh (o :: t) (s :: st) i nm) = run f (SCh t st i (Nat.max nm n)).
Proof.
  intros E H. cbn [Tpl.run]. rewrite E. destruct H as [->| ->]; [reflexivity|]. rewrite andb_false_r. reflexivity.
Qed.
Lemma choice_exhausted f st i nm : run (S f) (SCh [] st i nm) = failr nm.
Proof. reflexivity. Qed.

(* the result of a successful choice is the result of one of its options, and every earlier
   option failed (ordered) *)
Lemma choice_loop_sound : forall f opts st i nm n x, run f (SCh opts st i nm) = Ok (n, x, false) ->
  exists pre o post, opts = pre ++ o :: post /\ (exists f', run f' (SM o i) = Ok (n, x, false)) /\
                     Forall (fun o' => exists f' n' x', run f' (SM o' i) = Ok (n', x', true)) pre.
Proof.
  induction f as [|f IH]; intros opts st i nm n x H; [discriminate|]. cbn [Tpl.run] in H.
  destruct opts as [|o t]; [discriminate|].
  destruct (run f (SM o i)) as [[[n1 x1] [|]]| |] eqn:E; try discriminate.
  - destruct st as [|s st']; [discriminate|]. destruct (Nat.ltb 0 n1 && s); [discriminate|].
    apply IH in H as (pre & o' & post & -> & Ho & Hpre). exists (o :: pre), o', post. repeat split; auto.
    constructor; auto. eauto.
  - injection H as <- <-. exists [], o, t. repeat split; eauto.
Qed.

Lemma choice_sound f opts st i n x : run f (SM (MChoice opts st) i) = Ok (n, x, false) ->
  exists pre o post, opts = pre ++ o :: post /\ (exists f', run f' (SM o i) = Ok (n, x, false)) /\
                     Forall (fun o' => exists f' n' x', run f' (SM o' i) = Ok (n', x', true)) pre.
Proof. destruct f; [discriminate|]. cbn [Tpl.run]. apply choice_loop_sound. Qed.

(* ---- tokens ---- *)
Lemma tok_shape f k i n x : run f (SM (MTok k) i) = Ok (n, x, false) ->
  n = 1 /\ x = RTok i /\ exists t, nth_error toks i = Some t /\ ttok t = k.
Proof.
  destruct f; [discriminate|]. cbn [Tpl.run]. destruct (nth_error toks i) as [t|]; [|discriminate].
  destruct (Z.eqb (ttok t) k) eqn:E; [|discriminate]. intros H. injection H as <- <-. apply Z.eqb_eq in E. eauto.
Qed.
Lemma lit_shape f k l i n x : run f (SM (MLit k l) i) = Ok (n, x, false) ->
  n = 1 /\ x = RTok i /\ exists t, nth_error toks i = Some t /\ ttok t = k /\ tlit t = l.
Proof.
  destruct f; [discriminate|]. cbn [Tpl.run]. destruct (nth_error toks i) as [t|]; [|discriminate].
  destruct (Z.eqb (ttok t) k && str_eqb (tlit t) l) eqn:E; [|discriminate]. intros H. injection H as <- <-.
  apply andb_prop in E as [E1 E2]. apply Z.eqb_eq in E1. apply str_eqb_eq in E2. eauto 6.
Qed.

(* rule references denote their bodies *)
Lemma var_unfold f v e i : nth_error env v = Some (Some e) -> run (S f) (SM (MVar v) i) = run f (SM e i).
Proof. intros H. cbn [Tpl.run]. rewrite H. reflexivity. Qed.

End Sem.
