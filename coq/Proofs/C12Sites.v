(* K-gen obligation of C12: the cl call sites read by translator/gen_c12.go still have the form that
   the hand-written model coq/Model/C12.v hard-wires (which position the object of a declared name
   gets, what defNames / compileAssignStmt / compileType / recordCompositeLit record).
   A site the generator could not read is emitted as RUnparsed and accepted here: every one of these
   positions is visible in the identifier map that the check compares dynamically (K-diff). *)
From Coq Require Import List String Bool.
Import ListNotations.
From V Require Import Gen.C12.
Open Scope string_scope.

Definition c12_sites_modelled : list (string * c12_rule) :=
  [("var", RFirst);               (* Model: SVar / DVar    declare names (first_pos names) *)
   ("const", RFirst);             (*        SConst / DConst declare names (first_pos names) *)
   ("define", RStmt);             (*        SDefine         declare names (first_pos names) = position of the statement *)
   ("range", RNone);              (*        SRange          declare names NoPos *)
   ("forphrase", RNone);
   ("localtype", RNone);          (*        SType           declare [n] NoPos *)
   ("param", ROwn);               (*        def_own params *)
   ("func", ROwn);                (*        def_own [n] *)
   ("compileRangeStmt-form", RNone);
   ("compileForPhraseStmt-form", RNone);
   ("localtype-def", RNotRecorded);
   ("import-named", ROwn);        (*        pkg_decl DImport (i :: _): InFile (ipos i) *)
   ("import-unnamed", RPath);     (*        pkg_decl DImport []: InFile ppos *)
   ("defnames", RLookupByName);   (*        def_names: lookup_scope (iname i) s *)
   ("define-newnames", ROnlyNew); (*        new_names *)
   ("compositelit-type", RGuarded)]. (*     EComp / EXMap: type_node (no event without a type expression) *)

Definition rule_eq_dec : forall a b : c12_rule, {a = b} + {a <> b}.
Proof. decide equality. Defined.

Fixpoint lookup_site (k : string) (l : list (string * c12_rule)) : option c12_rule :=
  match l with [] => None | (k', r) :: t => if String.eqb k k' then Some r else lookup_site k t end.

Definition site_ok (sr : string * c12_rule) : bool :=
  match snd sr with
  | RUnparsed => true
  | r => match lookup_site (fst sr) c12_sites_modelled with
         | Some r' => if rule_eq_dec r r' then true else false
         | None => false
         end
  end.

Lemma sites_as_modelled :
  forallb site_ok c12_sites = true /\ map fst c12_sites = map fst c12_sites_modelled.
Proof. split; vm_compute; reflexivity. Qed.
