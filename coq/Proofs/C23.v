(* Lemmas for C23 (import sorting keeps the import set). *)
From Coq Require Import List NArith ZArith Bool Lia Permutation Sorting.Sorted.
Import ListNotations.
From V Require Import Base.Prelude Model.C23.

(* ------------------------------------------------------------------ Go's string order *)
Lemma str_ltb_irrefl a : str_ltb a a = false.
Proof. induction a as [|x a IH]; simpl; auto. rewrite N.ltb_irrefl, N.eqb_refl. exact IH. Qed.

Lemma str_ltb_trans : forall a b c, str_ltb a b = true -> str_ltb b c = true -> str_ltb a c = true.
Proof.
  induction a as [|x a IH]; intros [|y b] [|z c]; simpl; try congruence; auto.
  destruct (N.ltb_spec x y), (N.ltb_spec y z), (N.ltb_spec x z); try lia; auto;
  destruct (N.eqb_spec x y), (N.eqb_spec y z), (N.eqb_spec x z); try lia; try congruence; eauto.
Qed.

Lemma str_trichotomy : forall a b, str_ltb a b = true \/ a = b \/ str_ltb b a = true.
Proof.
  induction a as [|x a IH]; intros [|y b]; simpl; auto.
  destruct (N.ltb_spec x y); auto. destruct (N.ltb_spec y x); auto.
  assert (x = y) by lia. subst. rewrite N.eqb_refl.
  destruct (IH b) as [H1|[H1|H1]]; auto. subst. auto.
Qed.

Lemma str_ltb_asym a b : str_ltb a b = true -> str_ltb b a = false.
Proof. intros H. destruct (str_ltb b a) eqn:E; auto.
  pose proof (str_ltb_trans _ _ _ H E) as T. rewrite str_ltb_irrefl in T. discriminate. Qed.

Lemma str_eqb_refl a : str_eqb a a = true.
Proof. apply str_eqb_eq. reflexivity. Qed.

Lemma str_eqb_neq a b : str_eqb a b = false <-> a <> b.
Proof. split.
  - intros H E. subst. rewrite str_eqb_refl in H. discriminate.
  - intros H. destruct (str_eqb a b) eqn:E; auto. apply str_eqb_eq in E. contradiction. Qed.

(* ------------------------------------------------------------------ the sort key *)
Definition key : Type := (str * str * str)%type.
Definition key_of (s : spec) : key := (spath s, sname s, sctext s).
Definition key_lt (k1 k2 : key) : Prop :=
  let '(p1, n1, c1) := k1 in let '(p2, n2, c2) := k2 in
  str_ltb p1 p2 = true \/ (p1 = p2 /\ (str_ltb n1 n2 = true \/ (n1 = n2 /\ str_ltb c1 c2 = true))).

Lemma lessb_spec a b : lessb a b = true <-> key_lt (key_of a) (key_of b).
Proof.
  unfold lessb, key_of, key_lt.
  destruct (str_eqb (spath a) (spath b)) eqn:Ep; simpl.
  - apply str_eqb_eq in Ep. rewrite Ep.
    destruct (str_eqb (sname a) (sname b)) eqn:En; simpl.
    + apply str_eqb_eq in En. rewrite En. rewrite !str_ltb_irrefl. intuition congruence.
    + apply str_eqb_neq in En. rewrite str_ltb_irrefl. intuition congruence.
  - apply str_eqb_neq in Ep. intuition congruence.
Qed.

Lemma key_lt_irrefl k : ~ key_lt k k.
Proof. destruct k as [[p n] c]. unfold key_lt. rewrite !str_ltb_irrefl. intuition congruence. Qed.

Lemma key_lt_trans k1 k2 k3 : key_lt k1 k2 -> key_lt k2 k3 -> key_lt k1 k3.
Proof.
  destruct k1 as [[p1 n1] c1], k2 as [[p2 n2] c2], k3 as [[p3 n3] c3]. unfold key_lt.
  intros [H1|[E1 H1]] [H2|[E2 H2]]; subst.
  - left. eauto using str_ltb_trans.
  - left. auto.
  - left. auto.
  - right. split; auto. destruct H1 as [H1|[E1 H1]], H2 as [H2|[E2 H2]]; subst.
    + left. eauto using str_ltb_trans.
    + left. auto.
    + left. auto.
    + right. split; auto. eauto using str_ltb_trans.
Qed.

Lemma key_trichotomy k1 k2 : key_lt k1 k2 \/ k1 = k2 \/ key_lt k2 k1.
Proof.
  destruct k1 as [[p1 n1] c1], k2 as [[p2 n2] c2]. unfold key_lt.
  destruct (str_trichotomy p1 p2) as [H|[->|H]]; [left; left; exact H| |right; right; left; exact H].
  destruct (str_trichotomy n1 n2) as [H|[->|H]]; [left; right; split; auto| |right; right; right; split; auto].
  destruct (str_trichotomy c1 c2) as [H|[->|H]]; [left; right; split; auto|right; left; reflexivity|right; right; right; split; auto].
Qed.

(* a <= b for the less closure: not (b < a) *)
Definition key_le (k1 k2 : key) : Prop := ~ key_lt k2 k1.
Definition le (a b : spec) : Prop := lessb b a = false.

Lemma le_key a b : le a b <-> key_le (key_of a) (key_of b).
Proof. unfold le, key_le. rewrite <- lessb_spec. destruct (lessb b a); intuition congruence. Qed.

Lemma key_le_trans k1 k2 k3 : key_le k1 k2 -> key_le k2 k3 -> key_le k1 k3.
Proof. unfold key_le. intros H1 H2 H3.
  destruct (key_trichotomy k1 k2) as [H|[->|H]]; auto.
  - apply H2. eapply key_lt_trans; eauto. Qed.

Lemma key_le_antisym k1 k2 : key_le k1 k2 -> key_le k2 k1 -> k1 = k2.
Proof. unfold key_le. intros H1 H2. destruct (key_trichotomy k1 k2) as [H|[H|H]]; tauto. Qed.

Lemma key_le_total k1 k2 : key_le k1 k2 \/ key_le k2 k1.
Proof. unfold key_le. destruct (key_trichotomy k1 k2) as [H|[->|H]].
  - left. intros H'. eapply key_lt_irrefl, key_lt_trans; eauto.
  - left. apply key_lt_irrefl.
  - right. intros H'. eapply key_lt_irrefl, key_lt_trans; eauto. Qed.

Lemma le_trans a b c : le a b -> le b c -> le a c.
Proof. rewrite !le_key. apply key_le_trans. Qed.

Lemma lessb_le a b : lessb a b = true -> le a b.
Proof. intros H. apply le_key. intros H'. apply lessb_spec in H. eapply key_lt_irrefl, key_lt_trans; eauto. Qed.

(* sorted by key implies sorted by path *)
Definition path_le (p q : str) : Prop := str_ltb q p = false.
Lemma le_path a b : le a b -> path_le (spath a) (spath b).
Proof. unfold le, path_le. intros H. destruct (str_ltb (spath b) (spath a)) eqn:E; auto.
  assert (lessb b a = true); [|congruence]. apply lessb_spec. unfold key_of, key_lt. auto. Qed.

(* ------------------------------------------------------------------ what sort.Slice guarantees *)
Definition sorter_ok (srt : list spec -> list spec) : Prop :=
  forall l, Permutation l (srt l) /\ StronglySorted le (srt l).

Lemma insert_perm x l : Permutation (x :: l) (insert x l).
Proof. induction l as [|y r IH]; simpl; auto. destruct (lessb y x); auto.
  eapply perm_trans; [apply perm_swap|]. now constructor. Qed.

Lemma insert_sorted x l : StronglySorted le l -> StronglySorted le (insert x l).
Proof.
  induction 1 as [|y r Hs IH Hy]; simpl.
  - constructor; constructor.
  - destruct (lessb y x) eqn:E.
    + constructor; auto. apply Forall_forall. intros z Hz.
      apply (Permutation_in _ (Permutation_sym (insert_perm x r))) in Hz. destruct Hz as [<-|Hz].
      * now apply lessb_le.
      * rewrite Forall_forall in Hy. auto.
    + constructor; [constructor; auto|]. constructor; [exact E|].
      apply Forall_forall. intros z Hz. rewrite Forall_forall in Hy. eapply le_trans; [exact E|auto].
Qed.

Lemma isort_ok : sorter_ok isort.
Proof. intros l. unfold isort. induction l as [|x l [IH1 IH2]]; simpl.
  - split; constructor.
  - split.
    + eapply perm_trans; [|apply insert_perm]. now constructor.
    + now apply insert_sorted. Qed.

(* ------------------------------------------------------------------ subsequences *)
Inductive subseq {A} : list A -> list A -> Prop :=
| sub_nil : subseq [] []
| sub_skip x l' l : subseq l' l -> subseq l' (x :: l)
| sub_keep x l' l : subseq l' l -> subseq (x :: l') (x :: l).

Lemma subseq_In {A} (l' l : list A) x : subseq l' l -> In x l' -> In x l.
Proof. induction 1; simpl; intuition. Qed.

Lemma subseq_sorted {A} (R : A -> A -> Prop) l' l : subseq l' l -> StronglySorted R l -> StronglySorted R l'.
Proof. induction 1; intros Hs; auto.
  - inversion Hs; auto.
  - inversion Hs; subst. constructor; auto. apply Forall_forall. intros y Hy.
    rewrite Forall_forall in H3. eauto using subseq_In. Qed.

Lemma subseq_map {A B} (f : A -> B) l' l : subseq l' l -> subseq (map f l') (map f l).
Proof. induction 1; simpl; [apply sub_nil|apply sub_skip; auto|apply sub_keep; auto]. Qed.

Lemma subseq_NoDup {A} (l' l : list A) : subseq l' l -> NoDup l -> NoDup l'.
Proof. induction 1; intros Hn; auto.
  - inversion Hn; auto.
  - inversion Hn; subst. constructor; auto. intros Hi. apply H2. eauto using subseq_In. Qed.

Lemma subseq_length {A} (l' l : list A) : subseq l' l -> (length l' <= length l)%nat.
Proof. induction 1; simpl; lia. Qed.

Lemma subseq_refl {A} (l : list A) : subseq l l.
Proof. induction l; [apply sub_nil|apply sub_keep; auto]. Qed.

(* ------------------------------------------------------------------ dedup *)
Definition np_of (s : spec) : str * str := (sname s, spath s).

Lemma collapse_np a b : collapse a b = true -> np_of a = np_of b /\ shasc a = false.
Proof. unfold collapse, np_of.
  destruct (str_eqb (spath b) (spath a)) eqn:E1; simpl; [|discriminate].
  destruct (str_eqb (sname b) (sname a)) eqn:E2; simpl; [|discriminate].
  apply str_eqb_eq in E1, E2. intros H. apply negb_true_iff in H. split; congruence. Qed.

Lemma collapse_iff a b : collapse a b = true <-> np_of a = np_of b /\ shasc a = false.
Proof. split; [apply collapse_np|]. unfold collapse, np_of. intros [H1 H2]. injection H1 as H1 H3.
  rewrite H1, H3, !str_eqb_refl, H2. reflexivity. Qed.

Lemma dedupe_cons2 s n r : dedupe (s :: n :: r) = if collapse s n then dedupe (n :: r) else s :: dedupe (n :: r).
Proof. reflexivity. Qed.

Lemma dedupe_subseq l : subseq (dedupe l) l.
Proof. induction l as [|s r IH]; [constructor|]. destruct r as [|n r].
  - simpl. apply sub_keep, sub_nil.
  - rewrite dedupe_cons2. destruct (collapse s n); [apply sub_skip|apply sub_keep]; auto. Qed.

(* the head of the deduplicated list has the name and path of the head of the list *)
Lemma dedupe_hd : forall r n, exists k r', dedupe (n :: r) = k :: r' /\ np_of k = np_of n.
Proof. induction r as [|m r IH]; intros n.
  - exists n, []. auto.
  - rewrite dedupe_cons2. destruct (collapse n m) eqn:E.
    + destruct (IH m) as (k & r' & H1 & H2). exists k, r'. split; auto.
      apply collapse_np in E. destruct E. congruence.
    + eauto. Qed.

Lemma dedupe_np_set l p : In p (map np_of (dedupe l)) <-> In p (map np_of l).
Proof. induction l as [|s r IH]; [tauto|]. destruct r as [|n r]; [tauto|].
  rewrite dedupe_cons2. destruct (collapse s n) eqn:E.
  - rewrite IH. apply collapse_np in E. destruct E as [E _]. simpl. rewrite E. tauto.
  - simpl in *. rewrite IH. tauto. Qed.

(* what is dropped: comment-less specs whose (name, path) is still present in the result *)
Definition dropped_ok (out : list spec) (d : spec) : Prop :=
  shasc d = false /\ In (np_of d) (map np_of out).

Lemma dedupe_drops l : exists dropped, Permutation l (dedupe l ++ dropped) /\ Forall (dropped_ok (dedupe l)) dropped.
Proof. induction l as [|s r IH]; [exists []; simpl; auto|]. destruct r as [|n r].
  - exists []. simpl. auto.
  - rewrite dedupe_cons2. destruct IH as (dr & HP & HF). destruct (collapse s n) eqn:E.
    + exists (s :: dr). split.
      * eapply perm_trans; [apply perm_skip, HP|]. apply Permutation_middle.
      * constructor; auto. apply collapse_np in E. destruct E as [E1 E2]. split; auto.
        destruct (dedupe_hd r n) as (k & r' & H1 & H2). rewrite H1, E1, <- H2. simpl. auto.
    + exists dr. split.
      * simpl. now constructor.
      * eapply Forall_impl; [|exact HF]. intros d [H1 H2]. split; auto. simpl. auto.
Qed.

(* nothing removable is left: no adjacent pair that collapse would merge *)
Fixpoint no_collapsible (l : list spec) : Prop :=
  match l with
  | a :: (b :: _) as r => collapse a b = false /\ no_collapsible r
  | _ => True
  end.

Lemma dedupe_complete l : no_collapsible (dedupe l).
Proof. induction l as [|s r IH]; [exact I|]. destruct r as [|n r]; [exact I|].
  rewrite dedupe_cons2. destruct (collapse s n) eqn:E; auto.
  destruct (dedupe_hd r n) as (k & r' & H1 & H2). rewrite H1 in *. split; auto.
  destruct (collapse s k) eqn:E'; auto. apply collapse_iff in E'. destruct E' as [E1 E2].
  assert (collapse s n = true) by (apply collapse_iff; split; congruence). congruence. Qed.

(* ------------------------------------------------------------------ identity of a spec and position reassignment *)
Definition ident : Type := (nat * str * str * bool * str)%type.
Definition ident_of (s : spec) : ident := (sid s, sname s, spath s, shasc s, sctext s).
Definition span : Type := (Z * Z * Z * Z)%type.

Lemma set_span_ident s p : ident_of (set_span s p) = ident_of s.
Proof. destruct p as [[[a b] c] d]. reflexivity. Qed.
Lemma set_span_span s p : span_of (set_span s p) = p.
Proof. destruct p as [[[a b] c] d]. reflexivity. Qed.

Lemma reassign_spec : forall l pos, (length l <= length pos)%nat ->
  exists out, reassign pos l = Ok out /\ map ident_of out = map ident_of l /\ map span_of out = firstn (length l) pos.
Proof. induction l as [|s r IH]; intros pos Hl.
  - exists []. simpl. auto.
  - destruct pos as [|p ps]; [simpl in Hl; lia|]. simpl in Hl.
    destruct (IH ps) as (out & H1 & H2 & H3); [lia|]. exists (set_span s p :: out).
    cbn [reassign]. rewrite H1. cbn [bind]. simpl. rewrite set_span_ident, set_span_span, H2, H3. auto. Qed.

(* anything computed from the identity is the same on lists with the same identities *)
Lemma map_via_ident {B} (g : ident -> B) a b : map ident_of a = map ident_of b ->
  map (fun s => g (ident_of s)) a = map (fun s => g (ident_of s)) b.
Proof. intros H. rewrite <- !(map_map ident_of g), H. reflexivity. Qed.

Lemma map_np_ident a b : map ident_of a = map ident_of b -> map np_of a = map np_of b.
Proof. apply (map_via_ident (fun i => let '(_, n, p, _, _) := i in (n, p))). Qed.
Lemma map_key_ident a b : map ident_of a = map ident_of b -> map key_of a = map key_of b.
Proof. apply (map_via_ident (fun i => let '(_, n, p, _, c) := i in (p, n, c))). Qed.
Lemma map_path_ident a b : map ident_of a = map ident_of b -> map spath a = map spath b.
Proof. apply (map_via_ident (fun i => let '(_, n, p, _, c) := i in p)). Qed.
Lemma map_sid_ident a b : map ident_of a = map ident_of b -> map sid a = map sid b.
Proof. apply (map_via_ident (fun i => let '(d, n, p, _, c) := i in d)). Qed.

Lemma collapse_ident a b a' b' : ident_of a = ident_of a' -> ident_of b = ident_of b' -> collapse a b = collapse a' b'.
Proof. unfold ident_of. intros H1 H2. injection H1 as E1 E2 E3 E4 E5. injection H2 as F1 F2 F3 F4 F5.
  unfold collapse. rewrite E3, E2, E4, F3, F2. reflexivity. Qed.

Lemma map_cons_inv {A B} (f : A -> B) x a y b : map f (x :: a) = map f (y :: b) -> f x = f y /\ map f a = map f b.
Proof. simpl. intros H. split; congruence. Qed.

Lemma no_collapsible_ident : forall a b, map ident_of a = map ident_of b -> no_collapsible a -> no_collapsible b.
Proof. induction a as [|x a IH]; intros [|y b] H; try discriminate; auto.
  apply map_cons_inv in H as [Hx H]. destruct a as [|x2 a], b as [|y2 b]; try discriminate; auto.
  intros [G1 G2]. pose proof H as H'. apply map_cons_inv in H' as [Hx2 _]. split.
  - rewrite <- (collapse_ident x x2 y y2); auto.
  - apply IH; auto. Qed.

Lemma sorted_map {A B} (R : A -> A -> Prop) (Q : B -> B -> Prop) (f : A -> B) l :
  (forall a b, R a b -> Q (f a) (f b)) -> StronglySorted R l -> StronglySorted Q (map f l).
Proof. intros H. induction 1; simpl; constructor; auto.
  apply Forall_forall. intros y Hy. apply in_map_iff in Hy as (z & <- & Hz). rewrite Forall_forall in H1. auto. Qed.

(* ------------------------------------------------------------------ sortSpecs on one run *)
Record run_post (run out : list spec) : Prop := {
  (* the set of (name, path) is the same *)
  rp_set : forall p, In p (map np_of out) <-> In p (map np_of run);
  (* the result is the input minus some specs (as whole records: identity, name, path, comment
     together), and each dropped one has no comment and its (name, path) is still present *)
  rp_drops : exists dropped, Permutation (map ident_of run) (map ident_of out ++ map ident_of dropped) /\
                             Forall (dropped_ok out) dropped;
  (* sorted by the key (path, name, comment text), hence by path *)
  rp_sorted_key : StronglySorted key_le (map key_of out);
  rp_sorted_path : StronglySorted path_le (map spath out);
  (* no removable duplicate is left *)
  rp_complete : no_collapsible out;
  (* distinct specs stay distinct *)
  rp_nodup : NoDup (map sid run) -> NoDup (map sid out);
  (* the results occupy the first position slots of the run, in order *)
  rp_spans : map span_of out = firstn (length out) (map span_of run)
}.

Lemma run_post_small run : (length run <= 1)%nat -> run_post run run.
Proof. intros H. assert (E : run = [] \/ exists x, run = [x]).
  { destruct run as [|x [|y r]]; simpl in H; eauto; lia. }
  constructor.
  - tauto.
  - exists []. simpl. rewrite app_nil_r. auto.
  - destruct E as [->|[x ->]]; simpl; repeat constructor.
  - destruct E as [->|[x ->]]; simpl; repeat constructor.
  - destruct E as [->|[x ->]]; exact I.
  - auto.
  - rewrite <- map_length with (f := span_of). now rewrite firstn_all.
Qed.

Lemma sort_specs_post srt : sorter_ok srt -> forall run, exists out, sort_specs srt run = Ok out /\ run_post run out.
Proof.
  intros Hs run. unfold sort_specs. destruct (Nat.leb_spec (length run) 1) as [Hl|Hl].
  - exists run. split; auto. now apply run_post_small.
  - destruct (Hs run) as [HP HS]. set (pre := dedupe (srt run)).
    pose proof (dedupe_subseq (srt run)) as Hsub. fold pre in Hsub.
    destruct (reassign_spec pre (map span_of run)) as (out & H1 & H2 & H3).
    { rewrite map_length. apply subseq_length in Hsub. rewrite <- (Permutation_length HP) in Hsub. exact Hsub. }
    exists out. split; auto.
    assert (Hlen : length out = length pre) by (rewrite <- (map_length ident_of out), H2, map_length; reflexivity).
    constructor.
    + intros p. rewrite (map_np_ident _ _ H2). unfold pre. rewrite dedupe_np_set.
      split; apply Permutation_in, Permutation_map; [apply Permutation_sym|]; exact HP.
    + destruct (dedupe_drops (srt run)) as (dr & HPd & HFd). fold pre in HPd, HFd. exists dr. split.
      * rewrite H2, <- map_app. apply Permutation_map. eapply perm_trans; eauto.
      * eapply Forall_impl; [|exact HFd]. intros d [Ha Hb]. split; auto. now rewrite (map_np_ident _ _ H2).
    + rewrite (map_key_ident _ _ H2). apply sorted_map with (R := le); [intros a b; apply le_key|].
      eapply subseq_sorted; eauto.
    + rewrite (map_path_ident _ _ H2). apply sorted_map with (R := le); [intros a b; apply le_path|].
      eapply subseq_sorted; eauto.
    + apply (no_collapsible_ident pre out); auto. apply dedupe_complete.
    + intros Hn. rewrite (map_sid_ident _ _ H2). eapply subseq_NoDup; [apply subseq_map, Hsub|].
      eapply Permutation_NoDup; [apply Permutation_map, HP|exact Hn].
    + rewrite H3, Hlen. reflexivity.
Qed.

(* records move whole: every result spec has the identity, name, path and comment of an input spec *)
Lemma run_post_atomic run out : run_post run out -> incl (map ident_of out) (map ident_of run).
Proof. intros [_ (dr & HP & _) _ _ _ _ _] i Hi. eapply Permutation_in; [apply Permutation_sym, HP|].
  apply in_or_app. auto. Qed.

Lemma run_post_length run out : run_post run out -> (length out <= length run)%nat.
Proof. intros [_ (dr & HP & _) _ _ _ _ _]. apply Permutation_length in HP.
  rewrite app_length, !map_length in HP. lia. Qed.

(* ------------------------------------------------------------------ run splitting *)
Definition gap (p s : spec) : bool := (sline s >? 1 + sendline p)%Z.
Fixpoint contiguous (l : list spec) : Prop :=
  match l with
  | a :: (b :: _) as r => gap a b = false /\ contiguous r
  | _ => True
  end.
(* consecutive runs are separated by a line gap between the last spec of one and the first of the next *)
Fixpoint separated (rs : list (list spec)) : Prop :=
  match rs with
  | r1 :: (r2 :: _) as t =>
    (exists r1' a b r2', r1 = r1' ++ [a] /\ r2 = b :: r2' /\ gap a b = true) /\ separated t
  | _ => True
  end.

Lemma contiguous_snoc : forall l p s, contiguous (l ++ [p]) -> gap p s = false -> contiguous ((l ++ [p]) ++ [s]).
Proof. induction l as [|x l IH]; intros p s H Hg.
  - simpl. auto.
  - destruct l as [|y l].
    + simpl in *. tauto.
    + simpl in H. destruct H as [H1 H2]. simpl. split; auto. apply (IH p s); auto. Qed.

Lemma runs_loop_concat : forall l prev cur, concat (runs_loop prev cur l) = cur ++ l.
Proof. induction l as [|s r IH]; intros prev cur.
  - simpl. now rewrite app_nil_r.
  - cbn [runs_loop]. destruct prev as [p|].
    + destruct (sline s >? 1 + sendline p)%Z.
      * cbn [concat]. rewrite IH. reflexivity.
      * rewrite IH. now rewrite <- app_assoc.
    + rewrite IH. now rewrite <- app_assoc. Qed.

Lemma runs_loop_spec : forall l cur0 p, contiguous (cur0 ++ [p]) ->
  exists x rest, runs_loop (Some p) (cur0 ++ [p]) l = (cur0 ++ [p] ++ x) :: rest /\
    contiguous (cur0 ++ [p] ++ x) /\ Forall contiguous rest /\ Forall (fun r => r <> []) rest /\
    separated ((cur0 ++ [p] ++ x) :: rest).
Proof.
  induction l as [|s r IH]; intros cur0 p Hc.
  - exists [], []. simpl. auto.
  - cbn [runs_loop]. fold (gap p s). destruct (gap p s) eqn:Eg.
    + destruct (IH [] s I) as (x' & rest' & H1 & H2 & H3 & H4 & H5). simpl app in *.
      exists [], ((s :: x') :: rest'). rewrite H1. simpl app. repeat split; auto.
      * constructor; auto. discriminate.
      * exists cur0, p, s, x'. auto.
    + destruct (IH (cur0 ++ [p]) s (contiguous_snoc _ _ _ Hc Eg)) as (x' & rest' & H1 & H2 & H3 & H4 & H5).
      exists (s :: x'), rest'. rewrite H1. rewrite <- !app_assoc in *. simpl app in *. auto.
Qed.

Lemma runs_spec specs : specs <> [] ->
  concat (runs specs) = specs /\ Forall contiguous (runs specs) /\
  Forall (fun r => r <> []) (runs specs) /\ separated (runs specs).
Proof.
  intros Hne. split; [apply runs_loop_concat|]. unfold runs. destruct specs as [|s r]; [congruence|].
  cbn [runs_loop]. destruct (runs_loop_spec r [] s I) as (x & rest & H1 & H2 & H3 & H4 & H5).
  simpl app in *. rewrite H1. repeat split; auto. constructor; auto. discriminate. Qed.

(* ------------------------------------------------------------------ one import block *)
Lemma sort_runs_post srt : sorter_ok srt -> forall rs, exists rs', sort_runs srt rs = Ok rs' /\ Forall2 run_post rs rs'.
Proof. intros Hs. induction rs as [|r t IH]; [exists []; simpl; auto|].
  destruct (sort_specs_post srt Hs r) as (r' & H1 & H2). destruct IH as (t' & H3 & H4).
  exists (r' :: t'). cbn [sort_runs]. rewrite H1, H3. simpl. auto. Qed.

Lemma sort_block_post srt : sorter_ok srt -> forall specs,
  exists rs', sort_block srt specs = Ok (concat rs') /\ Forall2 run_post (runs specs) rs'.
Proof. intros Hs specs. destruct (sort_runs_post srt Hs (runs specs)) as (rs' & H1 & H2).
  exists rs'. unfold sort_block. rewrite H1. auto. Qed.

Lemma Forall2_set rs rs' : Forall2 run_post rs rs' ->
  forall p, In p (map np_of (concat rs')) <-> In p (map np_of (concat rs)).
Proof. induction 1 as [|r r' t t' Hr Ht IH]; intros p; [tauto|].
  simpl. rewrite !map_app, !in_app_iff, IH, (rp_set _ _ Hr). tauto. Qed.

(* a block is cut into consecutive runs, each run is replaced by its sorted, deduplicated version *)
Definition block_post (specs out : list spec) : Prop :=
  exists rs rs', concat rs = specs /\ out = concat rs' /\ Forall2 run_post rs rs'.

Lemma block_post_set specs out : block_post specs out ->
  forall p, In p (map np_of out) <-> In p (map np_of specs).
Proof. intros (rs & rs' & <- & -> & H) p. apply (Forall2_set _ _ H). Qed.

Lemma Forall2_atomic rs rs' : Forall2 run_post rs rs' -> incl (map ident_of (concat rs')) (map ident_of (concat rs)).
Proof. induction 1 as [|r r' t t' Hr Ht IH]; [simpl; apply incl_refl|].
  simpl. rewrite !map_app. apply incl_app; [apply incl_appl, run_post_atomic, Hr|apply incl_appr, IH]. Qed.

Lemma block_post_atomic specs out : block_post specs out -> incl (map ident_of out) (map ident_of specs).
Proof. intros (rs & rs' & <- & -> & H). apply (Forall2_atomic _ _ H). Qed.

Lemma Forall2_sub rs rs' : Forall2 run_post rs rs' ->
  exists dropped, Permutation (map ident_of (concat rs)) (map ident_of (concat rs') ++ map ident_of dropped) /\
                  Forall (dropped_ok (concat rs')) dropped.
Proof. induction 1 as [|r r' t t' Hr Ht IH]; [exists []; simpl; auto|].
  destruct IH as (d2 & P2 & F2). destruct (rp_drops _ _ Hr) as (d1 & P1 & F1).
  exists (d1 ++ d2). split.
  - simpl. rewrite !map_app.
    eapply perm_trans; [apply Permutation_app; [exact P1|exact P2]|].
    rewrite <- !app_assoc. apply Permutation_app_head.
    rewrite !app_assoc. apply Permutation_app_tail. apply Permutation_app_comm.
  - apply Forall_app. split; (eapply Forall_impl; [|eassumption]); intros d [Ha Hb]; split; auto;
      simpl; rewrite map_app; apply in_or_app; auto. Qed.

Lemma block_post_drops specs out : block_post specs out ->
  exists dropped, Permutation (map ident_of specs) (map ident_of out ++ map ident_of dropped) /\
                  Forall (dropped_ok out) dropped.
Proof. intros (rs & rs' & <- & -> & H). destruct (Forall2_sub _ _ H) as (d & P & F). exists d. split; auto. Qed.

(* ------------------------------------------------------------------ the whole file *)
Fixpoint file_post (ds ds' : list decl) : Prop :=
  match ds with
  | [] => ds' = []
  | OtherDecl :: _ => ds' = ds                                  (* nothing after the first other declaration is touched *)
  | ImportDecl false sp :: r => exists r', ds' = ImportDecl false sp :: r' /\ file_post r r'
  | ImportDecl true sp :: r => exists sp' r', ds' = ImportDecl true sp' :: r' /\ block_post sp sp' /\ file_post r r'
  end.

Lemma sort_imports_post srt : sorter_ok srt -> forall ds, exists ds', sort_imports srt ds = Ok ds' /\ file_post ds ds'.
Proof. intros Hs. induction ds as [|d r IH]; [exists []; simpl; auto|].
  destruct IH as (r' & H1 & H2). destruct d as [[|] sp|].
  - destruct (sort_block_post srt Hs sp) as (rs' & H3 & H4).
    exists (ImportDecl true (concat rs') :: r'). cbn [sort_imports]. rewrite H3, H1. simpl. split; auto.
    exists (concat rs'), r'. repeat split; auto. exists (runs sp), rs'. repeat split; auto. apply runs_loop_concat.
  - exists (ImportDecl false sp :: r'). cbn [sort_imports]. rewrite H1. simpl. eauto.
  - exists (OtherDecl :: r). simpl. auto. Qed.

Definition decl_specs (d : decl) : list spec := match d with ImportDecl _ sp => sp | OtherDecl => [] end.
Definition file_specs (ds : list decl) : list spec := concat (map decl_specs ds).

Lemma file_post_set : forall ds ds', file_post ds ds' ->
  forall p, In p (map np_of (file_specs ds')) <-> In p (map np_of (file_specs ds)).
Proof. induction ds as [|d r IH]; intros ds' H p.
  - simpl in H. subst. tauto.
  - destruct d as [[|] sp|]; simpl in H.
    + destruct H as (sp' & r' & -> & Hb & Hr). unfold file_specs. simpl. rewrite !map_app, !in_app_iff.
      rewrite (block_post_set _ _ Hb). specialize (IH r' Hr p). unfold file_specs in IH. rewrite IH. tauto.
    + destruct H as (r' & -> & Hr). unfold file_specs. simpl. rewrite !map_app, !in_app_iff.
      specialize (IH r' Hr p). unfold file_specs in IH. rewrite IH. tauto.
    + subst. tauto. Qed.

Lemma file_post_atomic : forall ds ds', file_post ds ds' ->
  incl (map ident_of (file_specs ds')) (map ident_of (file_specs ds)).
Proof. induction ds as [|d r IH]; intros ds' H.
  - simpl in H. subst. apply incl_refl.
  - destruct d as [[|] sp|]; simpl in H.
    + destruct H as (sp' & r' & -> & Hb & Hr). unfold file_specs. simpl. rewrite !map_app.
      apply incl_app; [apply incl_appl, (block_post_atomic _ _ Hb)|apply incl_appr, (IH r' Hr)].
    + destruct H as (r' & -> & Hr). unfold file_specs. simpl. rewrite !map_app.
      apply incl_app; [apply incl_appl, incl_refl|apply incl_appr, (IH r' Hr)].
    + subst. apply incl_refl. Qed.

Lemma file_post_drops : forall ds ds', file_post ds ds' ->
  exists dropped, Permutation (map ident_of (file_specs ds)) (map ident_of (file_specs ds') ++ map ident_of dropped) /\
                  Forall (dropped_ok (file_specs ds')) dropped.
Proof. induction ds as [|d r IH]; intros ds' H.
  - simpl in H. subst. exists []. simpl. auto.
  - assert (G : forall (a a' b b' da db : list spec),
        Permutation (map ident_of a) (map ident_of a' ++ map ident_of da) -> Forall (dropped_ok a') da ->
        Permutation (map ident_of b) (map ident_of b' ++ map ident_of db) -> Forall (dropped_ok b') db ->
        Permutation (map ident_of (a ++ b)) (map ident_of (a' ++ b') ++ map ident_of (da ++ db)) /\
        Forall (dropped_ok (a' ++ b')) (da ++ db)).
    { intros a a' b b' da db P1 F1 P2 F2. split.
      - rewrite !map_app. eapply perm_trans; [apply Permutation_app; [exact P1|exact P2]|].
        rewrite <- !app_assoc. apply Permutation_app_head.
        rewrite !app_assoc. apply Permutation_app_tail. apply Permutation_app_comm.
      - apply Forall_app. split; (eapply Forall_impl; [|eassumption]); intros x [Ha Hb]; split; auto;
          rewrite map_app; apply in_or_app; auto. }
    destruct d as [[|] sp|]; simpl in H.
    + destruct H as (sp' & r' & -> & Hb & Hr). destruct (block_post_drops _ _ Hb) as (d1 & P1 & F1).
      destruct (IH r' Hr) as (d2 & P2 & F2). exists (d1 ++ d2). unfold file_specs in *. simpl. apply G; auto.
    + destruct H as (r' & -> & Hr). destruct (IH r' Hr) as (d2 & P2 & F2). exists ([] ++ d2).
      unfold file_specs in *. simpl concat. apply G; auto. simpl. now rewrite app_nil_r.
    + subst. exists []. simpl. rewrite app_nil_r. auto. Qed.

(* ------------------------------------------------------------------ sort.Slice is not stable: ties *)
Lemma sorted_perm_unique {A} (R : A -> A -> Prop) : (forall a b, R a b -> R b a -> a = b) ->
  forall l1 l2, StronglySorted R l1 -> StronglySorted R l2 -> Permutation l1 l2 -> l1 = l2.
Proof.
  intros Anti. induction l1 as [|a l1 IH]; intros l2 S1 S2 P.
  - apply Permutation_nil in P. auto.
  - destruct l2 as [|b l2]; [apply Permutation_sym, Permutation_nil in P; discriminate|].
    inversion S1 as [|? ? S1' F1]; inversion S2 as [|? ? S2' F2]; subst.
    assert (E : a = b).
    { assert (Ia : In a (b :: l2)) by (eapply Permutation_in; [exact P|left; auto]).
      assert (Ib : In b (a :: l1)) by (eapply Permutation_in; [apply Permutation_sym, P|left; auto]).
      destruct Ia as [->|Ia]; auto. destruct Ib as [->|Ib]; auto.
      rewrite Forall_forall in F1, F2. apply Anti; auto. }
    subst. f_equal. apply IH; auto. eapply Permutation_cons_inv; eauto.
Qed.

(* any two sorted permutations of a run carry the same key sequence *)
Lemma sorters_same_keys s1 s2 : sorter_ok s1 -> sorter_ok s2 -> forall l, map key_of (s1 l) = map key_of (s2 l).
Proof. intros H1 H2 l. destruct (H1 l) as [P1 S1], (H2 l) as [P2 S2].
  apply (sorted_perm_unique key_le key_le_antisym).
  - apply sorted_map with (R := le); auto. intros a b; apply le_key.
  - apply sorted_map with (R := le); auto. intros a b; apply le_key.
  - apply Permutation_map. eapply perm_trans; [apply Permutation_sym, P1|exact P2]. Qed.

Definition obs : Type := (key * bool)%type.
Definition obs_of (s : spec) : obs := (key_of s, shasc s).

Lemma map_obs_ident a b : map ident_of a = map ident_of b -> map obs_of a = map obs_of b.
Proof. apply (map_via_ident (fun i => let '(_, n, p, h, c) := i in ((p, n, c), h))). Qed.

Lemma existsb_false {A} (f : A -> bool) l : existsb f l = false -> forall x, In x l -> f x = false.
Proof. intros H x Hx. destruct (f x) eqn:E; auto.
  assert (existsb f l = true) by (apply existsb_exists; eauto). congruence. Qed.

Lemma key_eqb_true a b : key_of a = key_of b -> key_eqb a b = true.
Proof. unfold key_of, key_eqb. intros H. injection H as -> -> ->. now rewrite !str_eqb_refl. Qed.

Lemma no_mixed run : mixed_ties run = false ->
  forall a b, In a run -> In b run -> key_of a = key_of b -> shasc a = shasc b.
Proof. intros H a b Ha Hb Hk. unfold mixed_ties in H.
  pose proof (existsb_false _ _ H a Ha) as H1. cbv beta in H1.
  pose proof (existsb_false _ _ H1 b Hb) as H2. cbv beta in H2.
  rewrite (key_eqb_true a b Hk) in H2. simpl in H2. apply negb_false_iff in H2. now apply eqb_prop. Qed.

Lemma keys_to_obs : forall l1 l2, map key_of l1 = map key_of l2 ->
  (forall a b, In a l1 -> In b l2 -> key_of a = key_of b -> shasc a = shasc b) -> map obs_of l1 = map obs_of l2.
Proof. induction l1 as [|a l1 IH]; intros [|b l2] H Hs; try discriminate; auto.
  apply map_cons_inv in H as [Hk H]. simpl. f_equal.
  - unfold obs_of. rewrite Hk, (Hs a b); simpl; auto.
  - apply IH; auto. intros x y Hx Hy. apply Hs; simpl; auto. Qed.

Lemma collapse_obs a b a' b' : obs_of a = obs_of a' -> obs_of b = obs_of b' -> collapse a b = collapse a' b'.
Proof. unfold obs_of, key_of. intros H1 H2. injection H1 as E1 E2 E3 E4. injection H2 as F1 F2 F3 F4.
  unfold collapse. rewrite E1, E2, E4, F1, F2. reflexivity. Qed.

Lemma dedupe_obs : forall l1 l2, map obs_of l1 = map obs_of l2 -> map obs_of (dedupe l1) = map obs_of (dedupe l2).
Proof. induction l1 as [|s r IH]; intros [|s' r'] H; try discriminate; auto.
  pose proof H as H0. apply map_cons_inv in H0 as [Hs Hr].
  destruct r as [|n r1], r' as [|n' r1']; try discriminate.
  - simpl. now rewrite Hs.
  - pose proof Hr as H1. apply map_cons_inv in H1 as [Hn _].
    rewrite !dedupe_cons2, (collapse_obs s n s' n' Hs Hn). destruct (collapse s' n').
    + apply IH; auto.
    + rewrite !map_cons, Hs. f_equal. apply IH; auto. Qed.

Lemma tie_independent s1 s2 run o1 o2 : sorter_ok s1 -> sorter_ok s2 -> mixed_ties run = false ->
  sort_specs s1 run = Ok o1 -> sort_specs s2 run = Ok o2 ->
  map obs_of o1 = map obs_of o2 /\ map span_of o1 = map span_of o2.
Proof.
  intros H1 H2 Hm E1 E2. unfold sort_specs in *. destruct (Nat.leb (length run) 1).
  - injection E1 as <-. injection E2 as <-. auto.
  - destruct (H1 run) as [P1 _], (H2 run) as [P2 _].
    assert (Ho : map obs_of (s1 run) = map obs_of (s2 run)).
    { apply keys_to_obs; [apply sorters_same_keys; auto|]. intros a b Ha Hb.
      apply (no_mixed run Hm).
      - exact (Permutation_in a (Permutation_sym P1) Ha).
      - exact (Permutation_in b (Permutation_sym P2) Hb). }
    apply dedupe_obs in Ho.
    assert (L : forall s, Permutation run (s run) -> (length (dedupe (s run)) <= length (map span_of run))%nat).
    { intros s P. rewrite map_length, (Permutation_length P). apply subseq_length, dedupe_subseq. }
    destruct (reassign_spec _ _ (L s1 P1)) as (x1 & A1 & B1 & C1).
    destruct (reassign_spec _ _ (L s2 P2)) as (x2 & A2 & B2 & C2).
    rewrite A1 in E1. rewrite A2 in E2. injection E1 as <-. injection E2 as <-. split.
    + rewrite (map_obs_ident _ _ B1), (map_obs_ident _ _ B2). exact Ho.
    + rewrite C1, C2. f_equal. rewrite <- (map_length obs_of), Ho, map_length. reflexivity.
Qed.

(* with mixed ties the sorts may disagree on which duplicate survives, but never on the sorted key sequence *)
Lemma mixed_example_differs :
  let a := mkSpec 0 [] [97%N] false [] 0 0 1 1 in
  let b := mkSpec 1 [] [97%N] true [] 0 0 2 2 in
  dedupe [a; b] = [b] /\ dedupe [b; a] = [b; a] /\ key_of a = key_of b.
Proof. vm_compute. auto. Qed.

(* ------------------------------------------------------------------ file-level statements on the function *)
Lemma sort_imports_set srt : sorter_ok srt -> forall ds ds', sort_imports srt ds = Ok ds' ->
  forall p, In p (map np_of (file_specs ds')) <-> In p (map np_of (file_specs ds)).
Proof. intros Hs ds ds' H. destruct (sort_imports_post srt Hs ds) as (x & H1 & H2).
  rewrite H1 in H. injection H as <-. now apply file_post_set. Qed.

Lemma sort_imports_drops srt : sorter_ok srt -> forall ds ds', sort_imports srt ds = Ok ds' ->
  exists dropped, Permutation (map ident_of (file_specs ds)) (map ident_of (file_specs ds') ++ map ident_of dropped) /\
                  Forall (dropped_ok (file_specs ds')) dropped.
Proof. intros Hs ds ds' H. destruct (sort_imports_post srt Hs ds) as (x & H1 & H2).
  rewrite H1 in H. injection H as <-. now apply file_post_drops. Qed.

Lemma sort_imports_atomic srt : sorter_ok srt -> forall ds ds', sort_imports srt ds = Ok ds' ->
  incl (map ident_of (file_specs ds')) (map ident_of (file_specs ds)).
Proof. intros Hs ds ds' H. destruct (sort_imports_post srt Hs ds) as (x & H1 & H2).
  rewrite H1 in H. injection H as <-. now apply file_post_atomic. Qed.

(* ================================================================================================
   The model with the token.File line table (the one the differential run executes).
   Whatever the line table does, the specs that come out are those of the layout-free functions
   applied to SOME cutting of each block into consecutive runs; so every statement above about
   sets, duplicates, sortedness of each run and whole records holds for it, for every line table.
   ================================================================================================ *)
Lemma dedupe_m_cons2 lines s n r :
  dedupe_m lines (s :: n :: r) =
  if collapse s n then lines' <- merge_line lines (line_at lines (spos s)) ;; dedupe_m lines' (n :: r)
  else dl <- dedupe_m lines (n :: r) ;; Ok (s :: fst dl, snd dl).
Proof. reflexivity. Qed.

Lemma dedupe_m_spec : forall l lines d lines', dedupe_m lines l = Ok (d, lines') -> d = dedupe l.
Proof. induction l as [|s r IH]; intros lines d lines' H.
  - simpl in H. injection H as <- <-. reflexivity.
  - destruct r as [|n r].
    + simpl in H. injection H as <- <-. reflexivity.
    + rewrite dedupe_cons2. rewrite dedupe_m_cons2 in H. destruct (collapse s n).
      * destruct (merge_line lines (line_at lines (spos s))) as [l1| |]; try discriminate. cbn [bind] in H. eapply IH; eauto.
      * destruct (dedupe_m lines (n :: r)) as [[d0 l0]| |] eqn:E; try discriminate. cbn in H. injection H as <- <-.
        f_equal. eapply IH; eauto. Qed.

Lemma sort_specs_m_spec srt lines run out lines' :
  sort_specs_m srt lines run = Ok (out, lines') -> sort_specs srt run = Ok out.
Proof. unfold sort_specs_m, sort_specs. destruct (Nat.leb (length run) 1).
  - intros H. injection H as <- <-. reflexivity.
  - destruct (dedupe_m lines (srt run)) as [[d l1]| |] eqn:E; try discriminate. cbn [bind fst snd].
    apply dedupe_m_spec in E. subst d.
    destruct (reassign (map span_of run) (dedupe (srt run))) as [o| |]; try discriminate. cbn [bind].
    intros H. injection H as <- <-. reflexivity. Qed.

Definition sorted_as srt (r r' : list spec) : Prop := sort_specs srt r = Ok r'.

Lemma block_loop_spec srt : forall l lines prev cur out res lines',
  block_loop srt lines prev cur l out = Ok (res, lines') ->
  exists rs rs', concat rs = cur ++ l /\ res = out ++ concat rs' /\ Forall2 (sorted_as srt) rs rs'.
Proof.
  induction l as [|s r IH]; intros lines prev cur out res lines' H.
  - cbn [block_loop] in H. destruct (sort_specs_m srt lines cur) as [[o l1]| |] eqn:E; try discriminate.
    cbn in H. injection H as <- <-. apply sort_specs_m_spec in E.
    exists [cur], [o]. simpl. rewrite !app_nil_r. repeat split; auto.
  - cbn [block_loop] in H.
    assert (Hstay : forall H' : block_loop srt lines (Some s) (cur ++ [s]) r out = Ok (res, lines'),
              exists rs rs', concat rs = cur ++ s :: r /\ res = out ++ concat rs' /\ Forall2 (sorted_as srt) rs rs').
    { intros H'. destruct (IH _ _ _ _ _ _ H') as (rs & rs' & H1 & H2 & H3). exists rs, rs'. repeat split; auto.
      rewrite H1, <- app_assoc. reflexivity. }
    destruct prev as [p|]; [|auto].
    destruct (line_at lines (spos s) >? 1 + line_at lines (send p))%Z; [|auto].
    destruct (sort_specs_m srt lines cur) as [[o l1]| |] eqn:E; try discriminate. cbn [bind fst snd] in H.
    apply sort_specs_m_spec in E.
    destruct (IH _ _ _ _ _ _ H) as (rs & rs' & H1 & H2 & H3).
    exists (cur :: rs), (o :: rs'). simpl. rewrite H1, H2, <- app_assoc. repeat split; auto.
Qed.

Lemma sorted_as_post srt : sorter_ok srt -> forall rs rs', Forall2 (sorted_as srt) rs rs' -> Forall2 run_post rs rs'.
Proof. intros Hs. induction 1 as [|r r' t t' Hr Ht IH]; constructor; auto.
  destruct (sort_specs_post srt Hs r) as (o & H1 & H2). unfold sorted_as in Hr. rewrite H1 in Hr. injection Hr as <-. exact H2. Qed.

Lemma sort_block_m_spec srt : sorter_ok srt -> forall lines rp specs out lines',
  sort_block_m srt lines rp specs = Ok (out, lines') -> block_post specs out.
Proof.
  intros Hs lines rp specs out lines' H. unfold sort_block_m in H.
  destruct (block_loop srt lines None [] specs []) as [[o l1]| |] eqn:E; try discriminate. cbn [bind fst snd] in H.
  assert (out = o).
  { destruct (rev o) as [|lst t]; [injection H as <- <-; reflexivity|].
    match type of H with context [rparen_loop ?a ?b ?c] => destruct (rparen_loop a b c) as [l2| |] end; try discriminate.
    cbn in H. injection H as <- <-. reflexivity. }
  subst o. destruct (block_loop_spec srt _ _ _ _ _ _ _ E) as (rs & rs' & H1 & H2 & H3).
  exists rs, rs'. simpl in H1, H2. repeat split; auto. now apply (sorted_as_post srt). Qed.

Definition to_decl (d : ldecl) : decl :=
  match d with LImport lp _ sp => ImportDecl lp sp | LOther => OtherDecl end.
(* what SortImports must not touch: the kind of each declaration, its parentheses *)
Definition frame (d : ldecl) : option (bool * Z) :=
  match d with LImport lp rp _ => Some (lp, rp) | LOther => None end.

Lemma sort_imports_m_spec srt : sorter_ok srt -> forall ds lines ds' lines',
  sort_imports_m srt lines ds = Ok (ds', lines') ->
  file_post (map to_decl ds) (map to_decl ds') /\ map frame ds' = map frame ds.
Proof.
  intros Hs. induction ds as [|d r IH]; intros lines ds' lines' H.
  - simpl in H. injection H as <- <-. simpl. auto.
  - destruct d as [[|] rp sp|].
    + cbn [sort_imports_m] in H.
      destruct (sort_block_m srt lines rp sp) as [[o l1]| |] eqn:E; try discriminate. cbn [bind fst snd] in H.
      destruct (sort_imports_m srt l1 r) as [[r' l2]| |] eqn:E2; try discriminate. cbn in H. injection H as <- <-.
      destruct (IH _ _ _ E2) as [H1 H2]. split.
      * simpl. exists o, (map to_decl r'). repeat split; auto. eapply sort_block_m_spec; eauto.
      * simpl. now rewrite H2.
    + cbn [sort_imports_m] in H.
      destruct (sort_imports_m srt lines r) as [[r' l2]| |] eqn:E2; try discriminate. cbn in H. injection H as <- <-.
      destruct (IH _ _ _ E2) as [H1 H2]. split.
      * simpl. exists (map to_decl r'). auto.
      * simpl. now rewrite H2.
    + simpl in H. injection H as <- <-. simpl. auto.
Qed.

Definition lfile_specs (ds : list ldecl) : list spec := file_specs (map to_decl ds).

Lemma sort_imports_m_set srt : sorter_ok srt -> forall ds lines ds' lines', sort_imports_m srt lines ds = Ok (ds', lines') ->
  forall p, In p (map np_of (lfile_specs ds')) <-> In p (map np_of (lfile_specs ds)).
Proof. intros Hs ds lines ds' lines' H. apply file_post_set. eapply sort_imports_m_spec; eauto. Qed.

Lemma sort_imports_m_drops srt : sorter_ok srt -> forall ds lines ds' lines', sort_imports_m srt lines ds = Ok (ds', lines') ->
  exists dropped, Permutation (map ident_of (lfile_specs ds)) (map ident_of (lfile_specs ds') ++ map ident_of dropped) /\
                  Forall (dropped_ok (lfile_specs ds')) dropped.
Proof. intros Hs ds lines ds' lines' H. apply file_post_drops. eapply sort_imports_m_spec; eauto. Qed.

Lemma sort_imports_m_atomic srt : sorter_ok srt -> forall ds lines ds' lines', sort_imports_m srt lines ds = Ok (ds', lines') ->
  incl (map ident_of (lfile_specs ds')) (map ident_of (lfile_specs ds)).
Proof. intros Hs ds lines ds' lines' H. apply file_post_atomic. eapply sort_imports_m_spec; eauto. Qed.

(* ---- what the line table breaks when two specs share a line (vm_compute witnesses = the known findings) *)
Definition mk (i : nat) (p : N) (a b : Z) : spec := mkSpec i [] [p] false [] a b 0 0.

(* import (\n\t"z"; "z"\n\n\t"a"\n)\n  : after SortImports the specs z, a form ONE group that is not sorted *)
Lemma glued_witness :
  let lines := [0; 9; 19; 20; 25]%Z in
  let ds := [LImport true 25 [mk 0 122 10 13; mk 1 122 15 18; mk 2 97 21 24]] in
  exists out lines', sort_imports_lines_exec lines ds = Ok ([LImport true 25 out], lines') /\
    map (map sid) (groups_in lines [mk 0 122 10 13; mk 1 122 15 18; mk 2 97 21 24]) = [[0; 1]; [2]]%nat /\
    map (map sid) (groups_in lines' out) = [[1; 2]]%nat /\ forallb path_sorted (groups_in lines' out) = false.
Proof. vm_compute. eexists. eexists. repeat split. Qed.

(* import ("a"; "a")\n  : the duplicate is on the last line of the file, MergeLine panics *)
Lemma merge_panic_witness :
  sort_imports_lines_exec [0%Z] [LImport true 16 [mk 0 97 8 11; mk 1 97 13 16]] = Panic.
Proof. vm_compute. reflexivity. Qed.

(* import (\n\t"z"; "z"; "z"; "z"\n\n\t"b"\n\n\t"a"\n)\n : the third merge removes the line between the two later runs,
   which are then sorted as ONE run: the result differs from sorting the runs of the original layout *)
Lemma later_runs_witness :
  let lines := [0; 9; 29; 30; 35; 36; 41]%Z in
  let sp := [mk 0 122 10 13; mk 1 122 15 18; mk 2 122 20 23; mk 3 122 25 28; mk 4 98 31 34; mk 5 97 37 40] in
  exists out lines', sort_imports_lines_exec lines [LImport true 41 sp] = Ok ([LImport true 41 out], lines') /\
    map sid out = [3; 5; 4]%nat /\ map (map sid) (groups_in lines sp) = [[0; 1; 2; 3]; [4]; [5]]%nat.
Proof. vm_compute. eexists. eexists. repeat split. Qed.
