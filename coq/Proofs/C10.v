From Coq Require Import List NArith ZArith Bool Lia Permutation ZifyN ZifyNat ZifyBool.
Import ListNotations.
From V Require Import Base.Prelude Base.C10Prelude Gen.C10 Model.C10.
Open Scope Z_scope.

(* ------------------------------------------------------------------ first-match dispatch *)
Section ResolveFacts.
Context {C A : Type}.
Variable accepts : C -> A -> bool.

(* at most one candidate of the set accepts any given argument list *)
Definition pairwise_distinguishable (cs : list C) : Prop :=
  forall c c' a, In c cs -> In c' cs -> accepts c a = true -> accepts c' a = true -> c = c'.

Lemma resolve_some cs a c : resolve accepts cs a = Some c -> In c cs /\ accepts c a = true.
Proof. unfold resolve. intros H. apply find_some in H. exact H. Qed.

Lemma resolve_none cs a : resolve accepts cs a = None -> forall c, In c cs -> accepts c a = false.
Proof. unfold resolve. intros H c Hc. eapply find_none in H; eauto. Qed.

Lemma resolve_unique cs a c :
  pairwise_distinguishable cs -> In c cs -> accepts c a = true -> resolve accepts cs a = Some c.
Proof.
  intros Hd Hin Hacc. destruct (resolve accepts cs a) as [c'|] eqn:E.
  - apply resolve_some in E as [Hin' Hacc']. f_equal. eapply Hd; eauto.
  - eapply resolve_none in E; eauto. congruence.
Qed.

Lemma resolve_perm cs cs' a :
  pairwise_distinguishable cs -> Permutation cs cs' -> resolve accepts cs a = resolve accepts cs' a.
Proof.
  intros Hd Hp. destruct (resolve accepts cs a) as [c|] eqn:E.
  - apply resolve_some in E as [Hin Hacc]. symmetry. apply resolve_unique; auto.
    + intros x y b Hx Hy. apply Hd; (eapply Permutation_in; [apply Permutation_sym; exact Hp|assumption]).
    + eapply Permutation_in; eauto.
  - destruct (resolve accepts cs' a) as [c'|] eqn:E'; auto.
    apply resolve_some in E' as [Hin Hacc].
    eapply resolve_none in E; [|eapply Permutation_in; [apply Permutation_sym; exact Hp|exact Hin]]. congruence.
Qed.

(* the dispatched candidate is the (unique) accepting one, wherever it is listed *)
Lemma resolve_complete cs a c :
  pairwise_distinguishable cs -> In c cs -> accepts c a = true -> resolve accepts cs a = Some c.
Proof. apply resolve_unique. Qed.
End ResolveFacts.

(* ------------------------------------------------------------------ overloadFuncName *)

Lemma firstn_1_skipn {X} (l : list X) n d : (n < length l)%nat -> firstn 1 (skipn n l) = [nth n l d].
Proof.
  revert n. induction l as [|x l IH]; intros n H; simpl in H; [lia|].
  destruct n; simpl; auto. apply IH. lia.
Qed.

Definition suffix_of (idx : Z) : str := [uscore; uscore] ++ [nth (Z.to_nat idx) gen_indexTable 0%N].

Lemma gen_overloadFuncName_ok name idx :
  0 <= idx < zlen gen_indexTable -> gen_overloadFuncName name idx = Ok (name ++ suffix_of idx).
Proof.
  intros H. unfold gen_overloadFuncName. cbn [bind ret]. unfold slice_str.
  assert (E : ((idx <? 0) || (idx + 1 <? idx) || (zlen gen_indexTable <? idx + 1)) = false) by lia.
  rewrite E. cbn [bind ret].
  replace (idx + 1 - idx) with 1 by lia. change (Z.to_nat 1) with 1%nat.
  rewrite (firstn_1_skipn _ _ 0%N) by (unfold zlen in H; lia).
  unfold suffix_of. rewrite <- app_assoc. reflexivity.
Qed.

Lemma gen_overloadFuncName_panic name idx :
  idx < 0 \/ zlen gen_indexTable <= idx -> gen_overloadFuncName name idx = Panic.
Proof.
  intros H. unfold gen_overloadFuncName. cbn [bind ret]. unfold slice_str.
  assert (E : ((idx <? 0) || (idx + 1 <? idx) || (zlen gen_indexTable <? idx + 1)) = true) by lia.
  rewrite E. reflexivity.
Qed.

Fixpoint nodupNb (l : list N) : bool :=
  match l with [] => true | x :: t => negb (existsb (N.eqb x) t) && nodupNb t end.

Lemma nodupNb_NoDup l : nodupNb l = true -> NoDup l.
Proof.
  induction l as [|x t IH]; simpl; intros H; constructor.
  - apply andb_prop in H as [H _]. apply negb_true_iff in H. intros Hin.
    assert (existsb (N.eqb x) t = true) by (apply existsb_exists; exists x; split; auto; apply N.eqb_refl). congruence.
  - apply andb_prop in H as [_ H]. auto.
Qed.

Lemma indexTable_nodup : NoDup gen_indexTable.
Proof. apply nodupNb_NoDup. vm_compute. reflexivity. Qed.

Lemma overload_names_injective name idx idx' :
  0 <= idx < zlen gen_indexTable -> 0 <= idx' < zlen gen_indexTable ->
  gen_overloadFuncName name idx = gen_overloadFuncName name idx' -> idx = idx'.
Proof.
  intros H H' E. rewrite !gen_overloadFuncName_ok in E by assumption.
  inversion E as [E1]. apply app_inv_head in E1. unfold suffix_of in E1. inversion E1 as [E2].
  apply (proj1 (NoDup_nth gen_indexTable 0%N) indexTable_nodup) in E2; unfold zlen in *; lia.
Qed.

Lemma app_eq_len {X} (a : list X) : forall b x y, length a = length b -> a ++ x = b ++ y -> a = b /\ x = y.
Proof.
  induction a as [|h a IH]; intros [|h' b] x y L E; simpl in *; try lia; auto.
  inversion E; subst. destruct (IH b x y) as [E1 E2]; auto. subst. auto.
Qed.

(* names of different overloads never collide either: the suffix has a fixed length *)
Lemma overload_names_injective_name name name' idx idx' :
  0 <= idx < zlen gen_indexTable -> 0 <= idx' < zlen gen_indexTable ->
  gen_overloadFuncName name idx = gen_overloadFuncName name' idx' -> name = name' /\ idx = idx'.
Proof.
  intros H H' E. pose proof E as E0. rewrite !gen_overloadFuncName_ok in E by assumption.
  inversion E as [E1]. unfold suffix_of in E1.
  assert (L : length name = length name').
  { apply (f_equal (@length N)) in E1. rewrite !app_length in E1. simpl in E1. lia. }
  apply app_eq_len in E1 as [En _]; auto. split; auto. subst name'.
  eapply overload_names_injective; eauto.
Qed.

Lemma tables_agree : gogen_indexTable = gen_indexTable.
Proof. vm_compute. reflexivity. Qed.

Lemma table_len : zlen gen_indexTable = 36.
Proof. vm_compute. reflexivity. Qed.

Lemma gopo_prefix : gogen_gopoPrefix = [71;111;112;111;95]%N.
Proof. vm_compute. reflexivity. Qed.

(* ------------------------------------------------------------------ overloadName *)

Definition has_us (s : str) : bool := contains_rune s uscore.
Definition sep_of (recv : identp) (name : str) : str :=
  if has_us name || match recv with Some r => has_us r | None => false end then [uscore; uscore] else [uscore].
Definition gopo : str := [71;111;112;111]%N.   (* "Gopo" *)

Lemma gen_overloadName_plain recv name :
  gen_overloadName recv name false =
  Ok (RVal (gopo ++ sep_of recv name ++ match recv with Some r => r ++ sep_of recv name | None => [] end ++ name)).
Proof.
  unfold gen_overloadName, sep_of, has_us, uscore, gopo. cbn [bind ret].
  destruct recv as [r|]; cbn [not_nil name_of bind ret];
    destruct (contains_rune name 95%N); cbn [bind ret orb]; try destruct (contains_rune r 95%N); cbn [bind ret];
    rewrite <- ?app_assoc; reflexivity.
Qed.

Lemma gen_overloadName_op recv name :
  gen_overloadName recv name true =
  match map_lookup gen_binaryGopNames name with
  | Some oname => gen_overloadName recv oname false
  | None => Ok RErr
  end.
Proof.
  unfold gen_overloadName. cbn [bind ret].
  destruct (map_lookup gen_binaryGopNames name) as [oname|]; reflexivity.
Qed.

(* ------------------------------------------------------------------ strings.Split / strings.Join *)

Definition no_comma (s : str) : bool := forallb (fun c => negb (N.eqb c comma)) s.

Lemma split_aux_nocomma x : forall cur, no_comma x = true -> split_comma_aux x cur = [rev cur ++ x].
Proof.
  induction x as [|c x IH]; simpl; intros cur H.
  - now rewrite app_nil_r.
  - apply andb_prop in H as [H1 H2]. apply negb_true_iff in H1. rewrite H1. rewrite IH by assumption.
    simpl. now rewrite <- app_assoc.
Qed.

Lemma split_aux_app x : forall cur r, no_comma x = true ->
  split_comma_aux (x ++ comma :: r) cur = (rev cur ++ x) :: split_comma_aux r [].
Proof.
  induction x as [|c x IH]; simpl; intros cur r H.
  - rewrite ?N.eqb_refl. now rewrite app_nil_r.
  - apply andb_prop in H as [H1 H2]. apply negb_true_iff in H1. rewrite H1. rewrite IH by assumption.
    simpl. now rewrite <- app_assoc.
Qed.

Lemma split_join l : l <> [] -> forallb no_comma l = true -> split_comma (join_comma l) = l.
Proof.
  unfold split_comma. induction l as [|x t IH]; intros Hne H; [congruence|].
  simpl in H. apply andb_prop in H as [Hx Ht].
  destruct t as [|y t'].
  - simpl. now rewrite split_aux_nocomma.
  - change (join_comma (x :: y :: t')) with (x ++ comma :: join_comma (y :: t')).
    rewrite split_aux_app by assumption. simpl rev. simpl app. f_equal. apply IH; [discriminate|assumption].
Qed.

(* ------------------------------------------------------------------ checkTypeMethod *)

Lemma index_uscore_none s : has_us s = false -> index_uscore s = None.
Proof.
  unfold has_us, contains_rune. induction s as [|c s IH]; cbn [existsb index_uscore]; auto. intros H.
  apply orb_false_iff in H as [H1 H2]. rewrite N.eqb_sym in H1. rewrite H1. now rewrite IH.
Qed.

Lemma index_uscore_app t r : has_us t = false -> index_uscore (t ++ uscore :: r) = Some (length t).
Proof.
  unfold has_us, contains_rune. induction t as [|c t IH]; cbn [existsb index_uscore app length]; intros H.
  - now rewrite N.eqb_refl.
  - apply orb_false_iff in H as [H1 H2]. rewrite N.eqb_sym in H1. rewrite H1. now rewrite IH.
Qed.

Lemma index_dunder_cons2 c c' t :
  index_dunder (c :: c' :: t) =
  if N.eqb c uscore && N.eqb c' uscore then Some O else option_map S (index_dunder (c' :: t)).
Proof. reflexivity. Qed.

Lemma index_dunder_app s : forall p r, index_dunder s = Some p -> index_dunder (s ++ r) = Some p.
Proof.
  induction s as [|c s IH]; intros p r H; [discriminate|].
  destruct s as [|c' s']; [discriminate|].
  rewrite index_dunder_cons2 in H.
  change ((c :: c' :: s') ++ r) with (c :: c' :: (s' ++ r)). rewrite index_dunder_cons2.
  destruct (N.eqb c uscore && N.eqb c' uscore); auto.
  destruct (index_dunder (c' :: s')) as [q|] eqn:E; [|discriminate].
  change (c' :: s' ++ r) with ((c' :: s') ++ r). rewrite (IH q r eq_refl). exact H.
Qed.

Lemma index_dunder_none_no_us s : has_us s = false -> index_dunder s = None.
Proof.
  unfold has_us, contains_rune. induction s as [|c s IH]; auto. intros H.
  cbn [existsb] in H. apply orb_false_iff in H as [H1 H2]. rewrite N.eqb_sym in H1.
  destruct s as [|c' s']; auto. rewrite index_dunder_cons2. rewrite H1. cbn [andb]. now rewrite IH.
Qed.

(* ------------------------------------------------------------------ the preload loop *)

Lemma zlen_cons {X} (c : X) t : zlen (c :: t) = 1 + zlen t.
Proof. unfold zlen. simpl length. lia. Qed.
Lemma zlen_nonneg {X} (l : list X) : 0 <= zlen l.
Proof. unfold zlen. lia. Qed.

Definition oname_entry (d : odecl) (c : cand) : str :=
  match cstyle c with
  | Named n => if oisclass d then dot :: n else n
  | Meth n => dot :: n
  | Lit => []
  end.
Definition is_lit (c : cand) : bool := match cstyle c with Lit => true | _ => false end.

Fixpoint lit_entries (name : str) (idx : Z) (cs : list cand) : list (Z * str) :=
  match cs with
  | [] => []
  | c :: t => (if is_lit c then [(idx, name ++ suffix_of idx)] else []) ++ lit_entries name (idx + 1) t
  end.

Lemma preload_loop_spec d : forall cs idx on ln ex ons lits ex',
  0 <= idx -> idx + zlen cs <= zlen gen_indexTable ->
  preload_loop d idx cs on ln ex = Ok (Some (ons, lits, ex')) ->
  ons = rev on ++ map (oname_entry d) cs /\
  lits = rev ln ++ lit_entries (oname d) idx cs /\
  ex' = ex || existsb (fun c => negb (is_lit c)) cs.
Proof.
  induction cs as [|c t IH]; intros idx on ln ex ons lits ex' H0 Hlen H.
  - simpl in H. inversion H; subst. simpl. rewrite !app_nil_r, orb_false_r. auto.
  - rewrite zlen_cons in Hlen. pose proof (zlen_nonneg t) as Hnn.
    assert (Ht : idx + 1 + zlen t <= zlen gen_indexTable) by lia.
    cbn [preload_loop] in H. unfold oname_entry, is_lit. cbn [map lit_entries existsb]. unfold is_lit.
    destruct (cstyle c) as [|n|n] eqn:Es.
    + destruct (not_nil (orecv d) && negb (oisop d) && negb (oisclass d)); [discriminate|].
      rewrite gen_overloadFuncName_ok in H by lia.
      cbn [bind] in H. apply IH in H; [|lia|assumption]. destruct H as (A & B & C0).
      subst. cbn [rev]. rewrite <- !app_assoc. cbn [app negb orb]. repeat split; reflexivity.
    + destruct (not_nil (orecv d) && negb (oisop d) && negb (oisclass d)); [discriminate|].
      apply IH in H; [|lia|assumption]. destruct H as (A & B & C0).
      subst. cbn [rev]. rewrite <- !app_assoc. cbn [app negb orb]. rewrite orb_true_r. repeat split; reflexivity.
    + destruct (negb (not_nil (orecv d)) || oisclass d); [discriminate|].
      apply IH in H; [|lia|assumption]. destruct H as (A & B & C0).
      subst. cbn [rev]. rewrite <- !app_assoc. cbn [app negb orb]. rewrite orb_true_r. repeat split; reflexivity.
Qed.

(* a literal candidate at index >= 36 makes the compiler panic (indexTable[idx:idx+1]) *)
Lemma preload_loop_panics d c t idx on ln ex :
  cstyle c = Lit -> (not_nil (orecv d) && negb (oisop d) && negb (oisclass d)) = false ->
  zlen gen_indexTable <= idx ->
  preload_loop d idx (c :: t) on ln ex = Panic.
Proof.
  intros Es Hg Hi. cbn [preload_loop]. rewrite Es, Hg. rewrite gen_overloadFuncName_panic by lia. reflexivity.
Qed.

(* ------------------------------------------------------------------ decoding the table *)

Fixpoint expected_entries (d : odecl) (k : Z) (cs : list cand) : M (list str) :=
  match cs with
  | [] => Ok []
  | c :: t => x <- expected_entry d k c ;; r <- expected_entries d (k + 1) t ;; Ok (x :: r)
  end.

(* guards on one declaration (all computable) *)
Definition cand_ok (d : odecl) (c : cand) : bool :=
  match cstyle c with
  | Named n => negb (match n with [] => true | _ => false end) && no_comma n
  | Meth n => no_comma n
  | Lit => negb (not_nil (orecv d)) && negb (oisop d)
  end.

Definition eff_name (d : odecl) : option str :=
  if oisop d then map_lookup gen_binaryGopNames (oname d) else Some (oname d).

Definition tname_ok (t : str) : bool :=
  match index_dunder (t ++ [uscore; uscore]) with
  | Some p => Nat.eqb p (length t) && negb (Nat.eqb p 0)
  | None => false
  end.

Section Decode.
Variable lookup : str -> sobj.

Definition name_guard (d : odecl) (nm : str) : bool :=
  match orecv d with
  | None => match index_dunder nm with None => true | Some O => true | Some _ => false end
  | Some t =>
      match lookup t with SNamedType => true | _ => false end &&
      negb (match t with [] => true | _ => false end) &&
      (if has_us nm || has_us t then tname_ok t else true)
  end.

Definition wf_odecl (d : odecl) : bool :=
  negb (match ocands d with [] => true | _ => false end) &&
  (zlen (ocands d) <=? zlen gen_indexTable) &&
  forallb (cand_ok d) (ocands d) &&
  match eff_name d with Some nm => name_guard d nm | None => false end.

Lemma check_type_method_roundtrip d nm :
  name_guard d nm = true ->
  check_type_method lookup
    (skipn 1 (sep_of (orecv d) nm) ++ match orecv d with Some r => r ++ sep_of (orecv d) nm | None => [] end ++ nm)
  = Ok (orecv d, nm).
Proof.
  unfold name_guard, sep_of. destruct (orecv d) as [t|] eqn:Er.
  - intros H. apply andb_prop in H as [H H3]. apply andb_prop in H as [H1 H2].
    destruct (lookup t) eqn:El; try discriminate.
    assert (Hlen : (0 < length t)%nat) by (destruct t; [discriminate|simpl; lia]).
    clear H1 H2.
    destruct (has_us nm || has_us t) eqn:Eu.
    + (* "_T__name" *)
      replace (skipn 1 [uscore; uscore] ++ (t ++ [uscore; uscore]) ++ nm)
        with (uscore :: (t ++ [uscore; uscore] ++ nm)) by (cbn [skipn app]; now rewrite <- app_assoc).
      unfold check_type_method. cbn [index_uscore]. rewrite N.eqb_refl. cbn [tl].
      unfold tname_ok in H3.
      destruct (index_dunder (t ++ [uscore; uscore])) as [p|] eqn:Ed; [|discriminate].
      apply andb_prop in H3 as [Hp Hp0]. apply Nat.eqb_eq in Hp. apply negb_true_iff in Hp0. apply Nat.eqb_neq in Hp0.
      apply (index_dunder_app _ _ nm) in Ed. rewrite <- app_assoc in Ed. rewrite Ed.
      destruct p as [|p']; [congruence|]. rewrite Hp.
      rewrite firstn_app, Nat.sub_diag, firstn_all. cbn [firstn]. rewrite app_nil_r. rewrite El.
      rewrite skipn_app. rewrite (skipn_all2 t) by lia.
      replace (length t + 2 - length t)%nat with 2%nat by lia. reflexivity.
    + (* "T_name" *)
      apply orb_false_iff in Eu as [Eu1 Eu2].
      replace (skipn 1 [uscore] ++ (t ++ [uscore]) ++ nm) with (t ++ uscore :: nm)
        by (cbn [skipn app]; now rewrite <- app_assoc).
      unfold check_type_method. rewrite (index_uscore_app t nm Eu2).
      destruct (length t) as [|n] eqn:En; [lia|]. rewrite <- En.
      rewrite firstn_app, Nat.sub_diag, firstn_all. cbn [firstn]. rewrite app_nil_r. rewrite El.
      rewrite skipn_app. rewrite (skipn_all2 t) by lia.
      replace (length t + 1 - length t)%nat with 1%nat by lia. reflexivity.
  - intros H. rewrite orb_false_r. destruct (has_us nm) eqn:Eu.
    + cbn [skipn app]. unfold check_type_method. cbn [index_uscore]. rewrite N.eqb_refl. cbn [tl].
      destruct (index_dunder nm) as [[|p]|]; try discriminate; reflexivity.
    + cbn [skipn app]. unfold check_type_method. rewrite (index_uscore_none _ Eu). reflexivity.
Qed.

Lemma entries_from_spec d mname ismethod : forall cs k,
  0 <= k -> k + zlen cs <= zlen gen_indexTable ->
  forallb (cand_ok d) cs = true ->
  (existsb is_lit cs = true -> ismethod = false /\ mname = oname d) ->
  entries_from mname ismethod k (map (oname_entry d) cs) = expected_entries d k cs /\
  exists es, expected_entries d k cs = Ok es.
Proof.
  induction cs as [|c t IH]; intros k H0 Hlen Hok Hlit.
  - simpl. split; eauto.
  - rewrite zlen_cons in Hlen. pose proof (zlen_nonneg t) as Hnn.
    assert (Ht : k + 1 + zlen t <= zlen gen_indexTable) by lia.
    simpl in Hok. apply andb_prop in Hok as [Hc Hok].
    destruct (IH (k + 1)) as (IH1 & es & IH2); auto; [lia| |].
    { intros Hl. apply Hlit. simpl. rewrite Hl. apply orb_true_r. }
    cbn [map entries_from expected_entries]. unfold expected_entry, cand_ok in *. unfold oname_entry in *.
    destruct (cstyle c) as [|n|n] eqn:Es.
    + destruct Hlit as [Hm Hn]; [simpl; unfold is_lit; rewrite Es; reflexivity|]. subst ismethod mname.
      rewrite tables_agree.
      assert (Hr : 0 <= k < zlen gen_indexTable) by lia.
      rewrite (gen_overloadFuncName_ok (oname d) k Hr).
      unfold slice_str.
      assert (E : ((k <? 0) || (k + 1 <? k) || (zlen gen_indexTable <? k + 1)) = false) by lia.
      rewrite E. cbn [bind]. replace (k + 1 - k) with 1 by lia. change (Z.to_nat 1) with 1%nat.
      rewrite (firstn_1_skipn _ _ 0%N) by (unfold zlen in Hr; lia).
      rewrite IH1, IH2. cbn [bind app]. unfold suffix_of. split; eauto.
    + destruct (oisclass d).
      * cbn [bind]. rewrite IH1, IH2. cbn [bind]. split; eauto.
      * destruct n as [|n0 n']; [discriminate|]. cbn [bind]. rewrite IH1, IH2. cbn [bind]. split; eauto.
    + cbn [bind]. rewrite IH1, IH2. cbn [bind]. split; eauto.
Qed.

Lemma oname_entry_no_comma d c : cand_ok d c = true -> no_comma (oname_entry d c) = true.
Proof.
  unfold cand_ok, oname_entry. destruct (cstyle c) as [|n|n]; auto.
  intros H. apply andb_prop in H as [_ H]. destruct (oisclass d); auto.
Qed.

Lemma gopo_table_wellformed d cn cv lits :
  wf_odecl d = true ->
  preload_overload d = Ok (Some (mkpre (Some (cn, cv)) lits)) ->
  exists nm es,
    eff_name d = Some nm /\
    decode_gopo lookup cn cv = Ok (orecv d, nm, es) /\
    expected_entries d 0 (ocands d) = Ok es /\
    lits = lit_entries (oname d) 0 (ocands d).
Proof.
  unfold wf_odecl. intros Hwf H.
  apply andb_prop in Hwf as [Hwf Hname]. apply andb_prop in Hwf as [Hwf Hcands].
  apply andb_prop in Hwf as [Hne Hlen]. apply Z.leb_le in Hlen.
  destruct (eff_name d) as [nm|] eqn:Eeff; [|discriminate].
  unfold preload_overload in H.
  destruct (preload_loop d 0 (ocands d) [] [] false) as [[[[ons ls] ex]|]| |] eqn:El; cbn [bind] in H; try discriminate.
  apply preload_loop_spec in El; [|lia|lia]. destruct El as (Hons & Hls & Hex). simpl in Hons, Hls, Hex.
  destruct ex; [|inversion H].
  (* the constant's name *)
  assert (Hcn : gen_overloadName (orecv d) (oname d) (oisop d) =
                Ok (RVal (gopo ++ sep_of (orecv d) nm ++ match orecv d with Some r => r ++ sep_of (orecv d) nm | None => [] end ++ nm))).
  { unfold eff_name in Eeff. destruct (oisop d).
    - rewrite gen_overloadName_op, Eeff. apply gen_overloadName_plain.
    - inversion Eeff; subst. apply gen_overloadName_plain. }
  rewrite Hcn in H. cbn [bind] in H. inversion H; subst cn cv lits. clear H.
  exists nm.
  (* literal candidates only without receiver and operator: then the decoded name is the declared name *)
  assert (Hlit : existsb is_lit (ocands d) = true -> orecv d = None /\ nm = oname d).
  { intros Hl. apply existsb_exists in Hl as (c & Hin & Hc).
    rewrite forallb_forall in Hcands. specialize (Hcands c Hin). unfold cand_ok, is_lit in *.
    destruct (cstyle c); try discriminate. apply andb_prop in Hcands as [A B].
    apply negb_true_iff in A, B. unfold eff_name in Eeff. rewrite B in Eeff. inversion Eeff.
    destruct (orecv d); [discriminate|]. auto. }
  assert (P1 : 0 <= 0) by lia.
  assert (P2 : 0 + zlen (ocands d) <= zlen gen_indexTable) by lia.
  assert (P3 : existsb is_lit (ocands d) = true ->
               (match orecv d with Some _ => true | None => false end) = false /\ nm = oname d).
  { intros Hl. destruct (Hlit Hl) as [A B]. rewrite A. auto. }
  destruct (entries_from_spec d nm (match orecv d with Some _ => true | None => false end) (ocands d) 0 P1 P2 Hcands P3)
    as (E1 & es & E2).
  exists es. repeat split; auto.
  unfold decode_gopo. rewrite gopo_prefix.
  assert (Hkey : forall rest, skipn (length [71; 111; 112; 111; 95]%N) (71 :: 111 :: 112 :: 111 :: sep_of (orecv d) nm ++ rest)%N
                              = skipn 1 (sep_of (orecv d) nm) ++ rest).
  { intros rest. unfold sep_of. destruct (has_us nm || match orecv d with Some r => has_us r | None => false end); reflexivity. }
  rewrite Hkey. rewrite (check_type_method_roundtrip d nm Hname). cbn [bind]. subst ons.
  rewrite split_join.
  - rewrite E1, E2. cbn [bind]. reflexivity.
  - destruct (ocands d); [discriminate|discriminate].
  - rewrite forallb_forall. intros x Hx. apply in_map_iff in Hx as (c & <- & Hc).
    apply oname_entry_no_comma. rewrite forallb_forall in Hcands. auto.
Qed.

End Decode.

(* ------------------------------------------------------------------ from the declaration to the dispatched candidate *)

(* InitThisGopPkgEx: the overload is the list of the objects found under the decoded names (a name that is not
   found is silently dropped) *)
Fixpoint found_cands {C} (lookup_fn : str -> option C) (es : list str) : list C :=
  match es with
  | [] => []
  | n :: t => match lookup_fn n with Some c => c :: found_cands lookup_fn t | None => found_cands lookup_fn t end
  end.

Lemma found_cands_all d (lookup_fn : str -> option cand) : forall cs k es,
  expected_entries d k cs = Ok es ->
  (forall i c n, nth_error cs i = Some c -> expected_entry d (k + Z.of_nat i) c = Ok n -> lookup_fn n = Some c) ->
  found_cands lookup_fn es = cs.
Proof.
  induction cs as [|c t IH]; intros k es H Hb.
  - simpl in H. inversion H; subst. reflexivity.
  - cbn [expected_entries] in H.
    destruct (expected_entry d k c) as [n| |] eqn:En; cbn [bind] in H; try discriminate H.
    destruct (expected_entries d (k + 1) t) as [r| |] eqn:Er; cbn [bind] in H; try discriminate H.
    inversion H; subst. cbn [found_cands].
    rewrite (Hb 0%nat c n eq_refl) by (replace (k + Z.of_nat 0) with k by lia; exact En).
    f_equal. apply (IH (k + 1) r Er). intros i c' n' Hi He.
    apply (Hb (S i) c' n' Hi). replace (k + Z.of_nat (S i)) with (k + 1 + Z.of_nat i) by lia. exact He.
Qed.

Section EndToEnd.
Variable lookup : str -> sobj.
Variable lookup_fn : str -> option cand.
Variable A : Type.
Variable accepts : cand -> A -> bool.

(* the scope binds the k-th candidate's name (the declared name__k for a literal) to that candidate *)
Definition scope_binds (d : odecl) : Prop :=
  forall i c n, nth_error (ocands d) i = Some c -> expected_entry d (Z.of_nat i) c = Ok n -> lookup_fn n = Some c.

Lemma dispatch_end_to_end d cn cv lits a c :
  wf_odecl lookup d = true -> scope_binds d ->
  preload_overload d = Ok (Some (mkpre (Some (cn, cv)) lits)) ->
  pairwise_distinguishable accepts (ocands d) -> In c (ocands d) -> accepts c a = true ->
  exists r nm es,
    decode_gopo lookup cn cv = Ok (r, nm, es) /\
    resolve accepts (found_cands lookup_fn es) a = Some c.
Proof.
  intros Hwf Hb Hp Hd Hin Hacc.
  destruct (gopo_table_wellformed lookup d cn cv lits Hwf Hp) as (nm & es & _ & Hdec & Hes & _).
  exists (orecv d), nm, es. split; [exact Hdec|].
  rewrite (found_cands_all d lookup_fn (ocands d) 0 es Hes).
  - apply resolve_complete; auto.
  - intros i c' n Hi He. apply (Hb i c' n Hi). replace (Z.of_nat i) with (0 + Z.of_nat i) by lia. exact He.
Qed.

End EndToEnd.

(* the statements of Props/C10.v with the table length made explicit *)
Lemma overload_names_injective_36 name idx idx' :
  0 <= idx < 36 -> 0 <= idx' < 36 ->
  gen_overloadFuncName name idx = gen_overloadFuncName name idx' -> idx = idx'.
Proof. intros H H'. apply overload_names_injective; rewrite table_len; assumption. Qed.

Lemma overload_names_injective_across_36 name name' idx idx' :
  0 <= idx < 36 -> 0 <= idx' < 36 ->
  gen_overloadFuncName name idx = gen_overloadFuncName name' idx' -> name = name' /\ idx = idx'.
Proof. intros H H'. apply overload_names_injective_name; rewrite table_len; assumption. Qed.

Lemma overloadFuncName_panics_from_36 name idx : 36 <= idx -> gen_overloadFuncName name idx = Panic.
Proof. intros H. apply gen_overloadFuncName_panic. right. rewrite table_len. exact H. Qed.

Lemma tables_agree_both : gogen_indexTable = gen_indexTable /\ gogen_gopoPrefix = [71;111;112;111;95]%N.
Proof. split; [exact tables_agree|exact gopo_prefix]. Qed.

Lemma resolve_perm_any (C A : Type) (accepts : C -> A -> bool) cs cs' a :
  pairwise_distinguishable accepts cs -> Permutation cs cs' -> resolve accepts cs a = resolve accepts cs' a.
Proof. apply resolve_perm. Qed.

Lemma resolve_complete_any (C A : Type) (accepts : C -> A -> bool) cs a c :
  pairwise_distinguishable accepts cs -> In c cs -> accepts c a = true -> resolve accepts cs a = Some c.
Proof. apply resolve_complete. Qed.
