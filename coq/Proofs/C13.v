From Coq Require Import List NArith ZArith Bool Lia Sorted Permutation.
From Coq Require String Ascii.
From Coq Require Import ZifyN ZifyNat ZifyBool.
Import ListNotations.
From V Require Import Base.Prelude Gen.C13Parser Model.C13.
Local Open Scope nat_scope.

(* ================================================================== facts about the generated constants *)
(* (these are the only places where the generated comparison operators are unfolded) *)
Lemma error_bails_pos n : error_bails n = true -> (n > 0)%Z.
Proof. unfold error_bails, error_limit. lia. Qed.
Lemma error_bails_spec n : error_bails n = true <-> (n > error_limit)%Z.
Proof. unfold error_bails. lia. Qed.
Lemma error_limit_nonneg : (0 <= error_limit)%Z.
Proof. unfold error_limit. lia. Qed.
Lemma cnt_ok_bound c : advance_cnt_ok c = true -> (c < advance_limit)%Z.
Proof. unfold advance_cnt_ok. lia. Qed.
Lemma pos_progress_spec p s : advance_pos_progress p s = true <-> (p > s)%Z.
Proof. unfold advance_pos_progress. lia. Qed.
Lemma advance_limit_nonneg : (0 <= advance_limit)%Z.
Proof. unfold advance_limit. lia. Qed.

(* ================================================================== (a) error bookkeeping *)
Lemma zlen_pos_nonnil {A} (l : list A) : (zlen l > 0)%Z -> l <> [].
Proof. destruct l; unfold zlen; simpl; [lia|discriminate]. Qed.

Lemma app_one_nonnil {A} (l : list A) x : l ++ [x] <> [].
Proof. destruct l; discriminate. Qed.

Lemma app_one_neq {A} (l : list A) x : l ++ [x] <> l.
Proof. intros H. apply (f_equal (@length A)) in H. rewrite app_length in H. simpl in H. lia. Qed.

Lemma p_error_cases all errs e :
  (p_error all errs e = (Ret tt, errs ++ [e])) \/
  (p_error all errs e = (Ret tt, errs) /\ all = false /\ errs <> [] /\ last_line errs = Some (e_line e)) \/
  (p_error all errs e = (Bailout, errs) /\ all = false /\ (zlen errs > error_limit)%Z).
Proof.
  unfold p_error. destruct all; [now left|].
  destruct (Z.gtb (zlen errs) 0) eqn:Hn; simpl.
  - destruct (last_line errs) as [l|] eqn:Hl.
    + destruct (N.eqb l (e_line e)) eqn:He.
      * right; left. apply N.eqb_eq in He. subst. repeat split; auto. apply zlen_pos_nonnil. lia.
      * destruct (error_bails (zlen errs)) eqn:Hb; [|now left].
        right; right. apply error_bails_spec in Hb. auto.
    + destruct (error_bails (zlen errs)) eqn:Hb; [|now left].
      right; right. apply error_bails_spec in Hb. auto.
  - destruct (error_bails (zlen errs)) eqn:Hb; [|now left].
    right; right. apply error_bails_spec in Hb. auto.
Qed.

(* once p.error has been called, p.errors is not empty (recorded, discarded or bailing out) *)
Lemma p_error_nonempty all errs e : snd (p_error all errs e) <> [].
Proof.
  destruct (p_error_cases all errs e) as [H|[(H & _ & Hne & _)|(H & _ & Hn)]]; rewrite H; simpl.
  - apply app_one_nonnil.
  - exact Hne.
  - apply zlen_pos_nonnil. pose proof error_limit_nonneg. lia.
Qed.

(* p.error never removes or reorders what is recorded *)
Lemma p_error_prefix all errs e : exists suf, snd (p_error all errs e) = errs ++ suf.
Proof.
  destruct (p_error_cases all errs e) as [H|[(H & _)|(H & _)]]; rewrite H; simpl.
  - now exists [e].
  - exists []. now rewrite app_nil_r.
  - exists []. now rewrite app_nil_r.
Qed.

(* a recorded parser error is never on the line of the previously recorded error (unless AllErrors) *)
Lemma p_error_recorded_new_line errs e :
  errs <> [] -> p_error false errs e = (Ret tt, errs ++ [e]) -> last_line errs <> Some (e_line e).
Proof.
  intros Hne H Hl. unfold p_error in H. rewrite Hl, N.eqb_refl in H.
  assert (Hz : Z.gtb (zlen errs) 0 = true) by (destruct errs; [congruence|unfold zlen; simpl; lia]).
  rewrite Hz in H. simpl in H. injection H as H. symmetry in H. now apply app_one_neq in H.
Qed.

(* the bailout needs more than error_limit recorded errors *)
Lemma p_error_bailout all errs e es : p_error all errs e = (Bailout, es) -> es = errs /\ all = false /\ (zlen errs > error_limit)%Z.
Proof.
  intros H. destruct (p_error_cases all errs e) as [H1|[(H1 & _)|(H1 & Ha & Hn)]]; rewrite H1 in H; try discriminate.
  injection H as <-. auto.
Qed.

Lemma p_error_no_raise all errs e v es : p_error all errs e <> (Raise v, es).
Proof. destruct (p_error_cases all errs e) as [H|[(H & _)|(H & _)]]; rewrite H; discriminate. Qed.

Lemma run_events_prefix all evs : forall errs bad o es b,
  run_events all evs errs bad = (o, es, b) -> exists suf, es = errs ++ suf.
Proof.
  induction evs as [|ev r IH]; simpl; intros errs bad o es b H.
  - injection H as _ <- _. exists []. now rewrite app_nil_r.
  - destruct ev as [e|e|l| |l].
    + destruct (p_error all errs e) as [o1 e1] eqn:Hp.
      destruct (p_error_prefix all errs e) as [s1 Hs1]. rewrite Hp in Hs1. simpl in Hs1.
      destruct o1.
      * apply IH in H as [s2 ->]. subst e1. exists (s1 ++ s2). now rewrite app_assoc.
      * injection H as _ <- _. now exists s1.
      * injection H as _ <- _. now exists s1.
    + apply IH in H as [s2 ->]. unfold scan_error. exists ([e] ++ s2). now rewrite app_assoc.
    + apply IH in H as [s2 ->]. exists (l ++ s2). now rewrite app_assoc.
    + now apply IH in H.
    + now apply IH in H.
Qed.

Lemma nonnil_app {A} (l s : list A) : l <> [] -> l ++ s <> [].
Proof. destruct l; [congruence|discriminate]. Qed.

(* errors_nonempty_after_error: a trace containing a call of p.error leaves p.errors non-empty,
   however the trace ends (normally or by bailout) *)
Lemma run_events_nonempty_after_error all evs : forall errs bad e o es b,
  In (EvP e) evs -> run_events all evs errs bad = (o, es, b) -> es <> [].
Proof.
  induction evs as [|ev r IH]; simpl; intros errs bad e o es b Hin H; [contradiction|].
  destruct Hin as [->|Hin].
  - pose proof (p_error_nonempty all errs e) as Hne.
    destruct (p_error all errs e) as [o1 e1] eqn:Hp. simpl in Hne.
    destruct o1.
    + apply run_events_prefix in H as [s ->]. now apply nonnil_app.
    + now injection H as _ <- _.
    + now injection H as _ <- _.
  - destruct ev as [e0|e0|l| |l]; try (eapply IH; eauto; fail).
    destruct (p_error all errs e0) as [o1 e1] eqn:Hp.
    pose proof (p_error_nonempty all errs e0) as Hne. rewrite Hp in Hne. simpl in Hne.
    destruct o1; [eapply IH; eauto| |]; now injection H as _ <- _.
Qed.

(* same for the other two ways in which the list grows *)
Lemma run_events_nonempty_after_scan all evs : forall errs bad e o es b,
  In (EvS e) evs -> run_events all evs errs bad = (o, es, b) -> o = Ret tt -> es <> [].
Proof.
  induction evs as [|ev r IH]; simpl; intros errs bad e o es b Hin H Ho; [contradiction|].
  destruct Hin as [->|Hin].
  - apply run_events_prefix in H as [s ->]. apply nonnil_app. apply app_one_nonnil.
  - destruct ev as [e0|e0|l| |l]; try (eapply IH; eauto; fail).
    destruct (p_error all errs e0) as [o1 e1] eqn:Hp.
    destruct o1; [eapply IH; eauto| |]; injection H as <- _ _; discriminate.
Qed.

Lemma run_events_nonempty_after_app all evs : forall errs bad l o es b,
  In (EvApp l) evs -> l <> [] -> run_events all evs errs bad = (o, es, b) -> o = Ret tt -> es <> [].
Proof.
  induction evs as [|ev r IH]; simpl; intros errs bad l o es b Hin Hl H Ho; [contradiction|].
  destruct Hin as [->|Hin].
  - apply run_events_prefix in H as [s ->]. apply nonnil_app. destruct errs; simpl; [exact Hl|discriminate].
  - destruct ev as [e0|e0|l0| |l0]; try (eapply IH; eauto; fail).
    destruct (p_error all errs e0) as [o1 e1] eqn:Hp.
    destruct o1; [eapply IH; eauto| |]; injection H as <- _ _; discriminate.
Qed.

Lemma run_events_no_raise all evs : forall errs bad v es b, run_events all evs errs bad <> (Raise v, es, b).
Proof.
  induction evs as [|ev r IH]; simpl; intros errs bad v es b; [discriminate|].
  destruct ev as [e|e|l| |l]; try apply IH.
  destruct (p_error all errs e) as [o1 e1] eqn:Hp. destruct o1; [apply IH|discriminate|].
  intros H. injection H as -> -> _. eapply p_error_no_raise; eauto.
Qed.

(* number of errors that did not come through p.error *)
Fixpoint foreign_count (evs : list event) : nat :=
  match evs with
  | [] => 0
  | EvS _ :: r => S (foreign_count r)
  | EvApp l :: r => length l + foreign_count r
  | _ :: r => foreign_count r
  end.

(* without AllErrors at most error_limit+1 errors are recorded through p.error *)
Lemma run_events_bound evs : forall errs bad k o es b,
  (zlen errs <= error_limit + 1 + Z.of_nat k)%Z ->
  run_events false evs errs bad = (o, es, b) ->
  (zlen es <= error_limit + 1 + Z.of_nat (k + foreign_count evs))%Z.
Proof.
  induction evs as [|ev r IH]; cbn [run_events foreign_count]; intros errs bad k o es b Hk H.
  - injection H as _ <- _. lia.
  - destruct ev as [e|e|l| |l].
    + destruct (p_error_cases false errs e) as [Hc|[(Hc & _)|(Hc & _)]]; rewrite Hc in H.
      * (* recorded: then not (n > limit) unless discarded... *)
        assert (Hn : (zlen (errs ++ [e]) <= error_limit + 1 + Z.of_nat k)%Z).
        { unfold p_error in Hc.
          destruct (Z.gtb (zlen errs) 0 && match last_line errs with Some l => N.eqb l (e_line e) | None => false end).
          - injection Hc as Hc. symmetry in Hc. now apply app_one_neq in Hc.
          - destruct (error_bails (zlen errs)) eqn:Hb; [discriminate|].
            unfold zlen in *. rewrite app_length. cbn [length]. unfold error_bails in Hb. lia. }
        eapply IH; eauto.
      * eapply IH; eauto.
      * injection H as _ <- _. lia.
    + specialize (IH (scan_error errs e) bad (S k) o es b). replace (k + S (foreign_count r)) with (S k + foreign_count r) by lia.
      apply IH; auto. unfold scan_error, zlen in *. rewrite app_length. cbn [length]. lia.
    + specialize (IH (errs ++ l) bad (k + length l) o es b). replace (k + (length l + foreign_count r)) with (k + length l + foreign_count r) by lia.
      apply IH; auto. unfold zlen in *. rewrite app_length. lia.
    + eapply IH; eauto.
    + eapply IH; eauto.
Qed.

Lemma run_events_bound0 evs o es b :
  run_events false evs [] 0 = (o, es, b) ->
  (zlen es <= error_limit + 1 + Z.of_nat (foreign_count evs))%Z.
Proof.
  intros H. apply (run_events_bound evs [] 0 0 o es b); auto.
  unfold zlen. cbn [length]. pose proof error_limit_nonneg. lia.
Qed.

(* ================================================================== (d) Sort *)
Definition err_leP (a b : perr) : Prop := err_le a b = true.

Lemma err_le_total a b : err_le a b = false -> err_le b a = true.
Proof.
  unfold err_le. destruct a as [l1 c1 m1], b as [l2 c2 m2]; simpl.
  destruct (N.ltb l1 l2) eqn:E1; [discriminate|].
  destruct (N.ltb l2 l1) eqn:E2; [reflexivity|].
  destruct (N.ltb c1 c2) eqn:E3; [discriminate|].
  destruct (N.ltb c2 c1) eqn:E4; [reflexivity|]. lia.
Qed.

Lemma err_le_trans a b c : err_le a b = true -> err_le b c = true -> err_le a c = true.
Proof.
  unfold err_le. destruct a as [l1 c1 m1], b as [l2 c2 m2], c as [l3 c3 m3]; simpl.
  destruct (N.ltb l1 l2) eqn:E1; destruct (N.ltb l2 l1) eqn:E2;
  destruct (N.ltb l2 l3) eqn:E3; destruct (N.ltb l3 l2) eqn:E4;
  destruct (N.ltb l1 l3) eqn:E5; destruct (N.ltb l3 l1) eqn:E6; try lia;
  destruct (N.ltb c1 c2) eqn:F1; destruct (N.ltb c2 c1) eqn:F2;
  destruct (N.ltb c2 c3) eqn:F3; destruct (N.ltb c3 c2) eqn:F4;
  destruct (N.ltb c1 c3) eqn:F5; destruct (N.ltb c3 c1) eqn:F6; try lia.
Qed.

Lemma insert_perm e l : Permutation (e :: l) (insert_err e l).
Proof.
  induction l as [|x t IH]; simpl; auto.
  destruct (err_le e x); auto.
  eapply perm_trans; [apply perm_swap|]. now constructor.
Qed.

Lemma sort_perm l : Permutation l (sort_errs l).
Proof.
  induction l as [|e t IH]; simpl; auto.
  eapply perm_trans; [|apply insert_perm]. now constructor.
Qed.

Lemma insert_sorted e l : Sorted err_leP l -> Sorted err_leP (insert_err e l).
Proof.
  induction 1 as [|x t Hs IH Hd]; simpl.
  - repeat constructor.
  - destruct (err_le e x) eqn:E.
    + constructor; [constructor; auto|]. constructor. exact E.
    + constructor; auto. apply err_le_total in E.
      destruct t as [|y t']; simpl in *.
      * constructor. exact E.
      * destruct (err_le e y); constructor; auto. now inversion Hd.
Qed.

Lemma sort_sorted l : Sorted err_leP (sort_errs l).
Proof. induction l; simpl; [constructor|now apply insert_sorted]. Qed.

Lemma sort_strongly_sorted l : StronglySorted err_leP (sort_errs l).
Proof.
  apply Sorted_StronglySorted; [|apply sort_sorted].
  intros a b c. apply err_le_trans.
Qed.

(* positions (line, column) are non-decreasing along a sorted list *)
Definition pos_le (a b : perr) : Prop :=
  (e_line a < e_line b)%N \/ (e_line a = e_line b /\ (e_col a <= e_col b)%N).
Lemma err_le_pos a b : err_le a b = true -> pos_le a b.
Proof.
  unfold err_le, pos_le. destruct a as [l1 c1 m1], b as [l2 c2 m2]; simpl.
  destruct (N.ltb l1 l2) eqn:E1; [lia|]. destruct (N.ltb l2 l1) eqn:E2; [discriminate|].
  destruct (N.ltb c1 c2) eqn:E3; [lia|]. destruct (N.ltb c2 c1) eqn:E4; [discriminate|]. lia.
Qed.
Lemma sort_pos_sorted l : Sorted pos_le (sort_errs l).
Proof.
  pose proof (sort_sorted l) as H. induction H as [|x t Hs IH Hd]; constructor; auto.
  destruct Hd; constructor. now apply err_le_pos.
Qed.

Lemma sort_all l : StronglySorted err_leP (sort_errs l) /\ Sorted pos_le (sort_errs l) /\ Permutation l (sort_errs l).
Proof. split; [apply sort_strongly_sorted|split; [apply sort_pos_sorted|apply sort_perm]]. Qed.

Lemma sort_nil_iff l : sort_errs l = [] <-> l = [].
Proof.
  split; intros H; [|now subst].
  pose proof (sort_perm l) as P. rewrite H in P. now apply Permutation_sym, Permutation_nil in P.
Qed.

(* ================================================================== (c) wrappers *)
Section Wrappers.
Context {F : Type} (empty : F).

Lemma file_wrapper_sorted (b : body (option F)) f es :
  file_wrapper empty b = WRet f es -> StronglySorted err_leP es /\ Sorted pos_le es /\ Permutation (snd (b [])) es.
Proof.
  unfold file_wrapper. destruct (b []) as [o e0]. simpl.
  destruct o as [[x|]| |v]; intros H; try discriminate; injection H as _ <-;
    (split; [apply sort_strongly_sorted|split; [apply sort_pos_sorted|apply sort_perm]]).
Qed.

(* the result is a panic exactly when the body raised a non-bailout panic: a bailout is swallowed,
   everything else is re-raised *)
Lemma file_wrapper_panic_iff (b : body (option F)) v :
  file_wrapper empty b = WPanic v <-> fst (b []) = Raise v.
Proof.
  unfold file_wrapper. destruct (b []) as [o e0]. simpl.
  destruct o as [[x|]| |w]; split; intros H; try discriminate; congruence.
Qed.

Lemma file_wrapper_bailout (b : body (option F)) :
  fst (b []) = Bailout -> file_wrapper empty b = WRet empty (sort_errs (snd (b []))).
Proof. unfold file_wrapper. destruct (b []) as [o e0]. simpl. intros ->. reflexivity. Qed.

(* err == nil  iff  the body recorded nothing *)
Lemma file_wrapper_err_nil (b : body (option F)) f es :
  file_wrapper empty b = WRet f es -> (err_is_nil es = true <-> snd (b []) = []).
Proof.
  unfold file_wrapper. destruct (b []) as [o e0]. simpl.
  destruct o as [[x|]| |v]; intros H; try discriminate; injection H as _ <-;
    (split; intros H; [apply sort_nil_iff; now destruct (sort_errs e0)|now subst]).
Qed.

(* wrapper_reraises: the skeleton alone does NOT give panic freedom *)
Lemma wrapper_reraises v : exists b : body (option F), file_wrapper empty b = WPanic v.
Proof. exists (fun es => (Raise v, es)). reflexivity. Qed.
End Wrappers.

Lemma expr_wrapper_sorted {E} (b : body E) x es :
  expr_wrapper b = WRet x es -> StronglySorted err_leP es /\ Sorted pos_le es /\ Permutation (snd (b [])) es.
Proof.
  unfold expr_wrapper. destruct (b []) as [o e0]. simpl.
  destruct o as [y| |v]; intros H; try discriminate; injection H as _ <-;
    (split; [apply sort_strongly_sorted|split; [apply sort_pos_sorted|apply sort_perm]]).
Qed.
Lemma expr_wrapper_panic_iff {E} (b : body E) v : expr_wrapper b = WPanic v <-> fst (b []) = Raise v.
Proof.
  unfold expr_wrapper. destruct (b []) as [o e0]. simpl.
  destruct o as [y| |w]; split; intros H; try discriminate; congruence.
Qed.
Lemma exprex_wrapper_panic_iff {E} (b : body E) v : exprex_wrapper b = WPanic v <-> fst (b []) = Raise v.
Proof.
  unfold exprex_wrapper. destruct (b []) as [o e0]. simpl.
  destruct o as [y| |w]; split; intros H; try discriminate; congruence.
Qed.
Lemma exprex_wrapper_sorted {E} (b : body E) x es :
  exprex_wrapper b = WRet x es -> StronglySorted err_leP es /\ Sorted pos_le es /\ Permutation (snd (b [])) es.
Proof.
  unfold exprex_wrapper. destruct (b []) as [o e0]. simpl.
  destruct o as [y| |v]; intros H; try discriminate; injection H as _ <-;
    (split; [apply sort_strongly_sorted|split; [apply sort_pos_sorted|apply sort_perm]]).
Qed.

(* ---- Bad node => error, for traces in which every Bad node has an error witness *)
Definition is_bad (ev : event) : bool := match ev with EvBad => true | _ => false end.
Definition is_witness (ev : event) : bool :=
  match ev with EvP _ => true | EvS _ => true | EvApp (_ :: _) => true | _ => false end.
(* what the site audit (Gen bad_sites) establishes for every execution: a Bad node is only
   constructed in an execution that also calls p.error / appends a non-empty error list *)
Definition audited (evs : list event) : Prop := existsb is_bad evs = true -> existsb is_witness evs = true.

Lemma run_events_bad_count all evs : forall errs bad o es b,
  run_events all evs errs bad = (o, es, b) -> o = Ret tt -> b = bad + length (filter is_bad evs).
Proof.
  induction evs as [|ev r IH]; simpl; intros errs bad o es b H Ho.
  - injection H as _ _ <-. lia.
  - destruct ev as [e|e|l| |l]; simpl; try (eapply IH; eauto; fail).
    + destruct (p_error all errs e) as [o1 e1]. destruct o1; [eapply IH; eauto| |]; injection H as <- _ _; discriminate.
    + apply IH in H; auto. lia.
Qed.

Lemma bad_implies_error all evs f es :
  audited evs ->
  file_wrapper 0 (fun e0 => match trace_body all evs e0 with (Ret n, x) => (Ret (Some n), x) | (Bailout, x) => (Bailout, x) | (Raise v, x) => (Raise v, x) end) = WRet f es ->
  err_is_nil es = true -> f = 0 /\ existsb is_bad evs = false.
Proof.
  intros Ha H Hnil.
  pose proof (file_wrapper_err_nil 0 _ _ _ H) as Hiff. apply Hiff in Hnil. clear Hiff.
  unfold file_wrapper, trace_body in *.
  destruct (run_events all evs [] 0) as [[o e0] b] eqn:Hr.
  destruct o as [[]| |v]; simpl in *.
  - subst e0. injection H as <- _.
    assert (Hb : existsb is_bad evs = false).
    { destruct (existsb is_bad evs) eqn:Hb; auto. exfalso.
      specialize (Ha Hb). apply existsb_exists in Ha as [ev [Hin Hw]].
      destruct ev as [e|e|l| |l]; simpl in Hw; try discriminate.
      - eapply run_events_nonempty_after_error in Hr; eauto.
      - eapply run_events_nonempty_after_scan in Hr; eauto.
      - destruct l; [discriminate|]. eapply run_events_nonempty_after_app in Hr; eauto. discriminate. }
    split; auto.
    apply run_events_bad_count in Hr; auto. subst b. simpl.
    assert (filter is_bad evs = []); [|now rewrite H].
    clear -Hb. induction evs as [|ev r IH]; simpl in *; auto.
    destruct (is_bad ev); simpl in *; [discriminate|auto].
  - (* bailout: errors cannot be empty *)
    exfalso. subst e0.
    assert (exists e, In (EvP e) evs) as [e Hin].
    { clear -Hr. revert Hr. generalize (@nil perr) at 1. generalize 0 at 1.
      induction evs as [|ev r IH]; simpl; intros n l H; [discriminate|].
      destruct ev as [e|e|l0| |l0]; try (apply IH in H as [e' ?]; eauto; fail).
      exists e. now left. }
    eapply run_events_nonempty_after_error in Hr; eauto.
  - exfalso. eapply run_events_no_raise; eauto.
Qed.

(* a sub-parser whose error list is dropped (domainTextLitEx today) breaks exactly this *)
Lemma subparser_drop_counterexample :
  exists evs es, In (EvDrop es) evs /\ es <> [] /\ existsb is_bad evs = true /\
    run_events false evs [] 0 = (Ret tt, [], 1).
Proof. exists [EvDrop [mkErr 1 12 0]; EvBad], [mkErr 1 12 0]. repeat split; simpl; auto. discriminate. Qed.

(* ================================================================== (b) advance *)
Definition slack (ts : list tok) (sp sc : Z) : nat :=
  match ts with
  | [] => 0
  | t :: _ => if Z.ltb sp (t_pos t) then advance_slack
              else if Z.eqb (t_pos t) sp then Z.to_nat (advance_limit - sc) else 0
  end.

Lemma slack_le ts sp sc : (0 <= sc)%Z -> slack ts sp sc <= advance_slack.
Proof.
  intros H. unfold slack, advance_slack. destruct ts as [|t r]; [lia|].
  destruct (Z.ltb sp (t_pos t)); [lia|]. destruct (Z.eqb (t_pos t) sp); lia.
Qed.

(* one call: the stream is a suffix; either it reached EOF, or consumed a token, or returned at
   the same token with strictly less slack *)
Lemma advance_step to ts : forall sp sc ts' sp' sc',
  (0 <= sc)%Z -> advance to ts sp sc = (ts', sp', sc') ->
  (0 <= sc')%Z /\ (exists n, ts' = skipn n ts) /\
  (ts' = [] \/ length ts' < length ts \/ (ts' = ts /\ slack ts' sp' sc' < slack ts sp sc)).
Proof.
  induction ts as [|t r IH]; cbn [advance length]; intros sp sc ts' sp' sc' Hsc H.
  - injection H as <- <- <-. repeat split; auto. now exists 0.
  - assert (Hrec : advance to r sp sc = (ts', sp', sc') ->
      (0 <= sc')%Z /\ (exists n, ts' = skipn n (t :: r)) /\
      (ts' = [] \/ length ts' < S (length r) \/ (ts' = t :: r /\ slack ts' sp' sc' < slack (t :: r) sp sc))).
    { intros Hr. apply IH in Hr as (H0 & [n Hn] & Hc); auto. split; auto. split; [now exists (S n)|].
      destruct Hc as [Hc|[Hc|[Hc _]]]; [now left|right; left; lia|right; left; rewrite Hc; lia]. }
    destruct (in_set to (t_kind t)); [|now apply Hrec].
    destruct (Z.eqb (t_pos t) sp && advance_cnt_ok sc) eqn:E1.
    + injection H as <- <- <-. apply andb_prop in E1 as [Ee Ec]. apply cnt_ok_bound in Ec.
      split; [lia|]. split; [now exists 0|]. right; right. split; auto.
      unfold slack. replace (Z.ltb sp (t_pos t)) with false by lia. rewrite Ee. lia.
    + destruct (advance_pos_progress (t_pos t) sp) eqn:E2; [|now apply Hrec].
      injection H as <- <- <-. apply pos_progress_spec in E2.
      split; [lia|]. split; [now exists 0|]. right; right. split; auto.
      unfold slack, advance_slack. rewrite Z.ltb_irrefl, Z.eqb_refl.
      replace (Z.ltb sp (t_pos t)) with true by lia. pose proof advance_limit_nonneg. lia.
Qed.

Lemma advance_only_consumes to ts sp sc ts' sp' sc' :
  (0 <= sc)%Z -> advance to ts sp sc = (ts', sp', sc') -> (0 <= sc')%Z /\ exists n, ts' = skipn n ts.
Proof. intros H1 H2. destruct (advance_step to ts sp sc ts' sp' sc' H1 H2) as (A & B & _). auto. Qed.

Lemma skipn_length_le {A} n (l : list A) : length (skipn n l) <= length l.
Proof. rewrite skipn_length. lia. Qed.

Lemma advance_len to ts sp sc ts' sp' sc' :
  (0 <= sc)%Z -> advance to ts sp sc = (ts', sp', sc') -> length ts' <= length ts.
Proof. intros Hs H. apply advance_step in H as (_ & [n ->] & _); auto. apply skipn_length_le. Qed.

Lemma run_steps_nil steps : forall sp sc, fst (fst (run_steps steps [] sp sc)) = [].
Proof. induction steps as [|s r IH]; simpl; intros; auto. rewrite skipn_nil. simpl. apply IH. Qed.

Lemma run_steps_len steps : forall ts sp sc, (0 <= sc)%Z -> length (fst (fst (run_steps steps ts sp sc))) <= length ts.
Proof.
  induction steps as [|s r IH]; simpl; intros ts sp sc Hs; auto.
  destruct (advance (s_to s) (skipn (s_drop s) ts) sp sc) as [[ts' sp'] sc'] eqn:Ha.
  pose proof (advance_step _ _ _ _ _ _ _ Hs Ha) as (H0 & _ & _).
  pose proof (advance_len _ _ _ _ _ _ _ Hs Ha). pose proof (skipn_length_le (s_drop s) ts).
  specialize (IH ts' sp' sc' H0). lia.
Qed.

(* advance_progress: among any advance_slack+1 consecutive calls (arbitrary `to` sets, no token
   consumed in between) at least one consumes a token *)
Lemma advance_progress_gen steps : forall ts sp sc,
  (0 <= sc)%Z -> ts <> [] -> Forall (fun s => s_drop s = 0) steps -> slack ts sp sc < length steps ->
  length (fst (fst (run_steps steps ts sp sc))) < length ts.
Proof.
  induction steps as [|s r IH]; simpl; intros ts sp sc Hs Hne Hd Hl; [lia|].
  inversion Hd as [|? ? Hd0 Hdr]; subst. rewrite Hd0. simpl.
  destruct (advance (s_to s) ts sp sc) as [[ts' sp'] sc'] eqn:Ha.
  pose proof (advance_step _ _ _ _ _ _ _ Hs Ha) as (H0 & _ & Hc).
  destruct Hc as [Hc|[Hc|[Hc Hsl]]].
  - subst ts'. rewrite run_steps_nil. destruct ts; [congruence|simpl; lia].
  - pose proof (run_steps_len r ts' sp' sc' H0). lia.
  - subst ts'. apply IH; auto. lia.
Qed.

Lemma advance_progress steps ts sp sc :
  (0 <= sc)%Z -> ts <> [] -> Forall (fun s => s_drop s = 0) steps -> length steps = advance_slack + 1 ->
  length (fst (fst (run_steps steps ts sp sc))) < length ts.
Proof. intros. apply advance_progress_gen; auto. pose proof (slack_le ts sp sc). lia. Qed.

(* the bound is tight: advance_slack calls can all return without consuming *)
Lemma advance_slack_tight :
  exists ts steps, length steps = advance_slack /\ Forall (fun s => s_drop s = 0) steps /\
    fst (fst (run_steps steps ts 0 0)) = ts /\ ts <> [].
Proof.
  exists [mkTok 5 85], (repeat (mkStep 0 sync_stmtStart) advance_slack).
  split; [apply repeat_length|]. split; [apply Forall_forall; intros x Hx; apply repeat_spec in Hx; now subst|].
  split; [vm_compute; reflexivity|discriminate].
Qed.

Definition phi (ts : list tok) (sp sc : Z) : nat := (advance_slack + 1) * length ts + slack ts sp sc.

Lemma step_phi s ts sp sc ts' sp' sc' :
  (0 <= sc)%Z -> advance (s_to s) (skipn (s_drop s) ts) sp sc = (ts', sp', sc') ->
  (0 <= sc')%Z /\ (ts' = [] \/ phi ts' sp' sc' < phi ts sp sc).
Proof.
  intros Hs Ha. pose proof (advance_step _ _ _ _ _ _ _ Hs Ha) as (H0 & _ & Hc). split; auto.
  pose proof (slack_le ts' sp' sc' H0) as S1. pose proof (slack_le ts sp sc Hs) as S2.
  pose proof (skipn_length_le (s_drop s) ts) as Hk.
  destruct Hc as [Hc|[Hc|[Hc Hsl]]]; [now left| |]; right; unfold phi.
  - nia.
  - subst ts'. destruct (Nat.eq_dec (length (skipn (s_drop s) ts)) (length ts)) as [E|E].
    + assert (skipn (s_drop s) ts = ts) as Heq.
      { clear -E. revert E. generalize (s_drop s). intros n. revert ts.
        induction n as [|n IH]; intros ts E; [reflexivity|]. destruct ts as [|a t]; [reflexivity|].
        simpl in E. pose proof (skipn_length_le n t). lia. }
      rewrite Heq in *. lia.
    + nia.
Qed.

(* sync_loop_terminates: any error-recovery loop whose every iteration calls advance once
   (whatever else it consumes, whatever sync sets it uses) reaches EOF within
   sync_fuel |tokens| = (advance_slack+1) * (|tokens|+1) iterations *)
Lemma sync_loop_gen steps : forall ts sp sc,
  (0 <= sc)%Z -> phi ts sp sc <= length steps -> fst (fst (run_steps steps ts sp sc)) = [].
Proof.
  induction steps as [|s r IH]; simpl; intros ts sp sc Hs Hl.
  - destruct ts; auto. unfold phi in Hl. simpl in Hl. lia.
  - destruct (advance (s_to s) (skipn (s_drop s) ts) sp sc) as [[ts' sp'] sc'] eqn:Ha.
    destruct (step_phi _ _ _ _ _ _ _ Hs Ha) as (H0 & [->|Hlt]); [apply run_steps_nil|].
    apply IH; auto. lia.
Qed.

Lemma sync_loop_terminates steps ts sp sc :
  (0 <= sc)%Z -> sync_fuel (length ts) <= length steps -> fst (fst (run_steps steps ts sp sc)) = [].
Proof.
  intros Hs Hl. apply sync_loop_gen; auto. pose proof (slack_le ts sp sc Hs). unfold phi, sync_fuel in *. nia.
Qed.

(* ================================================================== K-gen obligations over Gen/C13Parser.v *)
Import String.
Local Open Scope string_scope.
Definition s2b (s : String.string) : str := map (fun a => N.of_nat (Ascii.nat_of_ascii a)) (String.list_ascii_of_string s).

Definition name_in (n : str) (l : list String.string) : bool := existsb (fun s => str_eqb n (s2b s)) l.

(* sub-parsers that run unprotected inside an outer wrapper and do NOT merge their errors:
   none today (domainTextLitEx was repaired in /repo 44e42ae and now merges them) *)
Definition known_unmerged : list String.string := [].

Definition entry_ok (e : str * (bool * bool * bool * bool * bool * bool * bool) * list str) : bool :=
  let '(name, (exported, inst, recov, sorts, raw, nilfile, merges), _) := e in
  if inst then
    if recov then sorts && (negb raw || name_in name ["ParseExprEx"%string])
    else negb exported && (merges || name_in name known_unmerged)
  else negb recov && negb sorts && negb raw.

Definition find_entry (n : String.string) := find (fun e => str_eqb (fst (fst e)) (s2b n)) entries.

Definition wrappers_present : bool :=
  match find_entry "parseFile", find_entry "ParseExprFrom", find_entry "ParseExprEx" with
  | Some (_, (false, true, true, true, false, true, _), _),
    Some (_, (true, true, true, true, false, false, _), _),
    Some (_, (true, true, true, true, true, false, _), _) => true
  | _, _, _ => false
  end.

Lemma entries_ok : forallb entry_ok entries = true /\ wrappers_present = true.
Proof. split; vm_compute; reflexivity. Qed.

(* every Bad-node construction site has an error witness *)
Lemma bad_sites_ok : forallb (fun s => negb (Z.eqb (snd s) 0)) bad_sites = true /\ bad_sites <> [].
Proof. split; [vm_compute; reflexivity|discriminate]. Qed.

(* the helper / header functions on which classes 2 and 5 rest are the reviewed ones *)
Definition reviewed_bodies : list (String.string * Z) :=
  [("parser.errorExpected", 4409843593578162847); ("parser.parseCallExpr", 4786536729220994690);
   ("parser.parseForPhraseCond", 12198355796714123847); ("parser.parseIfHeader", 16070097371622937857);
   ("parser.toIdent", 4129803464152735299)]%string%Z.
Fixpoint bodies_eqb (a : list (str * Z)) (b : list (String.string * Z)) : bool :=
  match a, b with
  | [], [] => true
  | (n, h) :: a', (n', h') :: b' => str_eqb n (s2b n') && Z.eqb h h' && bodies_eqb a' b'
  | _, _ => false
  end.
Lemma pinned_bodies_ok : bodies_eqb pinned_bodies reviewed_bodies = true.
Proof. vm_compute. reflexivity. Qed.

(* the panic sites are exactly the reviewed ones *)
Definition reviewed_panics : list (String.string * Z) :=
  [("ParseExprEx", 2); ("ParseExprFrom", 2); ("assert", 3); ("packIndexExpr", 4); ("parseFile", 2); ("parseFile", 5);
   ("parser.error", 1); ("parser.parseArrayTypeOrSliceLit", 4)]%string%Z.
Definition panic_name : str := s2b "panic".
Lemma panic_sites_ok :
  bodies_eqb (map (fun s => (fst (fst s), snd s)) panic_sites) reviewed_panics = true /\
  forallb (fun s => str_eqb (snd (fst s)) panic_name) panic_sites = true.
Proof. split; vm_compute; reflexivity. Qed.

(* p.errors is only ever extended (Add / append) and sorted inside the wrapper closures *)
Lemma errors_writes_ok : forallb (fun s => negb (Z.eqb (snd s) 0)) errors_writes = true.
Proof. vm_compute. reflexivity. Qed.

(* the sync sets used by the differential run are the generated ones; sanity: non-empty, no EOF *)
Lemma sync_sets_ok :
  forallb (fun l => negb (in_set l tk_EOF) && (match l with [] => false | _ => true end)) [sync_stmtStart; sync_declStart; sync_exprEnd] = true.
Proof. vm_compute. reflexivity. Qed.

(* ================================================================== (e) header skeleton *)
(* cond == nil (so that a BadExpr is substituted) only after p.error / p.expect reported *)
Lemma header_cond_nil_implies_error t0 t1 t2 :
  fst (header_skeleton t0 t1 t2) = true -> snd (header_skeleton t0 t1 t2) = true.
Proof. destruct t0, t1, t2; vm_compute; auto. Qed.
Lemma header_cond_nil_possible : exists t0 t1 t2, header_skeleton t0 t1 t2 = (true, true).
Proof. exists KOther, KSemi, KStop. reflexivity. Qed.
