(* C28 with RetProcs: matching terminates on productive grammars whatever rewriters (of the modelled
   family) are attached to the rules, including all runtime-error (Dyn) paths. *)
From Coq Require Import List NArith ZArith Bool Arith Lia.
Import ListNotations.
From V Require Import Base.Prelude Base.TplRes Gen.Tokens Model.Tpl Model.TplProd Model.TplRp Proofs.Tpl Proofs.TplTerm.
Local Open Scope nat_scope.

Definition bodies (envp : list (option (m * option rp))) : list (option m) := map (option_map fst) envp.

Section TermRp.
Variable rk : list nat.
Variable nl : list bool.
Variable R W : nat.
Variable envp : list (option (m * option rp)).
Variable toks : list tokn.
Hypothesis Henv : env_ok_from rk nl R W 0 (bodies envp) = true.
Hypothesis Hsafe : envp_safe envp = true.

Notation runp := (runp envp toks).
Notation nullable := (nullable nl).
Notation ok := (ok rk nl R).
Notation okseq := (okseq rk nl R).
Notation T := (length toks).

Lemma envp_lookup v e orp : nth_error envp v = Some (Some (e, orp)) ->
  rank rk v < R /\ ok (rank rk v) e = true /\ (vnull nl v = false -> nullable e = false) /\ msize e < W.
Proof.
  intros H. apply (env_lookup rk nl R W (bodies envp) Henv v e).
  unfold bodies. rewrite nth_error_map, H. reflexivity.
Qed.

(* a rewriter of the family yields an error only for a token result *)
Lemma envp_rp_safe v e p : nth_error envp v = Some (Some (e, Some p)) -> rp_safe p = true.
Proof.
  intros H. unfold envp_safe in Hsafe. rewrite forallb_forall in Hsafe.
  apply (Hsafe (Some (e, Some p))). eapply nth_error_In; eauto.
Qed.

Lemma rp_apply_cases p x y k : rp_safe p = true -> rp_apply toks p x = (y, k) -> k = EOk \/ (exists j, x = RTok j).
Proof.
  destruct p; cbn [rp_apply rp_safe]; intros Hs H; try discriminate; try (injection H as _ <-; auto; fail).
  - destruct (rejects toks lit x) eqn:E; injection H as _ <-; auto. right. destruct x; try discriminate. eauto.
  - destruct (rejects toks lit x) eqn:E; injection H as _ <-; auto. right. destruct x; try discriminate. eauto.
Qed.
Lemma rp_apply_tok p x y : rp_apply toks p x = (y, EOk) -> (exists j, y = RTok j) -> exists j, x = RTok j.
Proof.
  destruct p; cbn [rp_apply]; intros H [j Hj].
  - injection H as <-. eauto.
  - injection H as <-. discriminate.
  - destruct (rejects toks lit x); [discriminate|]. injection H as <-. eauto.
  - destruct (rejects toks lit x); [discriminate|]. injection H as <-. eauto.
  - discriminate.
Qed.

(* ---------- progress ---------- *)
Definition pre (s : rsp) : Prop :=
  match s with
  | PM _ _ => True
  | PCh _ _ i best _ => match best with
                        | Some (nb, kb) => kb <> EOk /\ (kb = EDyn -> 1 <= nb /\ i + nb <= T)
                        | None => True end
  | PSq _ i n _ e | PRp _ i n _ e => e <> EErr /\ (e = EDyn -> 1 <= n /\ i + n <= T)
  end.

Definition progp (s : rsp) (n : nat) (r : res) (k : ek) : Prop :=
  match s with
  | PM g i =>
      (k = EOk -> nullable g = false -> 1 <= n) /\ (k = EDyn -> 1 <= n) /\
      (k <> EErr -> 1 <= n -> i + n <= T) /\ (k = EOk -> (exists j, r = RTok j) -> n = 1)
  | PCh opts _ i _ _ =>
      (k = EOk -> existsb nullable opts = false -> 1 <= n) /\ (k = EDyn -> 1 <= n) /\
      (k <> EErr -> 1 <= n -> i + n <= T) /\ (k = EOk -> (exists j, r = RTok j) -> n = 1)
  | PSq items i n0 _ _ =>
      k <> EErr -> n0 <= n /\ (k = EOk -> forallb nullable items = false -> n0 < n) /\ (k = EDyn -> 1 <= n) /\
                   (n0 < n -> i + n <= T) /\ (exists l, r = RList l)
  | PRp _ i n0 _ _ =>
      k <> EErr /\ n0 <= n /\ (k = EDyn -> 1 <= n) /\ (n0 < n -> i + n <= T) /\ (exists l, r = RList l)
  end.

Lemma nth_lt' {A} (l : list A) i x : nth_error l i = Some x -> i < length l.
Proof. intros H. apply nth_error_Some. congruence. Qed.

Ltac crush := repeat split; intros; repeat (match goal with X : exists _, _ |- _ => destruct X end); subst;
  try discriminate; try congruence; try lia; auto;
  try solve [intuition (subst; try discriminate; try congruence; try lia; eauto)].
Ltac leafp H := injection H as <- <- <-; crush.

Lemma progress_p : forall f s n r k, runp f s = Ok (n, r, k) -> pre s -> progp s n r k.
Proof.
  induction f as [|f IH]; intros s n r k H Hpre; [discriminate|]. cbn [TplRp.runp] in H.
  destruct s as [g i|opts stops i best multi|items i n0 acc e|g i n0 acc e]; cbn [progp pre] in *.
  - destruct g; cbn [TplProd.nullable].
    + leafp H.
    + destruct (nth_error toks i) as [t|]; [|leafp H]. destruct i as [|j]; [leafp H|].
      destruct (nth_error toks j) as [p|]; [|discriminate]. destruct (tok_end p) as [e0| |]; cbn [bind] in H; try discriminate.
      destruct (negb (Z.eqb e0 (tpos t))); leafp H.
    + destruct (nth_error toks i) as [t|] eqn:E; [|leafp H].
      destruct (negb (Z.eqb (ttok t) STRING)); [leafp H|]. destruct (tlit t) as [|c l]; [discriminate|].
      apply nth_lt' in E. destruct (N.eqb c q); leafp H.
    + destruct (nth_error toks i) as [t0|] eqn:E; [|leafp H]. apply nth_lt' in E. destruct (Z.eqb (ttok t0) t); leafp H.
    + destruct (nth_error toks i) as [t0|] eqn:E; [|leafp H]. apply nth_lt' in E. destruct (Z.eqb (ttok t0) t && str_eqb (tlit t0) lit); leafp H.
    + (* MChoice *) apply IH in H; [exact H|exact I].
    + (* MSeq *) apply IH in H; [|split; [discriminate|discriminate]]. cbn [progp] in H.
      repeat split.
      * intros Hk Hn. destruct (H ltac:(congruence)) as (_ & C1 & _). specialize (C1 Hk Hn). lia.
      * intros Hk. destruct (H ltac:(congruence)) as (_ & _ & C2 & _). auto.
      * intros Hk Hn. destruct (H Hk) as (_ & _ & _ & C3 & _). apply C3. lia.
      * intros Hk [j Hj]. destruct (H ltac:(congruence)) as (_ & _ & _ & _ & l & Hl). congruence.
    + (* MRep0 *) apply IH in H; [|split; [discriminate|discriminate]]. cbn [progp] in H. destruct H as (Hk & C0 & C2 & C3 & l & Hl).
      repeat split.
      * discriminate.
      * exact C2.
      * intros _ Hn. apply C3. lia.
      * intros _ [j Hj]. congruence.
    + (* MRep1 *)
      destruct (runp f (PM g i)) as [[[n1 x1] k1]| |] eqn:E; try discriminate.
      pose proof (IH _ _ _ _ E I) as P1. cbn [progp] in P1. destruct P1 as (A1 & A2 & A3 & A4).
      destruct k1.
      * apply IH in H; [|split; [discriminate|discriminate]]. cbn [progp] in H. destruct H as (Hk & C0 & C2 & C3 & l & Hl).
        repeat split.
        -- intros _ Hn. specialize (A1 eq_refl Hn). lia.
        -- exact C2.
        -- intros _ Hn. destruct (Nat.eq_dec n n1) as [->|]; [apply A3; [discriminate|lia]|apply C3; lia].
        -- intros _ [j Hj]. congruence.
      * leafp H.
      * leafp H.
    + (* MRep01 *)
      destruct (runp f (PM g i)) as [[[n1 x1] k1]| |] eqn:E; try discriminate.
      pose proof (IH _ _ _ _ E I) as P1. cbn [progp] in P1. destruct P1 as (A1 & A2 & A3 & A4).
      destruct k1; leafp H.
    + (* MAdj *)
      destruct (runp f (PM g1 i)) as [[[n1 x1] k1]| |] eqn:E; try discriminate.
      pose proof (IH _ _ _ _ E I) as P1. cbn [progp] in P1. destruct P1 as (A1 & A2 & A3 & A4).
      destruct k1; [|leafp H|leafp H].
      destruct (Nat.eqb n1 0) eqn:E0; [leafp H|]. apply Nat.eqb_neq in E0.
      destruct (runp f (PM g2 (i + n1))) as [[[n2 x2] k2]| |] eqn:E2; try discriminate.
      pose proof (IH _ _ _ _ E2 I) as P2. cbn [progp] in P2. destruct P2 as (B1 & B2 & B3 & B4).
      assert (G : forall kb, kb <> EErr -> k2 = kb ->
                (if Nat.eqb n2 0 then failp n1
                 else match nth_error toks (i + n1 - 1), nth_error toks (i + n1) with
                      | Some p, Some q => e <- tok_end p ;; if Z.eqb e (tpos q) then Ok (n1 + n2, RList [x1; x2], kb) else failp n1
                      | _, _ => Panic end) = Ok (n, r, k) ->
                (k = EOk -> false = false -> 1 <= n) /\ (k = EDyn -> 1 <= n) /\ (k <> EErr -> 1 <= n -> i + n <= T) /\
                (k = EOk -> (exists j, r = RTok j) -> n = 1)).
      { intros kb Hkb -> HH. destruct (Nat.eqb n2 0) eqn:E3; [leafp HH|]. apply Nat.eqb_neq in E3.
        destruct (nth_error toks (i + n1 - 1)) as [p|]; [|discriminate]. destruct (nth_error toks (i + n1)) as [q|]; [|discriminate].
        destruct (tok_end p) as [e0| |]; cbn [bind] in HH; try discriminate.
        destruct (Z.eqb e0 (tpos q)); [|leafp HH]. injection HH as <- <- <-.
        specialize (B3 Hkb ltac:(lia)). crush. }
      destruct k2; [apply (G EOk); auto; discriminate|leafp H|apply (G EDyn); auto; discriminate].
    + (* MVar *)
      destruct (nth_error envp v) as [[[e orp]|]|] eqn:E; try (leafp H).
      destruct (runp f (PM e i)) as [[[n1 x1] k1]| |] eqn:E1; try discriminate.
      pose proof (IH _ _ _ _ E1 I) as P1. cbn [progp] in P1. destruct P1 as (A1 & A2 & A3 & A4).
      destruct (envp_lookup v e orp E) as (_ & _ & Hnl & _).
      destruct k1; [|leafp H|leafp H].
      destruct orp as [p|]; [|leafp H].
      destruct (rp_apply toks p x1) as [y k'] eqn:Ep. injection H as <- <- <-.
      destruct (rp_apply_cases _ _ _ _ (envp_rp_safe _ _ _ E) Ep) as [->|Htok].
      * repeat split; intros; try discriminate; auto.
        apply A4; auto. eapply rp_apply_tok; eauto.
      * assert (n1 = 1) as -> by (apply A4; auto).
        repeat split; intros; try lia. apply A3; [discriminate|lia].
  - (* PCh *)
    destruct opts as [|o t].
    + destruct best as [[nb kb]|]; destruct multi; try solve [leafp H]. destruct Hpre as [Hk Hd].
      injection H as <- <- <-. repeat split; intros; try congruence.
      * apply Hd; auto.
      * apply Hd. destruct kb; congruence.
    + destruct (runp f (PM o i)) as [[[n1 x1] k1]| |] eqn:E; try discriminate.
      pose proof (IH _ _ _ _ E I) as P1. cbn [progp] in P1. destruct P1 as (A1 & A2 & A3 & A4).
      assert (Hnext : forall best' multi', pre (PCh t (tl stops) i best' multi') ->
                runp f (PCh t (tl stops) i best' multi') = Ok (n, r, k) ->
                (k = EOk -> existsb nullable (o :: t) = false -> 1 <= n) /\ (k = EDyn -> 1 <= n) /\
                (k <> EErr -> 1 <= n -> i + n <= T) /\ (k = EOk -> (exists j, r = RTok j) -> n = 1)).
      { intros best' multi' Hp HH. apply IH in HH; auto. cbn [progp] in HH. destruct HH as (C1 & C2 & C3 & C4).
        repeat split; auto. intros Hk Hn. cbn [existsb] in Hn. apply orb_false_elim in Hn as [_ Hn]. auto. }
      destruct k1.
      * injection H as <- <- <-. repeat split; intros; try discriminate; auto.
        cbn [existsb] in H0. apply orb_false_elim in H0 as [H0 _]. auto.
      * destruct stops as [|s st]; [discriminate|]. cbn [tl] in Hnext.
        destruct (Nat.ltb 0 n1 && s); [leafp H|].
        destruct best as [[nm km]|].
        -- destruct Hpre as [Hk Hd]. destruct (Nat.ltb nm n1); [|destruct (Nat.eqb n1 nm)];
             (eapply Hnext; [|exact H]); cbn [pre]; try (split; [discriminate|discriminate]); auto.
        -- eapply Hnext; [|exact H]. cbn [pre]. split; discriminate.
      * destruct stops as [|s st]; [discriminate|]. cbn [tl] in Hnext.
        assert (Hd1 : 1 <= n1 /\ i + n1 <= T) by (split; [auto|apply A3; [discriminate|auto]]).
        destruct (Nat.ltb 0 n1 && s); [leafp H|].
        destruct best as [[nm km]|].
        -- destruct Hpre as [Hk Hd]. destruct (Nat.ltb nm n1); [|destruct (Nat.eqb n1 nm)];
             (eapply Hnext; [|exact H]); cbn [pre]; try (split; [discriminate|intros _; exact Hd1]); auto.
        -- eapply Hnext; [|exact H]. cbn [pre]. split; [discriminate|intros _; exact Hd1].
  - (* PSq *)
    destruct Hpre as [He Hd]. destruct items as [|it t].
    + injection H as <- <- <-. intros _. repeat split; intros; try discriminate; try lia; eauto. apply Hd; auto.
    + destruct (runp f (PM it (i + n0))) as [[[n1 x1] k1]| |] eqn:E; try discriminate.
      pose proof (IH _ _ _ _ E I) as P1. cbn [progp] in P1. destruct P1 as (A1 & A2 & A3 & A4).
      assert (G : k1 <> EErr -> runp f (PSq t i (n0 + n1) (x1 :: acc) (join e k1)) = Ok (n, r, k) -> k <> EErr ->
                  n0 <= n /\ (k = EOk -> forallb nullable (it :: t) = false -> n0 < n) /\ (k = EDyn -> 1 <= n) /\
                  (n0 < n -> i + n <= T) /\ (exists l, r = RList l)).
      { intros Hk1 HH Hk.
        assert (Hj : join e k1 <> EErr /\ (join e k1 = EDyn -> 1 <= n0 + n1 /\ i + (n0 + n1) <= T)).
        { split; [destruct e, k1; cbn; congruence|]. intros Hj. destruct k1; cbn [join] in Hj; try congruence.
          - destruct (Hd Hj). split; [lia|]. destruct (Nat.eq_dec n1 0) as [->|]; [lia|].
            assert (i + n0 + n1 <= T) by (apply A3; [discriminate|lia]). lia.
          - specialize (A2 eq_refl). assert (i + n0 + n1 <= T) by (apply A3; [discriminate|lia]). lia. }
        apply IH in HH; [|exact Hj]. cbn [progp] in HH. destruct (HH Hk) as (C0 & C1 & C2 & C3 & C4).
        repeat split; auto; try lia.
        - intros Hk' Hn. cbn [forallb] in Hn. apply andb_false_iff in Hn as [Hn|Hn].
          + destruct k1; try congruence; [specialize (A1 eq_refl Hn); lia|specialize (A2 eq_refl); lia].
          + specialize (C1 Hk' Hn). lia.
        - intros Hn. destruct (Nat.eq_dec n (n0 + n1)) as [->|]; [|apply C3; lia].
          assert (i + n0 + n1 <= T) by (apply A3; [exact Hk1|lia]). lia. }
      destruct k1; [apply G; auto; discriminate|injection H as <- <- <-; congruence|apply G; auto; discriminate].
  - (* PRp *)
    destruct Hpre as [He Hd].
    destruct (runp f (PM g (i + n0))) as [[[n1 x1] k1]| |] eqn:E; try discriminate.
    pose proof (IH _ _ _ _ E I) as P1. cbn [progp] in P1. destruct P1 as (A1 & A2 & A3 & A4).
    assert (G : k1 <> EErr -> runp f (PRp g i (n0 + n1) (x1 :: acc) (join e k1)) = Ok (n, r, k) ->
                k <> EErr /\ n0 <= n /\ (k = EDyn -> 1 <= n) /\ (n0 < n -> i + n <= T) /\ (exists l, r = RList l)).
    { intros Hk1 HH.
      assert (Hj : join e k1 <> EErr /\ (join e k1 = EDyn -> 1 <= n0 + n1 /\ i + (n0 + n1) <= T)).
      { split; [destruct e, k1; cbn; congruence|]. intros Hj. destruct k1; cbn [join] in Hj; try congruence.
        - destruct (Hd Hj). split; [lia|]. destruct (Nat.eq_dec n1 0) as [->|]; [lia|].
          assert (i + n0 + n1 <= T) by (apply A3; [discriminate|lia]). lia.
        - specialize (A2 eq_refl). assert (i + n0 + n1 <= T) by (apply A3; [discriminate|lia]). lia. }
      apply IH in HH; [|exact Hj]. cbn [progp] in HH. destruct HH as (C0 & C1 & C2 & C3 & C4).
      repeat split; auto; try lia. intros Hn. destruct (Nat.eq_dec n (n0 + n1)) as [->|]; [|apply C3; lia].
      assert (i + n0 + n1 <= T) by (apply A3; [exact Hk1|lia]). lia. }
    destruct k1; [apply G; auto; discriminate| |apply G; auto; discriminate].
    injection H as <- <- <-. repeat split; auto; try lia; eauto. intros Hk. apply Hd; auto.
Qed.


(* ---------- the measure (as in Proofs/TplTerm.v) ---------- *)
Definition lw (l : list m) : nat := fold_right (fun x a => S (msize x + a)) 0 l.
Definition K : nat := (R + 1) * W.
Definition mu (b p w : nat) : nat := (T - p) * K + b * W + w.

Definition posp (s : rsp) : nat :=
  match s with PM _ i | PCh _ _ i _ _ => i | PSq _ i n _ _ | PRp _ i n _ _ => i + n end.
Definition wtp (s : rsp) : nat :=
  match s with PM g _ => msize g | PCh opts _ _ _ _ => lw opts | PSq items _ _ _ _ => lw items | PRp r _ _ _ _ => S (msize r) end.
Definition invp (b : nat) (s : rsp) : Prop :=
  match s with
  | PM g _ => ok b g = true
  | PCh opts _ _ _ _ => forallb (ok b) opts = true
  | PSq items _ _ _ _ => okseq b items = true
  | PRp r _ _ _ _ => nullable r = false /\ ok b r = true
  end.

Lemma mu_same b b' p w w' : b' <= b -> w' < w -> mu b' p w' < mu b p w.
Proof. intros. unfold mu. assert (b' * W <= b * W) by (apply Nat.mul_le_mono_r; lia). lia. Qed.
Lemma mu_var b b' p w w' : b' < b -> w' < W -> mu b' p w' < mu b p w.
Proof.
  intros. unfold mu. assert (S b' * W <= b * W) by (apply Nat.mul_le_mono_r; lia).
  cbn [Nat.mul] in H1. lia.
Qed.
Lemma mu_adv b b' p p' w w' : p < p' -> p' <= T -> b' <= R -> w' < W -> mu b' p' w' < mu b p w.
Proof.
  intros. unfold mu, K. set (KK := (R + 1) * W).
  assert (HK : KK = R * W + W) by (unfold KK; rewrite Nat.mul_add_distr_r; lia).
  assert (b' * W <= R * W) by (apply Nat.mul_le_mono_r; lia).
  assert (E : T - p = S (T - p') + (p' - p - 1)) by lia. rewrite E.
  rewrite Nat.mul_add_distr_r, Nat.mul_succ_l. clearbody KK.
  generalize dependent ((T - p') * KK). generalize ((p' - p - 1) * KK). generalize dependent (b' * W). generalize (b * W). generalize dependent (R * W). intros. lia.
Qed.

Lemma tok_end_not_fuel' t : is_fuel (tok_end t) = false.
Proof. unfold tok_end. destruct (tlit t); [destruct (tpl_Len (ttok t))|]; reflexivity. Qed.

Ltac leaft := cbn [bind]; repeat (match goal with
  | |- is_fuel (match ?x with _ => _ end) = false => destruct x; cbn [bind]
  | |- is_fuel (if ?x then _ else _) = false => destruct x
  | |- is_fuel (bind (tok_end ?p) _) = false =>
      let H := fresh in pose proof (tok_end_not_fuel' p) as H; destruct (tok_end p); cbn [bind]; try discriminate H
  end); try reflexivity.

(* a sub-match that did not fail consumed input when its matcher is not nullable — also with a Dyn error *)
Lemma advanced f g i n x k : runp f (PM g i) = Ok (n, x, k) -> k <> EErr -> nullable g = false -> 1 <= n /\ i + n <= T.
Proof.
  intros E Hk Hn. pose proof (progress_p _ _ _ _ _ E I) as (A1 & A2 & A3 & _).
  assert (1 <= n) by (destruct k; [apply A1; auto|congruence|apply A2; auto]). split; auto.
Qed.
Lemma consumed_in f g i n x k : runp f (PM g i) = Ok (n, x, k) -> k <> EErr -> 1 <= n -> i + n <= T.
Proof. intros E Hk Hn. pose proof (progress_p _ _ _ _ _ E I) as (_ & _ & A3 & _). auto. Qed.
Lemma zero_nullable f g i x k : runp f (PM g i) = Ok (0, x, k) -> k <> EErr -> nullable g = true.
Proof.
  intros E Hk. destruct (nullable g) eqn:En; auto. destruct (advanced _ _ _ _ _ _ E Hk En). lia.
Qed.

Lemma terminates_p : forall f s b, b <= R -> invp b s -> wtp s < W -> mu b (posp s) (wtp s) < f ->
  is_fuel (runp f s) = false.
Proof.
  induction f as [|f IH]; intros s b HbR Hinv Hw Hmu; [lia|]. cbn [TplRp.runp].
  destruct s as [g i|opts stops i best multi|items i n0 acc e|g i n0 acc e]; cbn [posp wtp invp] in *.
  - destruct g; cbn [msize] in *.
    + reflexivity.
    + leaft.
    + leaft.
    + leaft.
    + leaft.
    + (* MChoice *)
      apply (IH (PCh opts stops i None true) b); cbn [posp wtp invp]; auto; [fold (lw opts) in Hw; lia|].
      fold (lw opts) in Hmu. pose proof (mu_same b b i (S (lw opts)) (lw opts) ltac:(lia) ltac:(lia)). lia.
    + (* MSeq *)
      apply (IH (PSq items i 0 [] EOk) b); cbn [posp wtp invp]; auto.
      * fold (lw items) in Hw; lia.
      * rewrite Nat.add_0_r. fold (lw items) in Hmu.
        pose proof (mu_same b b i (S (lw items)) (lw items) ltac:(lia) ltac:(lia)). lia.
    + (* MRep0 *)
      cbn [TplProd.ok] in Hinv. apply andb_prop in Hinv as [Hn Ho]. apply negb_true_iff in Hn.
      apply (IH (PRp g i 0 [] EOk) b); cbn [posp wtp invp]; auto; [lia|].
      rewrite Nat.add_0_r. pose proof (mu_same b b i (S (S (msize g))) (S (msize g)) ltac:(lia) ltac:(lia)). lia.
    + (* MRep1 *)
      cbn [TplProd.ok] in Hinv. apply andb_prop in Hinv as [Hn Ho]. apply negb_true_iff in Hn.
      assert (H1 : is_fuel (runp f (PM g i)) = false).
      { apply (IH (PM g i) b); cbn [posp wtp invp]; auto; [lia|].
        pose proof (mu_same b b i (S (S (msize g))) (msize g) ltac:(lia) ltac:(lia)). lia. }
      destruct (runp f (PM g i)) as [[[n1 x1] k1]| |] eqn:E; try reflexivity; try discriminate.
      destruct k1; try reflexivity.
      destruct (advanced _ _ _ _ _ _ E ltac:(discriminate) Hn) as [P1 P2].
      apply (IH (PRp g i n1 [x1] EOk) R); cbn [posp wtp invp]; auto; [split; auto; eapply ok_mono; eauto|lia|].
      pose proof (mu_adv b R i (i + n1) (S (S (msize g))) (S (msize g)) ltac:(lia) P2 ltac:(lia) ltac:(lia)). lia.
    + (* MRep01 *)
      cbn [TplProd.ok] in Hinv.
      assert (H1 : is_fuel (runp f (PM g i)) = false).
      { apply (IH (PM g i) b); cbn [posp wtp invp]; auto; [lia|].
        pose proof (mu_same b b i (S (S (msize g))) (msize g) ltac:(lia) ltac:(lia)). lia. }
      destruct (runp f (PM g i)) as [[[n1 x1] [| |]]| |]; try reflexivity; discriminate.
    + (* MAdj *)
      cbn [TplProd.ok] in Hinv. apply andb_prop in Hinv as [Ha Hc].
      assert (H1 : is_fuel (runp f (PM g1 i)) = false).
      { apply (IH (PM g1 i) b); cbn [posp wtp invp]; auto; [lia|].
        pose proof (mu_same b b i (S (msize g1 + msize g2)) (msize g1) ltac:(lia) ltac:(pose proof (msize_pos g2); lia)). lia. }
      destruct (runp f (PM g1 i)) as [[[n1 x1] k1]| |] eqn:E; try reflexivity; try discriminate.
      destruct k1; try reflexivity.
      destruct (Nat.eqb n1 0) eqn:E0; [reflexivity|]. apply Nat.eqb_neq in E0.
      pose proof (consumed_in _ _ _ _ _ _ E ltac:(discriminate) ltac:(lia)) as P2.
      assert (H2 : is_fuel (runp f (PM g2 (i + n1))) = false).
      { apply (IH (PM g2 (i + n1)) R); cbn [posp wtp invp]; auto; [lia|].
        pose proof (mu_adv b R i (i + n1) (S (msize g1 + msize g2)) (msize g2) ltac:(lia) P2 ltac:(lia) ltac:(lia)). lia. }
      destruct (runp f (PM g2 (i + n1))) as [[[n2 x2] k2]| |]; try reflexivity; try discriminate.
      destruct k2; try reflexivity; leaft.
    + (* MVar *)
      cbn [TplProd.ok] in Hinv. apply Nat.ltb_lt in Hinv.
      destruct (nth_error envp v) as [[[e orp]|]|] eqn:E; try reflexivity.
      destruct (envp_lookup v e orp E) as (Hr & Hok & _ & Hsz).
      assert (H1 : is_fuel (runp f (PM e i)) = false).
      { apply (IH (PM e i) (rank rk v)); cbn [posp wtp invp]; auto; [lia|].
        pose proof (mu_var b (rank rk v) i 1 (msize e) Hinv Hsz). lia. }
      destruct (runp f (PM e i)) as [[[n1 x1] k1]| |]; try reflexivity; try discriminate.
      destruct k1; try reflexivity. destruct orp as [p|]; [|reflexivity]. destruct (rp_apply toks p x1). reflexivity.
  - (* PCh *)
    destruct opts as [|o t].
    { destruct best as [[nb kb]|]; destruct multi; reflexivity. }
    cbn [forallb] in Hinv. apply andb_prop in Hinv as [Ho Ht].
    cbn [lw fold_right] in Hw, Hmu. fold (lw t) in Hw, Hmu.
    assert (H1 : is_fuel (runp f (PM o i)) = false).
    { apply (IH (PM o i) b); cbn [posp wtp invp]; auto; [lia|].
      pose proof (mu_same b b i (S (msize o + lw t)) (msize o) ltac:(lia) ltac:(lia)). lia. }
    assert (Hnext : forall st best' multi', is_fuel (runp f (PCh t st i best' multi')) = false).
    { intros st best' multi'. apply (IH (PCh t st i best' multi') b); cbn [posp wtp invp]; auto; [lia|].
      pose proof (mu_same b b i (S (msize o + lw t)) (lw t) ltac:(lia) ltac:(lia)). lia. }
    destruct (runp f (PM o i)) as [[[n1 x1] k1]| |]; try reflexivity; try discriminate.
    destruct k1; try reflexivity.
    + destruct stops as [|s st]; [reflexivity|]. destruct (Nat.ltb 0 n1 && s); [reflexivity|].
      destruct best as [[nm km]|]; [destruct (Nat.ltb nm n1); [|destruct (Nat.eqb n1 nm)]|]; apply Hnext.
    + destruct stops as [|s st]; [reflexivity|]. destruct (Nat.ltb 0 n1 && s); [reflexivity|].
      destruct best as [[nm km]|]; [destruct (Nat.ltb nm n1); [|destruct (Nat.eqb n1 nm)]|]; apply Hnext.
  - (* PSq *)
    destruct items as [|it t]; [reflexivity|]. cbn [TplProd.okseq] in Hinv. apply andb_prop in Hinv as [Ho Ht].
    cbn [lw fold_right] in Hw, Hmu. fold (lw t) in Hw, Hmu.
    assert (H1 : is_fuel (runp f (PM it (i + n0))) = false).
    { apply (IH (PM it (i + n0)) b); cbn [posp wtp invp]; auto; [lia|].
      pose proof (mu_same b b (i + n0) (S (msize it + lw t)) (msize it) ltac:(lia) ltac:(lia)). lia. }
    destruct (runp f (PM it (i + n0))) as [[[n1 x1] k1]| |] eqn:E; try reflexivity; try discriminate.
    assert (G : k1 <> EErr -> forall e', is_fuel (runp f (PSq t i (n0 + n1) (x1 :: acc) e')) = false).
    { intros Hk1 e'. destruct (Nat.eq_dec n1 0) as [->|Hn1].
      - pose proof (zero_nullable _ _ _ _ _ E Hk1) as Hnl. rewrite Hnl in Ht.
        apply (IH (PSq t i (n0 + 0) (x1 :: acc) e') b); cbn [posp wtp invp]; auto; [lia|].
        rewrite Nat.add_0_r. pose proof (mu_same b b (i + n0) (S (msize it + lw t)) (lw t) ltac:(lia) ltac:(lia)). lia.
      - pose proof (consumed_in _ _ _ _ _ _ E Hk1 ltac:(lia)) as P2.
        apply (IH (PSq t i (n0 + n1) (x1 :: acc) e') R); cbn [posp wtp invp]; auto.
        + destruct (nullable it); [eapply okseq_mono; eauto|exact Ht].
        + lia.
        + pose proof (mu_adv b R (i + n0) (i + (n0 + n1)) (S (msize it + lw t)) (lw t) ltac:(lia) ltac:(lia) ltac:(lia) ltac:(lia)). lia. }
    destruct k1; [apply G; discriminate|reflexivity|apply G; discriminate].
  - (* PRp *)
    destruct Hinv as [Hn Ho].
    assert (H1 : is_fuel (runp f (PM g (i + n0))) = false).
    { apply (IH (PM g (i + n0)) b); cbn [posp wtp invp]; auto; [lia|].
      pose proof (mu_same b b (i + n0) (S (msize g)) (msize g) ltac:(lia) ltac:(lia)). lia. }
    destruct (runp f (PM g (i + n0))) as [[[n1 x1] k1]| |] eqn:E; try reflexivity; try discriminate.
    assert (G : k1 <> EErr -> forall e', is_fuel (runp f (PRp g i (n0 + n1) (x1 :: acc) e')) = false).
    { intros Hk1 e'. destruct (advanced _ _ _ _ _ _ E Hk1 Hn) as [P1 P2].
      apply (IH (PRp g i (n0 + n1) (x1 :: acc) e') R); cbn [posp wtp invp]; auto; [split; auto; eapply ok_mono; eauto|].
      pose proof (mu_adv b R (i + n0) (i + (n0 + n1)) (S (msize g)) (S (msize g)) ltac:(lia) ltac:(lia) ltac:(lia) ltac:(lia)). lia. }
    destruct k1; [apply G; discriminate|reflexivity|apply G; discriminate].
Qed.

End TermRp.

Lemma bodies_attach : forall env rps, bodies (attach env rps) = env.
Proof.
  induction env as [|o t IH]; intros rps; [reflexivity|]. cbn [attach bodies map]. fold (bodies (attach t (tl rps))).
  rewrite IH. destruct o; reflexivity.
Qed.

(* termination with an explicit fuel bound, for every productive grammar, EVERY assignment of rewriters of the
   modelled family to its rules, every input, every start rule *)
Theorem match_terminates_rp rk nl env rps toks doc : productive rk nl env = true ->
  envp_safe (attach env rps) = true ->
  is_fuel (match_doc_rp (attach env rps) toks (fuel_bound rk env toks) doc) = false.
Proof.
  intros Hp Hs. unfold match_doc_rp, productive in *.
  assert (Henv : env_ok_from rk nl (cert_R rk) (cert_W env) 0 (bodies (attach env rps)) = true) by (rewrite bodies_attach; exact Hp).
  apply (terminates_p rk nl (cert_R rk) (cert_W env) (attach env rps) toks Henv Hs _ (PM (MVar doc) 0) (cert_R rk)).
  - lia.
  - cbn [invp TplProd.ok]. apply Nat.ltb_lt. unfold cert_R, rank. pose proof (nth_le_max rk doc). lia.
  - cbn [wtp msize]. unfold cert_W. lia.
  - cbn [posp wtp msize]. unfold mu, K, fuel_bound. rewrite Nat.sub_0_r.
    set (KK := (cert_R rk + 1) * cert_W env).
    assert (HK : KK = cert_R rk * cert_W env + cert_W env) by (unfold KK; rewrite Nat.mul_add_distr_r; lia).
    assert (2 <= cert_W env) by (unfold cert_W; lia).
    rewrite Nat.mul_add_distr_r, Nat.mul_1_l. clearbody KK.
    generalize dependent (length toks * KK). generalize dependent (cert_R rk * cert_W env). intros. lia.
Qed.

(* ---------- the hypothesis on the rewriters is necessary (known finding) ----------
   doc = *(a ++ INT)   a = ?IDENT   with a rewriter on a that always panics with a string, input: one INT.
   The grammar is productive; a matches nothing, its rewriter turns that into a Dyn error with n = 0,
   gAdjoin returns it, and gRepeat0 "keeps going" at the same position for ever. *)
Definition INT := tpl_INT.
Definition env_boom : list (option (m * option rp)) :=
  [Some (MRep0 (MAdj (MVar 1) (MTok INT)), None); Some (MRep01 (MTok tpl_IDENT), Some RpBoom)].
Definition toks_one_int : list tokn := [mkT INT [49%N] 1%Z].

Lemma boom_body_step f : runp env_boom toks_one_int f (PM (MAdj (MVar 1) (MTok INT)) 0) = OutOfFuel \/
                         runp env_boom toks_one_int f (PM (MAdj (MVar 1) (MTok INT)) 0) = Ok (0, RNil, EDyn).
Proof. do 4 (destruct f as [|f]; [left; reflexivity|]). right. reflexivity. Qed.

Lemma boom_loops : forall f acc e, runp env_boom toks_one_int f (PRp (MAdj (MVar 1) (MTok INT)) 0 0 acc e) = OutOfFuel.
Proof.
  induction f as [|f IH]; intros acc e; [reflexivity|]. cbn [TplRp.runp]. change (0 + 0) with 0.
  destruct (boom_body_step f) as [-> | ->]; [reflexivity|]. cbn [join]. apply IH.
Qed.

Lemma boom_diverges : forall f, match_doc_rp env_boom toks_one_int f 0 = OutOfFuel.
Proof.
  intros f. unfold match_doc_rp. destruct f as [|f]; [reflexivity|]. cbn [TplRp.runp nth_error env_boom].
  destruct f as [|f]; [reflexivity|]. cbn [TplRp.runp]. rewrite boom_loops. reflexivity.
Qed.
