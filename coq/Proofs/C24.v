(* Lemmas for C24 (function hoisting only reorders top-level chunks). *)
From Coq Require Import List NArith ZArith Bool Lia Permutation ZifyBool ZifyNat.
Import ListNotations.
From V Require Import Base.Prelude Gen.Tokens Model.C24.
Open Scope Z_scope.

(* ------------------------------------------------------------------ generic list facts *)
Lemma firstn_app_skipn {A} : forall n m (l : list A),
  firstn n l ++ firstn m (skipn n l) = firstn (n + m) l.
Proof. induction n as [|n IH]; intros m l; simpl; auto. destruct l as [|x l]; simpl.
  - now rewrite firstn_nil. - now rewrite IH. Qed.

Lemma skipn_skipn' {A} : forall n m (l : list A), skipn m (skipn n l) = skipn (n + m) l.
Proof. induction n as [|n IH]; intros m l; simpl; auto. destruct l as [|x l]; simpl; auto. now rewrite skipn_nil. Qed.

Lemma Permutation_concat {A} (l l' : list (list A)) : Permutation l l' -> Permutation (concat l) (concat l').
Proof. induction 1; simpl; auto.
  - now apply Permutation_app_head.
  - rewrite !app_assoc. apply Permutation_app_tail. apply Permutation_app_comm.
  - eapply Permutation_trans; eauto. Qed.

Lemma partition_perm {A} (f : A -> bool) (l : list A) :
  Permutation l (filter f l ++ filter (fun x => negb (f x)) l).
Proof. induction l as [|x l IH]; simpl; auto. destruct (f x); simpl.
  - now constructor. - now apply Permutation_cons_app. Qed.

Lemma map_snd_combine {A B} : forall (a : list A) (b : list B), length a = length b -> map snd (combine a b) = b.
Proof. induction a as [|x a IH]; destruct b as [|y b]; simpl; intros H; try discriminate; auto. f_equal. apply IH. lia. Qed.

(* ------------------------------------------------------------------ byte slices *)
Lemma sub_app src a b c : 0 <= a <= b -> b <= c -> sub src a b ++ sub src b c = sub src a c.
Proof. intros H1 H2. unfold sub.
  replace (Z.to_nat b) with (Z.to_nat a + Z.to_nat (b - a))%nat by lia.
  rewrite <- skipn_skipn'. rewrite firstn_app_skipn. f_equal. lia. Qed.

Lemma sub_full src : sub src 0 (zlen src) = src.
Proof. unfold sub, zlen. simpl. rewrite Z.sub_0_r, Nat2Z.id. apply firstn_all. Qed.

Lemma sub_length src a b : 0 <= a <= b -> b <= zlen src -> length (sub src a b) = Z.to_nat (b - a).
Proof. intros H1 H2. unfold sub, zlen in *. rewrite firstn_length, skipn_length. lia. Qed.

Lemma slice_ok src a b : 0 <= a <= b -> b <= zlen src -> slice src a b = Ok (sub src a b).
Proof. intros H1 H2. unfold slice.
  destruct (a <? 0) eqn:E1; [lia|]. destruct (b <? a) eqn:E2; [lia|]. destruct (zlen src <? b) eqn:E3; [lia|].
  reflexivity. Qed.

(* lo <= p1 <= p2 <= ... <= pk <= hi *)
Fixpoint chain (lo : Z) (ps : list Z) (hi : Z) : Prop :=
  match ps with [] => lo <= hi | p :: r => lo <= p /\ chain p r hi end.

Lemma chain_le lo ps hi : chain lo ps hi -> lo <= hi.
Proof. revert lo; induction ps as [|p r IH]; simpl; intros lo H; auto. destruct H as [H1 H2]. apply IH in H2. lia. Qed.

Lemma chain_weaken lo lo' ps hi : chain lo' ps hi -> lo <= lo' -> chain lo ps hi.
Proof. destruct ps; simpl; intros; lia || (split; [lia|tauto]). Qed.

Definition next_or (r : list Z) (n : Z) : Z := match r with q :: _ => q | [] => n end.

Lemma cuts_cons src p r : cuts src (p :: r) = sub src p (next_or r (zlen src)) :: cuts src r.
Proof. reflexivity. Qed.

Lemma cuts_concat src : forall r p, 0 <= p -> chain p r (zlen src) ->
  concat (cuts src (p :: r)) = sub src p (zlen src).
Proof. induction r as [|q r IH]; intros p Hp Hc.
  - simpl. now rewrite app_nil_r.
  - destruct Hc as [Hpq Hc]. rewrite cuts_cons. cbn [concat next_or].
    rewrite IH by (auto; lia). apply sub_app; [lia|]. now apply chain_le in Hc. Qed.

Lemma cuts_length src ps : length (cuts src ps) = length ps.
Proof. induction ps; simpl; auto. Qed.

(* ------------------------------------------------------------------ tiling *)
Lemma tiling_weaken lo lo' n l : tiling_from lo' n l = true -> lo <= lo' -> tiling_from lo n l = true.
Proof. destruct l as [|w r]; simpl; auto. intros H Hl.
  apply andb_prop in H as [H H3]. apply andb_prop in H as [H1 H2]. rewrite H2, H3.
  replace (lo <=? wpos w) with true by lia. reflexivity. Qed.

Lemma tiling_skip n : forall l X lo, tiling_from lo n (l ++ X) = true -> lo <= n ->
  exists lo', lo <= lo' <= n /\ tiling_from lo' n X = true.
Proof. induction l as [|w r IH]; simpl; intros X lo H Hl.
  - exists lo. split; [lia|auto].
  - apply andb_prop in H as [H H3]. apply andb_prop in H as [H1 H2].
    destruct (IH X (wpos w) H3) as [lo' [Hb Ht]]; [lia|]. exists lo'. split; [lia|auto]. Qed.

(* ------------------------------------------------------------------ tokOf, statements *)
Definition stmt_wf (s : stmt) : Prop := (sat s < length (words s))%nat.

Lemma tok_of_loop_bound : forall ws k t i, tok_of_loop ws k = Some (t, i) -> (k <= i < k + length ws)%nat.
Proof. induction ws as [|w r IH]; simpl; intros k t i H; [discriminate|].
  destruct (wtok w =? xgo_COMMENT).
  - apply IH in H. lia. - injection H as <- <-. lia. Qed.

Lemma tok_of_ok ws : ws <> [] -> exists t i, tok_of ws = Ok (t, i) /\ (i < length ws)%nat.
Proof. intros Hne. unfold tok_of. destruct (tok_of_loop ws 0) as [[t i]|] eqn:E.
  - exists t, i. split; auto. apply tok_of_loop_bound in E. lia.
  - destruct ws as [|w r]; [congruence|]. exists (wtok w), 0%nat. split; auto. simpl. lia. Qed.

(* the statements tile a prefix of the token list, each is non-empty with at < len(words) *)
Lemma split_spec : forall toks level cur acc,
  exists new tl, split_stmts toks level cur acc = Ok (rev acc ++ new) /\ Forall stmt_wf new /\
                 concat (map words new) ++ tl = cur ++ toks.
Proof.
  induction toks as [|w rest IH]; intros level cur acc.
  - exists [], cur. simpl. rewrite !app_nil_r. auto.
  - cbn [split_stmts]. destruct (wtok w =? xgo_EOF).
    + exists [], (cur ++ w :: rest). simpl. rewrite app_nil_r. auto.
    + set (level' := if wtok w =? xgo_LBRACE then level + 1 else if wtok w =? xgo_RBRACE then level - 1 else level).
      destruct ((wtok w =? xgo_SEMICOLON) && (level' =? 0)).
      * destruct (tok_of_ok (cur ++ [w])) as (t & i & Ht & Hi); [destruct cur; discriminate|].
        rewrite Ht. cbn [bind fst snd].
        destruct (IH level' [] (mkStmt (cur ++ [w]) t i :: acc)) as (new & tl & H1 & H2 & H3).
        exists (mkStmt (cur ++ [w]) t i :: new), tl. rewrite H1. simpl rev. rewrite <- app_assoc. simpl.
        repeat split; auto.
        rewrite <- !app_assoc. simpl. simpl in H3. now rewrite H3.
      * destruct (IH level' (cur ++ [w]) acc) as (new & tl & H1 & H2 & H3).
        exists new, tl. rewrite H1. repeat split; auto. rewrite H3, <- app_assoc. reflexivity.
Qed.

Lemma stmt_wf_ne s : stmt_wf s -> words s <> [].
Proof. unfold stmt_wf. destruct (words s); simpl; [lia|discriminate]. Qed.

Lemma first_pos_ok s : words s <> [] -> exists w r, words s = w :: r /\ first_pos s = Ok (wpos w).
Proof. unfold first_pos, idx. destruct (words s) as [|w r]; [congruence|]. intros _. exists w, r. split; auto. Qed.

Lemma starts_chain n : forall ss lo tl, Forall stmt_wf ss -> lo <= n ->
  tiling_from lo n (concat (map words ss) ++ tl) = true ->
  exists ps, starts ss = Ok ps /\ chain lo ps n /\ length ps = length ss.
Proof.
  induction ss as [|s r IH]; intros lo tl Hwf Hl Ht.
  - exists []. simpl. auto.
  - inversion Hwf as [|? ? Hs Hr]; subst.
    destruct (first_pos_ok s (stmt_wf_ne _ Hs)) as (w & ws & Ew & Ep).
    simpl in Ht. rewrite Ew in Ht. simpl in Ht.
    apply andb_prop in Ht as [Ht H3]. apply andb_prop in Ht as [H1 H2].
    rewrite <- app_assoc in H3.
    destruct (tiling_skip n ws _ _ H3) as (lo' & Hb & Ht'); [lia|].
    destruct (IH lo' tl Hr) as (ps & Es & Hc & Hlen); [lia|auto|].
    exists (wpos w :: ps). cbn [starts]. rewrite Ep, Es. cbn [bind]. repeat split; simpl; auto; try lia.
    eapply chain_weaken; eauto. lia.
Qed.

(* ------------------------------------------------------------------ the decision functions never panic *)
Lemma start_with_ne ws t : start_with ws t = true -> ws <> [].
Proof. destruct ws; simpl; congruence. Qed.

Lemma is_func_decl_ok ws : exists b, is_func_decl ws = Ok b.
Proof. unfold is_func_decl. generalize (drop_comments ws). clear ws. intros ws. cbv zeta.
  destruct (start_with ws xgo_LPAREN) eqn:E; [|eauto].
  apply start_with_ne in E. destruct ws as [|w r]; [congruence|]. unfold slice_from. simpl.
  destruct (start_with _ xgo_LBRACE); eauto. Qed.

Lemma slice_from_ok {A} (l : list A) i : (i <= length l)%nat -> slice_from l i = Ok (skipn i l).
Proof. intros H. unfold slice_from. destruct (Nat.ltb_spec (length l) i); [lia|reflexivity]. Qed.

Lemma stmt_flag_ok s : stmt_wf s -> exists b, stmt_is_func_decl s = Ok b.
Proof. intros H. unfold stmt_is_func_decl. destruct (stok s =? xgo_FUNC); [|eauto].
  rewrite slice_from_ok by (unfold stmt_wf in H; lia). cbn [bind]. apply is_func_decl_ok. Qed.

Lemma stmt_decl_ok s : stmt_wf s -> exists b, stmt_is_decl s = Ok b /\ (b = false -> stmt_is_func_decl s = Ok false).
Proof. intros H. unfold stmt_is_decl, stmt_is_func_decl.
  destruct ((stok s =? xgo_CONST) || (stok s =? xgo_TYPE) || (stok s =? xgo_VAR)).
  - exists true. split; auto. discriminate.
  - destruct (stok s =? xgo_FUNC); [|exists false; auto].
    rewrite slice_from_ok by (unfold stmt_wf in H; lia). cbn [bind].
    destruct (is_func_decl_ok (skipn (S (sat s)) (words s))) as [b Hb]. exists b. split; auto. intros ->. auto. Qed.

Lemma flags_ok ss : Forall stmt_wf ss -> exists fs, flags ss = Ok fs /\ length fs = length ss.
Proof. induction 1 as [|s r Hs Hr IH]; [exists []; auto|].
  destruct (stmt_flag_ok s Hs) as [b Hb]. destruct IH as (fs & Hf & Hl).
  exists (b :: fs). cbn [flags]. rewrite Hb, Hf. simpl. auto. Qed.

(* firstNonDecl: the index found is in range, that statement is not a function declaration,
   every statement before it is a declaration *)
Lemma first_non_decl_spec : forall ss i, Forall stmt_wf ss ->
  first_non_decl ss i = Ok None /\ Forall (fun s => stmt_is_decl s = Ok true) ss \/
  exists k, first_non_decl ss i = Ok (Some (i + k)%nat) /\ (k < length ss)%nat /\
            Forall (fun s => stmt_is_decl s = Ok true) (firstn k ss) /\
            exists s r, skipn k ss = s :: r /\ stmt_is_decl s = Ok false /\ stmt_is_func_decl s = Ok false.
Proof.
  induction ss as [|s r IH]; intros i Hwf.
  - left. simpl. auto.
  - inversion Hwf as [|? ? Hs Hr]; subst. cbn [first_non_decl].
    destruct (stmt_decl_ok s Hs) as (b & Hb & Hf). rewrite Hb. cbn [bind]. destruct b.
    + destruct (IH (S i) Hr) as [[H1 H2]|(k & H1 & H2 & H3 & H4)].
      * left. split; auto.
      * right. exists (S k). replace (i + S k)%nat with (S i + k)%nat by lia. repeat split; auto.
        -- simpl. lia. -- simpl. constructor; auto.
    + right. exists 0%nat. rewrite Nat.add_0_r. repeat split; simpl; auto; try lia.
      exists s, r. auto.
Qed.

(* ------------------------------------------------------------------ codeOf and the two loops *)
Lemma idx_mid {A} (done : list A) s r : idx (done ++ s :: r) (Z.of_nat (length done)) = Ok s.
Proof. unfold idx. destruct (Z.ltb_spec (Z.of_nat (length done)) 0); [lia|].
  rewrite Nat2Z.id, nth_error_app2, Nat.sub_diag by lia. reflexivity. Qed.

Lemma code_of_mid src done s r p : first_pos s = Ok p ->
  code_of src (length done) (done ++ s :: r) =
  (to <- match r with [] => Ok (zlen src) | s' :: _ => first_pos s' end ;; slice src p to).
Proof.
  intros Hp. unfold code_of. rewrite idx_mid. cbn [bind]. rewrite Hp. cbn [bind].
  destruct r as [|s' r'].
  - replace (Z.of_nat (length done) =? zlen (done ++ [s]) - 1) with true; [reflexivity|].
    unfold zlen. rewrite app_length. cbn [length]. lia.
  - replace (Z.of_nat (length done) =? zlen (done ++ s :: s' :: r') - 1) with false
      by (unfold zlen; rewrite app_length; cbn [length]; lia).
    replace (done ++ s :: s' :: r') with ((done ++ [s]) ++ s' :: r') by (now rewrite <- app_assoc).
    replace (Z.of_nat (length done) + 1) with (Z.of_nat (length (done ++ [s]))) by (rewrite app_length; cbn [length]; lia).
    rewrite idx_mid. reflexivity.
Qed.

Definition sel (want : bool) (c : bool * str) : bool := Bool.eqb (fst c) want.

Lemma emit_spec want src : forall todo done ret lo ps fs,
  starts todo = Ok ps -> flags todo = Ok fs -> chain lo ps (zlen src) -> 0 <= lo ->
  emit want src (done ++ todo) todo (length done) ret =
  Ok (ret ++ concat (map snd (filter (sel want) (combine fs (cuts src ps))))).
Proof.
  induction todo as [|s r IH]; intros done ret lo ps fs Hs Hf Hc Hlo.
  - simpl in Hs, Hf. injection Hs as <-. injection Hf as <-. simpl. now rewrite app_nil_r.
  - cbn [starts flags] in Hs, Hf.
    destruct (first_pos s) as [p| |] eqn:Ep; try discriminate. cbn [bind] in Hs.
    destruct (starts r) as [ps'| |] eqn:Es; try discriminate. cbn [bind] in Hs. injection Hs as <-.
    destruct (stmt_is_func_decl s) as [b| |] eqn:Eb; try discriminate. cbn [bind] in Hf.
    destruct (flags r) as [fs'| |] eqn:Ef; try discriminate. cbn [bind] in Hf. injection Hf as <-.
    destruct Hc as [Hlp Hc].
    cbn [emit]. rewrite Eb. cbn [bind].
    assert (Hnext : match r with [] => Ok (zlen src) | s' :: _ => first_pos s' end = Ok (next_or ps' (zlen src))).
    { destruct r as [|s' r']; simpl in Es.
      - injection Es as <-. reflexivity.
      - destruct (first_pos s') as [q| |]; try discriminate. cbn [bind] in Es.
        destruct (starts r') as [qs| |]; try discriminate. cbn [bind] in Es. injection Es as <-. reflexivity. }
    assert (Hb2 : p <= next_or ps' (zlen src) <= zlen src).
    { destruct ps' as [|q qs]; simpl in *; [lia|]. destruct Hc as [H1 H2]. apply chain_le in H2. lia. }
    replace (done ++ s :: r) with ((done ++ [s]) ++ r) by (now rewrite <- app_assoc).
    assert (Hlen : S (length done) = length (done ++ [s])) by (rewrite app_length; simpl; lia).
    change (cuts src (p :: ps')) with (sub src p (next_or ps' (zlen src)) :: cuts src ps').
    cbn [combine filter]. unfold sel at 1. cbn [fst].
    destruct (Bool.eqb b want).
    + replace ((done ++ [s]) ++ r) with (done ++ s :: r) at 1 by (now rewrite <- app_assoc).
      rewrite (code_of_mid src done s r p Ep), Hnext. cbn [bind]. rewrite slice_ok by lia. cbn [bind].
      rewrite Hlen. rewrite (IH (done ++ [s]) _ p ps' fs') by (auto; lia).
      cbn [map snd concat]. now rewrite <- app_assoc.
    + rewrite Hlen. now rewrite (IH (done ++ [s]) _ p ps' fs') by (auto; lia).
Qed.

Lemma sel_true c : sel true c = fst c.
Proof. unfold sel. destruct (fst c); reflexivity. Qed.
Lemma sel_false c : sel false c = negb (fst c).
Proof. unfold sel. destruct (fst c); reflexivity. Qed.

(* ------------------------------------------------------------------ the main specification *)
Definition funcs (cs : list (bool * str)) : list (bool * str) := filter (fun c => fst c) cs.
Definition others (cs : list (bool * str)) : list (bool * str) := filter (fun c => negb (fst c)) cs.
Definition bytes_of (cs : list (bool * str)) : str := concat (map snd cs).

Lemma idx_skipn {A} (l : list A) k s r : skipn k l = s :: r -> idx l (Z.of_nat k) = Ok s.
Proof. intros H. rewrite <- (firstn_skipn k l), H.
  assert (length (firstn k l) = k).
  { rewrite firstn_length. apply Nat.min_l. destruct (Nat.le_gt_cases k (length l)); auto.
    rewrite skipn_all2 in H by lia. discriminate. }
  rewrite <- H0 at 2. apply idx_mid. Qed.

Lemma main_spec src toks : tiling src toks = true ->
  (top_chunks src toks = Ok None /\ rearrange src toks = Ok src) \/
  exists pre cs, top_chunks src toks = Ok (Some (pre, cs)) /\
    rearrange src toks = Ok (pre ++ bytes_of (funcs cs) ++ bytes_of (others cs)) /\
    src = pre ++ bytes_of cs /\
    exists c cs', cs = (false, c) :: cs'.
Proof.
  intros Ht. unfold tiling in Ht.
  destruct (split_spec toks 0 [] []) as (ss & tl & Hsp & Hwf & Hcat). simpl in Hsp, Hcat.
  unfold top_chunks, rearrange. rewrite Hsp. cbn [bind].
  destruct (first_non_decl_spec ss 0 Hwf) as [[H1 _]|(k & H1 & Hk & _ & s & r & Hsk & _ & Hsf)].
  - left. rewrite H1. cbn [bind]. auto.
  - right. rewrite H1. cbn [bind]. simpl Nat.add.
    assert (Hwf' : Forall stmt_wf (skipn k ss)).
    { rewrite <- (firstn_skipn k ss) in Hwf. apply Forall_app in Hwf. tauto. }
    assert (Ht' : exists lo', 0 <= lo' <= zlen src /\ tiling_from lo' (zlen src) (concat (map words (skipn k ss)) ++ tl) = true).
    { rewrite <- Hcat in Ht. rewrite <- (firstn_skipn k ss) in Ht. rewrite map_app, concat_app, <- app_assoc in Ht.
      apply tiling_skip in Ht; [auto|unfold zlen; lia]. }
    destruct Ht' as (lo' & Hlo & Ht').
    destruct (starts_chain (zlen src) (skipn k ss) lo' tl Hwf') as (ps & Hst & Hch & Hlen); [lia|auto|].
    destruct (flags_ok _ Hwf') as (fs & Hfl & Hfl').
    rewrite Hst, Hfl. cbn [bind].
    rewrite (idx_skipn ss k s r Hsk). cbn [bind].
    rewrite Hsk in Hst, Hfl, Hlen, Hfl'. cbn [starts flags] in Hst, Hfl.
    destruct (first_pos s) as [p| |] eqn:Ep; try discriminate. cbn [bind] in Hst.
    destruct (starts r) as [ps'| |] eqn:Es; try discriminate. cbn [bind] in Hst. injection Hst as <-.
    rewrite Hsf in Hfl. cbn [bind] in Hfl.
    destruct (flags r) as [fs'| |] eqn:Ef; try discriminate. cbn [bind] in Hfl. injection Hfl as <-.
    destruct Hch as [Hlp Hch]. pose proof (chain_le _ _ _ Hch) as Hpn.
    cbn [bind]. rewrite slice_ok by lia. cbn [bind].
    rewrite slice_from_ok by lia. cbn [bind]. rewrite Hsk.
    pose proof (emit_spec true src (s :: r) [] (sub src 0 p) 0 (p :: ps') (false :: fs')) as E1.
    simpl app in E1. simpl length in E1. rewrite E1; clear E1;
      [|cbn [starts]; rewrite Ep, Es; reflexivity|cbn [flags]; rewrite Hsf, Ef; reflexivity|split; [lia|auto]|lia].
    cbn [bind].
    pose proof (emit_spec false src (s :: r) [] (sub src 0 p ++ concat (map snd (filter (sel true) (combine (false :: fs') (cuts src (p :: ps')))))) 0 (p :: ps') (false :: fs')) as E2.
    simpl app in E2. simpl length in E2. rewrite E2; clear E2;
      [|cbn [starts]; rewrite Ep, Es; reflexivity|cbn [flags]; rewrite Hsf, Ef; reflexivity|split; [lia|auto]|lia].
    exists (sub src 0 p), (combine (false :: fs') (cuts src (p :: ps'))).
    split; [reflexivity|]. split; [|split].
    + unfold bytes_of, funcs, others. rewrite <- app_assoc.
      rewrite (filter_ext (sel true) (fun c => fst c) sel_true).
      rewrite (filter_ext (sel false) (fun c => negb (fst c)) sel_false). reflexivity.
    + unfold bytes_of.
      assert (Hm : map snd (combine (false :: fs') (cuts src (p :: ps'))) = cuts src (p :: ps')).
      { apply map_snd_combine. rewrite cuts_length. simpl in *. lia. }
      rewrite Hm, cuts_concat by (auto; lia). rewrite sub_app by lia. now rewrite sub_full.
    + simpl. eauto.
Qed.

(* ------------------------------------------------------------------ consequences *)
Lemma rearrange_no_panic src toks : tiling src toks = true -> exists out, rearrange src toks = Ok out.
Proof. intros H. destruct (main_spec src toks H) as [[_ H1]|(pre & cs & _ & H1 & _)]; eauto. Qed.

Lemma top_chunks_no_panic src toks : tiling src toks = true -> exists r, top_chunks src toks = Ok r.
Proof. intros H. destruct (main_spec src toks H) as [[H1 _]|(pre & cs & H1 & _)]; eauto. Qed.

Lemma rearrange_none src toks : tiling src toks = true -> top_chunks src toks = Ok None -> rearrange src toks = Ok src.
Proof. intros H H0. destruct (main_spec src toks H) as [[_ H1]|(pre & cs & H1 & _)]; auto. congruence. Qed.

Lemma chunks_tile src toks pre cs : tiling src toks = true -> top_chunks src toks = Ok (Some (pre, cs)) ->
  src = pre ++ bytes_of cs.
Proof. intros H H0. destruct (main_spec src toks H) as [[H1 _]|(pre' & cs' & H1 & _ & H2 & _)]; congruence. Qed.

Lemma rearrange_partition src toks pre cs : tiling src toks = true -> top_chunks src toks = Ok (Some (pre, cs)) ->
  rearrange src toks = Ok (pre ++ bytes_of (funcs cs ++ others cs)).
Proof. intros H H0. destruct (main_spec src toks H) as [[H1 _]|(pre' & cs' & H1 & H2 & _)]; [congruence|].
  rewrite H1 in H0. injection H0 as <- <-. rewrite H2. unfold bytes_of. now rewrite map_app, concat_app. Qed.

Lemma first_chunk_not_func src toks pre cs : tiling src toks = true -> top_chunks src toks = Ok (Some (pre, cs)) ->
  exists c cs', cs = (false, c) :: cs'.
Proof. intros H H0. destruct (main_spec src toks H) as [[H1 _]|(pre' & cs' & H1 & _ & _ & H2)]; [congruence|].
  rewrite H1 in H0. injection H0 as <- <-. exact H2. Qed.

Lemma chunk_permutation (cs : list (bool * str)) : Permutation cs (funcs cs ++ others cs).
Proof. apply partition_perm. Qed.

(* stable partition, stated without mentioning filter on the result: out = a ++ b with a all
   functions, b no function, and each class is the corresponding subsequence of the input *)
Lemma stable_partition_unique (cs out : list (bool * str)) :
  (exists a b, out = a ++ b /\ forallb (fun c => fst c) a = true /\ forallb (fun c => negb (fst c)) b = true /\
               a = funcs cs /\ b = others cs) <-> out = funcs cs ++ others cs.
Proof. split.
  - intros (a & b & -> & _ & _ & -> & ->). reflexivity.
  - intros ->. exists (funcs cs), (others cs). repeat split.
    + unfold funcs. induction cs as [|c cs IH]; simpl; auto. destruct (fst c) eqn:E; simpl; auto. now rewrite E.
    + unfold others. induction cs as [|c cs IH]; simpl; auto. destruct (fst c) eqn:E; simpl; auto. now rewrite E.
Qed.

Lemma filter_filter_id {A} (f : A -> bool) l : filter f (filter f l) = filter f l.
Proof. induction l as [|x l IH]; simpl; auto. destruct (f x) eqn:E; simpl; auto. now rewrite E, IH. Qed.
Lemma filter_filter_neg {A} (f : A -> bool) l : filter f (filter (fun x => negb (f x)) l) = [].
Proof. induction l as [|x l IH]; simpl; auto. destruct (f x) eqn:E; simpl; auto. now rewrite E. Qed.
Lemma filter_neg_filter {A} (f : A -> bool) l : filter (fun x => negb (f x)) (filter f l) = [].
Proof. induction l as [|x l IH]; simpl; auto. destruct (f x) eqn:E; simpl; auto. now rewrite E. Qed.
Lemma filter_neg_neg {A} (f : A -> bool) l : filter (fun x => negb (f x)) (filter (fun x => negb (f x)) l) = filter (fun x => negb (f x)) l.
Proof. induction l as [|x l IH]; simpl; auto. destruct (f x) eqn:E; simpl; auto. now rewrite E, IH. Qed.

(* relative order inside each class unchanged *)
Lemma order_kept (cs : list (bool * str)) :
  funcs (funcs cs ++ others cs) = funcs cs /\ others (funcs cs ++ others cs) = others cs.
Proof. unfold funcs, others. rewrite !filter_app.
  rewrite filter_filter_id, filter_filter_neg, filter_neg_filter, filter_neg_neg, app_nil_r. auto. Qed.

(* every function chunk of the result precedes every other chunk: positions i < j with
   out[i] not a function and out[j] a function do not exist *)
Lemma funcs_first (cs : list (bool * str)) : forall l1 c1 l2 c2 l3,
  funcs cs ++ others cs = l1 ++ c1 :: l2 ++ c2 :: l3 -> fst c1 = false -> fst c2 = true -> False.
Proof.
  intros l1 c1 l2 c2 l3 H H1 H2.
  assert (Hf : Forall (fun c => fst c = true) (funcs cs)) by (apply Forall_forall; intros x Hx; apply filter_In in Hx; tauto).
  assert (Ho : Forall (fun c => fst c = false) (others cs)).
  { apply Forall_forall; intros x Hx; apply filter_In in Hx. destruct Hx as [_ Hx]. now apply negb_true_iff in Hx. }
  revert H Hf. generalize (funcs cs). intros a. revert l1.
  induction a as [|x a IH]; intros l1 H Hf.
  - simpl in H. rewrite Forall_forall in Ho. specialize (Ho c2). rewrite Ho in H2; [discriminate|].
    rewrite H. apply in_or_app. right. right. apply in_or_app. right. left. reflexivity.
  - destruct l1 as [|y l1]; simpl in H; injection H as -> H.
    + inversion Hf; subst. congruence.
    + inversion Hf; subst. eapply IH; eauto.
Qed.

Lemma rearrange_bytes src toks out : tiling src toks = true -> rearrange src toks = Ok out ->
  Permutation src out /\ length out = length src.
Proof.
  intros H H0.
  assert (P : Permutation src out).
  { destruct (main_spec src toks H) as [[_ H1]|(pre & cs & _ & H1 & H2 & _)].
    - rewrite H1 in H0. injection H0 as <-. apply Permutation_refl.
    - rewrite H1 in H0. injection H0 as <-. rewrite H2 at 1. apply Permutation_app_head.
      unfold bytes_of. rewrite <- concat_app, <- map_app. apply Permutation_concat, Permutation_map, chunk_permutation. }
  split; auto. symmetry. now apply Permutation_length.
Qed.

(* the untouched prefix ends where the first non-declaration statement starts; every statement
   before it is a declaration (const/type/var or a function declaration); one chunk per remaining statement *)
Lemma prefix_only_decls src toks pre cs : top_chunks src toks = Ok (Some (pre, cs)) ->
  exists ss k s r p, split_stmts toks 0 [] [] = Ok ss /\ skipn k ss = s :: r /\
    Forall (fun d => stmt_is_decl d = Ok true) (firstn k ss) /\ stmt_is_decl s = Ok false /\
    first_pos s = Ok p /\ pre = sub src 0 p /\ length cs = length (s :: r).
Proof.
  intros H. unfold top_chunks in H.
  destruct (split_spec toks 0 [] []) as (ss & tl & Hsp & Hwf & Hcat). simpl in Hsp. rewrite Hsp in H. cbn [bind] in H.
  destruct (first_non_decl_spec ss 0 Hwf) as [[H1 _]|(k & H1 & Hk & Hd & s & r & Hsk & Hnd & Hsf)];
    rewrite H1 in H; cbn [bind] in H; [discriminate|]. simpl Nat.add in H. rewrite Hsk in H.
  cbn [starts flags] in H.
  destruct (first_pos s) as [p| |] eqn:Ep; try discriminate. cbn [bind] in H.
  destruct (starts r) as [ps| |] eqn:Es; try discriminate. cbn [bind] in H.
  rewrite Hsf in H. cbn [bind] in H.
  destruct (flags r) as [fs| |] eqn:Ef; try discriminate. cbn [bind hd] in H. injection H as <- <-.
  exists ss, k, s, r, p. repeat split; auto.
  assert (L1 : forall l ps, starts l = Ok ps -> length ps = length l).
  { induction l as [|a l IH]; simpl; intros q Hq; [injection Hq as <-; auto|].
    destruct (first_pos a); try discriminate. cbn [bind] in Hq. destruct (starts l) eqn:E; try discriminate.
    cbn [bind] in Hq. injection Hq as <-. simpl. f_equal. auto. }
  assert (L2 : forall l fs, flags l = Ok fs -> length fs = length l).
  { induction l as [|a l IH]; simpl; intros q Hq; [injection Hq as <-; auto|].
    destruct (stmt_is_func_decl a); try discriminate. cbn [bind] in Hq. destruct (flags l) eqn:E; try discriminate.
    cbn [bind] in Hq. injection Hq as <-. simpl. f_equal. auto. }
  cbn [length]. rewrite combine_length, cuts_length, (L1 _ _ Es), (L2 _ _ Ef). lia.
Qed.

(* ------------------------------------------------------------------ what a statement is:
   the statements returned by splitStmts tile the token list up to EOF / the last depth-0
   semicolon, every statement ends with a SEMICOLON at brace depth 0 and contains no other *)
Definition depth_after (level : Z) (w : word) : Z :=
  if wtok w =? xgo_LBRACE then level + 1 else if wtok w =? xgo_RBRACE then level - 1 else level.
Fixpoint depth (level : Z) (ws : list word) : Z :=
  match ws with [] => level | w :: r => depth (depth_after level w) r end.
(* w closes a statement when read at brace depth `level` *)
Definition closes (level : Z) (w : word) : bool := (wtok w =? xgo_SEMICOLON) && (depth_after level w =? 0).
(* no word of ws closes a statement when ws is read from depth `level` *)
Fixpoint open_run (level : Z) (ws : list word) : bool :=
  match ws with [] => true | w :: r => negb (closes level w) && open_run (depth_after level w) r end.
Definition no_eof (ws : list word) : bool := forallb (fun w => negb (wtok w =? xgo_EOF)) ws.

(* stmt_shape level s: s = body ++ [semi], body open from `level`, semi closes *)
Definition stmt_shape (level : Z) (s : stmt) : Prop :=
  exists body semi, words s = body ++ [semi] /\ open_run level body = true /\
                    closes (depth level body) semi = true /\ no_eof (words s) = true /\
                    tok_of (words s) = Ok (stok s, sat s).
Fixpoint stmts_shape (ss : list stmt) : Prop :=
  match ss with [] => True | s :: r => stmt_shape 0 s /\ stmts_shape r end.

Lemma depth_app l a b : depth l (a ++ b) = depth (depth l a) b.
Proof. revert l; induction a; simpl; auto. Qed.
Lemma open_run_app l a b : open_run l (a ++ b) = open_run l a && open_run (depth l a) b.
Proof. revert l; induction a as [|w a IH]; simpl; intros; auto. now rewrite IH, andb_assoc. Qed.
Lemma no_eof_app a b : no_eof (a ++ b) = no_eof a && no_eof b.
Proof. apply forallb_app. Qed.

Lemma closes_depth0 l w : closes l w = true -> depth_after l w = 0.
Proof. unfold closes. intros H. apply andb_prop in H as [_ H]. lia. Qed.

Lemma split_shape : forall toks cur acc level0,
  open_run level0 cur = true -> no_eof cur = true ->
  exists new tl, split_stmts toks (depth level0 cur) cur acc = Ok (rev acc ++ new) /\
    match new with [] => True | s :: r => stmt_shape level0 s /\ stmts_shape r end /\
    (* what is left over: an unfinished statement, then EOF or the end of the list *)
    exists unfinished, concat (map words new) ++ unfinished ++ tl = cur ++ toks /\
      no_eof unfinished = true /\
      open_run (match new with [] => level0 | _ => 0 end) (match new with [] => unfinished | _ => unfinished end) = true /\
      match tl with [] => True | w :: _ => wtok w = xgo_EOF end.
Proof.
  induction toks as [|w rest IH]; intros cur acc level0 Hop Hne.
  - exists [], []. simpl. rewrite !app_nil_r. repeat split; auto. exists cur. rewrite !app_nil_r. auto.
  - cbn [split_stmts]. destruct (wtok w =? xgo_EOF) eqn:Ee.
    + exists [], (w :: rest). simpl. rewrite app_nil_r. repeat split; auto. exists cur. repeat split; auto. lia.
    + fold (depth_after (depth level0 cur) w).
      destruct ((wtok w =? xgo_SEMICOLON) && (depth_after (depth level0 cur) w =? 0)) eqn:Ec.
      * destruct (tok_of_ok (cur ++ [w])) as (t & i & Ht & Hi); [destruct cur; discriminate|].
        rewrite Ht. cbn [bind fst snd].
        pose proof (closes_depth0 _ _ Ec) as Hd0. rewrite Hd0.
        destruct (IH [] (mkStmt (cur ++ [w]) t i :: acc) 0) as (new & tl & H1 & H2 & unf & H3 & H4 & H5 & H6); auto.
        simpl depth in H1.
        exists (mkStmt (cur ++ [w]) t i :: new), tl. rewrite H1. simpl rev. rewrite <- app_assoc. simpl.
        split; [reflexivity|]. split.
        -- split.
           ++ exists cur, w. simpl. repeat split; auto. rewrite no_eof_app, Hne. simpl. now rewrite Ee.
           ++ destruct new; simpl; auto.
        -- exists unf. repeat split; auto.
           ++ rewrite <- !app_assoc. simpl. simpl in H3. now rewrite H3.
           ++ destruct new; auto.
      * assert (Hop' : open_run level0 (cur ++ [w]) = true).
        { rewrite open_run_app, Hop. simpl. unfold closes. rewrite Ec. reflexivity. }
        assert (Hne' : no_eof (cur ++ [w]) = true) by (rewrite no_eof_app, Hne; simpl; now rewrite Ee).
        destruct (IH (cur ++ [w]) acc level0 Hop' Hne') as (new & tl & H1 & H2 & unf & H3 & H4 & H5 & H6).
        rewrite depth_app in H1. simpl depth in H1.
        exists new, tl. rewrite H1. repeat split; auto. exists unf. repeat split; auto.
        rewrite H3, <- app_assoc. reflexivity.
Qed.

Lemma split_stmts_shape toks ss : split_stmts toks 0 [] [] = Ok ss ->
  stmts_shape ss /\
  exists unfinished tl, concat (map words ss) ++ unfinished ++ tl = toks /\
    no_eof unfinished = true /\ open_run 0 unfinished = true /\
    match tl with [] => True | w :: _ => wtok w = xgo_EOF end.
Proof.
  intros H. destruct (split_shape toks [] [] 0) as (new & tl & H1 & H2 & unf & H3 & H4 & H5 & H6); auto.
  simpl in H1. rewrite H1 in H. injection H as <-.
  split; [destruct new; simpl; tauto|]. exists unf, tl. repeat split; auto. destruct new; auto.
Qed.

(* ------------------------------------------------------------------ SourceEx *)
Section SourceExProofs.
  Variable Source : str -> bool -> option str.
  Lemma source_ex_spec src class toks : tiling src toks = true ->
    exists r, rearrange src toks = Ok r /\
      source_ex Source src class toks = Ok (match Source src class with Some f => Some f | None => Source r class end).
  Proof. intros H. destruct (rearrange_no_panic src toks H) as [r Hr]. exists r. split; auto.
    unfold source_ex. rewrite Hr. destruct (Source src class); reflexivity. Qed.

  Lemma source_ex_succeeds src class toks r : tiling src toks = true -> rearrange src toks = Ok r ->
    (Source src class <> None \/ Source r class <> None) -> exists f, source_ex Source src class toks = Ok (Some f).
  Proof. intros H Hr Hs. unfold source_ex. rewrite Hr. destruct (Source src class) as [f|]; [eauto|].
    cbn [bind]. destruct (Source r class) as [f|]; [eauto|]. destruct Hs; congruence. Qed.
End SourceExProofs.
