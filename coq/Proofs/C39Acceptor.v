(* C39 — the history acceptor (ocaml/c39_driver.ml) explores every unlogged step: tau_labels is complete *)
From Coq Require Import List NArith ZArith Bool Arith Lia.
Import ListNotations.
From V Require Import Base.ConnView Gen.ConnSites Model.C39 Proofs.C39Base Proofs.C39Measure.

(* the labels the harness logs (API invocations and returns, Reader / Writer / Preempter / Handler events, observations) *)
Definition is_logged (l : label) : bool :=
  match l with
  | LCallBegin _ | LNotifyBegin _ | LRespondBegin _ _ | LCancelBegin _ | LCloseBegin | LWaitBegin
  | LCallRet _ _ | LNotifyRet _ _ | LRespondRet _ _ | LCancelRet _ | LCloseRet _ | LAwait _ _ | LStarted
  | LRwcClose | LOnDone | LReadMsg _ | LReadErr | LWriteCall _ _ | LWriteNotify _ _ | LWriteResp _ _ _
  | LPreemptBegin _ | LPreemptRet _ _ | LHandleBegin _ | LHandleRet _ _ => true
  | _ => false
  end.

Lemma in_seq_lt n k : k < n -> In k (seq 0 n).
Proof. intros H. apply in_seq. lia. Qed.

Ltac bound_idx N :=
  unfold body_step, get_pr in N;
  repeat match type of N with
  | context [nth_error ?l ?c] =>
      let E := fresh "E" in destruct (nth_error l c) eqn:E; [apply nth_error_lt in E | try congruence]
  end.
Ltac pick c :=
  rewrite ?in_app_iff, ?in_flat_map;
  first [ left; simpl; tauto
        | solve [ repeat first [ left; exists c; split; [apply in_seq_lt; assumption | simpl; tauto] | right ];
                  exists c; split; [apply in_seq_lt; assumption | simpl; tauto] ]
        | solve [ repeat first [ left; exists c; split; [apply in_seq_lt; assumption | simpl; tauto] | right ] ] ].

Lemma tau_complete s l : is_logged l = false -> body_step s l <> Disabled -> In l (tau_labels s).
Proof.
  intros L N. unfold tau_labels.
  destruct l; try discriminate L; clear L.
  all: try (destruct t as [| |j]); try (destruct w as [c|n|[| |j]]).
  all: try (simpl; tauto).
  all: bound_idx N.
  all: try (rewrite ?in_app_iff; left; simpl; tauto).
  all: try match goal with E : ?c < length _ |- _ => pick c end.
Qed.

(* every label is either logged by the harness or explored by the closure *)
Lemma logged_or_tau s l : is_logged l = true \/ (body_step s l <> Disabled -> In l (tau_labels s)).
Proof. destruct (is_logged l) eqn:E; [left; reflexivity | right; apply tau_complete; assumption]. Qed.

Lemma writers_complete s t r w : body_step s (LWriteResp t r w) <> Disabled -> In t (resp_writers s).
Proof.
  intros N. unfold resp_writers. destruct t as [| |j]; simpl; auto.
  right; right. apply in_map. unfold body_step, get_pr in N.
  destruct (nth_error (s_resps s) j) eqn:E; [|congruence]. apply in_seq_lt. eapply nth_error_lt; eauto.
Qed.
