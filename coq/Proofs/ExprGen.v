(* K-gen obligations of the expression model: the operand contexts, parenthesisation conditions and constants that
   Model/Expr.v is written against are exactly those regenerated from printer/nodes.go and token/token.go
   (Gen/PrinterExpr.v), and mayCombine separates every operator / prefix-operator pair that would otherwise scan
   as a longer token or a comment (Gen/Tokens.v spelling table).  All by computation on the generated data. *)
From Coq Require Import List ZArith Bool String.
Import ListNotations.
From V Require Import Base.Prelude Gen.Tokens Gen.PrinterExpr Model.Expr.
Open Scope Z_scope.

Lemma prec_constants : px_LowestPrec = LowestPrec /\ px_UnaryPrec = UnaryPrec /\ px_HighestPrec = HighestPrec.
Proof. repeat split; reflexivity. Qed.

(* the reviewed contexts (printer/nodes.go as modelled):
     binaryExpr: X at prec, Y at prec+1, parentheses iff prec < prec1 (body through expr0)
     UnaryExpr:  X at prec (= UnaryPrec), parentheses iff prec < prec1 (body through expr)
     StarExpr:   X through p.expr (LowestPrec!), parentheses iff prec < prec1
     ParenExpr:  X through expr0;  SelectorExpr/IndexExpr/CallExpr: X / Fun at HighestPrec; Index, Args at LowestPrec
     ErrWrapExpr: X and Default through p.expr, no condition on prec1;  LambdaExpr: Rhs through p.expr / exprList, none *)
Open Scope string_scope.
Definition reviewed_operands : list (string * string * string) := [
  ("#possibleSelectorExpr", "x", "selectorExpr");
  ("#possibleSelectorExpr", "expr", "prec1");
  ("BinaryExpr", "x", "binaryExpr");
  ("BinaryExpr#binaryExpr", "x", "expr0");
  ("BinaryExpr#binaryExpr", "x.X", "prec");
  ("BinaryExpr#binaryExpr", "x.Y", "prec + 1");
  ("CallExpr", "x.Fun", "token.HighestPrec");
  ("CallExpr", "x.Fun", "token.HighestPrec");
  ("CallExpr", "x.Args", "exprList");
  ("CallExpr", "x.Args", "exprList");
  ("ErrWrapExpr", "x.X", "expr");
  ("ErrWrapExpr", "x.Default", "expr");
  ("IndexExpr", "x.X", "token.HighestPrec");
  ("IndexExpr", "x.Index", "expr0");
  ("LambdaExpr", "x.Lhs", "identList");
  ("LambdaExpr", "x.Lhs[0]", "expr");
  ("LambdaExpr", "x.Rhs", "exprList");
  ("LambdaExpr", "x.Rhs[0]", "expr");
  ("ParenExpr", "x.X", "expr0");
  ("ParenExpr", "x.X", "expr0");
  ("SelectorExpr", "x", "selectorExpr");
  ("SelectorExpr#selectorExpr", "x.X", "token.HighestPrec");
  ("StarExpr", "x.X", "expr");
  ("StarExpr", "x.X", "expr");
  ("UnaryExpr", "x", "expr");
  ("UnaryExpr", "x.X", "prec")
].
Definition reviewed_paren_conds : list (string * string) := [
  ("BinaryExpr#binaryExpr", "prec < prec1");
  ("StarExpr", "prec < prec1");
  ("UnaryExpr", "prec < prec1")
].
Close Scope string_scope.

Lemma operands_as_modelled : px_operands = reviewed_operands.
Proof. reflexivity. Qed.
Lemma paren_conds_as_modelled : px_paren_conds = reviewed_paren_conds.
Proof. reflexivity. Qed.

(* ---- mayCombine ---- *)
Definition spell (z : Z) : str := match idx xgo_tokens z with Ok s => s | _ => [] end.
Fixpoint is_prefix (a b : str) : bool :=
  match a, b with
  | [], _ => true
  | x :: a', y :: b' => N.eqb x y && is_prefix a' b'
  | _, [] => false
  end.
Definition first_byte (z : Z) : Z := match spell z with b :: _ => Z.of_N b | [] => 0 end.
(* gluing byte b after token t1 makes the scanner read something else: a longer token, or a comment *)
Definition glues (t1 : Z) (b : Z) : bool :=
  existsb (fun z => negb (Z.eqb z t1) && is_prefix (spell t1 ++ [Z.to_N b]) (spell z)) (zrange 0 128) ||
  (Z.eqb t1 xgo_QUO && (Z.eqb b 47 || Z.eqb b 42)).
Definition may_combine (t1 b : Z) : bool :=
  match zassoc t1 px_mayCombine with Some l => existsb (Z.eqb b) l | None => false end.
(* what can stand directly in front of a prefix operator inside an expression: a binary operator, another prefix
   operator, the star; and the prefix operators themselves *)
Definition prefix_ops : list Z := [xgo_ADD; xgo_SUB; xgo_NOT; xgo_XOR; xgo_AND; xgo_ARROW; xgo_MUL].
Definition before_ops : list Z := filter is_binop (zrange 0 128) ++ prefix_ops.

Lemma mayCombine_covers :
  forallb (fun t1 => forallb (fun t2 => implb (glues t1 (first_byte t2)) (may_combine t1 (first_byte t2))) prefix_ops) before_ops = true.
Proof. vm_compute. reflexivity. Qed.
(* the table is not vacuous: "- -x", "a / *p", "a & ^b", "a < <-c" need the blank *)
Lemma mayCombine_examples :
  glues xgo_SUB (first_byte xgo_SUB) = true /\ glues xgo_QUO (first_byte xgo_MUL) = true /\
  glues xgo_AND (first_byte xgo_XOR) = true /\ glues xgo_LSS (first_byte xgo_ARROW) = true /\
  glues xgo_ADD (first_byte xgo_SUB) = false.
Proof. vm_compute. auto. Qed.
