(* K-gen obligations of the expression model: the precedence constants that Model/Expr.v is written against are those
   regenerated from token/token.go (Gen/PrinterExpr.v), and mayCombine separates every operator / prefix-operator pair
   that would otherwise scan as a longer token or a comment (Gen/Tokens.v spelling table).  By computation on the
   generated data. *)
From Coq Require Import List ZArith Bool.
Import ListNotations.
From V Require Import Base.Prelude Gen.Tokens Gen.PrinterExpr Model.Expr.
Open Scope Z_scope.

Lemma prec_constants : px_LowestPrec = LowestPrec /\ px_UnaryPrec = UnaryPrec /\ px_HighestPrec = HighestPrec.
Proof. repeat split; reflexivity. Qed.

(* The operand contexts of expr1 (px_operands) and its parenthesisation conditions (px_paren_conds) are source TEXT:
   they are compared with the reviewed ones by checks/c22.py (evidence keys static_gen_operand_contexts, static_gen_changed), not here, so that a change
   of spelling that keeps the behaviour is decided by the differential run and not by a failed proof. *)

(* ---- mayCombine ---- *)
Definition spell (z : Z) : str := match idx xgo_tokens z with Ok s => s | _ => [] end.
Fixpoint is_prefix (a b : str) : bool :=
  match a, b with
  | [], _ => true
  | x :: a', y :: b' => N.eqb x y && is_prefix a' b'
  | _, [] => false
  end.
Definition first_byte (z : Z) : Z := match spell z with b :: _ => Z.of_N b | [] => 0 end.
(* gluing byte b after token t1 makes the scanner read something else: a longer token, or a comment *)
Definition glues (t1 : Z) (b : Z) : bool :=
  existsb (fun z => negb (Z.eqb z t1) && is_prefix (spell t1 ++ [Z.to_N b]) (spell z)) (zrange 0 128) ||
  (Z.eqb t1 xgo_QUO && (Z.eqb b 47 || Z.eqb b 42)).
Definition may_combine (t1 b : Z) : bool :=
  match zassoc t1 px_mayCombine with Some l => existsb (Z.eqb b) l | None => false end.
(* what can stand directly in front of a prefix operator inside an expression: a binary operator, another prefix
   operator, the star; and the prefix operators themselves *)
Definition prefix_ops : list Z := [xgo_ADD; xgo_SUB; xgo_NOT; xgo_XOR; xgo_AND; xgo_ARROW; xgo_MUL].
Definition before_ops : list Z := filter is_binop (zrange 0 128) ++ prefix_ops.

Lemma mayCombine_covers :
  forallb (fun t1 => forallb (fun t2 => implb (glues t1 (first_byte t2)) (may_combine t1 (first_byte t2))) prefix_ops) before_ops = true.
Proof. vm_compute. reflexivity. Qed.
(* the table is not vacuous: "- -x", "a / *p", "a & ^b", "a < <-c" need the blank *)
Lemma mayCombine_examples :
  glues xgo_SUB (first_byte xgo_SUB) = true /\ glues xgo_QUO (first_byte xgo_MUL) = true /\
  glues xgo_AND (first_byte xgo_XOR) = true /\ glues xgo_LSS (first_byte xgo_ARROW) = true /\
  glues xgo_ADD (first_byte xgo_SUB) = false.
Proof. vm_compute. auto. Qed.
