(* Lemmas for C12 over the MiniScope model (Model/C12.v). *)
From Coq Require Import List NArith Bool Lia Arith.
Import ListNotations.
From V Require Import Model.C12.

Scheme expr_mut := Induction for expr Sort Prop
with exprs_mut := Induction for exprs Sort Prop
with stmt_mut := Induction for stmt Sort Prop
with stmts_mut := Induction for stmts Sort Prop.
Combined Scheme syntax_mutind from expr_mut, exprs_mut, stmt_mut, stmts_mut.

(* ------------------------------------------------------------------ generic list helpers *)

Ltac inapp H :=
  repeat (rewrite in_app_iff in H);
  repeat match type of H with
  | _ \/ _ => destruct H as [H | H]
  end.

Ltac splitin H :=
  match type of H with
  | In _ (_ ++ _) => apply in_app_or in H; destruct H as [H | H]; [splitin H | splitin H]
  | In _ (_ :: _) => destruct H as [H | H]; [| splitin H]
  | In _ [] => destruct H
  | _ => idtac
  end.

Ltac inl := repeat (rewrite in_app_iff); simpl; tauto.

Lemma where_eqb_eq a b : where_eqb a b = true <-> a = b.
Proof.
  destruct a, b; simpl; split; intros H; try congruence; try reflexivity.
  - apply N.eqb_eq in H. congruence.
  - inversion H. apply N.eqb_refl.
Qed.

(* ------------------------------------------------------------------ scopes *)

Lemma lookup_scope_in n s o : lookup_scope n s = Some o -> In o s /\ oname o = n.
Proof.
  induction s as [|a s IH]; simpl; intros H; [discriminate|].
  destruct (N.eqb (oname a) n) eqn:E.
  - inversion H; subst. apply N.eqb_eq in E. auto.
  - apply IH in H. tauto.
Qed.

Lemma lookup_env_in n e o : lookup_env n e = Some o -> exists s, In s e /\ In o s.
Proof.
  induction e as [|s e IH]; simpl; intros H; [discriminate|].
  destruct (lookup_scope n s) eqn:E.
  - inversion H; subst. apply lookup_scope_in in E. exists s. tauto.
  - apply IH in H. destruct H as [s' [H1 H2]]. exists s'. tauto.
Qed.

Lemma cur_scope_insert o e : cur_scope (insert o e) = o :: cur_scope e.
Proof. destruct e; reflexivity. Qed.

(* objects of the current scope after `declare`: old ones, or new ones with the one position w *)
Lemma declare_scope_in names : forall w k b e o,
  In o (cur_scope (declare names w k b e)) ->
  In o (cur_scope e) \/ (exists i, In i names /\ iname i <> 0%N /\ o = Obj (iname i) w k).
Proof.
  induction names as [|i t IH]; simpl; intros w k b e o H; [tauto|].
  apply IH in H. destruct H as [H | [j [Hj1 [Hj2 Hj3]]]].
  - destruct (N.eqb (iname i) 0) eqn:E0; [tauto|].
    assert (Hne : iname i <> 0%N) by (apply N.eqb_neq; exact E0).
    destruct b.
    + destruct (lookup_scope (iname i) (cur_scope e)); [tauto|].
      rewrite cur_scope_insert in H. destruct H as [H | H]; [|tauto].
      right. exists i. subst. auto.
    + rewrite cur_scope_insert in H. destruct H as [H | H]; [|tauto].
      right. exists i. subst. auto.
  - right. exists j. auto.
Qed.

(* lookup after declare: a new object (position w) or the old lookup result *)
Lemma declare_lookup names : forall w k b e n o,
  lookup_scope n (cur_scope (declare names w k b e)) = Some o ->
  opos o = w \/ lookup_scope n (cur_scope e) = Some o.
Proof.
  induction names as [|i t IH]; simpl; intros w k b e n o H; [tauto|].
  apply IH in H. destruct H as [H | H]; [tauto|].
  destruct (N.eqb (iname i) 0); [tauto|].
  destruct b.
  - destruct (lookup_scope (iname i) (cur_scope e)) eqn:E; [tauto|].
    rewrite cur_scope_insert in H. simpl in H.
    destruct (N.eqb (iname i) n); [inversion H; subst; simpl; tauto | tauto].
  - rewrite cur_scope_insert in H. simpl in H.
    destruct (N.eqb (iname i) n); [inversion H; subst; simpl; tauto | tauto].
Qed.

(* with skip_existing = false, a declared non-blank name is found with position w *)
Lemma declare_lookup_new names : forall w k e i o,
  In i names -> iname i <> 0%N ->
  lookup_scope (iname i) (cur_scope (declare names w k false e)) = Some o -> opos o = w.
Proof.
  induction names as [|j t IH]; simpl; intros w k e i o Hin Hne H; [tauto|].
  destruct (in_dec (fun a b : ident => ltac:(decide equality; apply N.eq_dec) : {a = b} + {a <> b}) i t) as [Ht | Ht].
  - eapply IH; eauto.
  - destruct Hin as [-> | Hin]; [|tauto].
    apply declare_lookup in H. destruct H as [H | H]; [exact H|].
    apply N.eqb_neq in Hne. rewrite Hne in H. rewrite cur_scope_insert in H. simpl in H.
    rewrite N.eqb_refl in H. inversion H; subst. reflexivity.
Qed.

Lemma def_names_in names s i o : In (EvDef i o) (def_names names s) ->
  In i names /\ iname i <> 0%N /\ lookup_scope (iname i) s = Some o.
Proof.
  induction names as [|j t IH]; simpl; intros H; [tauto|].
  destruct (N.eqb (iname j) 0) eqn:E0.
  - apply IH in H. tauto.
  - destruct (lookup_scope (iname j) s) eqn:E.
    + destruct H as [H | H].
      * inversion H; subst. apply N.eqb_neq in E0. auto.
      * apply IH in H. tauto.
    + apply IH in H. tauto.
Qed.

Lemma def_names_only_defs names s ev : In ev (def_names names s) -> exists i o, ev = EvDef i o.
Proof.
  induction names as [|j t IH]; simpl; intros H; [tauto|].
  destruct (N.eqb (iname j) 0); [auto|].
  destruct (lookup_scope (iname j) s); [|auto].
  destruct H as [H | H]; [eauto | auto].
Qed.

Lemma def_own_in names k ev : In ev (def_own names k) ->
  exists i, In i names /\ ev = EvDef i (Obj (iname i) (InFile (ipos i)) k).
Proof. unfold def_own. rewrite in_map_iff. intros [i [H1 H2]]. eauto. Qed.

Lemma new_names_in names s i : In i (new_names names s) -> In i names /\ lookup_scope (iname i) s = None.
Proof.
  induction names as [|j t IH]; simpl; intros H; [tauto|].
  destruct (lookup_scope (iname j) s) eqn:E.
  - apply IH in H. tauto.
  - destruct H as [-> | H]; [auto | apply IH in H; tauto].
Qed.

(* Def events of a var/const spec: every recorded object carries the position of the spec *)
Lemma def_names_declare names w k e i o :
  In (EvDef i o) (def_names names (cur_scope (declare names w k false e))) -> In i names /\ opos o = w.
Proof.
  intros H. apply def_names_in in H. destruct H as [H1 [H2 H3]].
  split; [exact H1|]. eapply declare_lookup_new; eauto.
Qed.

(* Def events of `names := ...`: only new names are recorded, each with the statement's position *)
Lemma def_names_define names w k e i o :
  In (EvDef i o) (def_names (new_names names (cur_scope e)) (cur_scope (declare names w k true e))) ->
  In i names /\ opos o = w.
Proof.
  intros H. apply def_names_in in H. destruct H as [H1 [H2 H3]].
  apply new_names_in in H1. destruct H1 as [H1 H4].
  split; [exact H1|].
  apply declare_lookup in H3. destruct H3 as [H3 | H3]; [exact H3 | congruence].
Qed.

Lemma use_ident_in e i ev : In ev (use_ident e i) ->
  (exists o, ev = EvUse i o /\ (lookup_env (iname i) e = Some o \/ o = Obj (iname i) NoPos KBuiltin))
  \/ ev = EvType (InFile (ipos i)).
Proof.
  unfold use_ident. destruct (N.eqb (iname i) 0); [simpl; tauto|].
  destruct (lookup_env (iname i) e) eqn:E.
  - simpl. intros [H | [H | []]]; subst; eauto.
  - destruct (is_universe (iname i)); simpl; [|tauto].
    intros [H | [H | []]]; subst; eauto.
Qed.

Lemma use_idents_in e l ev : In ev (use_idents e l) -> exists i, In i l /\ In ev (use_ident e i).
Proof.
  induction l as [|j t IH]; simpl; intros H; [tauto|].
  apply in_app_or in H. destruct H as [H | H]; [eauto|].
  apply IH in H. destruct H as [i [H1 H2]]. eauto.
Qed.

(* ================================================================== uses refer to objects declared elsewhere *)

(* declaring / using identifier occurrences (a partition of the identifier occurrences) *)
Fixpoint dpos_expr (x : expr) : list pos :=
  match x with
  | ELit _ | EUse _ | ESel _ _ _ => []
  | EBin _ a b => dpos_expr a ++ dpos_expr b
  | ECall _ f args => dpos_expr f ++ dpos_exprs args
  | EFuncLit _ params _ _ _ body => map ipos params ++ dpos_stmts body
  | EComp _ _ elts => dpos_exprs elts
  | EXSlice _ elts => dpos_exprs elts
  | EXMap _ elts => dpos_exprs elts
  end
with dpos_exprs (xs : exprs) : list pos :=
  match xs with ENil => [] | ECons x t => dpos_expr x ++ dpos_exprs t end
with dpos_stmt (s : stmt) : list pos :=
  match s with
  | SVar names _ vals => map ipos names ++ dpos_exprs vals
  | SConst names vals => map ipos names ++ dpos_exprs vals
  | SType n _ => [ipos n]
  | SDefine names vals => map ipos names ++ dpos_exprs vals
  | SAssign lhs rhs => dpos_exprs lhs ++ dpos_exprs rhs
  | SExpr x => dpos_expr x
  | SReturn vals => dpos_exprs vals
  | SBlock _ body => dpos_stmts body
  | SIf _ init cond _ thn els => dpos_stmts init ++ dpos_expr cond ++ dpos_stmts thn ++ dpos_stmts els
  | SFor _ init cond post _ body => dpos_stmts init ++ dpos_exprs cond ++ dpos_stmts post ++ dpos_stmts body
  | SRange _ names x _ body => map ipos names ++ dpos_expr x ++ dpos_stmts body
  end
with dpos_stmts (ss : stmts) : list pos :=
  match ss with SNil => [] | SCons s t => dpos_stmt s ++ dpos_stmts t end.

Fixpoint upos_expr (x : expr) : list pos :=
  match x with
  | ELit _ => []
  | EUse i => [ipos i]
  | ESel _ x sel => [ipos x; ipos sel]
  | EBin _ a b => upos_expr a ++ upos_expr b
  | ECall _ f args => upos_expr f ++ upos_exprs args
  | EFuncLit _ _ ptyp rtyp _ body => map ipos ptyp ++ map ipos rtyp ++ upos_stmts body
  | EComp _ typ elts => map ipos typ ++ upos_exprs elts
  | EXSlice _ elts => upos_exprs elts
  | EXMap _ elts => upos_exprs elts
  end
with upos_exprs (xs : exprs) : list pos :=
  match xs with ENil => [] | ECons x t => upos_expr x ++ upos_exprs t end
with upos_stmt (s : stmt) : list pos :=
  match s with
  | SVar _ typ vals => map ipos typ ++ upos_exprs vals
  | SConst _ vals => upos_exprs vals
  | SType _ under => [ipos under]
  | SDefine _ vals => upos_exprs vals
  | SAssign lhs rhs => upos_exprs lhs ++ upos_exprs rhs
  | SExpr x => upos_expr x
  | SReturn vals => upos_exprs vals
  | SBlock _ body => upos_stmts body
  | SIf _ init cond _ thn els => upos_stmts init ++ upos_expr cond ++ upos_stmts thn ++ upos_stmts els
  | SFor _ init cond post _ body => upos_stmts init ++ upos_exprs cond ++ upos_stmts post ++ upos_stmts body
  | SRange _ _ x _ body => upos_expr x ++ upos_stmts body
  end
with upos_stmts (ss : stmts) : list pos :=
  match ss with SNil => [] | SCons s t => upos_stmt s ++ upos_stmts t end.

Definition dpos_decl (d : decl) : list pos :=
  match d with
  | DStruct n _ fields _ => ipos n :: map ipos fields
  | DImport nm ppos _ => match nm with [] => [ppos] | _ => map ipos nm end
  | DVar names _ vals => map ipos names ++ dpos_exprs vals
  | DConst names vals => map ipos names ++ dpos_exprs vals
  | DType n _ => [ipos n]
  | DFunc _ n params _ results _ _ body => ipos n :: map ipos params ++ map ipos results ++ dpos_stmts body
  end.
Definition upos_decl (d : decl) : list pos :=
  match d with
  | DStruct _ embeds _ ftyp => map ipos (flat_map embed_ids embeds) ++ map ipos ftyp
  | DImport _ _ _ => []
  | DVar _ typ vals => map ipos typ ++ upos_exprs vals
  | DConst _ vals => upos_exprs vals
  | DType _ under => [ipos under]
  | DFunc _ _ _ ptyp _ rtyp _ body => map ipos ptyp ++ map ipos rtyp ++ upos_stmts body
  end.
Definition dpos_prog (p : prog) := flat_map dpos_decl p.
Definition upos_prog (p : prog) := flat_map upos_decl p.

Definition wok (D : pos -> Prop) (w : where_) : Prop := match w with InFile q => D q | _ => True end.
Definition scope_ok (D : pos -> Prop) (s : scope) : Prop := forall o, In o s -> wok D (opos o).
Definition env_ok (D : pos -> Prop) (e : env) : Prop := forall s, In s e -> scope_ok D s.

Lemma env_ok_push D e : env_ok D e -> env_ok D ([] :: e).
Proof. intros H s [<- | Hs]; [intros o []| auto]. Qed.

Lemma env_ok_insert D o e : wok D (opos o) -> env_ok D e -> env_ok D (insert o e).
Proof.
  intros Ho He. destruct e as [|s t]; simpl.
  - intros s' [<- | []]. intros o' [<- | []]. exact Ho.
  - intros s' [<- | Hs'].
    + intros o' [<- | Ho']; [exact Ho|]. apply (He s); simpl; auto.
    + apply He. simpl. auto.
Qed.

Lemma declare_ok (D : pos -> Prop) names : forall w k b e, wok D w -> env_ok D e -> env_ok D (declare names w k b e).
Proof.
  induction names as [|i t IH]; simpl; intros w k b e Hw He; [exact He|].
  apply IH; [exact Hw|].
  destruct (N.eqb (iname i) 0); [exact He|].
  destruct b.
  - destruct (lookup_scope (iname i) (cur_scope e)); [exact He|]. apply env_ok_insert; auto.
  - apply env_ok_insert; auto.
Qed.

Lemma declare_own_ok (D : pos -> Prop) names : forall k e, (forall i, In i names -> D (ipos i)) -> env_ok D e ->
  env_ok D (declare_own names k e).
Proof.
  induction names as [|i t IH]; simpl; intros k e Hn He; [exact He|].
  apply IH; [intros j Hj; apply Hn; auto|].
  destruct (N.eqb (iname i) 0); [exact He|]. apply env_ok_insert; [simpl; apply Hn; auto | exact He].
Qed.

Lemma first_pos_ok (D : pos -> Prop) names : (forall q, In q (map ipos names) -> D q) -> wok D (first_pos names).
Proof. destruct names as [|i t]; simpl; auto. Qed.

Lemma lookup_env_ok D e n o : env_ok D e -> lookup_env n e = Some o -> wok D (opos o).
Proof. intros He H. apply lookup_env_in in H. destruct H as [s [H1 H2]]. exact (He s H1 o H2). Qed.

Lemma use_ident_use D e i j o : env_ok D e -> In (EvUse j o) (use_ident e i) -> j = i /\ wok D (opos o).
Proof.
  intros He H. apply use_ident_in in H. destruct H as [[o' [H1 H2]] | H]; [|discriminate].
  inversion H1; subst. split; [reflexivity|].
  destruct H2 as [H2 | ->]; [eapply lookup_env_ok; eauto | exact I].
Qed.

Lemma use_idents_use D e l j o : env_ok D e -> In (EvUse j o) (use_idents e l) -> In (ipos j) (map ipos l) /\ wok D (opos o).
Proof.
  intros He H. apply use_idents_in in H. destruct H as [i [H1 H2]].
  eapply use_ident_use in H2; eauto. destruct H2 as [-> H2]. split; [apply in_map; exact H1 | exact H2].
Qed.

Lemma def_names_no_use names s j o : ~ In (EvUse j o) (def_names names s).
Proof. intros H. apply def_names_only_defs in H. destruct H as [i [o' H]]. discriminate. Qed.

Lemma def_own_no_use names k j o : ~ In (EvUse j o) (def_own names k).
Proof. intros H. apply def_own_in in H. destruct H as [i [_ H]]. discriminate. Qed.

Definition use_spec (D : pos -> Prop) (U : list pos) (evs : list event) : Prop :=
  forall j o, In (EvUse j o) evs -> In (ipos j) U /\ wok D (opos o).

Lemma use_spec_app D U1 U2 a b : use_spec D U1 a -> use_spec D U2 b -> use_spec D (U1 ++ U2) (a ++ b).
Proof.
  intros Ha Hb j o H. apply in_app_or in H. destruct H as [H | H].
  - apply Ha in H. rewrite in_app_iff. tauto.
  - apply Hb in H. rewrite in_app_iff. tauto.
Qed.

Lemma use_spec_incl D U U' a : use_spec D U a -> incl U U' -> use_spec D U' a.
Proof. intros Ha Hi j o H. apply Ha in H. destruct H. split; auto. Qed.

Lemma use_spec_nil D U : use_spec D U [].
Proof. intros j o []. Qed.

Lemma use_spec_nouse D U evs : (forall j o, ~ In (EvUse j o) evs) -> use_spec D U evs.
Proof. intros H j o Hin. exfalso. eapply H; eauto. Qed.

Lemma use_spec_cons D U ev evs : (forall j o, ev <> EvUse j o) -> use_spec D U evs -> use_spec D U (ev :: evs).
Proof. intros Hn H j o [Hin | Hin]; [exfalso; eapply Hn; eauto | auto]. Qed.

Lemma use_spec_use_ident D e i : env_ok D e -> use_spec D [ipos i] (use_ident e i).
Proof. intros He j o H. eapply use_ident_use in H; eauto. destruct H as [-> H]. simpl. auto. Qed.

Lemma use_spec_use_idents D e l : env_ok D e -> use_spec D (map ipos l) (use_idents e l).
Proof. intros He j o H. eapply use_idents_use; eauto. Qed.

Ltac dsub H := intros q Hq; apply H; simpl; repeat (rewrite in_app_iff); simpl; tauto.

Lemma uses_syntax :
  (forall x (D : pos -> Prop) e, (forall q, In q (dpos_expr x) -> D q) -> env_ok D e -> use_spec D (upos_expr x) (r_expr e x)) /\
  (forall xs (D : pos -> Prop) e, (forall q, In q (dpos_exprs xs) -> D q) -> env_ok D e -> use_spec D (upos_exprs xs) (r_exprs e xs)) /\
  (forall s (D : pos -> Prop) e, (forall q, In q (dpos_stmt s) -> D q) -> env_ok D e ->
     env_ok D (fst (r_stmt e s)) /\ use_spec D (upos_stmt s) (snd (r_stmt e s))) /\
  (forall ss (D : pos -> Prop) e, (forall q, In q (dpos_stmts ss) -> D q) -> env_ok D e ->
     env_ok D (fst (r_stmts e ss)) /\ use_spec D (upos_stmts ss) (snd (r_stmts e ss))).
Proof.
  apply syntax_mutind.
  - (* ELit *) intros p D e _ _ j o H. simpl in H. destruct H as [H | []]. discriminate.
  - (* EUse *) intros i D e _ He. simpl. apply use_spec_use_ident. exact He.
  - (* EBin *) intros p a IHa b IHb D e Hd He. simpl in *.
    apply use_spec_app; [apply IHa; [dsub Hd | exact He]|].
    replace (upos_expr b) with (upos_expr b ++ []) by apply app_nil_r.
    apply use_spec_app; [apply IHb; [dsub Hd | exact He]|].
    intros j o [H | []]. discriminate.
  - (* ECall *) intros p f IHf args IHa D e Hd He. simpl in *.
    apply use_spec_app; [apply IHf; [dsub Hd | exact He]|].
    replace (upos_exprs args) with (upos_exprs args ++ []) by apply app_nil_r.
    apply use_spec_app; [apply IHa; [dsub Hd | exact He]|].
    intros j o [H | []]. discriminate.
  - (* ESel *) intros p x sel D e _ He j o H. simpl in *.
    destruct (lookup_env (iname x) e) eqn:E; [|destruct H].
    destruct H as [H | [H | [H | []]]]; try discriminate.
    + inversion H; subst. split; [auto|]. eapply lookup_env_ok; eauto.
    + inversion H; subst. simpl. auto.
  - (* EFuncLit *) intros p params ptyp rtyp bp body IHb D e Hd He. simpl in *.
    apply use_spec_app; [apply use_spec_use_idents; exact He|].
    apply use_spec_app; [apply use_spec_use_idents; exact He|].
    replace (upos_stmts body) with ([] ++ upos_stmts body) by reflexivity.
    apply use_spec_app; [apply use_spec_nouse; apply def_own_no_use|].
    apply use_spec_cons; [intros; discriminate|]. apply use_spec_cons; [intros; discriminate|].
    apply IHb; [dsub Hd|].
    apply declare_own_ok; [intros i Hi; apply Hd; rewrite in_app_iff; left; apply in_map; exact Hi|].
    apply env_ok_push. exact He.
  - (* EComp *) intros p typ elts IHe D e Hd He. simpl in *.
    apply use_spec_app; [apply use_spec_use_idents; exact He|].
    replace (upos_exprs elts) with (upos_exprs elts ++ []) by apply app_nil_r.
    apply use_spec_app; [apply IHe; [dsub Hd | exact He]|].
    intros j o H. apply in_app_or in H. destruct H as [H | H].
    + destruct typ; simpl in H; [destruct H | destruct H as [H | []]; discriminate].
    + destruct H as [H | []]; discriminate.
  - (* EXSlice *) intros p elts IHe D e Hd He. simpl in *.
    replace (upos_exprs elts) with (upos_exprs elts ++ []) by apply app_nil_r.
    apply use_spec_app; [apply IHe; [dsub Hd | exact He]|].
    intros j o [H | []]; discriminate.
  - (* EXMap *) intros p elts IHe D e Hd He. simpl in *.
    replace (upos_exprs elts) with (upos_exprs elts ++ []) by apply app_nil_r.
    apply use_spec_app; [apply IHe; [dsub Hd | exact He]|].
    intros j o [H | []]; discriminate.
  - (* ENil *) intros D e _ _. apply use_spec_nil.
  - (* ECons *) intros x IHx t IHt D e Hd He. simpl in *.
    apply use_spec_app; [apply IHx | apply IHt]; auto; dsub Hd.
  - (* SVar *) intros names typ vals IHv D e Hd He. simpl in *.
    assert (He' : env_ok D (declare names (first_pos names) KVar false e)).
    { apply declare_ok; [|exact He]. apply first_pos_ok. dsub Hd. }
    split; [exact He'|].
    apply use_spec_app; [apply use_spec_use_idents; exact He|].
    replace (upos_exprs vals) with (upos_exprs vals ++ []) by apply app_nil_r.
    apply use_spec_app; [|apply use_spec_nouse; apply def_names_no_use].
    destruct typ; apply IHv; auto; dsub Hd.
  - (* SConst *) intros names vals IHv D e Hd He. simpl in *.
    split; [apply declare_ok; [apply first_pos_ok; dsub Hd | exact He]|].
    replace (upos_exprs vals) with (upos_exprs vals ++ []) by apply app_nil_r.
    apply use_spec_app; [|apply use_spec_nouse; apply def_names_no_use].
    apply IHv; auto; dsub Hd.
  - (* SType *) intros n under D e Hd He. cbn [r_stmt fst snd upos_stmt].
    split; [apply declare_ok; [exact I | exact He]|].
    apply use_spec_use_ident. exact He.
  - (* SDefine *) intros names vals IHv D e Hd He. simpl in *.
    split; [apply declare_ok; [apply first_pos_ok; dsub Hd | exact He]|].
    replace (upos_exprs vals) with (upos_exprs vals ++ []) by apply app_nil_r.
    apply use_spec_app; [|apply use_spec_nouse; apply def_names_no_use].
    apply IHv; auto; dsub Hd.
  - (* SAssign *) intros lhs IHl rhs IHr D e Hd He. simpl in *.
    split; [exact He|]. apply use_spec_app; [apply IHl | apply IHr]; auto; dsub Hd.
  - (* SExpr *) intros x IHx D e Hd He. simpl in *. split; [exact He|]. apply IHx; auto.
  - (* SReturn *) intros vals IHv D e Hd He. simpl in *. split; [exact He|]. apply IHv; auto.
  - (* SBlock *) intros p body IHb D e Hd He. simpl in *. split; [exact He|].
    replace (upos_stmts body) with (upos_stmts body ++ []) by apply app_nil_r.
    apply use_spec_app; [|intros j o [H | []]; discriminate].
    apply IHb; [exact Hd | apply env_ok_push; exact He].
  - (* SIf *) intros p init IHi cond IHc bp thn IHt els IHe D e Hd He. simpl in *.
    destruct (IHi D ([] :: e)) as [He1 Hu1]; [dsub Hd | apply env_ok_push; exact He|].
    destruct (r_stmts ([] :: e) init) as [e1 ev1] eqn:E1. simpl in *.
    split; [exact He|].
    apply use_spec_app; [exact Hu1|].
    apply use_spec_app; [apply IHc; [dsub Hd | exact He1]|].
    apply use_spec_cons; [intros; discriminate|].
    apply use_spec_app; [apply IHt; [dsub Hd | apply env_ok_push; exact He1]|].
    replace (upos_stmts els) with (upos_stmts els ++ []) by apply app_nil_r.
    apply use_spec_app; [apply IHe; [dsub Hd | apply env_ok_push; exact He1]|].
    intros j o [H | []]; discriminate.
  - (* SFor *) intros p init IHi cond IHc post IHp bp body IHb D e Hd He. simpl in *.
    destruct (IHi D ([] :: e)) as [He1 Hu1]; [dsub Hd | apply env_ok_push; exact He|].
    destruct (r_stmts ([] :: e) init) as [e1 ev1] eqn:E1. simpl in *.
    split; [exact He|].
    apply (use_spec_incl D (upos_stmts init ++ upos_exprs cond ++ upos_stmts body ++ upos_stmts post)).
    + apply use_spec_cons; [intros; discriminate|].
      apply use_spec_app; [exact Hu1|].
      apply use_spec_app; [apply IHc; [dsub Hd | exact He1]|].
      apply use_spec_cons; [intros; discriminate|].
      apply use_spec_app; [apply IHb; [dsub Hd | apply env_ok_push; exact He1]|].
      apply IHp; [dsub Hd | exact He1].
    + intros q Hq. repeat (rewrite in_app_iff in Hq). repeat (rewrite in_app_iff). tauto.
  - (* SRange *) intros p names x IHx bp body IHb D e Hd He. simpl in *.
    split; [exact He|].
    apply use_spec_app; [apply IHx; [dsub Hd | exact He]|].
    replace (upos_stmts body) with ([] ++ upos_stmts body) by reflexivity.
    apply use_spec_app; [apply use_spec_nouse; apply def_names_no_use|].
    apply use_spec_cons; [intros; discriminate|].
    replace (upos_stmts body) with (upos_stmts body ++ []) by apply app_nil_r.
    apply use_spec_app; [|intros j o [H | []]; discriminate].
    apply IHb; [dsub Hd|]. apply env_ok_push. apply declare_ok; [exact I|]. apply env_ok_push. exact He.
  - (* SNil *) intros D e _ He. simpl. split; [exact He | apply use_spec_nil].
  - (* SCons *) intros s IHs t IHt D e Hd He. simpl in *.
    destruct (IHs D e) as [He1 Hu1]; [dsub Hd | exact He|].
    destruct (r_stmt e s) as [e1 ev1] eqn:E1. simpl in *.
    destruct (IHt D e1) as [He2 Hu2]; [dsub Hd | exact He1|].
    destruct (r_stmts e1 t) as [e2 ev2] eqn:E2. simpl in *.
    split; [exact He2|]. apply use_spec_app; assumption.
Qed.

Lemma pkg_env_ok (D : pos -> Prop) l : (forall q, In q (flat_map dpos_decl l) -> D q) -> env_ok D (fold_right pkg_decl [[]] l).
Proof.
  induction l as [|d l IH]; intros Hd.
  - simpl. intros s [<- | []]. intros o [].
  - assert (IH' : env_ok D (fold_right pkg_decl [[]] l)).
    { apply IH. intros q Hq. apply Hd. simpl. rewrite in_app_iff. tauto. }
    assert (Hd' : forall q, In q (dpos_decl d) -> D q).
    { intros q Hq. apply Hd. simpl. rewrite in_app_iff. tauto. }
    cbn [fold_right]. destruct d as [sn sembeds sfields sftyp | nm ppos pn | names typ vals | names vals | n under | fp n params ptyp results rtyp bp body];
      cbn [pkg_decl].
    + apply declare_own_ok; [intros i [<- | []]; apply Hd'; simpl; auto | exact IH'].
    + destruct nm as [|i t].
      * apply env_ok_insert; [simpl; apply Hd'; simpl; auto | exact IH'].
      * destruct (N.eqb (iname i) 0); [exact IH'|].
        apply env_ok_insert; [simpl; apply Hd'; simpl; auto | exact IH'].
    + apply declare_ok; [apply first_pos_ok; intros q Hq; apply Hd'; simpl; rewrite in_app_iff; tauto | exact IH'].
    + apply declare_ok; [apply first_pos_ok; intros q Hq; apply Hd'; simpl; rewrite in_app_iff; tauto | exact IH'].
    + apply declare_own_ok; [intros i [<- | []]; apply Hd'; simpl; auto | exact IH'].
    + apply declare_own_ok; [intros i [<- | []]; apply Hd'; simpl; auto | exact IH'].
Qed.

Lemma uses_decl (D : pos -> Prop) e d : (forall q, In q (dpos_decl d) -> D q) -> env_ok D e ->
  use_spec D (upos_decl d) (r_decl e d).
Proof.
  destruct uses_syntax as [_ [Hxs [_ Hss]]].
  intros Hd He. destruct d as [sn sembeds sfields sftyp | nm ppos pn | names typ vals | names vals | n under | fp n params ptyp results rtyp bp body];
    cbn [r_decl upos_decl dpos_decl] in *.
  - replace (map ipos (flat_map embed_ids sembeds) ++ map ipos sftyp)
      with ([] ++ map ipos (flat_map embed_ids sembeds) ++ [] ++ map ipos sftyp) by reflexivity.
    apply use_spec_app; [apply use_spec_nouse; apply def_own_no_use|].
    apply use_spec_app; [|apply use_spec_app; [apply use_spec_nouse; apply def_own_no_use | apply use_spec_use_idents; exact He]].
    clear Hd. induction sembeds as [|em t IH]; [apply use_spec_nil|].
    cbn [flat_map map]. rewrite map_app. apply use_spec_app; [|exact IH].
    unfold r_embed, embed_ids.
    replace (map ipos (equal em ++ [etyp em])) with (map ipos (equal em ++ [etyp em]) ++ []) by apply app_nil_r.
    apply use_spec_app; [|apply use_spec_nouse; apply def_own_no_use].
    destruct (equal em) as [|q qs].
    + simpl. apply use_spec_use_ident. exact He.
    + destruct (lookup_env (iname q) e) as [o|] eqn:El; [|apply use_spec_nil].
      intros j o' [H | [H | []]]; inversion H; subst.
      * split; [simpl; auto | eapply lookup_env_ok; eauto].
      * split; [rewrite map_app; apply in_or_app; right; simpl; auto | exact I].
  - apply use_spec_nouse. apply def_own_no_use.
  - apply use_spec_app; [apply use_spec_use_idents; exact He|].
    replace (upos_exprs vals) with (upos_exprs vals ++ []) by apply app_nil_r.
    apply use_spec_app; [apply Hxs; [dsub Hd | exact He] | apply use_spec_nouse; apply def_names_no_use].
  - replace (upos_exprs vals) with (upos_exprs vals ++ []) by apply app_nil_r.
    apply use_spec_app; [apply Hxs; [dsub Hd | exact He] | apply use_spec_nouse; apply def_names_no_use].
  - replace [ipos under] with ([ipos under] ++ []) by reflexivity.
    apply use_spec_app; [apply use_spec_use_ident; exact He | apply use_spec_nouse; apply def_own_no_use].
  - replace (map ipos ptyp ++ map ipos rtyp ++ upos_stmts body)
      with ([] ++ map ipos ptyp ++ map ipos rtyp ++ [] ++ [] ++ upos_stmts body) by reflexivity.
    apply use_spec_app; [apply use_spec_nouse; apply def_own_no_use|].
    apply use_spec_app; [apply use_spec_use_idents; exact He|].
    apply use_spec_app; [apply use_spec_use_idents; exact He|].
    apply use_spec_app; [apply use_spec_nouse; apply def_own_no_use|].
    apply use_spec_app; [apply use_spec_nouse; apply def_own_no_use|].
    apply use_spec_cons; [intros; discriminate|].
    apply Hss; [dsub Hd|].
    apply declare_own_ok; [intros i Hi; apply Hd; right; rewrite !in_app_iff; right; left; apply in_map; exact Hi|].
    apply declare_own_ok; [intros i Hi; apply Hd; right; rewrite !in_app_iff; left; apply in_map; exact Hi|].
    apply env_ok_push. exact He.
Qed.

Lemma uses_run p : use_spec (fun q => In q (dpos_prog p)) (upos_prog p) (run p).
Proof.
  unfold run. apply use_spec_cons; [intros; discriminate|].
  set (D := fun q => In q (dpos_prog p)).
  assert (He : env_ok D (pkg_env p)) by (apply pkg_env_ok; intros q Hq; exact Hq).
  assert (G : forall l, incl l p -> use_spec D (flat_map upos_decl l) (flat_map (r_decl (pkg_env p)) l)).
  { induction l as [|d l IH]; intros Hl; [apply use_spec_nil|].
    cbn [flat_map]. apply use_spec_app.
    - apply uses_decl; [|exact He]. intros q Hq. unfold D, dpos_prog. apply in_flat_map. exists d. split; [apply Hl; simpl; auto | exact Hq].
    - apply IH. intros z Hz. apply Hl. simpl. auto. }
  apply G. apply incl_refl.
Qed.

(* counting: every identifier occurrence is either declaring or using *)
Definition cnt (q : pos) (l : list pos) : nat := count_occ N.eq_dec l q.

Lemma cnt_app q a b : cnt q (a ++ b) = cnt q a + cnt q b.
Proof. unfold cnt. apply count_occ_app. Qed.

Ltac cnt_solve := repeat (rewrite ?map_app, ?cnt_app); lia.

Lemma cnt_syntax q :
  (forall x, cnt q (map ipos (ids_expr x)) = cnt q (dpos_expr x) + cnt q (upos_expr x)) /\
  (forall xs, cnt q (map ipos (ids_exprs xs)) = cnt q (dpos_exprs xs) + cnt q (upos_exprs xs)) /\
  (forall s, cnt q (map ipos (ids_stmt s)) = cnt q (dpos_stmt s) + cnt q (upos_stmt s)) /\
  (forall ss, cnt q (map ipos (ids_stmts ss)) = cnt q (dpos_stmts ss) + cnt q (upos_stmts ss)).
Proof.
  apply syntax_mutind; intros; cbn [ids_expr ids_exprs ids_stmt ids_stmts dpos_expr dpos_exprs dpos_stmt dpos_stmts
    upos_expr upos_exprs upos_stmt upos_stmts]; try (cbn [map]; reflexivity); try cnt_solve.
  - (* SType *) change (map ipos [n; under]) with ([ipos n] ++ [ipos under]). rewrite cnt_app. lia.
Qed.

Definition imp_ppos_decl (d : decl) : list pos := match d with DImport [] ppos _ => [ppos] | _ => [] end.

Lemma cnt_decl q d : cnt q (imp_ppos_decl d) + cnt q (map ipos (ids_decl d)) = cnt q (dpos_decl d) + cnt q (upos_decl d).
Proof.
  destruct (cnt_syntax q) as [_ [Hxs [_ Hss]]].
  destruct d as [sn sembeds sfields sftyp | nm ppos pn | names typ vals | names vals | n under | fp n params ptyp results rtyp bp body];
    cbn [imp_ppos_decl ids_decl dpos_decl upos_decl].
  - change (sn :: flat_map embed_ids sembeds ++ sfields ++ sftyp) with ([sn] ++ flat_map embed_ids sembeds ++ sfields ++ sftyp).
    change (ipos sn :: map ipos sfields) with ([ipos sn] ++ map ipos sfields).
    rewrite ?map_app, ?cnt_app. unfold cnt at 1. simpl. lia.
  - destruct nm; cbn [map]; unfold cnt; simpl; lia.
  - rewrite ?map_app, ?cnt_app, Hxs. unfold cnt at 1. simpl. lia.
  - rewrite ?map_app, ?cnt_app, Hxs. unfold cnt at 1. simpl. lia.
  - change (map ipos [n; under]) with ([ipos n] ++ [ipos under]). rewrite cnt_app. unfold cnt at 1. simpl. lia.
  - change (n :: params ++ ptyp ++ results ++ rtyp ++ ids_stmts body) with ([n] ++ params ++ ptyp ++ results ++ rtyp ++ ids_stmts body).
    change (ipos n :: map ipos params ++ map ipos results ++ dpos_stmts body) with ([ipos n] ++ map ipos params ++ map ipos results ++ dpos_stmts body).
    rewrite ?map_app, ?cnt_app, Hss. unfold cnt at 1. simpl. lia.
Qed.

Lemma cnt_prog q p : cnt q (imp_ppos p ++ map ipos (ids_prog p)) = cnt q (dpos_prog p) + cnt q (upos_prog p).
Proof.
  rewrite cnt_app. unfold imp_ppos, ids_prog, dpos_prog, upos_prog.
  induction p as [|d p IH]; [reflexivity|].
  cbn [flat_map]. rewrite ?map_app, ?cnt_app.
  pose proof (cnt_decl q d) as Hd. unfold imp_ppos_decl in Hd.
  lia.
Qed.

Lemma cnt_in q l : In q l -> cnt q l >= 1.
Proof. intros H. unfold cnt. apply (count_occ_In N.eq_dec) in H. lia. Qed.

Lemma wf_disjoint p : wf_pos p -> forall q, In q (dpos_prog p) -> In q (upos_prog p) -> False.
Proof.
  unfold wf_pos. intros Hnd q Hd Hu.
  apply (NoDup_count_occ N.eq_dec) with (x := q) in Hnd.
  pose proof (cnt_prog q p) as Hc. unfold cnt in Hc at 1.
  apply cnt_in in Hd. apply cnt_in in Hu. lia.
Qed.

(* C12: every recorded use refers to an object whose position is not the identifier's own *)
Theorem uses_elsewhere p : wf_pos p ->
  forall i o, In (EvUse i o) (run p) -> opos o <> InFile (ipos i).
Proof.
  intros Hwf i o H. apply uses_run in H. destruct H as [Hu Hw].
  intros Heq. rewrite Heq in Hw. simpl in Hw. eapply wf_disjoint; eauto.
Qed.

Corollary uses_elsewhere_b p : wf_pos p -> forallb use_ok (run p) = true.
Proof.
  intros Hwf. apply forallb_forall. intros ev Hev. destruct ev as [i o | i o | w | q]; simpl; try reflexivity.
  apply negb_true_iff. destruct (where_eqb (opos o) (InFile (ipos i))) eqn:E; [|reflexivity].
  apply where_eqb_eq in E. exfalso. eapply uses_elsewhere; eauto.
Qed.

(* ================================================================== which Defs carry the identifier's own position *)

Definition def_spec (NF : list (pos * pos)) (RG : list pos) (evs : list event) : Prop :=
  forall i o, In (EvDef i o) evs -> def_char NF RG i o.

Lemma def_char_incl NF RG NF' RG' i o : incl NF NF' -> incl RG RG' -> def_char NF RG i o -> def_char NF' RG' i o.
Proof.
  intros H1 H2 [H | [[q [Ha Hb]] | [Ha Hb]]]; [left; exact H | right; left; exists q; auto | right; right; auto].
Qed.

Lemma def_spec_incl NF RG NF' RG' evs : def_spec NF RG evs -> incl NF NF' -> incl RG RG' -> def_spec NF' RG' evs.
Proof. intros H H1 H2 i o Hin. eapply def_char_incl; eauto. Qed.

Lemma def_spec_app NF RG a b : def_spec NF RG a -> def_spec NF RG b -> def_spec NF RG (a ++ b).
Proof. intros Ha Hb i o H. apply in_app_or in H. destruct H; auto. Qed.

Lemma def_spec_cons NF RG ev evs : (forall i o, ev <> EvDef i o) -> def_spec NF RG evs -> def_spec NF RG (ev :: evs).
Proof. intros Hn H i o [Hin | Hin]; [exfalso; eapply Hn; eauto | auto]. Qed.

Lemma def_spec_nil NF RG : def_spec NF RG [].
Proof. intros i o []. Qed.

Lemma def_spec_use_ident NF RG e i : def_spec NF RG (use_ident e i).
Proof.
  intros j o H. apply use_ident_in in H. destruct H as [[o' [H _]] | H]; discriminate.
Qed.

Lemma def_spec_use_idents NF RG e l : def_spec NF RG (use_idents e l).
Proof.
  intros j o H. apply use_idents_in in H. destruct H as [i [_ H]]. eapply def_spec_use_ident; eauto.
Qed.

Lemma def_spec_own NF RG names k : def_spec NF RG (def_own names k).
Proof.
  intros j o H. apply def_own_in in H. destruct H as [i [_ H]]. inversion H; subst. left. reflexivity.
Qed.

Lemma first_or_pair names RG i o : In i names -> opos o = first_pos names -> def_char (pairs_of names) RG i o.
Proof.
  destruct names as [|h t]; [intros []|]. intros [-> | Hin] Ho; simpl in Ho.
  - left. exact Ho.
  - right. left. exists (ipos h). split; [|exact Ho].
    simpl. apply in_map_iff. exists i. auto.
Qed.

Lemma def_spec_var names k e RG :
  def_spec (pairs_of names) RG (def_names names (cur_scope (declare names (first_pos names) k false e))).
Proof. intros i o H. apply def_names_declare in H. destruct H. apply first_or_pair; auto. Qed.

Lemma def_spec_define names k e RG :
  def_spec (pairs_of names) RG
    (def_names (new_names names (cur_scope e)) (cur_scope (declare names (first_pos names) k true e))).
Proof. intros i o H. apply def_names_define in H. destruct H. apply first_or_pair; auto. Qed.

Lemma def_spec_range names e NF :
  def_spec NF (map ipos names) (def_names names (cur_scope (declare names NoPos KVar false e))).
Proof.
  intros i o H. apply def_names_declare in H. destruct H as [H1 H2].
  right. right. split; [apply in_map; exact H1 | exact H2].
Qed.

Ltac isolve := let z := fresh "z" in let Hz := fresh "Hz" in
  intros z Hz; simpl in Hz; simpl; repeat (rewrite in_app_iff in Hz); repeat (rewrite in_app_iff); simpl in Hz; simpl; tauto.
Ltac sub_ IH := eapply def_spec_incl; [apply IH | isolve | isolve].
Ltac nodef := intros; discriminate.

Lemma defs_syntax :
  (forall x e, def_spec (nfp_expr x) (rg_expr x) (r_expr e x)) /\
  (forall xs e, def_spec (nfp_exprs xs) (rg_exprs xs) (r_exprs e xs)) /\
  (forall s e, def_spec (nfp_stmt s) (rg_stmt s) (snd (r_stmt e s))) /\
  (forall ss e, def_spec (nfp_stmts ss) (rg_stmts ss) (snd (r_stmts e ss))).
Proof.
  apply syntax_mutind.
  - intros p e. cbn [r_expr]. apply def_spec_cons; [nodef | apply def_spec_nil].
  - intros i e. cbn [r_expr]. apply def_spec_use_ident.
  - intros p a IHa b IHb e. cbn [r_expr nfp_expr rg_expr].
    apply def_spec_app; [sub_ IHa|]. apply def_spec_app; [sub_ IHb|]. apply def_spec_cons; [nodef | apply def_spec_nil].
  - intros p f IHf args IHa e. cbn [r_expr nfp_expr rg_expr].
    apply def_spec_app; [sub_ IHf|]. apply def_spec_app; [sub_ IHa|]. apply def_spec_cons; [nodef | apply def_spec_nil].
  - intros p x sel e. cbn [r_expr]. destruct (lookup_env (iname x) e); [|apply def_spec_nil].
    repeat (apply def_spec_cons; [nodef|]). apply def_spec_nil.
  - intros p params ptyp rtyp bp body IHb e. cbn [r_expr nfp_expr rg_expr].
    apply def_spec_app; [apply def_spec_use_idents|]. apply def_spec_app; [apply def_spec_use_idents|].
    apply def_spec_app; [apply def_spec_own|].
    cbn [app]. repeat (apply def_spec_cons; [nodef|]). apply IHb.
  - intros p typ elts IHe e. cbn [r_expr nfp_expr rg_expr].
    apply def_spec_app; [apply def_spec_use_idents|]. apply def_spec_app; [apply IHe|].
    apply def_spec_app; [destruct typ; simpl; [apply def_spec_nil | apply def_spec_cons; [nodef | apply def_spec_nil]]|].
    repeat (apply def_spec_cons; [nodef|]). apply def_spec_nil.
  - intros p elts IHe e. cbn [r_expr nfp_expr rg_expr].
    apply def_spec_app; [apply IHe|]. repeat (apply def_spec_cons; [nodef|]). apply def_spec_nil.
  - intros p elts IHe e. cbn [r_expr nfp_expr rg_expr].
    apply def_spec_app; [apply IHe|]. repeat (apply def_spec_cons; [nodef|]). apply def_spec_nil.
  - intros e. apply def_spec_nil.
  - intros x IHx t IHt e. cbn [r_exprs nfp_exprs rg_exprs]. apply def_spec_app; [sub_ IHx | sub_ IHt].
  - (* SVar *) intros names typ vals IHv e. cbn [r_stmt snd nfp_stmt rg_stmt].
    apply def_spec_app; [apply def_spec_use_idents|].
    apply def_spec_app; [sub_ IHv|].
    eapply def_spec_incl; [apply def_spec_var | isolve | apply incl_refl].
  - (* SConst *) intros names vals IHv e. cbn [r_stmt snd nfp_stmt rg_stmt].
    apply def_spec_app; [sub_ IHv|].
    eapply def_spec_incl; [apply def_spec_var | isolve | apply incl_refl].
  - (* SType *) intros n under e. cbn [r_stmt snd]. apply def_spec_use_ident.
  - (* SDefine *) intros names vals IHv e. cbn [r_stmt snd nfp_stmt rg_stmt].
    apply def_spec_app; [sub_ IHv|].
    eapply def_spec_incl; [apply def_spec_define | isolve | apply incl_refl].
  - intros lhs IHl rhs IHr e. cbn [r_stmt snd nfp_stmt rg_stmt]. apply def_spec_app; [sub_ IHl | sub_ IHr].
  - intros x IHx e. cbn [r_stmt snd]. apply IHx.
  - intros vals IHv e. cbn [r_stmt snd]. apply IHv.
  - intros p body IHb e. cbn [r_stmt snd nfp_stmt rg_stmt].
    apply def_spec_app; [apply IHb|]. apply def_spec_cons; [nodef | apply def_spec_nil].
  - (* SIf *) intros p init IHi cond IHc bp thn IHt els IHe e. cbn [r_stmt nfp_stmt rg_stmt].
    pose proof (IHi ([] :: e)) as Hi. destruct (r_stmts ([] :: e) init) as [e1 ev1]. cbn [snd] in *.
    apply def_spec_app; [sub_ Hi|]. apply def_spec_app; [sub_ IHc|].
    cbn [app]. apply def_spec_cons; [nodef|].
    apply def_spec_app; [sub_ IHt|]. apply def_spec_app; [sub_ IHe|].
    apply def_spec_cons; [nodef | apply def_spec_nil].
  - (* SFor *) intros p init IHi cond IHc post IHp bp body IHb e. cbn [r_stmt nfp_stmt rg_stmt].
    pose proof (IHi ([] :: e)) as Hi. destruct (r_stmts ([] :: e) init) as [e1 ev1]. cbn [snd app] in *.
    apply def_spec_cons; [nodef|].
    apply def_spec_app; [sub_ Hi|]. apply def_spec_app; [sub_ IHc|].
    apply def_spec_cons; [nodef|].
    apply def_spec_app; [sub_ IHb | sub_ IHp].
  - (* SRange *) intros p names x IHx bp body IHb e. cbn [r_stmt snd nfp_stmt rg_stmt].
    apply def_spec_app; [sub_ IHx|].
    apply def_spec_app; [eapply def_spec_incl; [apply def_spec_range | apply incl_refl | isolve]|].
    cbn [app]. apply def_spec_cons; [nodef|].
    apply def_spec_app; [sub_ IHb|]. apply def_spec_cons; [nodef | apply def_spec_nil].
  - intros e. apply def_spec_nil.
  - intros s IHs t IHt e. cbn [r_stmts nfp_stmts rg_stmts].
    pose proof (IHs e) as Hs. destruct (r_stmt e s) as [e1 ev1].
    pose proof (IHt e1) as Ht. destruct (r_stmts e1 t) as [e2 ev2]. cbn [snd] in *.
    apply def_spec_app; [sub_ Hs | sub_ Ht].
Qed.

Lemma declare_own_scope_in names : forall k e o,
  In o (cur_scope (declare_own names k e)) ->
  In o (cur_scope e) \/ (exists i, In i names /\ iname i <> 0%N /\ o = Obj (iname i) (InFile (ipos i)) k).
Proof.
  induction names as [|i t IH]; simpl; intros k e o H; [tauto|].
  apply IH in H. destruct H as [H | [j [Hj1 [Hj2 Hj3]]]].
  - destruct (N.eqb (iname i) 0) eqn:E0; [tauto|].
    rewrite cur_scope_insert in H. destruct H as [H | H]; [|tauto].
    right. exists i. apply N.eqb_neq in E0. subst. auto.
  - right. exists j. auto.
Qed.

Lemma in_objs_of names w k i : In i names -> iname i <> 0%N -> In (Obj (iname i) w k) (objs_of names w k).
Proof.
  intros Hin Hne. unfold objs_of. apply in_flat_map. exists i. split; [exact Hin|].
  apply N.eqb_neq in Hne. rewrite Hne. simpl. auto.
Qed.

Lemma pkg_scope_in l o : In o (cur_scope (fold_right pkg_decl [[]] l)) -> In o (flat_map pkg_objs l).
Proof.
  induction l as [|d l IH]; [simpl; tauto|].
  cbn [fold_right flat_map]. intros H. apply in_or_app.
  destruct d as [sn sembeds sfields sftyp | nm ppos pn | names typ vals | names vals | n under | fp n params ptyp results rtyp bp body];
    cbn [pkg_decl pkg_objs] in *.
  - apply declare_own_scope_in in H. destruct H as [H | [i [H1 [H2 ->]]]]; [right; auto|].
    left. destruct H1 as [<- | []]. apply in_objs_of; simpl; auto.
  - destruct nm as [|i t].
    + rewrite cur_scope_insert in H. destruct H as [H | H]; [left; simpl; auto | right; auto].
    + unfold objs_of. simpl. destruct (N.eqb (iname i) 0); [right; auto|].
      rewrite cur_scope_insert in H. destruct H as [H | H]; [left; simpl; auto | right; auto].
  - apply declare_scope_in in H. destruct H as [H | [i [H1 [H2 ->]]]]; [right; auto | left; apply in_objs_of; auto].
  - apply declare_scope_in in H. destruct H as [H | [i [H1 [H2 ->]]]]; [right; auto | left; apply in_objs_of; auto].
  - apply declare_own_scope_in in H. destruct H as [H | [i [H1 [H2 ->]]]]; [right; auto|].
    left. destruct H1 as [<- | []]. apply in_objs_of; simpl; auto.
  - apply declare_own_scope_in in H. destruct H as [H | [i [H1 [H2 ->]]]]; [right; auto|].
    left. destruct H1 as [<- | []]. apply in_objs_of; simpl; auto.
Qed.

Lemma nodup_map_inj {A B} (f : A -> B) l a b : NoDup (map f l) -> In a l -> In b l -> f a = f b -> a = b.
Proof.
  induction l as [|x l IH]; simpl; intros Hnd Ha Hb Hf; [tauto|].
  inversion Hnd as [|? ? Hnin Hnd']; subst.
  destruct Ha as [-> | Ha], Hb as [-> | Hb]; auto.
  - exfalso. apply Hnin. rewrite Hf. apply in_map. exact Hb.
  - exfalso. apply Hnin. rewrite <- Hf. apply in_map. exact Ha.
Qed.

(* package level: the object found for a name of a var/const spec is the one of that spec *)
Lemma def_names_pkg p names w k i o :
  pkg_names_distinct p ->
  (exists d, In d p /\ forall j, In j names -> iname j <> 0%N -> In (Obj (iname j) w k) (pkg_objs d)) ->
  In (EvDef i o) (def_names names (cur_scope (pkg_env p))) -> In i names /\ opos o = w.
Proof.
  intros Hnd [d [Hd Hobjs]] H. apply def_names_in in H. destruct H as [H1 [H2 H3]].
  split; [exact H1|].
  apply lookup_scope_in in H3. destruct H3 as [H3 H4].
  apply pkg_scope_in in H3.
  assert (H5 : In (Obj (iname i) w k) (flat_map pkg_objs p)).
  { apply in_flat_map. exists d. auto. }
  assert (o = Obj (iname i) w k) as ->; [|reflexivity].
  eapply nodup_map_inj; eauto.
Qed.

Lemma defs_decl p d : pkg_names_distinct p -> In d p -> def_spec (nfp_decl d) (rg_decl d) (r_decl (pkg_env p) d).
Proof.
  destruct defs_syntax as [_ [Hxs [_ Hss]]].
  intros Hnd Hd. destruct d as [sn sembeds sfields sftyp | nm ppos pn | names typ vals | names vals | n under | fp n params ptyp results rtyp bp body];
    cbn [r_decl nfp_decl rg_decl].
  - apply def_spec_app; [apply def_spec_own|].
    apply def_spec_app; [|apply def_spec_app; [apply def_spec_own | apply def_spec_use_idents]].
    clear Hd. induction sembeds as [|em t IH]; [apply def_spec_nil|].
    cbn [flat_map]. apply def_spec_app; [|exact IH].
    unfold r_embed. apply def_spec_app; [|apply def_spec_own].
    destruct (equal em) as [|q qs]; [apply def_spec_use_ident|].
    destruct (lookup_env (iname q) (pkg_env p)); [|apply def_spec_nil].
    repeat (apply def_spec_cons; [nodef|]). apply def_spec_nil.
  - apply def_spec_own.
  - apply def_spec_app; [apply def_spec_use_idents|]. apply def_spec_app; [sub_ Hxs|].
    intros i o H. eapply (def_names_pkg p names (first_pos names) KVar) in H; [|exact Hnd|].
    + destruct H. eapply def_char_incl; [| |apply first_or_pair; eauto]; [isolve | apply incl_refl].
    + eexists; split; [exact Hd|]. intros j Hj Hne. cbn [pkg_objs]. apply in_objs_of; auto.
  - apply def_spec_app; [sub_ Hxs|].
    intros i o H. eapply (def_names_pkg p names (first_pos names) KConst) in H; [|exact Hnd|].
    + destruct H. eapply def_char_incl; [| |apply first_or_pair; eauto]; [isolve | apply incl_refl].
    + eexists; split; [exact Hd|]. intros j Hj Hne. cbn [pkg_objs]. apply in_objs_of; auto.
  - apply def_spec_app; [apply def_spec_use_ident | apply def_spec_own].
  - apply def_spec_app; [apply def_spec_own|].
    apply def_spec_app; [apply def_spec_use_idents|]. apply def_spec_app; [apply def_spec_use_idents|].
    apply def_spec_app; [apply def_spec_own|]. apply def_spec_app; [apply def_spec_own|].
    cbn [app]. apply def_spec_cons; [nodef|]. apply Hss.
Qed.

(* C12: which recorded definitions carry the identifier's own position -- all programs *)
Theorem defs_pos_characterised p : pkg_names_distinct p ->
  forall i o, In (EvDef i o) (run p) -> def_char (nfp_prog p) (rg_prog p) i o.
Proof.
  intros Hnd. unfold run. apply def_spec_cons; [nodef|].
  assert (G : forall l, incl l p -> def_spec (nfp_prog p) (rg_prog p) (flat_map (r_decl (pkg_env p)) l)).
  { induction l as [|d l IH]; intros Hl; [apply def_spec_nil|].
    cbn [flat_map]. apply def_spec_app.
    - assert (Hd : In d p) by (apply Hl; simpl; auto).
      eapply def_spec_incl; [apply defs_decl; auto| |].
      + intros z Hz. unfold nfp_prog. apply in_flat_map. exists d. auto.
      + intros z Hz. unfold rg_prog. apply in_flat_map. exists d. auto.
    - apply IH. intros z Hz. apply Hl. simpl. auto. }
  apply G. apply incl_refl.
Qed.

(* the Info doc-comment invariant for programs without multi-name specs and range variables *)
Corollary defs_at_own_pos p : pkg_names_distinct p -> nfp_prog p = [] -> rg_prog p = [] ->
  forall i o, In (EvDef i o) (run p) -> opos o = InFile (ipos i).
Proof.
  intros Hnd Hnf Hrg i o H. apply defs_pos_characterised in H; [|exact Hnd].
  rewrite Hnf, Hrg in H. destruct H as [H | [[q [[] _]] | [[] _]]]. exact H.
Qed.

(* ================================================================== every recorded node belongs to the file *)

Definition ev_in (N : list pos) (ev : event) : Prop :=
  match ev with
  | EvDef i _ => In (ipos i) N
  | EvUse i _ => In (ipos i) N
  | EvType (InFile q) => In q N
  | EvType _ => False
  | EvScope q => In q N
  end.
Definition node_spec (N : list pos) (evs : list event) : Prop := forall ev, In ev evs -> ev_in N ev.

Lemma ev_in_incl N N' ev : incl N N' -> ev_in N ev -> ev_in N' ev.
Proof. intros Hi. destruct ev as [i o | i o | [|q|] | q]; simpl; auto. Qed.

Lemma node_spec_incl N N' evs : node_spec N evs -> incl N N' -> node_spec N' evs.
Proof. intros H Hi ev Hin. eapply ev_in_incl; eauto. Qed.

Lemma node_spec_app N a b : node_spec N a -> node_spec N b -> node_spec N (a ++ b).
Proof. intros Ha Hb ev H. apply in_app_or in H. destruct H; auto. Qed.

Lemma node_spec_cons N ev evs : ev_in N ev -> node_spec N evs -> node_spec N (ev :: evs).
Proof. intros H1 H2 ev' [<- | Hin]; auto. Qed.

Lemma node_spec_nil N : node_spec N [].
Proof. intros ev []. Qed.

Lemma node_spec_use_ident e i : node_spec [ipos i] (use_ident e i).
Proof.
  intros ev H. apply use_ident_in in H. destruct H as [[o [-> _]] | ->]; simpl; auto.
Qed.

Lemma node_spec_use_idents e l : node_spec (map ipos l) (use_idents e l).
Proof.
  intros ev H. apply use_idents_in in H. destruct H as [i [H1 H2]].
  apply node_spec_use_ident in H2. eapply ev_in_incl; [|exact H2].
  intros z [<- | []]. apply in_map. exact H1.
Qed.

Lemma node_spec_def_names names s : node_spec (map ipos names) (def_names names s).
Proof.
  intros ev H. destruct (def_names_only_defs _ _ _ H) as [i [o ->]].
  apply def_names_in in H. simpl. apply in_map. tauto.
Qed.

Lemma node_spec_def_own names k : node_spec (map ipos names) (def_own names k).
Proof. intros ev H. apply def_own_in in H. destruct H as [i [H1 ->]]. simpl. apply in_map. exact H1. Qed.

Ltac nsub IH := eapply node_spec_incl; [apply IH | isolve].
Ltac ncons := apply node_spec_cons; [simpl; repeat (rewrite in_app_iff); simpl; tauto|].
Ltac btrue H := repeat (apply andb_prop in H; let H' := fresh "Ht" in destruct H as [H H']).

Lemma node_spec_type_node typ : node_spec (map ipos typ) (type_node typ).
Proof. destruct typ as [|i t]; [apply node_spec_nil|]. intros ev [<- | []]. simpl. auto. Qed.

Lemma nodes_syntax :
  (forall x e, node_spec (nodes_expr x) (r_expr e x)) /\
  (forall xs e, node_spec (nodes_exprs xs) (r_exprs e xs)) /\
  (forall s e, node_spec (nodes_stmt s) (snd (r_stmt e s))) /\
  (forall ss e, node_spec (nodes_stmts ss) (snd (r_stmts e ss))).
Proof.
  apply syntax_mutind.
  - intros p e. cbn [r_expr nodes_expr]. ncons. apply node_spec_nil.
  - intros i e. cbn [r_expr nodes_expr]. apply node_spec_use_ident.
  - intros p a IHa b IHb e. cbn [r_expr nodes_expr].
    apply node_spec_app; [nsub IHa|]. apply node_spec_app; [nsub IHb|]. ncons. apply node_spec_nil.
  - intros p f IHf args IHa e. cbn [r_expr nodes_expr].
    apply node_spec_app; [nsub IHf|]. apply node_spec_app; [nsub IHa|]. ncons. apply node_spec_nil.
  - intros p x sel e. cbn [r_expr nodes_expr]. destruct (lookup_env (iname x) e); [|apply node_spec_nil].
    ncons. ncons. ncons. apply node_spec_nil.
  - intros p params ptyp rtyp bp body IHb e. cbn [r_expr nodes_expr].
    apply node_spec_app; [eapply node_spec_incl; [apply node_spec_use_idents|]; intros z Hz; simpl; rewrite !map_app, !in_app_iff; tauto|].
    apply node_spec_app; [eapply node_spec_incl; [apply node_spec_use_idents|]; intros z Hz; simpl; rewrite !map_app, !in_app_iff; tauto|].
    apply node_spec_app; [eapply node_spec_incl; [apply node_spec_def_own|]; intros z Hz; simpl; rewrite !map_app, !in_app_iff; tauto|].
    cbn [app]. ncons. ncons. nsub IHb.
  - intros p typ elts IHe e. cbn [r_expr nodes_expr].
    apply node_spec_app; [eapply node_spec_incl; [apply node_spec_use_idents|]; isolve|].
    apply node_spec_app; [nsub IHe|].
    apply node_spec_app; [eapply node_spec_incl; [apply node_spec_type_node|]; isolve|].
    ncons. apply node_spec_nil.
  - intros p elts IHe e. cbn [r_expr nodes_expr].
    apply node_spec_app; [nsub IHe|]. ncons. apply node_spec_nil.
  - intros p elts IHe e. cbn [r_expr nodes_expr].
    apply node_spec_app; [nsub IHe|]. ncons. apply node_spec_nil.
  - intros e. apply node_spec_nil.
  - intros x IHx t IHt e. cbn [r_exprs nodes_exprs]. apply node_spec_app; [nsub IHx | nsub IHt].
  - (* SVar *) intros names typ vals IHv e. cbn [r_stmt snd nodes_stmt].
    apply node_spec_app; [eapply node_spec_incl; [apply node_spec_use_idents|]; intros z Hz; rewrite !map_app, !in_app_iff; tauto|].
    apply node_spec_app; [nsub IHv|].
    eapply node_spec_incl; [apply node_spec_def_names|]. intros z Hz; rewrite !map_app, !in_app_iff; tauto.
  - (* SConst *) intros names vals IHv e. cbn [r_stmt snd nodes_stmt].
    apply node_spec_app; [nsub IHv|].
    eapply node_spec_incl; [apply node_spec_def_names|]. isolve.
  - (* SType *) intros n under e. cbn [r_stmt snd nodes_stmt].
    eapply node_spec_incl; [apply node_spec_use_ident|]. isolve.
  - (* SDefine *) intros names vals IHv e. cbn [r_stmt snd nodes_stmt].
    apply node_spec_app; [nsub IHv|].
    intros ev H. destruct (def_names_only_defs _ _ _ H) as [i [o ->]].
    apply def_names_in in H. destruct H as [H _]. apply new_names_in in H. destruct H as [H _].
    simpl. rewrite in_app_iff. left. apply in_map. exact H.
  - intros lhs IHl rhs IHr e. cbn [r_stmt snd nodes_stmt]. apply node_spec_app; [nsub IHl | nsub IHr].
  - intros x IHx e. cbn [r_stmt snd]. apply IHx.
  - intros vals IHv e. cbn [r_stmt snd]. apply IHv.
  - intros p body IHb e. cbn [r_stmt snd nodes_stmt].
    apply node_spec_app; [nsub IHb|]. ncons. apply node_spec_nil.
  - (* SIf *) intros p init IHi cond IHc bp thn IHt els IHe e. cbn [r_stmt nodes_stmt].
    pose proof (IHi ([] :: e)) as Hi. destruct (r_stmts ([] :: e) init) as [e1 ev1]. cbn [snd app] in *.
    apply node_spec_app; [nsub Hi|]. apply node_spec_app; [nsub IHc|].
    ncons. apply node_spec_app; [nsub IHt|]. apply node_spec_app; [nsub IHe|].
    ncons. apply node_spec_nil.
  - (* SFor *) intros p init IHi cond IHc post IHp bp body IHb e. cbn [r_stmt nodes_stmt].
    pose proof (IHi ([] :: e)) as Hi. destruct (r_stmts ([] :: e) init) as [e1 ev1]. cbn [snd app] in *.
    ncons. apply node_spec_app; [nsub Hi|]. apply node_spec_app; [nsub IHc|].
    ncons. apply node_spec_app; [nsub IHb | nsub IHp].
  - (* SRange *) intros p names x IHx bp body IHb e. cbn [r_stmt snd nodes_stmt].
    apply node_spec_app; [nsub IHx|].
    apply node_spec_app; [eapply node_spec_incl; [apply node_spec_def_names|]; isolve|].
    cbn [app]. ncons. apply node_spec_app; [nsub IHb|]. ncons. apply node_spec_nil.
  - intros e. apply node_spec_nil.
  - intros s IHs t IHt e. cbn [r_stmts nodes_stmts].
    pose proof (IHs e) as Hs. destruct (r_stmt e s) as [e1 ev1].
    pose proof (IHt e1) as Ht'. destruct (r_stmts e1 t) as [e2 ev2]. cbn [snd] in *.
    apply node_spec_app; [nsub Hs | nsub Ht'].
Qed.

Lemma nodes_decl_ok e d : node_spec (nodes_decl d) (r_decl e d).
Proof.
  destruct nodes_syntax as [_ [Hxs [_ Hss]]].
  destruct d as [sn sembeds sfields sftyp | nm ppos pn | names typ vals | names vals | n under | fp n params ptyp results rtyp bp body];
    cbn [r_decl nodes_decl] in *.
  - apply node_spec_app; [eapply node_spec_incl; [apply node_spec_def_own|]; isolve|].
    apply node_spec_app.
    + eapply node_spec_incl with (N := map ipos (flat_map embed_ids sembeds)); [|intros z Hz; simpl; rewrite !in_app_iff; tauto].
      induction sembeds as [|em t IH]; [apply node_spec_nil|].
      cbn [flat_map]. rewrite map_app. apply node_spec_app.
      * eapply node_spec_incl; [|apply incl_appl, incl_refl].
        unfold r_embed, embed_ids. apply node_spec_app.
        -- destruct (equal em) as [|q qs].
           ++ eapply node_spec_incl; [apply node_spec_use_ident|]. isolve.
           ++ destruct (lookup_env (iname q) e); [|apply node_spec_nil].
              apply node_spec_cons; [simpl; auto|]. apply node_spec_cons; [simpl; rewrite map_app, in_app_iff; simpl; auto|].
              apply node_spec_nil.
        -- eapply node_spec_incl; [apply node_spec_def_own|]. intros z Hz. rewrite map_app, in_app_iff. simpl in *. tauto.
      * eapply node_spec_incl; [exact IH | apply incl_appr, incl_refl].
    + apply node_spec_app; [eapply node_spec_incl; [apply node_spec_def_own|]; intros z Hz; simpl; rewrite !in_app_iff; tauto|].
      eapply node_spec_incl; [apply node_spec_use_idents|]. intros z Hz; simpl; rewrite !in_app_iff; tauto.
  - eapply node_spec_incl; [apply node_spec_def_own|]. isolve.
  - apply node_spec_app; [eapply node_spec_incl; [apply node_spec_use_idents|]; intros z Hz; rewrite !map_app, !in_app_iff; tauto|].
    apply node_spec_app; [nsub Hxs|].
    eapply node_spec_incl; [apply node_spec_def_names|]. intros z Hz; rewrite !map_app, !in_app_iff; tauto.
  - apply node_spec_app; [nsub Hxs|]. eapply node_spec_incl; [apply node_spec_def_names|]. isolve.
  - apply node_spec_app; [eapply node_spec_incl; [apply node_spec_use_ident|]; isolve|].
    eapply node_spec_incl; [apply node_spec_def_own|]. isolve.
  - apply node_spec_app; [eapply node_spec_incl; [apply node_spec_def_own|]; isolve|].
    apply node_spec_app; [eapply node_spec_incl; [apply node_spec_use_idents|]; intros z Hz; simpl; rewrite !map_app, !in_app_iff; tauto|].
    apply node_spec_app; [eapply node_spec_incl; [apply node_spec_use_idents|]; intros z Hz; simpl; rewrite !map_app, !in_app_iff; tauto|].
    apply node_spec_app; [eapply node_spec_incl; [apply node_spec_def_own|]; intros z Hz; simpl; rewrite !map_app, !in_app_iff; tauto|].
    apply node_spec_app; [eapply node_spec_incl; [apply node_spec_def_own|]; intros z Hz; simpl; rewrite !map_app, !in_app_iff; tauto|].
    cbn [app]. ncons. nsub Hss.
Qed.

(* C12: every node recorded in Defs / Uses / Types / Scopes is a node of the checked file *)
Theorem recorded_nodes_in_files p : forall ev, In ev (run p) -> ev_in (nodes_prog p) ev.
Proof.
  unfold run, nodes_prog. apply node_spec_cons; [simpl; auto|].
  assert (G : forall l, incl l p -> node_spec (file_pos :: flat_map nodes_decl p) (flat_map (r_decl (pkg_env p)) l)).
  { induction l as [|d l IH]; intros Hl; [apply node_spec_nil|].
    cbn [flat_map]. apply node_spec_app.
    - assert (Hd : In d p) by (apply Hl; simpl; auto).
      eapply node_spec_incl; [apply nodes_decl_ok|].
      intros z Hz. right. apply in_flat_map. exists d. auto.
    - apply IH. intros z Hz. apply Hl. simpl. auto. }
  apply G. apply incl_refl.
Qed.

