From Coq Require Import List ZArith Bool Lia.
Import ListNotations.
From V Require Import Base.Prelude Gen.PrinterMerge Model.C21.
Open Scope Z_scope.

(* two facts about the regenerated commentBefore: the final flush (offset infinity, impliedSemi = false)
   takes every comment that has a real offset; a comment is only ever taken when it lies before next *)
Lemma final_flush_takes off nl : 0 <= off < pm_infinity -> pm_commentBefore off pm_infinity false nl = true.
Proof.
  intros H. unfold pm_commentBefore. destruct nl; cbn [negb orb andb]; rewrite ?andb_true_r; apply Z.ltb_lt; lia.
Qed.
Lemma taken_is_earlier off next i nl : pm_commentBefore off next i nl = true -> off < next.
Proof.
  unfold pm_commentBefore. intros H. apply andb_prop in H as [H _]. now apply Z.ltb_lt.
Qed.

Lemma comments_of_app a b : comments_of (a ++ b) = comments_of a ++ comments_of b.
Proof. unfold comments_of. apply flat_map_app. Qed.
Lemma tokens_of_app a b : tokens_of (a ++ b) = tokens_of a ++ tokens_of b.
Proof. unfold tokens_of. apply flat_map_app. Qed.
Lemma comments_of_coms l : comments_of (map OCom l) = l.
Proof. induction l as [|a l IH]; [reflexivity|]. unfold comments_of in *. cbn [map flat_map app]. now rewrite IH. Qed.
Lemma tokens_of_coms l : tokens_of (map OCom l) = [].
Proof. induction l as [|a l IH]; [reflexivity|]. unfold tokens_of in *. cbn [map flat_map app]. exact IH. Qed.

(* flush takes a prefix of the pending groups, writes exactly their comments, in order, and no token *)
Lemma flush_spec gs next i : exists taken,
  gs = taken ++ snd (flush gs next i) /\
  comments_of (fst (flush gs next i)) = concat (map g_texts taken) /\
  tokens_of (fst (flush gs next i)) = [] /\
  Forall (fun g => g_off g < next) taken.
Proof.
  induction gs as [|g rest IH]; cbn [flush].
  - exists []. auto.
  - destruct (before g next i) eqn:B.
    + destruct IH as (t & E & C & T & F). destruct (flush rest next i) as [o r']. cbn [fst snd] in *.
      exists (g :: t). repeat split.
      * cbn. congruence.
      * rewrite comments_of_app, comments_of_coms, C. reflexivity.
      * rewrite tokens_of_app, tokens_of_coms, T. reflexivity.
      * constructor; auto. unfold before in B. eapply taken_is_earlier; eauto.
    + exists []. cbn. auto.
Qed.

Lemma flush_all gs : forallb group_ok gs = true -> snd (flush gs pm_infinity false) = [].
Proof.
  induction gs as [|g rest IH]; cbn [flush forallb]; auto. intros H. apply andb_prop in H as [G R].
  unfold before. unfold group_ok in G. apply andb_prop in G as [G1 G2].
  rewrite final_flush_takes by lia. specialize (IH R). destruct (flush rest pm_infinity false). cbn [snd] in *. auto.
Qed.

Theorem comments_preserved : forall items gs i, forallb group_ok gs = true ->
  comments_of (run items gs i) = concat (map g_texts gs).
Proof.
  induction items as [|[off text semi|nl] rest IH]; intros gs i G; cbn [run].
  - destruct (flush_spec gs pm_infinity false) as (t & E & C & _). rewrite (flush_all gs G), app_nil_r in E.
    rewrite C, <- E. reflexivity.
  - destruct (flush_spec gs off i) as (t & E & C & _). destruct (flush gs off i) as [o gs']. cbn [fst snd] in *.
    rewrite comments_of_app, C. cbn [comments_of flat_map app]. fold (comments_of (run rest gs' semi)).
    assert (G' : forallb group_ok gs' = true).
    { rewrite E in G. rewrite forallb_app in G. apply andb_prop in G as [_ G]. exact G. }
    rewrite (IH gs' semi G'). subst gs. rewrite map_app, concat_app. reflexivity.
  - apply IH; auto.
Qed.

Theorem tokens_preserved : forall items gs i, tokens_of (run items gs i) = item_tokens items.
Proof.
  induction items as [|[off text semi|nl] rest IH]; intros gs i; cbn [run item_tokens flat_map].
  - destruct (flush_spec gs pm_infinity false) as (t & _ & _ & T & _). exact T.
  - destruct (flush_spec gs off i) as (t & _ & _ & T & _). destruct (flush gs off i) as [o gs']. cbn [fst] in *.
    rewrite tokens_of_app, T. cbn [tokens_of flat_map app]. fold (tokens_of (run rest gs' semi)). rewrite IH. reflexivity.
  - apply IH.
Qed.
