(* Lemmas for C30: the helpers of tpl/tpl.go on results of  R % sep. *)
From Coq Require Import List ZArith Bool Lia.
Import ListNotations.
From V Require Import Base.Prelude Base.TplRes Model.C30.

(* sequential map in M, left to right *)
Fixpoint mapM {A B} (f : A -> M B) (l : list A) : M (list B) :=
  match l with [] => Ok [] | a :: t => b <- f a ;; r <- mapM f t ;; Ok (b :: r) end.
(* left fold in M *)
Fixpoint foldM {A B} (f : A -> B -> M A) (l : list B) (a : A) : M A :=
  match l with [] => Ok a | b :: t => a' <- f a b ;; foldM f t a' end.

Definition wrap (pairs : list (res * res)) : list res := map (fun p => RList [fst p; snd p]) pairs.
Definition tok_pairs (ps : list (nat * res)) : list (res * res) := map (fun p => (RTok (fst p), snd p)) ps.

Lemma map_snd_wrap pairs : map_snd (wrap pairs) = Ok (map snd pairs).
Proof. induction pairs as [|[s r] t IH]; [reflexivity|]. change (wrap ((s, r) :: t)) with (RList [s; r] :: wrap t).
  cbn [map_snd pair_snd bind]. rewrite IH. reflexivity. Qed.

Lemma list_flatten r0 pairs : list_ (mk_list r0 pairs) = Ok (r0 :: map snd pairs).
Proof. unfold list_, mk_list. simpl. fold (wrap pairs). rewrite map_snd_wrap. reflexivity. Qed.

Lemma map_snd_fn_wrap {T} (fn : res -> M T) pairs : map_snd_fn fn (wrap pairs) = mapM fn (map snd pairs).
Proof. induction pairs as [|[s r] t IH]; [reflexivity|]. change (wrap ((s, r) :: t)) with (RList [s; r] :: wrap t).
  cbn [map_snd_fn pair_snd bind map snd mapM]. rewrite IH. reflexivity. Qed.

Lemma list_op_map {T} (fn : res -> M T) r0 pairs :
  list_op fn (mk_list r0 pairs) = mapM fn (r0 :: map snd pairs).
Proof. unfold list_op, mk_list. simpl. fold (wrap pairs). rewrite map_snd_fn_wrap. reflexivity. Qed.

Lemma range_next_wrap pairs : range_next (wrap pairs) = (map snd pairs, true).
Proof. induction pairs as [|[s r] t IH]; [reflexivity|]. change (wrap ((s, r) :: t)) with (RList [s; r] :: wrap t).
  cbn [range_next pair_snd]. rewrite IH. reflexivity. Qed.

Lemma range_op_order r0 pairs : range_op (mk_list r0 pairs) = (r0 :: map snd pairs, true).
Proof. unfold range_op, mk_list. simpl. fold (wrap pairs). rewrite range_next_wrap. reflexivity. Qed.

(* BinaryOpNR = left fold over the (separator, operand) pairs, in order *)
Lemma bop_nr_loop_fold fn ps : forall acc,
  bop_nr_loop fn (wrap (tok_pairs ps)) acc = foldM (fun a p => fn (fst p) a (snd p)) ps acc.
Proof.
  induction ps as [|[op y] t IH]; intros acc; [reflexivity|].
  change (wrap (tok_pairs ((op, y) :: t))) with (RList [RTok op; y] :: wrap (tok_pairs t)).
  cbn [bop_nr_loop op_operand bind fst snd foldM].
  destruct (fn op acc y); cbn [bind]; auto.
Qed.

Lemma bop_nr_fold_left fn r0 ps :
  bop_nr fn (mk_list r0 (tok_pairs ps)) = foldM (fun a p => fn (fst p) a (snd p)) ps r0.
Proof. unfold bop_nr, mk_list. simpl. apply bop_nr_loop_fold. Qed.

(* with a callback that never panics this is List.fold_left itself *)
Lemma foldM_pure {A B} (f : A -> B -> A) l a : foldM (fun x y => Ok (f x y)) l a = Ok (fold_left f l a).
Proof. revert a. induction l; simpl; auto. Qed.

Lemma bop_nr_fold_left_pure (f : nat -> res -> res -> res) r0 ps :
  bop_nr (fun op x y => Ok (f op x y)) (mk_list r0 (tok_pairs ps)) = Ok (fold_left (fun a p => f (fst p) a (snd p)) ps r0).
Proof. rewrite bop_nr_fold_left. apply (foldM_pure (fun a (p : nat * res) => f (fst p) a (snd p))). Qed.

(* a separator that is not a token makes BinaryOp panic at that point (type assertion) *)
Lemma bop_nr_bad_sep fn r0 pre s y post : (forall i, s <> RTok i) ->
  (exists a, foldM (fun a p => fn (fst p) a (snd p)) pre r0 = Ok a) ->
  bop_nr fn (mk_list r0 (tok_pairs pre ++ (s, y) :: post)) = Panic.
Proof.
  intros Hs [a Ha]. unfold bop_nr, mk_list. simpl. revert r0 Ha.
  induction pre as [|[op z] t IH]; intros r0 Ha; simpl in *.
  - destruct s; try reflexivity. exfalso. eapply Hs; eauto.
  - destruct (fn op r0 z); simpl in *; try discriminate. apply IH. auto.
Qed.

(* ---- BinaryOpR on nested list results ---- *)
Section Nested.
Variable fn : nat -> res -> res -> M res.

Definition fold_or_keep (y : res) : M res := match y with RList _ => bop_r fn y | _ => Ok y end.

Fixpoint nx_size (e : nx) : nat :=
  match e with
  | NLeaf _ => 1
  | NNode x0 ps => S (nx_size x0 + fold_right (fun p a => nx_size (snd p) + a) 0 ps)
  end.

Lemma bop_r_node x0 ps :
  bop_r fn (nx_res (NNode x0 ps)) =
  (x0' <- fold_or_keep (nx_res x0) ;;
   (fix loop (next : list res) (acc : res) : M res :=
      match next with
      | [] => Ok acc
      | RList (RTok op :: y :: _) :: t => y' <- fold_or_keep y ;; a <- fn op acc y' ;; loop t a
      | _ => Panic
      end) (map (fun p => RList [RTok (fst p); nx_res (snd p)]) ps) x0').
Proof. reflexivity. Qed.

Lemma nx_leaf_keep v : not_list v = true -> fold_or_keep v = Ok v.
Proof. destruct v; simpl; auto; discriminate. Qed.

Lemma bop_r_nested : forall n e, nx_size e <= n -> nx_ok e = true ->
  fold_or_keep (nx_res e) = nx_eval fn e.
Proof.
  induction n as [|n IH]; intros e Hs Hok. { destruct e; simpl in Hs; lia. }
  destruct e as [v|x0 ps].
  - simpl in *. apply nx_leaf_keep; auto.
  - change (fold_or_keep (nx_res (NNode x0 ps))) with (bop_r fn (nx_res (NNode x0 ps))).
    rewrite bop_r_node. cbn [nx_eval]. cbn [nx_ok] in Hok. apply andb_prop in Hok as [Hx Hps].
    cbn [nx_size] in Hs. rewrite (IH x0); auto; [|lia].
    destruct (nx_eval fn x0) as [a0| |]; cbn [bind]; auto.
    assert (Hs' : fold_right (fun p a => nx_size (snd p) + a) 0 ps <= n) by lia. clear Hs Hx.
    revert a0 Hs' Hps. induction ps as [|[op y] t IHt]; intros a0 Hs' Hps; [reflexivity|].
    cbn [map fst snd]. cbn [forallb snd] in Hps. apply andb_prop in Hps as [Hy Ht].
    cbn [fold_right snd] in Hs'.
    rewrite (IH y); auto; [|lia].
    destruct (nx_eval fn y) as [y'| |]; cbn [bind]; auto.
    destruct (fn op a0 y') as [a| |]; cbn [bind]; auto.
    apply IHt; auto. lia.
Qed.

Lemma bop_r_nested_node x0 ps : nx_ok (NNode x0 ps) = true ->
  bop_r fn (nx_res (NNode x0 ps)) = nx_eval fn (NNode x0 ps).
Proof. intros H. exact (bop_r_nested _ (NNode x0 ps) (le_n _) H). Qed.

(* when no operand is a list, the recursive and the non-recursive helper agree *)
Lemma bop_r_flat r0 ps : not_list r0 = true -> forallb (fun p => not_list (snd p)) ps = true ->
  bop_r fn (RList (mk_list r0 (tok_pairs ps))) = bop_nr fn (mk_list r0 (tok_pairs ps)).
Proof.
  intros H0 Hps. rewrite bop_nr_fold_left.
  pose (e := NNode (NLeaf r0) (map (fun p => (fst p, NLeaf (snd p))) ps)).
  assert (Hres : nx_res e = RList (mk_list r0 (tok_pairs ps))).
  { unfold e, mk_list, tok_pairs. cbn [nx_res]. rewrite !map_map. reflexivity. }
  rewrite <- Hres. unfold e. rewrite bop_r_nested_node.
  - cbn [nx_eval bind]. clear e Hres H0. revert r0. induction ps as [|[op y] t IH]; intros r0; [reflexivity|].
    cbn [map fst snd nx_eval bind foldM]. cbn [forallb snd] in Hps. apply andb_prop in Hps as [_ Ht].
    destruct (fn op r0 y); cbn [bind]; auto.
  - cbn [nx_ok]. rewrite H0. cbn [andb]. clear -Hps.
    induction ps as [|[op y] t IH]; simpl in *; auto. apply andb_prop in Hps as [-> Ht]. simpl. auto.
Qed.
End Nested.

(* ---- BinaryExpr: left-nested BinaryExpr nodes ---- *)
Lemma bexpr_nr_loop_fold ps : forall acc, forallb (fun p => is_expr (snd p)) ps = true ->
  bexpr_nr_loop (wrap (tok_pairs ps)) acc = Ok (fold_left (fun a p => RApp (fst p) a (snd p)) ps acc).
Proof.
  induction ps as [|[op y] t IH]; intros acc H; simpl in *; auto.
  apply andb_prop in H as [Hy Ht]. rewrite Hy. apply IH; auto.
Qed.

Lemma bexpr_nr_fold_left r0 ps : is_expr r0 = true -> forallb (fun p => is_expr (snd p)) ps = true ->
  bexpr_nr (mk_list r0 (tok_pairs ps)) = Ok (fold_left (fun a p => RApp (fst p) a (snd p)) ps r0).
Proof. intros H0 H. unfold bexpr_nr, mk_list. simpl. rewrite H0. apply bexpr_nr_loop_fold; auto. Qed.

(* the result of BinaryExprNR is what BinaryOpNR computes with the node-building callback *)
Lemma bexpr_nr_is_bop_nr r0 ps : is_expr r0 = true -> forallb (fun p => is_expr (snd p)) ps = true ->
  bexpr_nr (mk_list r0 (tok_pairs ps)) = bop_nr fn_sym (mk_list r0 (tok_pairs ps)).
Proof.
  intros H0 H. rewrite bexpr_nr_fold_left; auto. unfold fn_sym.
  rewrite (bop_nr_fold_left_pure (fun op x y => RApp op x y)). reflexivity.
Qed.

(* ---- the calculator: BinaryOp(true, …) over the two-level list result = precedence climbing ---- *)
Lemma pcl_mono : forall f minp lhs rest x, pcl f minp lhs rest = Some x -> pcl (S f) minp lhs rest = Some x.
Proof.
  induction f as [|f IH]; intros minp lhs rest x H; [discriminate|].
  remember (S f) as f'. rewrite Heqf' in H. cbn [pcl] in *.
  destruct rest as [|[op n] r]; auto.
  destruct (Nat.ltb (prec op) minp); auto.
  destruct (pcl f (prec op + 1) n r) as [[rhs r']|] eqn:E; [|discriminate].
  apply IH in E. rewrite E. apply IH in H. exact H.
Qed.
Lemma pcl_mono_le f f' minp lhs rest x : f <= f' -> pcl f minp lhs rest = Some x -> pcl f' minp lhs rest = Some x.
Proof. induction 1; auto using pcl_mono. Qed.

Lemma pcl_total : forall f minp lhs rest, length rest < f ->
  exists v r', pcl f minp lhs rest = Some (v, r') /\ length r' <= length rest.
Proof.
  induction f as [|f IH]; intros minp lhs rest Hl; [lia|]. cbn [pcl].
  destruct rest as [|[op n] r]; [eauto|].
  destruct (Nat.ltb (prec op) minp); [eauto|]. cbn [length] in Hl.
  destruct (IH (prec op + 1) n r ltac:(lia)) as (rhs & r' & E & L). rewrite E.
  destruct (IH minp (apply_op op lhs rhs) r' ltac:(lia)) as (v & r'' & E' & L'). rewrite E'.
  exists v, r''. split; auto. cbn [length]. lia.
Qed.

Definition term_val (t : term) : Z := fold_left (fun a p => apply_op (snd (fst p)) a (snd p)) (snd t) (fst t).
Definition sum_val (s : sum) : Z :=
  fold_left (fun a p => apply_op (snd (fst p)) a (term_val (snd p))) (snd s) (term_val (fst s)).

(* what may follow a term: nothing, or an operator of precedence 1 *)
Definition stop2 (rest : list (aop * Z)) : Prop :=
  match rest with [] => True | (op, _) :: _ => prec op = 1 end.

Lemma pcl_term : forall ms lhs rest minp, minp <= 2 ->
  forallb (fun p : nat * aop * Z => Nat.eqb (prec (snd (fst p))) 2) ms = true -> stop2 rest ->
  forall res, (exists f, pcl f minp (term_val (lhs, ms)) rest = Some res) ->
  exists f, pcl f minp lhs (term_flat (lhs, ms) ++ rest) = Some res.
Proof.
  induction ms as [|[[i op] n] ms IH]; intros lhs rest minp Hm Hok Hr res [f Hf].
  - exists f. exact Hf.
  - cbn [forallb fst snd] in Hok. apply andb_prop in Hok as [Hop Hok]. apply Nat.eqb_eq in Hop.
    unfold term_flat. cbn [snd map fst app].
    destruct (IH (apply_op op lhs n) rest minp Hm Hok Hr res) as [f1 H1].
    { exists f. exact Hf. }
    unfold term_flat in H1. cbn [snd] in H1.
    exists (S (S f1)). remember (S f1) as g. cbn [pcl]. rewrite Hop.
    replace (Nat.ltb 2 minp) with false by (symmetry; apply Nat.ltb_ge; lia).
    (* rhs := expr(3) returns the primary at once *)
    assert (E : pcl g (2 + 1) n (map (fun p : nat * aop * Z => (snd (fst p), snd p)) ms ++ rest) =
                Some (n, map (fun p : nat * aop * Z => (snd (fst p), snd p)) ms ++ rest)).
    { rewrite Heqg. cbn [pcl]. destruct ms as [|[[i' op'] n'] ms'].
      - cbn [map app]. destruct rest as [|[op' n'] r']; auto. cbn [stop2] in Hr. rewrite Hr. reflexivity.
      - cbn [map app fst snd]. cbn [forallb fst snd] in Hok. apply andb_prop in Hok as [Hop' _].
        apply Nat.eqb_eq in Hop'. rewrite Hop'. reflexivity. }
    rewrite E. rewrite Heqg. apply pcl_mono. exact H1.
Qed.

Lemma pcl_sum : forall ts lhs,
  forallb (fun p : nat * aop * term => Nat.eqb (prec (snd (fst p))) 1 && term_ok (snd p)) ts = true ->
  exists f, pcl f 1 lhs (flat_map (fun p : nat * aop * term => (snd (fst p), fst (snd p)) :: term_flat (snd p)) ts)
            = Some (fold_left (fun a p => apply_op (snd (fst p)) a (term_val (snd p))) ts lhs, []).
Proof.
  induction ts as [|[[i op] [n ms]] ts IH]; intros lhs Hok.
  - exists 1. reflexivity.
  - cbn [forallb fst snd] in Hok. apply andb_prop in Hok as [H1 Hok]. apply andb_prop in H1 as [Hop Ht].
    apply Nat.eqb_eq in Hop. cbn [flat_map fst snd fold_left].
    set (REST := flat_map (fun p : nat * aop * term => (snd (fst p), fst (snd p)) :: term_flat (snd p)) ts).
    assert (HR : stop2 REST).
    { unfold REST. destruct ts as [|[[i' op'] [n' ms']] ts']; [exact I|]. cbn [flat_map fst snd stop2 app].
      cbn [forallb fst snd] in Hok. apply andb_prop in Hok as [H1 _]. apply andb_prop in H1 as [H1 _].
      apply Nat.eqb_eq in H1. exact H1. }
    destruct (IH (apply_op op lhs (term_val (n, ms))) Hok) as [f2 H2]. fold REST in H2.
    destruct (pcl_term ms n REST 2 (le_n _) Ht HR (term_val (n, ms), REST)) as [f1 H1].
    { exists 1. cbn [pcl]. destruct REST as [|[op' n'] r']; auto. cbn [stop2] in HR. rewrite HR. reflexivity. }
    exists (S (f1 + f2)). cbn [pcl app]. rewrite Hop. cbn [Nat.ltb Nat.leb Nat.add].
    apply (pcl_mono_le _ (f1 + f2)) in H1; [|lia]. apply (pcl_mono_le _ (f1 + f2)) in H2; [|lia].
    cbn [app] in H1. rewrite H1. exact H2.
Qed.

Lemma eval_ref_sum s : sum_ok s = true ->
  eval_ref (fst (sum_flat s)) (snd (sum_flat s)) = Some (sum_val s).
Proof.
  destruct s as [[n0 ms0] ts]. unfold sum_ok. cbn [fst snd]. intros Hok. apply andb_prop in Hok as [H0 Hts].
  unfold sum_flat. cbn [fst snd].
  set (REST := flat_map (fun p : nat * aop * term => (snd (fst p), fst (snd p)) :: term_flat (snd p)) ts).
  assert (HR : stop2 REST).
  { unfold REST. destruct ts as [|[[i' op'] [n' ms']] ts']; [exact I|]. cbn [flat_map fst snd stop2 app].
    cbn [forallb fst snd] in Hts. apply andb_prop in Hts as [H1 _]. apply andb_prop in H1 as [H1 _].
    apply Nat.eqb_eq in H1. exact H1. }
  destruct (pcl_sum ts (term_val (n0, ms0)) Hts) as [f2 H2]. fold REST in H2.
  destruct (pcl_term ms0 n0 REST 1 ltac:(lia) H0 HR _ (ex_intro _ f2 H2)) as [f1 H1].
  unfold eval_ref.
  change (flat_map (fun p : nat * aop * (Z * list (nat * aop * Z)) => (snd (fst p), fst (snd p)) :: term_flat (snd p)) ts) with REST.
  destruct (pcl_total (S (length (term_flat (n0, ms0) ++ REST))) 1 n0 (term_flat (n0, ms0) ++ REST) ltac:(lia))
    as (v & r' & E & _).
  rewrite E. apply (pcl_mono_le _ (f1 + S (length (term_flat (n0, ms0) ++ REST)))) in E; [|lia].
  apply (pcl_mono_le _ (f1 + S (length (term_flat (n0, ms0) ++ REST)))) in H1; [|lia].
  rewrite E in H1. injection H1 as -> _. reflexivity.
Qed.

(* kind agrees with the operators recorded in s *)
Definition term_kind_ok (kind : nat -> option aop) (t : term) : Prop :=
  forall p, In p (snd t) -> kind (fst (fst p)) = Some (snd (fst p)).
Definition kind_ok (kind : nat -> option aop) (s : sum) : Prop :=
  term_kind_ok kind (fst s) /\
  forall p, In p (snd s) -> kind (fst (fst p)) = Some (snd (fst p)) /\ term_kind_ok kind (snd p).

Lemma nx_eval_term kind t : term_kind_ok kind t ->
  nx_eval (calc_fn kind) (term_nx t) = Ok (RVal (term_val t)).
Proof.
  destruct t as [n ms]. unfold term_kind_ok, term_nx, term_val. cbn [fst snd nx_eval bind].
  revert n. induction ms as [|[[i op] m] ms IH]; intros n Hk; [reflexivity|].
  cbn [map fst snd nx_eval bind fold_left]. unfold calc_fn at 1.
  pose proof (Hk (i, op, m) (or_introl eq_refl)) as Hi. cbn [fst snd] in Hi. rewrite Hi.
  cbn [fst snd bind]. apply IH. intros p Hp. apply Hk. right. exact Hp.
Qed.

Lemma nx_eval_sum kind s : kind_ok kind s ->
  nx_eval (calc_fn kind) (sum_nx s) = Ok (RVal (sum_val s)).
Proof.
  destruct s as [t0 ts]. unfold kind_ok, sum_nx, sum_val. cbn [fst snd]. intros [H0 Hts].
  cbn [nx_eval]. rewrite (nx_eval_term kind t0 H0). cbn [bind].
  generalize (term_val t0). revert Hts. induction ts as [|[[i op] t] ts IH]; intros Hts a; [reflexivity|].
  cbn [map fst snd fold_left]. destruct (Hts (i, op, t) (or_introl eq_refl)) as [Hk Ht]. cbn [fst snd] in *.
  rewrite (nx_eval_term kind t Ht). cbn [bind]. unfold calc_fn at 1. rewrite Hk. cbn [bind].
  apply IH. intros p Hp. apply Hts. right. exact Hp.
Qed.

Lemma sum_nx_ok s : nx_ok (sum_nx s) = true.
Proof.
  assert (T : forall t, nx_ok (term_nx t) = true).
  { intros [n ms]. unfold term_nx. cbn [nx_ok not_list fst snd andb]. induction ms as [|p ms IH]; auto. }
  destruct s as [t0 ts]. unfold sum_nx. cbn [nx_ok fst snd]. rewrite T. cbn [andb].
  induction ts as [|p ts IH]; auto. cbn [map forallb snd]. rewrite T. auto.
Qed.

Lemma calc_correct kind s : sum_ok s = true -> kind_ok kind s ->
  exists v, eval_ref (fst (sum_flat s)) (snd (sum_flat s)) = Some v /\
            bop_r (calc_fn kind) (nx_res (sum_nx s)) = Ok (RVal v).
Proof.
  intros Hok Hk. exists (sum_val s). split; [apply eval_ref_sum; auto|].
  destruct s as [t0 ts]. unfold sum_nx. rewrite bop_r_nested_node.
  - apply (nx_eval_sum kind (t0, ts) Hk).
  - apply (sum_nx_ok (t0, ts)).
Qed.

(* every flat operator/number sequence is the flattening of its grouping *)
Lemma group_flat_ok : forall rest n0 i, sum_ok (group_flat n0 rest i) = true /\ sum_flat (group_flat n0 rest i) = (n0, rest).
Proof.
  induction rest as [|[op n] rest IH]; intros n0 i.
  - split; reflexivity.
  - cbn [group_flat]. destruct (IH n (S i)) as [Hok Hf].
    destruct (group_flat n rest (S i)) as [[n' ms] ts]. unfold sum_flat in Hf. cbn [fst snd] in *.
    injection Hf as -> Hf. unfold sum_ok in Hok. cbn [fst snd] in Hok. apply andb_prop in Hok as [Hm Hts].
    destruct (Nat.eqb (prec op) 2) eqn:E; cbn [fst snd].
    + split.
      * unfold sum_ok. cbn [fst snd]. apply andb_true_intro. split; [|exact Hts].
        unfold term_ok in *. cbn [fst snd forallb] in *. rewrite E, Hm. reflexivity.
      * unfold sum_flat, term_flat. cbn [fst snd map app]. unfold term_flat in Hf. cbn [snd] in Hf. rewrite Hf. reflexivity.
    + split.
      * unfold sum_ok. cbn [fst snd forallb]. rewrite Hm, Hts.
        assert (Nat.eqb (prec op) 1 = true) as -> by (destruct op; simpl in *; congruence).
        unfold term_ok. cbn [snd forallb]. reflexivity.
      * unfold sum_flat. cbn [fst snd flat_map app term_flat map]. unfold term_flat in Hf. cbn [snd] in Hf.
        rewrite <- Hf. reflexivity.
Qed.

Lemma group_flat_kind : forall rest n0 pre kind,
  (forall j, kind j = nth_error (pre ++ map fst rest) j) ->
  kind_ok kind (group_flat n0 rest (length pre)).
Proof.
  induction rest as [|[op n] rest IH]; intros n0 pre kind Hk.
  - split; [intros p []|intros p []].
  - cbn [group_flat].
    assert (Hk' : forall j, kind j = nth_error ((pre ++ [op]) ++ map fst rest) j).
    { intros j. rewrite Hk. cbn [map fst]. rewrite <- app_assoc. reflexivity. }
    pose proof (IH n (pre ++ [op]) kind Hk') as Hs. rewrite app_length in Hs. cbn [length] in Hs.
    rewrite Nat.add_1_r in Hs.
    assert (Hi : kind (length pre) = Some op).
    { rewrite Hk. cbn [map fst]. rewrite nth_error_app2 by lia. rewrite Nat.sub_diag. reflexivity. }
    destruct (group_flat n rest (S (length pre))) as [[n' ms] ts]. destruct Hs as [Hm Hts]. cbn [fst snd] in *.
    destruct (Nat.eqb (prec op) 2); cbn [fst snd].
    + split; [|exact Hts]. intros p [<-|Hp]; [exact Hi|]. apply Hm. exact Hp.
    + split; [intros p []|]. intros p [<-|Hp]; [split; [exact Hi|exact Hm]|]. apply Hts. exact Hp.
Qed.

Lemma calc_flat_correct n0 rest : exists v, eval_ref n0 rest = Some v /\ calc n0 rest = Ok (RVal v).
Proof.
  destruct (group_flat_ok rest n0 0) as [Hok Hf].
  destruct (calc_correct (kind_of rest) (group_flat n0 rest 0) Hok) as (v & Hv & Hc).
  - apply (group_flat_kind rest n0 [] (kind_of rest)). intros j. reflexivity.
  - rewrite Hf in Hv. cbn [fst snd] in Hv. exists v. split; auto.
Qed.
