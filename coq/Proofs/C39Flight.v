(* C39 — the counters of inFlightState count the threads / requests that are in flight *)
From Coq Require Import List NArith ZArith Bool Arith Lia.
Import ListNotations.
From V Require Import Base.ConnView Gen.ConnSites Model.C39 Proofs.C39Base Proofs.C39Measure Proofs.C39Calls.

Definition n_counted (p : npc) : nat := match p with NWrite | NWErr | NEnd _ => 1 | _ => 0 end.
Definition r_counted (p : rpc) : nat := match p with RBusy _ RAccept => 0 | RBusy _ _ => 1 | _ => 0 end.
Definition h_counted (p : hpc) : nat := match p with HBusy _ _ => 1 | _ => 0 end.
Definition p_counted (p : ppc) : nat := match p with PBusy _ _ => 1 | _ => 0 end.
Definition notif_count (s : state) : nat := sum (map (fun nr => n_counted (n_pc nr)) (s_notifs s)).
Definition in_flight (s : state) : nat :=
  r_counted (s_reader s) + length (s_queue s) + h_counted (s_handler s) + length (s_asyncs s)
  + sum (map p_counted (s_resps s)).

Record InvN (s : state) : Prop := {
  in_notifs : s_outNotifs s = notif_count s;
  in_incoming : s_incoming s = in_flight s;
  in_running : s_handlerRunning s = match s_handler s with HNone => false | _ => true end;
  in_main : s_main s = MBind -> s_reader s = RNone }.

Lemma InvN_init p : InvN (init p).
Proof. constructor; reflexivity. Qed.

Ltac rm1 := repeat match goal with R : remove1 _ _ = Some _ |- _ => apply remove1_length in R end.

Ltac use_upd' :=
  repeat match goal with
  | E : nth_error ?l ?i = Some ?old |- context [sum (map ?f (upd ?i ?x ?l))] =>
      let H := fresh "HU" in pose proof (sum_map_upd f i x old l E) as H; cbv beta in H;
      generalize dependent (sum (map f (upd i x l))); intros
  | |- context [sum (map ?f (?l ++ [?x]))] => rewrite (sum_map_snoc f l x)
  end.
Ltac rw_pcs' :=
  repeat match goal with
  | E : c_pc _ = _ |- _ => rewrite E in *; clear E
  | E : n_pc _ = _ |- _ => rewrite E in *; clear E
  | E : s_reader _ = _ |- _ => rewrite E in *; clear E
  | E : s_handler _ = _ |- _ => rewrite E in *; clear E
  | E : s_main _ = _ |- _ => rewrite E in *; clear E
  | E : s_queue _ = _ |- _ => rewrite E in *; clear E
  | E : s_handlerRunning _ = _ |- _ => rewrite E in *; clear E
  | E : s_outNotifs _ = _ |- _ => rewrite E in *; clear E
  | E : s_incoming _ = _ |- _ => rewrite E in *; clear E
  end.

Lemma pr_stage_cases rq o : pr_stage rq o = PDec \/ pr_stage rq o = PDelete o.
Proof. unfold pr_stage; destruct (rq_id rq); auto. Qed.

Lemma InvN_body s l s1 : InvN s -> body_step s l = Ok s1 -> InvN s1.
Proof.
  intros [I1 I2 I3 I4] H. destruct l; inv_body H; unfold notif_count, in_flight in *; simp_state.
  all: constructor; unfold notif_count, in_flight; simp_state.
  all: rm1; use_upd'; try match goal with M : s_main _ = MBind |- _ => let R := fresh "R" in pose proof (I4 M) as R; rewrite R in I2 |- * end; rw_pcs'; simpl in *; rewrite ?app_length; simpl; try lia; try congruence.
  all: try assumption; try (let M := fresh in intros M; specialize (I4 M); congruence).
  all: try (destruct (s_handler s); try discriminate; simpl in *; lia).
  rewrite (I4 eq_refl); simpl; lia.
Qed.

Lemma InvN_epi s s' : InvN s -> epi s = Ok s' -> InvN s'.
Proof.
  unfold epi. intros [I1 I2 I3 I4] H. break_match H; injection H as <-; constructor; unfold notif_count, in_flight in *; simp_state; assumption.
Qed.

Lemma sum_map_ge {A} (f : A -> nat) l i x : nth_error l i = Some x -> f x <= sum (map f l).
Proof. revert i; induction l as [|a l IH]; intros [|i] H; simpl in *; try discriminate.
  - injection H as ->; lia. - specialize (IH _ H); lia. Qed.

(* processResult / Notify never find their counter at zero *)
Lemma no_counter_panic s l p : InvN s -> body_step s l = Panic p -> p = PRetireTwice.
Proof.
  intros [I1 I2 I3 I4] H. destruct l; unfold body_step, get_pr in H; break_match H; try discriminate H; injection H as <-; try reflexivity.
  all: exfalso; unfold notif_count, in_flight in *; break_opt.
  all: use_upd'; rw_pcs'; simpl in *.
  - pose proof (sum_map_ge (fun nr => n_counted (n_pc nr)) _ _ _ E) as G. simpl in G. rewrite E0 in G. simpl in G. lia.
  - lia.
  - lia.
  - pose proof (sum_map_ge p_counted _ _ _ E1) as G. simpl in G. lia.
Qed.
