(* C40 — invariants of the Changes transition system over ALL reachable states
   (any number of threads, any interleaving). *)
From Coq Require Import List NArith Bool Arith Lia.
Import ListNotations.
From V Require Import Base.C40Ops Gen.ChangesOps Model.C40.

(* ------------------------------------------------------------------ lists *)
Lemma length_upd {A} i (x : A) l : length (upd i x l) = length l.
Proof. unfold upd. revert l; induction i; intros [|a l]; simpl; auto. Qed.

Lemma nth_upd_same {A} i (x a : A) l : nth_error l i = Some a -> nth_error (upd i x l) i = Some x.
Proof. unfold upd. revert l; induction i; intros [|b l] H; simpl in *; try discriminate; auto. Qed.

Lemma nth_upd_other {A} i j (x : A) l : i <> j -> nth_error (upd i x l) j = nth_error l j.
Proof. unfold upd. revert j l; induction i; intros j [|b l] H; simpl; auto.
  - destruct j; [congruence|reflexivity].
  - destruct j; simpl; auto. Qed.

Lemma In_nth {A} (y : A) l : In y l -> exists k, nth_error l k = Some y.
Proof. apply In_nth_error. Qed.

Lemma nth_In {A} (y : A) l k : nth_error l k = Some y -> In y l.
Proof. apply nth_error_In. Qed.

(* an element of the updated list is the new one or sits at another index of the old list *)
Lemma In_upd_nth {A} i (x y a : A) l : nth_error l i = Some a -> In y (upd i x l) ->
  y = x \/ exists k, k <> i /\ nth_error l k = Some y.
Proof.
  intros Hi Hy. apply In_nth in Hy as [k Hk]. destruct (Nat.eq_dec i k) as [->|Hne].
  - rewrite (nth_upd_same _ _ _ _ Hi) in Hk. left; congruence.
  - rewrite nth_upd_other in Hk by auto. right; exists k; split; auto.
Qed.

Lemma In_upd_self {A} i (x a : A) l : nth_error l i = Some a -> In x (upd i x l).
Proof. intros H. eapply nth_In, nth_upd_same; eauto. Qed.

Lemma In_upd_keep {A} i (x y a : A) l : nth_error l i = Some a -> y <> a -> In y l -> In y (upd i x l).
Proof.
  intros Hi Hne Hy. apply In_nth in Hy as [k Hk]. destruct (Nat.eq_dec i k) as [->|Hik]; [congruence|].
  apply nth_In with k. rewrite nth_upd_other; auto.
Qed.

Fixpoint count {A} (f : A -> bool) (l : list A) : nat :=
  match l with [] => 0 | x :: t => (if f x then 1 else 0) + count f t end.
Definition b2n (b : bool) : nat := if b then 1 else 0.

Lemma count_upd {A} (f : A -> bool) i x a l : nth_error l i = Some a ->
  count f (upd i x l) + b2n (f a) = count f l + b2n (f x).
Proof.
  unfold upd. revert l; induction i; intros [|b l] H; simpl in *; try discriminate.
  - injection H as ->. unfold b2n. destruct (f a), (f x); lia.
  - specialize (IHi l H). destruct (f b); lia.
Qed.

Lemma count_two {A} (f : A -> bool) l i j a b : i <> j -> nth_error l i = Some a -> nth_error l j = Some b ->
  f a = true -> f b = true -> 2 <= count f l.
Proof.
  revert i j; induction l as [|x l IH]; intros i j Hne Hi Hj Ha Hb; [destruct i; discriminate|].
  destruct i, j; simpl in *; try congruence.
  - injection Hi as ->. rewrite Ha. assert (1 <= count f l); [|lia].
    clear -Hj Hb. revert j Hj; induction l as [|y l IH]; intros [|j] Hj; simpl in *; try discriminate.
    + injection Hj as ->. rewrite Hb. lia.
    + specialize (IH _ Hj). destruct (f y); lia.
  - injection Hj as ->. rewrite Hb. assert (1 <= count f l); [|lia].
    clear -Hi Ha. revert i Hi; induction l as [|y l IH]; intros [|i] Hi; simpl in *; try discriminate.
    + injection Hi as ->. rewrite Ha. lia.
    + specialize (IH _ Hi). destruct (f y); lia.
  - assert (2 <= count f l) by (eapply IH with (i := i) (j := j); eauto). destruct (f x); lia.
Qed.

Lemma count_pos_ex {A} (f : A -> bool) l : 1 <= count f l -> exists k a, nth_error l k = Some a /\ f a = true.
Proof.
  induction l as [|x l IH]; simpl; [lia|]. destruct (f x) eqn:E.
  - intros _. exists 0, x. auto.
  - intros H. destruct IH as (k & a & Hk & Ha); [lia|]. exists (S k), a. auto.
Qed.

Lemma count_zero_all {A} (f : A -> bool) l a : count f l = 0 -> In a l -> f a = false.
Proof.
  induction l as [|x l IH]; simpl; [tauto|]. intros H [->|Hin].
  - destruct (f a); [lia|reflexivity].
  - apply IH; auto. destruct (f x); lia.
Qed.

Lemma count_map_ext {A} (f : A -> bool) (g : A -> A) l : (forall a, f (g a) = f a) -> count f (map g l) = count f l.
Proof. intros H. induction l as [|x l IH]; simpl; auto. now rewrite H, IH. Qed.

(* ------------------------------------------------------------------ the set *)
Lemma mem_In d l : mem d l = true <-> In d l.
Proof. unfold mem. rewrite existsb_exists. split.
  - intros (x & Hx & E). apply N.eqb_eq in E. now subst.
  - intros H. exists d. split; auto. apply N.eqb_refl. Qed.

Lemma in_add d x l : In x (add d l) <-> x = d \/ In x l.
Proof. unfold add. destruct (mem d l) eqn:E; simpl; [|intuition].
  apply mem_In in E. intuition; subst; auto. Qed.

Lemma in_del d x l : In x (del d l) <-> In x l /\ x <> d.
Proof. induction l as [|a l IH]; simpl; [tauto|].
  destruct (N.eqb_spec d a); simpl; rewrite IH; intuition congruence. Qed.

Lemma add_nonempty d l : add d l <> [].
Proof. unfold add. destruct (mem d l) eqn:E; [|discriminate]. destruct l; [discriminate|discriminate]. Qed.

Lemma nodup_add d l : NoDup l -> NoDup (add d l).
Proof. unfold add. destruct (mem d l) eqn:E; auto. intros H. constructor; auto.
  intros Hin. apply mem_In in Hin. congruence. Qed.

Lemma nodup_del d l : NoDup l -> NoDup (del d l).
Proof. induction 1 as [|x l Hx Hl IH]; simpl; [constructor|]. destruct (N.eqb d x); auto.
  constructor; auto. rewrite in_del. tauto. Qed.

(* ------------------------------------------------------------------ the concrete system *)
Definition mstep := step model_filechanged model_fetch.

(* one constructor per transition of the modelled programs *)
Inductive Step : st -> label -> st -> Prop :=
| SCallF s i d : nth_error (thr s) i = Some Idle ->
    Step s (LCallF i d) (mk (changed s) (locked s) (upd i (InF d 0 0) (thr s)) (log s))
| SCallG s i : nth_error (thr s) i = Some Idle ->
    Step s (LCallG i) (mk (changed s) (locked s) (upd i (InG 0 Run None) (thr s)) (log s))
| SFlock s i d n : nth_error (thr s) i = Some (InF d 0 n) -> locked s = false ->
    Step s (LTau i) (mk (changed s) true (upd i (InF d 1 n) (thr s)) (log s))
| SFlen s i d n : nth_error (thr s) i = Some (InF d 1 n) ->
    Step s (LTau i) (mk (changed s) (locked s) (upd i (InF d 2 (length (changed s))) (thr s)) (log s))
| SFins s i d n : nth_error (thr s) i = Some (InF d 2 n) ->
    Step s (LTau i) (mk (add d (changed s)) (locked s) (upd i (InF d 3 n) (thr s)) (EReport d :: log s))
| SFunl s i d n : nth_error (thr s) i = Some (InF d 3 n) -> locked s = true ->
    Step s (LTau i) (mk (changed s) false (upd i (InF d 4 n) (thr s)) (log s))
| SFbc s i d n : nth_error (thr s) i = Some (InF d 4 n) ->
    Step s (LTau i) (mk (changed s) (locked s)
                        (upd i (InF d 5 n) (if Nat.eqb n 0 then wake_all (thr s) else thr s)) (log s))
| SFret s i d n : nth_error (thr s) i = Some (InF d 5 n) ->
    Step s (LRet i) (mk (changed s) (locked s) (upd i Idle (thr s)) (log s))
| SGlock s i r : nth_error (thr s) i = Some (InG 0 Run r) -> locked s = false ->
    Step s (LTau i) (mk (changed s) true (upd i (InG 1 Run r) (thr s)) (log s))
| SGpark s i r : nth_error (thr s) i = Some (InG 1 Run r) -> changed s = [] ->
    Step s (LTau i) (mk (changed s) false (upd i (InG 1 Parked r) (thr s)) (log s))
| SGpass s i r : nth_error (thr s) i = Some (InG 1 Run r) -> changed s <> [] ->
    Step s (LTau i) (mk (changed s) (locked s) (upd i (InG 2 Run r) (thr s)) (log s))
| SGrelock s i ip r : nth_error (thr s) i = Some (InG ip Notified r) -> locked s = false ->
    Step s (LTau i) (mk (changed s) true (upd i (InG ip Run r) (thr s)) (log s))
| SGtake s i r d : nth_error (thr s) i = Some (InG 2 Run r) -> In d (changed s) ->
    Step s (LTake i d) (mk (del d (changed s)) (locked s) (upd i (InG 3 Run (Some d)) (thr s)) (EFetch d :: log s))
| SGskip s i r : nth_error (thr s) i = Some (InG 2 Run r) -> changed s = [] ->
    Step s (LTau i) (mk (changed s) (locked s) (upd i (InG 3 Run r) (thr s)) (log s))
| SGunl s i r : nth_error (thr s) i = Some (InG 3 Run r) -> locked s = true ->
    Step s (LTau i) (mk (changed s) false (upd i (InG 4 Run r) (thr s)) (log s))
| SGret s i r : nth_error (thr s) i = Some (InG 4 Run r) ->
    Step s (LRet i) (mk (changed s) (locked s) (upd i Idle (thr s)) (log s)).

Lemma step_Step s l s' : mstep s l = Some s' -> Step s l s'.
Proof.
  unfold mstep, step. destruct l as [i d|i|i|i d|i].
  - destruct (nth_error (thr s) i) as [[| |]|] eqn:E; try discriminate. intros H; injection H as <-. econstructor; solve [eauto].
  - destruct (nth_error (thr s) i) as [[| |]|] eqn:E; try discriminate. intros H; injection H as <-. econstructor; solve [eauto].
  - destruct (nth_error (thr s) i) as [[|d ip n|ip w r]|] eqn:E; try discriminate.
    + unfold exec_f, model_filechanged.
      destruct ip as [|[|[|[|[|ip]]]]]; cbn [nth_error].
      * destruct (locked s) eqn:L; [discriminate|]. intros H; injection H as <-. econstructor; solve [eauto].
      * intros H; injection H as <-. econstructor; solve [eauto].
      * intros H; injection H as <-. econstructor; solve [eauto].
      * destruct (locked s) eqn:L; [|discriminate]. intros H; injection H as <-. econstructor; solve [eauto].
      * intros H; injection H as <-. econstructor; solve [eauto].
      * destruct ip; discriminate.
    + unfold exec_g, model_fetch. destruct w.
      * destruct ip as [|[|[|[|ip]]]]; cbn [nth_error].
        -- destruct (locked s) eqn:L; [discriminate|]. intros H; injection H as <-. econstructor; solve [eauto].
        -- destruct (changed s) eqn:C; intros H; injection H as <-.
           ++ rewrite <- C. econstructor; solve [eauto].
           ++ rewrite <- C. econstructor; solve [eauto | congruence].
        -- destruct (changed s) eqn:C; [|discriminate]. intros H; injection H as <-. rewrite <- C. econstructor; solve [eauto].
        -- destruct (locked s) eqn:L; [|discriminate]. intros H; injection H as <-. econstructor; solve [eauto].
        -- destruct ip; discriminate.
      * discriminate.
      * destruct (locked s) eqn:L; [discriminate|]. intros H; injection H as <-. econstructor; solve [eauto].
  - destruct (nth_error (thr s) i) as [[|d0 ip n|ip w r]|] eqn:E; try discriminate.
    unfold exec_g, model_fetch. destruct w; try discriminate.
    destruct ip as [|[|[|[|ip]]]]; cbn [nth_error]; try discriminate.
    + destruct (mem d (changed s)) eqn:M; [|discriminate]. intros H; injection H as <-.
      econstructor; solve [eauto | now apply mem_In].
    + destruct ip; discriminate.
  - destruct (nth_error (thr s) i) as [[|d ip n|ip w r]|] eqn:E; try discriminate.
    + destruct (Nat.eqb_spec ip (length model_filechanged)); [|discriminate]. subst ip.
      intros H; injection H as <-. econstructor; solve [eauto].
    + destruct w; try discriminate.
      destruct (Nat.eqb_spec ip (length model_fetch)); [|discriminate]. subst ip.
      intros H; injection H as <-. econstructor; solve [eauto].
Qed.

Lemma Step_step s l s' : Step s l s' -> mstep s l = Some s'.
Proof.
  intros H; destruct H; unfold mstep, step; rewrite H; try reflexivity;
    unfold exec_f, exec_g, model_filechanged, model_fetch; cbn [nth_error];
    try rewrite H0; try reflexivity.
  - destruct (changed s); [congruence|reflexivity].
  - apply mem_In in H0. now rewrite H0.
Qed.

Inductive reach (n : nat) : st -> Prop :=
| reach0 : reach n (init n)
| reachS s l s' : reach n s -> mstep s l = Some s' -> reach n s'.

(* ------------------------------------------------------------------ invariants *)
Definition holds (p : pc) : bool :=
  match p with
  | InF _ ip _ => Nat.leb 1 ip && Nat.leb ip 3
  | InG ip Run _ => Nat.leb 1 ip && Nat.leb ip 3
  | _ => false end.

Definition wfpc (p : pc) : Prop :=
  match p with
  | Idle => True
  | InF _ ip _ => ip <= 5
  | InG ip w _ => ip <= 4 /\ (w <> Run -> ip = 1)
  end.

Fixpoint legal (l : list ev) : Prop :=
  match l with
  | [] => True
  | EFetch d :: t => pending t d = true /\ legal t
  | EReport _ :: t => legal t
  end.

Record Inv (s : st) : Prop := {
  i_wf : forall p, In p (thr s) -> wfpc p;
  i_mut : count holds (thr s) = b2n (locked s);
  i_len : forall d n, In (InF d 2 n) (thr s) -> n = length (changed s);
  i_nlw : (exists ip r, In (InG ip Parked r) (thr s)) -> changed s <> [] ->
          exists d ip, In (InF d ip 0) (thr s) /\ (ip = 3 \/ ip = 4);
  i_pend : forall d, In d (changed s) <-> pending (log s) d = true;
  i_legal : legal (log s);
  i_nodup : NoDup (changed s);
  i_ne : forall r, In (InG 2 Run r) (thr s) -> changed s <> [];
  i_res : forall ip w r, In (InG ip w r) (thr s) -> 3 <= ip -> r <> None;
  i_resl : forall ip w d, In (InG ip w (Some d)) (thr s) -> In (EFetch d) (log s) }.

Lemma holds_wake p : holds (wake p) = holds p.
Proof. destruct p as [| |ip [] r]; reflexivity. Qed.

Lemma nth_wake_all l i a : nth_error l i = Some a -> nth_error (wake_all l) i = Some (wake a).
Proof. apply map_nth_error. Qed.

Lemma In_upd_wake i x y a l : nth_error l i = Some a -> wake a = a -> In y (upd i x (wake_all l)) ->
  y = x \/ exists k y0, k <> i /\ nth_error l k = Some y0 /\ y = wake y0.
Proof.
  intros Hi Hw Hy. pose proof (nth_wake_all _ _ _ Hi) as Hi'.
  destruct (In_upd_nth _ _ _ _ _ Hi' Hy) as [->|(k & Hk & Hn)]; [left; reflexivity|right].
  unfold wake_all in Hn. destruct (nth_error l k) as [y0|] eqn:E.
  - rewrite (map_nth_error wake _ _ E) in Hn. exists k, y0. repeat split; auto. congruence.
  - apply nth_error_None in E. assert (nth_error (map wake l) k <> None) by congruence.
    apply nth_error_Some in H. rewrite map_length in H. lia.
Qed.

Lemma wake_inv_F d ip n p : wake p = InF d ip n -> p = InF d ip n.
Proof. destruct p as [| |? [] ?]; simpl; congruence. Qed.
Lemma wake_inv_G ip w r p : wake p = InG ip w r -> exists w', p = InG ip w' r /\ (w = Run -> w' = Run) /\ w <> Parked.
Proof. destruct p as [| |ip' [] r']; simpl; intros H; try discriminate; injection H as <- <- <-;
  eexists; repeat split; auto; discriminate. Qed.

(* the thread list after the (conditional) broadcast of thread i *)
Definition bc_thr (n : nat) (l : list pc) := if Nat.eqb n 0 then wake_all l else l.

Lemma wf_wake p : wfpc p -> wfpc (wake p).
Proof. destruct p as [| |ip [] r]; simpl; auto. intros [H1 H2]. split; auto. intros _. apply H2. discriminate. Qed.

Lemma init_inv n : Inv (init n).
Proof.
  constructor; simpl.
  - intros p H. apply repeat_spec in H. now subst.
  - induction n; simpl; auto.
  - intros d k H. apply repeat_spec in H. discriminate.
  - tauto.
  - intros d; split; [tauto|discriminate].
  - exact I.
  - constructor.
  - intros r H. apply repeat_spec in H. discriminate.
  - intros ip w r H. apply repeat_spec in H. discriminate.
  - intros ip w d H. apply repeat_spec in H. discriminate.
Qed.

Ltac old_wf I H := pose proof (i_wf _ I _ (nth_In _ _ _ H)) as Hold; simpl in Hold.
Ltac split_bc Hp :=
  try match type of Hp with context[if Nat.eqb ?n 0 then _ else _] => destruct (Nat.eqb_spec n 0) end.

Lemma wf_pres s l s' : Inv s -> Step s l s' -> forall p, In p (thr s') -> wfpc p.
Proof.
  intros I H; destruct H; simpl; intros p Hp; old_wf I H; split_bc Hp.
  all: try (destruct (In_upd_nth _ _ _ _ _ H Hp) as [->|(k & _ & Hn)];
            [simpl; try lia; try (split; [lia|intros; try congruence; try lia]) | apply nth_In in Hn; apply (i_wf _ I _ Hn)]).
  all: try tauto.
  destruct (In_upd_wake _ _ _ _ _ H eq_refl Hp) as [->|(k & y0 & _ & Hn & ->)]; [simpl; lia|].
  apply wf_wake. apply nth_In in Hn. apply (i_wf _ I _ Hn).
Qed.

Lemma b2n_le1 b : b2n b <= 1.
Proof. destruct b; simpl; lia. Qed.

Lemma mut_pres s l s' : Inv s -> Step s l s' -> count holds (thr s') = b2n (locked s').
Proof.
  intros I H; pose proof (i_mut _ I) as M; pose proof (b2n_le1 (locked s)) as B; destruct H; simpl; old_wf I H.
  all: try match goal with |- context[count holds (upd ?i ?x (thr ?s))] =>
         pose proof (count_upd holds i x _ _ H) as C; simpl in C end.
  all: try rewrite H0 in *; simpl in *; try lia.
  - (* broadcast *)
    destruct (Nat.eqb n 0).
    + pose proof (count_upd holds i (InF d 5 n) _ _ (nth_wake_all _ _ _ H)) as C; simpl in C.
      unfold wake_all in C at 2. rewrite count_map_ext in C by apply holds_wake. lia.
    + pose proof (count_upd holds i (InF d 5 n) _ _ H) as C; simpl in C. lia.
  - (* relock *)
    destruct Hold as [_ E]. assert (ip = 1) by (apply E; discriminate). subst ip. simpl in *. lia.
Qed.

Lemma no_two_holders s i j a b : Inv s -> i <> j -> nth_error (thr s) i = Some a -> nth_error (thr s) j = Some b ->
  holds a = true -> holds b = true -> False.
Proof.
  intros I Hne Hi Hj Ha Hb. pose proof (count_two holds _ _ _ _ _ Hne Hi Hj Ha Hb) as C.
  rewrite (i_mut _ I) in C. pose proof (b2n_le1 (locked s)). lia.
Qed.

Lemma len_pres s l s' : Inv s -> Step s l s' -> forall d n, In (InF d 2 n) (thr s') -> n = length (changed s').
Proof.
  intros I H; destruct H; simpl; intros d' n' Hp; split_bc Hp.
  all: try (destruct (In_upd_nth _ _ _ _ _ H Hp) as [E|(k & Hk & Hn)];
            [try discriminate; try (injection E as -> ->; reflexivity)
            | try (apply nth_In in Hn; apply (i_len _ I _ _ Hn))]).
  - exfalso. eapply (no_two_holders s i k); eauto.
  - destruct (In_upd_wake _ _ _ _ _ H eq_refl Hp) as [E|(k & y0 & _ & Hn & E)]; [discriminate|].
    symmetry in E. apply wake_inv_F in E. subst y0. apply nth_In in Hn. apply (i_len _ I _ _ Hn).
  - exfalso. eapply (no_two_holders s i k); eauto.
Qed.

Lemma parked_pres_other s i x a ip r : nth_error (thr s) i = Some a -> (forall ip r, x <> InG ip Parked r) ->
  In (InG ip Parked r) (upd i x (thr s)) -> In (InG ip Parked r) (thr s).
Proof.
  intros H Hx Hp. destruct (In_upd_nth _ _ _ _ _ H Hp) as [E|(k & _ & Hn)].
  - exfalso. eapply Hx; eauto.
  - eapply nth_In; eauto.
Qed.

Lemma del_nonempty d l : del d l <> [] -> l <> [].
Proof. destruct l; simpl; congruence. Qed.

Ltac keep_wit N H Hp' Hc :=
  let dw := fresh "dw" in let ipw := fresh "ipw" in let Hw := fresh "Hw" in let Hip := fresh "Hip" in
  destruct (N ltac:(eexists; eexists; exact Hp') Hc) as (dw & ipw & Hw & Hip);
  exists dw, ipw; split; [|exact Hip];
  eapply In_upd_keep; [exact H | intros E; inversion E; subst; lia | exact Hw].

Lemma nlw_pres s l s' : Inv s -> Step s l s' ->
  (exists ip r, In (InG ip Parked r) (thr s')) -> changed s' <> [] ->
  exists d ip, In (InF d ip 0) (thr s') /\ (ip = 3 \/ ip = 4).
Proof.
  intros I H; pose proof (i_nlw _ I) as N; destruct H; simpl; intros (ip0 & r0 & Hp) Hc; split_bc Hp.
  all: try (assert (Hp' : In (InG ip0 Parked r0) (thr s))
              by (eapply parked_pres_other; [exact H| | exact Hp]; intros; discriminate)).
  all: try (keep_wit N H Hp' Hc).
  - (* insert *)
    destruct (changed s) as [|c0 cs] eqn:C.
    + assert (n = 0) by (rewrite (i_len _ I d n (nth_In _ _ _ H)), C; reflexivity). subst n.
      exists d, 3. split; [eapply In_upd_self; eauto|auto].
    + assert (Hc' : changed s <> []) by (rewrite C; discriminate). rewrite <- C in *. keep_wit N H Hp' Hc'.
  - (* unlock *)
    destruct (N ltac:(eexists; eexists; exact Hp') Hc) as (dw & ipw & Hw & Hip).
    apply In_nth in Hw as [k Hk]. destruct (Nat.eq_dec i k) as [->|Hne].
    + rewrite H in Hk. injection Hk as E1 E2 E3. subst d n. exists dw, 4. split; [eapply In_upd_self; eauto|auto].
    + exists dw, ipw. split; [|exact Hip]. apply nth_In with k. rewrite nth_upd_other; auto.
  - (* broadcast with n = 0: nobody stays parked *)
    exfalso. destruct (In_upd_wake _ _ _ _ _ H eq_refl Hp) as [E|(k & y0 & _ & _ & E)]; [discriminate|].
    symmetry in E. apply wake_inv_G in E as (w' & _ & _ & E). congruence.
  - congruence.
  - apply del_nonempty in Hc. keep_wit N H Hp' Hc.
Qed.

Lemma pend_pres s l s' : Inv s -> Step s l s' -> forall d, In d (changed s') <-> pending (log s') d = true.
Proof.
  intros I H; pose proof (i_pend _ I) as P; destruct H; simpl; intros x; auto.
  - rewrite in_add. destruct (N.eqb_spec x d); [intuition|]. rewrite P. intuition.
  - rewrite in_del. destruct (N.eqb_spec x d); [intuition congruence|]. rewrite P. intuition.
Qed.

Lemma legal_pres s l s' : Inv s -> Step s l s' -> legal (log s').
Proof.
  intros I H; pose proof (i_legal _ I) as P; destruct H; simpl; auto.
  split; auto. now apply (i_pend _ I).
Qed.

Lemma nodup_pres s l s' : Inv s -> Step s l s' -> NoDup (changed s').
Proof.
  intros I H; pose proof (i_nodup _ I) as P; destruct H; simpl; auto.
  - now apply nodup_add.
  - now apply nodup_del.
Qed.

Lemma ne_pres s l s' : Inv s -> Step s l s' -> forall r, In (InG 2 Run r) (thr s') -> changed s' <> [].
Proof.
  intros I H; destruct H; simpl; intros r' Hp; split_bc Hp.
  all: try (destruct (In_upd_nth _ _ _ _ _ H Hp) as [E|(k & Hk & Hn)];
            [try discriminate; try assumption
            | try (apply nth_In in Hn; apply (i_ne _ I _ Hn))]).
  - apply add_nonempty.
  - destruct (In_upd_wake _ _ _ _ _ H eq_refl Hp) as [E|(k & y0 & _ & Hn & E)]; [discriminate|].
    symmetry in E. apply wake_inv_G in E as (w' & -> & Hw & _). rewrite (Hw eq_refl) in Hn.
    apply nth_In in Hn. apply (i_ne _ I _ Hn).
  - injection E as <- <-. pose proof (i_wf _ I _ (nth_In _ _ _ H)) as [_ W]. simpl in W.
    specialize (W ltac:(discriminate)). discriminate.
  - exfalso. eapply (no_two_holders s i k); eauto.
Qed.

Lemma res_pres s l s' : Inv s -> Step s l s' -> forall ip w r, In (InG ip w r) (thr s') -> 3 <= ip -> r <> None.
Proof.
  intros I H; destruct H; simpl; intros ip' w' r' Hp Hip; split_bc Hp.
  all: try (destruct (In_upd_nth _ _ _ _ _ H Hp) as [E|(k & Hk & Hn)];
            [try discriminate; try (injection E as -> -> ->; try lia)
            | try (apply nth_In in Hn; apply (i_res _ I _ _ _ Hn Hip))]).
  - destruct (In_upd_wake _ _ _ _ _ H eq_refl Hp) as [E|(k & y0 & _ & Hn & E)]; [discriminate|].
    symmetry in E. apply wake_inv_G in E as (w0 & -> & _ & _).
    apply nth_In in Hn. apply (i_res _ I _ _ _ Hn Hip).
  - apply (i_res _ I _ _ _ (nth_In _ _ _ H) Hip).
  - discriminate.
  - exfalso. apply (i_ne _ I _ (nth_In _ _ _ H)). assumption.
  - apply (i_res _ I _ _ _ (nth_In _ _ _ H)). lia.
Qed.

Lemma resl_pres s l s' : Inv s -> Step s l s' -> forall ip w d, In (InG ip w (Some d)) (thr s') -> In (EFetch d) (log s').
Proof.
  intros I H; destruct H; simpl; intros ip' w' d' Hp; split_bc Hp.
  all: try (destruct (In_upd_nth _ _ _ _ _ H Hp) as [E|(k & Hk & Hn)];
            [try discriminate;
             try (injection E as E1 E2 E3; subst; apply (i_resl _ I _ _ _ (nth_In _ _ _ H)))
            | try (apply nth_In in Hn; try right; apply (i_resl _ I _ _ _ Hn))]).
  - destruct (In_upd_wake _ _ _ _ _ H eq_refl Hp) as [E|(k & y0 & _ & Hn & E)]; [discriminate|].
    symmetry in E. apply wake_inv_G in E as (w0 & -> & _ & _).
    apply nth_In in Hn. apply (i_resl _ I _ _ _ Hn).
  - injection E as E1 E2 E3; subst. now left.
Qed.

Lemma inv_step s l s' : Inv s -> mstep s l = Some s' -> Inv s'.
Proof.
  intros I H. apply step_Step in H. constructor.
  - eapply wf_pres; eauto.
  - eapply mut_pres; eauto.
  - eapply len_pres; eauto.
  - eapply nlw_pres; eauto.
  - eapply pend_pres; eauto.
  - eapply legal_pres; eauto.
  - eapply nodup_pres; eauto.
  - eapply ne_pres; eauto.
  - eapply res_pres; eauto.
  - eapply resl_pres; eauto.
Qed.

Theorem reach_inv n s : reach n s -> Inv s.
Proof. induction 1; [apply init_inv|eapply inv_step; eauto]. Qed.

(* ------------------------------------------------------------------ what the ghost log says *)
Lemma legal_app_r l2 l1 : legal (l2 ++ l1) -> legal l1.
Proof. induction l2 as [|[d|d] t IH]; simpl; auto. intros [_ H]. auto. Qed.

Lemma pending_true_in l d : pending l d = true -> In (EReport d) l.
Proof.
  induction l as [|[d'|d'] t IH]; simpl; [discriminate| |].
  - destruct (N.eqb_spec d d'); [subst; auto|]. intros H. right; auto.
  - destruct (N.eqb_spec d d'); [discriminate|]. intros H. right; auto.
Qed.

(* newest-first log: l = l2 ++ EFetch d :: l1, l1 = the events before this fetch *)
Lemma log_fetch_reported l l2 d l1 : legal l -> l = l2 ++ EFetch d :: l1 -> In (EReport d) l1.
Proof. intros L ->. apply legal_app_r in L. destruct L as [P _]. now apply pending_true_in. Qed.

Lemma pending_mid l2 d l1 : pending (l2 ++ EFetch d :: l1) d = true -> In (EReport d) l2.
Proof.
  induction l2 as [|[d'|d'] t IH]; simpl.
  - rewrite N.eqb_refl. discriminate.
  - destruct (N.eqb_spec d d'); [subst; auto|]. intros H; right; auto.
  - destruct (N.eqb_spec d d'); [discriminate|]. intros H; right; auto.
Qed.

Lemma log_at_most_once l l3 d l2 l1 : legal l -> l = l3 ++ EFetch d :: l2 ++ EFetch d :: l1 -> In (EReport d) l2.
Proof. intros L ->. apply legal_app_r in L. destruct L as [P _]. now apply pending_mid in P. Qed.

Lemma log_no_loss l2 d l1 : In (EFetch d) l2 \/ pending (l2 ++ EReport d :: l1) d = true.
Proof.
  induction l2 as [|[d'|d'] t IH]; simpl.
  - rewrite N.eqb_refl. auto.
  - destruct IH as [IH|IH]; [auto|]. destruct (N.eqb d d'); auto.
  - destruct IH as [IH|IH]; [auto|]. destruct (N.eqb_spec d d'); [subst; auto|auto].
Qed.


Lemma log_counts l d : legal l -> nfet d l + b2n (pending l d) <= nrep d l.
Proof.
  induction l as [|[d'|d'] t IH]; simpl; intros L; [lia| |].
  - specialize (IH L). destruct (N.eqb d d'); simpl in *; [destruct (pending t d); simpl in *; lia|lia].
  - destruct L as [P L]. specialize (IH L). destruct (N.eqb_spec d d'); simpl in *; [subst; rewrite P in IH; simpl in IH; lia|lia].
Qed.


Lemma hist_split s h1 e h2 : hist s = h1 ++ e :: h2 -> log s = rev h2 ++ e :: rev h1.
Proof.
  unfold hist. intros H. rewrite <- (rev_involutive (log s)), H, rev_app_distr. simpl.
  now rewrite <- app_assoc.
Qed.

Theorem fetch_returns_reported n s h1 d h2 : reach n s -> hist s = h1 ++ EFetch d :: h2 -> In (EReport d) h1.
Proof.
  intros R H. apply hist_split in H. apply reach_inv in R.
  apply in_rev. eapply log_fetch_reported; [apply (i_legal _ R)|exact H].
Qed.

Theorem at_most_once_per_report n s h1 d h2 h3 : reach n s ->
  hist s = h1 ++ EFetch d :: h2 ++ EFetch d :: h3 -> In (EReport d) h2.
Proof.
  intros R H. apply reach_inv in R.
  apply hist_split in H. rewrite rev_app_distr in H. simpl in H. rewrite <- !app_assoc in H. simpl in H.
  apply in_rev. eapply log_at_most_once; [apply (i_legal _ R)|exact H].
Qed.
Theorem no_loss n s h1 d h2 : reach n s -> hist s = h1 ++ EReport d :: h2 -> In (EFetch d) h2 \/ In d (changed s).
Proof.
  intros R H. apply hist_split in H. apply reach_inv in R.
  destruct (log_no_loss (rev h2) d (rev h1)) as [F|P].
  - left. now apply in_rev.
  - right. rewrite <- H in P. now apply (i_pend _ R).
Qed.

Theorem fetches_le_reports n s d : reach n s -> nfet d (log s) <= nrep d (log s).
Proof. intros R. apply reach_inv in R. pose proof (log_counts _ d (i_legal _ R)). lia. Qed.

Theorem changed_is_pending n s d : reach n s -> (In d (changed s) <-> pending (log s) d = true).
Proof. intros R. apply reach_inv in R. apply (i_pend _ R). Qed.

(* Fetch never returns the zero value "" and returns the directory it took *)
Theorem fetch_result n s i r : reach n s -> ret_val model_fetch s i = Some r -> exists d, r = Some d /\ In (EFetch d) (log s).
Proof.
  intros R H. apply reach_inv in R. unfold ret_val in H.
  destruct (nth_error (thr s) i) as [[| |ip [] r']|] eqn:E; try discriminate.
  destruct (Nat.eqb_spec ip (length model_fetch)); [|discriminate]. injection H as <-. subst ip.
  apply nth_In in E. pose proof (i_res _ R _ _ _ E ltac:(simpl; lia)) as Hr.
  destruct r' as [d|]; [|congruence]. exists d. split; auto. eapply (i_resl _ R); eauto.
Qed.

(* no lost wake-up *)
Theorem no_lost_wakeup n s : reach n s ->
  (exists ip r, In (InG ip Parked r) (thr s)) -> changed s <> [] ->
  exists d ip, In (InF d ip 0) (thr s) /\ (ip = 3 \/ ip = 4).
Proof. intros R. apply reach_inv in R. apply (i_nlw _ R). Qed.

(* mutual exclusion; the unlock statements never hit an unlocked mutex *)
Theorem mutual_exclusion n s i j a b : reach n s -> nth_error (thr s) i = Some a -> nth_error (thr s) j = Some b ->
  holds a = true -> holds b = true -> i = j.
Proof.
  intros R Hi Hj Ha Hb. apply reach_inv in R. destruct (Nat.eq_dec i j); auto.
  exfalso. eapply no_two_holders; eauto.
Qed.

Theorem holder_means_locked n s p : reach n s -> In p (thr s) -> holds p = true -> locked s = true.
Proof.
  intros R Hp Hh. apply reach_inv in R. destruct (locked s) eqn:L; auto.
  pose proof (i_mut _ R) as M. rewrite L in M. simpl in M.
  rewrite (count_zero_all _ _ _ M Hp) in Hh. discriminate.
Qed.

(* ------------------------------------------------------------------ progress *)
(* weight of a thread; N = number of threads *)
Definition wt (N : nat) (p : pc) : nat :=
  match p with
  | Idle => 0
  | InF _ ip _ => match ip with 0 => 5*N+6 | 1 => 5*N+5 | 2 => 5*N+4 | 3 => 5*N+3 | 4 => 5*N+2 | 5 => 1 | _ => 0 end
  | InG ip Run _ => match ip with 0 => 5 | 1 => 4 | 2 => 3 | 3 => 2 | 4 => 1 | _ => 0 end
  | InG _ Parked _ => 0
  | InG _ Notified _ => 5
  end.
Fixpoint msum (f : pc -> nat) (l : list pc) : nat := match l with [] => 0 | x :: t => f x + msum f t end.
Definition mu (s : st) : nat := msum (wt (length (thr s))) (thr s).

Lemma msum_upd f i x a l : nth_error l i = Some a -> msum f (upd i x l) + f a = msum f l + f x.
Proof.
  unfold upd. revert l; induction i; intros [|b l] H; simpl in *; try discriminate.
  - injection H as ->. lia.
  - specialize (IHi l H). lia.
Qed.


Lemma msum_wake N l : msum (wt N) (wake_all l) <= msum (wt N) l + 5 * count is_parked l.
Proof. induction l as [|x l IH]; simpl; [lia|]. destruct x as [| |ip [] r]; simpl in *; lia. Qed.

Lemma count_lt_len (f : pc -> bool) l i a : nth_error l i = Some a -> f a = false -> count f l + 1 <= length l.
Proof.
  revert i; induction l as [|x l IH]; intros [|i] H Hf; simpl in *; try discriminate.
  - injection H as ->. rewrite Hf. clear. induction l as [|y l IH]; simpl; [lia|]. destruct (f y); lia.
  - specialize (IH _ H Hf). destruct (f x); lia.
Qed.

Lemma length_wake_all l : length (wake_all l) = length l.
Proof. apply map_length. Qed.

Theorem mu_decreases s l s' : Inv s -> Step s l s' -> internal l = true -> mu s' < mu s.
Proof.
  intros I H Hi; destruct H; try discriminate; unfold mu; simpl;
    pose proof (i_wf _ I _ (nth_In _ _ _ H)) as Hold; simpl in Hold.
  all: try (rewrite length_upd;
            match goal with |- context[msum ?f (upd ?i ?x (thr ?s))] =>
              pose proof (msum_upd f i x _ _ H) as C; simpl in C end; lia).
  - (* broadcast *)
    destruct (Nat.eqb n 0).
    + rewrite length_upd, length_wake_all.
      pose proof (msum_upd (wt (length (thr s))) i (InF d 5 n) _ _ (nth_wake_all _ _ _ H)) as C; simpl in C.
      pose proof (msum_wake (length (thr s)) (thr s)) as W.
      pose proof (count_lt_len is_parked _ _ _ H eq_refl) as L. lia.
    + rewrite length_upd.
      pose proof (msum_upd (wt (length (thr s))) i (InF d 5 n) _ _ H) as C; simpl in C. lia.
  - (* relock: ip = 1 *)
    destruct Hold as [_ E]. assert (ip = 1) by (apply E; discriminate). subst ip.
    rewrite length_upd.
    pose proof (msum_upd (wt (length (thr s))) i (InG 1 Run r) _ _ H) as C; simpl in C. lia.
Qed.


(* without new calls the system stops after at most mu s moves *)
Theorem internal_runs_bounded ls : forall s s', Inv s -> all_internal ls ->
  run model_filechanged model_fetch s ls = Some s' -> length ls + mu s' <= mu s.
Proof.
  induction ls as [|l ls IH]; simpl; intros s s' I A H.
  - injection H as <-. lia.
  - destruct (step model_filechanged model_fetch s l) as [s1|] eqn:E; [|discriminate].
    pose proof (mu_decreases _ _ _ I (step_Step _ _ _ E) (A l (or_introl eq_refl))) as D.
    assert (I1 : Inv s1) by (eapply inv_step; eauto).
    specialize (IH s1 s' I1 (fun x Hx => A x (or_intror Hx)) H). lia.
Qed.

Definition stuck (s : st) : Prop := forall l, internal l = true -> mstep s l = None.

Lemma holder_can_move s k a : Inv s -> nth_error (thr s) k = Some a -> holds a = true ->
  exists l s', internal l = true /\ Step s l s'.
Proof.
  intros I Hk Hh.
  assert (L : locked s = true).
  { destruct (locked s) eqn:L; auto. pose proof (i_mut _ I) as M. rewrite L in M. simpl in M.
    rewrite (count_zero_all _ _ _ M (nth_In _ _ _ Hk)) in Hh. discriminate. }
  destruct a as [|d ip n|ip w r]; simpl in Hh; try discriminate.
  - destruct ip as [|[|[|[|ip]]]]; simpl in Hh; try discriminate.
    + exists (LTau k). eexists. split; [reflexivity|]. eapply SFlen; eauto.
    + exists (LTau k). eexists. split; [reflexivity|]. eapply SFins; eauto.
    + exists (LTau k). eexists. split; [reflexivity|]. eapply SFunl; eauto.
  - destruct w; try discriminate.
    destruct ip as [|[|[|[|ip]]]]; simpl in Hh; try discriminate.
    + destruct (changed s) as [|c cs] eqn:C.
      * exists (LTau k). eexists. split; [reflexivity|]. eapply SGpark; eauto.
      * exists (LTau k). eexists. split; [reflexivity|]. eapply SGpass; eauto. congruence.
    + destruct (changed s) as [|c cs] eqn:C.
      * exists (LTau k). eexists. split; [reflexivity|]. eapply SGskip; eauto.
      * exists (LTake k c). eexists. split; [reflexivity|]. eapply SGtake; eauto. rewrite C. now left.
    + exists (LTau k). eexists. split; [reflexivity|]. eapply SGunl; eauto.
Qed.

(* when no move is possible every thread is idle or parked in Wait, and then the set is empty:
   a non-empty set never coexists with a fetcher that cannot proceed *)
Theorem stuck_spec s : Inv s -> stuck s ->
  (forall p, In p (thr s) -> p = Idle \/ exists ip r, p = InG ip Parked r) /\
  ((exists ip r, In (InG ip Parked r) (thr s)) -> changed s = []).
Proof.
  intros I Q.
  assert (NoMove : forall l s', internal l = true -> Step s l s' -> False).
  { intros l s' Hi Hs. apply Step_step in Hs. rewrite (Q l Hi) in Hs. discriminate. }
  assert (L : locked s = false).
  { destruct (locked s) eqn:L; auto. exfalso.
    pose proof (i_mut _ I) as M. rewrite L in M. simpl in M.
    destruct (count_pos_ex holds (thr s) ltac:(lia)) as (k & a & Hk & Ha).
    destruct (holder_can_move _ _ _ I Hk Ha) as (l & s' & Hi & Hs). eauto. }
  assert (A : forall p, In p (thr s) -> p = Idle \/ exists ip r, p = InG ip Parked r).
  { intros p Hp. pose proof (i_wf _ I _ Hp) as W. apply In_nth in Hp as [k Hk].
    destruct p as [|d ip n|ip w r]; [now left| |]; [|destruct w; [| right; eauto |]]; exfalso.
    - simpl in W. destruct ip as [|[|[|[|[|[|ip]]]]]]; try lia.
      + eapply (NoMove (LTau k)); [reflexivity|eapply SFlock; eauto].
      + eapply (NoMove (LTau k)); [reflexivity|eapply SFlen; eauto].
      + eapply (NoMove (LTau k)); [reflexivity|eapply SFins; eauto].
      + pose proof (i_mut _ I) as M. rewrite L in M. simpl in M.
        pose proof (count_zero_all _ _ _ M (nth_In _ _ _ Hk)). discriminate.
      + eapply (NoMove (LTau k)); [reflexivity|eapply SFbc; eauto].
      + eapply (NoMove (LRet k)); [reflexivity|eapply SFret; eauto].
    - simpl in W. destruct W as [W _]. destruct ip as [|[|[|[|[|ip]]]]]; try lia.
        * eapply (NoMove (LTau k)); [reflexivity|eapply SGlock; eauto].
        * pose proof (i_mut _ I) as M. rewrite L in M. simpl in M.
          pose proof (count_zero_all _ _ _ M (nth_In _ _ _ Hk)). discriminate.
        * pose proof (i_mut _ I) as M. rewrite L in M. simpl in M.
          pose proof (count_zero_all _ _ _ M (nth_In _ _ _ Hk)). discriminate.
        * pose proof (i_mut _ I) as M. rewrite L in M. simpl in M.
          pose proof (count_zero_all _ _ _ M (nth_In _ _ _ Hk)). discriminate.
        * eapply (NoMove (LRet k)); [reflexivity|eapply SGret; eauto].
    - eapply (NoMove (LTau k)); [reflexivity|eapply SGrelock; eauto]. }
  split; [exact A|].
  intros P. destruct (changed s) as [|c cs] eqn:C; auto. exfalso.
  destruct (i_nlw _ I P ltac:(rewrite C; discriminate)) as (d & ip & Hw & _).
  destruct (A _ Hw) as [E|(ip' & r & E)]; discriminate.
Qed.

(* ------------------------------------------------------------------ progress, constructively *)
Lemma progress s k p : Inv s -> nth_error (thr s) k = Some p -> p <> Idle -> is_parked p = false ->
  exists l s', internal l = true /\ Step s l s'.
Proof.
  intros I Hk Hne Hp. destruct (locked s) eqn:L.
  - pose proof (i_mut _ I) as M. rewrite L in M. simpl in M.
    destruct (count_pos_ex holds (thr s) ltac:(lia)) as (j & a & Hj & Ha).
    eapply holder_can_move; eauto.
  - assert (NH : holds p = false).
    { pose proof (i_mut _ I) as M. rewrite L in M. simpl in M. eapply count_zero_all; eauto. eapply nth_In; eauto. }
    pose proof (i_wf _ I _ (nth_In _ _ _ Hk)) as W.
    destruct p as [|d ip n|ip w r]; [congruence| |].
    + simpl in W, NH. destruct ip as [|[|[|[|[|[|ip]]]]]]; try lia; try discriminate.
      * exists (LTau k). eexists. split; [reflexivity|eapply SFlock; eauto].
      * exists (LTau k). eexists. split; [reflexivity|eapply SFbc; eauto].
      * exists (LRet k). eexists. split; [reflexivity|eapply SFret; eauto].
    + destruct w; [|discriminate|].
      * simpl in W, NH. destruct W as [W _]. destruct ip as [|[|[|[|[|ip]]]]]; try lia; try discriminate.
        -- exists (LTau k). eexists. split; [reflexivity|eapply SGlock; eauto].
        -- exists (LRet k). eexists. split; [reflexivity|eapply SGret; eauto].
      * exists (LTau k). eexists. split; [reflexivity|eapply SGrelock; eauto].
Qed.

(* a fetcher that has not returned while the set is non-empty: the system can move *)
Theorem waiting_fetch_progress s k p : Inv s -> nth_error (thr s) k = Some p -> in_fetch p = true ->
  changed s <> [] -> exists l s', internal l = true /\ mstep s l = Some s'.
Proof.
  intros I Hk Hf Hc.
  assert (exists l s', internal l = true /\ Step s l s') as (l & s' & Hi & Hs).
  { destruct (is_parked p) eqn:P.
    - destruct p as [| |ip [] r]; try discriminate.
      destruct (i_nlw _ I ltac:(eexists; eexists; eapply nth_In; exact Hk) Hc) as (d & ipw & Hw & _).
      apply In_nth in Hw as [j Hj]. eapply progress; eauto; discriminate.
    - eapply progress; eauto. destruct p; discriminate. }
  exists l, s'. split; auto. now apply Step_step.
Qed.

(* ------------------------------------------------------------------ transport to the generated programs *)
Lemma gen_is_model : gen_filechanged = model_filechanged /\ gen_fetch = model_fetch.
Proof. vm_compute. split; reflexivity. Qed.

Lemma gstep_mstep : gstep = mstep.
Proof. unfold gstep, mstep. destruct gen_is_model as [-> ->]. reflexivity. Qed.

Lemma greach_reach n s : greach n s <-> reach n s.
Proof.
  split; induction 1; try (constructor; fail).
  - eapply reachS; [eassumption|]. rewrite <- gstep_mstep. eassumption.
  - eapply greachS; [eassumption|]. rewrite gstep_mstep. eassumption.
Qed.

Lemma gstuck_stuck s : gstuck s <-> stuck s.
Proof. unfold gstuck, stuck. rewrite gstep_mstep. tauto. Qed.

(* ------------------------------------------------------------------ statements over the generated programs *)
Lemma grun_mrun : grun = run model_filechanged model_fetch.
Proof. unfold grun. destruct gen_is_model as [-> ->]. reflexivity. Qed.

Lemma grun_greach n ls : forall s s', greach n s -> grun s ls = Some s' -> greach n s'.
Proof.
  induction ls as [|l ls IH]; simpl; intros s s' R H.
  - unfold grun in H. simpl in H. injection H as <-. exact R.
  - unfold grun in H. simpl in H. destruct (step gen_filechanged gen_fetch s l) as [s1|] eqn:E; [|discriminate].
    eapply IH; [|exact H]. eapply greachS; eauto.
Qed.

Lemma g_fetch_returns_reported n s h1 d h2 : greach n s -> hist s = h1 ++ EFetch d :: h2 -> In (EReport d) h1.
Proof. intros R. apply greach_reach in R. eapply fetch_returns_reported; eauto. Qed.

Lemma g_at_most_once_per_report n s h1 d h2 h3 : greach n s ->
  hist s = h1 ++ EFetch d :: h2 ++ EFetch d :: h3 -> In (EReport d) h2.
Proof. intros R. apply greach_reach in R. eapply at_most_once_per_report; eauto. Qed.

Lemma g_no_loss n s h1 d h2 : greach n s -> hist s = h1 ++ EReport d :: h2 -> In (EFetch d) h2 \/ In d (changed s).
Proof. intros R. apply greach_reach in R. eapply no_loss; eauto. Qed.

Lemma g_fetches_le_reports n s d : greach n s -> nfet d (log s) <= nrep d (log s).
Proof. intros R. apply greach_reach in R. eapply fetches_le_reports; eauto. Qed.

Lemma g_changed_is_pending n s d : greach n s -> (In d (changed s) <-> pending (log s) d = true).
Proof. intros R. apply greach_reach in R. eapply changed_is_pending; eauto. Qed.

Lemma g_changed_nodup n s : greach n s -> NoDup (changed s).
Proof. intros R. apply greach_reach, reach_inv in R. apply (i_nodup _ R). Qed.

Lemma g_fetch_result n s i r : greach n s -> gret_val s i = Some r -> exists d, r = Some d /\ In (EFetch d) (log s).
Proof.
  intros R H. apply greach_reach in R. unfold gret_val in H. destruct gen_is_model as [_ E]. rewrite E in H.
  eapply fetch_result; eassumption.
Qed.

Lemma g_no_lost_wakeup n s : greach n s ->
  (exists ip r, In (InG ip Parked r) (thr s)) -> changed s <> [] ->
  exists d ip, In (InF d ip 0) (thr s) /\ (ip = 3 \/ ip = 4).
Proof. intros R. apply greach_reach in R. eapply no_lost_wakeup; eauto. Qed.

Lemma g_mutual_exclusion n s i j a b : greach n s -> nth_error (thr s) i = Some a -> nth_error (thr s) j = Some b ->
  holds a = true -> holds b = true -> i = j.
Proof. intros R. apply greach_reach in R. eapply mutual_exclusion; eauto. Qed.

Lemma g_holder_means_locked n s p : greach n s -> In p (thr s) -> holds p = true -> locked s = true.
Proof. intros R. apply greach_reach in R. eapply holder_means_locked; eauto. Qed.

Lemma g_stuck_spec n s : greach n s -> gstuck s ->
  (forall p, In p (thr s) -> p = Idle \/ exists ip r, p = InG ip Parked r) /\
  ((exists ip r, In (InG ip Parked r) (thr s)) -> changed s = []).
Proof. intros R Q. apply greach_reach, reach_inv in R. apply gstuck_stuck in Q. now apply stuck_spec. Qed.

Lemma g_waiting_fetch_progress n s k p : greach n s -> nth_error (thr s) k = Some p -> in_fetch p = true ->
  changed s <> [] -> exists l s', internal l = true /\ gstep s l = Some s'.
Proof. intros R. apply greach_reach, reach_inv in R. rewrite gstep_mstep. now apply waiting_fetch_progress. Qed.

Lemma g_internal_runs_bounded n s ls s' : greach n s -> all_internal ls -> grun s ls = Some s' -> length ls + mu s' <= mu s.
Proof. intros R A H. apply greach_reach, reach_inv in R. rewrite grun_mrun in H. eapply internal_runs_bounded; eauto. Qed.

(* the runner's boolean test `quiescent` (printed as stuck=1 at every observation Q) is exactly gstuck *)
Lemma existsb_seq_false f n : existsb f (seq 0 n) = false <-> forall i, i < n -> f i = false.
Proof.
  split.
  - intros H i Hi. destruct (f i) eqn:E; auto.
    assert (existsb f (seq 0 n) = true) by (apply existsb_exists; exists i; split; auto; apply in_seq; lia). congruence.
  - intros H. destruct (existsb f (seq 0 n)) eqn:E; auto.
    apply existsb_exists in E as (i & Hi & Fi). apply in_seq in Hi. rewrite H in Fi by lia. discriminate.
Qed.

Lemma step_out_of_range s l i : length (thr s) <= i ->
  (l = LTau i \/ l = LRet i \/ exists d, l = LTake i d) -> gstep s l = None.
Proof.
  intros Hi Hl. assert (E : nth_error (thr s) i = None) by (apply nth_error_None; exact Hi).
  destruct Hl as [->|[->|[d ->]]]; unfold gstep, step; rewrite E; reflexivity.
Qed.

(* the take statement is enabled for one member of the set iff for every member *)
Lemma take_any s i d d' s1 : gstep s (LTake i d) = Some s1 -> In d' (changed s) -> exists s2, gstep s (LTake i d') = Some s2.
Proof.
  unfold gstep, step. destruct (nth_error (thr s) i) as [[| |ip w r]|]; try discriminate.
  unfold exec_g. destruct w; try discriminate.
  destruct gen_is_model as [_ ->]. unfold model_fetch.
  destruct ip as [|[|[|[|ip]]]]; cbn [nth_error]; try discriminate; try (destruct ip; discriminate).
  destruct (mem d (changed s)); [|discriminate]. intros _ H. apply mem_In in H. rewrite H. eauto.
Qed.

Lemma take_member s i d s1 : gstep s (LTake i d) = Some s1 -> In d (changed s).
Proof.
  unfold gstep, step. destruct (nth_error (thr s) i) as [[| |ip w r]|]; try discriminate.
  unfold exec_g. destruct w; try discriminate.
  destruct gen_is_model as [_ ->]. unfold model_fetch.
  destruct ip as [|[|[|[|ip]]]]; cbn [nth_error]; try discriminate; try (destruct ip; discriminate).
  destruct (mem d (changed s)) eqn:M; [|discriminate]. intros _. now apply mem_In.
Qed.

Theorem quiescent_gstuck s : quiescent s = true <-> gstuck s.
Proof.
  unfold quiescent. rewrite negb_true_iff, existsb_seq_false. split.
  - intros H l Hl. destruct l as [i d|i|i|i d|i]; try discriminate.
    + destruct (Nat.lt_ge_cases i (length (thr s))) as [Hi|Hi]; [|apply step_out_of_range with i; auto].
      specialize (H i Hi). unfold enabled_thread in H. destruct (gstep s (LTau i)); [discriminate|reflexivity].
    + destruct (Nat.lt_ge_cases i (length (thr s))) as [Hi|Hi]; [|apply step_out_of_range with i; eauto].
      specialize (H i Hi). unfold enabled_thread in H.
      destruct (gstep s (LTake i d)) as [s1|] eqn:E; auto. exfalso.
      destruct (gstep s (LTau i)); [discriminate|]. destruct (gstep s (LRet i)); [discriminate|].
      pose proof (take_member _ _ _ _ E) as M. destruct (changed s) as [|c cs] eqn:C; [destruct M|].
      destruct (take_any s i d c s1 E ltac:(rewrite C; now left)) as [s2 E2]. rewrite E2 in H. discriminate.
    + destruct (Nat.lt_ge_cases i (length (thr s))) as [Hi|Hi]; [|apply step_out_of_range with i; auto].
      specialize (H i Hi). unfold enabled_thread in H.
      destruct (gstep s (LTau i)); [discriminate|]. destruct (gstep s (LRet i)); [discriminate|reflexivity].
  - intros G i Hi. unfold enabled_thread.
    rewrite (G (LTau i) eq_refl), (G (LRet i) eq_refl). destruct (changed s); auto. rewrite (G (LTake i d) eq_refl). reflexivity.
Qed.
