(* Lemmas about the matcher model Model/Tpl.v: fuel monotonicity, determinism, shapes. *)
From Coq Require Import List NArith ZArith Bool Arith Lia.
Import ListNotations.
From V Require Import Base.Prelude Base.TplRes Gen.Tokens Model.Tpl.
Local Open Scope nat_scope.

Section WithEnv.
Variable env : list (option m).
Variable toks : list tokn.
Notation run := (run env toks).

Definition is_fuel {A} (x : M A) : bool := match x with OutOfFuel => true | _ => false end.

(* a run that did not run out of fuel gives the same result with more fuel *)
Lemma run_mono : forall f s, is_fuel (run f s) = false -> run (S f) s = run f s.
Proof.
  induction f as [|f IH]; intros s H; [discriminate|].
  remember (S f) as f' eqn:Ef. rewrite Ef in H. rewrite Ef at 2. cbn [Tpl.run] in *. clear Ef.
  assert (R : forall s', is_fuel (run f s') = false -> run f' s' = run f s') by (subst; auto).
  destruct s as [g i|opts stops i nmax|items i n acc|r i n acc].
  - destruct g; auto.
    + (* MRep1 *)
      destruct (run f (SM g i)) as [[[n0 x0] [|]]| |] eqn:E; try discriminate; rewrite (R (SM g i)) by (rewrite E; auto); rewrite E; auto.
    + (* MRep01 *)
      destruct (run f (SM g i)) as [[[n0 x0] [|]]| |] eqn:E; try discriminate; rewrite (R (SM g i)) by (rewrite E; auto); rewrite E; auto.
    + (* MAdj *)
      destruct (run f (SM g1 i)) as [[[n0 x0] [|]]| |] eqn:E; try discriminate; rewrite (R (SM g1 i)) by (rewrite E; auto); rewrite E; auto.
      destruct (Nat.eqb n0 0); auto.
      destruct (run f (SM g2 (i + n0))) as [[[n1 x1] [|]]| |] eqn:E2; try discriminate;
        rewrite (R (SM g2 (i + n0))) by (rewrite E2; auto); rewrite E2; auto.
    + (* MVar *)
      destruct (nth_error env v) as [[e|]|]; auto.
  - destruct opts as [|o t]; auto.
    destruct (run f (SM o i)) as [[[n0 x0] [|]]| |] eqn:E; try discriminate; rewrite (R (SM o i)) by (rewrite E; auto); rewrite E; auto.
    destruct stops as [|s st]; auto. destruct (Nat.ltb 0 n0 && s); auto.
  - destruct items as [|it t]; auto.
    destruct (run f (SM it (i + n))) as [[[n0 x0] [|]]| |] eqn:E; try discriminate; rewrite (R (SM it (i + n))) by (rewrite E; auto); rewrite E; auto.
  - destruct (run f (SM r (i + n))) as [[[n0 x0] [|]]| |] eqn:E; try discriminate; rewrite (R (SM r (i + n))) by (rewrite E; auto); rewrite E; auto.
Qed.

Lemma run_mono_le f f' s : f <= f' -> is_fuel (run f s) = false -> run f' s = run f s.
Proof.
  induction 1; auto. intros H1. rewrite run_mono; auto. rewrite IHle; auto.
Qed.

(* determinism across fuels: two terminating runs agree *)
Lemma run_det f1 f2 s : is_fuel (run f1 s) = false -> is_fuel (run f2 s) = false -> run f1 s = run f2 s.
Proof.
  intros H1 H2. destruct (Nat.le_ge_cases f1 f2).
  - symmetry. apply run_mono_le; auto.
  - apply run_mono_le; auto.
Qed.

End WithEnv.
