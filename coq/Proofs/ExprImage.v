(* What the parser model returns: every tree it produces is well-formed (validb), has every operand at
   a readable position (posokb) and needs no further parentheses (noaddw) — the hypotheses of the round
   trip.  Proved as an invariant of one parser layer (step), generic in the recursive calls. *)
From Coq Require Import List ZArith Bool Lia Arith.
Import ListNotations.
From V Require Import Base.Prelude Gen.Tokens Model.Expr Proofs.ExprFuel Proofs.Expr.
Open Scope Z_scope.

(* ---- the regenerated precedence function over ALL token codes ---- *)
Section PrecAll.
Transparent prec.
Lemma prec_pos_range z : 0 < prec z -> 0 <= z < 128.
Proof.
  unfold prec, xgo_Precedence. cbn [bind ret].
  repeat match goal with |- context[Z.eqb z ?k] => destruct (Z.eqb_spec z k); [subst; intros; lia|] end.
  cbn. lia.
Qed.
Lemma prec_range z : 0 <= prec z <= 5.
Proof.
  unfold prec, xgo_Precedence. cbn [bind ret].
  repeat match goal with |- context[Z.eqb z ?k] => destruct (Z.eqb_spec z k); [subst; cbn; lia|] end.
  cbn. lia.
Qed.
End PrecAll.
Global Opaque prec.

Lemma prec_binop z : 0 < prec z -> is_binop z = true.
Proof.
  intros H. pose proof (prec_pos_range z H). unfold is_binop.
  rewrite (proj2 (Z.leb_le 0 z)), (proj2 (Z.ltb_lt z 128)), (proj2 (Z.ltb_lt 0 (prec z))) by lia. reflexivity.
Qed.

(* ---- shape ---- *)
Fixpoint noaddw (e : expr) : bool :=      (* noaddb without the "no doubled parentheses" clause *)
  match e with
  | EId _ | ELit _ _ => true
  | EBin op x y => tight (prec op) x && tight (prec op + 1) y && noaddw x && noaddw y
  | EUn _ x => tight UnaryPrec x && noaddw x
  | EStar x => tight UnaryPrec x && noaddw x
  | EPar x => noaddw x
  | ECall f args _ => tight HighestPrec f && noaddw f && forallb noaddw args
  | EIdx x i => tight HighestPrec x && noaddw x && noaddw i
  | ESel x _ => tight HighestPrec x && noaddw x
  | EEw _ x => tight HighestPrec x && noaddw x
  | EEwd _ x d => tight HighestPrec x && tight UnaryPrec d && noaddw x && noaddw d
  | ELam _ _ rhs _ => forallb noaddw rhs
  end.
Definition shp (e : expr) : bool := validb e && posokb e && noaddw e.

Lemma shp_inv e : shp e = true -> validb e = true /\ posokb e = true /\ noaddw e = true.
Proof. unfold shp. intros H. bsplit. auto. Qed.
Lemma shp_intro e : validb e = true -> posokb e = true -> noaddw e = true -> shp e = true.
Proof. unfold shp. intros -> -> ->. reflexivity. Qed.

Lemma tlev_le_plev e : tlev e <= plev e.
Proof. rewrite (tlev_eq_plev e). lia. Qed.

Lemma lev_ok p x : p <= tlev x -> tight p x = true /\ ok_at p p x = true.
Proof.
  intros H. pose proof (tlev_le_plev x). unfold tight, ok_at.
  rewrite (proj2 (Z.ltb_ge (plev x) p)) by lia. rewrite (proj2 (Z.leb_le p (tlev x))) by lia. auto.
Qed.
Lemma lev_ok78 x : 8 <= tlev x -> tight HighestPrec x = true /\ ok_at HighestPrec 8 x = true.
Proof.
  intros H. pose proof (tlev_le_plev x). unfold tight, ok_at.
  rewrite (proj2 (Z.ltb_ge (plev x) HighestPrec)) by zl. rewrite (proj2 (Z.leb_le 8 (tlev x))) by lia. auto.
Qed.
Lemma lev_ok0 q x : q <= tlev x -> ok_at LowestPrec q x = true.
Proof. intros H. unfold ok_at. rewrite (proj2 (Z.leb_le q (tlev x))) by lia. apply orb_true_r. Qed.

Ltac andbs := repeat match goal with |- (_ && _) = true => apply andb_true_intro; split end; auto.
Ltac shp_split :=
  repeat match goal with
  | H : shp _ = true |- _ => apply shp_inv in H as (? & ? & ?)
  end.

Lemma shp_bin op x y : is_binop op = true -> shp x = true -> shp y = true ->
  prec op <= tlev x -> prec op + 1 <= tlev y -> shp (EBin op x y) = true.
Proof.
  intros B X Y Lx Ly. shp_split. destruct (lev_ok _ _ Lx) as [T1 O1]. destruct (lev_ok _ _ Ly) as [T2 O2].
  apply shp_intro; cbn [validb posokb noaddw]; andbs.
Qed.
Lemma shp_un op x : un_ok op = true -> shp x = true -> UnaryPrec <= tlev x -> shp (EUn op x) = true.
Proof.
  intros U X L. shp_split. destruct (lev_ok _ _ L) as [T1 O1].
  apply shp_intro; cbn [validb posokb noaddw]; andbs.
Qed.
Lemma shp_star x : shp x = true -> UnaryPrec <= tlev x -> shp (EStar x) = true.
Proof.
  intros X L. shp_split. destruct (lev_ok _ _ L) as [T1 O1]. apply shp_intro; cbn [validb posokb noaddw]; andbs.
Qed.
Lemma shp_par x : shp x = true -> shp (EPar x) = true.
Proof. intros X. shp_split. apply shp_intro; cbn [validb posokb noaddw]; auto. Qed.
Lemma shp_sel x s : shp x = true -> 8 <= tlev x -> shp (ESel x s) = true.
Proof.
  intros X L. shp_split. destruct (lev_ok78 _ L) as [T1 O1].
  apply shp_intro; cbn [validb posokb noaddw]; andbs.
Qed.
Lemma shp_idx x i : shp x = true -> 8 <= tlev x -> shp i = true -> shp (EIdx x i) = true.
Proof.
  intros X L I. shp_split. destruct (lev_ok78 _ L) as [T1 O1].
  apply shp_intro; cbn [validb posokb noaddw]; andbs.
Qed.
Lemma forallb_shp l : forallb shp l = true ->
  forallb validb l = true /\ forallb posokb l = true /\ forallb noaddw l = true.
Proof.
  induction l as [|a l IH]; cbn [forallb]; auto. intros H. apply andb_prop in H as [A L].
  apply shp_inv in A as (? & ? & ?). destruct (IH L) as (? & ? & ?).
  repeat split; apply andb_true_intro; auto.
Qed.
Lemma shp_call f args ell : shp f = true -> 8 <= tlev f -> forallb shp args = true ->
  (ell = true -> args <> []) -> shp (ECall f args ell) = true.
Proof.
  intros X L A E. shp_split. destruct (lev_ok78 _ L) as [T1 O1]. destruct (forallb_shp _ A) as (A1 & A2 & A3).
  apply shp_intro; cbn [validb posokb noaddw]; andbs.
  destruct ell; auto. destruct args; [exfalso; now apply E|reflexivity].
Qed.
Lemma shp_ew t x : ew_ok t = true -> shp x = true -> 8 <= tlev x -> shp (EEw t x) = true.
Proof.
  intros T X L. shp_split. destruct (lev_ok78 _ L) as [T1 O1]. apply shp_intro; cbn [validb posokb noaddw]; andbs.
Qed.
Lemma shp_ewd t x d : ew_ok t = true -> shp x = true -> 8 <= tlev x -> shp d = true -> UnaryPrec <= tlev d ->
  shp (EEwd t x d) = true.
Proof.
  intros T X L D Ld. shp_split. destruct (lev_ok78 _ L) as [T1 O1]. destruct (lev_ok _ _ Ld) as [T2 O2].
  apply shp_intro; cbn [validb posokb noaddw]; andbs.
Qed.
Lemma shp_lam lhs lp rhs rp : (lp || (length lhs <=? 1)%nat) = true -> rhs <> [] -> (rp || (length rhs =? 1)%nat) = true ->
  forallb shp rhs = true -> (rp || negb (match rhs with a :: _ => starts_lp a | [] => false end)) = true ->
  shp (ELam lhs lp rhs rp) = true.
Proof.
  intros A B C D E. destruct (forallb_shp _ D) as (D1 & D2 & D3).
  apply shp_intro; cbn [validb posokb noaddw]; andbs.
  destruct rhs; [congruence|reflexivity].
Qed.

Lemma shp_ew_inv t x : shp (EEw t x) = true -> ew_ok t = true /\ shp x = true /\ 8 <= tlev x.
Proof.
  intros H. apply shp_inv in H as (V & K & N). cbn [validb posokb noaddw] in *. bsplit.
  repeat split; auto; [apply shp_intro; auto|].
  match goal with Ho : ok_at HighestPrec 8 x = true, Ht : tight HighestPrec x = true |- _ =>
    apply ok_at_inv in Ho as [Ho|[_ Ho]]; auto; unfold tight in Ht; rewrite Ho in Ht; discriminate Ht end.
Qed.

Lemma plev8 x : 8 <= tlev x -> (plev x <? HighestPrec) = false.
Proof. intros H. pose proof (tlev_le_plev x). apply Z.ltb_ge. zl. Qed.

(* ---- the invariant of one parser layer ---- *)
Definition okv (v : option pv) : Prop :=
  match v with None => True | Some (PE e) => shp e = true | Some (PT items _) => forallb shp items = true end.

Definition pre (s : st) (ts : list tok) : Prop :=
  match s with
  | SPrimLoop x => shp x = true /\ 8 <= tlev x
  | SBinLoop p1 x => shp x = true /\ 1 <= p1 <= 6 /\ p1 <= tlev x /\ hprec ts <= tlev x
  | SBinary p1 _ => 1 <= p1 <= 6
  | SArgs fn acc => shp fn = true /\ 8 <= tlev fn /\ forallb shp acc = true
  | SLamRhs acc | STuple acc => forallb shp acc = true
  | SLam x => okv x
  | _ => True
  end.

Definition lvl (s : st) : Z :=
  match s with
  | SExpr | SLam _ => 0
  | SBinary p1 _ | SBinLoop p1 _ => p1
  | SUnary _ => 6
  | SErrWrap _ => 6
  | _ => 8
  end.

Definition lead (s : st) (ts : list tok) (e : expr) : Prop :=
  match s with
  | SPrimLoop x | SBinLoop _ x => starts_lp e = starts_lp x
  | SArgs fn _ => starts_lp e = starts_lp fn
  | SLam x => starts_lp e = match x with Some (PE e0) => is_par e0 | Some (PT _ _) => true | None => false end
  | _ => starts_lp e = true -> hd_is xgo_LPAREN ts = true
  end.

Definition post (s : st) (ts : list tok) (v : pv) (r : list tok) : Prop :=
  match v with
  | PE e =>
      match s with
      | SLamRhs _ | STuple _ => False
      | _ => shp e = true /\ lvl s <= tlev e /\
             match s with SBinary p1 _ | SBinLoop p1 _ => hprec r < p1 | _ => True end /\ lead s ts e
      end
  | PT items _ =>
      match s with
      | SLamRhs _ => forallb shp items = true /\ items <> []
      | STuple _ => forallb shp items = true
      | SOperand _ | SPrimary _ | SErrWrap _ | SUnary _ | SBinary _ _ => forallb shp items = true /\ hd_is xgo_LPAREN ts = true
      | _ => False
      end
  end.

Definition Inv (rec : st -> list tok -> res) : Prop :=
  forall s ts v r, pre s ts -> rec s ts = ROk v r -> post s ts v r.

Lemma hprec_le5 r : hprec r <= 5.
Proof. destruct r as [|[?|? ?|z] r]; cbn [hprec]; try lia. pose proof (prec_range (tok_op z)). lia. Qed.

Lemma lam_lhs_ok x lhs lp : okv x -> lam_lhs x = Some (lhs, lp) ->
  (lp || (length lhs <=? 1)%nat) = true /\
  lp = match x with Some (PE e0) => is_par e0 | Some (PT _ _) => true | None => false end.
Proof.
  destruct x as [[e|items ell]|]; cbn [lam_lhs]; intros _ H.
  - destruct (unpar e); try discriminate. injection H as <- <-. split; [apply orb_true_r|reflexivity].
  - destruct (idents items); try discriminate. injection H as <- <-. auto.
  - injection H as <- <-. auto.
Qed.

Lemma forallb_snoc l a : forallb shp l = true -> shp a = true -> forallb shp (l ++ [a]) = true.
Proof. intros L A. rewrite forallb_app, L. cbn [forallb]. now rewrite A. Qed.

(* kill the impossible branches of an equation  step ... = ROk v r *)
Ltac crush H :=
  repeat (first
    [ discriminate H
    | match type of H with
      | context[if ?b then _ else _] => destruct b eqn:?
      | context[match ?x with _ => _ end] =>
          match x with
          | context[_ _ _] => fail 1      (* a recursive call: handled by hand *)
          | _ => destruct x eqn:?
          end
      end ]).

Section Layer.
Variable rec : st -> list tok -> res.
Hypothesis HI : Inv rec.

Lemma inv_operand atp ts v r : step rec (SOperand atp) ts = ROk v r -> post (SOperand atp) ts v r.
Proof.
  intros H. cbn [step] in H. destruct ts as [|[s|k s|z] ts]; try discriminate.
  - injection H as <- <-. cbn [post lvl lead]. repeat split; try reflexivity; try lia. discriminate.
  - injection H as <- <-. cbn [post lvl lead]. repeat split; try reflexivity; try lia. discriminate.
  - destruct (Z.eqb z xgo_LPAREN) eqn:EZ; [|crush H].
    assert (HL : hd_is xgo_LPAREN (TOp z :: ts) = true) by exact EZ.
    destruct (atp && hd_is xgo_RPAREN ts) eqn:E1.
    + injection H as <- <-. cbn [post]. auto.
    + destruct (rec SExpr ts) as [[x|? ?] r'| | |] eqn:E; try discriminate.
      pose proof (HI SExpr ts _ _ I E) as (Sx & _ & _ & _).
      destruct (atp && (hd_is xgo_COMMA r' || hd_is xgo_ELLIPSIS r')) eqn:E2.
      * pose proof (HI (STuple [x]) r' v r) as Q. cbn [pre forallb] in Q. rewrite Sx in Q. specialize (Q eq_refl H).
        destruct v as [e|items ell]; cbn [post] in *; [contradiction|auto].
      * crush H. injection H as <- <-. cbn [post lvl lead]. repeat split; auto; try (cbn [tlev]; lia); try (now apply shp_par).
Qed.

Ltac use_rec E := (* E : rec s ts = ROk v r ; derive its post *)
  match type of E with rec ?s ?ts = ROk ?v ?r => let Q := fresh "Q" in pose proof (HI s ts v r) as Q end.

Lemma inv_tuple acc ts v r : forallb shp acc = true -> step rec (STuple acc) ts = ROk v r -> post (STuple acc) ts v r.
Proof.
  intros A H. cbn [step] in H. destruct ts as [|[s|k s|z] ts]; try discriminate.
  destruct (Z.eqb z xgo_COMMA) eqn:E1.
  - destruct (rec SExpr ts) as [[x|? ?] r'| | |] eqn:E; try discriminate.
    pose proof (HI SExpr ts _ _ I E) as (Sx & _).
    pose proof (HI (STuple (acc ++ [x])) r' v r (forallb_snoc _ _ A Sx) H) as Q.
    destruct v; cbn [post] in *; auto.
  - destruct (Z.eqb z xgo_ELLIPSIS) eqn:E2.
    + crush H. injection H as <- <-. cbn [post]. auto.
    + crush H. injection H as <- <-. cbn [post]. auto.
Qed.

Lemma inv_lamrhs acc ts v r : forallb shp acc = true -> step rec (SLamRhs acc) ts = ROk v r -> post (SLamRhs acc) ts v r.
Proof.
  intros A H. cbn [step] in H.
  destruct (rec SExpr ts) as [[e|? ?] r'| | |] eqn:E; try discriminate.
  pose proof (HI SExpr ts _ _ I E) as (Se & _).
  destruct r' as [|[?|? ?|z] r']; try discriminate.
  destruct (Z.eqb z xgo_COMMA) eqn:E1.
  - pose proof (HI (SLamRhs (acc ++ [e])) r' v r (forallb_snoc _ _ A Se) H) as Q.
    destruct v; cbn [post] in *; auto.
  - crush H. injection H as <- <-. cbn [post]. split; [now apply forallb_snoc|]. destruct acc; discriminate.
Qed.

Lemma inv_primary atp ts v r : step rec (SPrimary atp) ts = ROk v r -> post (SPrimary atp) ts v r.
Proof.
  intros H. cbn [step] in H.
  destruct (rec (SOperand atp) ts) as [[x|items ell] r'| | |] eqn:E; try discriminate.
  - pose proof (HI (SOperand atp) ts _ _ I E) as (Sx & Lx & _ & Ld). cbn [lvl] in Lx.
    pose proof (HI (SPrimLoop x) r' v r (conj Sx Lx) H) as Q.
    destruct v as [e|? ?]; cbn [post lvl lead] in *; [|contradiction].
    destruct Q as (Se & Le & _ & Lde). repeat split; auto. intros Hs. apply Ld. congruence.
  - injection H as <- <-. exact (HI (SOperand atp) ts _ _ I E).
Qed.

Lemma inv_errwrap atp ts v r : step rec (SErrWrap atp) ts = ROk v r -> post (SErrWrap atp) ts v r.
Proof.
  intros H. cbn [step] in H.
  destruct (rec (SPrimary atp) ts) as [[x|items ell] r'| | |] eqn:E; try discriminate.
  - pose proof (HI (SPrimary atp) ts _ _ I E) as (Sx & Lx & _ & Ld). cbn [lvl lead] in *.
    destruct x; try (injection H as <- <-; cbn [post lvl lead]; repeat split; auto; lia).
    destruct (hd_is xgo_COLON r') eqn:EC.
    + destruct (rec (SUnary false) (tl r')) as [[d|? ?] r''| | |] eqn:E2; try discriminate.
      injection H as <- <-. pose proof (HI (SUnary false) (tl r') _ _ I E2) as (Sd & Ldd & _). cbn [lvl] in Ldd.
      destruct (shp_ew_inv _ _ Sx) as (T & Sx0 & L8).
      cbn [post lvl lead]. repeat split; auto; try (cbn [tlev]; lia). now apply shp_ewd.
    + injection H as <- <-. cbn [post lvl lead]. repeat split; auto; lia.
  - injection H as <- <-. exact (HI (SPrimary atp) ts _ _ I E).
Qed.

Lemma inv_unary atp ts v r : step rec (SUnary atp) ts = ROk v r -> post (SUnary atp) ts v r.
Proof.
  intros H. cbn [step] in H.
  assert (Fall : rec (SErrWrap atp) ts = ROk v r -> post (SUnary atp) ts v r).
  { intros E. pose proof (HI (SErrWrap atp) ts v r I E) as Q. destruct v as [e|? ?]; cbn [post lvl lead] in *; auto;
    destruct Q as (? & ? & ? & ?); repeat split; auto; lia. }
  destruct ts as [|[s|k s|z] ts]; auto.
  destruct (is_unop z || Z.eqb z xgo_ARROW) eqn:EU.
  - destruct (rec (SUnary false) ts) as [[x|? ?] r'| | |] eqn:E; try discriminate.
    injection H as <- <-. pose proof (HI (SUnary false) ts _ _ I E) as (Sx & Lx & _). cbn [lvl] in Lx.
    cbn [post lvl lead]. repeat split; auto; try (cbn [tlev]; zl); try discriminate. apply shp_un; auto; zl.
  - destruct (Z.eqb z xgo_MUL) eqn:EM; auto.
    destruct (rec (SUnary false) ts) as [[x|? ?] r'| | |] eqn:E; try discriminate.
    injection H as <- <-. pose proof (HI (SUnary false) ts _ _ I E) as (Sx & Lx & _). cbn [lvl] in Lx.
    cbn [post lvl lead]. repeat split; auto; try (cbn [tlev]; zl); try discriminate. apply shp_star; auto; zl.
Qed.

Lemma inv_binary p1 atp ts v r : 1 <= p1 <= 6 -> step rec (SBinary p1 atp) ts = ROk v r -> post (SBinary p1 atp) ts v r.
Proof.
  intros Hp H. cbn [step] in H.
  destruct (rec (SUnary atp) ts) as [[x|items ell] r'| | |] eqn:E; try discriminate.
  - pose proof (HI (SUnary atp) ts _ _ I E) as (Sx & Lx & _ & Ld). cbn [lvl lead] in *.
    assert (Pre : pre (SBinLoop p1 x) r').
    { cbn [pre]. pose proof (hprec_le5 r'). repeat split; auto; lia. }
    pose proof (HI (SBinLoop p1 x) r' v r Pre H) as Q.
    destruct v as [e|? ?]; cbn [post lvl lead] in *; [|contradiction].
    destruct Q as (Se & Le & Hr & Lde). repeat split; auto. intros Hs. apply Ld. congruence.
  - injection H as <- <-. exact (HI (SUnary atp) ts _ _ I E).
Qed.

Lemma inv_binloop p1 x ts v r : pre (SBinLoop p1 x) ts -> step rec (SBinLoop p1 x) ts = ROk v r -> post (SBinLoop p1 x) ts v r.
Proof.
  intros (Sx & Hp & Lx & Hh) H. cbn [step] in H.
  destruct ts as [|[s|k s|z] ts].
  1-3: destruct (0 <? p1) eqn:E0; try discriminate; injection H as <- <-; cbn [post lvl lead hprec]; repeat split; auto; lia.
  cbn [hprec] in Hh.
  destruct (prec (tok_op z) <? p1) eqn:E1.
  - injection H as <- <-. cbn [post lvl lead hprec]. apply Z.ltb_lt in E1. repeat split; auto.
  - apply Z.ltb_ge in E1. destruct (negb (Z.eqb z (tok_op z))) eqn:E2; try discriminate.
    apply negb_false_iff, Z.eqb_eq in E2.
    pose proof (prec_range (tok_op z)) as R5.
    assert (B : is_binop (tok_op z) = true) by (apply prec_binop; lia).
    destruct (rec (SBinary (prec (tok_op z) + 1) false) ts) as [[y|? ?] r'| | |] eqn:E; try discriminate.
    assert (Pb : pre (SBinary (prec (tok_op z) + 1) false) ts) by (cbn [pre]; lia).
    pose proof (HI _ _ _ _ Pb E) as (Sy & Ly & Hr & _). cbn [lvl] in Ly.
    assert (Sn : shp (EBin (tok_op z) x y) = true) by (apply shp_bin; auto).
    assert (Pre : pre (SBinLoop p1 (EBin (tok_op z) x y)) r').
    { cbn [pre tlev]. repeat split; auto; lia. }
    pose proof (HI _ _ v r Pre H) as Q.
    destruct v as [e|? ?]; cbn [post lvl lead] in *; [|contradiction].
    destruct Q as (Se & Le & Hr' & Lde). repeat split; auto.
    rewrite Lde. cbn [starts_lp]. pose proof (tlev_le_plev x). rewrite (proj2 (Z.ltb_ge (plev x) (prec (tok_op z)))) by lia. reflexivity.
Qed.

Lemma inv_primloop x ts v r : pre (SPrimLoop x) ts -> step rec (SPrimLoop x) ts = ROk v r -> post (SPrimLoop x) ts v r.
Proof.
  intros (Sx & Lx) H. cbn [step] in H.
  assert (Stop : forall ts', ROk (PE x) ts' = ROk v r -> post (SPrimLoop x) ts v r).
  { intros ts' E. injection E as <- <-. cbn [post lvl lead]. repeat split; auto. }
  assert (Next : forall y r0, shp y = true -> 8 <= tlev y -> starts_lp y = starts_lp x ->
                 rec (SPrimLoop y) r0 = ROk v r -> post (SPrimLoop x) ts v r).
  { intros y r0 Sy Ly St E. pose proof (HI (SPrimLoop y) r0 v r (conj Sy Ly) E) as Q.
    destruct v as [e|? ?]; cbn [post lvl lead] in *; [|contradiction].
    destruct Q as (? & ? & ? & ?). repeat split; auto. congruence. }
  pose proof (plev8 x Lx) as P8.
  destruct ts as [|[s|k s|z] ts]; eauto.
  destruct (Z.eqb z xgo_PERIOD) eqn:E1.
  { destruct ts as [|[s|k s|z2] ts]; try discriminate; [|crush H].
    eapply (Next (ESel x s)); [now apply shp_sel|cbn [tlev]; lia|cbn [starts_lp]; now rewrite P8|exact H]. }
  destruct (Z.eqb z xgo_LBRACK) eqn:E2.
  { destruct (hd_is xgo_COLON ts); try discriminate.
    destruct (rec SExpr ts) as [[i|? ?] r'| | |] eqn:E; try discriminate.
    pose proof (HI SExpr ts _ _ I E) as (Si & _).
    destruct r' as [|[?|? ?|z2] r']; try discriminate.
    destruct (Z.eqb z2 xgo_COLON || Z.eqb z2 xgo_COMMA); try discriminate.
    destruct (Z.eqb z2 xgo_RBRACK); try discriminate.
    eapply (Next (EIdx x i)); [now apply shp_idx|cbn [tlev]; lia|cbn [starts_lp]; now rewrite P8|exact H]. }
  destruct (Z.eqb z xgo_LPAREN) eqn:E3.
  { assert (Pa : pre (SArgs x []) ts) by (cbn [pre forallb]; auto).
    pose proof (HI _ _ v r Pa H) as Q.
    destruct v as [e|? ?]; cbn [post lvl lead] in *; [|contradiction]. exact Q. }
  destruct (Z.eqb z xgo_LBRACE) eqn:E4; try discriminate.
  destruct (Z.eqb z xgo_NOT || Z.eqb z xgo_QUESTION) eqn:E5; eauto.
  eapply (Next (EEw z x)); [apply shp_ew; auto|cbn [tlev]; lia|cbn [starts_lp]; now rewrite P8|exact H].
Qed.

Lemma inv_args fn acc ts v r : pre (SArgs fn acc) ts -> step rec (SArgs fn acc) ts = ROk v r -> post (SArgs fn acc) ts v r.
Proof.
  intros (Sf & Lf & Sa) H. cbn [step] in H.
  pose proof (plev8 fn Lf) as P8.
  assert (Fin : forall l ell r0, forallb shp l = true -> (ell = true -> l <> []) ->
                rec (SPrimLoop (ECall fn l ell)) r0 = ROk v r -> post (SArgs fn acc) ts v r).
  { intros l ell r0 Sl El E.
    assert (Sc : shp (ECall fn l ell) = true) by (apply shp_call; auto).
    assert (Lc : 8 <= tlev (ECall fn l ell)) by (cbn [tlev]; lia).
    pose proof (HI (SPrimLoop (ECall fn l ell)) r0 v r (conj Sc Lc) E) as Q.
    destruct v as [e|? ?]; cbn [post lvl lead] in *; [|contradiction].
    destruct Q as (? & ? & ? & Q). repeat split; auto. rewrite Q. cbn [starts_lp]. now rewrite P8. }
  assert (Arg : match rec SExpr ts with
                | ROk (PE a) r0 =>
                    match r0 with
                    | TOp z :: r1 =>
                        if Z.eqb z xgo_ELLIPSIS then
                          match r1 with
                          | TOp z2 :: r2 =>
                              if Z.eqb z2 xgo_COMMA then
                                match r2 with
                                | TOp z3 :: r3 => if Z.eqb z3 xgo_RPAREN then rec (SPrimLoop (ECall fn (acc ++ [a]) true)) r3 else RErr
                                | _ => RErr
                                end
                              else if Z.eqb z2 xgo_RPAREN then rec (SPrimLoop (ECall fn (acc ++ [a]) true)) r2
                              else RErr
                          | _ => RErr
                          end
                        else if Z.eqb z xgo_COMMA then rec (SArgs fn (acc ++ [a])) r1
                        else if Z.eqb z xgo_RPAREN then rec (SPrimLoop (ECall fn (acc ++ [a]) false)) r1
                        else RErr
                    | _ => RErr
                    end
                | ROk (PT _ _) _ => RErr
                | y => y
                end = ROk v r -> post (SArgs fn acc) ts v r).
  { clear H. intros H.
    destruct (rec SExpr ts) as [[a|? ?] r0| | |] eqn:E; try discriminate.
    pose proof (HI SExpr ts _ _ I E) as (Sx & _).
    assert (Sn : forallb shp (acc ++ [a]) = true) by now apply forallb_snoc.
    assert (Ne : acc ++ [a] <> []) by (destruct acc; discriminate).
    destruct r0 as [|[?|? ?|z] r1]; try discriminate.
    destruct (Z.eqb z xgo_ELLIPSIS).
    - destruct r1 as [|[?|? ?|z2] r2]; try discriminate.
      destruct (Z.eqb z2 xgo_COMMA).
      + destruct r2 as [|[?|? ?|z3] r3]; try discriminate.
        destruct (Z.eqb z3 xgo_RPAREN); try discriminate. eapply Fin; eauto.
      + destruct (Z.eqb z2 xgo_RPAREN); try discriminate. eapply Fin; eauto.
    - destruct (Z.eqb z xgo_COMMA).
      + assert (Pa : pre (SArgs fn (acc ++ [a])) r1) by (cbn [pre]; auto).
        pose proof (HI _ _ v r Pa H) as Q.
        destruct v as [e|? ?]; cbn [post lvl lead] in *; [|contradiction]. exact Q.
      + destruct (Z.eqb z xgo_RPAREN); try discriminate. eapply Fin; eauto; discriminate. }
  destruct ts as [|[s|k s|z] ts]; try discriminate; auto.
  destruct (Z.eqb z xgo_RPAREN); auto.
  eapply Fin; eauto; discriminate.
Qed.

Lemma inv_lam x ts v r : okv x -> step rec (SLam x) ts = ROk v r -> post (SLam x) ts v r.
Proof.
  intros Ox H. cbn [step] in H.
  destruct ts as [|[s|k s|z] ts]; try discriminate.
  destruct (hd_is xgo_LBRACE ts); try discriminate.
  assert (K : forall rhs rp r', rhs <> [] -> (rp || (length rhs =? 1)%nat) = true -> forallb shp rhs = true ->
              (rp || negb (match rhs with a :: _ => starts_lp a | [] => false end)) = true ->
              match lam_lhs x with Some (lhs, lp) => ROk (PE (ELam lhs lp rhs rp)) r' | None => RErr end = ROk v r ->
              post (SLam x) ts v r).
  { intros rhs rp r' Hne Hl Hs Hp E. destruct (lam_lhs x) as [[lhs lp]|] eqn:EL; try discriminate.
    injection E as <- <-. destruct (lam_lhs_ok x lhs lp Ox EL) as (A & B).
    cbn [post lvl lead starts_lp tlev]. repeat split; auto; try lia. now apply shp_lam. }
  destruct (hd_is xgo_LPAREN ts) eqn:EP.
  - destruct (rec (SLamRhs []) (tl ts)) as [[?|items ell] r'| | |] eqn:E; try discriminate.
    pose proof (HI (SLamRhs []) (tl ts) _ _ eq_refl E) as (Si & Ne).
    eapply (K items true r'); eauto.
  - destruct (rec SExpr ts) as [[e|? ?] r'| | |] eqn:E; try discriminate.
    pose proof (HI SExpr ts _ _ I E) as (Se & _ & _ & Ld). cbn [lead] in Ld.
    eapply (K [e] false r'); eauto; try discriminate.
    + cbn [forallb]. now rewrite Se.
    + cbn [orb]. destruct (starts_lp e); auto. rewrite Ld in EP; auto.
Qed.

Lemma inv_expr ts v r : step rec SExpr ts = ROk v r -> post SExpr ts v r.
Proof.
  intros H. cbn [step] in H.
  destruct (hd_is xgo_DRARROW ts) eqn:ED.
  - pose proof (HI (SLam None) ts v r I H) as Q.
    destruct v as [e|? ?]; cbn [post lvl lead] in *; [|contradiction].
    destruct Q as (? & ? & ? & Q). repeat split; auto. rewrite Q. discriminate.
  - change (LowestPrec + 1) with 1 in H.
    destruct (rec (SBinary 1 true) ts) as [v1 r1| | |] eqn:E; try discriminate.
    assert (Pb : pre (SBinary 1 true) ts) by (cbn [pre]; lia).
    pose proof (HI _ _ _ _ Pb E) as Q1.
    destruct (hd_is xgo_DRARROW r1) eqn:ED1.
    + assert (Ov : okv (Some v1)).
      { destruct v1 as [e1|items ell]; cbn [okv post] in *; tauto. }
      pose proof (HI (SLam (Some v1)) r1 v r Ov H) as Q.
      destruct v as [e|? ?]; cbn [post lvl lead] in *; [|contradiction].
      destruct Q as (? & ? & ? & Q). repeat split; auto. rewrite Q.
      destruct v1 as [e1|items ell]; cbn [post lvl lead] in Q1.
      * destruct Q1 as (_ & _ & _ & L1). intros Hp. apply L1. destruct e1; try discriminate. reflexivity.
      * intros _. tauto.
    + destruct v1 as [e1|items ell]; try discriminate. injection H as <- <-.
      cbn [post lvl lead] in *. destruct Q1 as (? & ? & ? & ?). repeat split; auto. lia.
Qed.

Theorem step_inv : Inv (step rec).
Proof.
  intros s ts v r Hpre H. destruct s.
  - now apply inv_expr.
  - now apply inv_lam.
  - now apply inv_lamrhs.
  - now apply inv_binary.
  - now apply inv_binloop.
  - now apply inv_unary.
  - now apply inv_errwrap.
  - now apply inv_primary.
  - now apply inv_primloop.
  - now apply inv_operand.
  - now apply inv_tuple.
  - now apply inv_args.
Qed.
End Layer.

Theorem P_inv : forall f, Inv (P f).
Proof.
  induction f as [|f IH]; [intros s ts v r _ H; discriminate H|]. exact (step_inv (P f) IH).
Qed.

(* ---- consequences ---- *)
Theorem parse_image f ts e : parse_expr f ts = ROk (PE e) [] -> shp e = true.
Proof.
  unfold parse_expr. destruct (P f SExpr ts) as [[e0|? ?] [|? ?]| | |] eqn:E; intros H; try discriminate.
  injection H as <-. exact (proj1 (P_inv f SExpr ts _ _ I E)).
Qed.

(* doubled parentheses are the only thing the printer drops from a parser result *)
Fixpoint dedup (e : expr) : expr :=
  match e with
  | EId s => EId s
  | ELit k s => ELit k s
  | EBin op x y => EBin op (dedup x) (dedup y)
  | EUn op x => EUn op (dedup x)
  | EStar x => EStar (dedup x)
  | EPar x => match x with EPar _ => dedup x | _ => EPar (dedup x) end
  | ESel x s => ESel (dedup x) s
  | EIdx x i => EIdx (dedup x) (dedup i)
  | ECall f args ell => ECall (dedup f) (map dedup args) ell
  | EEw t x => EEw t (dedup x)
  | EEwd t x d => EEwd t (dedup x) (dedup d)
  | ELam lhs lp rhs rp => ELam lhs lp (map dedup rhs) rp
  end.

Lemma norm_dedup : forall n e, (sz e <= n)%nat -> noaddw e = true -> norm e = dedup e.
Proof.
  induction n as [|n IH]; intros e Hs N. { destruct e; cbn [sz] in Hs; lia. }
  destruct e; cbn [sz] in Hs; cbn [noaddw] in N; bsplit; try reflexivity; cbn [dedup].
  - rewrite norm_un, nat_tight, IH by (auto; lia). reflexivity.
  - rewrite norm_star, nat_tight, IH by (auto; lia). reflexivity.
  - rewrite norm_bin, !nat_tight, !IH by (auto; lia). reflexivity.
  - rewrite norm_par. destruct e; rewrite IH by (auto; cbn [sz] in *; lia); reflexivity.
  - rewrite norm_call, nat_tight, IH by (auto; lia). f_equal. apply map_ext_in. intros a Ha.
    apply IH; [pose proof (In_szl a args Ha); unfold szl in *; lia|]. eapply forallb_In; eauto.
  - rewrite norm_idx, nat_tight, !IH by (auto; lia). reflexivity.
  - rewrite norm_sel, nat_tight, IH by (auto; lia). reflexivity.
  - rewrite norm_ew, nat_tight, IH by (auto; lia). reflexivity.
  - rewrite norm_ewd, !nat_tight, !IH by (auto; lia). reflexivity.
  - change (norm (ELam lhs lp rhs rp)) with (ELam lhs lp (map norm rhs) rp). f_equal. apply map_ext_in. intros a Ha.
    apply IH; [pose proof (In_szl a rhs Ha); unfold szl in *; lia|]. eapply forallb_In; eauto.
Qed.

(* formatting a parsed expression and parsing the result gives the same tree back (up to doubled
   parentheses), and printing that tree gives the same tokens: format is a fixed point after one pass *)
Theorem parsed_roundtrip f ts e : parse_expr f ts = ROk (PE e) [] ->
  (exists f', parse_expr f' (pr e) = ROk (PE (dedup e)) []) /\ pr (dedup e) = pr e /\ strip (dedup e) = strip e.
Proof.
  intros H. apply parse_image in H. apply shp_inv in H as (V & K & N).
  pose proof (norm_dedup (sz e) e (le_n _) N) as E. rewrite <- E. repeat split.
  - now apply roundtrip.
  - apply (pr_norm (sz e)); auto.
  - apply (strip_norm (sz e)); auto.
Qed.
