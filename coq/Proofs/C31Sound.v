(* C31, converse direction: whatever token stream the parser accepts without error, the tree it
   returns has exactly the consumed tokens as its leaves and operators, in order — parentheses
   only group.  Together with the round trip (a tree's minimal print parses back to it) this says
   that parsing = removing redundant parentheses. *)
From Coq Require Import List NArith Lia Bool Arith.
Import ListNotations.
From V Require Import Base.Prelude Model.C31 Proofs.C31.

Definition not_paren (t : tok) : bool := match t with TLP | TRP => false | _ => true end.
Definition strip (ts : list tok) : list tok := filter not_paren ts.

Lemma strip_app a b : strip (a ++ b) = strip a ++ strip b.
Proof. unfold strip. apply filter_app. Qed.

(* the token content of a tree: its print without parentheses *)
Fixpoint tc (e : ge) : list tok :=
  match e with
  | EIdent s => [TIdent s]
  | ELit k s => [TLit k s]
  | EUn o x => TU o :: tc x
  | EBin o x y => tc x ++ TB o :: tc y
  | ESeq l => flat_map tc l
  | EChoice l => match l with [] => [] | a :: t => tc a ++ flat_map (fun x => TOr :: tc x) t end
  | ENil => []
  end.

Lemma strip_pr : forall n e, sz e <= n -> strip (pr e) = tc e.
Proof.
  induction n as [|n IH]; intros e Hs. { destruct e; simpl in Hs; lia. }
  assert (A : forall l x, sz x <= n -> strip (at_ l x) = tc x).
  { intros l x Hx. rewrite at_eq. destruct (Nat.ltb (level x) l); [|apply IH; auto].
    change (TLP :: pr x ++ [TRP]) with ([TLP] ++ pr x ++ [TRP]). rewrite !strip_app. cbn. rewrite app_nil_r. apply IH; auto. }
  destruct e; cbn [tc]; try reflexivity.
  - change (pr (EUn o e)) with (TU o :: at_ 4 e). cbn [strip filter not_paren]. destruct o; cbn [not_paren]; f_equal; apply A; simpl in Hs; lia.
  - simpl in Hs. destruct o.
    + change (pr (EBin BRem e1 e2)) with (at_ 2 e1 ++ TB BRem :: at_ 3 e2). rewrite strip_app. cbn [strip filter not_paren].
      fold (strip (at_ 3 e2)). rewrite !A by lia. reflexivity.
    + change (pr (EBin BInc e1 e2)) with (at_ 3 e1 ++ TB BInc :: at_ 4 e2). rewrite strip_app. cbn [strip filter not_paren].
      fold (strip (at_ 4 e2)). rewrite !A by lia. reflexivity.
  - rewrite pr_seq. simpl in Hs. fold (szl l) in Hs. induction l as [|a t IHl]; [reflexivity|].
    cbn [flat_map]. rewrite strip_app. change (szl (a :: t)) with (sz a + szl t) in Hs. rewrite A by lia. f_equal. apply IHl. lia.
  - destruct l as [|a t]; [reflexivity|]. rewrite pr_choice. simpl in Hs. fold (szl t) in Hs. rewrite strip_app, A by lia. f_equal.
    assert (Ht : szl t <= n) by lia. clear Hs. induction t as [|b t IHt]; [reflexivity|].
    cbn [flat_map]. change (szl (b :: t)) with (sz b + szl t) in Ht.
    change (TOr :: at_ 1 b) with ([TOr] ++ at_ 1 b). rewrite <- app_assoc, !strip_app. cbn [strip filter not_paren app].
    fold (strip (at_ 1 b)). rewrite A by lia. f_equal. f_equal. apply IHt. lia.
Qed.

(* what a state contributes: the new tokens relate the accumulator to the result *)
Definition content (s : st) (e : ge) (c : list tok) : Prop :=
  match s with
  | SOrLoop acc => exists l, e = EChoice (acc ++ l) /\ strip c = flat_map (fun x => TOr :: tc x) l
  | STermList acc => exists l, e = fst (mkseq (acc ++ l)) /\ snd (mkseq (acc ++ l)) = 0 /\ strip c = flat_map tc l
  | SRemLoop x | SIncLoop x => tc e = tc x ++ strip c
  | _ => strip c = tc e
  end.

Lemma tc_mkseq l : snd (mkseq l) = 0 -> tc (fst (mkseq l)) = flat_map tc l.
Proof. destruct l as [|a [|b t]]; simpl; intros H; try discriminate; auto. rewrite app_nil_r. reflexivity. Qed.

(* a loop or a term that reports "not ok" without an error consumed nothing *)
Lemma remloop_none : forall f x r r' n, P f (SRemLoop x) r = Some (None, r', n) -> 0 < n.
Proof.
  induction f as [|f IH]; intros x r r' n H; [discriminate|]. cbn [P] in H.
  destruct r as [|t0 r0]; [discriminate|]. destruct t0; try discriminate. destruct o; try discriminate.
  destruct (P f STerm2 r0) as [[[[y|] r4] n4]|]; try discriminate.
  - destruct (P f (SRemLoop (EBin BRem x y)) r4) as [[[z' r5] m5]|] eqn:E5; try discriminate.
    injection H as -> _ Hm. apply IH in E5. lia.
  - injection H as _ Hm. lia.
Qed.
Lemma incloop_none : forall f x r r' n, P f (SIncLoop x) r = Some (None, r', n) -> 0 < n.
Proof.
  induction f as [|f IH]; intros x r r' n H; [discriminate|]. cbn [P] in H.
  destruct r as [|t0 r0]; [discriminate|]. destruct t0; try discriminate. destruct o; try discriminate.
  destruct (P f SFactor r0) as [[[[y|] r4] n4]|]; try discriminate.
  - destruct (P f (SIncLoop (EBin BInc x y)) r4) as [[[z' r5] m5]|] eqn:E5; try discriminate.
    injection H as -> _ Hm. apply IH in E5. lia.
  - injection H as _ Hm. lia.
Qed.
Lemma factor_none f ts r n : P f SFactor ts = Some (None, r, n) -> r = ts.
Proof.
  destruct f; [discriminate|]. cbn [P]. destruct ts as [|t0 r0]; [intros H; injection H as <- _; reflexivity|].
  destruct t0; try (intros H; injection H as <- _; reflexivity); try discriminate.
  - destruct (P f SFactor r0) as [[[[y|] r4] n4]|]; discriminate.
  - destruct (P f SExpr r0) as [[[[y|] r4] n4]|] eqn:E4; try discriminate.
    + destruct r4 as [|t1 r4]; [discriminate|]. destruct t1; discriminate.
    + intros _. exfalso. eapply expr_some; eauto.
Qed.
Lemma term2_none f ts r : P f STerm2 ts = Some (None, r, 0) -> r = ts.
Proof.
  destruct f; [discriminate|]. cbn [P]. destruct (P f SFactor ts) as [[[[x|] r3] n3]|] eqn:E3; try discriminate.
  - destruct (P f (SIncLoop x) r3) as [[[y r4] m4]|] eqn:E4; try discriminate.
    intros H. injection H as -> -> Hn. apply incloop_none in E4. lia.
  - intros H. injection H as -> _. eapply factor_none; eauto.
Qed.
Lemma term_none f ts r : P f STerm ts = Some (None, r, 0) -> r = ts.
Proof.
  destruct f; [discriminate|]. cbn [P]. destruct (P f STerm2 ts) as [[[[x|] r3] n3]|] eqn:E3; try discriminate.
  - destruct (P f (SRemLoop x) r3) as [[[y r4] m4]|] eqn:E4; try discriminate.
    intros H. injection H as -> -> Hn. apply remloop_none in E4. lia.
  - intros H. injection H as -> ->. eapply term2_none; eauto.
Qed.

Lemma P_sound : forall f s ts e r, P f s ts = Some (Some e, r, 0) -> exists c, ts = c ++ r /\ content s e c.
Proof.
  induction f as [|f IH]; intros s ts e r H; [discriminate|].
  destruct s; cbn [P] in H; cbn [content].
  - (* SExpr *)
    destruct (P f (STermList []) ts) as [[[[t|] r1] n]|] eqn:E; try discriminate.
    assert (T1 : forall n', n' = 0 -> P f (STermList []) ts = Some (Some t, r1, n') -> exists c, ts = c ++ r1 /\ strip c = tc t).
    { intros n' -> E1. apply IH in E1 as (c & -> & l & Ht & Hm & Hc). cbn [app] in *. exists c. split; auto.
      rewrite Hc, Ht. symmetry. apply tc_mkseq. exact Hm. }
    destruct r1 as [|t0 r0].
    { injection H as <- <- ->. exact (T1 0 eq_refl E). }
    destruct t0; try (injection H as <- <- ->; exact (T1 0 eq_refl E)).
    destruct (P f (SOrLoop [t]) (TOr :: r0)) as [[[x' r'] m]|] eqn:E'; try discriminate.
    injection H as -> -> Hn. assert (n = 0 /\ m = 0) as [-> ->] by lia.
    destruct (T1 0 eq_refl E) as (c1 & -> & Hc1). apply IH in E' as (c2 & Hr & l & -> & Hc2).
    exists (c1 ++ c2). split; [rewrite <- app_assoc, Hr; reflexivity|].
    rewrite strip_app, Hc1, Hc2. cbn [app tc]. reflexivity.
  - (* SOrLoop *)
    destruct ts as [|t0 r0].
    { injection H as <- <-. exists []. split; auto. exists []. rewrite app_nil_r. split; reflexivity. }
    destruct t0; try (injection H as <- <-; exists []; split; auto; exists []; rewrite app_nil_r; split; reflexivity).
    destruct (P f (STermList []) r0) as [[[[t|] r1] n]|] eqn:E; try discriminate.
    destruct (P f (SOrLoop (acc ++ [t])) r1) as [[[x' r'] m]|] eqn:E'; try discriminate.
    injection H as -> -> Hn. assert (n = 0 /\ m = 0) as [-> ->] by lia.
    apply IH in E as (c1 & -> & l1 & Ht & Hm & Hc1). cbn [app] in Ht, Hm.
    apply IH in E' as (c2 & -> & l & -> & Hc2).
    exists (TOr :: c1 ++ c2). split; [cbn [app]; rewrite <- app_assoc; reflexivity|].
    exists (t :: l). split; [rewrite <- app_assoc; reflexivity|].
    cbn [strip filter not_paren flat_map]. fold (strip (c1 ++ c2)). rewrite strip_app, Hc1, Hc2, Ht.
    rewrite (tc_mkseq l1 Hm). cbn [app]. reflexivity.
  - (* STermList *)
    destruct (P f STerm ts) as [[[[t|] r1] n]|] eqn:E; try discriminate.
    + destruct (P f (STermList (acc ++ [t])) r1) as [[[x' r'] m]|] eqn:E'; try discriminate.
      injection H as -> -> Hn. assert (n = 0 /\ m = 0) as [-> ->] by lia.
      apply IH in E as (c1 & -> & Hc1). cbn [content] in Hc1.
      apply IH in E' as (c2 & -> & l & -> & Hm & Hc2).
      exists (c1 ++ c2). split; [rewrite <- app_assoc; reflexivity|].
      exists (t :: l). rewrite <- app_assoc in *. cbn [app] in *. repeat split; auto.
      rewrite strip_app, Hc1, Hc2. reflexivity.
    + destruct (mkseq acc) as [e0 m] eqn:Em. injection H as <- <- Hn. assert (n = 0 /\ m = 0) as [-> ->] by lia.
      (* STerm returned "not ok" without error: it consumed nothing *)
      assert (Hr : r1 = ts) by (eapply term_none; eauto).
      subst r1. exists []. split; auto. exists []. rewrite app_nil_r, Em. cbn [fst snd]. repeat split; auto.
  - (* STerm *)
    destruct (P f STerm2 ts) as [[[[t|] r1] n]|] eqn:E; try discriminate.
    destruct (P f (SRemLoop t) r1) as [[[x' r'] m]|] eqn:E'; try discriminate.
    injection H as -> -> Hn. assert (n = 0 /\ m = 0) as [-> ->] by lia.
    apply IH in E as (c1 & -> & Hc1). apply IH in E' as (c2 & -> & Hc2). cbn [content] in *.
    exists (c1 ++ c2). split; [rewrite <- app_assoc; reflexivity|]. rewrite strip_app, Hc1. symmetry. exact Hc2.
  - (* SRemLoop *)
    destruct ts as [|t0 r0]; [injection H as <- <-; exists []; split; auto; cbn; rewrite app_nil_r; reflexivity|].
    destruct t0; try (injection H as <- <-; exists []; split; auto; cbn; rewrite app_nil_r; reflexivity).
    destruct o; [|injection H as <- <-; exists []; split; auto; cbn; rewrite app_nil_r; reflexivity].
    destruct (P f STerm2 r0) as [[[[y|] r1] n]|] eqn:E; try discriminate.
    destruct (P f (SRemLoop (EBin BRem x y)) r1) as [[[x' r'] m]|] eqn:E'; try discriminate.
    injection H as -> -> Hn. assert (n = 0 /\ m = 0) as [-> ->] by lia.
    apply IH in E as (c1 & -> & Hc1). apply IH in E' as (c2 & -> & Hc2). cbn [content] in *.
    exists (TB BRem :: c1 ++ c2). split; [cbn [app]; rewrite <- app_assoc; reflexivity|].
    rewrite Hc2. cbn [tc strip filter not_paren]. fold (strip (c1 ++ c2)). rewrite strip_app, Hc1, <- !app_assoc. reflexivity.
  - (* STerm2 *)
    destruct (P f SFactor ts) as [[[[t|] r1] n]|] eqn:E; try discriminate.
    destruct (P f (SIncLoop t) r1) as [[[x' r'] m]|] eqn:E'; try discriminate.
    injection H as -> -> Hn. assert (n = 0 /\ m = 0) as [-> ->] by lia.
    apply IH in E as (c1 & -> & Hc1). apply IH in E' as (c2 & -> & Hc2). cbn [content] in *.
    exists (c1 ++ c2). split; [rewrite <- app_assoc; reflexivity|]. rewrite strip_app, Hc1. symmetry. exact Hc2.
  - (* SIncLoop *)
    destruct ts as [|t0 r0]; [injection H as <- <-; exists []; split; auto; cbn; rewrite app_nil_r; reflexivity|].
    destruct t0; try (injection H as <- <-; exists []; split; auto; cbn; rewrite app_nil_r; reflexivity).
    destruct o; [injection H as <- <-; exists []; split; auto; cbn; rewrite app_nil_r; reflexivity|].
    destruct (P f SFactor r0) as [[[[y|] r1] n]|] eqn:E; try discriminate.
    destruct (P f (SIncLoop (EBin BInc x y)) r1) as [[[x' r'] m]|] eqn:E'; try discriminate.
    injection H as -> -> Hn. assert (n = 0 /\ m = 0) as [-> ->] by lia.
    apply IH in E as (c1 & -> & Hc1). apply IH in E' as (c2 & -> & Hc2). cbn [content] in *.
    exists (TB BInc :: c1 ++ c2). split; [cbn [app]; rewrite <- app_assoc; reflexivity|].
    rewrite Hc2. cbn [tc strip filter not_paren]. fold (strip (c1 ++ c2)). rewrite strip_app, Hc1, <- !app_assoc. reflexivity.
  - (* SFactor *)
    destruct ts as [|t0 r0]; [discriminate|].
    destruct t0; try discriminate.
    + injection H as <- <-. exists [TIdent s]. split; reflexivity.
    + injection H as <- <-. exists [TLit k s]. split; reflexivity.
    + destruct (P f SFactor r0) as [[[[y|] r1] n]|] eqn:E; try discriminate.
      injection H as <- <- ->. apply IH in E as (c1 & -> & Hc1). cbn [content] in Hc1.
      exists (TU o :: c1). split; [reflexivity|]. cbn [strip filter not_paren tc]. destruct o; cbn [not_paren]; f_equal; exact Hc1.
    + destruct (P f SExpr r0) as [[[[y|] r1] n]|] eqn:E; try discriminate.
      destruct r1 as [|t1 r1]; [discriminate|]. destruct t1; try discriminate.
      injection H as <- <- ->. apply IH in E as (c1 & -> & Hc1). cbn [content] in Hc1.
      exists (TLP :: c1 ++ [TRP]). split; [cbn [app]; rewrite <- app_assoc; reflexivity|].
      cbn [strip filter not_paren]. fold (strip (c1 ++ [TRP])). rewrite strip_app. cbn. rewrite app_nil_r. exact Hc1.
Qed.

Lemma parse_expr_sound f ts e r : P f SExpr ts = Some (Some e, r, 0) ->
  exists c, ts = c ++ r /\ strip c = strip (pr e).
Proof.
  intros H. apply P_sound in H as (c & -> & Hc). cbn [content] in Hc. exists c. split; auto.
  rewrite (strip_pr (sz e) e (le_n _)). exact Hc.
Qed.
