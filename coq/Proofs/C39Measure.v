(* C39 — the progress measure strictly decreases on every implementation / completion step *)
From Coq Require Import List NArith ZArith Bool Arith Lia.
Import ListNotations.
From V Require Import Base.ConnView Gen.ConnSites Model.C39 Proofs.C39Base.

(* case analysis of a successful body_step / step *)
Ltac break_match H :=
  repeat first
  [ match type of H with context [match ?x with _ => _ end] => is_var x; destruct x; try discriminate H end
  | match type of H with context [match ?x with _ => _ end] => let E := fresh "E" in destruct x eqn:E; try discriminate H end ].
Ltac break_opt :=
  repeat match goal with
  | E : match ?x with _ => _ end = Some _ |- _ =>
      first [ is_var x; destruct x | let E' := fresh "E" in destruct x eqn:E' ]; try discriminate E
  | E : Some _ = Some _ |- _ => injection E as E; subst
  | E : (_, _) = (_, _) |- _ => injection E as ? ?; subst
  end.
Ltac inv_body H := unfold body_step, get_pr in H; break_match H; try discriminate H; injection H as <-; break_opt.

Lemma measure_epi s s' : epi s = Ok s' -> measure s' = measure s.
Proof.
  unfold epi. intros H. break_match H; injection H as <-; reflexivity.
Qed.

Lemma retire_pcs c r calls calls' : retire c r calls = Some calls' ->
  map (fun cr => w_cpc (c_pc cr)) calls' = map (fun cr => w_cpc (c_pc cr)) calls.
Proof.
  unfold retire. intros H. break_match H; injection H as <-.
  revert c E. induction calls as [|a l IH]; intros [|c] E; simpl in *; try discriminate.
  - injection E as ->. reflexivity.
  - f_equal. eapply IH; eauto.
Qed.
Lemma retire_all_pcs l calls calls' : retire_all l calls = Some calls' ->
  map (fun cr => w_cpc (c_pc cr)) calls' = map (fun cr => w_cpc (c_pc cr)) calls.
Proof.
  revert calls; induction l as [|[i c] l IH]; simpl; intros calls H.
  - injection H as <-; reflexivity.
  - destruct (retire c _ calls) eqn:E; [|discriminate]. rewrite (IH _ H). eapply retire_pcs; eauto.
Qed.
Lemma retire_nth c r calls calls' : retire c r calls = Some calls' ->
  exists cr, nth_error calls c = Some cr /\ c_resp cr = None /\ calls' = upd c (set_c_resp r cr) calls.
Proof. unfold retire. intros H. break_match H; injection H as <-. eauto. Qed.

Lemma sum_map_snoc {A} (f : A -> nat) l x : sum (map f (l ++ [x])) = sum (map f l) + f x.
Proof. rewrite map_app, sum_app; simpl; lia. Qed.

Lemma retire_measure c r calls calls' cr x : retire c r calls = Some calls' -> nth_error calls c = Some cr ->
  sum (map (fun cr => w_cpc (c_pc cr)) (upd c x calls')) + w_cpc (c_pc cr) =
  sum (map (fun cr => w_cpc (c_pc cr)) calls) + w_cpc (c_pc x).
Proof.
  intros H E. apply retire_nth in H as (cr' & E' & _ & ->). rewrite E in E'; injection E' as <-.
  assert (E2 : nth_error (upd c (set_c_resp r cr) calls) c = Some (set_c_resp r cr)) by (eapply nth_error_upd_same; eauto).
  pose proof (sum_map_upd (fun cr => w_cpc (c_pc cr)) c x _ _ E2).
  pose proof (sum_map_upd (fun cr => w_cpc (c_pc cr)) c (set_c_resp r cr) cr calls E). simpl in *. lia.
Qed.

Lemma w_prs_le p : 1 <= w_prs p <= 4.
Proof. destruct p; simpl; lia. Qed.
Ltac bound_prs :=
  repeat match goal with
  | |- context [w_prs ?p] => let H := fresh "HP" in pose proof (w_prs_le p) as H; generalize dependent (w_prs p); intros
  | _ : context [w_prs ?p] |- _ => let H := fresh "HP" in pose proof (w_prs_le p) as H; generalize dependent (w_prs p); intros
  | R : remove1 _ _ = Some _ |- _ => apply remove1_length in R
  end.

Ltac use_upd :=
  repeat match goal with
  | R : retire ?c ?r ?l = Some ?l', E : nth_error ?l ?c = Some ?old |- context [sum (map ?f (upd ?c ?x ?l'))] =>
      let H := fresh "HU" in pose proof (retire_measure c r l l' old x R E) as H; cbv beta in H;
      generalize dependent (sum (map f (upd c x l'))); intros
  | E : nth_error ?l ?i = Some ?old |- context [sum (map ?f (upd ?i ?x ?l))] =>
      let H := fresh "HU" in pose proof (sum_map_upd f i x old l E) as H; cbv beta in H;
      generalize dependent (sum (map f (upd i x l))); intros
  | R : retire _ _ ?l = Some ?l' |- context [map ?f ?l'] => rewrite (retire_pcs _ _ _ _ R)
  | R : retire_all _ ?l = Some ?l' |- context [map ?f ?l'] => rewrite (retire_all_pcs _ _ _ R)
  | |- context [sum (map ?f (?l ++ [?x]))] => rewrite (sum_map_snoc f l x)
  end.
Ltac rw_pcs :=
  repeat match goal with
  | E : c_pc _ = _ |- _ => rewrite E in *; clear E
  | E : n_pc _ = _ |- _ => rewrite E in *; clear E
  | E : s_reader _ = _ |- _ => rewrite E in *; clear E
  | E : s_handler _ = _ |- _ => rewrite E in *; clear E
  | E : s_main _ = _ |- _ => rewrite E in *; clear E
  | E : s_queue _ = _ |- _ => rewrite E in *; clear E
  end.

Lemma measure_body s l s1 : body_step s l = Ok s1 -> is_progress l = true -> measure s1 < measure s.
Proof.
  intros H P. destruct l; try discriminate P; clear P; inv_body H;
    unfold measure, upd_call, upd_notif, set_pr, finish_pr, write_err_body, get_pr in *.
  all: try match goal with |- context [if s_writeErr ?s then _ else _] => destruct (s_writeErr s) end.
  all: cbn [s_calls s_notifs s_reader s_handler s_queue s_asyncs s_resps s_cancels s_closers s_main
            set_connClosing set_reading set_readErr set_writeErr set_closer set_outgoing set_outNotifs set_incoming
            set_byID set_queue set_handlerRunning set_done set_seq set_calls set_reqs set_asyncs set_notifs set_reader
            set_handler set_resps set_cancels set_closers set_main set_rwc_closes set_ondones set_rwc_acked set_ondone_acked].
  all: use_upd; rw_pcs; simpl in *; try lia.
  all: bound_prs; rewrite ?app_length; simpl; try lia.
Qed.

Theorem measure_step s l s' : step s l = Ok s' -> is_progress l = true -> measure s' < measure s.
Proof.
  unfold step. intros H P. destruct (body_step s l) as [s1| |] eqn:B; try discriminate.
  pose proof (measure_body _ _ _ B P).
  destruct (is_section l).
  - apply measure_epi in H. lia.
  - injection H as <-. assumption.
Qed.
(* acknowledgements (pure observations) leave the measure unchanged *)
Theorem measure_ack s l s' : step s l = Ok s' -> is_ack l = true -> measure s' = measure s.
Proof.
  unfold step. intros H P.
  destruct l; try discriminate P; clear P;
    match type of H with context [body_step ?s ?l] => destruct (body_step s l) as [s1| |] eqn:B end;
    try discriminate H; cbn [is_section] in H; injection H as <-; inv_body B; reflexivity.
Qed.
