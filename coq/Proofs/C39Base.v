(* C39 — list / association-list lemmas and characterisations of the generated decision functions *)
From Coq Require Import List NArith ZArith Bool Arith Lia.
Import ListNotations.
From V Require Import Base.ConnView Gen.ConnSites Model.C39.

Lemma id_eqb_eq a b : id_eqb a b = true <-> a = b.
Proof.
  destruct a, b; simpl; split; intros H; try discriminate; try congruence.
  - apply Z.eqb_eq in H; congruence.
  - inversion H; apply Z.eqb_refl.
  - apply N.eqb_eq in H; congruence.
  - inversion H; apply N.eqb_refl.
Qed.
Lemma id_eqb_refl a : id_eqb a a = true.
Proof. apply id_eqb_eq; reflexivity. Qed.
Lemma id_eqb_neq a b : id_eqb a b = false <-> a <> b.
Proof. split; intros H. - intros E; apply id_eqb_eq in E; congruence.
  - destruct (id_eqb a b) eqn:E; [apply id_eqb_eq in E; contradiction | reflexivity]. Qed.
Lemma id_eqb_sym a b : id_eqb a b = id_eqb b a.
Proof. destruct (id_eqb a b) eqn:E.
  - apply id_eqb_eq in E; subst; symmetry; apply id_eqb_refl.
  - symmetry; apply id_eqb_neq; apply id_eqb_neq in E; congruence. Qed.

(* ---- upd *)
Lemma length_upd {A} i (x : A) l : length (upd i x l) = length l.
Proof. revert i; induction l as [|a l IH]; intros [|i]; simpl; auto. Qed.
Lemma nth_error_upd {A} i j (x : A) l :
  nth_error (upd i x l) j =
  if Nat.eqb i j then match nth_error l j with Some _ => Some x | None => None end else nth_error l j.
Proof.
  revert i j; induction l as [|a l IH]; intros [|i] [|j]; simpl; auto;
    try (destruct (Nat.eqb i j); reflexivity).
Qed.
Lemma nth_error_upd_same {A} i (x y : A) l : nth_error l i = Some y -> nth_error (upd i x l) i = Some x.
Proof. intros H; rewrite nth_error_upd, Nat.eqb_refl, H; reflexivity. Qed.
Lemma nth_error_upd_other {A} i j (x : A) l : i <> j -> nth_error (upd i x l) j = nth_error l j.
Proof. intros H; rewrite nth_error_upd; apply Nat.eqb_neq in H; rewrite H; reflexivity. Qed.
Lemma nth_error_snoc {A} (l : list A) x j :
  nth_error (l ++ [x]) j = if Nat.ltb j (length l) then nth_error l j else if Nat.eqb j (length l) then Some x else None.
Proof.
  destruct (Nat.ltb_spec j (length l)).
  - apply nth_error_app1; assumption.
  - rewrite nth_error_app2 by assumption. destruct (Nat.eqb_spec j (length l)).
    + subst; rewrite Nat.sub_diag; reflexivity.
    + destruct (j - length l) as [|k] eqn:E; [lia|]. simpl. destruct k; reflexivity.
Qed.
Lemma nth_error_lt {A} (l : list A) i x : nth_error l i = Some x -> i < length l.
Proof. intros H; apply nth_error_Some; congruence. Qed.

(* ---- sums (the measure) *)
Lemma sum_app l1 l2 : sum (l1 ++ l2) = sum l1 + sum l2.
Proof. induction l1; simpl; lia. Qed.
Lemma sum_map_upd {A} (f : A -> nat) i x old l :
  nth_error l i = Some old -> sum (map f (upd i x l)) + f old = sum (map f l) + f x.
Proof.
  revert i; induction l as [|a l IH]; intros [|i] H; simpl in *; try discriminate.
  - injection H as ->; lia.
  - specialize (IH _ H); lia.
Qed.
Lemma sum_map_upd_same {A} (f : A -> nat) i x old l :
  nth_error l i = Some old -> f x = f old -> sum (map f (upd i x l)) = sum (map f l).
Proof. intros H E; pose proof (sum_map_upd f i x old l H); lia. Qed.

(* ---- association lists *)
Lemma alookup_adelete {A} (l : list (id * A)) i j :
  alookup (adelete l i) j = if id_eqb j i then None else alookup l j.
Proof.
  induction l as [|[k v] l IH]; simpl.
  - destruct (id_eqb j i); reflexivity.
  - destruct (id_eqb i k) eqn:E1.
    + apply id_eqb_eq in E1; subst. rewrite IH. destruct (id_eqb j k); reflexivity.
    + simpl. rewrite IH. destruct (id_eqb j k) eqn:E2; [|reflexivity].
      apply id_eqb_eq in E2; subst. rewrite id_eqb_sym in E1. rewrite E1; reflexivity.
Qed.
Lemma alookup_in {A} (l : list (id * A)) i v : alookup l i = Some v -> In (i, v) l.
Proof.
  induction l as [|[k w] l IH]; simpl; [discriminate|].
  destruct (id_eqb i k) eqn:E; intros H.
  - apply id_eqb_eq in E; subst; injection H as ->; auto.
  - auto.
Qed.
Lemma in_alookup {A} (l : list (id * A)) i v : NoDup (map fst l) -> In (i, v) l -> alookup l i = Some v.
Proof.
  induction l as [|[k w] l IH]; simpl; [tauto|]. intros ND [H|H].
  - injection H as -> ->. rewrite id_eqb_refl; reflexivity.
  - inversion ND; subst. destruct (id_eqb i k) eqn:E.
    + apply id_eqb_eq in E; subst. exfalso; apply H2. change k with (fst (k, v)). apply in_map; assumption.
    + auto.
Qed.
Lemma in_adelete {A} (l : list (id * A)) i x : In x (adelete l i) -> In x l /\ fst x <> i.
Proof.
  induction l as [|[k w] l IH]; simpl; [tauto|]. destruct (id_eqb i k) eqn:E.
  - intros H; apply IH in H; tauto.
  - intros [H|H]; [subst; simpl; split; auto; apply id_eqb_neq in E; congruence | apply IH in H; tauto].
Qed.
Lemma adelete_in {A} (l : list (id * A)) i x : In x l -> fst x <> i -> In x (adelete l i).
Proof.
  induction l as [|[k w] l IH]; simpl; [tauto|]. intros [H|H] N.
  - subst; simpl in N. destruct (id_eqb i k) eqn:E; [apply id_eqb_eq in E; congruence | left; reflexivity].
  - destruct (id_eqb i k); [auto | right; auto].
Qed.
Lemma NoDup_adelete_fst {A} (l : list (id * A)) i : NoDup (map fst l) -> NoDup (map fst (adelete l i)).
Proof.
  induction l as [|[k w] l IH]; simpl; intros H; [constructor|]. inversion H; subst.
  destruct (id_eqb i k); [auto|]. simpl; constructor; [|auto].
  intros HI. apply H2. apply in_map_iff in HI as (x & Hx & Hin). apply in_adelete in Hin as [Hin _].
  rewrite <- Hx; apply in_map; assumption.
Qed.
Lemma NoDup_adelete_snd {A} (l : list (id * A)) i : NoDup (map snd l) -> NoDup (map snd (adelete l i)).
Proof.
  induction l as [|[k w] l IH]; simpl; intros H; [constructor|]. inversion H; subst.
  destruct (id_eqb i k); [auto|]. simpl; constructor; [|auto].
  intros HI. apply H2. apply in_map_iff in HI as (x & Hx & Hin). apply in_adelete in Hin as [Hin _].
  rewrite <- Hx; apply in_map; assumption.
Qed.
Lemma adelete_notin_fst {A} (l : list (id * A)) i : ~ In i (map fst (adelete l i)).
Proof. intros H. apply in_map_iff in H as (x & Hx & Hin). apply in_adelete in Hin as [_ N]. congruence. Qed.
Lemma alookup_none_nil {A} (l : list (id * A)) : (forall i, alookup l i = None) -> l = [].
Proof. destruct l as [|[k v] l]; [reflexivity|]. intros H; specialize (H k); simpl in H. rewrite id_eqb_refl in H; discriminate. Qed.

(* ---- remove1 *)
Lemma remove1_length r l l' : remove1 r l = Some l' -> length l = S (length l').
Proof.
  revert l'; induction l as [|x l IH]; simpl; intros l' H; [discriminate|].
  destruct (Nat.eqb r x); [injection H as <-; reflexivity|].
  destruct (remove1 r l) eqn:E; [|discriminate]. injection H as <-. simpl. f_equal. apply IH; reflexivity.
Qed.
Lemma remove1_in r l l' x : remove1 r l = Some l' -> In x l' -> In x l.
Proof.
  revert l'; induction l as [|y l IH]; simpl; intros l' H Hin; [discriminate|].
  destruct (Nat.eqb r y); [injection H as <-; auto|].
  destruct (remove1 r l) eqn:E; [|discriminate]. injection H as <-. destruct Hin as [->|Hin]; [auto | right; eapply IH; eauto].
Qed.
Lemma remove1_in_other r l l' x : remove1 r l = Some l' -> In x l -> x <> r -> In x l'.
Proof.
  revert l'; induction l as [|y l IH]; simpl; intros l' H Hin N; [discriminate|].
  destruct (Nat.eqb_spec r y).
  - injection H as <-. destruct Hin as [->|Hin]; [congruence | assumption].
  - destruct (remove1 r l) eqn:E; [|discriminate]. injection H as <-. destruct Hin as [->|Hin]; [left; reflexivity | right; eapply IH; eauto].
Qed.
Lemma remove1_count r l l' x : remove1 r l = Some l' ->
  count_occ Nat.eq_dec l x = count_occ Nat.eq_dec l' x + (if Nat.eqb r x then 1 else 0).
Proof.
  revert l'; induction l as [|y l IH]; simpl; intros l' H; [discriminate|].
  destruct (Nat.eqb_spec r y).
  - injection H as <-. subst y. destruct (Nat.eq_dec r x); destruct (Nat.eqb_spec r x); try congruence; lia.
  - destruct (remove1 r l) eqn:E; [|discriminate]. injection H as <-. simpl. specialize (IH _ eq_refl).
    destruct (Nat.eq_dec y x); lia.
Qed.

(* ---- the regenerated decision functions, characterised *)
Lemma idle_spec s :
  idle s = true <-> s_outgoing s = [] /\ s_outNotifs s = 0 /\ s_incoming s = 0 /\ s_handlerRunning s = false.
Proof.
  unfold idle, gen_idle, view; cbn.
  rewrite ?andb_true_iff, ?Nat.eqb_eq, ?negb_true_iff, ?length_zero_iff_nil. tauto.
Qed.
Lemma sd_spec s : shutting_down s = s_connClosing s || s_readErr s || s_writeErr s.
Proof. unfold shutting_down, gen_shutting_down, view; cbn. destruct (s_connClosing s), (s_readErr s), (s_writeErr s); reflexivity. Qed.
