(* C39 — who holds an incoming request: at most one thread ever writes its response *)
From Coq Require Import List NArith ZArith Bool Arith Lia.
Import ListNotations.
From V Require Import Base.ConnView Gen.ConnSites Model.C39 Proofs.C39Base Proofs.C39Measure Proofs.C39Calls Proofs.C39Flight.

Definition b2n (b : bool) : nat := if b then 1 else 0.
Definition cnt_r (acc : bool) (f : prs -> bool) (p : rpc) (r : nat) : nat :=
  match p with
  | RBusy r' sub => if Nat.eqb r' r then match sub with RAccept => b2n acc | RPR q => b2n (f q) | _ => 1 end else 0
  | _ => 0 end.
Definition cnt_h (f : prs -> bool) (p : hpc) (r : nat) : nat :=
  match p with
  | HBusy r' sub => if Nat.eqb r' r then match sub with HPR q => b2n (f q) | _ => 1 end else 0
  | _ => 0 end.
Definition cnt_p (f : prs -> bool) (pp : ppc) (r : nat) : nat :=
  match pp with PBusy r' q => if Nat.eqb r' r then b2n (f q) else 0 | _ => 0 end.
Definition occ (l : list nat) (r : nat) : nat := count_occ Nat.eq_dec l r.
(* number of places (reader, queue, handler, pending-async set, Respond threads) that hold request r
   in a stage selected by acc (the accept stage) and f (the stages of processResult) *)
Definition holders (acc : bool) (f : prs -> bool) (s : state) (r : nat) : nat :=
  cnt_r acc f (s_reader s) r + occ (s_queue s) r + cnt_h f (s_handler s) r + occ (s_asyncs s) r
  + sum (map (fun pp => cnt_p f pp r) (s_resps s)).

Definition pre_write (p : prs) : bool := match p with PDelete _ | PWrite _ => true | _ => false end.
Definition pre_del (p : prs) : bool := match p with PDelete _ => true | _ => false end.
Definition HW := holders true pre_write.     (* holders that may still write the response *)
Definition HB := holders false pre_del.      (* holders of a request that is still in incomingByID *)

(* ---- the request table under cancel *)
Lemma cancel_req_nth q l r :
  nth_error (cancel_req q l) r =
  match nth_error l r with Some rq => Some (if Nat.eqb q r then set_rq_cancelled rq else rq) | None => None end.
Proof.
  unfold cancel_req. destruct (nth_error l q) eqn:E.
  - rewrite nth_error_upd. destruct (Nat.eqb_spec q r).
    + subst. rewrite E. reflexivity.
    + destruct (nth_error l r); reflexivity.
  - destruct (Nat.eqb_spec q r); [subst; rewrite E; reflexivity | destruct (nth_error l r); reflexivity].
Qed.
Lemma cancel_req_length q l : length (cancel_req q l) = length l.
Proof. unfold cancel_req. destruct (nth_error l q); [apply length_upd | reflexivity]. Qed.
Definition same_req (a b : reqrec) : Prop := rq_id a = rq_id b /\ rq_answers a = rq_answers b.
Lemma cancel_req_same q l r rq' : nth_error (cancel_req q l) r = Some rq' ->
  exists rq, nth_error l r = Some rq /\ same_req rq' rq.
Proof.
  rewrite cancel_req_nth. destruct (nth_error l r) as [rq|]; [|discriminate]. intros H; injection H as <-.
  exists rq; split; [reflexivity|]. destruct (Nat.eqb q r); split; reflexivity.
Qed.
Lemma cancel_all_length kv l : length (cancel_all kv l) = length l.
Proof. unfold cancel_all. revert l; induction kv as [|a kv IH]; intros l; simpl; [reflexivity|]. rewrite IH. apply cancel_req_length. Qed.
Lemma cancel_all_same kv : forall l r rq', nth_error (cancel_all kv l) r = Some rq' ->
  exists rq, nth_error l r = Some rq /\ same_req rq' rq.
Proof.
  unfold cancel_all. induction kv as [|a kv IH]; intros l r rq' H; simpl in *.
  - exists rq'; split; [assumption | split; reflexivity].
  - destruct (IH _ _ _ H) as (rq1 & H1 & S1 & S2). destruct (cancel_req_same _ _ _ _ H1) as (rq & H2 & S3 & S4).
    exists rq; split; [assumption|]. split; congruence.
Qed.

Lemma occ_app l1 l2 r : occ (l1 ++ l2) r = occ l1 r + occ l2 r.
Proof. apply count_occ_app. Qed.
Lemma occ_le_length l r : occ l r <= length l.
Proof. unfold occ. induction l; simpl; [lia|]. destruct (Nat.eq_dec a r); lia. Qed.
Lemma occ_cons x l r : occ (x :: l) r = (if Nat.eqb x r then 1 else 0) + occ l r.
Proof. unfold occ; simpl. destruct (Nat.eq_dec x r), (Nat.eqb_spec x r); try congruence; lia. Qed.
Lemma occ_remove1 q l l' r : remove1 q l = Some l' -> occ l r = occ l' r + (if Nat.eqb q r then 1 else 0).
Proof. apply remove1_count. Qed.
Ltac rm1' := repeat match goal with R : remove1 ?q ?l = Some ?l' |- _ => 
  match goal with |- context [occ l' ?r] => let H := fresh "HR" in pose proof (occ_remove1 q l l' r R) as H; generalize dependent (occ l' r); intros end end.

Record InvA (s : state) : Prop := {
  ia_fresh : forall r, length (s_reqs s) <= r -> HW s r = 0;
  ia_once : forall r rq, nth_error (s_reqs s) r = Some rq -> rq_answers rq + HW s r <= 1 }.

Lemma InvA_init p : InvA (init p).
Proof. constructor; intros; [reflexivity | destruct r; discriminate]. Qed.

Ltac norm_len :=
  repeat rewrite ?length_upd, ?cancel_req_length, ?cancel_all_length, ?app_length in *; simpl length in *.
(* normalise a hypothesis  nth_error <modified request table> q = Some rq  to the unmodified table *)
Ltac norm_tab H :=
  repeat first
  [ let rq0 := fresh "rq" in let H0 := fresh "Hrq" in let S1 := fresh "Sid" in let S2 := fresh "Sans" in
    apply cancel_req_same in H as (rq0 & H0 & S1 & S2); try rewrite S2 in *; try rewrite S1 in *; rename H0 into H
  | let rq0 := fresh "rq" in let H0 := fresh "Hrq" in let S1 := fresh "Sid" in let S2 := fresh "Sans" in
    apply cancel_all_same in H as (rq0 & H0 & S1 & S2); try rewrite S2 in *; try rewrite S1 in *; rename H0 into H ].
Ltac eqbs :=
  repeat match goal with
  | |- context [Nat.eqb ?a ?b] => destruct (Nat.eqb_spec a b); subst
  | H : context [Nat.eqb ?a ?b] |- _ => destruct (Nat.eqb_spec a b); subst
  | |- context [Nat.ltb ?a ?b] => destruct (Nat.ltb_spec a b)
  | H : context [Nat.ltb ?a ?b] |- _ => destruct (Nat.ltb_spec a b)
  end.
Ltac stages :=
  repeat match goal with
  | |- context [pr_stage ?rq ?o] => let P := fresh "P" in destruct (pr_stage_cases rq o) as [P|P]; rewrite P in *; clear P
  | H : context [pr_stage ?rq ?o] |- _ => let P := fresh "P" in destruct (pr_stage_cases rq o) as [P|P]; rewrite P in *; clear P
  end.
Ltac hold :=
  unfold HW, HB, holders in *; simp_state; rm1'; use_upd'; rw_pcs'; stages;
  cbn [cnt_r cnt_h cnt_p b2n pre_write pre_del] in *; rewrite ?occ_app, ?occ_cons in *;
  cbn [occ count_occ] in *.

Lemma InvA_body s l s1 : InvA s -> body_step s l = Ok s1 -> InvA s1.
Proof.
  intros [I1 I2] H. destruct l; inv_body H.
  all: constructor; intros q; [intros Hq | intros rq Hrq]; specialize (I1 q); try specialize (I2 q); simp_state.
  all: norm_len.
  all: try norm_tab Hrq.
  all: hold.
  all: try (apply I1; assumption); try (eapply I2; eassumption).
  all: try (specialize (I2 _ Hrq); eqbs; lia).
  all: try (specialize (I1 Hq); eqbs; lia).
  all: try (rewrite nth_error_snoc in Hrq; eqbs; try discriminate; try lia;
            [ specialize (I2 _ Hrq); lia | injection Hrq as <-; simpl; specialize (I1 (le_n _)); lia ]).
  all: try (rewrite nth_error_upd in Hrq; eqbs; try lia;
            [ match goal with E : nth_error _ ?q = Some _ |- _ => rewrite E in Hrq; injection Hrq as <-; specialize (I2 _ E); simpl in *; lia end
            | specialize (I2 _ Hrq); lia ]).
  - assert (Hq' : length (s_reqs s) <= q) by lia. specialize (I1 Hq'). eqbs; lia.
  - rewrite nth_error_snoc in Hrq. destruct (Nat.ltb_spec q (length (s_reqs s))).
    + specialize (I2 _ Hrq). eqbs; lia.
    + destruct (Nat.eqb_spec q (length (s_reqs s))); [|discriminate]. injection Hrq as <-. subst q.
      specialize (I1 (le_n _)). rewrite Nat.eqb_refl. simpl. lia.
Qed.

Lemma InvA_epi s s' : InvA s -> epi s = Ok s' -> InvA s'.
Proof.
  unfold epi. intros [I1 I2] H. break_match H; injection H as <-; constructor; unfold HW, holders in *; simp_state; assumption.
Qed.

(* ---- incomingByID only holds requests that are still held in a stage before the delete section *)
Definition entry_ok (s : state) (i : id) (r : nat) : Prop :=
  (exists rq, nth_error (s_reqs s) r = Some rq /\ rq_id rq = Some i) /\ 1 <= HB s r.
Definition InvB (s : state) : Prop := forall i r, alookup (s_byID s) i = Some r -> entry_ok s i r.

Lemma InvB_init p : InvB (init p).
Proof. intros i r H; discriminate. Qed.

Lemma pr_stage_cases' rq o :
  (rq_id rq = None /\ pr_stage rq o = PDec) \/ (exists i, rq_id rq = Some i /\ pr_stage rq o = PDelete o).
Proof. unfold pr_stage; destruct (rq_id rq); eauto. Qed.
Ltac stages' :=
  repeat match goal with
  | |- context [pr_stage ?rq ?o] =>
      let P := fresh "P" in let Q := fresh "Q" in let i := fresh "i" in
      destruct (pr_stage_cases' rq o) as [[Q P]|(i & Q & P)]; rewrite P in *; clear P
  | H : context [pr_stage ?rq ?o] |- _ =>
      let P := fresh "P" in let Q := fresh "Q" in let i := fresh "i" in
      destruct (pr_stage_cases' rq o) as [[Q P]|(i & Q & P)]; rewrite P in *; clear P
  end.
Ltac hold' :=
  unfold HW, HB, holders in *; simp_state; rm1'; use_upd'; rw_pcs'; stages';
  cbn [cnt_r cnt_h cnt_p b2n pre_write pre_del] in *; rewrite ?occ_app, ?occ_cons in *;
  cbn [occ count_occ] in *.

(* the reader's own holding of r in the accept stage excludes every other holder *)
Lemma HB_le_HW s r : HB s r <= HW s r.
Proof.
  unfold HB, HW, holders.
  assert (cnt_r false pre_del (s_reader s) r <= cnt_r true pre_write (s_reader s) r).
  { unfold cnt_r. destruct (s_reader s); try lia. destruct (Nat.eqb r0 r); [|lia]. destruct sub; simpl; try lia. destruct p; simpl; lia. }
  assert (cnt_h pre_del (s_handler s) r <= cnt_h pre_write (s_handler s) r).
  { unfold cnt_h. destruct (s_handler s); try lia. destruct (Nat.eqb r0 r); [|lia]. destruct sub; simpl; try lia. destruct p; simpl; lia. }
  assert (sum (map (fun pp => cnt_p pre_del pp r) (s_resps s)) <= sum (map (fun pp => cnt_p pre_write pp r) (s_resps s))).
  { induction (s_resps s) as [|a l IH]; simpl; [lia|]. assert (cnt_p pre_del a r <= cnt_p pre_write a r); [|lia].
    unfold cnt_p. destruct a; try lia. destruct (Nat.eqb r0 r); [|lia]. destruct p; simpl; lia. }
  lia.
Qed.

Lemma cancel_req_fwd q l r rq : nth_error l r = Some rq ->
  exists rq', nth_error (cancel_req q l) r = Some rq' /\ rq_id rq' = rq_id rq.
Proof. intros H. rewrite cancel_req_nth, H. eexists; split; [reflexivity|]. destruct (Nat.eqb q r); reflexivity. Qed.
Lemma cancel_all_fwd kv : forall l r rq, nth_error l r = Some rq ->
  exists rq', nth_error (cancel_all kv l) r = Some rq' /\ rq_id rq' = rq_id rq.
Proof.
  unfold cancel_all. induction kv as [|a kv IH]; intros l r rq H; simpl; [eauto|].
  destruct (cancel_req_fwd (snd a) _ _ _ H) as (rq1 & H1 & S1). destruct (IH _ _ _ H1) as (rq2 & H2 & S2).
  exists rq2; split; [assumption | congruence].
Qed.
Lemma upd_fwd n x l q rq old : nth_error l q = Some rq -> nth_error l n = Some old -> rq_id x = rq_id old ->
  exists rq', nth_error (upd n x l) q = Some rq' /\ rq_id rq' = rq_id rq.
Proof.
  intros H1 H2 E. rewrite nth_error_upd. destruct (Nat.eqb_spec n q).
  - subst. rewrite H1. exists x; split; [reflexivity | congruence].
  - eauto.
Qed.
Ltac table_fwd Hrq Hid :=
  first
  [ eexists; split; [exact Hrq | exact Hid]
  | let rq' := fresh "rq" in let H1 := fresh in let S1 := fresh in
    match goal with |- context [cancel_req ?c _] =>
      destruct (cancel_req_fwd c _ _ _ Hrq) as (rq' & H1 & S1); exists rq'; split; [exact H1 | congruence] end
  | let rq' := fresh "rq" in let H1 := fresh in let S1 := fresh in
    match goal with |- context [cancel_all ?kv _] =>
      destruct (cancel_all_fwd kv _ _ _ Hrq) as (rq' & H1 & S1); exists rq'; split; [exact H1 | congruence] end
  | let rq' := fresh "rq" in let H1 := fresh in let S1 := fresh in
    match goal with E : nth_error _ ?n = Some ?old |- context [upd ?n ?x _] =>
      destruct (upd_fwd n x _ _ _ old Hrq E eq_refl) as (rq' & H1 & S1); exists rq'; split; [exact H1 | congruence] end
  | eexists; split; [rewrite nth_error_app1; [exact Hrq | eapply nth_error_lt; exact Hrq] | exact Hid] ].

Lemma HB_accept s r : s_reader s = RBusy r RAccept -> HB s r + 1 <= HW s r.
Proof.
  intros E. unfold HB, HW, holders. rewrite E. simpl. rewrite Nat.eqb_refl. simpl.
  assert (cnt_h pre_del (s_handler s) r <= cnt_h pre_write (s_handler s) r).
  { unfold cnt_h. destruct (s_handler s); try lia. destruct (Nat.eqb r0 r); [|lia]. destruct sub; simpl; try lia. destruct p; simpl; lia. }
  assert (sum (map (fun pp => cnt_p pre_del pp r) (s_resps s)) <= sum (map (fun pp => cnt_p pre_write pp r) (s_resps s))).
  { induction (s_resps s) as [|a l IH]; simpl; [lia|]. assert (cnt_p pre_del a r <= cnt_p pre_write a r); [|lia].
    unfold cnt_p. destruct a; try lia. destruct (Nat.eqb r0 r); [|lia]. destruct p; simpl; lia. }
  lia.
Qed.

Lemma InvB_body s l s1 : InvN s -> InvA s -> InvB s -> body_step s l = Ok s1 -> InvB s1.
Proof.
  intros IN IA I H. destruct l; inv_body H.
  all: intros i' q Hq; unfold InvB, entry_ok in *; simp_state.
  all: try (rewrite alookup_adelete in Hq; destruct (id_eqb i' _) eqn:Ei; [discriminate|]; apply id_eqb_neq in Ei).
  all: try (specialize (I _ _ Hq); destruct I as [(rq & Hrq & Hid) I]; split;
            [ try (table_fwd Hrq Hid; fail) | try (hold'; eqbs; first [lia | exfalso; congruence]) ]).
  - (* LStart: the reader did not exist *)
    unfold HB, holders in *; simp_state. rewrite (in_main _ IN E) in I. simpl in *. lia.
  - (* duplicate ID: the request being accepted is not in the map *)
    assert (q <> r).
    { intros ->. pose proof (HB_accept _ _ E). pose proof (ia_once _ IA _ _ E0). lia. }
    exists rq. rewrite nth_error_upd_other by congruence. auto.
  - simpl in Hq. destruct (id_eqb i' i) eqn:Ei.
    + injection Hq as <-. apply id_eqb_eq in Ei; subst i'. split; [eauto|]. hold'. rewrite Nat.eqb_refl. lia.
    + destruct (I _ _ Hq) as [X Y]. split; [assumption|]. hold'. eqbs; lia.
  - simpl in Hq. destruct (id_eqb i' i) eqn:Ei.
    + injection Hq as <-. apply id_eqb_eq in Ei; subst i'. split; [eauto|]. hold'. rewrite Nat.eqb_refl. lia.
    + destruct (I _ _ Hq) as [X Y]. split; [assumption|]. hold'. eqbs; lia.
  - simpl in Hq. destruct (id_eqb i' i) eqn:Ei.
    + injection Hq as <-. apply id_eqb_eq in Ei; subst i'. split; [eauto|]. hold'. rewrite Nat.eqb_refl. lia.
    + destruct (I _ _ Hq) as [X Y]. split; [assumption|]. hold'. eqbs; lia.
  - pose proof (in_running _ IN) as R. rewrite E2 in R. destruct (s_handler s) eqn:EH; try discriminate.
    hold'. eqbs; lia.
Qed.

Lemma InvB_epi s s' : InvB s -> epi s = Ok s' -> InvB s'.
Proof.
  unfold epi. intros I H. break_match H; injection H as <-; intros i r Hq; unfold InvB, entry_ok, HB, holders in *; simp_state; auto.
Qed.

(* a request in incomingByID is counted by s.incoming *)
Lemma HB_le_in_flight s r : HB s r <= in_flight s.
Proof.
  unfold HB, holders, in_flight.
  assert (cnt_r false pre_del (s_reader s) r <= r_counted (s_reader s)).
  { unfold cnt_r, r_counted. destruct (s_reader s); try lia. destruct (Nat.eqb r0 r); destruct sub; simpl; try lia. destruct (pre_del p); simpl; lia. }
  assert (cnt_h pre_del (s_handler s) r <= h_counted (s_handler s)).
  { unfold cnt_h, h_counted. destruct (s_handler s); try lia. destruct (Nat.eqb r0 r); destruct sub; simpl; try lia. destruct (pre_del p); simpl; lia. }
  assert (sum (map (fun pp => cnt_p pre_del pp r) (s_resps s)) <= sum (map p_counted (s_resps s))).
  { induction (s_resps s) as [|a l IH]; simpl; [lia|]. assert (cnt_p pre_del a r <= p_counted a); [|lia].
    unfold cnt_p, p_counted. destruct a; try lia. destruct (Nat.eqb r0 r); [|lia]. destruct (pre_del p); simpl; lia. }
  pose proof (occ_le_length (s_queue s) r). pose proof (occ_le_length (s_asyncs s) r). lia.
Qed.
Lemma byID_nil_of_idle s : InvN s -> InvB s -> s_incoming s = 0 -> s_byID s = [].
Proof.
  intros IN IB Z. apply alookup_none_nil. intros i. destruct (alookup (s_byID s) i) as [r|] eqn:E; [|reflexivity].
  destruct (IB _ _ E) as [_ H]. pose proof (HB_le_in_flight s r). rewrite (in_incoming _ IN) in Z. lia.
Qed.
