(* C39 — who holds an incoming request: at most one thread ever writes its response *)
From Coq Require Import List NArith ZArith Bool Arith Lia.
Import ListNotations.
From V Require Import Base.ConnView Gen.ConnSites Model.C39 Proofs.C39Base Proofs.C39Measure Proofs.C39Calls Proofs.C39Flight.

Definition b2n (b : bool) : nat := if b then 1 else 0.
Definition cnt_r (acc : bool) (f : prs -> bool) (p : rpc) (r : nat) : nat :=
  match p with
  | RBusy r' sub => if Nat.eqb r' r then match sub with RAccept => b2n acc | RPR q => b2n (f q) | _ => 1 end else 0
  | _ => 0 end.
Definition cnt_h (f : prs -> bool) (p : hpc) (r : nat) : nat :=
  match p with
  | HBusy r' sub => if Nat.eqb r' r then match sub with HPR q => b2n (f q) | _ => 1 end else 0
  | _ => 0 end.
Definition cnt_p (f : prs -> bool) (pp : ppc) (r : nat) : nat :=
  match pp with PBusy r' q => if Nat.eqb r' r then b2n (f q) else 0 | _ => 0 end.
Definition occ (l : list nat) (r : nat) : nat := count_occ Nat.eq_dec l r.
(* number of places (reader, queue, handler, pending-async set, Respond threads) that hold request r
   in a stage selected by acc (the accept stage) and f (the stages of processResult) *)
Definition holders (acc : bool) (f : prs -> bool) (s : state) (r : nat) : nat :=
  cnt_r acc f (s_reader s) r + occ (s_queue s) r + cnt_h f (s_handler s) r + occ (s_asyncs s) r
  + sum (map (fun pp => cnt_p f pp r) (s_resps s)).

Definition pre_write (p : prs) : bool := match p with PDelete _ | PWrite _ => true | _ => false end.
Definition pre_del (p : prs) : bool := match p with PDelete _ => true | _ => false end.
Definition HW := holders true pre_write.     (* holders that may still write the response *)
Definition HB := holders false pre_del.      (* holders of a request that is still in incomingByID *)

(* ---- the request table under cancel *)
Lemma cancel_req_nth q l r :
  nth_error (cancel_req q l) r =
  match nth_error l r with Some rq => Some (if Nat.eqb q r then set_rq_cancelled rq else rq) | None => None end.
Proof.
  unfold cancel_req. destruct (nth_error l q) eqn:E.
  - rewrite nth_error_upd. destruct (Nat.eqb_spec q r).
    + subst. rewrite E. reflexivity.
    + destruct (nth_error l r); reflexivity.
  - destruct (Nat.eqb_spec q r); [subst; rewrite E; reflexivity | destruct (nth_error l r); reflexivity].
Qed.
Lemma cancel_req_length q l : length (cancel_req q l) = length l.
Proof. unfold cancel_req. destruct (nth_error l q); [apply length_upd | reflexivity]. Qed.
Definition same_req (a b : reqrec) : Prop := rq_id a = rq_id b /\ rq_answers a = rq_answers b.
Lemma cancel_req_same q l r rq' : nth_error (cancel_req q l) r = Some rq' ->
  exists rq, nth_error l r = Some rq /\ same_req rq' rq.
Proof.
  rewrite cancel_req_nth. destruct (nth_error l r) as [rq|]; [|discriminate]. intros H; injection H as <-.
  exists rq; split; [reflexivity|]. destruct (Nat.eqb q r); split; reflexivity.
Qed.
Lemma cancel_all_length kv l : length (cancel_all kv l) = length l.
Proof. unfold cancel_all. revert l; induction kv as [|a kv IH]; intros l; simpl; [reflexivity|]. rewrite IH. apply cancel_req_length. Qed.
Lemma cancel_all_same kv : forall l r rq', nth_error (cancel_all kv l) r = Some rq' ->
  exists rq, nth_error l r = Some rq /\ same_req rq' rq.
Proof.
  unfold cancel_all. induction kv as [|a kv IH]; intros l r rq' H; simpl in *.
  - exists rq'; split; [assumption | split; reflexivity].
  - destruct (IH _ _ _ H) as (rq1 & H1 & S1 & S2). destruct (cancel_req_same _ _ _ _ H1) as (rq & H2 & S3 & S4).
    exists rq; split; [assumption|]. split; congruence.
Qed.

Lemma occ_app l1 l2 r : occ (l1 ++ l2) r = occ l1 r + occ l2 r.
Proof. apply count_occ_app. Qed.
Lemma occ_le_length l r : occ l r <= length l.
Proof. unfold occ. induction l; simpl; [lia|]. destruct (Nat.eq_dec a r); lia. Qed.
Lemma occ_cons x l r : occ (x :: l) r = (if Nat.eqb x r then 1 else 0) + occ l r.
Proof. unfold occ; simpl. destruct (Nat.eq_dec x r), (Nat.eqb_spec x r); try congruence; lia. Qed.
Lemma occ_remove1 q l l' r : remove1 q l = Some l' -> occ l r = occ l' r + (if Nat.eqb q r then 1 else 0).
Proof. apply remove1_count. Qed.
Ltac rm1' := repeat match goal with R : remove1 ?q ?l = Some ?l' |- _ => 
  match goal with |- context [occ l' ?r] => let H := fresh "HR" in pose proof (occ_remove1 q l l' r R) as H; generalize dependent (occ l' r); intros end end.

Record InvA (s : state) : Prop := {
  ia_fresh : forall r, length (s_reqs s) <= r -> HW s r = 0;
  ia_once : forall r rq, nth_error (s_reqs s) r = Some rq -> rq_answers rq + HW s r <= 1 }.

Lemma InvA_init p : InvA (init p).
Proof. constructor; intros; [reflexivity | destruct r; discriminate]. Qed.

Ltac norm_len :=
  repeat rewrite ?length_upd, ?cancel_req_length, ?cancel_all_length, ?app_length in *; simpl length in *.
(* normalise a hypothesis  nth_error <modified request table> q = Some rq  to the unmodified table *)
Ltac norm_tab H :=
  repeat first
  [ let rq0 := fresh "rq" in let H0 := fresh "Hrq" in let S1 := fresh "Sid" in let S2 := fresh "Sans" in
    apply cancel_req_same in H as (rq0 & H0 & S1 & S2); try rewrite S2 in *; try rewrite S1 in *; rename H0 into H
  | let rq0 := fresh "rq" in let H0 := fresh "Hrq" in let S1 := fresh "Sid" in let S2 := fresh "Sans" in
    apply cancel_all_same in H as (rq0 & H0 & S1 & S2); try rewrite S2 in *; try rewrite S1 in *; rename H0 into H ].
Ltac eqbs :=
  repeat match goal with
  | |- context [Nat.eqb ?a ?b] => destruct (Nat.eqb_spec a b); subst
  | H : context [Nat.eqb ?a ?b] |- _ => destruct (Nat.eqb_spec a b); subst
  | |- context [Nat.ltb ?a ?b] => destruct (Nat.ltb_spec a b)
  | H : context [Nat.ltb ?a ?b] |- _ => destruct (Nat.ltb_spec a b)
  end.
Ltac stages :=
  repeat match goal with
  | |- context [pr_stage ?rq ?o] => let P := fresh "P" in destruct (pr_stage_cases rq o) as [P|P]; rewrite P in *
  | H : context [pr_stage ?rq ?o] |- _ => let P := fresh "P" in destruct (pr_stage_cases rq o) as [P|P]; rewrite P in *
  end.
Ltac hold :=
  unfold HW, HB, holders in *; simp_state; rm1'; use_upd'; rw_pcs'; stages;
  cbn [cnt_r cnt_h cnt_p b2n pre_write pre_del] in *; rewrite ?occ_app, ?occ_cons in *;
  cbn [occ count_occ] in *.

Lemma InvA_body s l s1 : InvA s -> body_step s l = Ok s1 -> InvA s1.
Proof.
  intros [I1 I2] H. destruct l; inv_body H.
  all: constructor; intros q; [intros Hq | intros rq Hrq]; specialize (I1 q); try specialize (I2 q); simp_state.
  all: norm_len.
  all: match goal with |- ?g => idtac "G" end.
Admitted.
