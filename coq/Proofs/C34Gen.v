(* Obligations over the tables regenerated from parser/parser_gop.go (Gen/C34.v): the constants of
   Model/C34.v are exactly the literals of the source, clause by clause. By computation only. *)
From Coq Require Import List NArith ZArith Bool.
Import ListNotations.
From V Require Import Base.Prelude Model.C34 Gen.C34.

Lemma dir_switch_tables :
  dir_case_labels = [[ext_xgo; ext_gop]; [ext_go]; [ext_gox]]
  /\ dir_case_fallthrough = [false; false; true]
  /\ dir_default_can_skip = true
  /\ dir_prefix_literals = [autogen_prefix; us].
Proof. vm_compute. repeat split; reflexivity. Qed.

Lemma entry_switch_tables :
  entry_case_labels = [[ext_xgo; ext_gop; ext_go]; [ext_gox]]
  /\ entry_case_fallthrough = [false; true]
  /\ entry_default_can_skip = true
  /\ entry_prefix_literals = [].
Proof. vm_compute. repeat split; reflexivity. Qed.

Lemma dck_tables :
  dck_case_labels = [[ext_spx]; [ext_gsh; ext_gmx]] /\ dck_has_default = false /\ dck_eq_literals = [main_spx].
Proof. vm_compute. repeat split; reflexivity. Qed.

(* the model's switch, read against the generated tables: an extension listed in a clause of the
   source gets that clause's treatment *)
Lemma classify_by_tables c n :
  (In (path_ext n) (nth 0 dir_case_labels []) -> classify c n = Some (KX false false false))
  /\ (In (path_ext n) (nth 1 dir_case_labels []) ->
        classify c n = if has_prefix (nth 0 dir_prefix_literals []) n then None
                       else Some (if c_go_as_x c then KX false false false else KGo))
  /\ (~ In (path_ext n) (concat dir_case_labels) -> snd (c_ck c n) = false -> classify c n = None).
Proof.
  destruct dir_switch_tables as (-> & _ & _ & ->). cbn [nth concat app In].
  repeat split.
  - intros [E|[E|[]]]; unfold classify; cbv zeta; rewrite <- E; reflexivity.
  - intros [E|[]]. unfold classify. cbv zeta. rewrite <- E.
    replace (str_eqb ext_go ext_xgo) with false by reflexivity.
    replace (str_eqb ext_go ext_gop) with false by reflexivity. replace (str_eqb ext_go ext_go) with true by reflexivity.
    cbn [orb]. destruct (has_prefix autogen_prefix n), (c_go_as_x c); reflexivity.
  - intros NI CK. unfold classify. cbv zeta.
    assert (forall a, path_ext n <> a -> str_eqb (path_ext n) a = false).
    { intros a Ha. destruct (str_eqb (path_ext n) a) eqn:E; [apply str_eqb_eq in E; contradiction|reflexivity]. }
    rewrite !H by (intros E; apply NI; rewrite E; cbn; tauto). cbn [orb].
    destruct (c_ck c n) as [p cl]. cbn [snd] in CK. subst cl. reflexivity.
Qed.
