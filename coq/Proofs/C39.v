(* C39 — lemmas about the connection LTS of Model/C39.v *)
From Coq Require Import List NArith ZArith Bool Arith Lia String.
Import ListNotations.
From V Require Import Base.ConnView Gen.ConnSites Model.C39.

(* ---- K-gen obligations: what the translator read from conn.go is what the model was written against *)
Lemma sites_match : conn_sites = modelled_sites.
Proof. vm_compute. reflexivity. Qed.
Lemma funcs_match : conn_funcs = modelled_funcs.
Proof. vm_compute. reflexivity. Qed.
Lemma ifs_fields_match : fields_inFlightState = modelled_ifs_fields.
Proof. vm_compute. reflexivity. Qed.
Lemma access_match :
  state_access_funcs = modelled_state_access /\ retire_callers = modelled_retire_callers /\ chan_closers = modelled_chan_closers.
Proof. vm_compute. repeat split; reflexivity. Qed.
