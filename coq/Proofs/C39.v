(* C39 — the invariant of the connection LTS and its consequences over all reachable states *)
From Coq Require Import List NArith ZArith Bool Arith Lia String.
Import ListNotations.
From V Require Import Base.ConnView Gen.ConnSites Model.C39
  Proofs.C39Base Proofs.C39Measure Proofs.C39Calls Proofs.C39Flight Proofs.C39Holders Proofs.C39Done.

(* ---- K-gen obligations: what the translator read from conn.go is what the model was written against *)
Lemma sites_match : conn_sites = modelled_sites.
Proof. vm_compute. reflexivity. Qed.
Lemma funcs_match : conn_funcs = modelled_funcs.
Proof. vm_compute. reflexivity. Qed.
Lemma ifs_fields_match : fields_inFlightState = modelled_ifs_fields.
Proof. vm_compute. reflexivity. Qed.
Lemma access_match :
  state_access_funcs = modelled_state_access /\ retire_callers = modelled_retire_callers /\ chan_closers = modelled_chan_closers.
Proof. vm_compute. repeat split; reflexivity. Qed.
(* the regenerated decision functions mean what the proofs use *)
Lemma gen_idle_spec s :
  idle s = true <-> s_outgoing s = [] /\ s_outNotifs s = 0 /\ s_incoming s = 0 /\ s_handlerRunning s = false.
Proof. apply idle_spec. Qed.
Lemma gen_shutting_down_spec s : shutting_down s = s_connClosing s || s_readErr s || s_writeErr s.
Proof. apply sd_spec. Qed.

(* ---- reachability *)
Inductive reachable (p : bool) : state -> Prop :=
  | reach_init : reachable p (init p)
  | reach_step s l s' : reachable p s -> step s l = Ok s' -> reachable p s'.

Lemma reachable_run p ls s : run (init p) ls = Ok s -> reachable p s.
Proof.
  assert (G : forall ls s0 s, reachable p s0 -> run s0 ls = Ok s -> reachable p s).
  { induction ls0 as [|l ls0 IH]; simpl; intros s0 s1 R H.
    - injection H as <-; assumption.
    - destruct (step s0 l) eqn:E; try discriminate. eapply IH; [|eassumption]. eapply reach_step; eauto. }
  intros H. eapply G; [apply reach_init | eassumption].
Qed.

Record Inv (s : state) : Prop := {
  inv_C : InvC s; inv_N : InvN s; inv_A : InvA s; inv_B : InvB s; inv_D : InvD s }.

Lemma Inv_init p : Inv (init p).
Proof. constructor; [apply InvC_init | apply InvN_init | apply InvA_init | apply InvB_init | apply InvD_init]. Qed.

Lemma Inv_body s l s1 : Inv s -> body_step s l = Ok s1 -> Inv s1.
Proof.
  intros [C N A B D] H. constructor.
  - eapply InvC_body; eauto.
  - eapply InvN_body; eauto.
  - eapply InvA_body; eauto.
  - eapply InvB_body; eauto.
  - eapply InvD_body; eauto.
Qed.
Lemma Inv_epi s s' : Inv s -> epi s = Ok s' -> Inv s'.
Proof.
  intros [C N A B D] H. constructor.
  - eapply InvC_epi; eauto.
  - eapply InvN_epi; eauto.
  - eapply InvA_epi; eauto.
  - eapply InvB_epi; eauto.
  - eapply InvD_epi; eauto.
Qed.
Lemma Inv_step s l s' : Inv s -> step s l = Ok s' -> Inv s'.
Proof.
  unfold step. intros I H. destruct (body_step s l) as [s1| |] eqn:B; try discriminate.
  pose proof (Inv_body _ _ _ I B) as I1. destruct (is_section l).
  - eapply Inv_epi; eauto.
  - injection H as <-; assumption.
Qed.
Lemma reachable_inv p s : reachable p s -> Inv s.
Proof. induction 1; [apply Inv_init | eapply Inv_step; eauto]. Qed.

(* ---- no panic *)
Lemma Inv_no_panic s l pn : Inv s -> step s l <> Panic pn.
Proof.
  unfold step. intros I H. destruct (body_step s l) as [s1|p1|] eqn:B; try discriminate.
  - pose proof (Inv_body _ _ _ I B) as I1. destruct (is_section l); [|discriminate].
    eapply epi_no_panic; [apply (inv_D _ I1) | eassumption].
  - pose proof (no_counter_panic _ _ _ (inv_N _ I) B). subst p1.
    eapply no_retire_panic; [apply (inv_C _ I) | eassumption | reflexivity].
Qed.
Lemma no_panic p s l pn : reachable p s -> step s l <> Panic pn.
Proof. intros R. apply Inv_no_panic. eapply reachable_inv; eauto. Qed.

(* ---- outgoing calls *)
Lemma map_iff p s i c : reachable p s ->
  (In (i, c) (s_outgoing s) <->
   exists cr, nth_error (s_calls s) c = Some cr /\ c_id cr = Some i /\ c_reg cr = true /\ c_resp cr = None).
Proof.
  intros R. pose proof (inv_C _ (reachable_inv _ _ R)) as I. split.
  - intros H. destruct (ic_out _ _ _ I _ _ H) as (cr & A & B & C & D). eauto.
  - intros (cr & A & B & C & D). destruct (ck_reg _ _ _ _ (ic_calls _ _ _ I _ _ A) C D) as (i' & X & Y). congruence.
Qed.
Lemma own_id p s c cr r : reachable p s -> nth_error (s_calls s) c = Some cr -> c_resp cr = Some r ->
  c_id cr = Some (rs_id r).
Proof. intros R E H. eapply ck_resp; [eapply ic_calls; [apply (inv_C _ (reachable_inv _ _ R)) | eassumption] | assumption]. Qed.
Lemma await_own_id p s c r s' : reachable p s -> step s (LAwait c r) = Ok s' ->
  exists cr, nth_error (s_calls s) c = Some cr /\ c_id cr = Some (rs_id r) /\ s' = s.
Proof.
  intros R H. unfold step in H. destruct (body_step s (LAwait c r)) as [s1| |] eqn:B; try discriminate.
  cbn [is_section] in H. injection H as <-. inv_body B.
  match goal with E : _ && _ = true |- _ => apply andb_prop in E as [X _] end. apply id_eqb_eq in X.
  eexists. split; [reflexivity|]. split; [|reflexivity]. rewrite X. eapply own_id; eauto.
Qed.
Lemma unique_ids p s c c' cr cr' i : reachable p s ->
  nth_error (s_calls s) c = Some cr -> nth_error (s_calls s) c' = Some cr' -> c_id cr = Some i -> c_id cr' = Some i -> c = c'.
Proof. intros R. apply (ic_uniq _ _ _ (inv_C _ (reachable_inv _ _ R))). Qed.
Lemma resp_stable p s l s' c cr r : reachable p s -> step s l = Ok s' ->
  nth_error (s_calls s) c = Some cr -> c_resp cr = Some r ->
  exists cr', nth_error (s_calls s') c = Some cr' /\ c_resp cr' = Some r.
Proof.
  intros R H E X. unfold step in H. destruct (body_step s l) as [s1| |] eqn:B; try discriminate.
  destruct (resp_stable_body _ _ _ _ _ _ (inv_C _ (reachable_inv _ _ R)) B E X) as (cr' & A & A' & _).
  destruct (is_section l).
  - exists cr'. split; [|assumption]. unfold epi in H. break_match H; injection H as <-; simp_state; assumption.
  - injection H as <-. eauto.
Qed.
Lemma call_returned_retired_or_pending p s c cr : reachable p s -> nth_error (s_calls s) c = Some cr ->
  returned_pc (c_pc cr) = true ->
  c_resp cr <> None \/ exists i, c_id cr = Some i /\ In (i, c) (s_outgoing s).
Proof.
  intros R E H. pose proof (ic_calls _ _ _ (inv_C _ (reachable_inv _ _ R)) _ _ E) as K.
  destruct (ck_ret _ _ _ _ K H) as [X|X]; [left; assumption|].
  destruct (c_resp cr) eqn:Y; [left; discriminate | right; apply (ck_reg _ _ _ _ K X Y)].
Qed.

(* ---- done *)
Lemma done_facts p s : reachable p s -> s_done s = true ->
  idle s = true /\ s_reading s = false /\ shutting_down s = true /\ s_closer s = false /\ s_byID s = [].
Proof.
  intros R H. pose proof (reachable_inv _ _ R) as I.
  destruct (id_done _ (inv_D _ I) H) as (A & B & C & D).
  split; [apply idle_spec; exact A|]. split; [assumption|]. split; [rewrite sd_spec; exact C|]. split; [assumption|].
  apply (byID_nil_of_idle _ (inv_N _ I) (inv_B _ I)). apply A.
Qed.
Lemma retired_when_done p s c cr : reachable p s -> s_done s = true -> nth_error (s_calls s) c = Some cr ->
  (c_reg cr = true \/ returned_pc (c_pc cr) = true) -> c_resp cr <> None.
Proof.
  intros R H E X. destruct (done_facts _ _ R H) as (A & _). apply idle_spec in A. destruct A as [O _].
  pose proof (ic_calls _ _ _ (inv_C _ (reachable_inv _ _ R)) _ _ E) as K.
  assert (G : c_reg cr = true -> c_resp cr <> None).
  { intros G Y. destruct (ck_reg _ _ _ _ K G Y) as (i & _ & Hin). rewrite O in Hin. destruct Hin. }
  destruct X as [X|X]; [auto|]. destruct (ck_ret _ _ _ _ K X); auto.
Qed.
Lemma done_stable s l s' : step s l = Ok s' -> s_done s = true -> s_done s' = true.
Proof.
  unfold step. intros H D. destruct (body_step s l) as [s1| |] eqn:B; try discriminate.
  assert (D1 : s_done s1 = true) by (destruct l; inv_body B; simp_state; first [assumption | congruence]).
  destruct (is_section l); [|injection H as <-; assumption].
  unfold epi in H. rewrite D1 in H. break_match H; injection H as <-; assumption.
Qed.
Lemma closed_once p s : reachable p s -> s_rwc_closes s <= 1 /\ s_ondones s <= 1 /\
  (s_done s = true -> s_rwc_closes s = 1 /\ s_ondones s = 1).
Proof.
  intros R. pose proof (inv_D _ (reachable_inv _ _ R)) as D.
  rewrite (id_rwc _ D), (id_ondone _ D). split; [destruct (s_closer s); lia|]. split; [destruct (s_done s); lia|].
  intros H. destruct (id_done _ D H) as (_ & _ & _ & C). rewrite C, H. auto.
Qed.

(* ---- incoming requests *)
Lemma answered_once p s r rq : reachable p s -> nth_error (s_reqs s) r = Some rq -> rq_answers rq <= 1.
Proof. intros R E. pose proof (ia_once _ (inv_A _ (reachable_inv _ _ R)) _ _ E). lia. Qed.
(* once answered, nobody holds the request in a stage from which it could be answered again *)
Lemma answered_no_writer p s r rq : reachable p s -> nth_error (s_reqs s) r = Some rq -> rq_answers rq = 1 -> HW s r = 0.
Proof. intros R E H. pose proof (ia_once _ (inv_A _ (reachable_inv _ _ R)) _ _ E). lia. Qed.
Lemma counters p s : reachable p s ->
  s_outNotifs s = notif_count s /\ s_incoming s = in_flight s /\
  s_handlerRunning s = match s_handler s with HNone => false | _ => true end.
Proof. intros R. destruct (inv_N _ (reachable_inv _ _ R)); auto. Qed.

(* the specialisations of no_panic named in the design *)
Lemma retire_at_most_once p s l : reachable p s -> step s l <> Panic PRetireTwice.
Proof. apply no_panic. Qed.
Lemma idle_after_done p s l : reachable p s -> step s l <> Panic PNonIdleAfterDone.
Proof. apply no_panic. Qed.
