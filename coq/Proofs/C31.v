(* Lemmas for C31: fuel monotonicity and sufficiency, the print/parse round trip at every
   precedence level, "no error => well-formed tree", and the file-level statements. *)
From Coq Require Import List NArith Lia Bool Arith.
Import ListNotations.
From V Require Import Base.Prelude Model.C31.

Ltac dtok r := destruct r as [|[? | ? ? | [] | [] | | | | | | | | | ?] r].

(* ---------- fuel monotonicity ---------- *)
Lemma P_mono : forall f s ts x, P f s ts = Some x -> P (S f) s ts = Some x.
Proof.
  induction f as [|f IH]; intros s ts x H; [discriminate|].
  remember (S f) as f' eqn:Ef.
  rewrite Ef in H. cbn [P] in H. cbn [P]. clear Ef.
  destruct s;
  repeat (match goal with
  | H: context[match P f ?s ?t with _ => _ end] |- _ =>
      let E := fresh "E" in destruct (P f s t) as [[[? ?] ?]|] eqn:E; [apply IH in E; rewrite E|discriminate]
  | H: context[match ?x with _ => _ end] |- _ => destruct x eqn:?; try discriminate
  | H: Some _ = Some _ |- _ => exact H
  end); try assumption; try discriminate.
Qed.

Lemma P_mono_le : forall f f' s ts x, f <= f' -> P f s ts = Some x -> P f' s ts = Some x.
Proof. induction 1; auto using P_mono. Qed.

(* ---------- well-formedness, sizes ---------- *)
Fixpoint wfl (l : list ge) : Prop := match l with [] => True | x :: t => wf x /\ wfl t end.
Lemma wf_seq l : wf (ESeq l) <-> 2 <= length l /\ wfl l.
Proof. simpl. split; intros [A B]; split; auto; clear A; induction l; simpl in *; tauto. Qed.
Lemma wf_choice l : wf (EChoice l) <-> 2 <= length l /\ wfl l.
Proof. simpl. split; intros [A B]; split; auto; clear A; induction l; simpl in *; tauto. Qed.

Fixpoint sz (e : ge) : nat :=
  match e with
  | EUn _ x => S (sz x) | EBin _ x y => S (sz x + sz y)
  | ESeq l | EChoice l => S (fold_right (fun x a => sz x + a) 0 l)
  | _ => 1
  end.
Definition szl (l : list ge) := fold_right (fun x a => sz x + a) 0 l.

Definition OK (e : ge) (r : list tok) : R := Some (Some e, r, 0).
(* a token that can begin a factor *)
Definition start (t : tok) := match t with TIdent _ | TLit _ _ | TU _ | TLP => True | _ => False end.
Definition starts (ts : list tok) := match ts with t :: _ => start t | [] => False end.
Definition no_inc (r : list tok) := match r with TB BInc :: _ => False | _ => True end.
Definition no_bin (r : list tok) := match r with TB _ :: _ => False | _ => True end.
(* what may follow a term list: anything that neither starts a factor nor is % / ++ *)
Definition stop1 (r : list tok) :=
  match r with [] => True | (TIdent _ | TLit _ _ | TU _ | TLP | TB _) :: _ => False | _ => True end.
(* what may follow an expression: additionally not '|' *)
Definition stop0 (r : list tok) :=
  match r with [] => True | (TIdent _ | TLit _ _ | TU _ | TLP | TB _ | TOr) :: _ => False | _ => True end.

Lemma at_eq l e : at_ l e = if Nat.ltb (level e) l then TLP :: pr e ++ [TRP] else pr e.
Proof. reflexivity. Qed.
Lemma pr_seq l : pr (ESeq l) = flat_map (at_ 2) l. Proof. reflexivity. Qed.
Lemma pr_choice a t : pr (EChoice (a :: t)) = at_ 1 a ++ flat_map (fun x => TOr :: at_ 1 x) t. Proof. reflexivity. Qed.
Lemma starts_app a b : starts a -> starts (a ++ b). Proof. destruct a; simpl; tauto. Qed.

Lemma at_starts : forall n e l, sz e <= n -> wf e -> starts (at_ l e).
Proof.
  induction n as [|n IH]; intros e l Hs Hw. { destruct e; simpl in Hs; lia. }
  rewrite at_eq. destruct (Nat.ltb (level e) l); [exact I|].
  destruct e; try exact I.
  - destruct o; simpl in *; destruct Hw as [Hx Hy].
    + change (starts (at_ 2 e1 ++ TB BRem :: at_ 3 e2)). apply starts_app, IH; auto; lia.
    + change (starts (at_ 3 e1 ++ TB BInc :: at_ 4 e2)). apply starts_app, IH; auto; lia.
  - apply wf_seq in Hw as [Hl Hw]. destruct l0 as [|a t]; simpl in Hl; [lia|].
    rewrite pr_seq. simpl. destruct Hw. apply starts_app, IH; auto. simpl in Hs. lia.
  - apply wf_choice in Hw as [Hl Hw]. destruct l0 as [|a t]; simpl in Hl; [lia|].
    rewrite pr_choice. destruct Hw. apply starts_app, IH; auto. simpl in Hs. lia.
  - destruct Hw.
Qed.

(* ---------- the five statements (one per precedence level) ---------- *)
Definition Fp (e : ge) := forall r, exists f, P f SFactor (at_ 4 e ++ r) = OK e r.
Definition T2G (e : ge) := forall r res, (exists f, P f (SIncLoop e) r = Some res) -> exists f, P f STerm2 (at_ 3 e ++ r) = Some res.
Definition TG (e : ge) := forall r res, no_inc r -> (exists f, P f (SRemLoop e) r = Some res) -> exists f, P f STerm (at_ 2 e ++ r) = Some res.
Definition TLp (e : ge) := forall r, stop1 r -> exists f, P f (STermList []) (at_ 1 e ++ r) = OK e r.
Definition Ep (e : ge) := forall r, stop0 r -> exists f, P f SExpr (pr e ++ r) = OK e r.

Ltac up f H := apply (P_mono_le _ f) in H; [|lia].

Lemma inc_stop f x r : no_inc r -> P (S f) (SIncLoop x) r = OK x r.
Proof. dtok r; simpl; tauto || reflexivity. Qed.
Lemma rem_stop f x r : no_bin r -> P (S f) (SRemLoop x) r = OK x r.
Proof. dtok r; simpl; tauto || reflexivity. Qed.

Lemma D1 e : Ep e -> level e < 4 -> Fp e.
Proof.
  intros HE Hl r. rewrite at_eq. apply Nat.ltb_lt in Hl. rewrite Hl.
  destruct (HE (TRP :: r) I) as [f Hf]. exists (S f).
  cbn [app]. rewrite <- app_assoc. cbn [app P]. rewrite Hf. reflexivity.
Qed.

Lemma at_34 e : level e <> 3 -> at_ 3 e = at_ 4 e.
Proof. intros H. rewrite !at_eq. destruct (level e) as [|[|[|[|[|n]]]]] eqn:E; try reflexivity; try lia.
  all: exfalso; destruct e; try destruct o; simpl in E; lia. Qed.
Lemma at_23 e : level e <> 2 -> at_ 2 e = at_ 3 e.
Proof. intros H. rewrite !at_eq. destruct (level e) as [|[|[|n]]] eqn:E; try reflexivity; lia. Qed.
Lemma at_12 e : level e <> 1 -> at_ 1 e = at_ 2 e.
Proof. intros H. rewrite !at_eq. destruct (level e) as [|[|n]] eqn:E; try reflexivity; lia. Qed.
Lemma at_01 e : level e <> 0 -> pr e = at_ 1 e.
Proof. intros H. rewrite !at_eq. destruct (level e) as [|n] eqn:E; try reflexivity; lia. Qed.

Lemma D2 e : Fp e -> level e <> 3 -> T2G e.
Proof.
  intros HF Hl r [[z r'] m] [f1 H1]. rewrite at_34 by auto. destruct (HF r) as [f2 H2].
  exists (S (f1 + f2)). up (f1+f2) H1. up (f1+f2) H2. cbn [P]. rewrite H2, H1. reflexivity.
Qed.

Lemma D3 e : T2G e -> level e <> 2 -> TG e.
Proof.
  intros HT Hl r [[z r'] m] Hr [f1 H1]. rewrite at_23 by auto.
  destruct (HT r (Some e, r, 0)) as [f2 H2]. { exists 1. now apply inc_stop. }
  exists (S (f1 + f2)). up (f1+f2) H1. up (f1+f2) H2. cbn [P]. rewrite H2, H1. reflexivity.
Qed.

Lemma factor_fail f r : stop1 r -> P (S f) SFactor r = Some (None, r, 0).
Proof. dtok r; simpl; tauto || reflexivity. Qed.
Lemma stop1_no_bin r : stop1 r -> no_bin r. Proof. dtok r; simpl; tauto. Qed.
Lemma stop1_no_inc r : stop1 r -> no_inc r. Proof. dtok r; simpl; tauto. Qed.
Lemma stop0_stop1 r : stop0 r -> stop1 r. Proof. dtok r; simpl; tauto. Qed.

Lemma term_fail f r : stop1 r -> P (S (S (S f))) STerm r = Some (None, r, 0).
Proof. dtok r; simpl; tauto || reflexivity. Qed.

Lemma unf_termlist f acc ts : P (S f) (STermList acc) ts =
      match P f STerm ts with
      | Some (Some t, r, n) => match P f (STermList (acc ++ [t])) r with Some (x, r', m) => Some (x, r', n+m) | None => None end
      | Some (None, r, n) => let '(e, m) := mkseq acc in Some (Some e, r, n+m)
      | None => None
      end.
Proof. reflexivity. Qed.

Lemma D4 e : TG e -> level e <> 1 -> TLp e.
Proof.
  intros HT Hl r Hr. rewrite at_12 by auto.
  destruct (HT r (Some e, r, 0)) as [f1 H1]; [now apply stop1_no_inc| exists 1; now apply rem_stop, stop1_no_bin|].
  set (F := S (S (S (S f1)))). exists (S (S F)). up (S F) H1.
  rewrite unf_termlist, H1, unf_termlist. unfold F at 1. rewrite term_fail by auto. reflexivity.
Qed.

Lemma D5 e : TLp e -> level e <> 0 -> Ep e.
Proof.
  intros HT Hl r Hr. rewrite at_01 by auto. destruct (HT r (stop0_stop1 _ Hr)) as [f Hf].
  exists (S f). cbn [P]. rewrite Hf. dtok r; simpl in Hr; tauto || reflexivity.
Qed.

(* ---------- unfolding equations ---------- *)
Lemma unf_incloop f x r : P (S f) (SIncLoop x) (TB BInc :: r) =
  match P f SFactor r with
  | Some (Some y, r', n) => match P f (SIncLoop (EBin BInc x y)) r' with Some (z, r'', m) => Some (z, r'', n+m) | None => None end
  | Some (None, r', n) => Some (None, r', S n) | None => None end.
Proof. reflexivity. Qed.
Lemma unf_remloop f x r : P (S f) (SRemLoop x) (TB BRem :: r) =
  match P f STerm2 r with
  | Some (Some y, r', n) => match P f (SRemLoop (EBin BRem x y)) r' with Some (z, r'', m) => Some (z, r'', n+m) | None => None end
  | Some (None, r', n) => Some (None, r', S n) | None => None end.
Proof. reflexivity. Qed.
Lemma unf_orloop f acc r : P (S f) (SOrLoop acc) (TOr :: r) =
  match P f (STermList []) r with
  | Some (Some t, r', n) => match P f (SOrLoop (acc ++ [t])) r' with Some (x, r'', m) => Some (x, r'', n+m) | None => None end
  | x => x end.
Proof. reflexivity. Qed.
Lemma unf_expr f ts : P (S f) SExpr ts =
  match P f (STermList []) ts with
  | Some (Some t, r, n) =>
      match r with
      | TOr :: _ => match P f (SOrLoop [t]) r with Some (x, r', m) => Some (x, r', n+m) | None => None end
      | _ => Some (Some t, r, n)
      end
  | x => x end.
Proof. reflexivity. Qed.

(* ---------- native cases ---------- *)
Lemma N4_un o x : Fp x -> Fp (EUn o x).
Proof. intros HF r. destruct (HF r) as [f Hf]. exists (S f).
  change (at_ 4 (EUn o x)) with (TU o :: at_ 4 x). cbn [app P]. rewrite Hf. reflexivity. Qed.

Lemma N3 x y : T2G x -> Fp y -> T2G (EBin BInc x y).
Proof.
  intros HX HY r [[z r'] m] [f1 H1].
  change (at_ 3 (EBin BInc x y)) with (at_ 3 x ++ TB BInc :: at_ 4 y). rewrite <- app_assoc. cbn [app].
  apply HX. destruct (HY r) as [f2 H2]. exists (S (f1 + f2)). up (f1+f2) H1. up (f1+f2) H2.
  rewrite unf_incloop, H2, H1. reflexivity.
Qed.

Lemma N2 x y : TG x -> T2G y -> TG (EBin BRem x y).
Proof.
  intros HX HY r [[z r'] m] Hr [f1 H1].
  change (at_ 2 (EBin BRem x y)) with (at_ 2 x ++ TB BRem :: at_ 3 y). rewrite <- app_assoc. cbn [app].
  apply HX; [exact I|]. destruct (HY r (Some y, r, 0)) as [f2 H2]. { exists 1. now apply inc_stop. }
  exists (S (f1 + f2)). up (f1+f2) H1. up (f1+f2) H2.
  rewrite unf_remloop, H2, H1. reflexivity.
Qed.

Lemma starts_no_bin ts : starts ts -> no_bin ts /\ no_inc ts.
Proof. dtok ts; simpl; tauto. Qed.

Lemma seq_loop : forall l acc r, wfl l -> (forall x, In x l -> TG x) -> stop1 r ->
  exists f, P f (STermList acc) (flat_map (at_ 2) l ++ r) = Some (Some (fst (mkseq (acc ++ l))), r, snd (mkseq (acc ++ l))).
Proof.
  induction l as [|a t IH]; intros acc r Hw HT Hr.
  - rewrite app_nil_r. exists 5. cbn [flat_map app]. rewrite unf_termlist, term_fail by auto.
    destruct (mkseq acc). reflexivity.
  - destruct Hw as [Hwa Hwt]. cbn [flat_map]. rewrite <- app_assoc.
    set (rest := flat_map (at_ 2) t ++ r).
    assert (Hrest : no_bin rest /\ no_inc rest).
    { unfold rest. destruct t as [|b t']; simpl.
      - split; [now apply stop1_no_bin|now apply stop1_no_inc].
      - apply starts_no_bin. rewrite <- app_assoc. apply starts_app. destruct Hwt. eapply at_starts; eauto. }
    destruct (HT a (or_introl eq_refl) rest (Some a, rest, 0)) as [f1 H1]; [tauto| exists 1; now apply rem_stop|].
    destruct (IH (acc ++ [a]) r Hwt (fun x Hx => HT x (or_intror Hx)) Hr) as [f2 H2].
    rewrite <- app_assoc in H2. cbn [app] in H2. fold rest in H2.
    exists (S (f1 + f2)). up (f1+f2) H1. up (f1+f2) H2. rewrite unf_termlist, H1, H2. reflexivity.
Qed.

Lemma N1 l : 2 <= length l -> wfl l -> (forall x, In x l -> TG x) -> TLp (ESeq l).
Proof.
  intros Hl Hw HT r Hr. change (at_ 1 (ESeq l)) with (flat_map (at_ 2) l).
  destruct (seq_loop l [] r Hw HT Hr) as [f Hf]. exists f. rewrite Hf. cbn [app].
  destruct l as [|a [|b t]]; simpl in Hl; try lia. reflexivity.
Qed.

Lemma or_loop : forall t acc r, (forall x, In x t -> TLp x) -> stop0 r ->
  exists f, P f (SOrLoop acc) (flat_map (fun x => TOr :: at_ 1 x) t ++ r) = OK (EChoice (acc ++ t)) r.
Proof.
  induction t as [|a t IH]; intros acc r HT Hr.
  - exists 1. rewrite app_nil_r. cbn [flat_map app]. dtok r; simpl in Hr; tauto || reflexivity.
  - cbn [flat_map app]. rewrite <- app_assoc.
    set (rest := flat_map (fun x => TOr :: at_ 1 x) t ++ r).
    assert (Hrest : stop1 rest). { unfold rest. destruct t; simpl; [now apply stop0_stop1|exact I]. }
    destruct (HT a (or_introl eq_refl) rest Hrest) as [f1 H1].
    destruct (IH (acc ++ [a]) r (fun x Hx => HT x (or_intror Hx)) Hr) as [f2 H2].
    rewrite <- app_assoc in H2. cbn [app] in H2. fold rest in H2.
    exists (S (f1 + f2)). up (f1+f2) H1. up (f1+f2) H2. rewrite unf_orloop, H1, H2. reflexivity.
Qed.

Lemma N0 a t : t <> [] -> TLp a -> (forall x, In x t -> TLp x) -> Ep (EChoice (a :: t)).
Proof.
  intros Ht Ha HT r Hr. rewrite pr_choice, <- app_assoc.
  set (rest := flat_map (fun x => TOr :: at_ 1 x) t ++ r).
  assert (Hrest : exists r0, rest = TOr :: r0). { unfold rest. destruct t; [congruence|]. simpl. eauto. }
  destruct Hrest as [r0 Hr0].
  destruct (Ha rest) as [f1 H1]. { rewrite Hr0. exact I. }
  destruct (or_loop t [a] r HT Hr) as [f2 H2]. fold rest in H2.
  exists (S (f1 + f2)). up (f1+f2) H1. up (f1+f2) H2. rewrite unf_expr, H1. rewrite Hr0 in *. rewrite H2. reflexivity.
Qed.

(* ---------- main induction ---------- *)
Definition All e := Fp e /\ T2G e /\ TG e /\ TLp e /\ Ep e.

Lemma from_F e : level e = 4 -> Fp e -> All e.
Proof. intros L F. assert (T2 : T2G e) by (apply D2; auto; lia). assert (T : TG e) by (apply D3; auto; lia).
  assert (TL : TLp e) by (apply D4; auto; lia). assert (E : Ep e) by (apply D5; auto; lia). repeat split; auto. Qed.

Lemma In_szl x l : In x l -> sz x <= szl l.
Proof. induction l; simpl; [tauto|]. intros [->|H]; [lia|]. apply IHl in H. lia. Qed.
Lemma wfl_in x l : wfl l -> In x l -> wf x.
Proof. induction l; simpl; [tauto|]. intros [A B] [->|H]; auto. Qed.

Theorem all_levels : forall n e, sz e <= n -> wf e -> All e.
Proof.
  induction n as [|n IH]; intros e Hs Hw. { destruct e; simpl in Hs; lia. }
  destruct e.
  - apply from_F; [reflexivity|]. intros r. exists 1. reflexivity.
  - apply from_F; [reflexivity|]. intros r. exists 1. reflexivity.
  - apply from_F; [reflexivity|]. apply N4_un. simpl in *. apply IH; auto; lia.
  - simpl in Hs, Hw. destruct Hw as [Hx Hy].
    destruct (IH e1) as (F1 & T21 & T1 & TL1 & E1); auto; try lia.
    destruct (IH e2) as (F2 & T22 & T2 & TL2 & E2); auto; try lia.
    destruct o.
    + assert (T : TG (EBin BRem e1 e2)) by (apply N2; auto).
      assert (TL : TLp (EBin BRem e1 e2)) by (apply D4; auto; simpl; lia).
      assert (E : Ep (EBin BRem e1 e2)) by (apply D5; auto; simpl; lia).
      assert (F : Fp (EBin BRem e1 e2)) by (apply D1; auto; simpl; lia).
      assert (T2' : T2G (EBin BRem e1 e2)) by (apply D2; auto; simpl; lia).
      repeat split; auto.
    + assert (T2' : T2G (EBin BInc e1 e2)) by (apply N3; auto).
      assert (T : TG (EBin BInc e1 e2)) by (apply D3; auto; simpl; lia).
      assert (TL : TLp (EBin BInc e1 e2)) by (apply D4; auto; simpl; lia).
      assert (E : Ep (EBin BInc e1 e2)) by (apply D5; auto; simpl; lia).
      assert (F : Fp (EBin BInc e1 e2)) by (apply D1; auto; simpl; lia).
      repeat split; auto.
  - apply wf_seq in Hw as [Hl Hw]. simpl in Hs. fold (szl l) in Hs.
    assert (HA : forall x, In x l -> All x). { intros x Hx. apply IH; [apply In_szl in Hx; lia|eapply wfl_in; eauto]. }
    assert (TL : TLp (ESeq l)) by (apply N1; auto; intros x Hx; apply HA; auto).
    assert (E : Ep (ESeq l)) by (apply D5; auto; simpl; lia).
    assert (F : Fp (ESeq l)) by (apply D1; auto; simpl; lia).
    assert (T2' : T2G (ESeq l)) by (apply D2; auto; simpl; lia).
    assert (T : TG (ESeq l)) by (apply D3; auto; simpl; lia).
    repeat split; auto.
  - apply wf_choice in Hw as [Hl Hw]. simpl in Hs. fold (szl l) in Hs.
    assert (HA : forall x, In x l -> All x). { intros x Hx. apply IH; [apply In_szl in Hx; lia|eapply wfl_in; eauto]. }
    destruct l as [|a t]; [simpl in Hl; lia|].
    assert (E : Ep (EChoice (a :: t))).
    { apply N0. - destruct t; simpl in Hl; [lia|congruence].
      - apply HA; left; auto. - intros x Hx; apply HA; right; auto. }
    assert (F : Fp (EChoice (a :: t))) by (apply D1; auto; simpl; lia).
    assert (T2' : T2G (EChoice (a :: t))) by (apply D2; auto; simpl; lia).
    assert (T : TG (EChoice (a :: t))) by (apply D3; auto; simpl; lia).
    assert (TL : TLp (EChoice (a :: t))) by (apply D4; auto; simpl; lia).
    repeat split; auto.
  - destruct Hw.
Qed.

(* round trip for some fuel, any continuation that cannot extend the expression *)
Lemma parse_print_some_fuel e r : wf e -> stop0 r -> exists f, P f SExpr (pr e ++ r) = Some (Some e, r, 0).
Proof. intros Hw Hr. destruct (all_levels (sz e) e (le_n _) Hw) as (_ & _ & _ & _ & E). apply E. exact Hr. Qed.

(* ---------- fuel_of suffices: termination of the parser ---------- *)
Definition rank (s : st) : nat :=
  match s with SExpr => 4 | STermList _ => 3 | STerm => 2 | STerm2 => 1 | _ => 0 end.
Definition strict (s : st) : bool := match s with SFactor | STerm2 | STerm => true | _ => false end.

Ltac fin := eexists _, _, _; split; [reflexivity|]; split;
  [cbn [length] in *; lia | intros; cbn [length strict] in *; try discriminate; try congruence; try lia].

Lemma P_total : forall f s ts, 8 * length ts + rank s < f ->
  exists x r n, P f s ts = Some (x, r, n) /\ length r <= length ts /\
                (strict s = true -> x <> None -> length r < length ts).
Proof.
  induction f as [|f IH]; intros s ts Hb; [lia|].
  destruct s; cbn [P].
  - (* SExpr *)
    destruct (IH (STermList []) ts) as (x & r & n & E & L & _); [cbn [rank] in *; lia|]. rewrite E.
    destruct x as [t|]; [|fin].
    destruct r as [|t0 r0]; [fin|].
    destruct t0; try fin.
    destruct (IH (SOrLoop [t]) (TOr :: r0)) as (x & r & n' & E' & L' & _); [cbn [rank length] in *; lia|].
    rewrite E'. fin.
  - (* SOrLoop *)
    destruct ts as [|t0 r0]; [fin|]. destruct t0; try fin.
    destruct (IH (STermList []) r0) as (x & r & n & E & L & _); [cbn [rank length] in *; lia|]. rewrite E.
    destruct x as [t|]; [|fin].
    destruct (IH (SOrLoop (acc ++ [t])) r) as (x & r' & n' & E' & L' & _); [cbn [rank length] in *; lia|].
    rewrite E'. fin.
  - (* STermList *)
    destruct (IH STerm ts) as (x & r & n & E & L & St); [cbn [rank] in *; lia|]. rewrite E.
    destruct x as [t|].
    + assert (length r < length ts) by (apply St; [reflexivity|discriminate]).
      destruct (IH (STermList (acc ++ [t])) r) as (x & r' & n' & E' & L' & _); [cbn [rank] in *; lia|].
      rewrite E'. fin.
    + destruct (mkseq acc) as [e m]. fin.
  - (* STerm *)
    destruct (IH STerm2 ts) as (x & r & n & E & L & St); [cbn [rank] in *; lia|]. rewrite E.
    destruct x as [t|]; [|fin].
    assert (length r < length ts) by (apply St; [reflexivity|discriminate]).
    destruct (IH (SRemLoop t) r) as (x & r' & n' & E' & L' & _); [cbn [rank] in *; lia|].
    rewrite E'. fin.
  - (* SRemLoop *)
    destruct ts as [|t0 r0]; [fin|]. destruct t0; try fin. destruct o; try fin.
    destruct (IH STerm2 r0) as (y & r & n & E & L & St); [cbn [rank length] in *; lia|]. rewrite E.
    destruct y as [y|]; [|fin].
    destruct (IH (SRemLoop (EBin BRem x y)) r) as (z & r' & n' & E' & L' & _); [cbn [rank length] in *; lia|].
    rewrite E'. fin.
  - (* STerm2 *)
    destruct (IH SFactor ts) as (x & r & n & E & L & St); [cbn [rank] in *; lia|]. rewrite E.
    destruct x as [t|]; [|fin].
    assert (length r < length ts) by (apply St; [reflexivity|discriminate]).
    destruct (IH (SIncLoop t) r) as (x & r' & n' & E' & L' & _); [cbn [rank] in *; lia|].
    rewrite E'. fin.
  - (* SIncLoop *)
    destruct ts as [|t0 r0]; [fin|]. destruct t0; try fin. destruct o; try fin.
    destruct (IH SFactor r0) as (y & r & n & E & L & St); [cbn [rank length] in *; lia|]. rewrite E.
    destruct y as [y|]; [|fin].
    destruct (IH (SIncLoop (EBin BInc x y)) r) as (z & r' & n' & E' & L' & _); [cbn [rank length] in *; lia|].
    rewrite E'. fin.
  - (* SFactor *)
    destruct ts as [|t0 r0]; [fin|].
    destruct t0; try fin.
    + (* TU *)
      destruct (IH SFactor r0) as (y & r & n & E & L & St); [cbn [rank length] in *; lia|]. rewrite E.
      destruct y as [y|]; fin.
    + (* TLP *)
      destruct (IH SExpr r0) as (y & r & n & E & L & St); [cbn [rank length] in *; lia|]. rewrite E.
      destruct y as [y|]; [|fin].
      destruct r as [|t1 r1]; [fin|].
      destruct t1; fin.
Qed.

Lemma P_fuel_of s ts ts' : length ts' <= length ts ->
  exists x r n, P (fuel_of ts) s ts' = Some (x, r, n) /\ length r <= length ts'.
Proof.
  intros H. destruct (P_total (fuel_of ts) s ts') as (x & r & n & E & L & _).
  - unfold fuel_of. destruct s; cbn [rank]; lia.
  - eauto 8.
Qed.

(* a result obtained with some fuel is the result with the canonical fuel *)
Lemma P_canon f s ts ts' x : length ts' <= length ts -> P f s ts' = Some x -> P (fuel_of ts) s ts' = Some x.
Proof.
  intros Hl H. destruct (P_fuel_of s ts ts' Hl) as (y & r & n & E & _).
  assert (H1 := H). assert (H2 := E).
  apply (P_mono_le _ (f + fuel_of ts)) in H1; [|lia].
  apply (P_mono_le _ (f + fuel_of ts)) in H2; [|lia].
  congruence.
Qed.

(* ---------- no error => the tree is well formed (a missing factor is always an error) ---------- *)
Definition acc_ok (s : st) : Prop :=
  match s with SOrLoop acc | STermList acc => wfl acc | SRemLoop x | SIncLoop x => wf x | _ => True end.
Definition res_ok (s : st) (ts : list tok) (x : ge) : Prop :=
  match s with
  | SOrLoop acc => exists l, x = EChoice l /\ wfl l /\
                             length acc + (match ts with TOr :: _ => 1 | _ => 0 end) <= length l
  | _ => wf x
  end.

Lemma wfl_app a b : wfl a -> wfl b -> wfl (a ++ b).
Proof. induction a; simpl; tauto. Qed.

Lemma mkseq_wf acc : wfl acc -> snd (mkseq acc) = 0 -> wf (fst (mkseq acc)).
Proof.
  destruct acc as [|a [|b t]]; simpl; intros H E; try discriminate; try tauto.
  split; [lia|]. tauto.
Qed.

Lemma P_noerr_wf : forall f s ts x r, P f s ts = Some (Some x, r, 0) -> acc_ok s -> res_ok s ts x.
Proof.
  induction f as [|f IH]; intros s ts x r H Ha; [discriminate|].
  destruct s; cbn [P] in H; cbn [acc_ok res_ok] in *.
  - (* SExpr *)
    destruct (P f (STermList []) ts) as [[[[t|] r1] n]|] eqn:E; try discriminate.
    destruct r1 as [|t0 r0].
    { injection H as <- <- ->. apply (IH _ _ _ _ E). exact I. }
    destruct t0; try (injection H as <- <- ->; apply (IH _ _ _ _ E); exact I).
    destruct (P f (SOrLoop [t]) (TOr :: r0)) as [[[x' r'] m]|] eqn:E'; try discriminate.
    injection H as -> -> Hn. assert (n = 0 /\ m = 0) as [-> ->] by lia.
    pose proof (IH _ _ _ _ E I) as Ht. cbn [res_ok] in Ht.
    destruct (IH _ _ _ _ E') as (l & -> & Hl & Hlen). { cbn [acc_ok wfl]. tauto. }
    apply wf_choice. cbn [length] in Hlen. split; [lia|auto].
  - (* SOrLoop *)
    destruct ts as [|t0 r0].
    { injection H as <- <-. exists acc. repeat split; auto. lia. }
    destruct t0; try (injection H as <- <-; exists acc; repeat split; auto; lia).
    destruct (P f (STermList []) r0) as [[[[t|] r1] n]|] eqn:E; try discriminate.
    destruct (P f (SOrLoop (acc ++ [t])) r1) as [[[x' r'] m]|] eqn:E'; try discriminate.
    injection H as -> -> Hn. assert (n = 0 /\ m = 0) as [-> ->] by lia.
    pose proof (IH _ _ _ _ E I) as Ht. cbn [res_ok] in Ht.
    destruct (IH _ _ _ _ E') as (l & -> & Hl & Hlen).
    { cbn [acc_ok]. apply wfl_app; simpl; auto. }
    exists l. repeat split; auto. rewrite app_length in Hlen. cbn [length] in Hlen. lia.
  - (* STermList *)
    destruct (P f STerm ts) as [[[[t|] r1] n]|] eqn:E; try discriminate.
    + destruct (P f (STermList (acc ++ [t])) r1) as [[[x' r'] m]|] eqn:E'; try discriminate.
      injection H as -> -> Hn. assert (n = 0 /\ m = 0) as [-> ->] by lia.
      pose proof (IH _ _ _ _ E I) as Ht. cbn [res_ok] in Ht.
      apply (IH _ _ _ _ E'). cbn [acc_ok]. apply wfl_app; simpl; auto.
    + pose proof (mkseq_wf acc Ha) as Hm. destruct (mkseq acc) as [e m].
      injection H as <- <- Hn. apply Hm. simpl. lia.
  - (* STerm *)
    destruct (P f STerm2 ts) as [[[[t|] r1] n]|] eqn:E; try discriminate.
    destruct (P f (SRemLoop t) r1) as [[[x' r'] m]|] eqn:E'; try discriminate.
    injection H as -> -> Hn. assert (n = 0 /\ m = 0) as [-> ->] by lia.
    apply (IH _ _ _ _ E'). cbn [acc_ok]. apply (IH _ _ _ _ E I).
  - (* SRemLoop *)
    destruct ts as [|t0 r0]; [injection H as <- <-; auto|].
    destruct t0; try (injection H as <- <-; auto; fail). destruct o; [|injection H as <- <-; auto].
    destruct (P f STerm2 r0) as [[[[y|] r1] n]|] eqn:E; try discriminate.
    destruct (P f (SRemLoop (EBin BRem x0 y)) r1) as [[[x' r'] m]|] eqn:E'; try discriminate.
    injection H as -> -> Hn. assert (n = 0 /\ m = 0) as [-> ->] by lia.
    apply (IH _ _ _ _ E'). cbn [acc_ok wf]. split; auto. apply (IH _ _ _ _ E I).
  - (* STerm2 *)
    destruct (P f SFactor ts) as [[[[t|] r1] n]|] eqn:E; try discriminate.
    destruct (P f (SIncLoop t) r1) as [[[x' r'] m]|] eqn:E'; try discriminate.
    injection H as -> -> Hn. assert (n = 0 /\ m = 0) as [-> ->] by lia.
    apply (IH _ _ _ _ E'). cbn [acc_ok]. apply (IH _ _ _ _ E I).
  - (* SIncLoop *)
    destruct ts as [|t0 r0]; [injection H as <- <-; auto|].
    destruct t0; try (injection H as <- <-; auto; fail). destruct o; [injection H as <- <-; auto|].
    destruct (P f SFactor r0) as [[[[y|] r1] n]|] eqn:E; try discriminate.
    destruct (P f (SIncLoop (EBin BInc x0 y)) r1) as [[[x' r'] m]|] eqn:E'; try discriminate.
    injection H as -> -> Hn. assert (n = 0 /\ m = 0) as [-> ->] by lia.
    apply (IH _ _ _ _ E'). cbn [acc_ok wf]. split; auto. apply (IH _ _ _ _ E I).
  - (* SFactor *)
    destruct ts as [|t0 r0]; [discriminate|].
    destruct t0; try discriminate; try (injection H as <- <-; exact I).
    + destruct (P f SFactor r0) as [[[[y|] r1] n]|] eqn:E; try discriminate.
      injection H as <- <- ->. cbn [wf]. apply (IH _ _ _ _ E I).
    + destruct (P f SExpr r0) as [[[[y|] r1] n]|] eqn:E; try discriminate.
      destruct r1 as [|t1 r1]; [discriminate|].
      destruct t1; try discriminate. injection H as <- <- ->. apply (IH _ _ _ _ E I).
Qed.

(* wf excludes holes *)
Lemma wf_no_hole : forall n e, sz e <= n -> wf e -> has_hole e = false.
Proof.
  induction n as [|n IH]; intros e Hs Hw. { destruct e; simpl in Hs; lia. }
  assert (HE : forall l, szl l <= n -> wfl l -> existsb has_hole l = false).
  { induction l as [|b l IHl]; [reflexivity|]. intros Hz [Hb Hl]. change (sz b + szl l <= n) in Hz.
    cbn [existsb]. rewrite IH; auto; [|lia]. apply IHl; auto. lia. }
  destruct e.
  - reflexivity.
  - reflexivity.
  - simpl in *. apply IH; auto; lia.
  - simpl in *. destruct Hw. rewrite !IH; auto; lia.
  - apply wf_seq in Hw as [Hl Hw]. simpl in Hs. fold (szl l) in Hs.
    destruct l as [|a t]; [simpl in Hl; lia|]. cbn [has_hole]. apply HE; auto. lia.
  - apply wf_choice in Hw as [Hl Hw]. simpl in Hs. fold (szl l) in Hs. cbn [has_hole]. apply HE; auto; lia.
  - destruct Hw.
Qed.

Lemma parse_expr_noerr_wf f ts e r : P f SExpr ts = Some (Some e, r, 0) -> wf e.
Proof. intros H. exact (P_noerr_wf _ _ _ _ _ H I). Qed.

Lemma parse_expr_hole_error f ts e r n :
  P f SExpr ts = Some (Some e, r, n) -> has_hole e = true -> 0 < n.
Proof.
  intros H Hh. destruct n; [|lia]. apply parse_expr_noerr_wf in H.
  rewrite (wf_no_hole (sz e) e (le_n _) H) in Hh. discriminate.
Qed.

(* parseExpr always returns an expression (never nil) *)
Lemma termlist_some : forall f acc ts x r n, P f (STermList acc) ts = Some (x, r, n) -> x <> None.
Proof.
  induction f as [|f IH]; intros acc ts x r n H; [discriminate|]. cbn [P] in H.
  destruct (P f STerm ts) as [[[[t|] r1] n1]|]; try discriminate.
  - destruct (P f (STermList (acc ++ [t])) r1) as [[[x' r'] m]|] eqn:E'; try discriminate.
    injection H as <- <- <-. eapply IH; eauto.
  - destruct (mkseq acc). injection H as <- <- <-. discriminate.
Qed.

Lemma orloop_some : forall f acc ts x r n, P f (SOrLoop acc) ts = Some (x, r, n) -> x <> None.
Proof.
  induction f as [|f IH]; intros acc ts x r n H; [discriminate|]. cbn [P] in H.
  destruct ts as [|t0 r0]; [injection H as <- <- <-; discriminate|].
  destruct t0; try (injection H as <- <- <-; discriminate).
  destruct (P f (STermList []) r0) as [[[[t|] r1] n1]|] eqn:E; try discriminate.
  - destruct (P f (SOrLoop (acc ++ [t])) r1) as [[[x' r'] m]|] eqn:E'; try discriminate.
    injection H as <- <- <-. eapply IH; eauto.
  - apply termlist_some in E. congruence.
Qed.

Lemma expr_some : forall f ts x r n, P f SExpr ts = Some (x, r, n) -> x <> None.
Proof.
  intros f ts x r n H. destruct f; [discriminate|]. cbn [P] in H.
  destruct (P f (STermList []) ts) as [[[[t|] r1] n1]|] eqn:E; try discriminate.
  - destruct r1 as [|t0 r0]; [injection H as <- <- <-; discriminate|].
    destruct t0; try (injection H as <- <- <-; discriminate).
    destruct (P f (SOrLoop [t]) (TOr :: r0)) as [[[x' r'] m]|] eqn:E'; try discriminate.
    injection H as <- <- <-. eapply orloop_some; eauto.
  - apply termlist_some in E. congruence.
Qed.

(* ---------- rules and files ---------- *)
Lemma lambda_loop_len : forall ts l, length (fst (lambda_loop l ts)) <= length ts.
Proof.
  induction ts as [|t ts IH]; intros l; [simpl; lia|].
  destruct t; cbn [lambda_loop length]; try (specialize (IH l); lia).
  - specialize (IH (S l)); lia.
  - destruct l as [|[|l]]; cbn [fst]; try lia. specialize (IH (S l)); lia.
Qed.

Lemma expect_len want ts : length (fst (expect want ts)) <= length ts.
Proof. destruct ts; simpl; lia. Qed.

Lemma rule_body_total T ts : length ts <= length T ->
  exists e r n, parse_rule_body (fuel_of T) ts = Some (e, r, n) /\ length r <= length ts.
Proof.
  intros Hl. unfold parse_rule_body.
  pose proof (expect_len is_assign ts) as L1. destruct (expect is_assign ts) as [r1 n1]. cbn [fst] in L1.
  destruct (P_fuel_of SExpr T r1 ltac:(lia)) as (x & r2 & n2 & E & L2). rewrite E.
  destruct x as [e|]; [|exfalso; eapply expr_some; eauto].
  assert (exists r3 n3, (match r2 with
        | TArrow :: r => let '(r', n') := expect is_lb r in (fst (lambda_loop 1 r'), n')
        | _ => (r2, 0) end) = (r3, n3) /\ length r3 <= length r2) as (r3 & n3 & -> & L3).
  { destruct r2 as [|t r]; [eauto|]. destruct t; eauto.
    pose proof (expect_len is_lb r) as L. destruct (expect is_lb r) as [r' n']. cbn [fst] in L.
    pose proof (lambda_loop_len r' 1). eexists _, _. split; [reflexivity|]. cbn [length]. lia. }
  pose proof (expect_len is_semi r3) as L4. destruct (expect is_semi r3) as [r4 n4]. cbn [fst] in L4.
  eexists _, _, _. split; [reflexivity|]. lia.
Qed.

Lemma file_loop_total T : forall k ts acc n, length ts < k -> length ts <= length T ->
  exists rs m, parse_file_loop k (fuel_of T) ts acc n = Ok (rs, m).
Proof.
  induction k as [|k IH]; intros ts acc n Hk Hl; [lia|]. cbn [parse_file_loop].
  destruct ts as [|t r]; [eauto|]. destruct t; eauto.
  cbn [length] in *. destruct (rule_body_total T r ltac:(lia)) as (e & r' & m & E & L). rewrite E.
  apply IH; lia.
Qed.

Lemma parse_file_total ts : exists rs m, parse_file ts = Ok (rs, m).
Proof. unfold parse_file. apply file_loop_total; lia. Qed.

(* the round trip for a whole file *)
Definition rules_wf (rs : list rule) : Prop := Forall (fun r => wf (snd r)) rs.

Lemma print_file_cons r rs :
  print_file (r :: rs) = TIdent (fst r) :: TAssign :: pr (snd r) ++ TSemi :: print_file rs.
Proof. unfold print_file at 1. cbn [flat_map]. unfold print_rule. cbn [app]. rewrite <- app_assoc. reflexivity. Qed.

Lemma rule_body_print T e rest : wf e -> length (TAssign :: pr e ++ TSemi :: rest) <= length T ->
  parse_rule_body (fuel_of T) (TAssign :: pr e ++ TSemi :: rest) = Some (e, rest, 0).
Proof.
  intros Hw Hl. unfold parse_rule_body. cbn [expect is_assign].
  destruct (parse_print_some_fuel e (TSemi :: rest) Hw I) as [f Hf].
  assert (Hl' : length (pr e ++ TSemi :: rest) <= length T) by (cbn [length] in Hl; lia).
  rewrite (P_canon f SExpr T _ _ Hl' Hf).
  reflexivity.
Qed.

Lemma file_loop_print T : forall rs k acc n, rules_wf rs ->
  length (print_file rs) < k -> length (print_file rs) <= length T ->
  parse_file_loop k (fuel_of T) (print_file rs) acc n = Ok (rev acc ++ rs, n).
Proof.
  induction rs as [|[name e] rs IH]; intros k acc n Hw Hk Hl.
  - destruct k; [simpl in Hk; lia|]. simpl. rewrite app_nil_r. reflexivity.
  - rewrite print_file_cons in *. cbn [fst snd] in *. inversion Hw as [|? ? Hwe Hwr]; subst. cbn [snd] in Hwe.
    destruct k; [simpl in Hk; lia|]. cbn [parse_file_loop].
    rewrite rule_body_print; auto; [|cbn [length] in *; lia].
    rewrite IH; auto.
    + cbn [rev]. rewrite <- app_assoc. cbn [app]. rewrite Nat.add_0_r. reflexivity.
    + cbn [length] in Hk. rewrite app_length in Hk. cbn [length] in Hk. lia.
    + cbn [length] in Hl. rewrite app_length in Hl. cbn [length] in Hl. lia.
Qed.

Lemma parse_file_print rs : rules_wf rs -> parse_file (print_file rs) = Ok (rs, 0).
Proof. intros Hw. unfold parse_file. rewrite file_loop_print; auto. Qed.

(* zero errors => every rule's tree is well formed *)
Lemma rule_body_noerr f ts e r : parse_rule_body f ts = Some (e, r, 0) -> wf e.
Proof.
  unfold parse_rule_body. destruct (expect is_assign ts) as [r1 n1].
  destruct (P f SExpr r1) as [[[[x|] r2] n2]|] eqn:E; try discriminate.
  destruct (match r2 with TArrow :: r => let '(r', n') := expect is_lb r in (fst (lambda_loop 1 r'), n') | _ => (r2, 0) end) as [r3 n3].
  destruct (expect is_semi r3) as [r4 n4]. intros H. injection H as -> _ Hn.
  assert (n2 = 0) as -> by lia. eapply parse_expr_noerr_wf; eauto.
Qed.

Lemma file_loop_noerr F : forall k ts acc n rs m, parse_file_loop k F ts acc n = Ok (rs, m) ->
  n <= m /\ exists new, rs = rev acc ++ new /\ (m = n -> rules_wf new).
Proof.
  induction k as [|k IH]; intros ts acc n rs m H; [discriminate|]. cbn [parse_file_loop] in H.
  assert (Hstop : forall n', Ok (rev acc, n') = Ok (rs, m) -> n <= n' -> (n' = n -> True) ->
                  n <= m /\ exists new, rs = rev acc ++ new /\ (m = n -> rules_wf new)).
  { intros n' E Hle _. injection E as <- <-. split; auto. exists []. rewrite app_nil_r. split; auto. intros _. constructor. }
  destruct ts as [|t r]; [apply (Hstop n); auto|].
  destruct t; try (injection H as <- <-; split; [lia|]; exists []; rewrite app_nil_r; split; auto; intros; lia).
  destruct (parse_rule_body F r) as [[[e r'] n1]|] eqn:E; [|discriminate].
  apply IH in H as (Hle & new & -> & Hwf). split; [lia|].
  exists ((s, e) :: new). split; [cbn [rev]; rewrite <- app_assoc; reflexivity|].
  intros Hm. assert (n1 = 0) as -> by lia. constructor; [cbn [snd]; eapply rule_body_noerr; eauto|apply Hwf; lia].
Qed.

Lemma parse_file_noerr_wf ts rs : parse_file ts = Ok (rs, 0) -> rules_wf rs.
Proof.
  unfold parse_file. intros H. apply file_loop_noerr in H as (_ & new & -> & Hw). simpl. apply Hw. reflexivity.
Qed.

Definition rule_has_hole (r : rule) : bool := has_hole (snd r).

Lemma parse_file_hole_error ts rs n :
  parse_file ts = Ok (rs, n) -> existsb rule_has_hole rs = true -> 0 < n.
Proof.
  intros H Hh. destruct n; [|lia]. apply parse_file_noerr_wf in H.
  apply existsb_exists in Hh as ([name e] & Hi & Hr). unfold rule_has_hole in Hr. cbn [snd] in Hr.
  unfold rules_wf in H. rewrite Forall_forall in H. apply H in Hi. cbn [snd] in Hi.
  rewrite (wf_no_hole (sz e) e (le_n _) Hi) in Hr. discriminate.
Qed.

(* canonical-fuel forms of the expression-level round trip *)
Lemma parse_print_expr e r : wf e -> stop0 r ->
  P (fuel_of (pr e ++ r)) SExpr (pr e ++ r) = Some (Some e, r, 0).
Proof.
  intros Hw Hr. destruct (parse_print_some_fuel e r Hw Hr) as [f Hf].
  eapply P_canon; eauto.
Qed.

Lemma parse_parens_override e r : wf e ->
  P (fuel_of (TLP :: pr e ++ TRP :: r)) SFactor (TLP :: pr e ++ TRP :: r) = Some (Some e, r, 0).
Proof.
  intros Hw. destruct (parse_print_some_fuel e (TRP :: r) Hw I) as [f Hf].
  eapply (P_canon (S f)); [lia|]. cbn [P]. rewrite Hf. reflexivity.
Qed.
