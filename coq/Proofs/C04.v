From Coq Require Import List ZArith Bool Lia.
Import ListNotations.
From V Require Import Base.Prelude Base.RangeOps Model.RangeLoop Gen.RangeLoop.
Open Scope Z_scope.

(* ------------------------------------------------------------------ loop_seq *)
Lemma loop_seq_unf f cmp post i e st :
  loop_seq (S f) cmp post i e st =
  if cmp_eval cmp i e then x <- loop_seq f cmp post (post_eval post i st) e st ;; Ok (i :: x) else Ok [].
Proof. reflexivity. Qed.

Lemma count_pos_nonneg s e st : 0 < st -> 0 <= count_pos s e st.
Proof. intros. unfold count_pos. destruct (s <? e) eqn:E; [apply Z.ltb_lt in E|]; try lia.
  apply Z.div_pos; lia. Qed.

Lemma count_pos_zero s e st : 0 < st -> count_pos s e st = 0 -> e <= s.
Proof. intros H. unfold count_pos. destruct (s <? e) eqn:E; [apply Z.ltb_lt in E|apply Z.ltb_ge in E]; try lia.
  intros H0. assert (1 <= (e - s + st - 1) / st) by (apply Z.div_le_lower_bound; lia). lia. Qed.

Lemma count_pos_succ s e st : 0 < st -> s < e -> count_pos s e st = 1 + count_pos (s + st) e st.
Proof. intros H L. unfold count_pos. apply Z.ltb_lt in L as L'. rewrite L'.
  destruct (s + st <? e) eqn:E; [apply Z.ltb_lt in E|apply Z.ltb_ge in E].
  - replace (e - s + st - 1) with ((e - (s + st) + st - 1) + 1 * st) by lia.
    rewrite Z.div_add by lia. lia.
  - assert ((e - s + st - 1) / st = 1); [|lia].
    symmetry. apply Z.div_unique with (r := e - s - 1); lia. Qed.

Lemma loop_lt_add_pos : forall k fuel s e st, 0 < st -> count_pos s e st = Z.of_nat k -> (k < fuel)%nat ->
  loop_seq fuel CLt PAdd s e st = Ok (arith_list k s st).
Proof.
  induction k as [|k IH]; intros fuel s e st Hst Hc Hf; (destruct fuel as [|f]; [lia|]); rewrite loop_seq_unf; cbn [cmp_eval post_eval].
  - apply count_pos_zero in Hc; auto. apply Z.ltb_ge in Hc. now rewrite Hc.
  - destruct (s <? e) eqn:E; [apply Z.ltb_lt in E|apply Z.ltb_ge in E].
    + assert (Hc' : count_pos (s + st) e st = Z.of_nat k) by (rewrite (count_pos_succ s e st) in Hc; auto; lia).
      rewrite (IH f (s + st) e st Hst Hc') by lia. reflexivity.
    + unfold count_pos in Hc. apply Z.ltb_ge in E. rewrite E in Hc. lia.
Qed.

Lemma count_pos_le_bound s e st : 0 < st -> (Z.to_nat (count_pos s e st) < fuel_bound s e st)%nat.
Proof. intros H. unfold fuel_bound, count_pos. destruct (s <? e) eqn:E; [apply Z.ltb_lt in E|]; [|simpl; lia].
  assert ((e - s + st - 1) / st <= (e - s) / st + 1).
  { replace (e - s + st - 1) with ((e - s - 1) + 1 * st) by lia. rewrite Z.div_add by lia.
    assert ((e - s - 1) / st <= (e - s) / st) by (apply Z.div_le_mono; lia). lia. }
  assert (0 <= (e - s) / st) by (apply Z.div_pos; lia). lia. Qed.

Lemma loop_pos fuel s e st : 0 < st -> (fuel_bound s e st <= fuel)%nat ->
  loop_seq fuel CLt PAdd s e st = Ok (range_list s e st).
Proof. intros H Hf. unfold range_list. apply loop_lt_add_pos; auto.
  - pose proof (count_pos_nonneg s e st H). lia.
  - pose proof (count_pos_le_bound s e st H). lia. Qed.

(* st <= 0: the emitted `v < end; v += step` loop is empty or never ends *)
Lemma loop_nonpos_empty fuel s e st : e <= s -> loop_seq (S fuel) CLt PAdd s e st = Ok [].
Proof. intros H. rewrite loop_seq_unf. cbn [cmp_eval]. apply Z.ltb_ge in H. now rewrite H. Qed.

Lemma loop_nonpos_diverges : forall fuel s e st, st <= 0 -> s < e -> loop_seq fuel CLt PAdd s e st = OutOfFuel.
Proof. induction fuel as [|f IH]; intros s e st H L; [reflexivity|]. rewrite loop_seq_unf. cbn [cmp_eval post_eval].
  apply Z.ltb_lt in L as L'. rewrite L'. rewrite IH; auto; lia. Qed.

(* ------------------------------------------------------------------ the iterator *)
Lemma iter_run_unf f n v st :
  iter_run (S f) n v st = if 0 <? n then x <- iter_run f (n - 1) (v + st) st ;; Ok (v :: x) else Ok [].
Proof. reflexivity. Qed.

Lemma iter_run_arith : forall k fuel n v st, Z.to_nat n = k -> (k < fuel)%nat ->
  iter_run fuel n v st = Ok (arith_list k v st).
Proof. induction k as [|k IH]; intros fuel n v st Hn Hf; (destruct fuel as [|f]; [lia|]); rewrite iter_run_unf.
  - assert (n <= 0) by lia. apply Z.ltb_ge in H. now rewrite H.
  - assert (0 < n) by lia. apply Z.ltb_lt in H as H'. rewrite H'.
    rewrite (IH f (n - 1) (v + st) st); [reflexivity|lia|lia]. Qed.

Lemma quot_nonpos a b : a <= 0 -> 0 < b -> a ÷ b <= 0.
Proof. intros Ha Hb. destruct (Z.eq_dec a 0) as [->|]; [rewrite Z.quot_0_l; lia|].
  assert (0 <= (- a) ÷ b) by (apply Z.quot_pos; lia). rewrite Z.quot_opp_l in H by lia. lia. Qed.

Lemma iter_count_pos s e st : 0 < st -> exists n, iter_count s e st = Ok n /\ Z.to_nat n = Z.to_nat (count_pos s e st).
Proof. intros H. unfold iter_count. apply Z.ltb_lt in H as H'. rewrite H'. eexists; split; [reflexivity|].
  unfold count_pos. destruct (s <? e) eqn:E; [apply Z.ltb_lt in E|apply Z.ltb_ge in E].
  - rewrite Z.quot_div_nonneg by lia. reflexivity.
  - assert ((e - s + st - 1) ÷ st <= 0); [|lia].
    destruct (Z_lt_le_dec 0 (e - s + st - 1)).
    + rewrite Z.quot_small; lia.
    + apply quot_nonpos; lia. Qed.

Lemma iter_pos fuel s e st : 0 < st -> (fuel_bound s e st <= fuel)%nat -> iter_seq fuel s e st = Ok (range_list s e st).
Proof. intros H Hf. unfold iter_seq. destruct (iter_count_pos s e st H) as (n & -> & Hn). cbn [bind].
  unfold range_list. apply iter_run_arith; auto. pose proof (count_pos_le_bound s e st H). lia. Qed.

Lemma count_neg_nonneg s e st : st < 0 -> 0 <= count_neg s e st.
Proof. intros. unfold count_neg. destruct (e <? s) eqn:E; [apply Z.ltb_lt in E|]; try lia. apply Z.div_pos; lia. Qed.

Lemma iter_count_neg s e st : st < 0 -> exists n, iter_count s e st = Ok n /\ Z.to_nat n = Z.to_nat (count_neg s e st).
Proof. intros H. unfold iter_count. assert (H1 : (0 <? st) = false) by (apply Z.ltb_ge; lia).
  assert (H2 : (st =? 0) = false) by (apply Z.eqb_neq; lia). rewrite H1, H2. eexists; split; [reflexivity|].
  assert (Q : forall a, a ÷ st = (- a) ÷ (- st)) by (intros a; rewrite Z.quot_opp_opp; [reflexivity|lia]).
  rewrite Q.
  unfold count_neg. destruct (e <? s) eqn:E; [apply Z.ltb_lt in E|apply Z.ltb_ge in E].
  - replace (- (e - s + st + 1)) with (s - e + - st - 1) by lia.
    rewrite Z.quot_div_nonneg by lia. reflexivity.
  - assert ((- (e - s + st + 1)) ÷ (- st) <= 0); [|lia].
    destruct (Z_lt_le_dec 0 (- (e - s + st + 1))).
    + rewrite Z.quot_small; lia.
    + apply quot_nonpos; lia. Qed.

Definition fuel_bound_neg (s e st : Z) : nat := S (S (Z.to_nat ((s - e) / (- st)))).

Lemma count_neg_le_bound s e st : st < 0 -> (Z.to_nat (count_neg s e st) < fuel_bound_neg s e st)%nat.
Proof. intros H. unfold fuel_bound_neg, count_neg. destruct (e <? s) eqn:E; [apply Z.ltb_lt in E|]; [|simpl; lia].
  assert ((s - e + - st - 1) / - st <= (s - e) / - st + 1).
  { replace (s - e + - st - 1) with ((s - e - 1) + 1 * - st) by lia. rewrite Z.div_add by lia.
    assert ((s - e - 1) / - st <= (s - e) / - st) by (apply Z.div_le_mono; lia). lia. }
  assert (0 <= (s - e) / - st) by (apply Z.div_pos; lia). lia. Qed.

Lemma iter_neg fuel s e st : st < 0 -> (fuel_bound_neg s e st <= fuel)%nat -> iter_seq fuel s e st = Ok (range_list_neg s e st).
Proof. intros H Hf. unfold iter_seq. destruct (iter_count_neg s e st H) as (n & -> & Hn). cbn [bind].
  unfold range_list_neg. apply iter_run_arith; auto. pose proof (count_neg_le_bound s e st H). lia. Qed.

Lemma iter_zero_step fuel s e : iter_seq fuel s e 0 = Panic.
Proof. reflexivity. Qed.

(* ------------------------------------------------------------------ meaning of the closed form *)
Lemma arith_list_nth : forall k v st i, (i < k)%nat -> nth_error (arith_list k v st) i = Some (v + Z.of_nat i * st).
Proof. induction k as [|k IH]; intros v st i Hi; [lia|]. destruct i as [|i]; cbn [arith_list nth_error].
  - f_equal. lia.
  - rewrite IH by lia. f_equal. lia. Qed.

Lemma arith_list_length k v st : length (arith_list k v st) = k.
Proof. revert v; induction k; intros; simpl; auto. Qed.

Lemma range_list_bounds s e st : 0 < st -> forall i x, nth_error (range_list s e st) i = Some x ->
  x = s + Z.of_nat i * st /\ s <= x < e.
Proof. intros H i x Hn. unfold range_list in Hn.
  assert (Hi : (i < Z.to_nat (count_pos s e st))%nat).
  { rewrite <- (arith_list_length (Z.to_nat (count_pos s e st)) s st). apply nth_error_Some. congruence. }
  rewrite arith_list_nth in Hn by auto. injection Hn as <-. split; [reflexivity|].
  unfold count_pos in Hi. destruct (s <? e) eqn:E; [apply Z.ltb_lt in E|simpl in Hi; lia].
  assert (H1 : Z.of_nat i + 1 <= (e - s + st - 1) / st) by lia.
  assert (st * (Z.of_nat i + 1) <= e - s + st - 1).
  { etransitivity; [apply Z.mul_le_mono_nonneg_l; [lia|exact H1]|]. apply Z.mul_div_le. lia. }
  nia. Qed.

(* maximal: the element after the last one would not be below e *)
Lemma range_list_maximal s e st : 0 < st -> e <= s + count_pos s e st * st.
Proof. intros H. unfold count_pos. destruct (s <? e) eqn:E; [apply Z.ltb_lt in E|apply Z.ltb_ge in E]; [|lia].
  pose proof (Z.mul_succ_div_gt (e - s + st - 1) st H). nia. Qed.

Lemma range_list_meaning : forall s e st, 0 < st ->
  (forall i x, nth_error (range_list s e st) i = Some x -> x = s + Z.of_nat i * st /\ s <= x < e) /\
  e <= s + Z.of_nat (length (range_list s e st)) * st \/ e <= s.
Proof. intros s e st H. destruct (Z_lt_le_dec s e); [left|right; auto]. split.
  - apply range_list_bounds; auto.
  - unfold range_list. rewrite arith_list_length. pose proof (range_list_maximal s e st H).
    pose proof (count_pos_nonneg s e st H). rewrite Z2Nat.id; auto. Qed.

(* ------------------------------------------------------------------ generated shapes *)
Definition oval (s e st : Z) (o : opnd) : Z :=
  match o with OStart => s | OEnd => e | OStep => st | OConst z => z | OSlot _ => 0 end.
Definition pure_opnd (o : opnd) : bool := match o with OSlot _ => false | _ => true end.
Definition pure_opt (o : option opnd) : bool := match o with Some o' => pure_opnd o' | None => true end.
(* an operand whose value cannot change while the loop runs, resolved through the init statement *)
Definition fixed_opnd (sh : loop_shape) (o : opnd) : option opnd :=
  match o with
  | OSlot SVar => None
  | OSlot STmpEnd => ls_init_end sh
  | OSlot STmpStep => ls_init_step sh
  | _ => Some o
  end.
(* view of a shape as  `v := a; v cmp b; v post= c`  with a, b, c loop-invariant operands *)
Definition shape_view (sh : loop_shape) : option (opnd * cmpop * opnd * postop * opnd) :=
  if pure_opnd (ls_init_var sh) && pure_opt (ls_init_end sh) && pure_opt (ls_init_step sh) then
    match ls_cond_lhs sh, ls_post_lhs sh, fixed_opnd sh (ls_cond_rhs sh), fixed_opnd sh (ls_post_rhs sh) with
    | OSlot SVar, SVar, Some b, Some c => Some (ls_init_var sh, ls_cond_op sh, b, ls_post_op sh, c)
    | _, _, _, _ => None
    end
  else None.

Lemma rd_pure q s e st o : pure_opnd o = true -> rd q s e st o = Ok (oval s e st o).
Proof. destruct o; simpl; intros; try reflexivity; discriminate. Qed.

Definition qst (sh : loop_shape) (s e st v : Z) : lstate :=
  {| st_var := Some v;
     st_end := option_map (oval s e st) (ls_init_end sh);
     st_step := option_map (oval s e st) (ls_init_step sh) |}.

Lemma rd_fixed sh s e st v o b :
  fixed_opnd sh o = Some b -> rd (qst sh s e st v) s e st o = Ok (oval s e st b).
Proof. destruct o as [| | |x|z]; simpl; try (intros H; injection H as <-; reflexivity).
  destruct x; simpl; try discriminate; intros H; rewrite H; reflexivity. Qed.

Lemma shape_view_inv sh a cmp b post c : shape_view sh = Some (a, cmp, b, post, c) ->
  pure_opnd (ls_init_var sh) = true /\ pure_opt (ls_init_end sh) = true /\ pure_opt (ls_init_step sh) = true /\
  ls_cond_lhs sh = OSlot SVar /\ ls_post_lhs sh = SVar /\
  fixed_opnd sh (ls_cond_rhs sh) = Some b /\ fixed_opnd sh (ls_post_rhs sh) = Some c /\
  a = ls_init_var sh /\ cmp = ls_cond_op sh /\ post = ls_post_op sh.
Proof.
  unfold shape_view. destruct (pure_opnd (ls_init_var sh)); [|discriminate].
  destruct (pure_opt (ls_init_end sh)); [|discriminate].
  destruct (pure_opt (ls_init_step sh)); [|discriminate]. cbn [andb].
  destruct (ls_cond_lhs sh) as [| | |[| |]|]; try discriminate.
  destruct (ls_post_lhs sh); try discriminate.
  destruct (fixed_opnd sh (ls_cond_rhs sh)); try discriminate.
  destruct (fixed_opnd sh (ls_post_rhs sh)); try discriminate.
  intros H; injection H as <- <- <- <- <-. repeat split; reflexivity. Qed.

Lemma shape_loop_view sh a cmp b post c s e st :
  shape_view sh = Some (a, cmp, b, post, c) ->
  forall fuel v,
  shape_loop fuel sh (qst sh s e st v) s e st = loop_seq fuel cmp post v (oval s e st b) (oval s e st c).
Proof.
  intros V. apply shape_view_inv in V as (P0 & P1 & P2 & Ec & Ep & Eb & Ecc & -> & -> & ->).
  induction fuel as [|f IH]; intros v; [reflexivity|].
  cbn [shape_loop loop_seq]. rewrite Ec, Ep.
  rewrite (rd_fixed sh s e st v _ _ Eb). rewrite (rd_fixed sh s e st v _ _ Ecc).
  cbn [rd get_slot st_var qst bind].
  destruct (cmp_eval (ls_cond_op sh) v (oval s e st b)); [|reflexivity].
  change (set_slot _ SVar ?z) with (qst sh s e st z). rewrite IH. reflexivity.
Qed.

Lemma run_shape_view sh a cmp b post c fuel s e st :
  shape_view sh = Some (a, cmp, b, post, c) ->
  run_shape fuel sh s e st = loop_seq fuel cmp post (oval s e st a) (oval s e st b) (oval s e st c).
Proof.
  intros H. pose proof (shape_loop_view sh a cmp b post c s e st H fuel (oval s e st a)) as L.
  apply shape_view_inv in H as (P0 & P1 & P2 & _ & _ & _ & _ & -> & _ & _).
  unfold run_shape, init_state. rewrite (rd_pure _ _ _ _ _ P0). cbn [bind].
  assert (R : forall o, pure_opt o = true -> rd_opt st0 s e st o = Ok (option_map (oval s e st) o)).
  { intros [o|] Po; [|reflexivity]. simpl in *. now rewrite (rd_pure _ _ _ _ _ Po). }
  rewrite (R _ P1), (R _ P2). cbn [bind]. exact L.
Qed.

(* the obligation on the generated table: every template is the canonical `<`/`+=` loop over the
   expected operands *)
Definition opnd_is (a a' : opnd) : bool :=
  match a, a' with
  | OStart, OStart | OEnd, OEnd | OStep, OStep => true
  | OConst x, OConst y => Z.eqb x y
  | _, _ => false
  end.
Lemma opnd_is_sound a a' : opnd_is a a' = true -> a' = a /\ pure_opnd a' = true.
Proof. destruct a, a'; simpl; try discriminate; auto. intros H. apply Z.eqb_eq in H. subst. auto. Qed.

Definition view_is (a b c : opnd) (sh : loop_shape) : bool :=
  match shape_view sh with
  | Some (a', CLt, b', PAdd, c') => opnd_is a a' && opnd_is b b' && opnd_is c c'
  | _ => false
  end.

Lemma view_is_sound a b c sh fuel s e st : view_is a b c sh = true ->
  run_shape fuel sh s e st = loop_seq fuel CLt PAdd (oval s e st a) (oval s e st b) (oval s e st c).
Proof. unfold view_is. destruct (shape_view sh) as [[[[[a' cmp] b'] post] c']|] eqn:V; [|discriminate].
  destruct cmp; try discriminate. destruct post; try discriminate. intros H.
  apply andb_prop in H as [H Hc]. apply andb_prop in H as [Ha Hb].
  rewrite (run_shape_view _ _ _ _ _ _ fuel s e st V).
  apply opnd_is_sound in Ha as [-> _]. apply opnd_is_sound in Hb as [-> _]. apply opnd_is_sound in Hc as [-> _].
  reflexivity. Qed.

Definition args_is (a b c : opnd) (l : list opnd) : bool :=
  match l with
  | [a'; b'; c'] => opnd_is a a' && opnd_is b b' && opnd_is c c'
  | _ => false
  end.

Lemma args_is_sound a b c l fuel s e st : args_is a b c l = true ->
  iter_of_args fuel l s e st = iter_seq fuel (oval s e st a) (oval s e st b) (oval s e st c).
Proof. destruct l as [|a' [|b' [|c' [|]]]]; try discriminate. unfold args_is. intros H.
  apply andb_prop in H as [H Hc]. apply andb_prop in H as [Ha Hb].
  apply opnd_is_sound in Ha as [-> Pa]. apply opnd_is_sound in Hb as [-> Pb]. apply opnd_is_sound in Hc as [-> Pc].
  unfold iter_of_args. rewrite !rd_pure by auto. reflexivity. Qed.

(* table obligations, by computation on the generated data *)
Lemma gen_shapes_full : forallb (view_is OStart OEnd OStep) shapes_full = true.
Proof. vm_compute. reflexivity. Qed.
Lemma gen_shapes_defaults : forallb (view_is (OConst 0) OEnd (OConst 1)) shapes_defaults = true.
Proof. vm_compute. reflexivity. Qed.
Lemma gen_shapes_nostep : forallb (view_is OStart OEnd (OConst 1)) shapes_nostep = true.
Proof. vm_compute. reflexivity. Qed.
Lemma gen_ranges_full : forallb (args_is OStart OEnd OStep) ranges_full = true.
Proof. vm_compute. reflexivity. Qed.
Lemma gen_ranges_defaults : forallb (args_is (OConst 0) OEnd (OConst 1)) ranges_defaults = true.
Proof. vm_compute. reflexivity. Qed.
Lemma gen_ranges_nostep : forallb (args_is OStart OEnd (OConst 1)) ranges_nostep = true.
Proof. vm_compute. reflexivity. Qed.
Lemma gen_nonempty : shapes_full <> [] /\ ranges_full <> [] /\ shapes_defaults <> [] /\ ranges_defaults <> [] /\ shapes_nostep <> [] /\ ranges_nostep <> [].
Proof. repeat split; discriminate. Qed.

(* ------------------------------------------------------------------ the property *)
Lemma contexts_agree_pos s e st : 0 < st -> forall fuel, (fuel_bound s e st <= fuel)%nat ->
  Forall (fun sh => run_shape fuel sh s e st = Ok (range_list s e st)) shapes_full /\
  Forall (fun a => iter_of_args fuel a s e st = Ok (range_list s e st)) ranges_full.
Proof. intros H fuel Hf. split; apply Forall_forall.
  - intros sh Hin. pose proof gen_shapes_full as G. rewrite forallb_forall in G.
    rewrite (view_is_sound _ _ _ _ fuel s e st (G _ Hin)). cbn [oval]. now apply loop_pos.
  - intros a Hin. pose proof gen_ranges_full as G. rewrite forallb_forall in G.
    rewrite (args_is_sound _ _ _ _ fuel s e st (G _ Hin)). cbn [oval]. now apply iter_pos. Qed.

Lemma defaults_agree e : forall fuel, (fuel_bound 0 e 1 <= fuel)%nat ->
  Forall (fun sh => forall s st, run_shape fuel sh s e st = Ok (range_list 0 e 1)) shapes_defaults /\
  Forall (fun a => forall s st, iter_of_args fuel a s e st = Ok (range_list 0 e 1)) ranges_defaults.
Proof. intros fuel Hf. split; apply Forall_forall.
  - intros sh Hin s st. pose proof gen_shapes_defaults as G. rewrite forallb_forall in G.
    rewrite (view_is_sound _ _ _ _ fuel s e st (G _ Hin)). cbn [oval]. apply loop_pos; auto; lia.
  - intros a Hin s st. pose proof gen_ranges_defaults as G. rewrite forallb_forall in G.
    rewrite (args_is_sound _ _ _ _ fuel s e st (G _ Hin)). cbn [oval]. apply iter_pos; auto; lia. Qed.

Lemma nostep_agree s e : forall fuel, (fuel_bound s e 1 <= fuel)%nat ->
  Forall (fun sh => forall st, run_shape fuel sh s e st = Ok (range_list s e 1)) shapes_nostep /\
  Forall (fun a => forall st, iter_of_args fuel a s e st = Ok (range_list s e 1)) ranges_nostep.
Proof. intros fuel Hf. split; apply Forall_forall.
  - intros sh Hin st. pose proof gen_shapes_nostep as G. rewrite forallb_forall in G.
    rewrite (view_is_sound _ _ _ _ fuel s e st (G _ Hin)). cbn [oval]. apply loop_pos; auto; lia.
  - intros a Hin st. pose proof gen_ranges_nostep as G. rewrite forallb_forall in G.
    rewrite (args_is_sound _ _ _ _ fuel s e st (G _ Hin)). cbn [oval]. apply iter_pos; auto; lia. Qed.

(* what the code does for a negative step: the statement contexts are empty or do not terminate,
   the comprehension counts down *)
Lemma negstep_characterised s e st : st < 0 ->
  Forall (fun sh => (e <= s -> forall fuel, run_shape (S fuel) sh s e st = Ok []) /\
                    (s < e -> forall fuel, run_shape fuel sh s e st = OutOfFuel)) shapes_full /\
  Forall (fun a => forall fuel, (fuel_bound_neg s e st <= fuel)%nat ->
                    iter_of_args fuel a s e st = Ok (range_list_neg s e st)) ranges_full.
Proof. intros H. split; apply Forall_forall.
  - intros sh Hin. pose proof gen_shapes_full as G. rewrite forallb_forall in G. split; intros L fuel.
    + rewrite (view_is_sound _ _ _ _ (S fuel) s e st (G _ Hin)). cbn [oval]. now apply loop_nonpos_empty.
    + rewrite (view_is_sound _ _ _ _ fuel s e st (G _ Hin)). cbn [oval]. apply loop_nonpos_diverges; lia.
  - intros a Hin fuel Hf. pose proof gen_ranges_full as G. rewrite forallb_forall in G.
    rewrite (args_is_sound _ _ _ _ fuel s e st (G _ Hin)). cbn [oval]. now apply iter_neg. Qed.

Lemma contexts_refuted : exists s e st, st <> 0 /\
  exists sh a, In sh shapes_full /\ In a ranges_full /\
    run_shape 8 sh s e st = Ok [] /\ iter_of_args 8 a s e st = Ok [5; 4; 3; 2; 1].
Proof. exists 5, 0, (-1). split; [lia|]. exists shape_forin_ident, range_compr_ident.
  repeat split; try (vm_compute; auto; fail). Qed.
